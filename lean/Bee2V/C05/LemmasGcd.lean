/-
C05 — helper lemmas for the binary gcd family (PropsGcd.lean).
-/
import Bee2V.C05.ModelGcd
import Bee2V.C05.LemmasAdd
import Mathlib.Data.Int.GCD
import Mathlib.Data.Nat.ModEq
import Mathlib.Tactic.Ring
import Mathlib.Tactic.Linarith
import Mathlib.Tactic.LinearCombination
import Mathlib.Tactic.Zify
namespace Bee2V.C05.Gcd
open Bee2V.C05 Bee2V.C05.Add

/-! ## parity and gcd -/

theorem coprime_two_of_odd {v : Nat} (hv : v % 2 = 1) : Nat.Coprime 2 v := by
  unfold Nat.Coprime
  rw [Nat.gcd_rec, hv]
  rfl

theorem gcd_half_left {u v : Nat} (hu : u % 2 = 0) (hv : v % 2 = 1) :
    Nat.gcd (u / 2) v = Nat.gcd u v := by
  have h : u = 2 * (u / 2) := by omega
  conv_rhs => rw [h]
  exact (Nat.Coprime.gcd_mul_left_cancel (u / 2) (coprime_two_of_odd hv)).symm

theorem gcd_half_right {u v : Nat} (hu : u % 2 = 1) (hv : v % 2 = 0) :
    Nat.gcd u (v / 2) = Nat.gcd u v := by
  rw [Nat.gcd_comm, gcd_half_left hv hu, Nat.gcd_comm]

/-- an odd modulus divides `x` as soon as it divides `2 x` -/
theorem odd_cancel2 {m : Nat} (hm : m % 2 = 1) {x : ℤ} (h : (m : ℤ) ∣ 2 * x) : (m : ℤ) ∣ x := by
  obtain ⟨k, hk⟩ := h
  have hc : (m : ℤ) = 2 * ((m / 2 : Nat) : ℤ) + 1 := by
    exact_mod_cast (by omega : m = 2 * (m / 2) + 1)
  refine ⟨x - ((m / 2 : Nat) : ℤ) * k, ?_⟩
  linear_combination (-((m / 2 : Nat) : ℤ)) * hk - x * hc

/-! ## zzDivMod -/

/-- `da <- da / 2` or `(da + mod) / 2`: the new value is below mod and doubles to `da (+ mod)` -/
theorem halfStep {m da : Nat} (hm : m % 2 = 1) (hda : da < m) :
    (if da % 2 = 0 then da / 2 else (da + m) / 2) < m
    ∧ ∃ e : ℤ, 2 * ((if da % 2 = 0 then da / 2 else (da + m) / 2 : Nat) : ℤ) = da + e * m := by
  by_cases h : da % 2 = 0
  · rw [if_pos h]
    refine ⟨by omega, 0, ?_⟩
    have h2 : 2 * (da / 2) = da := by omega
    have : (2 : ℤ) * ((da / 2 : Nat) : ℤ) = da := by exact_mod_cast h2
    linear_combination this
  · rw [if_neg h]
    refine ⟨by omega, 1, ?_⟩
    have h2 : 2 * ((da + m) / 2) = da + m := by omega
    have : (2 : ℤ) * (((da + m) / 2 : Nat) : ℤ) = da + m := by exact_mod_cast h2
    linear_combination this

theorem halveMod_spec (m : Nat) (P : Nat → Nat → Prop)
    (hstep : ∀ u da, 0 < u → u % 2 = 0 → P u da →
      P (u / 2) (if da % 2 = 0 then da / 2 else (da + m) / 2)) :
    ∀ f u da, 0 < u → u ≤ f → P u da →
      P (halveMod m f u da).1 (halveMod m f u da).2 ∧ (halveMod m f u da).1 % 2 = 1
      ∧ 0 < (halveMod m f u da).1 ∧ (halveMod m f u da).1 ≤ u := by
  intro f
  induction f with
  | zero => intro u da hu hf; omega
  | succ f ih =>
    intro u da hu hf hP
    unfold halveMod
    by_cases he : u % 2 = 0
    · rw [if_pos he]
      obtain ⟨h1, h2, h3, h4⟩ := ih (u / 2) _ (by omega) (by omega) (hstep u da hu he hP)
      exact ⟨h1, h2, h3, by omega⟩
    · rw [if_neg he]
      exact ⟨hP, by omega, hu, Nat.le_refl _⟩

theorem addRed_spec {x y m : Nat} (hx : x < m) (hy : y < m) :
    addRed x y m < m ∧ ∃ e : ℤ, (addRed x y m : ℤ) = x + y - e * m := by
  unfold addRed
  by_cases h : x + y ≥ m
  · rw [if_pos h]
    refine ⟨by omega, 1, ?_⟩
    rw [Nat.cast_sub h]; push_cast; ring
  · rw [if_neg h]
    exact ⟨by omega, 0, by push_cast; ring⟩

theorem zzDivModLoop_spec (d a m : Nat) (hm : m % 2 = 1) :
    ∀ f u v da da1, 0 < u → (u % 2 = 1 ∨ v % 2 = 1) → Nat.gcd u v = Nat.gcd a m →
      da < m → da1 < m → (m : ℤ) ∣ (da : ℤ) * a - d * u → (m : ℤ) ∣ (da1 : ℤ) * a + d * v →
      u + v < f →
      (zzDivModLoop m f u v da da1).1 = Nat.gcd a m ∧ (zzDivModLoop m f u v da da1).2 < m
      ∧ (m : ℤ) ∣ ((zzDivModLoop m f u v da da1).2 : ℤ) * a - d * (zzDivModLoop m f u v da da1).1 := by
  intro f
  induction f with
  | zero => intro u v da da1 hu; omega
  | succ f ih =>
    intro u v da da1 hu hodd hg hda hda1 hd hd1 hf
    unfold zzDivModLoop
    by_cases hv : v = 0
    · rw [if_pos hv]
      subst hv
      rw [Nat.gcd_zero_right] at hg
      exact ⟨hg, hda, hd⟩
    · rw [if_neg hv]
      simp only []
      -- halve u
      obtain ⟨⟨_, p2, p3, p4⟩, q1, q2, q3⟩ := halveMod_spec m
        (fun u da => (u % 2 = 1 ∨ v % 2 = 1) ∧ Nat.gcd u v = Nat.gcd a m ∧ da < m
          ∧ (m : ℤ) ∣ (da : ℤ) * a - d * u)
        (by
          rintro u da hu0 he ⟨ho, h2, h3, h4⟩
          have hvo : v % 2 = 1 := by omega
          obtain ⟨s1, e, s2⟩ := halfStep hm h3
          refine ⟨Or.inr hvo, by rw [gcd_half_left he hvo, h2], s1, ?_⟩
          apply odd_cancel2 hm
          have hu2 : (2 : ℤ) * ((u / 2 : Nat) : ℤ) = u := by
            exact_mod_cast (by omega : 2 * (u / 2) = u)
          obtain ⟨k, hk⟩ := h4
          refine ⟨k + e * a, ?_⟩
          linear_combination hk + (a : ℤ) * s2 - (d : ℤ) * hu2)
        u u da hu (Nat.le_refl _) ⟨hodd, hg, hda, hd⟩
      generalize (halveMod m u u da).1 = u' at *
      generalize (halveMod m u u da).2 = da' at *
      -- halve v
      obtain ⟨⟨r2, r3, r4⟩, t1, t2, t3⟩ := halveMod_spec m
        (fun v da1 => Nat.gcd u' v = Nat.gcd a m ∧ da1 < m ∧ (m : ℤ) ∣ (da1 : ℤ) * a + d * v)
        (by
          rintro v da1 hv0 he ⟨h2, h3, h4⟩
          obtain ⟨s1, e, s2⟩ := halfStep hm h3
          refine ⟨by rw [gcd_half_right q1 he, h2], s1, ?_⟩
          apply odd_cancel2 hm
          have hv2 : (2 : ℤ) * ((v / 2 : Nat) : ℤ) = v := by
            exact_mod_cast (by omega : 2 * (v / 2) = v)
          obtain ⟨k, hk⟩ := h4
          refine ⟨k + e * a, ?_⟩
          linear_combination hk + (a : ℤ) * s2 + (d : ℤ) * hv2)
        v v da1 (by omega) (Nat.le_refl _) ⟨p2, hda1, hd1⟩
      generalize (halveMod m v v da1).1 = v' at *
      generalize (halveMod m v v da1).2 = da1' at *
      by_cases hgt : u' > v'
      · rw [if_pos hgt]
        obtain ⟨a1, e, a2⟩ := addRed_spec p3 r3
        apply ih
        · omega
        · exact Or.inr t1
        · rw [Nat.gcd_sub_self_left (by omega), r2]
        · exact a1
        · exact r3
        · obtain ⟨k1, hk1⟩ := p4
          obtain ⟨k2, hk2⟩ := r4
          refine ⟨k1 + k2 - e * a, ?_⟩
          rw [Nat.cast_sub (by omega), a2]
          linear_combination hk1 + hk2
        · exact r4
        · omega
      · rw [if_neg hgt]
        obtain ⟨a1, e, a2⟩ := addRed_spec r3 p3
        apply ih
        · exact q2
        · exact Or.inl q1
        · rw [Nat.gcd_sub_self_right (by omega), r2]
        · exact p3
        · exact a1
        · exact p4
        · obtain ⟨k1, hk1⟩ := p4
          obtain ⟨k2, hk2⟩ := r4
          refine ⟨k1 + k2 - e * a, ?_⟩
          rw [Nat.cast_sub (by omega), a2]
          linear_combination hk1 + hk2
        · omega


/-! ## low zero bits, zzGCD -/

theorem loZerosF_spec : ∀ f n, 0 < n → n ≤ f →
    2 ^ loZerosF f n ∣ n ∧ (n / 2 ^ loZerosF f n) % 2 = 1 := by
  intro f
  induction f with
  | zero => intro n h1 h2; omega
  | succ f ih =>
    intro n h1 h2
    unfold loZerosF
    by_cases he : n % 2 = 0
    · rw [if_pos he]
      obtain ⟨i1, i2⟩ := ih (n / 2) (by omega) (by omega)
      have hn : n = 2 * (n / 2) := by omega
      constructor
      · rw [Nat.pow_add, Nat.pow_one]
        conv_rhs => rw [hn]
        exact Nat.mul_dvd_mul_left 2 i1
      · rw [Nat.pow_add, Nat.pow_one, ← Nat.div_div_eq_div_mul]
        exact i2
    · rw [if_neg he]
      simp only [Nat.pow_zero, Nat.div_one]
      exact ⟨Nat.one_dvd n, by omega⟩

theorem loZeros_spec {n : Nat} (hn : 0 < n) :
    2 ^ loZeros n ∣ n ∧ (n / 2 ^ loZeros n) % 2 = 1 :=
  loZerosF_spec n n hn (Nat.le_refl n)

theorem loZeros_odd {n : Nat} (hn : n % 2 = 1) : loZeros n = 0 := by
  unfold loZeros
  cases n with
  | zero => omega
  | succ k => unfold loZerosF; rw [if_neg (by omega)]

/-- stripping the low zero bits of both operands keeps the gcd when one of them is odd -/
theorem gcd_strip {u v : Nat} (hu : 0 < u) (hv : 0 < v) (h : u % 2 = 1 ∨ v % 2 = 1) :
    Nat.gcd (u / 2 ^ loZeros u) (v / 2 ^ loZeros v) = Nat.gcd u v := by
  rcases h with h | h
  · rw [loZeros_odd h, Nat.pow_zero, Nat.div_one]
    obtain ⟨d1, _⟩ := loZeros_spec hv
    conv_rhs => rw [← Nat.div_mul_cancel d1, Nat.gcd_comm, Nat.mul_comm]
    rw [Nat.Coprime.gcd_mul_left_cancel _ (Nat.Coprime.pow_left _ (coprime_two_of_odd h)),
      Nat.gcd_comm]
  · rw [loZeros_odd h, Nat.pow_zero, Nat.div_one]
    obtain ⟨d1, _⟩ := loZeros_spec hu
    conv_rhs => rw [← Nat.div_mul_cancel d1, Nat.mul_comm]
    rw [Nat.Coprime.gcd_mul_left_cancel _ (Nat.Coprime.pow_left _ (coprime_two_of_odd h))]

theorem strip_pos_le {u : Nat} (hu : 0 < u) :
    0 < u / 2 ^ loZeros u ∧ u / 2 ^ loZeros u ≤ u := by
  obtain ⟨_, d2⟩ := loZeros_spec hu
  refine ⟨?_, Nat.div_le_self _ _⟩
  generalize u / 2 ^ loZeros u = x at d2
  omega

theorem zzGCDLoop_spec : ∀ f u v, 0 < u → 0 < v → (u % 2 = 1 ∨ v % 2 = 1) → u + v ≤ f →
    zzGCDLoop f u v = Nat.gcd u v := by
  intro f
  induction f with
  | zero => intro u v hu; omega
  | succ f ih =>
    intro u v hu hv hodd hf
    unfold zzGCDLoop
    simp only []
    have hg := gcd_strip hu hv hodd
    obtain ⟨_, ou⟩ := loZeros_spec hu
    obtain ⟨_, ov⟩ := loZeros_spec hv
    obtain ⟨pu, lu⟩ := strip_pos_le hu
    obtain ⟨pv, lv⟩ := strip_pos_le hv
    generalize u / 2 ^ loZeros u = u1 at *
    generalize v / 2 ^ loZeros v = v1 at *
    rw [← hg]
    by_cases hgt : u1 > v1
    · rw [if_pos hgt, if_pos (by omega), ih _ _ (by omega) pv (Or.inr ov) (by omega),
        Nat.gcd_sub_self_left (by omega)]
    · rw [if_neg hgt]
      by_cases hz : v1 - u1 ≠ 0
      · rw [if_pos hz, ih _ _ pu (by omega) (Or.inl ou) (by omega),
          Nat.gcd_sub_self_right (by omega)]
      · rw [if_neg hz]
        have : u1 = v1 := by omega
        rw [this, Nat.gcd_self]

/-- `s = min(wwLoZeroBits a, wwLoZeroBits b)`: the common power of two -/
theorem shift_common {a b : Nat} (ha : 0 < a) (hb : 0 < b) :
    a / 2 ^ min (loZeros a) (loZeros b) * 2 ^ min (loZeros a) (loZeros b) = a
    ∧ b / 2 ^ min (loZeros a) (loZeros b) * 2 ^ min (loZeros a) (loZeros b) = b
    ∧ ((a / 2 ^ min (loZeros a) (loZeros b)) % 2 = 1 ∨ (b / 2 ^ min (loZeros a) (loZeros b)) % 2 = 1)
    ∧ 0 < a / 2 ^ min (loZeros a) (loZeros b) ∧ 0 < b / 2 ^ min (loZeros a) (loZeros b) := by
  obtain ⟨da, oa⟩ := loZeros_spec ha
  obtain ⟨db, ob⟩ := loZeros_spec hb
  have d1 : 2 ^ min (loZeros a) (loZeros b) ∣ a :=
    Nat.dvd_trans (Nat.pow_dvd_pow 2 (Nat.min_le_left _ _)) da
  have d2 : 2 ^ min (loZeros a) (loZeros b) ∣ b :=
    Nat.dvd_trans (Nat.pow_dvd_pow 2 (Nat.min_le_right _ _)) db
  have hp : 0 < 2 ^ min (loZeros a) (loZeros b) := Nat.two_pow_pos _
  refine ⟨Nat.div_mul_cancel d1, Nat.div_mul_cancel d2, ?_,
    Nat.div_pos (Nat.le_of_dvd ha d1) hp, Nat.div_pos (Nat.le_of_dvd hb d2) hp⟩
  by_cases h : loZeros a ≤ loZeros b
  · rw [Nat.min_eq_left h]; exact Or.inl oa
  · rw [Nat.min_eq_right (by omega)]; exact Or.inr ob


/-! ## zzExGCD -/

theorem halveEx_spec (aa bb : Nat) (P : Nat → Nat → Nat → Prop)
    (hstep : ∀ u da db, 0 < u → u % 2 = 0 → P u da db →
      P (u / 2) (if da % 2 = 0 ∧ db % 2 = 0 then da / 2 else (da + bb) / 2)
        (if da % 2 = 0 ∧ db % 2 = 0 then db / 2 else (db + aa) / 2)) :
    ∀ f u da db, 0 < u → u ≤ f → P u da db →
      P (halveEx aa bb f u da db).1 (halveEx aa bb f u da db).2.1 (halveEx aa bb f u da db).2.2
      ∧ (halveEx aa bb f u da db).1 % 2 = 1
      ∧ 0 < (halveEx aa bb f u da db).1 ∧ (halveEx aa bb f u da db).1 ≤ u := by
  intro f
  induction f with
  | zero => intro u da db hu hf; omega
  | succ f ih =>
    intro u da db hu hf hP
    unfold halveEx
    by_cases he : u % 2 = 0
    · rw [if_pos he]
      have hs := hstep u da db hu he hP
      by_cases hb : da % 2 = 0 ∧ db % 2 = 0
      · rw [if_pos hb] at hs ⊢
        rw [if_pos hb] at hs
        obtain ⟨h1, h2, h3, h4⟩ := ih (u / 2) _ _ (by omega) (by omega) hs
        exact ⟨h1, h2, h3, by omega⟩
      · rw [if_neg hb] at hs ⊢
        rw [if_neg hb] at hs
        obtain ⟨h1, h2, h3, h4⟩ := ih (u / 2) _ _ (by omega) (by omega) hs
        exact ⟨h1, h2, h3, by omega⟩
    · rw [if_neg he]
      exact ⟨hP, by omega, hu, Nat.le_refl _⟩

/-- the parity argument of the comment in zz_gcd.c: if `da aa - db bb` is even, da and db are not
    both even and aa, bb are not both even, then `da + bb` and `db + aa` are even -/
theorem parity_ex {da db aa bb u : Nat} (h : da * aa = u + db * bb) (hu : u % 2 = 0)
    (hab : aa % 2 = 1 ∨ bb % 2 = 1) (hne : ¬ (da % 2 = 0 ∧ db % 2 = 0)) :
    (da + bb) % 2 = 0 ∧ (db + aa) % 2 = 0 := by
  have h2 : (da * aa) % 2 = (u + db * bb) % 2 := by rw [h]
  rw [Nat.mul_mod, Nat.add_mod, Nat.mul_mod db bb, hu] at h2
  rw [Nat.add_mod da bb, Nat.add_mod db aa]
  have hp := Nat.mod_two_eq_zero_or_one da
  have hq := Nat.mod_two_eq_zero_or_one db
  have hr := Nat.mod_two_eq_zero_or_one aa
  have ht := Nat.mod_two_eq_zero_or_one bb
  generalize da % 2 = p at *
  generalize db % 2 = q at *
  generalize aa % 2 = r at *
  generalize bb % 2 = t at *
  rcases hp with rfl | rfl <;> rcases hq with rfl | rfl <;> rcases hr with rfl | rfl <;>
    rcases ht with rfl | rfl <;> omega

/-- one halving step keeps `da aa = u + db bb` and the bounds -/
theorem exHalf {da db aa bb u : Nat} (h : da * aa = u + db * bb) (hu : u % 2 = 0)
    (hab : aa % 2 = 1 ∨ bb % 2 = 1) (hda : da ≤ bb) (hdb : db ≤ aa) :
    (if da % 2 = 0 ∧ db % 2 = 0 then da / 2 else (da + bb) / 2) * aa
      = u / 2 + (if da % 2 = 0 ∧ db % 2 = 0 then db / 2 else (db + aa) / 2) * bb
    ∧ (if da % 2 = 0 ∧ db % 2 = 0 then da / 2 else (da + bb) / 2) ≤ bb
    ∧ (if da % 2 = 0 ∧ db % 2 = 0 then db / 2 else (db + aa) / 2) ≤ aa := by
  have hu2 : u = 2 * (u / 2) := by omega
  by_cases hb : da % 2 = 0 ∧ db % 2 = 0
  · rw [if_pos hb, if_pos hb]
    have e1 : da = 2 * (da / 2) := by omega
    have e2 : db = 2 * (db / 2) := by omega
    refine ⟨?_, by omega, by omega⟩
    generalize da / 2 = x at *
    generalize db / 2 = y at *
    generalize u / 2 = z at *
    subst e1 e2
    rw [hu2] at h
    nlinarith [h]
  · rw [if_neg hb, if_neg hb]
    obtain ⟨p1, p2⟩ := parity_ex h hu hab hb
    have e1 : da + bb = 2 * ((da + bb) / 2) := by omega
    have e2 : db + aa = 2 * ((db + aa) / 2) := by omega
    refine ⟨?_, by omega, by omega⟩
    generalize (da + bb) / 2 = x at *
    generalize (db + aa) / 2 = y at *
    generalize u / 2 = z at *
    have h3 : (da + bb) * aa = u + (db + aa) * bb := by rw [Nat.add_mul, Nat.add_mul, h]; ring
    rw [e1, e2, hu2] at h3
    nlinarith [h3]

/-- the corrections (*) and (**): `da > bb` and `db > aa` happen together -/
theorem exCorr {S T aa bb w : Nat} (h : S * aa = w + T * bb) (hw : w < aa) (hbb : 0 < bb)
    (hS : S ≤ 2 * bb) (hT : T ≤ 2 * aa) :
    (if S > bb then S - bb else S) * aa = w + (if T > aa then T - aa else T) * bb
    ∧ (if S > bb then S - bb else S) ≤ bb ∧ (if T > aa then T - aa else T) ≤ aa := by
  have key : S > bb ↔ T > aa := by
    constructor
    · intro hs
      by_contra hT'
      have h1 : T * bb ≤ aa * bb := Nat.mul_le_mul_right bb (by omega)
      have h2 : (bb + 1) * aa ≤ S * aa := Nat.mul_le_mul_right aa (by omega)
      nlinarith [h1, h2]
    · intro ht
      by_contra hS'
      have h1 : S * aa ≤ bb * aa := Nat.mul_le_mul_right aa (by omega)
      have h2 : (aa + 1) * bb ≤ T * bb := Nat.mul_le_mul_right bb (by omega)
      nlinarith [h1, h2]
  by_cases hs : S > bb
  · have ht := key.mp hs
    rw [if_pos hs, if_pos ht]
    refine ⟨?_, by omega, by omega⟩
    obtain ⟨s, rfl⟩ : ∃ s, S = bb + s := ⟨S - bb, by omega⟩
    obtain ⟨t, rfl⟩ : ∃ t, T = aa + t := ⟨T - aa, by omega⟩
    rw [Nat.add_sub_cancel_left, Nat.add_sub_cancel_left]
    nlinarith [h]
  · have ht : ¬ T > aa := fun h' => hs (key.mpr h')
    rw [if_neg hs, if_neg ht]
    exact ⟨h, by omega, by omega⟩

theorem zzExGCDLoop_spec (aa bb : Nat) (haa : 0 < aa) (hbb : 0 < bb)
    (hab : aa % 2 = 1 ∨ bb % 2 = 1) :
    ∀ f u v da db da1 db1, 0 < u → 0 < v → (u % 2 = 1 ∨ v % 2 = 1) →
      Nat.gcd u v = Nat.gcd aa bb → u ≤ aa → v ≤ bb →
      da ≤ bb → db ≤ aa → da1 ≤ bb → db1 ≤ aa →
      da * aa = u + db * bb → db1 * bb = v + da1 * aa → u + v ≤ f →
      (zzExGCDLoop aa bb f u v da db da1 db1).1 = Nat.gcd aa bb
      ∧ (zzExGCDLoop aa bb f u v da db da1 db1).2.1 * aa
          = Nat.gcd aa bb + (zzExGCDLoop aa bb f u v da db da1 db1).2.2 * bb
      ∧ (zzExGCDLoop aa bb f u v da db da1 db1).2.1 ≤ bb
      ∧ (zzExGCDLoop aa bb f u v da db da1 db1).2.2 ≤ aa := by
  intro f
  induction f with
  | zero => intro u v da db da1 db1 hu; omega
  | succ f ih =>
    intro u v da db da1 db1 hu hv hodd hg hua hvb hda hdb hda1 hdb1 hI hI1 hf
    unfold zzExGCDLoop
    simp only []
    -- halve u
    obtain ⟨⟨_, p2, p3, p4, p5, p6⟩, q1, q2, q3⟩ := halveEx_spec aa bb
      (fun u da db => (u % 2 = 1 ∨ v % 2 = 1) ∧ Nat.gcd u v = Nat.gcd aa bb ∧ da ≤ bb ∧ db ≤ aa
        ∧ da * aa = u + db * bb ∧ u ≤ aa)
      (by
        rintro u da db hu0 he ⟨ho, h2, h3, h4, h5, h6⟩
        have hvo : v % 2 = 1 := by omega
        obtain ⟨s1, s2, s3⟩ := exHalf h5 he hab h3 h4
        exact ⟨Or.inr hvo, by rw [gcd_half_left he hvo, h2], s2, s3, s1, by omega⟩)
      u u da db hu (Nat.le_refl _) ⟨hodd, hg, hda, hdb, hI, hua⟩
    generalize (halveEx aa bb u u da db).1 = u' at *
    generalize (halveEx aa bb u u da db).2.1 = da' at *
    generalize (halveEx aa bb u u da db).2.2 = db' at *
    -- halve v
    obtain ⟨⟨r2, r3, r4, r5, r6⟩, t1, t2, t3⟩ := halveEx_spec aa bb
      (fun v da1 db1 => Nat.gcd u' v = Nat.gcd aa bb ∧ da1 ≤ bb ∧ db1 ≤ aa
        ∧ db1 * bb = v + da1 * aa ∧ v ≤ bb)
      (by
        rintro v da1 db1 hv0 he ⟨h2, h3, h4, h5, h6⟩
        obtain ⟨s1, s2, s3⟩ := exHalf (da := db1) (db := da1) (aa := bb) (bb := aa) h5 he
          (Or.symm hab) h4 h3
        simp only [and_comm (a := db1 % 2 = 0)] at s1 s2 s3
        exact ⟨by rw [gcd_half_right q1 he, h2], s3, s2, s1, by omega⟩)
      v v da1 db1 hv (Nat.le_refl _) ⟨p2, hda1, hdb1, hI1, hvb⟩
    generalize (halveEx aa bb v v da1 db1).1 = v' at *
    generalize (halveEx aa bb v v da1 db1).2.1 = da1' at *
    generalize (halveEx aa bb v v da1 db1).2.2 = db1' at *
    by_cases hgt : u' > v'
    · rw [if_pos hgt, if_pos (by omega)]
      have hsum : (da' + da1') * aa = (u' - v') + (db' + db1') * bb := by
        rw [Nat.add_mul, Nat.add_mul, p5, r5]
        omega
      obtain ⟨c1, c2, c3⟩ := exCorr hsum (by omega) hbb (by omega) (by omega)
      unfold addCorr
      exact ih _ _ _ _ _ _ (by omega) t2 (Or.inr t1) (by rw [Nat.gcd_sub_self_left (by omega), r2])
        (by omega) r6 c2 c3 r3 r4 c1 r5 (by omega)
    · rw [if_neg hgt]
      by_cases hz : v' - u' ≠ 0
      · rw [if_pos hz]
        have hsum : (db1' + db') * bb = (v' - u') + (da1' + da') * aa := by
          rw [Nat.add_mul, Nat.add_mul, p5, r5]
          omega
        obtain ⟨c1, c2, c3⟩ := exCorr hsum (by omega) haa (by omega) (by omega)
        unfold addCorr
        exact ih _ _ _ _ _ _ q2 (by omega) (Or.inl q1)
          (by rw [Nat.gcd_sub_self_right (by omega), r2]) p6 (by omega) p3 p4 c3 c2 p5 c1 (by omega)
      · rw [if_neg hz]
        have hEq : u' = v' := by omega
        rw [← hEq, Nat.gcd_self] at r2
        simp only []
        rw [← r2]
        exact ⟨rfl, p5, p3, p4⟩


/-! ## zzAlmostInvMod (Kaliski) -/

theorem zzAlmostInvLoop_spec (a m : Nat) :
    ∀ f u v da0 da k, 0 < u → 0 < v → (u % 2 = 1 ∨ v % 2 = 1) → Nat.gcd u v = Nat.gcd a m →
      1 ≤ da0 → m = v * da0 + u * da →
      (m : ℤ) ∣ (a : ℤ) * da0 - u * 2 ^ k → (m : ℤ) ∣ (a : ℤ) * da + v * 2 ^ k → u + v ≤ f →
      (zzAlmostInvLoop f u v da0 da k).1 = Nat.gcd a m
      ∧ (m : ℤ) ∣ (a : ℤ) * (zzAlmostInvLoop f u v da0 da k).2.1
          + (zzAlmostInvLoop f u v da0 da k).1 * 2 ^ (zzAlmostInvLoop f u v da0 da k).2.2
      ∧ (zzAlmostInvLoop f u v da0 da k).2.1 < 2 * m
      ∧ 1 ≤ (zzAlmostInvLoop f u v da0 da k).2.2 := by
  intro f
  induction f with
  | zero => intro u v da0 da k hu; omega
  | succ f ih =>
    intro u v da0 da k hu hv hodd hg h0 hm h1 h2 hf
    unfold zzAlmostInvLoop
    by_cases hve : v % 2 = 0
    · -- v even (so u odd): v <- v / 2, da0 <- 2 da0
      rw [if_pos hve, if_pos (by omega)]
      have huo : u % 2 = 1 := by omega
      obtain ⟨w, rfl⟩ : ∃ w, v = 2 * w := ⟨v / 2, by omega⟩
      have hw : 2 * w / 2 = w := by omega
      rw [hw]
      apply ih
      · exact hu
      · omega
      · exact Or.inl huo
      · rw [← hg, ← gcd_half_right huo hve, hw]
      · omega
      · rw [hm]; ring
      · obtain ⟨c, hc⟩ := h1
        exact ⟨2 * c, by push_cast; rw [pow_succ]; linear_combination 2 * hc⟩
      · obtain ⟨c, hc⟩ := h2
        exact ⟨c, by push_cast at hc ⊢; rw [pow_succ]; linear_combination hc⟩
      · omega
    · rw [if_neg hve]
      have hvo : v % 2 = 1 := by omega
      by_cases hue : u % 2 = 0
      · -- u even: u <- u / 2, da <- 2 da
        rw [if_pos hue]
        obtain ⟨w, rfl⟩ : ∃ w, u = 2 * w := ⟨u / 2, by omega⟩
        have hw : 2 * w / 2 = w := by omega
        rw [hw, if_pos (by omega)]
        apply ih
        · omega
        · exact hv
        · exact Or.inr hvo
        · rw [← hg, ← gcd_half_left hue hvo, hw]
        · exact h0
        · rw [hm]; ring
        · obtain ⟨c, hc⟩ := h1
          exact ⟨c, by push_cast at hc ⊢; rw [pow_succ]; linear_combination hc⟩
        · obtain ⟨c, hc⟩ := h2
          exact ⟨2 * c, by push_cast; rw [pow_succ]; linear_combination 2 * hc⟩
        · omega
      · rw [if_neg hue]
        have huo : u % 2 = 1 := by omega
        by_cases hgt : v > u
        · -- v <- (v - u) / 2, da <- da + da0, da0 <- 2 da0
          rw [if_pos hgt, if_pos (by omega)]
          obtain ⟨w, rfl⟩ : ∃ w, v = u + 2 * w := ⟨(v - u) / 2, by omega⟩
          have hw : (u + 2 * w - u) / 2 = w := by omega
          rw [hw]
          have hgw : Nat.gcd u w = Nat.gcd a m := by
            rw [← hg]
            have e1 : Nat.gcd u (u + 2 * w) = Nat.gcd u (2 * w) := by
              rw [Nat.gcd_comm, Nat.add_comm, Nat.gcd_add_self_left, Nat.gcd_comm]
            have e2 : Nat.gcd u (2 * w / 2) = Nat.gcd u (2 * w) :=
              gcd_half_right huo (by omega)
            rw [e1, ← e2, Nat.mul_div_cancel_left w (by omega)]
          apply ih
          · exact hu
          · omega
          · exact Or.inl huo
          · exact hgw
          · omega
          · rw [hm]; ring
          · obtain ⟨c, hc⟩ := h1
            exact ⟨2 * c, by push_cast; rw [pow_succ]; linear_combination 2 * hc⟩
          · obtain ⟨c1, hc1⟩ := h1
            obtain ⟨c2, hc2⟩ := h2
            exact ⟨c1 + c2, by push_cast at hc1 hc2 ⊢; rw [pow_succ]; linear_combination hc1 + hc2⟩
          · omega
        · -- u <- (u - v) / 2, da0 <- da0 + da, da <- 2 da
          rw [if_neg hgt]
          obtain ⟨w, rfl⟩ : ∃ w, u = v + 2 * w := ⟨(u - v) / 2, by omega⟩
          have hw : (v + 2 * w - v) / 2 = w := by omega
          rw [hw]
          by_cases hw0 : w ≠ 0
          · rw [if_pos hw0]
            have hgw : Nat.gcd w v = Nat.gcd a m := by
              rw [← hg]
              have e1 : Nat.gcd (v + 2 * w) v = Nat.gcd (2 * w) v := by
                rw [Nat.add_comm, Nat.gcd_add_self_left]
              have e2 : Nat.gcd (2 * w / 2) v = Nat.gcd (2 * w) v :=
                gcd_half_left (by omega) hvo
              rw [e1, ← e2, Nat.mul_div_cancel_left w (by omega)]
            apply ih
            · omega
            · exact hv
            · exact Or.inr hvo
            · exact hgw
            · omega
            · rw [hm]; ring
            · obtain ⟨c1, hc1⟩ := h1
              obtain ⟨c2, hc2⟩ := h2
              exact ⟨c1 + c2, by push_cast at hc1 hc2 ⊢; rw [pow_succ]; linear_combination hc1 + hc2⟩
            · obtain ⟨c, hc⟩ := h2
              exact ⟨2 * c, by push_cast; rw [pow_succ]; linear_combination 2 * hc⟩
            · omega
          · rw [if_neg hw0]
            have hw' : w = 0 := by omega
            subst hw'
            simp only [Nat.mul_zero, Nat.add_zero] at *
            rw [Nat.gcd_self] at hg
            refine ⟨hg, ?_, ?_, by omega⟩
            · obtain ⟨c, hc⟩ := h2
              exact ⟨2 * c, by push_cast; rw [pow_succ]; linear_combination 2 * hc⟩
            · have : v * (da0 + da) = m := by rw [hm]; ring
              have h3 : 1 * (da0 + da) ≤ v * (da0 + da) := Nat.mul_le_mul_right _ hv
              omega


/-- the iteration count of the Kaliski loop: `mod ≤ v 2^k` and `2^k ≤ 2 a mod` on exit
    (invariants `da0, da ≤ 2^k`, `2^k u v ≤ a mod`, `mod = v da0 + u da`) -/
theorem zzAlmostInvLoop_count (C m : Nat) :
    ∀ f u v da0 da k, 0 < u → 0 < v → m = v * da0 + u * da →
      da0 ≤ 2 ^ k → da ≤ 2 ^ k → 2 ^ k * (u * v) ≤ C → u + v ≤ f →
      m ≤ (zzAlmostInvLoop f u v da0 da k).1 * 2 ^ (zzAlmostInvLoop f u v da0 da k).2.2
      ∧ 2 ^ (zzAlmostInvLoop f u v da0 da k).2.2 ≤ 2 * C := by
  intro f
  induction f with
  | zero => intro u v da0 da k hu; omega
  | succ f ih =>
    intro u v da0 da k hu hv hm b0 b1 hC hf
    have hp : 2 ^ (k + 1) = 2 * 2 ^ k := by rw [Nat.pow_succ, Nat.mul_comm]
    unfold zzAlmostInvLoop
    by_cases hve : v % 2 = 0
    · rw [if_pos hve, if_pos (by omega)]
      obtain ⟨w, rfl⟩ : ∃ w, v = 2 * w := ⟨v / 2, by omega⟩
      have hw : 2 * w / 2 = w := by omega
      rw [hw]
      apply ih _ _ _ _ _ hu (by omega) (by rw [hm]; ring) (by omega) (by omega) _ (by omega)
      rw [hp]
      calc 2 * 2 ^ k * (u * w) = 2 ^ k * (u * (2 * w)) := by ring
        _ ≤ C := hC
    · rw [if_neg hve]
      by_cases hue : u % 2 = 0
      · rw [if_pos hue]
        obtain ⟨w, rfl⟩ : ∃ w, u = 2 * w := ⟨u / 2, by omega⟩
        have hw : 2 * w / 2 = w := by omega
        rw [hw, if_pos (by omega)]
        apply ih _ _ _ _ _ (by omega) hv (by rw [hm]; ring) (by omega) (by omega) _ (by omega)
        rw [hp]
        calc 2 * 2 ^ k * (w * v) = 2 ^ k * (2 * w * v) := by ring
          _ ≤ C := hC
      · rw [if_neg hue]
        by_cases hgt : v > u
        · rw [if_pos hgt, if_pos (by omega)]
          obtain ⟨w, rfl⟩ : ∃ w, v = u + 2 * w := ⟨(v - u) / 2, by omega⟩
          have hw : (u + 2 * w - u) / 2 = w := by omega
          rw [hw]
          apply ih _ _ _ _ _ hu (by omega) (by rw [hm]; ring) (by omega) (by omega) _ (by omega)
          rw [hp]
          calc 2 * 2 ^ k * (u * w) ≤ 2 * 2 ^ k * (u * w) + 2 ^ k * (u * u) := Nat.le_add_right _ _
            _ = 2 ^ k * (u * (u + 2 * w)) := by ring
            _ ≤ C := hC
        · rw [if_neg hgt]
          obtain ⟨w, rfl⟩ : ∃ w, u = v + 2 * w := ⟨(u - v) / 2, by omega⟩
          have hw : (v + 2 * w - v) / 2 = w := by omega
          rw [hw]
          by_cases hw0 : w ≠ 0
          · rw [if_pos hw0]
            apply ih _ _ _ _ _ (by omega) hv (by rw [hm]; ring) (by omega) (by omega) _ (by omega)
            rw [hp]
            calc 2 * 2 ^ k * (w * v) ≤ 2 * 2 ^ k * (w * v) + 2 ^ k * (v * v) := Nat.le_add_right _ _
              _ = 2 ^ k * ((v + 2 * w) * v) := by ring
              _ ≤ C := hC
          · rw [if_neg hw0]
            have hw' : w = 0 := by omega
            subst hw'
            simp only [Nat.mul_zero, Nat.add_zero] at *
            rw [hp]
            constructor
            · have e : m = v * (da0 + da) := by rw [hm]; ring
              rw [e]
              exact Nat.mul_le_mul_left v (by omega)
            · have h1 : 2 ^ k * 1 ≤ 2 ^ k * (v * v) :=
                Nat.mul_le_mul_left _ (Nat.mul_pos hv hv)
              omega

end Bee2V.C05.Gcd

/-
C05 — common definitions of the code-shaped models of the bee2 arithmetic layer.

Words are `Nat`s below `B = 2^w` (the word size `w` is a parameter: the same model is
instantiated with w = 16, 32, 64; B_PER_W of the build).  A multi-word number is a
little-endian `List Nat`; `val w a` (written ⟦a⟧ in DESIGN.md) is its value, `Wf w a`
says every element is a word.  The word operations below are what the C operators do on
the unsigned type `word` (arithmetic modulo 2^w, comparisons giving 0/1).

No Mathlib here: this file is imported by the native driver `drv_c05`.
-/
namespace Bee2V.C05

/-- base of the number system, `B = 2^{B_PER_W}` -/
@[reducible] def B (w : Nat) : Nat := 2 ^ w

/-- value of a little-endian word list: `a[0] + a[1] B + a[2] B^2 + …` -/
def val (w : Nat) : List Nat → Nat
  | [] => 0
  | x :: xs => x + 2 ^ w * val w xs

/-- every element is a machine word -/
def Wf (w : Nat) (a : List Nat) : Prop := ∀ x ∈ a, x < 2 ^ w

instance (w : Nat) (a : List Nat) : Decidable (Wf w a) := by unfold Wf; exact inferInstance

/-- `n` little-endian words of `v` (truncating): inverse of `val` -/
def toWords (w : Nat) : Nat → Nat → List Nat
  | 0, _ => []
  | n + 1, v => v % 2 ^ w :: toWords w n (v / 2 ^ w)

/-! ### C operators on `word` -/

/-- `(word)(x + y)` -/
@[reducible] def wadd (w x y : Nat) : Nat := (x + y) % 2 ^ w
/-- `(word)(x - y)` -/
@[reducible] def wsub (w x y : Nat) : Nat := (x + (2 ^ w - y % 2 ^ w)) % 2 ^ w
/-- `(word)(x * y)` -/
@[reducible] def wmul (w x y : Nat) : Nat := (x * y) % 2 ^ w
/-- `(word)~x` -/
@[reducible] def wnot (w x : Nat) : Nat := 2 ^ w - 1 - x % 2 ^ w
/-- `WORD_0 - x` -/
@[reducible] def wneg (w x : Nat) : Nat := (2 ^ w - x % 2 ^ w) % 2 ^ w
/-- `(word)(x << s)`, `s < w` -/
@[reducible] def wshl (w x s : Nat) : Nat := (x * 2 ^ s) % 2 ^ w
/-- `x >> s` -/
@[reducible] def wshr (x s : Nat) : Nat := x / 2 ^ s
/-- `wordLess01(x, y)` -/
@[reducible] def wless01 (x y : Nat) : Nat := if x < y then 1 else 0
/-- `wordLeq01(x, y)` -/
@[reducible] def wleq01 (x y : Nat) : Nat := if x ≤ y then 1 else 0
/-- `wordEq01(x, y)` -/
@[reducible] def weq01 (x y : Nat) : Nat := if x = y then 1 else 0
/-- `wordNeq01(x, y)` -/
@[reducible] def wneq01 (x y : Nat) : Nat := if x = y then 0 else 1
/-- `wordGreater01(x, y)` -/
@[reducible] def wgreater01 (x y : Nat) : Nat := if y < x then 1 else 0

/-! ### elementary facts (core tactics only) -/

theorem val_nil (w : Nat) : val w [] = 0 := rfl
theorem val_cons (w x : Nat) (xs : List Nat) : val w (x :: xs) = x + 2 ^ w * val w xs := rfl

theorem Wf_nil (w : Nat) : Wf w [] := by intro x h; cases h
theorem Wf_cons {w x : Nat} {xs : List Nat} : Wf w (x :: xs) ↔ x < 2 ^ w ∧ Wf w xs := by
  constructor
  · intro h
    exact ⟨h x (List.mem_cons_self), fun y hy => h y (List.mem_cons_of_mem _ hy)⟩
  · intro ⟨h1, h2⟩ y hy
    cases hy with
    | head => exact h1
    | tail _ h => exact h2 y h

theorem toWords_length (w n v : Nat) : (toWords w n v).length = n := by
  induction n generalizing v with
  | zero => rfl
  | succ n ih => simp [toWords, ih]

theorem toWords_Wf (w n v : Nat) : Wf w (toWords w n v) := by
  induction n generalizing v with
  | zero => exact Wf_nil w
  | succ n ih =>
    simp only [toWords]
    exact Wf_cons.mpr ⟨Nat.mod_lt _ (Nat.two_pow_pos w), ih _⟩

end Bee2V.C05

/-
C05 — code-shaped executable models of src/math/pp/pp_mul.c (binary polynomials, word level):
  the one-word product `_MUL1` (window method s = 4 of Brent–Gaudry–Thomé–Zimmermann:
  `_MUL_PRE_S4`, `_MUL_MUL_S4`, `_MUL_REPAIR_S4`), ppMul1 … ppMul9, ppMulEq, ppMul, ppMulW,
  ppAddMulW, ppSqr (table `_squares[256]`).

Word size: the three `#if B_PER_W == 16 / 32 / 64` variants of `_MUL_MUL_S4`, `_MUL_REPAIR_S4`,
`_SQR_LO/_SQR_HI` differ only in the number of octets of a word and in the repeated-octet masks;
they are ONE definition here, parametrised by `w` (meaningful for w ∈ {16, 32, 64}; `w / 8` octets).

Shape:
* `ppTab` is the literal table of `_MUL_PRE_S4` (16 entries, each `<< 1` truncated to a word);
  table look-ups `t[i]` are `List.getD t i 0` (every index is `& 15`, resp. a 4-bit top nibble).
* `ppMulS4` is `_MUL_MUL_S4`: the octets of `b` from the top one down, `hi`/`lo` updated as written;
  `ppRepair` is `_MUL_REPAIR_S4` (7 lines, k = 1..7, mask = octet `0xFF << k` repeated).
* ppMul2 and ppMul3 are transcribed word by word.  ppMul4/6/8 (Kara2), ppMul5/7 (truncated Kara2)
  and both branches of ppMulEq are the same block scheme with half size m = ⌈n/2⌉ and are instances
  of `ppKara2` (block form of the C index ranges: c[0..m), c[m..2m), c[2m..3m), c[3m..2n);
  `ppXorL` pads the shorter operand with zero words — exactly the `t[2] = a[2]`, `c[7] ^= t[7]`
  lines of the truncated variants).  ppMul9 is `ppKara3` (block form, incl. the `t4 += t2` step).
* ppMulEq's recursion (n > 9) is fuel-bounded (fuel = n, never exhausted: m < n).
* ppMul: the `n > m` loop `c[i + m] ^= ppAddMulW(c + i, b, m, a[i])` recurses on the window `c + i`.

No Mathlib (imported by the native driver).
-/
import Bee2V.C05.ModelAdd
namespace Bee2V.C05

/-- `t[i]` -/
@[reducible] def ppAt (t : List Nat) (i : Nat) : Nat := t.getD i 0

/-- `_MUL_PRE_S4(t, a)` -/
def ppTab (w a : Nat) : List Nat :=
  let t0 := 0
  let t1 := a
  let t2 := wshl w t1 1
  let t3 := t2 ^^^ a
  let t4 := wshl w t2 1
  let t5 := t4 ^^^ a
  let t6 := wshl w t3 1
  let t7 := t6 ^^^ a
  let t8 := wshl w t4 1
  let t9 := t8 ^^^ a
  let t10 := wshl w t5 1
  let t11 := t10 ^^^ a
  let t12 := wshl w t6 1
  let t13 := t12 ^^^ a
  let t14 := wshl w t7 1
  let t15 := t14 ^^^ a
  [t0, t1, t2, t3, t4, t5, t6, t7, t8, t9, t10, t11, t12, t13, t14, t15]

/-- the octets below the top one of `_MUL_MUL_S4`, `j` octets left (bit offsets 8(j-1) … 0):
    `hi = hi << 8 ^ lo >> (w-8); lo = lo << 8 ^ t[b >> (k+4) & 15] << 4 ^ t[b >> k & 15]` -/
def ppMulS4Loop (w : Nat) (t : List Nat) (b : Nat) : Nat → Nat → Nat → Nat × Nat
  | 0, lo, hi => (lo, hi)
  | j + 1, lo, hi =>
    let hi' := wshl w hi 8 ^^^ (lo >>> (w - 8))
    let lo' := wshl w lo 8 ^^^ wshl w (ppAt t ((b >>> (8 * j + 4)) &&& 15)) 4
      ^^^ ppAt t ((b >>> (8 * j)) &&& 15)
    ppMulS4Loop w t b j lo' hi'

/-- `_MUL_MUL_S4(lo, hi, t, b)`: `lo = t[b >> (w-4)] << 4 ^ t[b >> (w-8) & 15]`, then the loop
    (the first `hi = lo >> (w-8)` is the loop line with `hi = 0`) -/
def ppMulS4 (w : Nat) (t : List Nat) (b : Nat) : Nat × Nat :=
  let lo := wshl w (ppAt t (b >>> (w - 4))) 4 ^^^ ppAt t ((b >>> (w - 8)) &&& 15)
  ppMulS4Loop w t b (w / 8 - 1) lo 0

/-- the octet `x` repeated over the word -/
def ppRepOctet (w x : Nat) : Nat := (List.range (w / 8)).foldl (fun acc j => acc ||| (x <<< (8 * j))) 0

/-- line k of `_MUL_REPAIR_S4`: `hi ^= (b & M_k) >> k & -(a >> (w-k) & 1)` -/
def ppRepairStep (w a b : Nat) (hi k : Nat) : Nat :=
  hi ^^^ (((b &&& ppRepOctet w ((255 <<< k) &&& 255)) >>> k) &&& wneg w ((a >>> (w - k)) &&& 1))

/-- `_MUL_REPAIR_S4(hi, a, b)` -/
def ppRepair (w a b hi : Nat) : Nat := [1, 2, 3, 4, 5, 6, 7].foldl (ppRepairStep w a b) hi

/-- `_MUL1(c, a, b, t)`: (c[0], c[1]) -/
def ppMul1W (w a b : Nat) : Nat × Nat :=
  let t := ppTab w a
  let r := ppMulS4 w t b
  (r.1, ppRepair w a b r.2)

/-! ## multiplication by a word -/

/-- ppMulW loop: `_MUL_MUL_S4(t16, t17, t, a[i]); _MUL_REPAIR_S4(t17, w, a[i]);
    b[i] = carry ^ t16; carry = t17` (table of `w`, indexed by the octets of a[i]) -/
def ppMulWLoop (w x : Nat) : List Nat → Nat → List Nat × Nat
  | ai :: as, carry =>
    let p := ppMul1W w x ai
    let r := ppMulWLoop w x as p.2
    ((carry ^^^ p.1) :: r.1, r.2)
  | [], carry => ([], carry)
def ppMulW (w : Nat) (a : List Nat) (x : Nat) : List Nat × Nat := ppMulWLoop w x a 0

/-- ppAddMulW loop: `b[i] ^= carry ^ t16; carry = t17` -/
def ppAddMulWLoop (w x : Nat) : List Nat → List Nat → Nat → List Nat × Nat
  | bi :: bs, ai :: as, carry =>
    let p := ppMul1W w x ai
    let r := ppAddMulWLoop w x bs as p.2
    ((bi ^^^ (carry ^^^ p.1)) :: r.1, r.2)
  | _, _, carry => ([], carry)
def ppAddMulW (w : Nat) (b a : List Nat) (x : Nat) : List Nat × Nat := ppAddMulWLoop w x b a 0

/-! ## ppMul1 … ppMul9 -/

/-- word-wise xor; the shorter operand is padded with zero words -/
def ppXorL : List Nat → List Nat → List Nat
  | x :: xs, y :: ys => (x ^^^ y) :: ppXorL xs ys
  | xs, [] => xs
  | [], ys => ys

def ppMul1 (w : Nat) (a b : List Nat) : List Nat :=
  match a, b with
  | [a0], [b0] => let p := ppMul1W w a0 b0; [p.1, p.2]
  | _, _ => []

/-- ppMul2 (Kara2_1), word by word -/
def ppMul2 (w : Nat) (a b : List Nat) : List Nat :=
  match a, b with
  | [a0, a1], [b0, b1] =>
    let p0 := ppMul1W w a0 b0            -- c1 || c0
    let p1 := ppMul1W w a1 b1            -- c3 || c2
    let t0 := p0.2 ^^^ p1.1              -- t0 <- c1 + c2
    let pm := ppMul1W w (a0 ^^^ a1) (b0 ^^^ b1)   -- c2 || c1
    [p0.1, pm.1 ^^^ (p0.1 ^^^ t0), pm.2 ^^^ (p1.2 ^^^ t0), p1.2]
  | _, _ => []

/-- ppMul3 (Kara3_1), word by word -/
def ppMul3 (w : Nat) (a b : List Nat) : List Nat :=
  match a, b with
  | [a0, a1, a2], [b0, b1, b2] =>
    let p0 := ppMul1W w a0 b0
    let p1 := ppMul1W w a1 b1
    let p2 := ppMul1W w a2 b2
    let c0 := p0.1
    let c1 := p0.2 ^^^ (c0 ^^^ p1.1)     -- c1 ^= c0 ^ c2
    let c2 := c1 ^^^ p1.2 ^^^ p2.1       -- c2 = c1 ^ c3 ^ c4
    let c3 := c2 ^^^ c0 ^^^ p2.2         -- c3 = c2 ^ c0 ^ c5
    let c4 := c3 ^^^ c0 ^^^ c1           -- c4 = c3 ^ c0 ^ c1
    let t := ppMul1W w (a0 ^^^ a1) (b0 ^^^ b1)
    let c1 := c1 ^^^ t.1
    let c2 := c2 ^^^ t.2
    let t := ppMul1W w (a0 ^^^ a2) (b0 ^^^ b2)
    let c2 := c2 ^^^ t.1
    let c3 := c3 ^^^ t.2
    let t := ppMul1W w (a1 ^^^ a2) (b1 ^^^ b2)
    let c3 := c3 ^^^ t.1
    let c4 := c4 ^^^ t.2
    [c0, c1, c2, c3, c4, p2.2]
  | _, _ => []

/-- (truncated) Karatsuba, block form; `m` = size of the low halves, `mulLo` multiplies m-word
    operands, `mulHi` the (n - m)-word high halves:
      c1 || c0 <- a0 b0;  c3 || c2 <- a1 b1;  t0 <- a0 + a1;  t1 <- b0 + b1;  t2 <- c1 + c2;
      c2 || c1 <- t0 t1;  c1 <- c1 + c0 + t2;  c2 <- c2 + c3 + t2 -/
def ppKara2 (mulLo mulHi : List Nat → List Nat → List Nat) (m : Nat) (a b : List Nat) : List Nat :=
  let d0 := mulLo (a.take m) (b.take m)
  let d1 := mulHi (a.drop m) (b.drop m)
  let t0 := ppXorL (a.take m) (a.drop m)
  let t1 := ppXorL (b.take m) (b.drop m)
  let t2 := ppXorL (d0.drop m) (d1.take m)
  let dm := mulLo t0 t1
  let c1 := ppXorL (dm.take m) (ppXorL (d0.take m) t2)
  let c2 := ppXorL (dm.drop m) (ppXorL (d1.drop m) t2)
  d0.take m ++ c1 ++ c2 ++ d1.drop m

def ppMul4 (w : Nat) (a b : List Nat) : List Nat := ppKara2 (ppMul2 w) (ppMul2 w) 2 a b
def ppMul6 (w : Nat) (a b : List Nat) : List Nat := ppKara2 (ppMul3 w) (ppMul3 w) 3 a b
def ppMul8 (w : Nat) (a b : List Nat) : List Nat := ppKara2 (ppMul4 w) (ppMul4 w) 4 a b
def ppMul5 (w : Nat) (a b : List Nat) : List Nat := ppKara2 (ppMul3 w) (ppMul2 w) 3 a b
def ppMul7 (w : Nat) (a b : List Nat) : List Nat := ppKara2 (ppMul4 w) (ppMul3 w) 4 a b

/-- Kara3 (Weimerskirch–Paar), block form of ppMul9; `m` = block size -/
def ppKara3 (mul : List Nat → List Nat → List Nat) (m : Nat) (a b : List Nat) : List Nat :=
  let a0 := a.take m
  let a1 := (a.drop m).take m
  let a2 := a.drop (2 * m)
  let b0 := b.take m
  let b1 := (b.drop m).take m
  let b2 := b.drop (2 * m)
  let d0 := mul a0 b0
  let d1 := mul a1 b1
  let d2 := mul a2 b2
  let c0 := d0.take m
  let c1 := ppXorL (d0.drop m) (ppXorL c0 (d1.take m))       -- c1 ^= c0 ^ c2
  let c2 := ppXorL c1 (ppXorL (d1.drop m) (d2.take m))       -- c2 = c1 ^ c3 ^ c4
  let c3 := ppXorL c2 (ppXorL c0 (d2.drop m))                -- c3 = c2 ^ c0 ^ c5
  let c4 := ppXorL c3 (ppXorL c0 c1)                         -- c4 = c3 ^ c0 ^ c1
  let t2 := ppXorL a0 a1
  let t3 := ppXorL b0 b1
  let t4 := ppXorL a0 a2
  let t5 := ppXorL b0 b2
  let t := mul t2 t3
  let c1 := ppXorL c1 (t.take m)
  let c2 := ppXorL c2 (t.drop m)
  let t := mul t4 t5
  let c2 := ppXorL c2 (t.take m)
  let c3 := ppXorL c3 (t.drop m)
  let t4 := ppXorL t4 t2
  let t5 := ppXorL t5 t3
  let t := mul t4 t5
  let c3 := ppXorL c3 (t.take m)
  let c4 := ppXorL c4 (t.drop m)
  c0 ++ c1 ++ c2 ++ c3 ++ c4 ++ d2.drop m

def ppMul9 (w : Nat) (a b : List Nat) : List Nat := ppKara3 (ppMul3 w) 3 a b

/-- ppMulEq(c, a, b, n): `_mul_procs[n]` for n < 10, else (truncated) Karatsuba with
    m = ⌈n / 2⌉ (the even and the odd branch of the C are both `ppKara2`) -/
def ppMulEqF (w : Nat) : Nat → List Nat → List Nat → List Nat
  | 0, _, _ => []
  | f + 1, a, b =>
    let n := a.length
    if n = 1 then ppMul1 w a b
    else if n = 2 then ppMul2 w a b
    else if n = 3 then ppMul3 w a b
    else if n = 4 then ppMul4 w a b
    else if n = 5 then ppMul5 w a b
    else if n = 6 then ppMul6 w a b
    else if n = 7 then ppMul7 w a b
    else if n = 8 then ppMul8 w a b
    else if n = 9 then ppMul9 w a b
    else if n = 0 then []
    else ppKara2 (ppMulEqF w f) (ppMulEqF w f) ((n + 1) / 2) a b
def ppMulEq (w : Nat) (a b : List Nat) : List Nat := ppMulEqF w a.length a b

/-- `for (i = m; i < n; ++i) c[i + m] ^= ppAddMulW(c + i, b, m, a[i])`; `c` is the window c + i -/
def ppMulLoop (w : Nat) (b : List Nat) : List Nat → List Nat → List Nat
  | [], c => c
  | ai :: as, c =>
    let m := b.length
    let r := ppAddMulW w (c.take m) b ai
    let c' := r.1 ++ ((c.drop m).headD 0 ^^^ r.2) :: c.drop (m + 1)
    match c' with
    | c0 :: cs => c0 :: ppMulLoop w b as cs
    | [] => []

/-- the `n > m` branch of ppMul -/
def ppMulGt (w : Nat) (a b : List Nat) : List Nat :=
  let m := b.length
  let c := ppMulEq w (a.take m) b ++ List.replicate (a.length - m) 0
  c.take m ++ ppMulLoop w b (a.drop m) (c.drop m)

/-- ppMul(c, a, n, b, m) -/
def ppMul (w : Nat) (a b : List Nat) : List Nat :=
  let n := a.length
  let m := b.length
  if n = 0 ∨ m = 0 then List.replicate (n + m) 0
  else if n = m then ppMulEq w a b
  else if n < m then ppMulGt w b a
  else ppMulGt w a b

/-! ## ppSqr -/

/-- `_squares[256]` (re-extracted from the source) -/
def ppSquares : List Nat :=
  [0, 1, 4, 5, 16, 17, 20, 21, 64, 65, 68, 69, 80, 81, 84, 85,
   256, 257, 260, 261, 272, 273, 276, 277, 320, 321, 324, 325, 336, 337, 340, 341,
   1024, 1025, 1028, 1029, 1040, 1041, 1044, 1045, 1088, 1089, 1092, 1093, 1104, 1105, 1108, 1109,
   1280, 1281, 1284, 1285, 1296, 1297, 1300, 1301, 1344, 1345, 1348, 1349, 1360, 1361, 1364, 1365,
   4096, 4097, 4100, 4101, 4112, 4113, 4116, 4117, 4160, 4161, 4164, 4165, 4176, 4177, 4180, 4181,
   4352, 4353, 4356, 4357, 4368, 4369, 4372, 4373, 4416, 4417, 4420, 4421, 4432, 4433, 4436, 4437,
   5120, 5121, 5124, 5125, 5136, 5137, 5140, 5141, 5184, 5185, 5188, 5189, 5200, 5201, 5204, 5205,
   5376, 5377, 5380, 5381, 5392, 5393, 5396, 5397, 5440, 5441, 5444, 5445, 5456, 5457, 5460, 5461,
   16384, 16385, 16388, 16389, 16400, 16401, 16404, 16405, 16448, 16449, 16452, 16453, 16464, 16465, 16468, 16469,
   16640, 16641, 16644, 16645, 16656, 16657, 16660, 16661, 16704, 16705, 16708, 16709, 16720, 16721, 16724, 16725,
   17408, 17409, 17412, 17413, 17424, 17425, 17428, 17429, 17472, 17473, 17476, 17477, 17488, 17489, 17492, 17493,
   17664, 17665, 17668, 17669, 17680, 17681, 17684, 17685, 17728, 17729, 17732, 17733, 17744, 17745, 17748, 17749,
   20480, 20481, 20484, 20485, 20496, 20497, 20500, 20501, 20544, 20545, 20548, 20549, 20560, 20561, 20564, 20565,
   20736, 20737, 20740, 20741, 20752, 20753, 20756, 20757, 20800, 20801, 20804, 20805, 20816, 20817, 20820, 20821,
   21504, 21505, 21508, 21509, 21520, 21521, 21524, 21525, 21568, 21569, 21572, 21573, 21584, 21585, 21588, 21589,
   21760, 21761, 21764, 21765, 21776, 21777, 21780, 21781, 21824, 21825, 21828, 21829, 21840, 21841, 21844, 21845]

/-- `_SQR_LO(a)` / `_SQR_HI(a)` for `off = 0` / `off = w/2`:
    `_squares[a >> off & 255] | _squares[a >> (off+8) & 255] << 16 | …` (w/16 terms) -/
def ppSqrHalf (w a off : Nat) : Nat :=
  (List.range (w / 16)).foldl
    (fun acc j => acc ||| (ppAt ppSquares ((a >>> (off + 8 * j)) &&& 255) <<< (16 * j))) 0

/-- ppSqr(b, a, n): `b[2i] = _SQR_LO(a[i]), b[2i+1] = _SQR_HI(a[i])` -/
def ppSqr (w : Nat) : List Nat → List Nat
  | [] => []
  | ai :: as => ppSqrHalf w ai 0 :: ppSqrHalf w ai (w / 2) :: ppSqr w as

end Bee2V.C05

/-
C05 — the word-level models of pp_gcd.c / pp_mod.c (ModelPpW.lean) refine the value-level models
(ModelPp.lean): `val w (word-level result) = value-level result`, with Wf and the C lengths; the
end-to-end theorems of PropsPp.lean are transferred.  Helper lemmas: LemmasPpW.lean.
`SizesOK w` (what the code uses of wwBitSize / wwLoZeroBits) holds for w = 16, 32, 64
(PropsGcdW.sizesOK16/32/64).

Proved: ppGCDW, ppExGCDW (all three outputs), ppDivModW, ppInvModW — refinement + the transferred
end-to-end theorems.  Nothing is left open in this file.
-/
import Bee2V.C05.LemmasPpW
import Bee2V.C05.PropsGcdW
import Bee2V.C05.PropsPp
namespace Bee2V.C05
open Bee2V.C05.Add Bee2V.C05.GcdW Bee2V.C05.PpW Bee2V.C05.Spec

/-! ## ppGCD -/

/-- refinement: the word-level ppGCD (buffers u, v with the running lengths n, m; wwLoZeroBits,
    wwShLo, wwWordSize, wwCmp2, wwXor2 on the shorter prefix, wwIsZero, and the final
    `wwCopy(d, v, m); wwShHi(d, W_OF_B(wwBitSize(d, m) + s), s)`) computes the value-level model,
    min(n, m) words (header: a, b ≠ 0). -/
theorem ppGCDW_refines_V (w : Nat) (hw : 0 < w) (hs : SizesOK w) (a b : List Nat)
    (ha : Wf w a) (hb : Wf w b) (hap : 0 < val w a) (hbp : 0 < val w b) :
    val w (ppGCDW w a b) = ppGCDV (val w a) (val w b)
    ∧ Wf w (ppGCDW w a b) ∧ (ppGCDW w a b).length = min a.length b.length :=
  ppGCDW_refines hw hs a b ha hb hap hbp

/-- end to end, word level: ppGCD computes the gcd of the specification. -/
theorem ppGCDW_spec (w : Nat) (hw : 0 < w) (hs : SizesOK w) (a b : List Nat)
    (ha : Wf w a) (hb : Wf w b) (hap : 0 < val w a) (hbp : 0 < val w b) :
    val w (ppGCDW w a b) = pgcd (val w a) (val w b)
    ∧ Wf w (ppGCDW w a b) ∧ (ppGCDW w a b).length = min a.length b.length := by
  obtain ⟨h1, h2, h3⟩ := ppGCDW_refines hw hs a b ha hb hap hbp
  exact ⟨by rw [h1, ppGCDV_spec _ _ (by omega) (by omega)], h2, h3⟩

theorem ppGCDW_spec64 (a b : List Nat) (ha : Wf 64 a) (hb : Wf 64 b) (hap : 0 < val 64 a)
    (hbp : 0 < val 64 b) :
    val 64 (ppGCDW 64 a b) = pgcd (val 64 a) (val 64 b)
    ∧ Wf 64 (ppGCDW 64 a b) ∧ (ppGCDW 64 a b).length = min a.length b.length :=
  ppGCDW_spec 64 (by decide) sizesOK64 a b ha hb hap hbp

example : ppGCDW 8 [0x0c, 0] [0x0a] = [6] := by decide +kernel


/-! ## ppDivMod, ppInvMod -/

/-- refinement: the word-level ppDivMod (n-word buffers u, v, da0, da, normalised lengths nu, nv;
    wwTestBit, wwShLo, wwXor2, wwWordSize, wwCmp2, wwIsZero, wwIsW) computes the value-level model,
    n words.  No assumption on the contents. -/
theorem ppDivModW_refines_V (w : Nat) (hw : 0 < w) (d a md : List Nat) (hd : Wf w d) (ha : Wf w a)
    (hm : Wf w md) (hml : 0 < md.length) (hdl : d.length = md.length) (hal : a.length = md.length) :
    val w (ppDivModW w d a md) = ppDivModV (val w d) (val w a) (val w md)
    ∧ Wf w (ppDivModW w d a md) ∧ (ppDivModW w d a md).length = md.length :=
  ppDivModW_refines hw d a md hd ha hm hml hdl hal

/-- end to end, word level, under the header's preconditions (mod with constant term 1,
    a, divident < mod as integers): gcd(a, mod) = 1 → b·a ≡ divident (mod mod), b reduced;
    gcd ≠ 1 → b = 0. -/
theorem ppDivModW_spec (w : Nat) (hw : 0 < w) (d a md : List Nat) (hd : Wf w d) (ha : Wf w a)
    (hm : Wf w md) (hml : 0 < md.length) (hdl : d.length = md.length) (hal : a.length = md.length)
    (hodd : val w md % 2 = 1) (ham : val w a < val w md) (hdm : val w d < val w md) :
    (pgcd (val w a) (val w md) = 1 →
        pmod (clmul (val w (ppDivModW w d a md)) (val w a)) (val w md) = pmod (val w d) (val w md)
        ∧ val w (ppDivModW w d a md) < 2 ^ (val w md).log2)
    ∧ (pgcd (val w a) (val w md) ≠ 1 → val w (ppDivModW w d a md) = 0)
    ∧ Wf w (ppDivModW w d a md) ∧ (ppDivModW w d a md).length = md.length := by
  obtain ⟨h1, h2, h3⟩ := ppDivModW_refines hw d a md hd ha hm hml hdl hal
  obtain ⟨s1, s2⟩ := ppDivModV_spec_header (val w d) (val w a) (val w md) hodd ham hdm
  rw [h1]
  exact ⟨s1, s2, h2, h3⟩

/-- ppInvMod = wwSetW(divident, n, 1) + ppDivMod -/
theorem ppInvModW_refines_V (w : Nat) (hw : 0 < w) (a md : List Nat) (ha : Wf w a)
    (hm : Wf w md) (hml : 0 < md.length) (hal : a.length = md.length) :
    val w (ppInvModW w a md) = ppInvModV (val w a) (val w md)
    ∧ Wf w (ppInvModW w a md) ∧ (ppInvModW w a md).length = md.length := by
  have hne : md ≠ [] := by intro h; rw [h] at hml; simp at hml
  obtain ⟨s1, s2, s3⟩ := wwSetW_spec (w := w) md 1 hne (Nat.one_lt_two_pow (by omega))
  have := ppDivModW_refines hw (wwSetW md 1) a md s2 ha hm hml s1 hal
  rw [s3] at this
  exact this

/-- end to end: the inverse of a modulo mod (mod odd, ≠ 1), reduced, if gcd = 1; else 0. -/
theorem ppInvModW_spec (w : Nat) (hw : 0 < w) (a md : List Nat) (ha : Wf w a)
    (hm : Wf w md) (hml : 0 < md.length) (hal : a.length = md.length)
    (hodd : val w md % 2 = 1) (h1 : val w md ≠ 1) :
    (pgcd (val w a) (val w md) = 1 →
        pmod (clmul (val w (ppInvModW w a md)) (val w a)) (val w md) = 1
        ∧ val w (ppInvModW w a md) < 2 ^ (val w md).log2)
    ∧ (pgcd (val w a) (val w md) ≠ 1 → val w (ppInvModW w a md) = 0)
    ∧ Wf w (ppInvModW w a md) ∧ (ppInvModW w a md).length = md.length := by
  obtain ⟨r1, r2, r3⟩ := ppInvModW_refines_V w hw a md ha hm hml hal
  obtain ⟨s1, s2⟩ := ppInvModV_spec (val w a) (val w md) hodd h1
  rw [r1]
  exact ⟨s1, s2, r2, r3⟩

example : val 8 (ppDivModW 8 [5, 0] [6, 0] [0x13, 0x01]) = ppDivModV 5 6 0x113 := by decide +kernel


/-! ## ppExGCD -/

/-- refinement: the word-level ppExGCD (aa, bb normalised; u, v with the running lengths nu, mv; the
    coefficient buffers da0, da on m words and db0, db on n words; wwTestBit, wwShLo, wwXor2,
    wwWordSize, wwCmp2, wwIsZero; `wwCopy(d, v, mv)` and the final wwShHi) computes all three
    outputs of the value-level model; d: min(n, m) words, da: m words, db: n words. -/
theorem ppExGCDW_refines_V (w : Nat) (hw : 0 < w) (hs : SizesOK w) (a b : List Nat)
    (ha : Wf w a) (hb : Wf w b) (hap : 0 < val w a) (hbp : 0 < val w b) :
    val w (ppExGCDW w a b).1 = (ppExGCDV (val w a) (val w b)).1
    ∧ val w (ppExGCDW w a b).2.1 = (ppExGCDV (val w a) (val w b)).2.1
    ∧ val w (ppExGCDW w a b).2.2 = (ppExGCDV (val w a) (val w b)).2.2
    ∧ Wf w (ppExGCDW w a b).1 ∧ (ppExGCDW w a b).1.length = min a.length b.length
    ∧ Wf w (ppExGCDW w a b).2.1 ∧ (ppExGCDW w a b).2.1.length = b.length
    ∧ Wf w (ppExGCDW w a b).2.2 ∧ (ppExGCDW w a b).2.2.length = a.length :=
  ppExGCDW_refines hw hs a b ha hb hap hbp

/-- end to end, word level: d = gcd(a, b) and a·da + b·db = d. -/
theorem ppExGCDW_spec (w : Nat) (hw : 0 < w) (hs : SizesOK w) (a b : List Nat)
    (ha : Wf w a) (hb : Wf w b) (hap : 0 < val w a) (hbp : 0 < val w b) :
    val w (ppExGCDW w a b).1 = pgcd (val w a) (val w b)
    ∧ clmul (val w a) (val w (ppExGCDW w a b).2.1) ^^^ clmul (val w b) (val w (ppExGCDW w a b).2.2)
        = val w (ppExGCDW w a b).1
    ∧ Wf w (ppExGCDW w a b).1 ∧ (ppExGCDW w a b).1.length = min a.length b.length
    ∧ Wf w (ppExGCDW w a b).2.1 ∧ (ppExGCDW w a b).2.1.length = b.length
    ∧ Wf w (ppExGCDW w a b).2.2 ∧ (ppExGCDW w a b).2.2.length = a.length := by
  obtain ⟨h1, h2, h3, h4, h5, h6, h7, h8, h9⟩ := ppExGCDW_refines hw hs a b ha hb hap hbp
  obtain ⟨s1, s2⟩ := ppExGCDV_spec (val w a) (val w b) (by omega) (by omega)
  rw [h1, h2, h3]
  exact ⟨s1, s2, h4, h5, h6, h7, h8, h9⟩

theorem ppExGCDW_spec64 (a b : List Nat) (ha : Wf 64 a) (hb : Wf 64 b) (hap : 0 < val 64 a)
    (hbp : 0 < val 64 b) :
    val 64 (ppExGCDW 64 a b).1 = pgcd (val 64 a) (val 64 b)
    ∧ clmul (val 64 a) (val 64 (ppExGCDW 64 a b).2.1) ^^^ clmul (val 64 b) (val 64 (ppExGCDW 64 a b).2.2)
        = val 64 (ppExGCDW 64 a b).1 :=
  let h := ppExGCDW_spec 64 (by decide) sizesOK64 a b ha hb hap hbp
  ⟨h.1, h.2.1⟩

example : ppExGCDW 8 [12, 0] [10] = ([6], [1], [1, 0]) := by decide +kernel

end Bee2V.C05

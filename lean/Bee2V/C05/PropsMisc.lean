/-
C05 — remaining functions of the arithmetic layer (models: ModelMisc.lean, helper lemmas:
LemmasMisc.lean): zzAdd3, zzMulMod / zzSqrMod / zzMulWMod / zzRed, zzInvMod, zzLCM, zzIsCoprime,
zzRandMod / zzRandNZMod, wwNAF.
-/
import Bee2V.C05.LemmasMisc
import Bee2V.C05.PropsAdd
import Bee2V.C05.PropsMul
import Bee2V.C05.PropsDiv
import Bee2V.C05.PropsGcd
namespace Bee2V.C05
open Bee2V.C05.Add Bee2V.C05.Misc

/-! ## zzAdd3 -/

/-- zzAdd3: `c + B^max(n,m) carry = a + b` for operands of any two lengths. -/
theorem zzAdd3_spec (w : Nat) (hw : 0 < w) (a b : List Nat) (ha : Wf w a) (hb : Wf w b) :
    val w (zzAdd3 w a b).1 + 2 ^ (w * max a.length b.length) * (zzAdd3 w a b).2 = val w a + val w b
    ∧ (zzAdd3 w a b).2 ≤ 1 ∧ Wf w (zzAdd3 w a b).1
    ∧ (zzAdd3 w a b).1.length = max a.length b.length := by
  unfold zzAdd3
  simp only []
  by_cases h1 : a.length > b.length
  · rw [if_pos h1, Nat.max_eq_left (by omega)]
    have htl : (a.take b.length).length = b.length := by rw [List.length_take]; omega
    obtain ⟨p1, p2, p3, p4⟩ := zzAdd_spec w (a.take b.length) b (Wf_take ha _) hb htl
    rw [htl] at p1 p4
    have hdne : a.drop b.length ≠ [] := by
      intro h; have := congrArg List.length h; simp at this; omega
    obtain ⟨q1, q2, q3, q4⟩ := add3_tail w hw _ (a.drop b.length) b.length _ p1 p2 p3 p4
      (Wf_drop ha _) hdne
    have hv := val_take_drop w a b.length (by omega)
    have hlen : b.length + (a.drop b.length).length = a.length := by
      rw [List.length_drop]; omega
    rw [hlen] at q1 q4
    exact ⟨by rw [q1, hv]; omega, q2, q3, q4⟩
  · rw [if_neg h1]
    by_cases h2 : a.length < b.length
    · rw [if_pos h2, Nat.max_eq_right (by omega)]
      have htl : a.length = (b.take a.length).length := by rw [List.length_take]; omega
      obtain ⟨p1, p2, p3, p4⟩ := zzAdd_spec w a (b.take a.length) ha (Wf_take hb _) htl
      have hdne : b.drop a.length ≠ [] := by
        intro h; have := congrArg List.length h; simp at this; omega
      obtain ⟨q1, q2, q3, q4⟩ := add3_tail w hw _ (b.drop a.length) a.length _ p1 p2 p3 p4
        (Wf_drop hb _) hdne
      have hv := val_take_drop w b a.length (by omega)
      have hlen : a.length + (b.drop a.length).length = b.length := by
        rw [List.length_drop]; omega
      rw [hlen] at q1 q4
      exact ⟨by rw [q1, hv]; omega, q2, q3, q4⟩
    · rw [if_neg h2]
      have hl : a.length = b.length := by omega
      rw [Nat.max_eq_left (by omega)]
      exact zzAdd_spec w a b ha hb hl

example : zzAdd3 64 [2 ^ 64 - 1, 2 ^ 64 - 1, 2 ^ 64 - 1] [1] = ([0, 0, 0], 1)
    ∧ zzAdd3 64 [5] [2 ^ 64 - 1, 2 ^ 64 - 1, 7] = ([4, 0, 8], 0) := by decide

/-! ## modular multiplication, general reduction (word level) -/

/-- zzMulMod: `c = a b mod mod` (header: n > 0, mod[n-1] ≠ 0; `a, b < mod` is not needed). -/
theorem zzMulMod_spec (w : Nat) (a b mod : List Nat) (ha : Wf w a) (hb : Wf w b) (hm : Wf w mod)
    (hne : mod ≠ []) (htop : mod.getLast hne ≠ 0) :
    val w (zzMulMod w a b mod) = (val w a * val w b) % val w mod
    ∧ Wf w (zzMulMod w a b mod) ∧ (zzMulMod w a b mod).length = mod.length := by
  obtain ⟨p1, p2, _⟩ := zzMul_spec w a b ha hb
  obtain ⟨q1, q2, q3⟩ := zzMod_spec w (zzMul w a b) mod p2 hm hne htop
  exact ⟨by unfold zzMulMod; rw [q1, p1], q2, q3⟩

/-- zzSqrMod: `b = a^2 mod mod`. -/
theorem zzSqrMod_spec (w : Nat) (hw : 0 < w) (a mod : List Nat) (ha : Wf w a) (hm : Wf w mod)
    (hne : mod ≠ []) (htop : mod.getLast hne ≠ 0) :
    val w (zzSqrMod w a mod) = (val w a ^ 2) % val w mod
    ∧ Wf w (zzSqrMod w a mod) ∧ (zzSqrMod w a mod).length = mod.length := by
  obtain ⟨p1, p2, _⟩ := zzSqr_spec w hw a ha
  obtain ⟨q1, q2, q3⟩ := zzMod_spec w (zzSqr w a) mod p2 hm hne htop
  exact ⟨by unfold zzSqrMod; rw [q1, p1], q2, q3⟩

/-- zzMulWMod: `b = a x mod mod` for a word x. -/
theorem zzMulWMod_spec (w : Nat) (a : List Nat) (x : Nat) (mod : List Nat) (ha : Wf w a)
    (hx : x < 2 ^ w) (hm : Wf w mod) (hne : mod ≠ []) (htop : mod.getLast hne ≠ 0) :
    val w (zzMulWMod w a x mod) = (val w a * x) % val w mod
    ∧ Wf w (zzMulWMod w a x mod) ∧ (zzMulWMod w a x mod).length = mod.length := by
  obtain ⟨p1, p2, p3, p4⟩ := zzMulW_spec w a x ha hx
  have hW : Wf w ((zzMulW w a x).1 ++ [(zzMulW w a x).2]) :=
    Wf_append.mpr ⟨p3, Wf_cons.mpr ⟨p2, Wf_nil w⟩⟩
  have hv : val w ((zzMulW w a x).1 ++ [(zzMulW w a x).2]) = val w a * x := by
    rw [val_append, p4, ← p1]; simp [val]
  obtain ⟨q1, q2, q3⟩ := zzMod_spec w _ mod hW hm hne htop
  exact ⟨by unfold zzMulWMod; rw [q1, hv], q2, q3⟩

/-- zzRed: `a mod mod`, n words. -/
theorem zzRed_spec (w : Nat) (a mod : List Nat) (ha : Wf w a) (hm : Wf w mod)
    (hne : mod ≠ []) (htop : mod.getLast hne ≠ 0) :
    val w (zzRed w a mod) = val w a % val w mod
    ∧ Wf w (zzRed w a mod) ∧ (zzRed w a mod).length = mod.length :=
  zzMod_spec w a mod ha hm hne htop

example : zzMulMod 8 [200, 100] [250, 99] [7, 255] = toWords 8 2 ((200 + 256 * 100) * (250 + 256 * 99) % (7 + 256 * 255))
    ∧ zzSqrMod 8 [200, 100] [7, 255] = toWords 8 2 ((200 + 256 * 100) ^ 2 % (7 + 256 * 255))
    ∧ zzMulWMod 8 [200, 100] 251 [7, 255] = toWords 8 2 ((200 + 256 * 100) * 251 % (7 + 256 * 255))
    ∧ zzRed 8 [1, 2, 3, 4] [7, 255] = toWords 8 2 ((1 + 256 * (2 + 256 * (3 + 256 * 4))) % (7 + 256 * 255)) := by
  decide +kernel

/-! ## value level: zzInvMod, zzLCM, zzIsCoprime -/

/-- zzInvMod: `b a ≡ 1 (mod mod)` for odd mod > 1, a < mod coprime to mod; 0 otherwise. -/
theorem zzInvModV_spec (a m : Nat) (hm : m % 2 = 1) (hm1 : 1 < m) (ha : a < m) :
    (Nat.gcd a m = 1 → (zzInvModV a m * a) % m = 1 ∧ zzInvModV a m < m)
    ∧ (Nat.gcd a m ≠ 1 → zzInvModV a m = 0) := by
  unfold zzInvModV
  constructor
  · intro hg
    obtain ⟨h1, h2⟩ := zzDivModV_spec 1 a m hm ha hm1 hg
    rw [Nat.mod_eq_of_lt hm1] at h1
    exact ⟨h1, h2⟩
  · intro hg
    exact zzDivModV_not_coprime 1 a m hm ha hm1 hg

example : zzInvModV (10 ^ 19 + 7) (2 ^ 65 + 1) * (10 ^ 19 + 7) % (2 ^ 65 + 1) = 1
    ∧ zzInvModV 21 (3 * (2 ^ 64 + 1)) = 0 := by decide +kernel

/-- zzLCM computes the least common multiple (a, b ≠ 0). -/
theorem zzLCMV_spec (a b : Nat) (ha : 0 < a) (hb : 0 < b) : zzLCMV a b = Nat.lcm a b := by
  unfold zzLCMV Nat.lcm
  rw [zzGCDV_spec a b ha hb]

example : zzLCMV (6 * (2 ^ 64 + 1)) (10 * (2 ^ 64 + 1)) = 30 * (2 ^ 64 + 1) := by decide +kernel

/-- zzIsCoprime decides `gcd(a, b) = 1` for all a, b (including the zero shortcuts). -/
theorem zzIsCoprimeV_spec (a b : Nat) : zzIsCoprimeV a b = decide (Nat.gcd a b = 1) := by
  rw [Bool.eq_iff_iff, decide_eq_true_iff]
  unfold zzIsCoprimeV
  by_cases ha : a = 0
  · subst ha; rw [if_pos rfl, Nat.gcd_zero_left, beq_iff_eq]
  · rw [if_neg ha]
    by_cases hb : b = 0
    · subst hb; rw [if_pos rfl, Nat.gcd_zero_right, beq_iff_eq]
    · rw [if_neg hb, zzGCDV_spec a b (by omega) (by omega), beq_iff_eq]

example : zzIsCoprimeV (3 * 2 ^ 70) (5 ^ 30) = true ∧ zzIsCoprimeV 0 1 = true
    ∧ zzIsCoprimeV 0 7 = false ∧ zzIsCoprimeV 21 (3 * (2 ^ 64 + 1)) = false := by decide +kernel

/-! ## zzRandMod / zzRandNZMod as functions of the generator tape

`randCand l c tape j` is the j-th chunk of c = O_OF_B(l) octets (little-endian) trimmed to
l = wwBitSize(mod) bits; `randBad mod nz v` is the loop condition (v ≥ mod, or v = 0 for NZ).
The loop makes 65 attempts (129 for zzRandNZMod with l ≤ 16). -/

/-- zzRandMod / zzRandNZMod return the first acceptable chunk among the first `tries`
    (consuming (j+1) c octets), fail exactly when all of them are rejected (consuming tries c
    octets), and a returned value is `< mod` (and `≠ 0` for NZ). -/
theorem zzRandModV_spec (m : Nat) (tape : List Nat) (nz : Bool) :
    let l := bitLenV m
    let c := (l + 7) / 8
    let tries := (if nz ∧ l ≤ 16 then 2 * 64 else 64) + 1
    (∀ j < tries, (∀ k < j, randBad m nz (randCand l c tape k) = true) →
        randBad m nz (randCand l c tape j) = false →
        zzRandModV m tape nz = (some (randCand l c tape j), (j + 1) * c))
    ∧ ((∀ j < tries, randBad m nz (randCand l c tape j) = true) →
        zzRandModV m tape nz = (none, tries * c))
    ∧ (∀ v, (zzRandModV m tape nz).1 = some v → v < m ∧ (nz = true → v ≠ 0)) := by
  intro l c tries
  refine ⟨?_, ?_, ?_⟩
  · intro j hj hbad hgood
    have := zzRandModLoop_found m l c nz (if nz ∧ l ≤ 16 then 2 * 64 else 64) tape 0 j
      (by omega) hbad hgood
    simpa [zzRandModV] using this
  · intro hbad
    have := zzRandModLoop_none m l c nz (if nz ∧ l ≤ 16 then 2 * 64 else 64) tape 0
      (fun k hk => hbad k (by omega))
    simpa [zzRandModV] using this
  · intro v hv
    have := zzRandModLoop_some m l c nz (if nz ∧ l ≤ 16 then 2 * 64 else 64) tape 0 v hv
    unfold randBad at this
    simp only [Bool.or_eq_false_iff, Bool.and_eq_false_imp, decide_eq_false_iff_not] at this
    refine ⟨by omega, fun h => ?_⟩
    have := this.1 h
    simpa using this

example : zzRandModV 1000 [0xff, 0xff, 0xe8, 0x03, 0x05, 0x01] false = (some 0x105, 6)
    ∧ zzRandModV 1000 [0, 0, 7, 0] true = (some 7, 4)
    ∧ (zzRandModV 5 (List.replicate 70 0xff) false) = (none, 65)
    ∧ (zzRandModV 5 (List.replicate 130 0) true) = (none, 129) := by decide +kernel

/-! ## wwNAF

`nafSum ds = Σ ds[i] 2^i`.  Window w, 2 ≤ w < B_PER_W = W (the header's precondition). -/

/-- wwNAF, part 1: the digits sum to `a`; every digit is 0 or odd with `|d| < 2^(w-1)`;
    the returned size is the number of digits.  (The loop's fuel is proved sufficient here.) -/
theorem wwNAF_value (W a w : Nat) (hw : 2 ≤ w) (hwW : w < W) :
    nafSum (wwNAFDigits W a w) = a
    ∧ (∀ d ∈ wwNAFDigits W a w,
        d = 0 ∨ (d % 2 = 1 ∧ -(2 ^ (w - 1) : ℤ) < d ∧ d < 2 ^ (w - 1)))
    ∧ (wwNAFV W a w).1 = (wwNAFDigits W a w).length := by
  obtain ⟨k, rfl⟩ : ∃ k, w = k + 2 := ⟨w - 2, by omega⟩
  unfold wwNAFDigits wwNAFV wwNAFAll
  by_cases ha : a = 0
  · subst ha; simp [nafSum]
  · simp only [if_neg ha]
    have halen : a < 2 ^ bitLenV a := by
      unfold bitLenV; rw [if_neg ha]; exact Nat.lt_log2_self
    have hB : 0 < 2 ^ (k + 2) := Nat.two_pow_pos _
    have hm := Nat.mod_lt a hB
    obtain ⟨h1, h2, h3⟩ := nafLoop_spec W k a (bitLenV a) hwW halen
      (bitLenV a + 2 ^ (k + 2) + 2) (k + 2) (a % 2 ^ (k + 2)) [] 0 0 (by omega) (by simp) rfl
      (by
        have h0 := Nat.mod_add_div a (2 ^ (k + 2))
        simp only [nafSum, List.length_nil, pow_zero, mul_one, zero_add]
        generalize a % 2 ^ (k + 2) = r at h0 ⊢
        generalize a / 2 ^ (k + 2) = q at h0 ⊢
        have h : ((r + 2 ^ (k + 2) * q : Nat) : ℤ) = (a : ℤ) := by rw [h0]
        push_cast at h
        linarith)
      (by intro d hd; cases hd)
      (by split_ifs <;> omega)
    exact ⟨h1, h2, h3⟩

/-- wwNAF, part 2: the code word decodes (a_{l-1} first: a 0 bit = zero symbol, otherwise w bits
    sign ‖ magnitude) to the digits; for a ≠ 0 the top digit a_{l-1} is non-zero; the length is at
    most `wwBitSize(a) + 1`; non-adjacency as the code guarantees it (`Misc.nafGapOK`):
    any non-zero digit is at least w positions after the previous non-zero digit, except that the
    LAST digit may be only w - 1 positions after it.

    Header inconsistency (ww.h): the fourth property "among any w consecutive symbols only one is
    non-zero" cannot hold together with the last remark of the same header: when the computation
    would end with the suffix (α, 0, …, 0, 1), α < 0, w - 1 zeros, the code replaces it by
    (β, 0, …, 0, 1), β = 2^(w-1) + α > 0, with w - 2 zeros — two non-zero symbols among the last
    w.  The code implements the remark (it is what makes the length bound hold); the property
    should read "…, except possibly for the last w symbols". -/
theorem wwNAF_spec (W a w : Nat) (hw : 2 ≤ w) (hwW : w < W) :
    nafDecode w (wwNAFV W a w).1 (wwNAFV W a w).2 = (wwNAFDigits W a w).reverse
    ∧ (a ≠ 0 → ∃ d, (wwNAFDigits W a w).getLast? = some d ∧ d ≠ 0)
    ∧ (wwNAFV W a w).1 ≤ bitLenV a + 1
    ∧ nafGapOK w none (wwNAFDigits W a w) := by
  obtain ⟨k, rfl⟩ : ∃ k, w = k + 2 := ⟨w - 2, by omega⟩
  unfold wwNAFDigits wwNAFV wwNAFAll
  by_cases ha : a = 0
  · subst ha; simp [nafDecode, nafGapOK]
  · simp only [if_neg ha]
    have hB : 0 < 2 ^ (k + 2) := Nat.two_pow_pos _
    have hm := Nat.mod_lt a hB
    have hdec := nafLoop_decode W k a (bitLenV a) hwW (bitLenV a + 2 ^ (k + 2) + 2) (k + 2)
      (a % 2 ^ (k + 2)) [] 0 0 (by omega) rfl (by simp [nafDecode])
    have hlen : bitLenV a = Nat.log2 a + 1 := by unfold bitLenV; rw [if_neg ha]
    have halen : a < 2 ^ bitLenV a := by rw [hlen]; exact Nat.lt_log2_self
    have hlo : 2 ^ Nat.log2 a ≤ a := Nat.log2_self_le ha
    have htop : a / 2 ^ (bitLenV a - 1) % 2 = 1 := by
      rw [hlen, Nat.add_sub_cancel]
      have : a / 2 ^ Nat.log2 a = 1 :=
        Nat.div_eq_of_lt_le (by omega) (by rw [hlen, Nat.pow_succ] at halen; omega)
      rw [this]
    obtain ⟨h1, h2⟩ := nafLoop_shape W k a (bitLenV a) hwW halen (by omega) htop
      (bitLenV a + 2 ^ (k + 2) + 2) (k + 2) (a % 2 ^ (k + 2)) [] 0 0 (by omega) (by simp) rfl
      (by
        intro hle
        have h2 : 2 ^ bitLenV a * 2 ^ (k + 2 - bitLenV a) = 2 ^ (k + 2) := by
          rw [← Nat.pow_add]; congr 1; omega
        have h3 : a < 2 ^ (k + 2) := by
          rw [← h2]
          exact Nat.lt_of_lt_of_le halen (Nat.le_mul_of_pos_right _ (Nat.two_pow_pos _))
        rw [Nat.mod_eq_of_lt h3, ← h2]
        exact Nat.mul_le_mul_right _ (by omega))
      (by omega)
      (by
        rintro ⟨h0, hge⟩
        exfalso
        have h3 : a < 2 ^ (k + 2) :=
          Nat.lt_of_lt_of_le halen (Nat.pow_le_pow_right (by omega) (by omega))
        rw [Nat.mod_eq_of_lt h3] at h0
        exact ha h0)
      (by split_ifs <;> omega)
    have hgap := nafLoop_gap W k a (bitLenV a) hwW halen (bitLenV a + 2 ^ (k + 2) + 2) (k + 2)
      (a % 2 ^ (k + 2)) [] 0 0 (by omega) trivial trivial
    exact ⟨hdec, fun _ => h2, h1, hgap⟩

example : wwNAFDigits 64 (2 ^ 70 - 5) 4 = [-5, 0, 0, 0, 0, 0, 0, 0, 0, 0, 0, 0, 0, 0, 0, 0, 0, 0,
      0, 0, 0, 0, 0, 0, 0, 0, 0, 0, 0, 0, 0, 0, 0, 0, 0, 0, 0, 0, 0, 0, 0, 0, 0, 0, 0, 0, 0, 0, 0, 0,
      0, 0, 0, 0, 0, 0, 0, 0, 0, 0, 0, 0, 0, 0, 0, 0, 0, 0, 0, 0, 1]
    ∧ wwNAFV 64 0xE7 3 = (9, 21377)
    ∧ wwNAFDigits 64 0xE7 3 = [-1, 0, 0, -3, 0, 0, 0, 0, 1]
    ∧ nafDecode 3 9 21377 = (wwNAFDigits 64 0xE7 3).reverse := by decide +kernel

/-- the suffix exception in action (w = 3): the last two non-zero digits are w - 1 = 2 apart. -/
example : wwNAFDigits 64 7 3 = [3, 0, 1] ∧ wwNAFDigits 64 39 3 = [-1, 0, 0, 1, 0, 1]
    ∧ wwNAFDigits 64 0xE7 3 = [-1, 0, 0, -3, 0, 0, 0, 0, 1] := by decide +kernel

end Bee2V.C05

/-
C05 — remaining functions of the arithmetic layer:
  wwNAF (src/math/ww.c)                      value level: digits, code word, size
  zzRandMod / zzRandNZMod (zz_mod.c)         as functions of the generator's octet tape
  zzAdd3 (zz_add.c)                          word level (wwCopy + zzAdd + zzAddW2)
  zzMulMod / zzSqrMod / zzMulWMod (zz_mod.c), zzRed (zz_red.c)
                                             word level: zzMul / zzSqr / zzMulW followed by zzMod
  zzInvMod (zz_mod.c), zzLCM, zzIsCoprime (zz_gcd.c)
                                             value level, on top of zzDivModV / zzGCDV (ModelGcd)

wwNAF: the loop `for (i = w; window || i < a_len; ++i)` is transcribed with its variables
(window, digit, naf, naf_size; naf_len only sizes the shifts).  The array operations on `naf`
are replaced by the value they compute: `wwShHi(naf, W_OF_B(naf_len + w), w); wwSetBits(naf, 0, w,
digit)` is `naf <- naf << w | digit` (no bit is lost: naf < 2^naf_len), `wwShHi(naf, …, 1)` is
`naf <- naf << 1`; `wwGetBits(a, 0, w)` is `a mod 2^w`, `wwTestBit(a, i)` is bit i of a (these
word-level routines are modelled and proved in ModelBits / PropsBits).  `W` is B_PER_W (it only
enters through `0 - window` on the word type).  Besides the code word the model records the
signed digits a_0, a_1, … as they are produced.  Fuel: a_len + 2^w + 2 (proved sufficient).

zzRandMod: `rng(a, O_OF_B(l), state); wwFrom(a, a, O_OF_B(l)); wwTrimHi(a, n, l)` makes
a = (next O_OF_B(l) octets of the tape, little-endian) mod 2^l (an exhausted tape yields zeros,
as the harness generator does); the do-while with the counter `i` is transcribed literally.

No Mathlib (imported by the native driver).
-/
import Bee2V.C05.ModelAdd
import Bee2V.C05.ModelMul
import Bee2V.C05.ModelDiv
import Bee2V.C05.ModelGcd
namespace Bee2V.C05

/-- wwBitSize at value level -/
def bitLenV (a : Nat) : Nat := if a = 0 then 0 else Nat.log2 a + 1

/-! ## wwNAF -/

/-- one iteration body of wwNAF up to (not including) `window >>= 1`:
    returns (signed digit, code of the digit, window after `window <- window - digit`) -/
def wwNAFDigit (W w alen i window : Nat) : Int × Nat × Nat :=
  let next := 2 ^ w
  let hi := next / 2
  let mask := hi - 1
  if window % 2 = 1 then
    if window &&& hi ≠ 0 then
      if i ≥ alen then
        -- digit = window & mask, window = hi_bit  (suffix: the negative digit made positive)
        (((window &&& mask : Nat) : Int), window &&& mask, hi)
      else
        -- digit = (0 - window) & mask, digit ^= hi_bit, window = next_bit
        (-(((wneg W window) &&& mask : Nat) : Int), ((wneg W window) &&& mask) ^^^ hi, next)
    else
      -- digit = window, window = 0
      ((window : Int), window, 0)
  else (0, 0, window)

/-- the loop of wwNAF; state: i, window, digits so far (a_0 first), naf code, naf_size -/
def wwNAFLoop (W w a alen : Nat) : Nat → Nat → Nat → List Int → Nat → Nat → List Int × Nat × Nat
  | 0, _, _, digs, naf, size => (digs, naf, size)
  | f + 1, i, window, digs, naf, size =>
    if window = 0 ∧ ¬ i < alen then (digs, naf, size) else
    let r := wwNAFDigit W w alen i window
    -- non-zero symbol: shift in w bits, zero symbol: shift in one 0 bit
    let naf' := if window % 2 = 1 then (naf <<< w) ||| r.2.1 else naf <<< 1
    -- window >>= 1; if (i < a_len) window += hi_bit * wwTestBit(a, i)
    let window' := r.2.2 / 2 + (if i < alen then 2 ^ w / 2 * (a / 2 ^ i % 2) else 0)
    wwNAFLoop W w a alen f (i + 1) window' (digs ++ [r.1]) naf' (size + 1)

/-- all three results of wwNAF(naf, a, n, w): (digits a_0 …, code word, naf_size) -/
def wwNAFAll (W a w : Nat) : List Int × Nat × Nat :=
  if a = 0 then ([], 0, 0) else
  wwNAFLoop W w a (bitLenV a) (bitLenV a + 2 ^ w + 2) w (a % 2 ^ w) [] 0 0

/-- wwNAF: (naf_size, code word) -/
def wwNAFV (W a w : Nat) : Nat × Nat := ((wwNAFAll W a w).2.2, (wwNAFAll W a w).2.1)
/-- the signed digits a_0, a_1, …, a_{l-1} -/
def wwNAFDigits (W a w : Nat) : List Int := (wwNAFAll W a w).1

/-- reading `size` symbols off the code word from the low end (a_{l-1} first): a 0 bit is a zero
    symbol, otherwise w bits sign ‖ magnitude -/
def nafDecode (w : Nat) : Nat → Nat → List Int
  | 0, _ => []
  | s + 1, code =>
    if code % 2 = 0 then 0 :: nafDecode w s (code / 2)
    else
      let sym := code % 2 ^ w
      let d : Int := if sym / 2 ^ (w - 1) = 1 then -((sym % 2 ^ (w - 1) : Nat) : Int) else (sym : Int)
      d :: nafDecode w s (code / 2 ^ w)

/-! ## zzRandMod / zzRandNZMod -/

/-- little-endian value of a list of octets -/
def leVal : List Nat → Nat
  | [] => 0
  | b :: bs => b % 256 + 256 * leVal bs

/-- the do-while loop: `i` is the C counter (tested and decremented after a failed attempt),
    `used` the octets consumed so far -/
def zzRandModLoop (m l c : Nat) (nz : Bool) : Nat → List Nat → Nat → Option Nat × Nat
  | 0, tape, used =>
    let a := leVal (tape.take c) % 2 ^ l
    -- `i--` yields 0: stop (i becomes SIZE_MAX)
    if (nz && a == 0) || decide (a ≥ m) then (none, used + c) else (some a, used + c)
  | i + 1, tape, used =>
    let a := leVal (tape.take c) % 2 ^ l
    if (nz && a == 0) || decide (a ≥ m) then zzRandModLoop m l c nz i (tape.drop c) (used + c)
    else (some a, used + c)

/-- zzRandMod (nz = false) / zzRandNZMod (nz = true): (result or failure, octets consumed) -/
def zzRandModV (m : Nat) (tape : List Nat) (nz : Bool) : Option Nat × Nat :=
  let l := bitLenV m
  let i := if nz ∧ l ≤ 16 then 2 * 64 else 64
  zzRandModLoop m l ((l + 7) / 8) nz i tape 0

/-! ## zzAdd3 -/

/-- zzAdd3(c, a, n, b, m): sum of numbers of different lengths, max(n, m) words + carry -/
def zzAdd3 (w : Nat) (a b : List Nat) : List Nat × Nat :=
  let n := a.length
  let m := b.length
  if n > m then
    let r := zzAdd w (a.take m) b
    let r2 := zzAddW2 w (a.drop m) r.2
    (r.1 ++ r2.1, r2.2)
  else if n < m then
    let r := zzAdd w a (b.take n)
    let r2 := zzAddW2 w (b.drop n) r.2
    (r.1 ++ r2.1, r2.2)
  else zzAdd w a b

/-! ## modular multiplication and the general reduction -/

/-- zzMulMod: `zzMul(prod, a, n, b, n); zzMod(c, prod, 2n, mod, n)` -/
def zzMulMod (w : Nat) (a b mod : List Nat) : List Nat := zzMod w (zzMul w a b) mod
/-- zzSqrMod: `zzSqr(sqr, a, n); zzMod(b, sqr, 2n, mod, n)` -/
def zzSqrMod (w : Nat) (a mod : List Nat) : List Nat := zzMod w (zzSqr w a) mod
/-- zzMulWMod: `prod[n] = zzMulW(prod, a, n, w); zzMod(b, prod, n + 1, mod, n)` -/
def zzMulWMod (w : Nat) (a : List Nat) (x : Nat) (mod : List Nat) : List Nat :=
  zzMod w ((zzMulW w a x).1 ++ [(zzMulW w a x).2]) mod
/-- zzRed: `zzMod(a, a, 2n, mod, n)` -/
def zzRed (w : Nat) (a mod : List Nat) : List Nat := zzMod w a mod

/-! ## value level: zzInvMod, zzLCM, zzIsCoprime -/

/-- zzInvMod: `wwSetW(divident, n, 1); zzDivMod(b, divident, a, mod, n)` -/
def zzInvModV (a mod : Nat) : Nat := zzDivModV 1 a mod

/-- zzLCM: `prod <- a * b; gcd <- (a, b); d <- prod div gcd` (a, b ≠ 0) -/
def zzLCMV (a b : Nat) : Nat := a * b / zzGCDV a b

/-- zzIsCoprime with its shortcuts for a == 0 and b == 0 -/
def zzIsCoprimeV (a b : Nat) : Bool :=
  if a = 0 then b == 1
  else if b = 0 then a == 1
  else zzGCDV a b == 1

end Bee2V.C05

/-
C05 — multiplication and squaring in GF(2)[x]/(P) at word level, end to end (src/math/gf2.c:
gf2MulTrinomial0/1, gf2MulPentanomial, gf2SqrTrinomial0/1, gf2SqrPentanomial and the selection made by
gf2Create; models in ModelGf2Ops.lean).  Composition of `ppMul_spec` / `ppSqr_spec` (PropsPpMul) with
the static reductions `gf2RedTrinomial0/1_spec`, `gf2RedPentanomial_spec` (PropsPpRed).

For w ∈ {16, 32, 64}, the conditions under which gf2Create accepts (m, k) resp. (m, k, l, l1), and
a, b of n = W_OF_B(m) words: the n result words are `(a · b) mod P` (`Spec.pmod (Spec.clmul …) P`),
reduced (< 2^m).  No bound on the degrees of a, b is needed (gf2IsIn is not used).
-/
import Bee2V.C05.ModelGf2Ops
import Bee2V.C05.PropsPpMul
import Bee2V.C05.PropsPpRed
namespace Bee2V.C05
open Bee2V.C05.Spec

namespace Gf2Ops

theorem width_pos {w : Nat} (hw : w = 16 ∨ w = 32 ∨ w = 64) : 0 < w := by
  rcases hw with rfl | rfl | rfl <;> omega

theorem width_16 {w : Nat} (hw : w = 16 ∨ w = 32 ∨ w = 64) : 16 ∣ w := by
  rcases hw with rfl | rfl | rfl <;> decide

theorem mod_w_ne {w m : Nat} (hw : w = 16 ∨ w = 32 ∨ w = 64) (hm8 : m % 8 ≠ 0) : m % w ≠ 0 := by
  rcases hw with rfl | rfl | rfl <;> omega

/-- the product array handed to the reductions -/
theorem prod_mul (w : Nat) (hw : w = 16 ∨ w = 32 ∨ w = 64) (m : Nat) (a b : List Nat)
    (ha : Wf w a) (hb : Wf w b) (hla : a.length = wOfB w m) (hlb : b.length = wOfB w m) :
    val w (ppMul w a b) = clmul (val w a) (val w b) ∧ Wf w (ppMul w a b)
    ∧ (ppMul w a b).length = 2 * wOfB w m := by
  obtain ⟨h1, h2, h3⟩ := ppMul_spec w hw a b ha hb
  exact ⟨h1, h2, by rw [h3, hla, hlb]; omega⟩

theorem prod_sqr (w : Nat) (hw : w = 16 ∨ w = 32 ∨ w = 64) (m : Nat) (a : List Nat)
    (ha : Wf w a) (hla : a.length = wOfB w m) :
    val w (ppSqr w a) = clmul (val w a) (val w a) ∧ Wf w (ppSqr w a)
    ∧ (ppSqr w a).length = 2 * wOfB w m := by
  obtain ⟨h1, h2, h3⟩ := ppSqr_spec w (width_16 hw) a ha
  exact ⟨h1, h2, by rw [h3, hla]; omega⟩

end Gf2Ops
open Gf2Ops

/-- `f->mul` for a trinomial field x^m + x^k + 1 (gf2Create: m % 8 ≠ 0, 0 < k < m, m − k ≥ B_PER_W;
    gf2MulTrinomial0 if (m − k) % B_PER_W = 0, else gf2MulTrinomial1). -/
theorem gf2Mul_trinomial_spec (w : Nat) (hw : w = 16 ∨ w = 32 ∨ w = 64) (m k : Nat) (a b : List Nat)
    (hm8 : m % 8 ≠ 0) (hk : 0 < k) (hmk : w ≤ m - k)
    (ha : Wf w a) (hb : Wf w b) (hla : a.length = wOfB w m) (hlb : b.length = wOfB w m) :
    val w (gf2Mul w m k 0 0 a b) = pmod (clmul (val w a) (val w b)) (2 ^ m + 2 ^ k + 1)
    ∧ val w (gf2Mul w m k 0 0 a b) < 2 ^ m ∧ Wf w (gf2Mul w m k 0 0 a b)
    ∧ (gf2Mul w m k 0 0 a b).length = wOfB w m := by
  obtain ⟨p1, p2, p3⟩ := prod_mul w hw m a b ha hb hla hlb
  unfold gf2Mul
  simp only [if_true]
  by_cases hbk : (m - k) % w = 0
  · have h0 : (Gf2Trinom.create w m k).bk = 0 := hbk
    rw [if_pos h0]
    have := gf2RedTrinomial0_spec w (ppMul w a b) m k (width_pos hw) p2 p3 (mod_w_ne hw hm8) hk hmk hbk
    rw [p1] at this
    exact this
  · have h0 : ¬ (Gf2Trinom.create w m k).bk = 0 := hbk
    rw [if_neg h0]
    have := gf2RedTrinomial1_spec w (ppMul w a b) m k (width_pos hw) p2 p3 (mod_w_ne hw hm8) hk hmk hbk
    rw [p1] at this
    exact this

/-- `f->sqr` for a trinomial field. -/
theorem gf2Sqr_trinomial_spec (w : Nat) (hw : w = 16 ∨ w = 32 ∨ w = 64) (m k : Nat) (a : List Nat)
    (hm8 : m % 8 ≠ 0) (hk : 0 < k) (hmk : w ≤ m - k)
    (ha : Wf w a) (hla : a.length = wOfB w m) :
    val w (gf2Sqr w m k 0 0 a) = pmod (clmul (val w a) (val w a)) (2 ^ m + 2 ^ k + 1)
    ∧ val w (gf2Sqr w m k 0 0 a) < 2 ^ m ∧ Wf w (gf2Sqr w m k 0 0 a)
    ∧ (gf2Sqr w m k 0 0 a).length = wOfB w m := by
  obtain ⟨p1, p2, p3⟩ := prod_sqr w hw m a ha hla
  unfold gf2Sqr
  simp only [if_true]
  by_cases hbk : (m - k) % w = 0
  · have h0 : (Gf2Trinom.create w m k).bk = 0 := hbk
    rw [if_pos h0]
    have := gf2RedTrinomial0_spec w (ppSqr w a) m k (width_pos hw) p2 p3 (mod_w_ne hw hm8) hk hmk hbk
    rw [p1] at this
    exact this
  · have h0 : ¬ (Gf2Trinom.create w m k).bk = 0 := hbk
    rw [if_neg h0]
    have := gf2RedTrinomial1_spec w (ppSqr w a) m k (width_pos hw) p2 p3 (mod_w_ne hw hm8) hk hmk hbk
    rw [p1] at this
    exact this

/-- `f->mul` for a pentanomial field x^m + x^k + x^l + x^l1 + 1 (gf2Create: m > k > l > l1 > 0,
    k < B_PER_W, m − k ≥ B_PER_W). -/
theorem gf2Mul_pentanomial_spec (w : Nat) (hw : w = 16 ∨ w = 32 ∨ w = 64) (m k l l1 : Nat)
    (a b : List Nat) (h1 : 0 < l1) (h2 : l1 < l) (h3 : l < k) (hk : k < w) (hmk : w ≤ m - k)
    (ha : Wf w a) (hb : Wf w b) (hla : a.length = wOfB w m) (hlb : b.length = wOfB w m) :
    val w (gf2Mul w m k l l1 a b)
      = pmod (clmul (val w a) (val w b)) (2 ^ m + 2 ^ k + 2 ^ l + 2 ^ l1 + 1)
    ∧ val w (gf2Mul w m k l l1 a b) < 2 ^ m ∧ Wf w (gf2Mul w m k l l1 a b)
    ∧ (gf2Mul w m k l l1 a b).length = wOfB w m := by
  obtain ⟨p1, p2, p3⟩ := prod_mul w hw m a b ha hb hla hlb
  unfold gf2Mul
  rw [if_neg (by omega : ¬ l = 0)]
  have := gf2RedPentanomial_spec w (ppMul w a b) m k l l1 (width_pos hw) p2 p3 h1 h2 h3 hk hmk
  rw [p1] at this
  exact this

/-- `f->sqr` for a pentanomial field. -/
theorem gf2Sqr_pentanomial_spec (w : Nat) (hw : w = 16 ∨ w = 32 ∨ w = 64) (m k l l1 : Nat)
    (a : List Nat) (h1 : 0 < l1) (h2 : l1 < l) (h3 : l < k) (hk : k < w) (hmk : w ≤ m - k)
    (ha : Wf w a) (hla : a.length = wOfB w m) :
    val w (gf2Sqr w m k l l1 a)
      = pmod (clmul (val w a) (val w a)) (2 ^ m + 2 ^ k + 2 ^ l + 2 ^ l1 + 1)
    ∧ val w (gf2Sqr w m k l l1 a) < 2 ^ m ∧ Wf w (gf2Sqr w m k l l1 a)
    ∧ (gf2Sqr w m k l l1 a).length = wOfB w m := by
  obtain ⟨p1, p2, p3⟩ := prod_sqr w hw m a ha hla
  unfold gf2Sqr
  rw [if_neg (by omega : ¬ l = 0)]
  have := gf2RedPentanomial_spec w (ppSqr w a) m k l l1 (width_pos hw) p2 p3 h1 h2 h3 hk hmk
  rw [p1] at this
  exact this

-- non-vacuity: x^23 + x^5 + 1 (w = 16, n = 2, bk = 2: Trinomial1), x^37 + x^5 + 1 (bk = 0: Trinomial0),
-- x^40 + x^5 + x^4 + x^3 + 1 (m % w ≠ 0 not required for pentanomials)
example := gf2Mul_trinomial_spec 16 (Or.inl rfl) 23 5 [65535, 127] [3, 1] (by decide) (by decide)
  (by decide) (by decide) (by decide) (by decide) (by decide)
example : (gf2Mul 16 23 5 0 0 [65535, 127] [3, 1]).length = 2
    ∧ val 16 (gf2Mul 16 23 5 0 0 [65535, 127] [3, 1]) < 2 ^ 23
    ∧ (Gf2Trinom.create 16 23 5).bk ≠ 0 ∧ (Gf2Trinom.create 16 37 5).bk = 0 := by decide
example : (gf2Sqr 16 37 5 0 0 [65535, 65535, 31]).length = 3
    ∧ val 16 (gf2Sqr 16 37 5 0 0 [65535, 65535, 31]) < 2 ^ 37 := by decide
example := gf2Mul_pentanomial_spec 16 (Or.inl rfl) 40 5 4 3 [65535, 65535, 255] [1, 2, 3] (by decide)
  (by decide) (by decide) (by decide) (by decide) (by decide) (by decide) (by decide) (by decide)
example : (gf2Mul 16 40 5 4 3 [65535, 65535, 255] [1, 2, 3]).length = 3
    ∧ val 16 (gf2Mul 16 40 5 4 3 [65535, 65535, 255] [1, 2, 3]) < 2 ^ 40 := by decide

end Bee2V.C05

/-
C05 — property theorems for the word-level models of src/math/pp/pp_mul.c (ModelPpMul.lean).
`clmul` = `Spec.clmul`, the carry-less product on Nat-coded GF(2)[x]; `val w a` = the polynomial
coded by the little-endian word list `a` (`val w (r ++ [carry])` = result words with the carry word
on top, i.e. `val r ^^^ carry <<< (w n)`: the bits are disjoint).

STATUS.  Everything below is unconditional.  `_spec` theorems about multiplication are stated for the
three word sizes of the library, w ∈ {16, 32, 64}; `ppSqr_spec` for every w with 16 | w; the
Karatsuba steps `ppKara2_step`, `ppKara3_step` for every w.

How `_MUL1` (window method s = 4: `_MUL_PRE_S4`, `_MUL_MUL_S4`, `_MUL_REPAIR_S4`; model `ppMul1W`)
is proved (LemmasPpMul §10–§12), for w = 8·nb:
  `ppTab_at` — entry i of the table is a·i mod x^w;  `octet_spec` — `t[y >> 4] << 4 ^ t[y & 15]` is
  a·y mod x^w;  `regStep`, `ppMulS4Loop_spec` — the (hi, lo) register shifts exactly as a two-word value
  and ends with XOR_j (a·y_j mod x^w) << 8j;  `clmul_Gf_Kf` — a·b is that value xor
  (XOR_j ((a·y_j) >> w) << 8j) << w;  `RepairOK` — the seven repair lines xor exactly that lost part
  into hi: both sides are xor-bilinear in (a, b) (`ppRepair_add_a/b`, `Kf_add_a/b`, `additive_ext`),
  so it suffices to compare them on the w² pairs of monomials (2^i, 2^p), which is done by kernel
  evaluation (`decide +kernel`, no axiom) for w = 16, 32, 64.
-/
import Bee2V.C05.LemmasPpMul
namespace Bee2V.C05
open Bee2V.C05.Spec Bee2V.C05.PpMul

/-- `_MUL1` (ppMul1): for words a, b the two result words lo, hi are words and
    `lo + 2^w hi = a · b` (carry-less). -/
theorem ppMul1W_spec (w : Nat) (hw : w = 16 ∨ w = 32 ∨ w = 64) (a b : Nat) (ha : a < 2 ^ w)
    (hb : b < 2 ^ w) :
    (ppMul1W w a b).1 < 2 ^ w ∧ (ppMul1W w a b).2 < 2 ^ w
    ∧ (ppMul1W w a b).1 + 2 ^ w * (ppMul1W w a b).2 = clmul a b :=
  Mul1OK_of_width hw a b ha hb

/-- ppMulW: `b ++ [carry] = a · w` (carry-less). -/
theorem ppMulW_spec (w : Nat) (hw : w = 16 ∨ w = 32 ∨ w = 64) (a : List Nat) (x : Nat)
    (ha : Wf w a) (hx : x < 2 ^ w) :
    val w ((ppMulW w a x).1 ++ [(ppMulW w a x).2]) = clmul (val w a) x
    ∧ (ppMulW w a x).2 < 2 ^ w ∧ Wf w (ppMulW w a x).1
    ∧ (ppMulW w a x).1.length = a.length :=
  PpMul.ppMulW_spec w (Mul1OK_of_width hw) a x ha hx

/-- ppAddMulW: `b' ++ [carry] = b + a · w`. -/
theorem ppAddMulW_spec (w : Nat) (hw : w = 16 ∨ w = 32 ∨ w = 64) (b a : List Nat) (x : Nat) (hb : Wf w b)
    (ha : Wf w a) (hl : b.length = a.length) (hx : x < 2 ^ w) :
    val w ((ppAddMulW w b a x).1 ++ [(ppAddMulW w b a x).2]) = val w b ^^^ clmul (val w a) x
    ∧ (ppAddMulW w b a x).2 < 2 ^ w ∧ Wf w (ppAddMulW w b a x).1
    ∧ (ppAddMulW w b a x).1.length = b.length :=
  PpMul.ppAddMulW_spec w (Mul1OK_of_width hw) b a x hb ha hl hx

/-- ppMul1, ppMul2 (Kara2_1), ppMul4, ppMul8 (Kara2): `c = a · b`, 2n words. -/
theorem ppMul1_spec (w : Nat) (hw : w = 16 ∨ w = 32 ∨ w = 64) (a b : List Nat) (ha : Wf w a) (hb : Wf w b)
    (hla : a.length = 1) (hlb : b.length = 1) :
    val w (ppMul1 w a b) = clmul (val w a) (val w b) ∧ Wf w (ppMul1 w a b)
    ∧ (ppMul1 w a b).length = 1 + 1 := ppMul1_ok w (Mul1OK_of_width hw) a b ha hb hla hlb

theorem ppMul2_spec (w : Nat) (hw : w = 16 ∨ w = 32 ∨ w = 64) (a b : List Nat) (ha : Wf w a) (hb : Wf w b)
    (hla : a.length = 2) (hlb : b.length = 2) :
    val w (ppMul2 w a b) = clmul (val w a) (val w b) ∧ Wf w (ppMul2 w a b)
    ∧ (ppMul2 w a b).length = 2 + 2 := ppMul2_ok w (Mul1OK_of_width hw) a b ha hb hla hlb

theorem ppMul4_spec (w : Nat) (hw : w = 16 ∨ w = 32 ∨ w = 64) (a b : List Nat) (ha : Wf w a) (hb : Wf w b)
    (hla : a.length = 4) (hlb : b.length = 4) :
    val w (ppMul4 w a b) = clmul (val w a) (val w b) ∧ Wf w (ppMul4 w a b)
    ∧ (ppMul4 w a b).length = 4 + 4 := ppMul4_ok w (Mul1OK_of_width hw) a b ha hb hla hlb

theorem ppMul8_spec (w : Nat) (hw : w = 16 ∨ w = 32 ∨ w = 64) (a b : List Nat) (ha : Wf w a) (hb : Wf w b)
    (hla : a.length = 8) (hlb : b.length = 8) :
    val w (ppMul8 w a b) = clmul (val w a) (val w b) ∧ Wf w (ppMul8 w a b)
    ∧ (ppMul8 w a b).length = 8 + 8 := ppMul8_ok w (Mul1OK_of_width hw) a b ha hb hla hlb

/-- the (truncated) Karatsuba step used by ppMul4 … ppMul8 and both branches of ppMulEq:
    correct m- and k-word multipliers (k ≤ m ≤ 2k) give a correct (m+k)-word multiplier. -/
theorem ppKara2_step (w m k : Nat) (mulLo mulHi : List Nat → List Nat → List Nat)
    (hLo : MulOK w m mulLo) (hHi : MulOK w k mulHi) (hkm : k ≤ m) (hmk : m ≤ k + k) :
    MulOK w (m + k) (ppKara2 mulLo mulHi m) := ppKara2_ok w m k mulLo mulHi hLo hHi hkm hmk

/-- ppMul3 (Kara3_1), ppMul5, ppMul7 (truncated Kara2), ppMul6 (Kara2), ppMul9 (Kara3). -/
theorem ppMul3_spec (w : Nat) (hw : w = 16 ∨ w = 32 ∨ w = 64) (a b : List Nat) (ha : Wf w a) (hb : Wf w b)
    (hla : a.length = 3) (hlb : b.length = 3) :
    val w (ppMul3 w a b) = clmul (val w a) (val w b) ∧ Wf w (ppMul3 w a b)
    ∧ (ppMul3 w a b).length = 3 + 3 := ppMul3_ok w (Mul1OK_of_width hw) a b ha hb hla hlb

theorem ppMul5_spec (w : Nat) (hw : w = 16 ∨ w = 32 ∨ w = 64) (a b : List Nat) (ha : Wf w a) (hb : Wf w b)
    (hla : a.length = 5) (hlb : b.length = 5) :
    val w (ppMul5 w a b) = clmul (val w a) (val w b) ∧ Wf w (ppMul5 w a b)
    ∧ (ppMul5 w a b).length = 5 + 5 := ppMul5_ok w (Mul1OK_of_width hw) a b ha hb hla hlb

theorem ppMul6_spec (w : Nat) (hw : w = 16 ∨ w = 32 ∨ w = 64) (a b : List Nat) (ha : Wf w a) (hb : Wf w b)
    (hla : a.length = 6) (hlb : b.length = 6) :
    val w (ppMul6 w a b) = clmul (val w a) (val w b) ∧ Wf w (ppMul6 w a b)
    ∧ (ppMul6 w a b).length = 6 + 6 := ppMul6_ok w (Mul1OK_of_width hw) a b ha hb hla hlb

theorem ppMul7_spec (w : Nat) (hw : w = 16 ∨ w = 32 ∨ w = 64) (a b : List Nat) (ha : Wf w a) (hb : Wf w b)
    (hla : a.length = 7) (hlb : b.length = 7) :
    val w (ppMul7 w a b) = clmul (val w a) (val w b) ∧ Wf w (ppMul7 w a b)
    ∧ (ppMul7 w a b).length = 7 + 7 := ppMul7_ok w (Mul1OK_of_width hw) a b ha hb hla hlb

theorem ppMul9_spec (w : Nat) (hw : w = 16 ∨ w = 32 ∨ w = 64) (a b : List Nat) (ha : Wf w a) (hb : Wf w b)
    (hla : a.length = 9) (hlb : b.length = 9) :
    val w (ppMul9 w a b) = clmul (val w a) (val w b) ∧ Wf w (ppMul9 w a b)
    ∧ (ppMul9 w a b).length = 9 + 9 := ppMul9_ok w (Mul1OK_of_width hw) a b ha hb hla hlb

/-- the Kara3 step (ppMul9 scheme): a correct m-word multiplier gives a correct 3m-word one. -/
theorem ppKara3_step (w m : Nat) (mul : List Nat → List Nat → List Nat) (h : MulOK w m mul) :
    MulOK w (m + m + m) (ppKara3 mul m) := ppKara3_ok w m mul h

/-- ppMulEq for every n ≥ 1 (table for n ≤ 9, (truncated) Karatsuba recursion above; the fuel of
    the model is never exhausted). -/
theorem ppMulEq_spec (w : Nat) (hw : w = 16 ∨ w = 32 ∨ w = 64) (a b : List Nat) (ha : Wf w a) (hb : Wf w b)
    (hn : 1 ≤ a.length) (hl : b.length = a.length) :
    val w (ppMulEq w a b) = clmul (val w a) (val w b) ∧ Wf w (ppMulEq w a b)
    ∧ (ppMulEq w a b).length = a.length + a.length :=
  ppMulEq_ok w (Mul1OK_of_width hw) a.length hn a b ha hb rfl hl

/-- ppMul, all lengths n, m ≥ 0 (empty factor, n = m, n < m by symmetry, n > m by the chunk loop):
    `c = a · b`, n + m words. -/
theorem ppMul_spec (w : Nat) (hw : w = 16 ∨ w = 32 ∨ w = 64) (a b : List Nat) (ha : Wf w a) (hb : Wf w b) :
    val w (ppMul w a b) = clmul (val w a) (val w b) ∧ Wf w (ppMul w a b)
    ∧ (ppMul w a b).length = a.length + b.length :=
  PpMul.ppMul_spec w (Mul1OK_of_width hw) a b ha hb

/-- ppSqr (table `_squares[256]`, `_SQR_LO/_SQR_HI`): `b = a · a`, 2n words, for every word size
    that is a multiple of 16 (B_PER_W ∈ {16, 32, 64}).  Unconditional: the 256 table entries are
    checked against `clmul i i` by `decide` (`ppSquares_spec`), squaring is additive over xor. -/
theorem ppSqr_spec (w : Nat) (hw : 16 ∣ w) (a : List Nat) (ha : Wf w a) :
    val w (ppSqr w a) = clmul (val w a) (val w a) ∧ Wf w (ppSqr w a)
    ∧ (ppSqr w a).length = a.length + a.length := by
  obtain ⟨k, rfl⟩ := hw
  exact PpMul.ppSqr_spec k a ha

/-- the table `_squares[256]` of the source is the bit-spread (the square) of its index. -/
theorem ppSquares_table : ∀ i < 256, ppAt ppSquares i = clmul i i := ppSquares_spec

example : ppSqr 16 [65535, 3] = [21845, 21845, 5, 0] ∧ Wf 16 [65535, 3] := by decide

-- non-vacuity: the hypothesis holds on concrete words, the models compute the carry-less product
example : ppMul1W 8 255 255 = (85, 85) ∧ clmul 255 255 = 85 + 2 ^ 8 * 85 := by decide
example : ppMul2 16 [65535, 65535] [65535, 65535] = [21845, 21845, 21845, 21845] := by decide
example : ppMulW 16 [65535, 1] 3 = ([1, 2], 0) := by decide

end Bee2V.C05

/-
C05 — lemmas for ModelPpModOps.lean (ppMulMod, ppSqrMod, ppRed, gf2From/To/Add3/Inv/Div).
-/
import Bee2V.C05.ModelPpModOps
import Bee2V.C05.LemmasPpDiv
import Bee2V.C05.LemmasBits
namespace Bee2V.C05.PpModOps
open Bee2V.C05 Bee2V.C05.Spec Bee2V.C05.Pp Bee2V.C05.PpRed Bee2V.C05.PpDiv

theorem width_16 {w : Nat} (hw : w = 16 ∨ w = 32 ∨ w = 64) : ∃ k, w = 16 * k := by
  rcases hw with rfl | rfl | rfl
  · exact ⟨1, rfl⟩
  · exact ⟨2, rfl⟩
  · exact ⟨4, rfl⟩

theorem ppMulMod_ok {w : Nat} (hw : w = 16 ∨ w = 32 ∨ w = 64) (a b md : List Nat) (ha : Wf w a)
    (hb : Wf w b) (hmd : Wf w md) (hm : 0 < md.length) (htop : md.getD (md.length - 1) 0 ≠ 0) :
    val w (ppMulMod w a b md) = pmod (clmul (val w a) (val w b)) (val w md)
    ∧ (ppMulMod w a b md).length = md.length ∧ Wf w (ppMulMod w a b md) := by
  obtain ⟨h1, h2, _⟩ := PpMul.ppMul_spec w (PpMul.Mul1OK_of_width hw) a b ha hb
  unfold ppMulMod
  rw [← h1]
  exact ppMod_ok hw _ md h2 hmd hm htop

theorem ppSqrMod_ok {w : Nat} (hw : w = 16 ∨ w = 32 ∨ w = 64) (a md : List Nat) (ha : Wf w a)
    (hmd : Wf w md) (hm : 0 < md.length) (htop : md.getD (md.length - 1) 0 ≠ 0) :
    val w (ppSqrMod w a md) = pmod (clmul (val w a) (val w a)) (val w md)
    ∧ (ppSqrMod w a md).length = md.length ∧ Wf w (ppSqrMod w a md) := by
  obtain ⟨k, rfl⟩ := width_16 hw
  obtain ⟨h1, h2, _⟩ := PpMul.ppSqr_spec k a ha
  unfold ppSqrMod
  rw [← h1]
  exact ppMod_ok hw _ md h2 hmd hm htop

theorem val_zipWith_xor {w : Nat} : ∀ (a b : List Nat), Wf w a → Wf w b → a.length = b.length →
    val w (List.zipWith (· ^^^ ·) a b) = val w a ^^^ val w b
    ∧ Wf w (List.zipWith (· ^^^ ·) a b) ∧ (List.zipWith (· ^^^ ·) a b).length = a.length := by
  intro a
  induction a with
  | nil => intro b _ _ hl; cases b <;> simp_all [val, Wf_nil]
  | cons x xs ih =>
    intro b ha hb hl
    cases b with
    | nil => simp at hl
    | cons y ys =>
      obtain ⟨hx, hxs⟩ := Wf_cons.1 ha
      obtain ⟨hy, hys⟩ := Wf_cons.1 hb
      obtain ⟨i1, i2, i3⟩ := ih ys hxs hys (by simpa using hl)
      have hxy := Nat.xor_lt_two_pow hx hy
      rw [List.zipWith_cons_cons]
      refine ⟨?_, Wf_cons.2 ⟨hxy, i2⟩, by simp [i3]⟩
      rw [val_cons_xor _ hxy, val_cons_xor _ hx, val_cons_xor _ hy, i1, Nat.shiftLeft_xor_distrib]
      exact xor4_swap _ _ _ _

theorem bitSize_le_iff (x m : Nat) : ppBitSize x ≤ m ↔ x < 2 ^ m := by
  unfold ppBitSize
  by_cases hx : x = 0
  · subst hx; simp
  · rw [if_neg hx]
    have := Nat.log2_lt (k := m) hx
    omega

theorem gf2From_ok {w : Nat} (O : Nat) (hO : 0 < O) (hw8 : w = 8 * O) (m : Nat) (o : List Nat)
    (ho : Wf 8 o) :
    val w (gf2From w m o).1 = val 8 o ∧ Wf w (gf2From w m o).1
    ∧ (gf2From w m o).1.length = (o.length + O - 1) / O
    ∧ ((gf2From w m o).2 = true ↔ (m % w = 0 ∨ val 8 o < 2 ^ m)) := by
  obtain ⟨h1, h2⟩ := Bits.wwFrom_val O hO hw8 o
  have h3 := Bits.wwFrom_Wf O hw8 o ho
  refine ⟨h2, h3, h1, ?_⟩
  unfold gf2From gf2IsIn
  simp only [Bool.or_eq_true, beq_iff_eq, decide_eq_true_eq, bitSize_le_iff, h2]

theorem gf2To_From {w : Nat} (O : Nat) (hO : 0 < O) (hw8 : w = 8 * O) (m : Nat) (o : List Nat)
    (ho : Wf 8 o) (hl : o.length = oOfB m) : gf2To w m (gf2From w m o).1 = o := by
  unfold gf2To gf2From
  rw [← hl]
  exact Bits.wwTo_wwFrom O hO hw8 o ho

theorem val_snoc_zero (w : Nat) (a : List Nat) : val w (a ++ [0]) = val w a := by
  rw [PpRed.val_append]; simp [val]

theorem gf2Div_ok {w : Nat} (hw0 : 0 < w) (m : Nat) (md dv a : List Nat)
    (hmd1 : val w md % 2 = 1) (hdeg : (val w md).log2 = m) (hdv : val w dv < 2 ^ m) :
    val w (gf2Div w m md dv a) = ppDivModV (val w dv) (val w a) (val w md)
    ∧ (gf2Div w m md dv a).length = wOfB w m ∧ Wf w (gf2Div w m md dv a)
    ∧ (pgcd (val w a) (val w md) = 1 →
        pmod (clmul (val w (gf2Div w m md dv a)) (val w a)) (val w md) = val w dv)
    ∧ (pgcd (val w a) (val w md) ≠ 1 → val w (gf2Div w m md dv a) = 0) := by
  have hmd0 : val w md ≠ 0 := by omega
  obtain ⟨s1, s2⟩ := divModV_spec (val w dv) (val w a) (val w md) hmd1
    (by rw [hdeg]; exact Nat.lt_of_lt_of_le hdv (Nat.pow_le_pow_right (by omega) (by omega)))
  have hr : ppDivModV (val w dv) (val w a) (val w md) < 2 ^ m := by
    by_cases hg : pgcd (val w a) (val w md) = 1
    · have := (s1 hg).2; rwa [hdeg] at this
    · rw [s2 hg]; exact Nat.two_pow_pos _
  obtain ⟨_, _, n3⟩ := wOfB_bounds hw0 m
  have hrn : ppDivModV (val w dv) (val w a) (val w md) < 2 ^ (w * wOfB w m) :=
    Nat.lt_of_lt_of_le hr (Nat.pow_le_pow_right (by omega) n3)
  have hres : gf2Div w m md dv a = toWords w (wOfB w m) (ppDivModV (val w dv) (val w a) (val w md)) := by
    unfold gf2Div
    dsimp only
    split
    · rw [val_snoc_zero, val_snoc_zero, toWords_take w _ _ _ (by omega)]
    · rfl
  have hv : val w (gf2Div w m md dv a) = ppDivModV (val w dv) (val w a) (val w md) := by
    rw [hres, val_toWords, Nat.mod_eq_of_lt hrn]
  refine ⟨hv, by rw [hres, toWords_length], by rw [hres]; exact toWords_Wf w _ _, ?_, ?_⟩
  · intro hg
    rw [hv, (s1 hg).1, pmod_of_lt hmd0 (by rw [hdeg]; exact hdv)]
  · intro hg
    rw [hv, s2 hg]

theorem gf2Inv_ok {w : Nat} (hw0 : 0 < w) (m : Nat) (md a : List Nat)
    (hmd1 : val w md % 2 = 1) (hdeg : (val w md).log2 = m) (hm : 0 < m) :
    val w (gf2Inv w m md a) = ppInvModV (val w a) (val w md)
    ∧ (gf2Inv w m md a).length = wOfB w m ∧ Wf w (gf2Inv w m md a)
    ∧ (pgcd (val w a) (val w md) = 1 →
        pmod (clmul (val w (gf2Inv w m md a)) (val w a)) (val w md) = 1)
    ∧ (pgcd (val w a) (val w md) ≠ 1 → val w (gf2Inv w m md a) = 0) := by
  have h1 : (1 : Nat) < 2 ^ m := Nat.one_lt_two_pow (by omega)
  have hone : val w [1] = 1 := by simp [val]
  have := gf2Div_ok hw0 m md [1] a hmd1 hdeg (by rw [hone]; exact h1)
  rw [hone] at this
  have heq : gf2Inv w m md a = gf2Div w m md [1] a := by
    unfold gf2Inv gf2Div ppInvModV
    simp only [val_snoc_zero, hone]
  rw [heq]
  exact this


/-! ## ppMinPolyMod: the sequence -/

/-- k-fold `t ↦ t·a mod md` -/
def ppIter (a md : Nat) : Nat → Nat → Nat
  | 0, t => t
  | k + 1, t => ppIter a md k (pmod (clmul t a) md)

/-- the bit sequence handed to ppMinPoly, as a closed recursion: bit j (j < n) is the constant term of
    the (2l − 1 − j)-fold iterate started at a, i.e. of a^{2l−j} mod md -/
def ppSeqBits (a md l : Nat) : Nat → Nat
  | 0 => 0
  | n + 1 => ppSeqBits a md l n ||| ((ppIter a md (2 * l - 1 - n) a % 2) <<< n)

theorem testBit_bit_shl (b c j : Nat) (hb : b < 2) :
    (b <<< c).testBit j = (decide (j = c) && decide (b = 1)) := by
  rw [Nat.testBit_shiftLeft]
  have : b = 0 ∨ b = 1 := by omega
  rcases this with rfl | rfl
  · simp
  · by_cases h : j = c
    · subst h; simp
    · by_cases h2 : j ≥ c
      · have hk : j - c ≠ 0 := by omega
        have : Nat.testBit 1 (j - c) = false := Nat.testBit_lt_two_pow (Nat.one_lt_two_pow hk)
        simp [h, h2, this]
      · simp [h, h2]

theorem ppSeqBits_testBit (a md l : Nat) : ∀ n j,
    (ppSeqBits a md l n).testBit j
      = (decide (j < n) && decide (ppIter a md (2 * l - 1 - j) a % 2 = 1)) := by
  intro n
  induction n with
  | zero => intro j; simp [ppSeqBits]
  | succ n ih =>
    intro j
    rw [ppSeqBits, Nat.testBit_or, ih, testBit_bit_shl _ _ _ (Nat.mod_lt _ (by decide))]
    by_cases h : j = n
    · subst h; simp
    · by_cases h2 : j < n
      · have : j < n + 1 := by omega
        simp [h, h2, this]
      · have : ¬ j < n + 1 := by omega
        simp [h, h2, this]

theorem ppMinPolySeq_testBit (a md : Nat) : ∀ c t s, (∀ j, j < c → s.testBit j = false) → ∀ j,
    (ppMinPolySeq a md c t s).testBit j
      = if j < c then decide (ppIter a md (c - j) t % 2 = 1) else s.testBit j := by
  intro c
  induction c with
  | zero => intro t s _ j; simp [ppMinPolySeq]
  | succ c ih =>
    intro t s hs j
    rw [ppMinPolySeq]
    have hb : pmod (clmul t a) md % 2 < 2 := Nat.mod_lt _ (by decide)
    have hs' : ∀ j, j < c → (s ||| (pmod (clmul t a) md % 2) <<< c).testBit j = false := by
      intro j hj
      rw [Nat.testBit_or, hs j (by omega), testBit_bit_shl _ _ _ hb]
      have : j ≠ c := by omega
      simp [this]
    rw [ih _ _ hs' j]
    by_cases h1 : j < c
    · rw [if_pos h1, if_pos (by omega), show c + 1 - j = (c - j) + 1 by omega, ppIter]
    · rw [if_neg h1]
      by_cases h2 : j = c
      · subst h2
        rw [if_pos (by omega), Nat.testBit_or, hs j (by omega), testBit_bit_shl _ _ _ hb,
          show j + 1 - j = 1 by omega, ppIter, ppIter]
        simp
      · rw [if_neg (by omega), Nat.testBit_or, testBit_bit_shl _ _ _ hb]
        simp [h2]

/-- the sequence computed by ppMinPolyMod's loop is `ppSeqBits … (2l)` (l ≥ 1) -/
theorem ppMinPolySeq_eq (a md l : Nat) (hl : 1 ≤ l) :
    ppMinPolySeq a md (2 * l - 1) a ((a % 2) <<< (2 * l - 1)) = ppSeqBits a md l (2 * l) := by
  apply Nat.eq_of_testBit_eq
  intro j
  have hb : a % 2 < 2 := Nat.mod_lt _ (by decide)
  rw [ppMinPolySeq_testBit a md (2 * l - 1) a _ (by
      intro j hj
      rw [testBit_bit_shl _ _ _ hb]
      have : j ≠ 2 * l - 1 := by omega
      simp [this]) j, ppSeqBits_testBit]
  by_cases h1 : j < 2 * l - 1
  · rw [if_pos h1]
    have : j < 2 * l := by omega
    simp [this]
  · rw [if_neg h1, testBit_bit_shl _ _ _ hb]
    by_cases h2 : j = 2 * l - 1
    · subst h2
      have : 2 * l - 1 < 2 * l := by omega
      simp [this, ppIter]
    · have : ¬ j < 2 * l := by omega
      simp [h2, this]

theorem ppSeqBits_lt (a md l n : Nat) : ppSeqBits a md l n < 2 ^ n := by
  apply Nat.lt_pow_two_of_testBit
  intro i hi
  rw [ppSeqBits_testBit]
  have : ¬ i < n := by omega
  simp [this]

/-- a^k in GF(2)[x] -/
def cpow (a : Nat) : Nat → Nat
  | 0 => 1
  | k + 1 => clmul (cpow a k) a

theorem pmod_clmul_left {md : Nat} (hmd : md ≠ 0) (x a : Nat) :
    pmod (clmul (pmod x md) a) md = pmod (clmul x a) md := by
  apply pmod_cong hmd
  refine ⟨clmul (pdivmod x md).1 a, ?_⟩
  rw [← xor_clmul, pmod_eq x md hmd, Nat.xor_assoc, Nat.xor_comm _ x, ← Nat.xor_assoc, Nat.xor_self,
    Nat.zero_xor, clmul_assoc, clmul_comm md a, ← clmul_assoc]

theorem ppIter_eq {md : Nat} (hmd : md ≠ 0) (a : Nat) : ∀ k t, 1 ≤ k →
    ppIter a md k t = pmod (clmul t (cpow a k)) md := by
  intro k
  induction k with
  | zero => intro t h; omega
  | succ k ih =>
    intro t _
    rw [ppIter]
    by_cases hk : k = 0
    · subst hk
      simp [ppIter, cpow, one_clmul]
    · rw [ih _ (by omega), pmod_clmul_left hmd, clmul_assoc, cpow, clmul_comm a (cpow a k)]

/-- for a reduced a the j-th iterate is a^{j+1} mod md -/
theorem ppIter_pow {md a : Nat} (hmd : md ≠ 0) (ha : a < 2 ^ md.log2) (j : Nat) :
    ppIter a md j a = pmod (cpow a (j + 1)) md := by
  by_cases hj : j = 0
  · subst hj
    simp [ppIter, cpow, one_clmul, pmod_of_lt hmd ha]
  · rw [ppIter_eq hmd a j a (by omega), cpow, clmul_comm]


end Bee2V.C05.PpModOps

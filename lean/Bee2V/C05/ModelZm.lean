/-
C05 — VALUE-LEVEL models of the qr_o operation tables installed by src/math/zm.c
(zmCreatePlain / zmCreateCrand / zmCreateBarr / zmCreateMont): from, to, add, sub, neg, mul,
sqr, inv, div, per ring kind `k : ZmKind` (ModelEtc), word size `W`, word count `n`, modulus `m`.

Internal representation: the residue a itself for plain / crand / barr, `a * R mod m`
(R = B^n) for mont.  Abstracted to their values (modelled and proved elsewhere):
  zzAddMod / zzSubMod / zzNegMod / zzDoubleMod   ~  the value-level formulas below (PropsAdd)
  zzMul + zzRed / zzRedCrand / zzRedBarr         ~  (a * b) % m   (zzMod_spec, zzRedCrand_*_spec,
                                                     zzRedBarr_*_spec: all three equal `%`)
  zzMul + zzRedMont                              ~  zmMulMontV (ModelEtc, code-shaped)
  zzDivMod / zzInvMod                            ~  zzDivModV (ModelGcd, code-shaped)
  zzAlmostInvMod                                 ~  zzAlmostInvModV (ModelGcd, code-shaped)
  wwFrom / wwTo (octets <-> words)               ~  identity on values
zmInvMont is literal: k <- zzAlmostInvMod; `for (; k < 2 * n * B_PER_W; ++k) zzDoubleMod`.

No Mathlib (may be imported by the native driver).
-/
import Bee2V.C05.ModelEtc
import Bee2V.C05.ModelGcd
namespace Bee2V.C05

/-- zzAddMod at value level (a, b < mod) -/
def zmAddModV (a b m : Nat) : Nat := if a + b ≥ m then a + b - m else a + b
/-- zzSubMod at value level (a, b < mod) -/
def zmSubModV (a b m : Nat) : Nat := if a ≥ b then a - b else a + m - b
/-- zzDoubleMod at value level (a < mod) -/
def zmDoubleModV (a m : Nat) : Nat := if 2 * a ≥ m then 2 * a - m else 2 * a

/-- mont_param = wordNegInv(mod[0]) as stored by zmCreateMont -/
def zmMontParam (W m : Nat) : Nat := wordNegInvV W (m % 2 ^ W)

/-- r->from: rejects a ∉ [0, mod) (zmIsIn); mont: a * R mod m -/
def zmFromV (k : ZmKind) (W n m a : Nat) : Option Nat :=
  if a < m then
    some (match k with
      | .mont => zmFromMontV W n m a
      | _ => a)
  else none

/-- r->to -/
def zmToV (k : ZmKind) (W n m x : Nat) : Nat :=
  match k with
  | .mont => zmToMontV W n m (zmMontParam W m) x
  | _ => x

/-- r->add, r->sub, r->neg: zmAdd2 / zmSub2 / zmNeg2 for every kind -/
def zmAddV (_k : ZmKind) (m x y : Nat) : Nat := zmAddModV x y m
def zmSubV (_k : ZmKind) (m x y : Nat) : Nat := zmSubModV x y m
def zmNegV (_k : ZmKind) (m x : Nat) : Nat := zzNegModV x m

/-- r->mul -/
def zmMulV (k : ZmKind) (W n m x y : Nat) : Nat :=
  match k with
  | .mont => zmMulMontV W n m (zmMontParam W m) x y
  | _ => (x * y) % m

/-- r->sqr -/
def zmSqrV (k : ZmKind) (W n m x : Nat) : Nat :=
  match k with
  | .mont => zmSqrMontV W n m (zmMontParam W m) x
  | _ => (x * x) % m

/-- `for (; k < 2 * n * B_PER_W; ++k) zzDoubleMod(b, b, mod, n)` — `c` = remaining turns -/
def zmDoubleN (m : Nat) : Nat → Nat → Nat
  | 0, b => b
  | c + 1, b => zmDoubleN m c (zmDoubleModV b m)

/-- zmInvMont -/
def zmInvMontV (W n m x : Nat) : Nat :=
  let r := zzAlmostInvModV x m
  zmDoubleN m (2 * n * W - r.2) r.1

/-- r->inv -/
def zmInvV (k : ZmKind) (W n m x : Nat) : Nat :=
  match k with
  | .mont => zmInvMontV W n m x
  | _ => zzDivModV 1 x m                     -- zzInvMod: divident = 1

/-- r->div -/
def zmDivV (k : ZmKind) (W n m d x : Nat) : Nat :=
  match k with
  | .mont => zmMulMontV W n m (zmMontParam W m) d (zmInvMontV W n m x)
  | _ => zzDivModV d x m

end Bee2V.C05

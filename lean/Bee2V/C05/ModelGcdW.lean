/-
C05 — WORD-LEVEL code-shaped models of the binary algorithms of src/math/zz/zz_gcd.c
(zzDivMod, zzGCD; the value-level models of the same loops are in ModelGcd.lean and the
refinement `val (word-level) = value-level` is proved in PropsGcdW.lean).

The stack variables u, v, da, da1 are word lists with their C lengths (n words); the
normalised lengths nu, nv are carried as the C does: every operation on `u` acts on the prefix
`u[0 .. nu)` (`wwShLo(u, nu, 1)`, `wwCmp2(u, nu, v, nv)`, `zzSub2(u, v, nv)` + `zzSubW2(u + nv, nu - nv, …)`)
and leaves the words above untouched (they are zero: theorem).  Every statement is the
corresponding model of ModelAdd / ModelBits (wwShLo, wwShLoCarry, zzAdd2, zzSub2, zzSubW2, wwCmp,
wwCmp2, wwIsZero, wwWordSize, wwIsW: the default = SAFE editions / regular bodies).
Loops are fuel-bounded with the SAME fuel as the value-level models (the fuel is computed from
the values, `val`, which keeps the two models in lockstep; sufficiency is proved in PropsGcd.lean).

No Mathlib (imported by the native driver).
-/
import Bee2V.C05.ModelAdd
import Bee2V.C05.ModelBits
import Bee2V.C05.ModelGcd
namespace Bee2V.C05

/-- apply `f` to the prefix `l[0 .. k)`, keep the rest -/
def onPrefixW (k : Nat) (f : List Nat → List Nat) (l : List Nat) : List Nat :=
  f (l.take k) ++ l.drop k

/-- `zzSubW2(x + ny, nx - ny, zzSub2(x, y, ny))` on the prefixes x[0 .. nx), y[0 .. ny):
    x <- x - y for nx ≥ ny (the final borrow is dropped, as in the C) -/
def subNormW (w : Nat) (x : List Nat) (nx : Nat) (y : List Nat) (ny : Nat) : List Nat :=
  let r := zzSub2 w (x.take ny) (y.take ny)
  let r2 := zzSubW2 w ((x.drop ny).take (nx - ny)) r.2
  r.1 ++ r2.1 ++ x.drop nx

/-- `if (zzAdd2(x, y, n) || wwCmp(x, mod, n) >= 0) zzSub2(x, mod, n);` -/
def addRedW (w : Nat) (x y mod : List Nat) : List Nat :=
  let r := zzAdd2 w x y
  if r.2 ≠ 0 ∨ wwCmp_safe r.1 mod ≥ 0 then (zzSub2 w r.1 mod).1 else r.1

/-! ## zzDivMod -/

/-- `for (; u[0] % 2 == 0; wwShLo(u, nu, 1)) if (da[0] % 2 == 0) wwShLo(da, n, 1);
    else wwShLoCarry(da, n, 1, zzAdd2(da, mod, n));` — returns (u, da) -/
def dmHalveW (w : Nat) (mod : List Nat) (nu : Nat) : Nat → List Nat → List Nat → List Nat × List Nat
  | 0, u, da => (u, da)
  | f + 1, u, da =>
    if u.getD 0 0 % 2 = 0 then
      let da' :=
        if da.getD 0 0 % 2 = 0 then wwShLo w da 1
        else
          let r := zzAdd2 w da mod
          (wwShLoCarry w r.1 1 r.2).1
      dmHalveW w mod nu f (onPrefixW nu (fun p => wwShLo w p 1) u) da'
    else (u, da)

/-- the `while (!wwIsZero(v, nv))` loop of zzDivMod; returns (u, nu, da) -/
def zzDivModLoopW (w : Nat) (mod : List Nat) :
    Nat → List Nat → Nat → List Nat → Nat → List Nat → List Nat → List Nat × Nat × List Nat
  | 0, u, nu, _, _, da, _ => (u, nu, da)
  | f + 1, u, nu, v, nv, da, da1 =>
    if wwIsZero_safe (v.take nv) then (u, nu, da) else
    -- the two halving loops (fuel: the value being halved, as in ModelGcd)
    let r := dmHalveW w mod nu (val w u) u da
    let r1 := dmHalveW w mod nv (val w v) v da1
    let u := r.1; let da := r.2
    let v := r1.1; let da1 := r1.2
    -- normalisation
    let nu := wwWordSize (u.take nu)
    let nv := wwWordSize (v.take nv)
    if wwCmp2_safe (u.take nu) (v.take nv) > 0 then
      zzDivModLoopW w mod f (subNormW w u nu v nv) nu v nv (addRedW w da da1 mod) da1
    else
      zzDivModLoopW w mod f u nu (subNormW w v nv u nu) nv da (addRedW w da1 da mod)

/-- zzDivMod(b, divident, a, mod, n) -/
def zzDivModW (w : Nat) (divident a mod : List Nat) : List Nat :=
  let n := mod.length
  if wwIsZero_safe a then List.replicate n 0 else
  let r := zzDivModLoopW w mod (val w a + val w mod + 1) a (wwWordSize a) mod n divident
    (List.replicate n 0)
  if !wwIsW_safe (r.1.take r.2.1) 1 then List.replicate n 0 else r.2.2

/-! ## zzGCD -/

/-- the `do … while (!wwIsZero(v, m))` loop of zzGCD on the buffers u (n0 words), v (m0 words) with
    the current lengths n, m; returns (u, n, m) -/
def zzGCDLoopW (w : Nat) : Nat → List Nat → Nat → List Nat → Nat → List Nat × Nat × Nat
  | 0, u, n, _, m => (u, n, m)
  | f + 1, u, n, v, m =>
    let u := onPrefixW n (fun p => wwShLo w p (wwLoZeroBits w p)) u
    let n := wwWordSize (u.take n)
    let v := onPrefixW m (fun p => wwShLo w p (wwLoZeroBits w p)) v
    let m := wwWordSize (v.take m)
    if wwCmp2_safe (u.take n) (v.take m) > 0 then
      let u := subNormW w u n v m
      if !wwIsZero_safe (v.take m) then zzGCDLoopW w f u n v m else (u, n, m)
    else
      let v := subNormW w v m u n
      if !wwIsZero_safe (v.take m) then zzGCDLoopW w f u n v m else (u, n, m)

/-- zzGCD(d, a, n, b, m): min(n, m) words -/
def zzGCDW (w : Nat) (a b : List Nat) : List Nat :=
  let k := min a.length b.length
  let s := min (wwLoZeroBits w a) (wwLoZeroBits w b)
  let u := wwShLo w a s
  let n := wwWordSize u
  let v := wwShLo w b s
  let m := wwWordSize v
  let r := zzGCDLoopW w (val w u + val w v) u n v m
  -- wwCopy(d, u, n); wwShHi(d, W_OF_B(wwBitSize(d, m) + s), s)
  let d := (r.1.take r.2.1 ++ List.replicate (k - r.2.1) 0).take k
  let win := (wwBitSize w (d.take r.2.2) + s + w - 1) / w
  onPrefixW win (fun p => wwShHi w p s) d

/-! ## zzAlmostInvMod (word-level model; its refinement proof is still open) -/

/-- `zzSubW2(x + ny, nx - ny, zzSub2(x, y, ny)); wwShLo(x, nx, 1)` -/
def subHalfW (w : Nat) (x : List Nat) (nx : Nat) (y : List Nat) (ny : Nat) : List Nat :=
  onPrefixW nx (fun p => wwShLo w p 1) (subNormW w x nx y ny)

/-- the `do … while (!wwIsZero(u, nu))` loop of zzAlmostInvMod; da0, da have n + 1 words;
    returns (v, nv, da, k) -/
def zzAlmostInvLoopW (w : Nat) :
    Nat → List Nat → Nat → List Nat → Nat → List Nat → List Nat → Nat → List Nat × Nat × List Nat × Nat
  | 0, _, _, v, nv, _, da, k => (v, nv, da, k)
  | f + 1, u, nu, v, nv, da0, da, k =>
    if zzIsEven (v.take nv) then
      let v := onPrefixW nv (fun p => wwShLo w p 1) v
      let nv := wwWordSize (v.take nv)
      let da0 := wwShHi w da0 1
      if !wwIsZero_safe (u.take nu) then zzAlmostInvLoopW w f u nu v nv da0 da (k + 1)
      else (v, nv, da, k + 1)
    else if zzIsEven (u.take nu) then
      let u := onPrefixW nu (fun p => wwShLo w p 1) u
      let nu := wwWordSize (u.take nu)
      let da := wwShHi w da 1
      if !wwIsZero_safe (u.take nu) then zzAlmostInvLoopW w f u nu v nv da0 da (k + 1)
      else (v, nv, da, k + 1)
    else if wwCmp2_safe (v.take nv) (u.take nu) > 0 then
      let v := subHalfW w v nv u nu
      let nv := wwWordSize (v.take nv)
      let da := (zzAdd2 w da da0).1
      let da0 := wwShHi w da0 1
      if !wwIsZero_safe (u.take nu) then zzAlmostInvLoopW w f u nu v nv da0 da (k + 1)
      else (v, nv, da, k + 1)
    else
      let u := subHalfW w u nu v nv
      let nu := wwWordSize (u.take nu)
      let da0 := (zzAdd2 w da0 da).1
      let da := wwShHi w da 1
      if !wwIsZero_safe (u.take nu) then zzAlmostInvLoopW w f u nu v nv da0 da (k + 1)
      else (v, nv, da, k + 1)

/-- zzAlmostInvMod(b, a, mod, n): (b, k) -/
def zzAlmostInvModW (w : Nat) (a mod : List Nat) : List Nat × Nat :=
  let n := mod.length
  let one := (1 :: List.replicate n 0)
  let r := zzAlmostInvLoopW w (val w a + val w mod) a (wwWordSize a) mod n one
    (List.replicate (n + 1) 0) 0
  let v := r.1; let nv := r.2.1; let da := r.2.2.1; let k := r.2.2.2
  if !wwIsW_safe (v.take nv) 1 then (List.replicate n 0, k)
  else
    -- if (wwCmp2(da, n + 1, mod, n) >= 0) da[n] -= zzSub2(da, mod, n);
    let lo := if wwCmp2_safe da mod ≥ 0 then (zzSub2 w (da.take n) mod).1 else da.take n
    (zzNegMod_safe w lo mod, k)

/-! ## zzExGCD -/

/-- `if (zzAdd2(x, y, n) || wwCmp(x, lim, n) > 0) zzSub2(x, lim, n);` -/
def addCorrW (w : Nat) (x y lim : List Nat) : List Nat :=
  let r := zzAdd2 w x y
  if r.2 ≠ 0 ∨ wwCmp_safe r.1 lim > 0 then (zzSub2 w r.1 lim).1 else r.1

/-- `for (; u[0] % 2 == 0; wwShLo(u, nu, 1))` with the coefficient update:
    both even: `wwShLo(da, m, 1); wwShLo(db, n, 1)`, otherwise
    `wwShLoCarry(da, m, 1, zzAdd2(da, bb, m)); wwShLoCarry(db, n, 1, zzAdd2(db, aa, n))`;
    returns (u, da, db) -/
def exHalveW (w : Nat) (aa bb : List Nat) (nu : Nat) :
    Nat → List Nat → List Nat → List Nat → List Nat × List Nat × List Nat
  | 0, u, da, db => (u, da, db)
  | f + 1, u, da, db =>
    if u.getD 0 0 % 2 = 0 then
      if da.getD 0 0 % 2 = 0 ∧ db.getD 0 0 % 2 = 0 then
        exHalveW w aa bb nu f (onPrefixW nu (fun p => wwShLo w p 1) u) (wwShLo w da 1) (wwShLo w db 1)
      else
        let ra := zzAdd2 w da bb
        let rb := zzAdd2 w db aa
        exHalveW w aa bb nu f (onPrefixW nu (fun p => wwShLo w p 1) u)
          (wwShLoCarry w ra.1 1 ra.2).1 (wwShLoCarry w rb.1 1 rb.2).1
    else (u, da, db)

/-- the `do … while (!wwIsZero(v, mv))` loop of zzExGCD; aa has n words, bb m words (normalised),
    u, db, db1 have n words, v, da, da1 have m words; returns (u, nu, da, db) -/
def zzExGCDLoopW (w : Nat) (aa bb : List Nat) :
    Nat → List Nat → Nat → List Nat → Nat → List Nat → List Nat → List Nat → List Nat →
      List Nat × Nat × List Nat × List Nat
  | 0, u, nu, _, _, da, db, _, _ => (u, nu, da, db)
  | f + 1, u, nu, v, mv, da, db, da1, db1 =>
    let r := exHalveW w aa bb nu (val w u) u da db
    let r1 := exHalveW w aa bb mv (val w v) v da1 db1
    let u := r.1; let da := r.2.1; let db := r.2.2
    let v := r1.1; let da1 := r1.2.1; let db1 := r1.2.2
    let nu := wwWordSize (u.take nu)
    let mv := wwWordSize (v.take mv)
    if wwCmp2_safe (u.take nu) (v.take mv) > 0 then
      let u' := subNormW w u nu v mv
      let da' := addCorrW w da da1 bb
      let db' := addCorrW w db db1 aa
      if !wwIsZero_safe (v.take mv) then zzExGCDLoopW w aa bb f u' nu v mv da' db' da1 db1
      else (u', nu, da', db')
    else
      let v' := subNormW w v mv u nu
      let da1' := addCorrW w da1 da bb
      let db1' := addCorrW w db1 db aa
      if !wwIsZero_safe (v'.take mv) then zzExGCDLoopW w aa bb f u nu v' mv da db da1' db1'
      else (u, nu, da, db)

/-- zzExGCD(d, da, db, a, n, b, m): (d: min(n, m) words, da: m words, db: n words) -/
def zzExGCDW (w : Nat) (a b : List Nat) : List Nat × List Nat × List Nat :=
  let n0 := a.length
  let m0 := b.length
  let k := min n0 m0
  let s := min (wwLoZeroBits w a) (wwLoZeroBits w b)
  -- aa <- a >> s, n <- wwWordSize(aa); bb <- b >> s, m <- wwWordSize(bb)
  let aa0 := wwShLo w a s
  let n := wwWordSize aa0
  let aa := aa0.take n
  let bb0 := wwShLo w b s
  let m := wwWordSize bb0
  let bb := bb0.take m
  -- da <- 1, db <- 0, da1 <- 0, db1 <- 1 (set on the full buffers; the loop uses m resp. n words)
  let da := (1 :: List.replicate (m0 - 1) 0).take m
  let db := List.replicate n 0
  let da1 := List.replicate m 0
  let db1 := (1 :: List.replicate (n0 - 1) 0).take n
  let r := zzExGCDLoopW w aa bb (val w aa + val w bb) aa n bb m da db da1 db1
  -- wwCopy(d, u, nu); wwShHi(d, W_OF_B(wwBitSize(d, nu) + s), s)
  let d := (r.1.take r.2.1 ++ List.replicate (k - r.2.1) 0).take k
  let win := (wwBitSize w (d.take r.2.1) + s + w - 1) / w
  (onPrefixW win (fun p => wwShHi w p s) d,
   r.2.2.1 ++ List.replicate (m0 - m) 0,
   r.2.2.2 ++ List.replicate (n0 - n) 0)

/-! ## zzInvMod -/

/-- zzInvMod(b, a, mod, n): `wwSetW(divident, n, 1); zzDivMod(b, divident, a, mod, n)` -/
def zzInvModW (w : Nat) (a mod : List Nat) : List Nat :=
  zzDivModW w (wwSetW mod 1) a mod

end Bee2V.C05

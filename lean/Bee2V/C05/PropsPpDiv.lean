/-
C05 — ppDiv / ppMod (pp_mul.c), word-level model ModelPpDiv.lean.

PROVED at full strength for w ∈ {16, 32, 64}: `ppDiv_spec`, `ppMod_spec` (end of this file).
The `_partial` theorems below are the earlier intermediate results (kept: audited names).
Original statement of the goal, now closed:
  theorem_ppDiv_spec (w a b) (hw : 4 ∣ w) (ha : Wf w a) (hb : Wf w b) (hnm : b.length ≤ a.length)
      (hm : 0 < b.length) (htop : b.getD (b.length − 1) 0 ≠ 0) :
      val w a = clmul (val w (ppDiv w a b).1) (val w b) ^^^ val w (ppDiv w a b).2
      ∧ (val w (ppDiv w a b).2 = 0 ∨ (val w (ppDiv w a b).2).log2 < (val w b).log2)
      ∧ (ppDiv w a b).1.length = a.length − b.length + 1 ∧ (ppDiv w a b).2.length = b.length
      (hence (val q, val r) = Spec.pdivmod (val a) (val b) by pp_pdivmod_unique), and
  theorem_ppMod_spec : val w (ppMod w a b) = Spec.pmod (val w a) (val w b), length = b.length.
Open piece: the main branch `ppDivCore` — (i) `divDivS4` with the tables `divPreS4` / `mulPreS4`
returns the one-word quotient of (hi, ·) by (1, top) (the multiplication table is proved:
`ppDiv_mulTable_partial`; the quotient table and the nibble-step invariant are open), (ii) the digit-loop invariant
"val divident ≡ val a·x^sh − Σ q_k·x^(w k)·(x^(w m) + divisor)" with divident[i] = 0 after step i,
(iii) the normalisation / denormalisation by x^sh — its specification-level half is proved
(`pp_pdivmod_shift`); the link to the word arrays (toWords ∘ val) is open.  Model-level evidence: #eval against
Spec.pdivmod for w = 8, 16, 64, divisor top words {1, 2, 3, 5, 2^(w−1), 2^(w−1)+1, 2^(w−2), 2^w−1},
n = m … n ≫ m, all-ones / zero / sparse dividends — no mismatch; and the driver comparison with
the library.
-/
import Bee2V.C05.LemmasPpDiv
namespace Bee2V.C05
open Bee2V.C05.Spec Bee2V.C05.Pp Bee2V.C05.PpDiv

/-- the `deg a < deg b` shortcut of ppDiv: q = 0 (n − m + 1 words), r = the low m words of a = a -/
theorem ppDiv_small_partial (w : Nat) (a b : List Nat) (ha : Wf w a) (hb : Wf w b)
    (hle : b.length ≤ a.length) (hlt : ppBitSize (val w a) < ppBitSize (val w b)) :
    val w a = clmul (val w (ppDiv w a b).1) (val w b) ^^^ val w (ppDiv w a b).2
    ∧ (val w (ppDiv w a b).2 = 0 ∨ (val w (ppDiv w a b).2).log2 < (val w b).log2)
    ∧ (ppDiv w a b).1.length = a.length - b.length + 1 ∧ (ppDiv w a b).2.length = b.length := by
  obtain ⟨h1, h2⟩ := ppDiv_small a b ha hb hle hlt
  obtain ⟨hy, hx⟩ := lt_of_bitSize_lt hlt
  rw [h1]
  simp only [val_replicate_zero, zero_clmul, Nat.zero_xor, h2, List.length_replicate, List.length_take,
    true_and]
  refine ⟨?_, Nat.min_eq_left hle⟩
  by_cases h0 : val w a = 0
  · exact Or.inl h0
  · exact Or.inr ((Nat.log2_lt h0).2 hx)

example : ppDiv 8 [5, 0] [3, 1] = ([0], [5, 0]) := by decide

/-- the `b == 1` shortcut added to ppDiv: q = a, r = 0 -/
theorem ppDiv_one_partial (w : Nat) (a : List Nat)
    (hge : ¬ ppBitSize (val w a) < ppBitSize (val w [1])) :
    ppDiv w a [1] = (a, [0])
    ∧ val w a = clmul (val w (ppDiv w a [1]).1) (val w [1]) ^^^ val w (ppDiv w a [1]).2 := by
  have h1 : ppDiv w a [1] = (a, [0]) := by
    unfold ppDiv
    simp only [if_neg hge]
    simp
  refine ⟨h1, ?_⟩
  rw [h1]
  simp [val, clmul_one]

example : ppDiv 8 [7, 9] [1] = ([7, 9], [0]) := by decide
example : ppDiv 8 [255, 255, 255] [3, 1] = (Spec.pdivmod (val 8 [255, 255, 255]) (val 8 [3, 1])
    |> fun p => (toWords 8 2 p.1, toWords 8 2 p.2)) := by decide

/-- normalisation / denormalisation of ppDiv, at the level of the specification: multiplying the
    dividend and the divisor by x^s leaves the quotient unchanged and multiplies the remainder by
    x^s (step (iii) of the open main-branch proof). -/
theorem pp_pdivmod_shift (a b s : Nat) (hb : b ≠ 0) :
    pdivmod (a <<< s) (b <<< s) = ((pdivmod a b).1, (pdivmod a b).2 <<< s)
    ∧ pmod (a <<< s) (b <<< s) / 2 ^ s = pmod a b :=
  ⟨pdivmod_shift a b s hb, pmod_shift a b s hb⟩

example : pdivmod (0b111011 <<< 5) (0b110 <<< 5) = (0b1011, 1 <<< 5) := by decide

/-- the `deg a < deg b` shortcut of ppDiv agrees with the specification -/
theorem ppDiv_small_eq_spec_partial (w : Nat) (a b : List Nat) (ha : Wf w a) (hb : Wf w b)
    (hle : b.length ≤ a.length) (hlt : ppBitSize (val w a) < ppBitSize (val w b)) :
    pdivmod (val w a) (val w b) = (val w (ppDiv w a b).1, val w (ppDiv w a b).2) := by
  obtain ⟨h1, h2, _, _⟩ := ppDiv_small_partial w a b ha hb hle hlt
  have hy := (lt_of_bitSize_lt hlt).1
  obtain ⟨s1, s2⟩ := pdivmod_spec (val w a) (val w b) hy
  have hr : val w (ppDiv w a b).2 < 2 ^ (val w b).log2 := by
    rcases h2 with h0 | h0
    · rw [h0]; exact Nat.two_pow_pos _
    · by_cases hz : val w (ppDiv w a b).2 = 0
      · rw [hz]; exact Nat.two_pow_pos _
      · exact (Nat.log2_lt hz).1 h0
  obtain ⟨e1, e2⟩ := divmod_unique hy s2 hr (s1.trans h1)
  exact Prod.ext e1 e2

/-- the `deg a < deg b` shortcut of ppMod (n < m allowed: r is a padded with zero words) -/
theorem ppMod_small_partial (w : Nat) (a b : List Nat) (ha : Wf w a) (hb : Wf w b)
    (hlt : ppBitSize (val w a) < ppBitSize (val w b)) :
    val w (ppMod w a b) = pmod (val w a) (val w b) ∧ (ppMod w a b).length = b.length := by
  obtain ⟨h1, h2⟩ := ppMod_small a b ha hb hlt
  obtain ⟨hy, hx⟩ := lt_of_bitSize_lt hlt
  exact ⟨by rw [h1, pmod_of_lt hy hx], h2⟩

example : ppMod 8 [5] [1, 2, 3] = [5, 0, 0] := by decide

/-- the `b == 1` shortcut of ppMod: r = 0 = a mod 1 -/
theorem ppMod_one_partial (w : Nat) (a : List Nat)
    (hge : ¬ ppBitSize (val w a) < ppBitSize (val w [1])) :
    ppMod w a [1] = [0] ∧ val w (ppMod w a [1]) = pmod (val w a) (val w [1]) := by
  have h1 : ppMod w a [1] = [0] := by
    unfold ppMod
    simp only [if_neg hge]
    simp
  refine ⟨h1, ?_⟩
  rw [h1]
  simp [val, pmod_one]

/-- the table `_MUL_PRE_S4(w2, top)` of ppDiv / ppMod: entry j is `j·top` truncated to a word
    (half of step (i) of the open main-branch proof; the quotient table `_DIV_PRE_S4` is open). -/
theorem ppDiv_mulTable_partial (w a : Nat) (ha : a < 2 ^ w) :
    mulPreS4 w a = (List.range 16).map (fun j => clmul j a % 2 ^ w) := by
  rw [mulPreS4_eq ha]
  rfl

example : mulPreS4 8 0b10000011 = (List.range 16).map (fun j => clmul j 0b10000011 % 2 ^ 8) := by
  decide

/-! ## full correctness of ppDiv / ppMod (all branches) -/

/-- ppDiv(q, r, a, n, b, m) for B_PER_W ∈ {16, 32, 64}, n ≥ m > 0, b[m − 1] ≠ 0, any contents:
    `(q, r) = Spec.pdivmod a b` (so a = q·b + r, deg r < deg b), q has n − m + 1 words, r has m. -/
theorem ppDiv_spec (w : Nat) (hw : w = 16 ∨ w = 32 ∨ w = 64) (a b : List Nat) (ha : Wf w a) (hb : Wf w b)
    (hnm : b.length ≤ a.length) (hm : 0 < b.length) (htop : b.getD (b.length - 1) 0 ≠ 0) :
    pdivmod (val w a) (val w b) = (val w (ppDiv w a b).1, val w (ppDiv w a b).2)
    ∧ (ppDiv w a b).1.length = a.length - b.length + 1 ∧ (ppDiv w a b).2.length = b.length
    ∧ Wf w (ppDiv w a b).1 ∧ Wf w (ppDiv w a b).2 :=
  ppDiv_ok hw a b ha hb hnm hm htop

example := ppDiv_spec 16 (Or.inl rfl) [65535, 65535, 65535] [3, 1] (by decide) (by decide) (by decide)
  (by decide) (by decide)
/-- ppMod(r, a, n, b, m) for B_PER_W ∈ {16, 32, 64}, m > 0, b[m − 1] ≠ 0, n arbitrary (n < m
    allowed): `r = a mod b`, m words. -/
theorem ppMod_spec (w : Nat) (hw : w = 16 ∨ w = 32 ∨ w = 64) (a b : List Nat) (ha : Wf w a) (hb : Wf w b)
    (hm : 0 < b.length) (htop : b.getD (b.length - 1) 0 ≠ 0) :
    val w (ppMod w a b) = pmod (val w a) (val w b)
    ∧ (ppMod w a b).length = b.length ∧ Wf w (ppMod w a b) :=
  ppMod_ok hw a b ha hb hm htop

example := ppMod_spec 16 (Or.inl rfl) [5] [1, 2, 3] (by decide) (by decide) (by decide) (by decide)

end Bee2V.C05

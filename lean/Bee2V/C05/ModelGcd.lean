/-
C05 — VALUE-LEVEL code-shaped models of the binary algorithms of src/math/zz/zz_gcd.c:
  zzGCD, zzExGCD, zzDivMod, zzAlmostInvMod.

Numbers are `Nat`s here, not word lists: these functions are `while` loops over multi-word
values whose word-level steps — wwShLo / wwShLoCarry / wwShHi (shifts), zzAdd2 / zzSub2 /
zzSubW2 (+ carry), wwCmp / wwCmp2 / wwIsZero, zzNegMod, wwWordSize (normalisation of the
working lengths nu, nv) — are modelled and proved exact elsewhere (ModelAdd / ModelBits and
their Props).  Each word-level step is replaced by the value it computes:
  `wwShLo(u, n, 1)`                              ~  u / 2
  `wwShLoCarry(da, n, 1, zzAdd2(da, mod, n))`    ~  (da + mod) / 2        ((n+1)-word sum shifted)
  `zzSubW2(u + nv, nu - nv, zzSub2(u, v, nv))`   ~  u - v                 (taken only when u > v)
  `if (zzAdd2(da, da1, n) || wwCmp(da, mod, n) >= 0) zzSub2(da, mod, n)`
                                                 ~  s := da + da1; if s ≥ mod then s - mod else s
  (zzExGCD: `… || wwCmp(da, bb, m) > 0`          ~  if s > bb then s - bb else s)
The loops carry exactly the C variables (u, v, da, da1, db, db1, da0, k).

Recursion is structural on a fuel argument so that the definitions evaluate in the kernel
(`decide`) and compile for the native driver; the fuel given by the top-level functions
(u + v, plus 1 where the loop tests before the body) is proved sufficient in PropsGcd.lean
— every theorem there is about the top-level function, so an exhausted fuel would falsify it.

No Mathlib (imported by the native driver).
-/
import Bee2V.C05.ModelAdd
namespace Bee2V.C05

/-- wwLoZeroBits of a non-zero number (fuel `f ≥ log2 n + 1`) -/
def loZerosF : Nat → Nat → Nat
  | 0, _ => 0
  | f + 1, n => if n % 2 = 0 then 1 + loZerosF f (n / 2) else 0
def loZeros (n : Nat) : Nat := loZerosF n n

/-! ## zzGCD -/

/-- the `do … while (!wwIsZero(v, m))` loop of zzGCD; returns `u` -/
def zzGCDLoop : Nat → Nat → Nat → Nat
  | 0, u, _ => u
  | f + 1, u, v =>
    let u1 := u / 2 ^ loZeros u        -- wwShLo(u, n, wwLoZeroBits(u, n))
    let v1 := v / 2 ^ loZeros v
    if u1 > v1 then
      -- u <- u - v; the loop condition tests the unchanged v
      if v1 ≠ 0 then zzGCDLoop f (u1 - v1) v1 else u1 - v1
    else
      if v1 - u1 ≠ 0 then zzGCDLoop f u1 (v1 - u1) else u1

/-- zzGCD(d, a, n, b, m) for a, b ≠ 0 -/
def zzGCDV (a b : Nat) : Nat :=
  let s := min (loZeros a) (loZeros b)
  let u := a / 2 ^ s
  let v := b / 2 ^ s
  zzGCDLoop (u + v) u v * 2 ^ s        -- wwShHi(d, …, s)

/-! ## zzExGCD -/

/-- `for (; u[0] % 2 == 0; wwShLo(u, nu, 1)) if (da, db even) da/=2, db/=2 else
    da = (da + bb)/2, db = (db + aa)/2`; returns (u, da, db) -/
def halveEx (aa bb : Nat) : Nat → Nat → Nat → Nat → Nat × Nat × Nat
  | 0, u, da, db => (u, da, db)
  | f + 1, u, da, db =>
    if u % 2 = 0 then
      if da % 2 = 0 ∧ db % 2 = 0 then halveEx aa bb f (u / 2) (da / 2) (db / 2)
      else halveEx aa bb f (u / 2) ((da + bb) / 2) ((db + aa) / 2)
    else (u, da, db)

/-- `x += y; if (carry || x > lim) x -= lim` -/
def addCorr (x y lim : Nat) : Nat := if x + y > lim then x + y - lim else x + y

/-- the `do … while (!wwIsZero(v, mv))` loop of zzExGCD; returns (u, da, db) -/
def zzExGCDLoop (aa bb : Nat) : Nat → Nat → Nat → Nat → Nat → Nat → Nat → Nat × Nat × Nat
  | 0, u, _, da, db, _, _ => (u, da, db)
  | f + 1, u, v, da, db, da1, db1 =>
    let r := halveEx aa bb u u da db
    let r1 := halveEx aa bb v v da1 db1
    let u := r.1; let da := r.2.1; let db := r.2.2
    let v := r1.1; let da1 := r1.2.1; let db1 := r1.2.2
    if u > v then
      let da' := addCorr da da1 bb
      let db' := addCorr db db1 aa
      if v ≠ 0 then zzExGCDLoop aa bb f (u - v) v da' db' da1 db1 else (u - v, da', db')
    else
      let da1' := addCorr da1 da bb
      let db1' := addCorr db1 db aa
      if v - u ≠ 0 then zzExGCDLoop aa bb f u (v - u) da db da1' db1' else (u, da, db)

/-- zzExGCD(d, da, db, a, n, b, m) for a, b ≠ 0: (d, da, db) -/
def zzExGCDV (a b : Nat) : Nat × Nat × Nat :=
  let s := min (loZeros a) (loZeros b)
  let aa := a / 2 ^ s
  let bb := b / 2 ^ s
  let r := zzExGCDLoop aa bb (aa + bb) aa bb 1 0 0 1
  (r.1 * 2 ^ s, r.2.1, r.2.2)

/-! ## zzDivMod -/

/-- `for (; u[0] % 2 == 0; wwShLo(u, nu, 1)) if (da even) da /= 2 else da = (da + mod) / 2`;
    returns (u, da) -/
def halveMod (mod : Nat) : Nat → Nat → Nat → Nat × Nat
  | 0, u, da => (u, da)
  | f + 1, u, da =>
    if u % 2 = 0 then halveMod mod f (u / 2) (if da % 2 = 0 then da / 2 else (da + mod) / 2)
    else (u, da)

/-- `x += y; if (carry || x >= mod) x -= mod` -/
def addRed (x y mod : Nat) : Nat := if x + y ≥ mod then x + y - mod else x + y

/-- the `while (!wwIsZero(v, nv))` loop of zzDivMod; returns (u, da) -/
def zzDivModLoop (mod : Nat) : Nat → Nat → Nat → Nat → Nat → Nat × Nat
  | 0, u, _, da, _ => (u, da)
  | f + 1, u, v, da, da1 =>
    if v = 0 then (u, da) else
    let r := halveMod mod u u da
    let r1 := halveMod mod v v da1
    let u := r.1; let da := r.2
    let v := r1.1; let da1 := r1.2
    if u > v then zzDivModLoop mod f (u - v) v (addRed da da1 mod) da1
    else zzDivModLoop mod f u (v - u) da (addRed da1 da mod)

/-- zzDivMod(b, divident, a, mod, n): b = divident / a mod mod, 0 when a = 0 or gcd(a, mod) ≠ 1 -/
def zzDivModV (divident a mod : Nat) : Nat :=
  if a = 0 then 0 else
  let r := zzDivModLoop mod (a + mod + 1) a mod divident 0
  if r.1 ≠ 1 then 0 else r.2

/-! ## zzAlmostInvMod -/

/-- the `do … while (!wwIsZero(u, nu))` loop of zzAlmostInvMod (Kaliski); returns (v, da, k) -/
def zzAlmostInvLoop : Nat → Nat → Nat → Nat → Nat → Nat → Nat × Nat × Nat
  | 0, _, v, _, da, k => (v, da, k)
  | f + 1, u, v, da0, da, k =>
    if v % 2 = 0 then
      -- v <- v / 2, da0 <- da0 * 2
      if u ≠ 0 then zzAlmostInvLoop f u (v / 2) (da0 * 2) da (k + 1) else (v / 2, da, k + 1)
    else if u % 2 = 0 then
      -- u <- u / 2, da <- da * 2
      if u / 2 ≠ 0 then zzAlmostInvLoop f (u / 2) v da0 (da * 2) (k + 1) else (v, da * 2, k + 1)
    else if v > u then
      -- v <- (v - u) / 2, da <- da + da0, da0 <- da0 * 2
      if u ≠ 0 then zzAlmostInvLoop f u ((v - u) / 2) (da0 * 2) (da + da0) (k + 1)
      else ((v - u) / 2, da + da0, k + 1)
    else
      -- u <- (u - v) / 2, da0 <- da0 + da, da <- da * 2
      if (u - v) / 2 ≠ 0 then zzAlmostInvLoop f ((u - v) / 2) v (da0 + da) (da * 2) (k + 1)
      else (v, da * 2, k + 1)

/-- zzNegMod at value level (a < mod) -/
def zzNegModV (a mod : Nat) : Nat := if a = 0 then 0 else mod - a

/-- zzAlmostInvMod(b, a, mod, n): (b, k); b = 0 when gcd(a, mod) ≠ 1 -/
def zzAlmostInvModV (a mod : Nat) : Nat × Nat :=
  let r := zzAlmostInvLoop (a + mod) a mod 1 0 0
  let v := r.1; let da := r.2.1; let k := r.2.2
  if v ≠ 1 then (0, k)
  else
    let da := if da ≥ mod then da - mod else da
    (zzNegModV da mod, k)

end Bee2V.C05

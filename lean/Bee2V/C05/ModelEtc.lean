/-
C05 — VALUE-LEVEL code-shaped models of
  zzSqrt, zzJacobi            (src/math/zz/zz_etc.c)
  zzPowerModW                 (src/math/zz/zz_pow.c)
  qrCalcSlideWidth, qrPower   (src/math/qr.c)
  zmCreate (strategy choice), zzRedMont / zmFromMont / zmToMont / zmMulMont  (src/math/zm.c,
                              src/math/zz/zz_red.c)

Numbers are `Nat`s, machine words are `Nat`s below `2^w` and every C expression whose word /
dword result could wrap carries its explicit `% 2^w` / `% 2^(2w)`.  Loops are structural
recursions on a fuel argument carrying exactly the C variables; the fuel given by the top-level
functions is proved sufficient in PropsEtc.lean (all theorems are about the top-level functions).

Word-level steps abstracted to the value they compute (modelled and proved exact elsewhere:
ModelAdd / ModelBits / ModelMul / ModelDiv and their Props):
  zzDiv(q, r, a, n, b, m)      ~  q = a / b, r = a % b            (q has n - m + 1 words)
  zzMod(r, a, n, b, m)         ~  r = a % b
  wwWordSize(a, n)             ~  wordSizeV w a = least k with a < B^k
  wwBitSize(a, n)              ~  bitSizeV a   = least k with a < 2^k
  wwSetBit / zzSubW2           ~  2^k - 1
  wwCmp(b, t, m)               ~  comparison of b with the low m words of t (t % B^m)
  zzAdd2 + wwShLo(t, m+1, 1)   ~  (b + t) / 2                      ((m+1)-word sum shifted)
  wwLoZeroBits / wwShLo        ~  loZeros u, u / 2^s
  wwGetBits(b, pos, k)         ~  b / 2^pos % 2^k ;  wwTestBit(b, pos) ~ b / 2^pos % 2
  qrMul / qrSqr / r->unity     ~  parameters `mul`, `sqr`, `unity` of the abstract ring
  zzAddMulW + zzAddW2 (zzRedMont inner step)  ~  a + w * mod * B^i
  wordNegInv(mod[0])           ~  parameter `mp` with (mod[0] * mp + 1) % B = 0 (the C ASSERT);
                                  `wordNegInvV` models u16/u32/u64NegInv

No Mathlib (imported by the native driver).
-/
import Bee2V.C05.Basic
import Bee2V.C05.ModelAdd
namespace Bee2V.C05

/-! ## common value-level helpers -/

/-- wwBitSize at value level: number of significant bits -/
def bitSizeV (a : Nat) : Nat := if a = 0 then 0 else Nat.log2 a + 1

/-- wwWordSize at value level: number of significant `w`-bit words -/
def wordSizeV (w a : Nat) : Nat := (bitSizeV a + w - 1) / w

/-- wwLoZeroBits of a non-zero number (fuel `f ≥ log2 n + 1`); same recursion as in ModelGcd -/
def loZerosEF : Nat → Nat → Nat
  | 0, _ => 0
  | f + 1, n => if n % 2 = 0 then 1 + loZerosEF f (n / 2) else 0
def loZerosE (n : Nat) : Nat := loZerosEF n n

/-! ## zzSqrt -/

/-- the `while (1)` loop of zzSqrt.  Variables: `t` (the (m+1)-word buffer, as a value),
    `m` (current word count of b).  `n` = wwWordSize(a).  Returns (b, answer). -/
def zzSqrtLoop (w a n : Nat) : Nat → Nat → Nat → Nat × Bool
  | 0, t, _ => (t, false)
  | f + 1, t, m =>
    -- b <- t (low m words); m <- wwWordSize(b, m)
    let b := t % 2 ^ (w * m)
    let m := wordSizeV w b
    -- t <- a / b   (n - m + 1 words)
    let t := a / b
    let r := a % b
    -- частное включает ненулевое слово t[m] => t > b
    if n - m = m ∧ t / 2 ^ (w * m) % 2 ^ w > 0 then (b, false)
    else
      let tl := t % 2 ^ (w * m)               -- [m]t
      if b = tl then (b, r = 0)               -- cmp == 0: return wwIsZero(r, m)
      else if b < tl then (b, false)          -- cmp < 0: break; return FALSE
      else
        -- t[m] = zzAdd2(t, b, m); wwShLo(t, m + 1, 1)
        zzSqrtLoop w a n f ((tl + b) / 2) m

/-- zzSqrt(b, a, n, stack) for `a < B^n`: (b, return value).  `n` is the declared length of a
    (it fixes the initial m = (n + 1) / 2, the length of b). -/
def zzSqrtV (w n a : Nat) : Nat × Bool :=
  let m := (n + 1) / 2
  let n := wordSizeV w a
  if n = 0 then (0, true)
  else
    -- t <- 2^{(len(a) + 1) / 2} - 1  in m + 1 words
    let t := (2 ^ ((bitSizeV a + 1) / 2) % 2 ^ (w * (m + 1)) + 2 ^ (w * (m + 1)) - 1) % 2 ^ (w * (m + 1))
    zzSqrtLoop w a n (t + 1) t m

/-! ## zzJacobi -/

/-- the `while (wwCmpW(v, m, 1) > 0)` loop of zzJacobi; carries u, v, t -/
def zzJacobiLoop : Nat → Nat → Nat → Int → Int
  | 0, _, _, t => t
  | f + 1, u, v, t =>
    if v > 1 then
      if u = 0 then 0                         -- t = 0; break
      else if u = 1 then t                    -- break
      else
        let s := loZerosE u
        -- s odd, v ≡ 3, 5 (mod 8) => t <- -t
        let t := if s % 2 = 1 ∧ (v % 8 = 3 ∨ v % 8 = 5) then -t else t
        let u := u / 2 ^ s
        -- u, v ≡ 3 (mod 4) => t <- -t
        let t := if u % 4 = 3 ∧ v % 4 = 3 then -t else t
        -- v <- v mod u; v <-> u
        zzJacobiLoop f (v % u) u t
    else t

/-- zzJacobi(a, n, b, m, stack), b odd -/
def zzJacobiV (a b : Nat) : Int := zzJacobiLoop (b + 1) (a % b) b 1

/-! ## sliding windows (shared by zzPowerModW and qrPower) -/

/-- `for (; slide % 2 == 0; slide >>= 1, slide_size--);`  returns (slide, slide_size) -/
def slideStrip : Nat → Nat → Nat → Nat × Nat
  | 0, slide, ss => (slide, ss)
  | f + 1, slide, ss => if slide % 2 = 0 then slideStrip f (slide / 2) (ss - 1) else (slide, ss)

/-! ## zzPowerModW -/

/-- `while (slide_size--) prod *= a, prod %= mod, a = (word)prod;`  (prod == a on entry and after
    every turn); returns a -/
def powSqrN (w mod : Nat) : Nat → Nat → Nat
  | 0, a => a
  | k + 1, a => powSqrN w mod k ((a * a % 2 ^ (2 * w)) % mod % 2 ^ w)

/-- the `while (pos != SIZE_MAX)` loop of zzPowerModW; `p = pos + 1` (so `pos == SIZE_MAX` is
    `p = 0`), `pw i = powers[i]` -/
def zzPowerModWLoop (w b mod : Nat) (pw : Nat → Nat) : Nat → Nat → Nat → Nat
  | 0, _, a => a
  | f + 1, p, a =>
    if p = 0 then a else
    let pos := p - 1
    if b / 2 ^ pos % 2 = 0 then
      -- prod = a; prod *= a, a = prod % mod; --pos
      zzPowerModWLoop w b mod pw f (p - 1) ((a * a % 2 ^ (2 * w)) % mod % 2 ^ w)
    else
      let ss := min (pos + 1) 3
      let slide := (b / 2 ^ (pos + 1 - ss)) % 2 ^ w % 2 ^ ss   -- (b >> ..) & (WORD_BIT_POS(ss) - 1)
      let r := slideStrip ss slide ss
      let slide := r.1
      let ss := r.2
      let p := p - ss                                           -- pos -= slide_size
      let a := powSqrN w mod ss a
      -- prod *= powers[slide / 2]; prod %= mod; a = (word)prod
      zzPowerModWLoop w b mod pw f p ((a * pw (slide / 2) % 2 ^ (2 * w)) % mod % 2 ^ w)

/-- the array `word powers[4]` as a lookup function (indices are proved < 4) -/
def powTbl4 (p0 p1 p2 p3 : Nat) : Nat → Nat
  | 0 => p0 | 1 => p1 | 2 => p2 | _ => p3

/-- zzPowerModW(a, b, mod, stack) for words a, b, mod (< 2^w), mod != 0 -/
def zzPowerModW (w a b mod : Nat) : Nat :=
  if b = 0 then 1 % mod else
  let a := a % mod
  -- powers <- small odd powers of a
  let prod := a
  let prod := (prod * a % 2 ^ (2 * w)) % mod
  let p0 := prod % 2 ^ w
  let prod := (prod * a % 2 ^ (2 * w)) % mod
  let p1 := prod % 2 ^ w
  let prod := (prod * p0 % 2 ^ (2 * w)) % mod
  let p2 := prod % 2 ^ w
  let prod := (prod * p0 % 2 ^ (2 * w)) % mod
  let p3 := prod % 2 ^ w
  let p0 := a
  let pw : Nat → Nat := powTbl4 p0 p1 p2 p3
  -- pos <- index of the top bit of b
  let pos := Nat.log2 b
  let ss := min (pos + 1) 3
  let slide := (b / 2 ^ (pos + 1 - ss)) % 2 ^ w % 2 ^ ss
  let r := slideStrip ss slide ss
  let slide := r.1
  let ss := r.2
  let a := pw (slide / 2)
  zzPowerModWLoop w b mod pw (pos + 1) (pos + 1 - ss) a

/-! ## qrPower -/

/-- qrCalcSlideWidth(m) with B_OF_W(m) = w * m -/
def qrCalcSlideWidth (w m : Nat) : Nat :=
  let m := w * m
  if m ≤ 79 then 3
  else if m ≤ 239 then 4
  else if m ≤ 671 then 5
  else if m ≤ 1791 then 6
  else 7

/-- `for (i = 2; i < powers_count; ++i) powers[i] = powers[i - 1] * powers[0]`;
    `acc` = powers so far in reverse order (head = powers[i - 1]), `p0` = powers[0] = a^2 -/
def qrPowersLoop {α : Type} (mul : α → α → α) (p0 : α) : Nat → List α → List α
  | 0, acc => acc
  | k + 1, acc =>
    match acc with
    | [] => []
    | last :: _ => qrPowersLoop mul p0 k (mul last p0 :: acc)

/-- the table `powers` of qrPower (after the final `powers[0] <- a`) for window width `wd` -/
def qrPowers {α : Type} (mul : α → α → α) (sqr : α → α) (a : α) (wd : Nat) : List α :=
  if wd = 1 then [a]
  else
    let cnt := 2 ^ (wd - 1)
    let p0 := sqr a
    let p1 := mul a p0
    let l := (qrPowersLoop mul p0 (cnt - 2) [p1, p0]).reverse
    a :: l.drop 1

/-- `while (slide_size--) qrSqr(power, power)` -/
def qrSqrN {α : Type} (sqr : α → α) : Nat → α → α
  | 0, c => c
  | k + 1, c => qrSqrN sqr k (sqr c)

/-- the `while (pos != SIZE_MAX)` loop of qrPower; `p = pos + 1`, `tbl i` = powers[i] -/
def qrPowerLoop {α : Type} (mul : α → α → α) (sqr : α → α) (tbl : Nat → α)
    (b wd : Nat) : Nat → Nat → α → α
  | 0, _, c => c
  | f + 1, p, c =>
    if p = 0 then c else
    let pos := p - 1
    if b / 2 ^ pos % 2 = 0 then
      qrPowerLoop mul sqr tbl b wd f (p - 1) (sqr c)
    else
      let ss := min (pos + 1) wd
      let slide := b / 2 ^ (pos + 1 - ss) % 2 ^ ss           -- wwGetBits(b, pos - ss + 1, ss)
      let r := slideStrip ss slide ss
      let slide := r.1
      let ss := r.2
      let p := p - ss
      let c := qrSqrN sqr ss c
      qrPowerLoop mul sqr tbl b wd f p (mul c (tbl (slide / 2)))

/-- qrPower(c, a, b, m, r, stack) over an abstract ring (mul, sqr, unity) with window width `wd`
    (`wd = qrCalcSlideWidth w m` in the C code, see `qrPowerV`).  The `getD` default is never
    used (proved: the index is in range). -/
def qrPowerG {α : Type} (mul : α → α → α) (sqr : α → α) (unity : α) (a : α) (b : Nat)
    (wd : Nat) : α :=
  if b = 0 then unity
  else
    let powers := qrPowers mul sqr a wd
    let pos := bitSizeV b - 1
    let ss := min (pos + 1) wd
    let slide := b / 2 ^ (pos + 1 - ss) % 2 ^ ss   -- size_t `pos - ss + 1` (ss ≤ pos + 1)
    let r := slideStrip ss slide ss
    let slide := r.1
    let ss := r.2
    let power := powers.getD (slide / 2) unity
    qrPowerLoop mul sqr (fun i => powers.getD i unity) b wd (pos + 1) (pos + 1 - ss) power

/-- qrPower with the window chosen by qrCalcSlideWidth for an exponent of `m` words -/
def qrPowerV {α : Type} (mul : α → α → α) (sqr : α → α) (unity : α) (w : Nat) (a : α) (b m : Nat) : α :=
  qrPowerG mul sqr unity a b (qrCalcSlideWidth w m)

/-! ## zmCreate: choice of the reduction -/

inductive ZmKind where
  | plain | crand | barr | mont
  deriving DecidableEq, Repr, Inhabited

/-- memIsZero -/
def memIsZeroV (l : List Nat) : Bool := l.all (· == 0)
/-- memIsRep -/
def memIsRepV (l : List Nat) (o : Nat) : Bool := l.all (· == o)

/-- the if-chain of zmCreate; `mod` = the `no` octets of the modulus (little-endian),
    `w` = B_PER_W (O_PER_W = w / 8) -/
def zmKind (w : Nat) (mod : List Nat) : ZmKind :=
  let opw := w / 8
  let no := mod.length
  if no ≤ 2 * opw then .plain
  else if no % opw = 0 ∧ no ≥ 2 * opw ∧ !memIsZeroV (mod.take opw)
      ∧ memIsRepV (mod.drop opw) 0xFF then .crand
  else if mod.headD 0 % 2 = 1 then .mont
  else if no ≥ 4 * opw then .barr
  else .plain

/-! ## Montgomery reduction and the ring operations built on it -/

/-- u16/u32/u64NegInv (core/u16.c, u32.c, u64.c): `ret = w; ret = ret * (w * ret + 2)` repeated
    log2(B_PER_W) times (4 / 5 / 6), all in word arithmetic -/
def wordNegInvLoop (w m0 : Nat) : Nat → Nat → Nat
  | 0, ret => ret
  | k + 1, ret => wordNegInvLoop w m0 k (ret * ((m0 * ret % 2 ^ w + 2) % 2 ^ w) % 2 ^ w)
def wordNegInvV (w m0 : Nat) : Nat := wordNegInvLoop w m0 (Nat.log2 w) m0

/-- first loop of zzRedMont (Dussé–Kaliski): for i < n: w = a[i] * mont_param;
    a += w * mod * B^i  (zzAddMulW + zzAddW2; the carry out of the 2n words is `carry`).
    The value `a` is kept unreduced here: the 2n-word buffer is `a % B^(2n)`, carry = a / B^(2n). -/
def zzRedMontLoopV (w mod mp : Nat) : Nat → Nat → Nat → Nat
  | 0, _, a => a
  | k + 1, i, a =>
    let wi := (a / 2 ^ (w * i) % 2 ^ w) * mp % 2 ^ w
    zzRedMontLoopV w mod mp k (i + 1) (a + wi * mod * 2 ^ (w * i))

/-- zzRedMont(a, mod, n, mont_param): a [2n words] -> a * R^{-1} mod mod [n words] -/
def zzRedMontV (w n mod mp a : Nat) : Nat :=
  let s := zzRedMontLoopV w mod mp n 0 a
  let carry := if s / 2 ^ (w * (2 * n)) ≠ 0 then 1 else 0
  let hi := s / 2 ^ (w * n) % 2 ^ (w * n)          -- a[i] = a[n + i]
  -- w = (hi >= mod) | carry; zzSubAndW(a, mod, n, -w)
  if mod ≤ hi ∨ carry = 1 then (hi + 2 ^ (w * n) - mod) % 2 ^ (w * n) else hi

/-- zmFromMont: c = a * B^n (wwFrom into the upper half, lower half zero); zzMod -/
def zmFromMontV (w n mod a : Nat) : Nat := (a * 2 ^ (w * n)) % mod
/-- zmToMont: zzRedMont of a extended by n zero words -/
def zmToMontV (w n mod mp a : Nat) : Nat := zzRedMontV w n mod mp a
/-- zmMulMont: zzMul then zzRedMont -/
def zmMulMontV (w n mod mp a b : Nat) : Nat := zzRedMontV w n mod mp (a * b)
/-- zmSqrMont: zzSqr then zzRedMont -/
def zmSqrMontV (w n mod mp a : Nat) : Nat := zzRedMontV w n mod mp (a * a)
/-- unity of zmCreateMont: (0 - mod) mod B^n, then zzMod -/
def zmUnityMontV (w n mod : Nat) : Nat := ((2 ^ (w * n) - mod) % 2 ^ (w * n)) % mod

end Bee2V.C05

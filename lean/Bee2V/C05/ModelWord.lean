/-
C05 — code-shaped executable models of the word-level helpers of
  src/core/u16.c, src/core/u32.c, src/core/u64.c :
  Rev, Bitrev, Weight, Parity, CTZ (SAFE and FAST), CLZ (SAFE and FAST), Shuffle, Deshuffle, NegInv.

A C value of type uNN is a `Nat` below 2^NN.  Every definition follows the C text line by line
(the same mask-and-shift sequence, the same constants, the same dichotomy of the FAST editions),
one definition per width: the three sources are NOT assumed to be analogous, each was read.

Wrapping.  `x <<< s`, `x + y`, `x * y` on `Nat` do not wrap, so the reduction `% 2^NN` is written
wherever the C value is converted to uNN:
  * u32 / u64: after every `<<`, `+`, `-`, `*`, `~` (the operation itself is modulo 2^NN);
  * u16: C promotes u16 operands to `int` (32 bits), so the expression is evaluated without
    wrapping at 16 bits and truncated by the assignment / cast / parameter passing / `return`;
    the model truncates at exactly those points.  (In `u16NegInv` the products `w * ret` and
    `ret * (…)` are evaluated in *signed* int and can exceed INT_MAX — e.g. w = 0xFFFF — which is
    formally undefined behaviour in C; every compiler at hand wraps, and the low 16 bits then do
    not depend on the wrap, so the model reduces modulo 2^16 at the assignment.)
`x - y` is written `(x + (2^NN - y)) % 2^NN` (y ≤ 2^NN), `~x` as `x ^^^ (2^NN - 1)`,
`size_t` subtraction `NN - u` as `(NN + (2^64 - u)) % 2^64` (size_t has 64 bits in the builds used).

No Mathlib (imported by the native driver).
-/
import Bee2V.C05.Basic
namespace Bee2V.C05

/-- `(size_t)(x - y)`, y ≤ 2^64 -/
@[reducible] def sizeSub (x y : Nat) : Nat := (x + (0x10000000000000000 - y)) % 0x10000000000000000

/-! ## u16.c -/

/-- `return w << 8 | w >> 8;` (evaluated in int, truncated by the return) -/
def u16Rev (w : Nat) : Nat := ((w <<< 8) ||| (w >>> 8)) % 0x10000

def u16Bitrev (w : Nat) : Nat :=
  let w := (((w >>> 1) &&& 0x5555) ||| ((w &&& 0x5555) <<< 1)) % 0x10000
  let w := (((w >>> 2) &&& 0x3333) ||| ((w &&& 0x3333) <<< 2)) % 0x10000
  let w := (((w >>> 4) &&& 0x0F0F) ||| ((w &&& 0x0F0F) <<< 4)) % 0x10000
  let w := ((w >>> 8) ||| (w <<< 8)) % 0x10000
  w

def u16Weight (w : Nat) : Nat :=
  let w := (w + (0x10000 - ((w >>> 1) &&& 0x5555))) % 0x10000
  let w := ((w &&& 0x3333) + ((w >>> 2) &&& 0x3333)) % 0x10000
  let w := ((w + (w >>> 4)) &&& 0x0F0F) % 0x10000
  let w := (w + (w >>> 8)) % 0x10000
  w &&& 0x001F

def u16Parity (w : Nat) : Nat :=
  let w := w ^^^ (w >>> 1)
  let w := w ^^^ (w >>> 2)
  let w := w ^^^ (w >>> 4)
  let w := w ^^^ (w >>> 8)
  w &&& 1

/-- `return 16 - u16Weight(w | (U16_0 - w));` (the argument is truncated to u16 by the call) -/
def u16CTZ_safe (w : Nat) : Nat :=
  sizeSub 16 (u16Weight ((w ||| ((0x10000 - w % 0x10000) % 0x10000)) % 0x10000))

def u16CTZ_fast (w : Nat) : Nat :=
  let l := 16
  let t := (w <<< 8) % 0x10000
  let (l, w) := if t ≠ 0 then (l - 8, t) else (l, w)
  let t := (w <<< 4) % 0x10000
  let (l, w) := if t ≠ 0 then (l - 4, t) else (l, w)
  let t := (w <<< 2) % 0x10000
  let (l, w) := if t ≠ 0 then (l - 2, t) else (l, w)
  if (w <<< 1) % 0x10000 ≠ 0 then l - 2 else l - (if w ≠ 0 then 1 else 0)

def u16CLZ_safe (w : Nat) : Nat :=
  let w := w ||| (w >>> 1)
  let w := w ||| (w >>> 2)
  let w := w ||| (w >>> 4)
  let w := w ||| (w >>> 8)
  u16Weight ((w ^^^ 0xFFFF) % 0x10000)

def u16CLZ_fast (w : Nat) : Nat :=
  let l := 16
  let t := w >>> 8
  let (l, w) := if t ≠ 0 then (l - 8, t) else (l, w)
  let t := w >>> 4
  let (l, w) := if t ≠ 0 then (l - 4, t) else (l, w)
  let t := w >>> 2
  let (l, w) := if t ≠ 0 then (l - 2, t) else (l, w)
  if w >>> 1 ≠ 0 then l - 2 else l - (if w ≠ 0 then 1 else 0)

def u16Shuffle (w : Nat) : Nat :=
  let t := (w ^^^ (w >>> 4)) &&& 0x00F0
  let w := (w ^^^ (t ^^^ (t <<< 4))) % 0x10000
  let t := (w ^^^ (w >>> 2)) &&& 0x0C0C
  let w := (w ^^^ (t ^^^ (t <<< 2))) % 0x10000
  let t := (w ^^^ (w >>> 1)) &&& 0x2222
  let w := (w ^^^ (t ^^^ (t <<< 1))) % 0x10000
  w

def u16Deshuffle (w : Nat) : Nat :=
  let t := (w ^^^ (w >>> 1)) &&& 0x2222
  let w := (w ^^^ (t ^^^ (t <<< 1))) % 0x10000
  let t := (w ^^^ (w >>> 2)) &&& 0x0C0C
  let w := (w ^^^ (t ^^^ (t <<< 2))) % 0x10000
  let t := (w ^^^ (w >>> 4)) &&& 0x00F0
  let w := (w ^^^ (t ^^^ (t <<< 4))) % 0x10000
  w

/-- one step `ret = ret * (w * ret + 2)` in u16 -/
def u16NegInvStep (w ret : Nat) : Nat := (ret * (w * ret + 2)) % 0x10000

/-- `ret = w;` then 4 steps -/
def u16NegInv (w : Nat) : Nat :=
  let ret := w
  let ret := u16NegInvStep w ret
  let ret := u16NegInvStep w ret
  let ret := u16NegInvStep w ret
  let ret := u16NegInvStep w ret
  ret

/-! ## u32.c -/

/-- `return w << 24 | (w & 0xFF00) << 8 | (w >> 8 & 0xFF00) | w >> 24;` -/
def u32Rev (w : Nat) : Nat :=
  ((w <<< 24) % 0x100000000) ||| (((w &&& 0xFF00) <<< 8) % 0x100000000) |||
    ((w >>> 8) &&& 0xFF00) ||| (w >>> 24)

def u32Bitrev (w : Nat) : Nat :=
  let w := ((w >>> 1) &&& 0x55555555) ||| (((w &&& 0x55555555) <<< 1) % 0x100000000)
  let w := ((w >>> 2) &&& 0x33333333) ||| (((w &&& 0x33333333) <<< 2) % 0x100000000)
  let w := ((w >>> 4) &&& 0x0F0F0F0F) ||| (((w &&& 0x0F0F0F0F) <<< 4) % 0x100000000)
  let w := ((w >>> 8) &&& 0x00FF00FF) ||| (((w &&& 0x00FF00FF) <<< 8) % 0x100000000)
  let w := (w >>> 16) ||| ((w <<< 16) % 0x100000000)
  w

def u32Weight (w : Nat) : Nat :=
  let w := (w + (0x100000000 - ((w >>> 1) &&& 0x55555555))) % 0x100000000
  let w := ((w &&& 0x33333333) + ((w >>> 2) &&& 0x33333333)) % 0x100000000
  let w := ((w + (w >>> 4)) % 0x100000000) &&& 0x0F0F0F0F
  let w := (w + (w >>> 8)) % 0x100000000
  let w := (w + (w >>> 16)) % 0x100000000
  w &&& 0x0000003F

def u32Parity (w : Nat) : Nat :=
  let w := w ^^^ (w >>> 1)
  let w := w ^^^ (w >>> 2)
  let w := w ^^^ (w >>> 4)
  let w := w ^^^ (w >>> 8)
  let w := w ^^^ (w >>> 16)
  w &&& 1

/-- `return 32 - u32Weight(w | (U32_0 - w));` -/
def u32CTZ_safe (w : Nat) : Nat :=
  sizeSub 32 (u32Weight (w ||| ((0x100000000 - w % 0x100000000) % 0x100000000)))

def u32CTZ_fast (w : Nat) : Nat :=
  let l := 32
  let t := (w <<< 16) % 0x100000000
  let (l, w) := if t ≠ 0 then (l - 16, t) else (l, w)
  let t := (w <<< 8) % 0x100000000
  let (l, w) := if t ≠ 0 then (l - 8, t) else (l, w)
  let t := (w <<< 4) % 0x100000000
  let (l, w) := if t ≠ 0 then (l - 4, t) else (l, w)
  let t := (w <<< 2) % 0x100000000
  let (l, w) := if t ≠ 0 then (l - 2, t) else (l, w)
  if (w <<< 1) % 0x100000000 ≠ 0 then l - 2 else l - (if w ≠ 0 then 1 else 0)

def u32CLZ_safe (w : Nat) : Nat :=
  let w := w ||| (w >>> 1)
  let w := w ||| (w >>> 2)
  let w := w ||| (w >>> 4)
  let w := w ||| (w >>> 8)
  let w := w ||| (w >>> 16)
  u32Weight (w ^^^ 0xFFFFFFFF)

def u32CLZ_fast (w : Nat) : Nat :=
  let l := 32
  let t := w >>> 16
  let (l, w) := if t ≠ 0 then (l - 16, t) else (l, w)
  let t := w >>> 8
  let (l, w) := if t ≠ 0 then (l - 8, t) else (l, w)
  let t := w >>> 4
  let (l, w) := if t ≠ 0 then (l - 4, t) else (l, w)
  let t := w >>> 2
  let (l, w) := if t ≠ 0 then (l - 2, t) else (l, w)
  if w >>> 1 ≠ 0 then l - 2 else l - (if w ≠ 0 then 1 else 0)

def u32Shuffle (w : Nat) : Nat :=
  let t := (w ^^^ (w >>> 8)) &&& 0x0000FF00
  let w := w ^^^ (t ^^^ ((t <<< 8) % 0x100000000))
  let t := (w ^^^ (w >>> 4)) &&& 0x00F000F0
  let w := w ^^^ (t ^^^ ((t <<< 4) % 0x100000000))
  let t := (w ^^^ (w >>> 2)) &&& 0x0C0C0C0C
  let w := w ^^^ (t ^^^ ((t <<< 2) % 0x100000000))
  let t := (w ^^^ (w >>> 1)) &&& 0x22222222
  let w := w ^^^ (t ^^^ ((t <<< 1) % 0x100000000))
  w

def u32Deshuffle (w : Nat) : Nat :=
  let t := (w ^^^ (w >>> 1)) &&& 0x22222222
  let w := w ^^^ (t ^^^ ((t <<< 1) % 0x100000000))
  let t := (w ^^^ (w >>> 2)) &&& 0x0C0C0C0C
  let w := w ^^^ (t ^^^ ((t <<< 2) % 0x100000000))
  let t := (w ^^^ (w >>> 4)) &&& 0x00F000F0
  let w := w ^^^ (t ^^^ ((t <<< 4) % 0x100000000))
  let t := (w ^^^ (w >>> 8)) &&& 0x0000FF00
  let w := w ^^^ (t ^^^ ((t <<< 8) % 0x100000000))
  w

/-- one step `ret = ret * (w * ret + 2)` in u32: each of `*`, `+`, `*` wraps -/
def u32NegInvStep (w ret : Nat) : Nat :=
  (ret * (((w * ret) % 0x100000000 + 2) % 0x100000000)) % 0x100000000

/-- `ret = w;` then 5 steps -/
def u32NegInv (w : Nat) : Nat :=
  let ret := w
  let ret := u32NegInvStep w ret
  let ret := u32NegInvStep w ret
  let ret := u32NegInvStep w ret
  let ret := u32NegInvStep w ret
  let ret := u32NegInvStep w ret
  ret

/-! ## u64.c -/

/-- `return w << 56 | (w & 0xFF00) << 40 | (w & 0xFF0000) << 24 | (w & 0xFF000000) << 8 |
      (w >> 8 & 0xFF000000) | (w >> 24 & 0xFF0000) | (w >> 40 & 0xFF00) | w >> 56;` -/
def u64Rev (w : Nat) : Nat :=
  ((w <<< 56) % 0x10000000000000000) ||| (((w &&& 0xFF00) <<< 40) % 0x10000000000000000) |||
    (((w &&& 0xFF0000) <<< 24) % 0x10000000000000000) |||
    (((w &&& 0xFF000000) <<< 8) % 0x10000000000000000) |||
    ((w >>> 8) &&& 0xFF000000) ||| ((w >>> 24) &&& 0xFF0000) ||| ((w >>> 40) &&& 0xFF00) |||
    (w >>> 56)

def u64Bitrev (w : Nat) : Nat :=
  let w := ((w >>> 1) &&& 0x5555555555555555) |||
    (((w &&& 0x5555555555555555) <<< 1) % 0x10000000000000000)
  let w := ((w >>> 2) &&& 0x3333333333333333) |||
    (((w &&& 0x3333333333333333) <<< 2) % 0x10000000000000000)
  let w := ((w >>> 4) &&& 0x0F0F0F0F0F0F0F0F) |||
    (((w &&& 0x0F0F0F0F0F0F0F0F) <<< 4) % 0x10000000000000000)
  let w := ((w >>> 8) &&& 0x00FF00FF00FF00FF) |||
    (((w &&& 0x00FF00FF00FF00FF) <<< 8) % 0x10000000000000000)
  let w := ((w >>> 16) &&& 0x0000FFFF0000FFFF) |||
    (((w &&& 0x0000FFFF0000FFFF) <<< 16) % 0x10000000000000000)
  let w := (w >>> 32) ||| ((w <<< 32) % 0x10000000000000000)
  w

def u64Weight (w : Nat) : Nat :=
  let w := (w + (0x10000000000000000 - ((w >>> 1) &&& 0x5555555555555555))) % 0x10000000000000000
  let w := ((w &&& 0x3333333333333333) + ((w >>> 2) &&& 0x3333333333333333)) % 0x10000000000000000
  let w := ((w + (w >>> 4)) % 0x10000000000000000) &&& 0x0F0F0F0F0F0F0F0F
  let w := (w + (w >>> 8)) % 0x10000000000000000
  let w := (w + (w >>> 16)) % 0x10000000000000000
  let w := (w + (w >>> 32)) % 0x10000000000000000
  w &&& 0x000000000000007F

def u64Parity (w : Nat) : Nat :=
  let w := w ^^^ (w >>> 1)
  let w := w ^^^ (w >>> 2)
  let w := w ^^^ (w >>> 4)
  let w := w ^^^ (w >>> 8)
  let w := w ^^^ (w >>> 16)
  let w := w ^^^ (w >>> 32)
  w &&& 1

/-- `return 64 - u64Weight(w | (U64_0 - w));` -/
def u64CTZ_safe (w : Nat) : Nat :=
  sizeSub 64 (u64Weight (w ||| ((0x10000000000000000 - w % 0x10000000000000000) % 0x10000000000000000)))

def u64CTZ_fast (w : Nat) : Nat :=
  let l := 64
  let t := (w <<< 32) % 0x10000000000000000
  let (l, w) := if t ≠ 0 then (l - 32, t) else (l, w)
  let t := (w <<< 16) % 0x10000000000000000
  let (l, w) := if t ≠ 0 then (l - 16, t) else (l, w)
  let t := (w <<< 8) % 0x10000000000000000
  let (l, w) := if t ≠ 0 then (l - 8, t) else (l, w)
  let t := (w <<< 4) % 0x10000000000000000
  let (l, w) := if t ≠ 0 then (l - 4, t) else (l, w)
  let t := (w <<< 2) % 0x10000000000000000
  let (l, w) := if t ≠ 0 then (l - 2, t) else (l, w)
  if (w <<< 1) % 0x10000000000000000 ≠ 0 then l - 2 else l - (if w ≠ 0 then 1 else 0)

def u64CLZ_safe (w : Nat) : Nat :=
  let w := w ||| (w >>> 1)
  let w := w ||| (w >>> 2)
  let w := w ||| (w >>> 4)
  let w := w ||| (w >>> 8)
  let w := w ||| (w >>> 16)
  let w := w ||| (w >>> 32)
  u64Weight (w ^^^ 0xFFFFFFFFFFFFFFFF)

def u64CLZ_fast (w : Nat) : Nat :=
  let l := 64
  let t := w >>> 32
  let (l, w) := if t ≠ 0 then (l - 32, t) else (l, w)
  let t := w >>> 16
  let (l, w) := if t ≠ 0 then (l - 16, t) else (l, w)
  let t := w >>> 8
  let (l, w) := if t ≠ 0 then (l - 8, t) else (l, w)
  let t := w >>> 4
  let (l, w) := if t ≠ 0 then (l - 4, t) else (l, w)
  let t := w >>> 2
  let (l, w) := if t ≠ 0 then (l - 2, t) else (l, w)
  if w >>> 1 ≠ 0 then l - 2 else l - (if w ≠ 0 then 1 else 0)

def u64Shuffle (w : Nat) : Nat :=
  let t := (w ^^^ (w >>> 16)) &&& 0x00000000FFFF0000
  let w := w ^^^ (t ^^^ ((t <<< 16) % 0x10000000000000000))
  let t := (w ^^^ (w >>> 8)) &&& 0x0000FF000000FF00
  let w := w ^^^ (t ^^^ ((t <<< 8) % 0x10000000000000000))
  let t := (w ^^^ (w >>> 4)) &&& 0x00F000F000F000F0
  let w := w ^^^ (t ^^^ ((t <<< 4) % 0x10000000000000000))
  let t := (w ^^^ (w >>> 2)) &&& 0x0C0C0C0C0C0C0C0C
  let w := w ^^^ (t ^^^ ((t <<< 2) % 0x10000000000000000))
  let t := (w ^^^ (w >>> 1)) &&& 0x2222222222222222
  let w := w ^^^ (t ^^^ ((t <<< 1) % 0x10000000000000000))
  w

def u64Deshuffle (w : Nat) : Nat :=
  let t := (w ^^^ (w >>> 1)) &&& 0x2222222222222222
  let w := w ^^^ (t ^^^ ((t <<< 1) % 0x10000000000000000))
  let t := (w ^^^ (w >>> 2)) &&& 0x0C0C0C0C0C0C0C0C
  let w := w ^^^ (t ^^^ ((t <<< 2) % 0x10000000000000000))
  let t := (w ^^^ (w >>> 4)) &&& 0x00F000F000F000F0
  let w := w ^^^ (t ^^^ ((t <<< 4) % 0x10000000000000000))
  let t := (w ^^^ (w >>> 8)) &&& 0x0000FF000000FF00
  let w := w ^^^ (t ^^^ ((t <<< 8) % 0x10000000000000000))
  let t := (w ^^^ (w >>> 16)) &&& 0x00000000FFFF0000
  let w := w ^^^ (t ^^^ ((t <<< 16) % 0x10000000000000000))
  w

/-- one step `ret = ret * (w * ret + 2)` in u64: each of `*`, `+`, `*` wraps -/
def u64NegInvStep (w ret : Nat) : Nat :=
  (ret * (((w * ret) % 0x10000000000000000 + 2) % 0x10000000000000000)) % 0x10000000000000000

/-- `ret = w;` then 6 steps -/
def u64NegInv (w : Nat) : Nat :=
  let ret := w
  let ret := u64NegInvStep w ret
  let ret := u64NegInvStep w ret
  let ret := u64NegInvStep w ret
  let ret := u64NegInvStep w ret
  let ret := u64NegInvStep w ret
  let ret := u64NegInvStep w ret
  ret

/-! ## word.h : `wordCTZ` / `wordCLZ` are `uNNCTZ` / `uNNCLZ` of the build's word size, i.e. the SAFE
editions in the default build and the FAST editions under SAFE_FAST.  For a word size other than
16/32/64 (only used to exercise the multi-word models with small words) the count is computed by the
FAST-style scan below. -/

def ctzScan (x : Nat) : Nat → Nat
  | 0 => 0
  | k + 1 => if x % 2 = 1 then 0 else ctzScan (x / 2) k + 1

def clzScan (w x : Nat) : Nat → Nat
  | 0 => w
  | k + 1 => if x / 2 ^ k % 2 = 1 then w - (k + 1) else clzScan w x k

def wordCTZ_safe (w x : Nat) : Nat :=
  if w = 16 then u16CTZ_safe x else if w = 32 then u32CTZ_safe x
  else if w = 64 then u64CTZ_safe x else ctzScan x w
def wordCTZ_fast (w x : Nat) : Nat :=
  if w = 16 then u16CTZ_fast x else if w = 32 then u32CTZ_fast x
  else if w = 64 then u64CTZ_fast x else ctzScan x w
def wordCLZ_safe (w x : Nat) : Nat :=
  if w = 16 then u16CLZ_safe x else if w = 32 then u32CLZ_safe x
  else if w = 64 then u64CLZ_safe x else clzScan w x w
def wordCLZ_fast (w x : Nat) : Nat :=
  if w = 16 then u16CLZ_fast x else if w = 32 then u32CLZ_fast x
  else if w = 64 then u64CLZ_fast x else clzScan w x w

end Bee2V.C05

/-
C05 — helper lemmas for PropsRed.lean (zzRedCrandMont, zzRedBarr).
-/
import Bee2V.C05.ModelRed
import Bee2V.C05.LemmasAdd
import Bee2V.C05.LemmasMul
import Bee2V.C05.LemmasGcd
import Mathlib.Tactic.Ring
import Mathlib.Tactic.Linarith
import Mathlib.Tactic.LinearCombination
namespace Bee2V.C05.Red
open Bee2V.C05 Bee2V.C05.Add

/-! ## word steps of zzRedCrandMont -/

/-- a correct "a[i+n] += t + carry" step -/
def CmAddOK (w : Nat) (f : Nat → Nat → Nat → Nat → Nat × Nat) : Prop :=
  ∀ x t c, x < 2 ^ w → t < 2 ^ w → c ≤ 1 →
    (f w x t c).1 + 2 ^ w * (f w x t c).2 = x + t + c ∧ (f w x t c).1 < 2 ^ w ∧ (f w x t c).2 ≤ 1

/-- a correct "a[i+1] -= t + borrow" step -/
def CmSubOK (w : Nat) (f : Nat → Nat → Nat → Nat → Nat × Nat) : Prop :=
  ∀ y t b, y < 2 ^ w → t < 2 ^ w → b ≤ 1 →
    (f w y t b).1 + t + b = y + 2 ^ w * (f w y t b).2 ∧ (f w y t b).1 < 2 ^ w ∧ (f w y t b).2 ≤ 1

theorem cmAddS_ok (w : Nat) : CmAddOK w cmAddS := fun x t c hx ht hc => fAdd2_ok w x t c hx ht hc
theorem cmSubS_ok (w : Nat) : CmSubOK w cmSubS := fun y t b hy ht hb => fSub_ok w y t b hy ht hb

theorem cmAddFB {B x t1 c : Nat} (hx : x < B) (ht1 : t1 < B) (hc : c ≤ 1) :
    let t := (t1 + c) % B
    let r : Nat × Nat := if t ≥ c then ((x + t) % B, wless01 ((x + t) % B) t) else (x, c)
    r.1 + B * r.2 = x + t1 + c ∧ r.1 < B ∧ r.2 ≤ 1 := by
  intro t r
  have hBc := mul01 B hc
  have ht : t = if t1 + c < B then t1 + c else t1 + c - B := mod_wrap (by omega)
  have htB : t < B := Nat.mod_lt _ (by omega)
  have hs : (x + t) % B = if x + t < B then x + t else x + t - B := mod_wrap (by omega)
  have hr : r = if t ≥ c then ((x + t) % B, if (x + t) % B < t then 1 else 0) else (x, c) := rfl
  clear_value t r
  rw [hs] at hr
  subst hr
  split_ifs at * <;> subst_vars <;> simp <;> omega

theorem cmSubFB {B y t2 b : Nat} (hy : y < B) (ht2 : t2 < B) (hb : b ≤ 1) :
    let t := (t2 + b) % B
    let r : Nat × Nat := if t ≥ b then ((y + (B - t % B)) % B, wless01 y t) else (y, b)
    r.1 + t2 + b = y + B * r.2 ∧ r.1 < B ∧ r.2 ≤ 1 := by
  intro t r
  have hBb := mul01 B hb
  have ht : t = if t2 + b < B then t2 + b else t2 + b - B := mod_wrap (by omega)
  have htB : t < B := Nat.mod_lt _ (by omega)
  have hs : (y + (B - t % B)) % B
      = if y + (B - t % B) < B then y + (B - t % B) else y + (B - t % B) - B := mod_wrap (by omega)
  have hr : r = if t ≥ b then ((y + (B - t % B)) % B, if y < t then 1 else 0) else (y, b) := rfl
  rw [Nat.mod_eq_of_lt htB] at hs hr
  clear_value t r
  rw [hs] at hr
  subst hr
  split_ifs at * <;> subst_vars <;> simp <;> omega

theorem cmAddF_ok (w : Nat) : CmAddOK w cmAddF := fun _ _ _ hx ht hc => cmAddFB hx ht hc
theorem cmSubF_ok (w : Nat) : CmSubOK w cmSubF := fun _ _ _ hy ht hb => cmSubFB hy ht hb

/-- with `c = B - mod[0]` and `mod[0] m* ≡ -1`: the low word of `t1 c` is a[i] -/
theorem crand_word {B m0 mp ai : Nat} (_hm0 : 0 < m0) (hm0B : m0 < B) (hmp : (m0 * mp + 1) % B = 0)
    (hai : ai < B) : ((ai * mp) % B * (B - m0)) % B = ai := by
  obtain ⟨q, hq⟩ := Nat.dvd_of_mod_eq_zero hmp
  have hd := Nat.div_add_mod (ai * mp) B
  generalize ai * mp / B = d at *
  generalize ai * mp % B = t at *
  obtain ⟨c, rfl⟩ : ∃ c, B = m0 + c := ⟨B - m0, by omega⟩
  rw [Nat.add_sub_cancel_left]
  have key : t * c + (m0 + c) * (d * c + ai * q) = ai + (m0 + c) * (ai * mp) := by
    have e1 : t * c + (m0 + c) * (d * c + ai * q) = ((m0 + c) * d + t) * c + ai * ((m0 + c) * q) := by
      ring
    rw [e1, hd, ← hq]; ring
  have h2 : (t * c + (m0 + c) * (d * c + ai * q)) % (m0 + c) = (ai + (m0 + c) * (ai * mp)) % (m0 + c) := by
    rw [key]
  rwa [Nat.add_mul_mod_self_left, Nat.add_mul_mod_self_left, Nat.mod_eq_of_lt hai] at h2

/-! ## lists -/

theorem val_set (w : Nat) (l : List Nat) (i v : Nat) (hi : i < l.length) :
    val w (l.set i v) + 2 ^ (w * i) * l.getD i 0 = val w l + 2 ^ (w * i) * v := by
  induction l generalizing i with
  | nil => simp at hi
  | cons x xs ih =>
    cases i with
    | zero => simp [val_cons]; omega
    | succ j =>
      have := ih j (by simpa using hi)
      simp only [List.set_cons_succ, val_cons, List.getD_cons_succ, Mul.powS]
      have h2 : 2 ^ w * (val w (xs.set j v) + 2 ^ (w * j) * xs.getD j 0)
          = 2 ^ w * (val w xs + 2 ^ (w * j) * v) := by rw [this]
      simp only [Nat.mul_add, ← Nat.mul_assoc] at h2
      omega

theorem Wf_set {w : Nat} {l : List Nat} (hl : Wf w l) (i v : Nat) (hv : v < 2 ^ w) :
    Wf w (l.set i v) := by
  intro x hx
  rcases List.mem_or_eq_of_mem_set hx with h | h
  · exact hl x h
  · rw [h]; exact hv

theorem getD_lt {w : Nat} {l : List Nat} (hl : Wf w l) (i : Nat) : l.getD i 0 < 2 ^ w := by
  rw [List.getD_eq_getElem?_getD]
  cases h : l[i]? with
  | none => simp
  | some x => simp; exact hl x (List.mem_of_getElem? h)


/-! ## the main loop of zzRedCrandMont -/

theorem getD_set_ne (l : List Nat) (i j v : Nat) (h : i ≠ j) :
    (l.set i v).getD j 0 = l.getD j 0 := by
  rw [List.getD_eq_getElem?_getD, List.getD_eq_getElem?_getD, List.getElem?_set_ne h]

/-- invariant of the loop on the window `a + i` (`n + k` words, `k` iterations left), with
    `Z = val(window) + carry B^n - borrow B`:  `B^k Z' = Z + K (B^n - c)`, `K < B^k` -/
theorem cmLoop_spec (w : Nat) (addf subf : Nat → Nat → Nat → Nat → Nat × Nat)
    (hadd : CmAddOK w addf) (hsub : CmSubOK w subf) (m0 mp n' : Nat)
    (hm0 : 0 < m0) (hm0B : m0 < 2 ^ w) (hmp : (m0 * mp + 1) % 2 ^ w = 0) :
    ∀ k a carry borrow, Wf w a → a.length = (n' + 2) + k → carry ≤ 1 → borrow ≤ 1 →
      ∃ K : Nat, K < 2 ^ (w * k)
        ∧ Wf w ((zzRedCrandMontLoop w addf subf (2 ^ w - m0) mp (n' + 2) k a carry borrow).1.drop k)
        ∧ ((zzRedCrandMontLoop w addf subf (2 ^ w - m0) mp (n' + 2) k a carry borrow).1.drop k).length
            = n' + 2
        ∧ (zzRedCrandMontLoop w addf subf (2 ^ w - m0) mp (n' + 2) k a carry borrow).2.1 ≤ 1
        ∧ (zzRedCrandMontLoop w addf subf (2 ^ w - m0) mp (n' + 2) k a carry borrow).2.2 ≤ 1
        ∧ ((2 : ℤ) ^ (w * k)) *
            ((val w ((zzRedCrandMontLoop w addf subf (2 ^ w - m0) mp (n' + 2) k a carry borrow).1.drop k) : ℤ)
              + (zzRedCrandMontLoop w addf subf (2 ^ w - m0) mp (n' + 2) k a carry borrow).2.1
                  * 2 ^ (w * (n' + 2))
              - (zzRedCrandMontLoop w addf subf (2 ^ w - m0) mp (n' + 2) k a carry borrow).2.2 * 2 ^ w)
          = ((val w a : ℤ) + carry * 2 ^ (w * (n' + 2)) - borrow * 2 ^ w)
            + K * ((2 : ℤ) ^ (w * (n' + 2)) - ((2 : ℤ) ^ w - m0)) := by
  intro k
  induction k with
  | zero =>
    intro a carry borrow ha hl hc hb
    simp only [zzRedCrandMontLoop, List.drop_zero]
    exact ⟨0, by simp, ha, hl, hc, hb, by simp⟩
  | succ k ih =>
    intro a carry borrow ha hl hc hb
    -- a = ai :: y :: a''  (at least 3 words)
    obtain ⟨ai, a', rfl⟩ : ∃ ai a', a = ai :: a' := by
      cases a with
      | nil => simp at hl
      | cons x xs => exact ⟨x, xs, rfl⟩
    obtain ⟨hai, ha'⟩ := Wf_cons.mp ha
    have hl' : a'.length = (n' + 1) + (k + 1) := by simp at hl; omega
    have hB : 0 < 2 ^ w := Nat.two_pow_pos w
    -- the multiplier and the product
    have ht1 : wmul w ai mp < 2 ^ w := Nat.mod_lt _ hB
    have hcl : 2 ^ w - m0 < 2 ^ w := by omega
    have hprodlt : wmul w ai mp * (2 ^ w - m0) < 2 ^ (2 * w) := by
      rw [Nat.two_mul, Nat.pow_add]; exact Nat.mul_lt_mul'' ht1 hcl
    have hprod : dmul w (wmul w ai mp) (2 ^ w - m0) = wmul w ai mp * (2 ^ w - m0) :=
      Nat.mod_eq_of_lt hprodlt
    have hlow : (wmul w ai mp * (2 ^ w - m0)) % 2 ^ w = ai := crand_word hm0 hm0B hmp hai
    have hhi_lt : wmul w ai mp * (2 ^ w - m0) / 2 ^ w < 2 ^ w := by
      apply Nat.div_lt_of_lt_mul
      rw [Nat.two_mul, Nat.pow_add] at hprodlt; exact hprodlt
    have hhi : dhi w (dmul w (wmul w ai mp) (2 ^ w - m0)) = wmul w ai mp * (2 ^ w - m0) / 2 ^ w := by
      show _ / 2 ^ w % 2 ^ w = _
      rw [hprod, Nat.mod_eq_of_lt hhi_lt]
    have hdm := Nat.div_add_mod (wmul w ai mp * (2 ^ w - m0)) (2 ^ w)
    rw [hlow] at hdm
    -- unfold one iteration
    unfold zzRedCrandMontLoop
    simp only [List.getD_cons_succ, List.set_cons_succ, hhi]
    generalize wmul w ai mp = t1 at *
    generalize ht2 : t1 * (2 ^ w - m0) / 2 ^ w = t2 at *
    have hx := getD_lt ha' (n' + 1)
    obtain ⟨p1, p2, p3⟩ := hadd (a'.getD (n' + 1) 0) t1 carry hx ht1 hc
    generalize addf w (a'.getD (n' + 1) 0) t1 carry = r1 at *
    have hy1 : (a'.set (n' + 1) r1.1).getD 0 0 = a'.getD 0 0 := getD_set_ne _ _ _ _ (by omega)
    rw [hy1]
    have hy := getD_lt ha' 0
    obtain ⟨q1, q2, q3⟩ := hsub (a'.getD 0 0) t2 borrow hy hhi_lt hb
    generalize subf w (a'.getD 0 0) t2 borrow = r2 at *
    have v1 := val_set w a' (n' + 1) r1.1 (by omega)
    have v2 := val_set w (a'.set (n' + 1) r1.1) 0 r2.1 (by simp; omega)
    rw [hy1] at v2
    simp only [Nat.mul_zero, Nat.pow_zero, Nat.one_mul] at v2
    have hW : Wf w ((a'.set (n' + 1) r1.1).set 0 r2.1) := Wf_set (Wf_set ha' _ _ p2) _ _ q2
    have hL : ((a'.set (n' + 1) r1.1).set 0 r2.1).length = (n' + 2) + k := by simp; omega
    generalize (a'.set (n' + 1) r1.1).set 0 r2.1 = rest at *
    obtain ⟨K, k1, k2, k3, k4, k5, k6⟩ := ih rest r1.2 r2.2 hW hL p3 q3
    generalize zzRedCrandMontLoop w addf subf (2 ^ w - m0) mp (n' + 2) k rest r1.2 r2.2 = r at *
    refine ⟨t1 + 2 ^ w * K, ?_, by simpa using k2, by simpa using k3, k4, k5, ?_⟩
    · rw [Mul.powS]
      have : 2 ^ w * (K + 1) ≤ 2 ^ w * 2 ^ (w * k) := Nat.mul_le_mul_left _ k1
      rw [Nat.mul_add] at this
      omega
    · simp only [List.drop_succ_cons, val_cons]
      have hpk : (2 : ℤ) ^ (w * (k + 1)) = 2 ^ w * 2 ^ (w * k) := by
        rw [Nat.mul_succ, pow_add, mul_comm]
      have hpn : (2 : ℤ) ^ (w * (n' + 2)) = 2 ^ w * 2 ^ (w * (n' + 1)) := by
        rw [show w * (n' + 2) = w * (n' + 1) + w by ring, pow_add, mul_comm]
      have hcast : ((2 ^ w - m0 : Nat) : ℤ) = (2 : ℤ) ^ w - m0 := by
        rw [Nat.cast_sub (by omega)]; push_cast; ring
      have hdmZ : (2 : ℤ) ^ w * t2 + ai = t1 * ((2 : ℤ) ^ w - m0) := by
        rw [← hcast]; exact_mod_cast hdm
      have p1Z : (r1.1 : ℤ) + 2 ^ w * r1.2 = (a'.getD (n' + 1) 0 : ℤ) + t1 + carry := by
        exact_mod_cast p1
      have q1Z : (r2.1 : ℤ) + t2 + borrow = (a'.getD 0 0 : ℤ) + 2 ^ w * r2.2 := by
        exact_mod_cast q1
      have v1Z : (val w (a'.set (n' + 1) r1.1) : ℤ) + 2 ^ (w * (n' + 1)) * (a'.getD (n' + 1) 0 : ℤ)
          = val w a' + 2 ^ (w * (n' + 1)) * r1.1 := by exact_mod_cast v1
      have v2Z : (val w rest : ℤ) + (a'.getD 0 0 : ℤ) = val w (a'.set (n' + 1) r1.1) + r2.1 := by
        exact_mod_cast v2
      push_cast
      rw [hpk, mul_assoc, k6, hpn]
      linear_combination (2 : ℤ) ^ w * v2Z + (2 : ℤ) ^ w * v1Z
        + (2 : ℤ) ^ w * (2 : ℤ) ^ (w * (n' + 1)) * p1Z + (2 : ℤ) ^ w * q1Z - hdmZ


/-! ## zzRedCrandMont: from the loop to the Montgomery end game -/

theorem wneg_word {w m0 : Nat} (h0 : 0 < m0) (hB : m0 < 2 ^ w) : wneg w m0 = 2 ^ w - m0 := by
  show (2 ^ w - m0 % 2 ^ w) % 2 ^ w = 2 ^ w - m0
  rw [Nat.mod_eq_of_lt hB, Nat.mod_eq_of_lt (by omega)]

theorem wsub01 {w c s : Nat} (hw : 2 ≤ 2 ^ w) (hc : c ≤ 1) (hs : s ≤ c) : wsub w c s = c - s := by
  show (c + (2 ^ w - s % 2 ^ w)) % 2 ^ w = c - s
  rw [Nat.mod_eq_of_lt (show s < 2 ^ w by omega)]
  obtain rfl | rfl : c = 0 ∨ c = 1 := by omega
  · have : s = 0 := by omega
    subst this; simp
  · obtain rfl | rfl : s = 0 ∨ s = 1 := by omega
    · rw [Nat.sub_zero, Nat.add_mod_right, Nat.mod_eq_of_lt (by omega)]
    · have : 1 + (2 ^ w - 1) = 2 ^ w := by omega
      rw [this, Nat.mod_self]

/-- value of the Crandall modulus `m0 :: (B-1) … (B-1)` -/
theorem val_crand (w m0 : Nat) (ms : List Nat) (hms : ∀ x ∈ ms, x = 2 ^ w - 1) (hB : m0 < 2 ^ w) :
    val w (m0 :: ms) + (2 ^ w - m0) = 2 ^ (w * (ms.length + 1)) := by
  have h := Mul.val_ones w ms hms
  have h2 : 2 ^ w * (val w ms + 1) = 2 ^ w * 2 ^ (w * ms.length) := by rw [h]
  rw [Nat.mul_add] at h2
  rw [val_cons, Mul.powS]
  omega

theorem cmCore_spec (w : Nat) (addf subf : Nat → Nat → Nat → Nat → Nat × Nat)
    (hadd : CmAddOK w addf) (hsub : CmSubOK w subf) (m0 : Nat) (ms a : List Nat) (mp n' : Nat)
    (hn : ms.length = n' + 1) (hms : ∀ x ∈ ms, x = 2 ^ w - 1)
    (hm0 : 0 < m0) (hm0B : m0 < 2 ^ w) (hmp : (m0 * mp + 1) % 2 ^ w = 0)
    (ha : Wf w a) (hl : a.length = (m0 :: ms).length + (m0 :: ms).length)
    (_hlt : val w a < val w (m0 :: ms) * 2 ^ (w * (m0 :: ms).length)) :
    ∃ t : Nat, t < 2 ^ (w * (m0 :: ms).length)
      ∧ (zzRedCrandMontCore w addf subf a (m0 :: ms) mp).2 ≤ 1
      ∧ Wf w (zzRedCrandMontCore w addf subf a (m0 :: ms) mp).1
      ∧ (zzRedCrandMontCore w addf subf a (m0 :: ms) mp).1.length = (m0 :: ms).length
      ∧ 2 ^ (w * (m0 :: ms).length) * val w (zzRedCrandMontCore w addf subf a (m0 :: ms) mp).1
          + 2 ^ (w * ((m0 :: ms).length + (m0 :: ms).length))
            * (zzRedCrandMontCore w addf subf a (m0 :: ms) mp).2
        = val w a + t * val w (m0 :: ms) := by
  have hlen : (m0 :: ms).length = n' + 2 := by simp [hn]
  have hB2 : 2 ≤ 2 ^ w := by omega
  have hvm := val_crand w m0 ms hms hm0B
  rw [hn] at hvm
  rw [hlen] at hl ⊢
  unfold zzRedCrandMontCore
  simp only [hlen, List.getD_cons_zero, wneg_word hm0 hm0B]
  obtain ⟨K, k1, k2, k3, k4, k5, k6⟩ := cmLoop_spec w addf subf hadd hsub m0 mp n' hm0 hm0B hmp
    (n' + 2) a 0 0 ha hl (by omega) (by omega)
  generalize zzRedCrandMontLoop w addf subf (2 ^ w - m0) mp (n' + 2) (n' + 2) a 0 0 = r at *
  generalize hhi : r.1.drop (n' + 2) = hi at *
  -- split hi = head :: tail
  obtain ⟨h0, tl, rfl⟩ : ∃ h0 tl, hi = h0 :: tl := by
    cases hi with
    | nil => simp at k3
    | cons x xs => exact ⟨x, xs, rfl⟩
  obtain ⟨hh0, htl⟩ := Wf_cons.mp k2
  have hltl : tl.length = n' + 1 := by simpa using k3
  simp only [List.drop_succ_cons, List.drop_zero, List.take_succ_cons, List.take_zero,
    List.singleton_append, zzSubW2]
  obtain ⟨s1, s2, s3, s4, s5⟩ := zzSubW_spec w tl r.2.2 htl (by omega)
  have s3' := s3 (by intro h; rw [h] at hltl; simp at hltl)
  rw [hltl] at s1
  generalize zzSubW w tl r.2.2 = s at *
  have hvs := val_lt s4
  rw [s5, hltl] at hvs
  have hvt := val_lt htl
  rw [hltl] at hvt
  -- integer bookkeeping
  have hP : (2 : ℤ) ^ (w * (n' + 2)) = 2 ^ w * 2 ^ (w * (n' + 1)) := by
    rw [show w * (n' + 2) = w * (n' + 1) + w by ring, pow_add, mul_comm]
  have s1Z : (val w s.1 : ℤ) + r.2.2 = val w tl + 2 ^ (w * (n' + 1)) * s.2 := by exact_mod_cast s1
  have hv : (val w (h0 :: tl) : ℤ) = h0 + 2 ^ w * val w tl := by rw [val_cons]; push_cast; ring
  have hvm2 : (2 : ℤ) ^ (w * (n' + 2)) - ((2 : ℤ) ^ w - m0) = (val w (m0 :: ms) : ℤ) := by
    have h1 : ((2 ^ w - m0 : Nat) : ℤ) = (2 : ℤ) ^ w - m0 := by
      rw [Nat.cast_sub (by omega)]; push_cast; ring
    have h2 : ((val w (m0 :: ms) + (2 ^ w - m0) : Nat) : ℤ) = ((2 ^ (w * (n' + 1 + 1)) : Nat) : ℤ) := by
      rw [hvm]
    push_cast at h2
    rw [h1] at h2
    linarith
  rw [hvm2, hv] at k6
  simp only [Nat.cast_zero, zero_mul, add_zero, sub_zero] at k6
  have hvsZ : (val w s.1 : ℤ) < 2 ^ (w * (n' + 1)) := by exact_mod_cast hvs
  have hh0Z : (h0 : ℤ) < 2 ^ w := by exact_mod_cast hh0
  have hBpos : (0 : ℤ) < 2 ^ w := by positivity
  have hPpos : (0 : ℤ) < 2 ^ (w * (n' + 2)) := by positivity
  -- S = val hi' + (carry - bo) P
  have hS : (2 : ℤ) ^ (w * (n' + 2))
      * ((h0 : ℤ) + 2 ^ w * val w s.1 + ((r.2.1 : ℤ) - s.2) * 2 ^ (w * (n' + 2)))
      = val w a + K * val w (m0 :: ms) := by
    rw [← k6, hP]
    linear_combination (2 ^ w * 2 ^ (w * (n' + 1))) * (2 : ℤ) ^ w * s1Z
  have hlow : (h0 : ℤ) + 2 ^ w * val w s.1 < 2 ^ (w * (n' + 2)) := by
    rw [hP]
    have : (2 : ℤ) ^ w * (val w s.1 + 1) ≤ 2 ^ w * 2 ^ (w * (n' + 1)) := by
      apply mul_le_mul_of_nonneg_left _ hBpos.le; linarith
    linarith
  have hge : (s.2 : ℤ) ≤ r.2.1 := by
    by_contra hcon
    have h1 : (r.2.1 : ℤ) - s.2 ≤ -1 := by omega
    have h2 : ((r.2.1 : ℤ) - s.2) * 2 ^ (w * (n' + 2)) ≤ (-1) * 2 ^ (w * (n' + 2)) :=
      mul_le_mul_of_nonneg_right h1 hPpos.le
    have h3 : (h0 : ℤ) + 2 ^ w * val w s.1 + ((r.2.1 : ℤ) - s.2) * 2 ^ (w * (n' + 2)) < 0 := by
      linarith
    have h4 := mul_neg_of_pos_of_neg hPpos h3
    rw [hS] at h4
    have hA : (0 : ℤ) ≤ val w a + K * val w (m0 :: ms) := by positivity
    linarith
  have hle : s.2 ≤ r.2.1 := by exact_mod_cast hge
  refine ⟨K, k1, ?_, Wf_cons.mpr ⟨hh0, s4⟩, by simp [s5, hltl], ?_⟩
  · rw [wsub01 hB2 k4 hle]; omega
  · rw [wsub01 hB2 k4 hle]
    have hfin : (((2 ^ (w * (n' + 2)) * val w (h0 :: s.1)
        + 2 ^ (w * (n' + 2 + (n' + 2))) * (r.2.1 - s.2) : Nat)) : ℤ)
        = ((val w a + K * val w (m0 :: ms) : Nat) : ℤ) := by
      rw [Nat.mul_add w, Nat.pow_add, val_cons]
      push_cast [Nat.cast_sub hle]
      linear_combination hS
    exact_mod_cast hfin


/-! ## uniqueness of the Montgomery residue for an odd modulus -/

theorem odd_of_mont {w m0 mp : Nat} (hw : 0 < w) (hmp : (m0 * mp + 1) % 2 ^ w = 0) : m0 % 2 = 1 := by
  obtain ⟨q, hq⟩ := Nat.dvd_of_mod_eq_zero hmp
  obtain ⟨k, rfl⟩ : ∃ k, w = k + 1 := ⟨w - 1, by omega⟩
  by_contra h
  obtain ⟨j, rfl⟩ : ∃ j, m0 = 2 * j := ⟨m0 / 2, by omega⟩
  have e1 : 2 * j * mp = 2 * (j * mp) := by ring
  have e2 : 2 ^ (k + 1) * q = 2 * (2 ^ k * q) := by rw [Nat.pow_succ]; ring
  omega

theorem mont_unique {w n M x y : Nat} (hM : M % 2 = 1)
    (h : (x * 2 ^ (w * n)) % M = (y * 2 ^ (w * n)) % M) (hx : x < M) (hy : y < M) : x = y := by
  have hc : Nat.gcd M (2 ^ (w * n)) = 1 :=
    Nat.Coprime.pow_right _ (Nat.coprime_comm.mp (Gcd.coprime_two_of_odd hM))
  have h2 : x ≡ y [MOD M] := Nat.ModEq.cancel_right_of_coprime hc h
  exact Nat.ModEq.eq_of_lt_of_lt h2 hx hy


/-- both editions, given that the final conditional subtraction is the Montgomery one -/
theorem crandMont_finish (w : Nat) (addf subf : Nat → Nat → Nat → Nat → Nat × Nat)
    (hadd : CmAddOK w addf) (hsub : CmSubOK w subf) (m0 : Nat) (ms a : List Nat) (mp : Nat)
    (hms : ∀ x ∈ ms, x = 2 ^ w - 1) (hne : ms ≠ [])
    (hm0 : 0 < m0) (hm0B : m0 < 2 ^ w) (hmp : (m0 * mp + 1) % 2 ^ w = 0)
    (ha : Wf w a) (hl : a.length = (m0 :: ms).length + (m0 :: ms).length)
    (hlt : val w a < val w (m0 :: ms) * 2 ^ (w * (m0 :: ms).length)) (res : List Nat)
    (hres : res = if val w (m0 :: ms) ≤ val w (zzRedCrandMontCore w addf subf a (m0 :: ms) mp).1
        + 2 ^ (w * (m0 :: ms).length) * (zzRedCrandMontCore w addf subf a (m0 :: ms) mp).2
      then (zzSub2 w (zzRedCrandMontCore w addf subf a (m0 :: ms) mp).1 (m0 :: ms)).1
      else (zzRedCrandMontCore w addf subf a (m0 :: ms) mp).1) :
    (val w res * 2 ^ (w * (m0 :: ms).length)) % val w (m0 :: ms) = val w a % val w (m0 :: ms)
    ∧ val w res < val w (m0 :: ms) ∧ Wf w res ∧ res.length = (m0 :: ms).length := by
  obtain ⟨n', hn⟩ : ∃ n', ms.length = n' + 1 :=
    ⟨ms.length - 1, by have := List.length_pos_iff.mpr hne; omega⟩
  have hmod : Wf w (m0 :: ms) := Wf_cons.mpr ⟨hm0B, Mul.Wf_ones w ms hms⟩
  obtain ⟨t, t1, t2, t3, t4, t5⟩ := cmCore_spec w addf subf hadd hsub m0 ms a mp n' hn hms hm0 hm0B
    hmp ha hl hlt
  exact Mul.mont_finish w _ (m0 :: ms) res _ t (val w a) t3 hmod t4 t2 t1 t5 hlt hres


end Bee2V.C05.Red

/-
C05 — helper lemmas for PropsRed.lean (zzRedCrandMont, zzRedBarr).
-/
import Bee2V.C05.ModelRed
import Bee2V.C05.LemmasAdd
import Bee2V.C05.LemmasMul
import Bee2V.C05.LemmasGcd
import Mathlib.Tactic.Ring
import Mathlib.Tactic.Linarith
import Mathlib.Tactic.LinearCombination
namespace Bee2V.C05.Red
open Bee2V.C05 Bee2V.C05.Add

/-! ## word steps of zzRedCrandMont -/

/-- a correct "a[i+n] += t + carry" step -/
def CmAddOK (w : Nat) (f : Nat → Nat → Nat → Nat → Nat × Nat) : Prop :=
  ∀ x t c, x < 2 ^ w → t < 2 ^ w → c ≤ 1 →
    (f w x t c).1 + 2 ^ w * (f w x t c).2 = x + t + c ∧ (f w x t c).1 < 2 ^ w ∧ (f w x t c).2 ≤ 1

/-- a correct "a[i+1] -= t + borrow" step -/
def CmSubOK (w : Nat) (f : Nat → Nat → Nat → Nat → Nat × Nat) : Prop :=
  ∀ y t b, y < 2 ^ w → t < 2 ^ w → b ≤ 1 →
    (f w y t b).1 + t + b = y + 2 ^ w * (f w y t b).2 ∧ (f w y t b).1 < 2 ^ w ∧ (f w y t b).2 ≤ 1

theorem cmAddS_ok (w : Nat) : CmAddOK w cmAddS := fun x t c hx ht hc => fAdd2_ok w x t c hx ht hc
theorem cmSubS_ok (w : Nat) : CmSubOK w cmSubS := fun y t b hy ht hb => fSub_ok w y t b hy ht hb

theorem cmAddFB {B x t1 c : Nat} (hx : x < B) (ht1 : t1 < B) (hc : c ≤ 1) :
    let t := (t1 + c) % B
    let r : Nat × Nat := if t ≥ c then ((x + t) % B, wless01 ((x + t) % B) t) else (x, c)
    r.1 + B * r.2 = x + t1 + c ∧ r.1 < B ∧ r.2 ≤ 1 := by
  intro t r
  have hBc := mul01 B hc
  have ht : t = if t1 + c < B then t1 + c else t1 + c - B := mod_wrap (by omega)
  have htB : t < B := Nat.mod_lt _ (by omega)
  have hs : (x + t) % B = if x + t < B then x + t else x + t - B := mod_wrap (by omega)
  have hr : r = if t ≥ c then ((x + t) % B, if (x + t) % B < t then 1 else 0) else (x, c) := rfl
  clear_value t r
  rw [hs] at hr
  subst hr
  split_ifs at * <;> subst_vars <;> simp <;> omega

theorem cmSubFB {B y t2 b : Nat} (hy : y < B) (ht2 : t2 < B) (hb : b ≤ 1) :
    let t := (t2 + b) % B
    let r : Nat × Nat := if t ≥ b then ((y + (B - t % B)) % B, wless01 y t) else (y, b)
    r.1 + t2 + b = y + B * r.2 ∧ r.1 < B ∧ r.2 ≤ 1 := by
  intro t r
  have hBb := mul01 B hb
  have ht : t = if t2 + b < B then t2 + b else t2 + b - B := mod_wrap (by omega)
  have htB : t < B := Nat.mod_lt _ (by omega)
  have hs : (y + (B - t % B)) % B
      = if y + (B - t % B) < B then y + (B - t % B) else y + (B - t % B) - B := mod_wrap (by omega)
  have hr : r = if t ≥ b then ((y + (B - t % B)) % B, if y < t then 1 else 0) else (y, b) := rfl
  rw [Nat.mod_eq_of_lt htB] at hs hr
  clear_value t r
  rw [hs] at hr
  subst hr
  split_ifs at * <;> subst_vars <;> simp <;> omega

theorem cmAddF_ok (w : Nat) : CmAddOK w cmAddF := fun _ _ _ hx ht hc => cmAddFB hx ht hc
theorem cmSubF_ok (w : Nat) : CmSubOK w cmSubF := fun _ _ _ hy ht hb => cmSubFB hy ht hb

/-- with `c = B - mod[0]` and `mod[0] m* ≡ -1`: the low word of `t1 c` is a[i] -/
theorem crand_word {B m0 mp ai : Nat} (_hm0 : 0 < m0) (hm0B : m0 < B) (hmp : (m0 * mp + 1) % B = 0)
    (hai : ai < B) : ((ai * mp) % B * (B - m0)) % B = ai := by
  obtain ⟨q, hq⟩ := Nat.dvd_of_mod_eq_zero hmp
  have hd := Nat.div_add_mod (ai * mp) B
  generalize ai * mp / B = d at *
  generalize ai * mp % B = t at *
  obtain ⟨c, rfl⟩ : ∃ c, B = m0 + c := ⟨B - m0, by omega⟩
  rw [Nat.add_sub_cancel_left]
  have key : t * c + (m0 + c) * (d * c + ai * q) = ai + (m0 + c) * (ai * mp) := by
    have e1 : t * c + (m0 + c) * (d * c + ai * q) = ((m0 + c) * d + t) * c + ai * ((m0 + c) * q) := by
      ring
    rw [e1, hd, ← hq]; ring
  have h2 : (t * c + (m0 + c) * (d * c + ai * q)) % (m0 + c) = (ai + (m0 + c) * (ai * mp)) % (m0 + c) := by
    rw [key]
  rwa [Nat.add_mul_mod_self_left, Nat.add_mul_mod_self_left, Nat.mod_eq_of_lt hai] at h2

/-! ## lists -/

theorem val_set (w : Nat) (l : List Nat) (i v : Nat) (hi : i < l.length) :
    val w (l.set i v) + 2 ^ (w * i) * l.getD i 0 = val w l + 2 ^ (w * i) * v := by
  induction l generalizing i with
  | nil => simp at hi
  | cons x xs ih =>
    cases i with
    | zero => simp [val_cons]; omega
    | succ j =>
      have := ih j (by simpa using hi)
      simp only [List.set_cons_succ, val_cons, List.getD_cons_succ, Mul.powS]
      have h2 : 2 ^ w * (val w (xs.set j v) + 2 ^ (w * j) * xs.getD j 0)
          = 2 ^ w * (val w xs + 2 ^ (w * j) * v) := by rw [this]
      simp only [Nat.mul_add, ← Nat.mul_assoc] at h2
      omega

theorem Wf_set {w : Nat} {l : List Nat} (hl : Wf w l) (i v : Nat) (hv : v < 2 ^ w) :
    Wf w (l.set i v) := by
  intro x hx
  rcases List.mem_or_eq_of_mem_set hx with h | h
  · exact hl x h
  · rw [h]; exact hv

theorem getD_lt {w : Nat} {l : List Nat} (hl : Wf w l) (i : Nat) : l.getD i 0 < 2 ^ w := by
  rw [List.getD_eq_getElem?_getD]
  cases h : l[i]? with
  | none => simp
  | some x => simp; exact hl x (List.mem_of_getElem? h)


/-! ## the main loop of zzRedCrandMont -/

theorem getD_set_ne (l : List Nat) (i j v : Nat) (h : i ≠ j) :
    (l.set i v).getD j 0 = l.getD j 0 := by
  rw [List.getD_eq_getElem?_getD, List.getD_eq_getElem?_getD, List.getElem?_set_ne h]

/-- invariant of the loop on the window `a + i` (`n + k` words, `k` iterations left), with
    `Z = val(window) + carry B^n - borrow B`:  `B^k Z' = Z + K (B^n - c)`, `K < B^k` -/
theorem cmLoop_spec (w : Nat) (addf subf : Nat → Nat → Nat → Nat → Nat × Nat)
    (hadd : CmAddOK w addf) (hsub : CmSubOK w subf) (m0 mp n' : Nat)
    (hm0 : 0 < m0) (hm0B : m0 < 2 ^ w) (hmp : (m0 * mp + 1) % 2 ^ w = 0) :
    ∀ k a carry borrow, Wf w a → a.length = (n' + 2) + k → carry ≤ 1 → borrow ≤ 1 →
      ∃ K : Nat, K < 2 ^ (w * k)
        ∧ Wf w ((zzRedCrandMontLoop w addf subf (2 ^ w - m0) mp (n' + 2) k a carry borrow).1.drop k)
        ∧ ((zzRedCrandMontLoop w addf subf (2 ^ w - m0) mp (n' + 2) k a carry borrow).1.drop k).length
            = n' + 2
        ∧ (zzRedCrandMontLoop w addf subf (2 ^ w - m0) mp (n' + 2) k a carry borrow).2.1 ≤ 1
        ∧ (zzRedCrandMontLoop w addf subf (2 ^ w - m0) mp (n' + 2) k a carry borrow).2.2 ≤ 1
        ∧ ((2 : ℤ) ^ (w * k)) *
            ((val w ((zzRedCrandMontLoop w addf subf (2 ^ w - m0) mp (n' + 2) k a carry borrow).1.drop k) : ℤ)
              + (zzRedCrandMontLoop w addf subf (2 ^ w - m0) mp (n' + 2) k a carry borrow).2.1
                  * 2 ^ (w * (n' + 2))
              - (zzRedCrandMontLoop w addf subf (2 ^ w - m0) mp (n' + 2) k a carry borrow).2.2 * 2 ^ w)
          = ((val w a : ℤ) + carry * 2 ^ (w * (n' + 2)) - borrow * 2 ^ w)
            + K * ((2 : ℤ) ^ (w * (n' + 2)) - ((2 : ℤ) ^ w - m0)) := by
  intro k
  induction k with
  | zero =>
    intro a carry borrow ha hl hc hb
    simp only [zzRedCrandMontLoop, List.drop_zero]
    exact ⟨0, by simp, ha, hl, hc, hb, by simp⟩
  | succ k ih =>
    intro a carry borrow ha hl hc hb
    -- a = ai :: y :: a''  (at least 3 words)
    obtain ⟨ai, a', rfl⟩ : ∃ ai a', a = ai :: a' := by
      cases a with
      | nil => simp at hl
      | cons x xs => exact ⟨x, xs, rfl⟩
    obtain ⟨hai, ha'⟩ := Wf_cons.mp ha
    have hl' : a'.length = (n' + 1) + (k + 1) := by simp at hl; omega
    have hB : 0 < 2 ^ w := Nat.two_pow_pos w
    -- the multiplier and the product
    have ht1 : wmul w ai mp < 2 ^ w := Nat.mod_lt _ hB
    have hcl : 2 ^ w - m0 < 2 ^ w := by omega
    have hprodlt : wmul w ai mp * (2 ^ w - m0) < 2 ^ (2 * w) := by
      rw [Nat.two_mul, Nat.pow_add]; exact Nat.mul_lt_mul'' ht1 hcl
    have hprod : dmul w (wmul w ai mp) (2 ^ w - m0) = wmul w ai mp * (2 ^ w - m0) :=
      Nat.mod_eq_of_lt hprodlt
    have hlow : (wmul w ai mp * (2 ^ w - m0)) % 2 ^ w = ai := crand_word hm0 hm0B hmp hai
    have hhi_lt : wmul w ai mp * (2 ^ w - m0) / 2 ^ w < 2 ^ w := by
      apply Nat.div_lt_of_lt_mul
      rw [Nat.two_mul, Nat.pow_add] at hprodlt; exact hprodlt
    have hhi : dhi w (dmul w (wmul w ai mp) (2 ^ w - m0)) = wmul w ai mp * (2 ^ w - m0) / 2 ^ w := by
      show _ / 2 ^ w % 2 ^ w = _
      rw [hprod, Nat.mod_eq_of_lt hhi_lt]
    have hdm := Nat.div_add_mod (wmul w ai mp * (2 ^ w - m0)) (2 ^ w)
    rw [hlow] at hdm
    -- unfold one iteration
    unfold zzRedCrandMontLoop
    simp only [List.getD_cons_succ, List.set_cons_succ, hhi]
    generalize wmul w ai mp = t1 at *
    generalize ht2 : t1 * (2 ^ w - m0) / 2 ^ w = t2 at *
    have hx := getD_lt ha' (n' + 1)
    obtain ⟨p1, p2, p3⟩ := hadd (a'.getD (n' + 1) 0) t1 carry hx ht1 hc
    generalize addf w (a'.getD (n' + 1) 0) t1 carry = r1 at *
    have hy1 : (a'.set (n' + 1) r1.1).getD 0 0 = a'.getD 0 0 := getD_set_ne _ _ _ _ (by omega)
    rw [hy1]
    have hy := getD_lt ha' 0
    obtain ⟨q1, q2, q3⟩ := hsub (a'.getD 0 0) t2 borrow hy hhi_lt hb
    generalize subf w (a'.getD 0 0) t2 borrow = r2 at *
    have v1 := val_set w a' (n' + 1) r1.1 (by omega)
    have v2 := val_set w (a'.set (n' + 1) r1.1) 0 r2.1 (by simp; omega)
    rw [hy1] at v2
    simp only [Nat.mul_zero, Nat.pow_zero, Nat.one_mul] at v2
    have hW : Wf w ((a'.set (n' + 1) r1.1).set 0 r2.1) := Wf_set (Wf_set ha' _ _ p2) _ _ q2
    have hL : ((a'.set (n' + 1) r1.1).set 0 r2.1).length = (n' + 2) + k := by simp; omega
    generalize (a'.set (n' + 1) r1.1).set 0 r2.1 = rest at *
    obtain ⟨K, k1, k2, k3, k4, k5, k6⟩ := ih rest r1.2 r2.2 hW hL p3 q3
    generalize zzRedCrandMontLoop w addf subf (2 ^ w - m0) mp (n' + 2) k rest r1.2 r2.2 = r at *
    refine ⟨t1 + 2 ^ w * K, ?_, by simpa using k2, by simpa using k3, k4, k5, ?_⟩
    · rw [Mul.powS]
      have : 2 ^ w * (K + 1) ≤ 2 ^ w * 2 ^ (w * k) := Nat.mul_le_mul_left _ k1
      rw [Nat.mul_add] at this
      omega
    · simp only [List.drop_succ_cons, val_cons]
      have hpk : (2 : ℤ) ^ (w * (k + 1)) = 2 ^ w * 2 ^ (w * k) := by
        rw [Nat.mul_succ, pow_add, mul_comm]
      have hpn : (2 : ℤ) ^ (w * (n' + 2)) = 2 ^ w * 2 ^ (w * (n' + 1)) := by
        rw [show w * (n' + 2) = w * (n' + 1) + w by ring, pow_add, mul_comm]
      have hcast : ((2 ^ w - m0 : Nat) : ℤ) = (2 : ℤ) ^ w - m0 := by
        rw [Nat.cast_sub (by omega)]; push_cast; ring
      have hdmZ : (2 : ℤ) ^ w * t2 + ai = t1 * ((2 : ℤ) ^ w - m0) := by
        rw [← hcast]; exact_mod_cast hdm
      have p1Z : (r1.1 : ℤ) + 2 ^ w * r1.2 = (a'.getD (n' + 1) 0 : ℤ) + t1 + carry := by
        exact_mod_cast p1
      have q1Z : (r2.1 : ℤ) + t2 + borrow = (a'.getD 0 0 : ℤ) + 2 ^ w * r2.2 := by
        exact_mod_cast q1
      have v1Z : (val w (a'.set (n' + 1) r1.1) : ℤ) + 2 ^ (w * (n' + 1)) * (a'.getD (n' + 1) 0 : ℤ)
          = val w a' + 2 ^ (w * (n' + 1)) * r1.1 := by exact_mod_cast v1
      have v2Z : (val w rest : ℤ) + (a'.getD 0 0 : ℤ) = val w (a'.set (n' + 1) r1.1) + r2.1 := by
        exact_mod_cast v2
      push_cast
      rw [hpk, mul_assoc, k6, hpn]
      linear_combination (2 : ℤ) ^ w * v2Z + (2 : ℤ) ^ w * v1Z
        + (2 : ℤ) ^ w * (2 : ℤ) ^ (w * (n' + 1)) * p1Z + (2 : ℤ) ^ w * q1Z - hdmZ


/-! ## zzRedCrandMont: from the loop to the Montgomery end game -/

theorem wneg_word {w m0 : Nat} (h0 : 0 < m0) (hB : m0 < 2 ^ w) : wneg w m0 = 2 ^ w - m0 := by
  show (2 ^ w - m0 % 2 ^ w) % 2 ^ w = 2 ^ w - m0
  rw [Nat.mod_eq_of_lt hB, Nat.mod_eq_of_lt (by omega)]

theorem wsub01 {w c s : Nat} (hw : 2 ≤ 2 ^ w) (hc : c ≤ 1) (hs : s ≤ c) : wsub w c s = c - s := by
  show (c + (2 ^ w - s % 2 ^ w)) % 2 ^ w = c - s
  rw [Nat.mod_eq_of_lt (show s < 2 ^ w by omega)]
  obtain rfl | rfl : c = 0 ∨ c = 1 := by omega
  · have : s = 0 := by omega
    subst this; simp
  · obtain rfl | rfl : s = 0 ∨ s = 1 := by omega
    · rw [Nat.sub_zero, Nat.add_mod_right, Nat.mod_eq_of_lt (by omega)]
    · have : 1 + (2 ^ w - 1) = 2 ^ w := by omega
      rw [this, Nat.mod_self]

/-- value of the Crandall modulus `m0 :: (B-1) … (B-1)` -/
theorem val_crand (w m0 : Nat) (ms : List Nat) (hms : ∀ x ∈ ms, x = 2 ^ w - 1) (hB : m0 < 2 ^ w) :
    val w (m0 :: ms) + (2 ^ w - m0) = 2 ^ (w * (ms.length + 1)) := by
  have h := Mul.val_ones w ms hms
  have h2 : 2 ^ w * (val w ms + 1) = 2 ^ w * 2 ^ (w * ms.length) := by rw [h]
  rw [Nat.mul_add] at h2
  rw [val_cons, Mul.powS]
  omega

theorem cmCore_spec (w : Nat) (addf subf : Nat → Nat → Nat → Nat → Nat × Nat)
    (hadd : CmAddOK w addf) (hsub : CmSubOK w subf) (m0 : Nat) (ms a : List Nat) (mp n' : Nat)
    (hn : ms.length = n' + 1) (hms : ∀ x ∈ ms, x = 2 ^ w - 1)
    (hm0 : 0 < m0) (hm0B : m0 < 2 ^ w) (hmp : (m0 * mp + 1) % 2 ^ w = 0)
    (ha : Wf w a) (hl : a.length = (m0 :: ms).length + (m0 :: ms).length)
    (_hlt : val w a < val w (m0 :: ms) * 2 ^ (w * (m0 :: ms).length)) :
    ∃ t : Nat, t < 2 ^ (w * (m0 :: ms).length)
      ∧ (zzRedCrandMontCore w addf subf a (m0 :: ms) mp).2 ≤ 1
      ∧ Wf w (zzRedCrandMontCore w addf subf a (m0 :: ms) mp).1
      ∧ (zzRedCrandMontCore w addf subf a (m0 :: ms) mp).1.length = (m0 :: ms).length
      ∧ 2 ^ (w * (m0 :: ms).length) * val w (zzRedCrandMontCore w addf subf a (m0 :: ms) mp).1
          + 2 ^ (w * ((m0 :: ms).length + (m0 :: ms).length))
            * (zzRedCrandMontCore w addf subf a (m0 :: ms) mp).2
        = val w a + t * val w (m0 :: ms) := by
  have hlen : (m0 :: ms).length = n' + 2 := by simp [hn]
  have hB2 : 2 ≤ 2 ^ w := by omega
  have hvm := val_crand w m0 ms hms hm0B
  rw [hn] at hvm
  rw [hlen] at hl ⊢
  unfold zzRedCrandMontCore
  simp only [hlen, List.getD_cons_zero, wneg_word hm0 hm0B]
  obtain ⟨K, k1, k2, k3, k4, k5, k6⟩ := cmLoop_spec w addf subf hadd hsub m0 mp n' hm0 hm0B hmp
    (n' + 2) a 0 0 ha hl (by omega) (by omega)
  generalize zzRedCrandMontLoop w addf subf (2 ^ w - m0) mp (n' + 2) (n' + 2) a 0 0 = r at *
  generalize hhi : r.1.drop (n' + 2) = hi at *
  -- split hi = head :: tail
  obtain ⟨h0, tl, rfl⟩ : ∃ h0 tl, hi = h0 :: tl := by
    cases hi with
    | nil => simp at k3
    | cons x xs => exact ⟨x, xs, rfl⟩
  obtain ⟨hh0, htl⟩ := Wf_cons.mp k2
  have hltl : tl.length = n' + 1 := by simpa using k3
  simp only [List.drop_succ_cons, List.drop_zero, List.take_succ_cons, List.take_zero,
    List.singleton_append, zzSubW2]
  obtain ⟨s1, s2, s3, s4, s5⟩ := zzSubW_spec w tl r.2.2 htl (by omega)
  have s3' := s3 (by intro h; rw [h] at hltl; simp at hltl)
  rw [hltl] at s1
  generalize zzSubW w tl r.2.2 = s at *
  have hvs := val_lt s4
  rw [s5, hltl] at hvs
  have hvt := val_lt htl
  rw [hltl] at hvt
  -- integer bookkeeping
  have hP : (2 : ℤ) ^ (w * (n' + 2)) = 2 ^ w * 2 ^ (w * (n' + 1)) := by
    rw [show w * (n' + 2) = w * (n' + 1) + w by ring, pow_add, mul_comm]
  have s1Z : (val w s.1 : ℤ) + r.2.2 = val w tl + 2 ^ (w * (n' + 1)) * s.2 := by exact_mod_cast s1
  have hv : (val w (h0 :: tl) : ℤ) = h0 + 2 ^ w * val w tl := by rw [val_cons]; push_cast; ring
  have hvm2 : (2 : ℤ) ^ (w * (n' + 2)) - ((2 : ℤ) ^ w - m0) = (val w (m0 :: ms) : ℤ) := by
    have h1 : ((2 ^ w - m0 : Nat) : ℤ) = (2 : ℤ) ^ w - m0 := by
      rw [Nat.cast_sub (by omega)]; push_cast; ring
    have h2 : ((val w (m0 :: ms) + (2 ^ w - m0) : Nat) : ℤ) = ((2 ^ (w * (n' + 1 + 1)) : Nat) : ℤ) := by
      rw [hvm]
    push_cast at h2
    rw [h1] at h2
    linarith
  rw [hvm2, hv] at k6
  simp only [Nat.cast_zero, zero_mul, add_zero, sub_zero] at k6
  have hvsZ : (val w s.1 : ℤ) < 2 ^ (w * (n' + 1)) := by exact_mod_cast hvs
  have hh0Z : (h0 : ℤ) < 2 ^ w := by exact_mod_cast hh0
  have hBpos : (0 : ℤ) < 2 ^ w := by positivity
  have hPpos : (0 : ℤ) < 2 ^ (w * (n' + 2)) := by positivity
  -- S = val hi' + (carry - bo) P
  have hS : (2 : ℤ) ^ (w * (n' + 2))
      * ((h0 : ℤ) + 2 ^ w * val w s.1 + ((r.2.1 : ℤ) - s.2) * 2 ^ (w * (n' + 2)))
      = val w a + K * val w (m0 :: ms) := by
    rw [← k6, hP]
    linear_combination (2 ^ w * 2 ^ (w * (n' + 1))) * (2 : ℤ) ^ w * s1Z
  have hlow : (h0 : ℤ) + 2 ^ w * val w s.1 < 2 ^ (w * (n' + 2)) := by
    rw [hP]
    have : (2 : ℤ) ^ w * (val w s.1 + 1) ≤ 2 ^ w * 2 ^ (w * (n' + 1)) := by
      apply mul_le_mul_of_nonneg_left _ hBpos.le; linarith
    linarith
  have hge : (s.2 : ℤ) ≤ r.2.1 := by
    by_contra hcon
    have h1 : (r.2.1 : ℤ) - s.2 ≤ -1 := by omega
    have h2 : ((r.2.1 : ℤ) - s.2) * 2 ^ (w * (n' + 2)) ≤ (-1) * 2 ^ (w * (n' + 2)) :=
      mul_le_mul_of_nonneg_right h1 hPpos.le
    have h3 : (h0 : ℤ) + 2 ^ w * val w s.1 + ((r.2.1 : ℤ) - s.2) * 2 ^ (w * (n' + 2)) < 0 := by
      linarith
    have h4 := mul_neg_of_pos_of_neg hPpos h3
    rw [hS] at h4
    have hA : (0 : ℤ) ≤ val w a + K * val w (m0 :: ms) := by positivity
    linarith
  have hle : s.2 ≤ r.2.1 := by exact_mod_cast hge
  refine ⟨K, k1, ?_, Wf_cons.mpr ⟨hh0, s4⟩, by simp [s5, hltl], ?_⟩
  · rw [wsub01 hB2 k4 hle]; omega
  · rw [wsub01 hB2 k4 hle]
    have hfin : (((2 ^ (w * (n' + 2)) * val w (h0 :: s.1)
        + 2 ^ (w * (n' + 2 + (n' + 2))) * (r.2.1 - s.2) : Nat)) : ℤ)
        = ((val w a + K * val w (m0 :: ms) : Nat) : ℤ) := by
      rw [Nat.mul_add w, Nat.pow_add, val_cons]
      push_cast [Nat.cast_sub hle]
      linear_combination hS
    exact_mod_cast hfin


/-! ## uniqueness of the Montgomery residue for an odd modulus -/

theorem odd_of_mont {w m0 mp : Nat} (hw : 0 < w) (hmp : (m0 * mp + 1) % 2 ^ w = 0) : m0 % 2 = 1 := by
  obtain ⟨q, hq⟩ := Nat.dvd_of_mod_eq_zero hmp
  obtain ⟨k, rfl⟩ : ∃ k, w = k + 1 := ⟨w - 1, by omega⟩
  by_contra h
  obtain ⟨j, rfl⟩ : ∃ j, m0 = 2 * j := ⟨m0 / 2, by omega⟩
  have e1 : 2 * j * mp = 2 * (j * mp) := by ring
  have e2 : 2 ^ (k + 1) * q = 2 * (2 ^ k * q) := by rw [Nat.pow_succ]; ring
  omega

theorem mont_unique {w n M x y : Nat} (hM : M % 2 = 1)
    (h : (x * 2 ^ (w * n)) % M = (y * 2 ^ (w * n)) % M) (hx : x < M) (hy : y < M) : x = y := by
  have hc : Nat.gcd M (2 ^ (w * n)) = 1 :=
    Nat.Coprime.pow_right _ (Nat.coprime_comm.mp (Gcd.coprime_two_of_odd hM))
  have h2 : x ≡ y [MOD M] := Nat.ModEq.cancel_right_of_coprime hc h
  exact Nat.ModEq.eq_of_lt_of_lt h2 hx hy


/-- both editions, given that the final conditional subtraction is the Montgomery one -/
theorem crandMont_finish (w : Nat) (addf subf : Nat → Nat → Nat → Nat → Nat × Nat)
    (hadd : CmAddOK w addf) (hsub : CmSubOK w subf) (m0 : Nat) (ms a : List Nat) (mp : Nat)
    (hms : ∀ x ∈ ms, x = 2 ^ w - 1) (hne : ms ≠ [])
    (hm0 : 0 < m0) (hm0B : m0 < 2 ^ w) (hmp : (m0 * mp + 1) % 2 ^ w = 0)
    (ha : Wf w a) (hl : a.length = (m0 :: ms).length + (m0 :: ms).length)
    (hlt : val w a < val w (m0 :: ms) * 2 ^ (w * (m0 :: ms).length)) (res : List Nat)
    (hres : res = if val w (m0 :: ms) ≤ val w (zzRedCrandMontCore w addf subf a (m0 :: ms) mp).1
        + 2 ^ (w * (m0 :: ms).length) * (zzRedCrandMontCore w addf subf a (m0 :: ms) mp).2
      then (zzSub2 w (zzRedCrandMontCore w addf subf a (m0 :: ms) mp).1 (m0 :: ms)).1
      else (zzRedCrandMontCore w addf subf a (m0 :: ms) mp).1) :
    (val w res * 2 ^ (w * (m0 :: ms).length)) % val w (m0 :: ms) = val w a % val w (m0 :: ms)
    ∧ val w res < val w (m0 :: ms) ∧ Wf w res ∧ res.length = (m0 :: ms).length := by
  obtain ⟨n', hn⟩ : ∃ n', ms.length = n' + 1 :=
    ⟨ms.length - 1, by have := List.length_pos_iff.mpr hne; omega⟩
  have hmod : Wf w (m0 :: ms) := Wf_cons.mpr ⟨hm0B, Mul.Wf_ones w ms hms⟩
  obtain ⟨t, t1, t2, t3, t4, t5⟩ := cmCore_spec w addf subf hadd hsub m0 ms a mp n' hn hms hm0 hm0B
    hmp ha hl hlt
  exact Mul.mont_finish w _ (m0 :: ms) res _ t (val w a) t3 hmod t4 t2 t1 t5 hlt hres



/-! ## Barrett reduction: the quotient estimate (pure arithmetic)

`Q1 = B^{n-1}`, `P1 = B^{n+1}`, `R = B^{2n} = Q1 P1`, `μ = R / M`, `A1 = A / Q1`,
`q̂ = A1 μ / P1`: then `q̂ M ≤ A < (q̂ + 3) M`. -/

theorem barrett_estimate {A M Q1 P1 : Nat} (hQ : 0 < Q1) (hQM : Q1 ≤ M) (hA : A < Q1 * P1) :
    (A / Q1 * (Q1 * P1 / M) / P1) * M ≤ A
    ∧ A < ((A / Q1 * (Q1 * P1 / M) / P1) + 3) * M := by
  have hM : 0 < M := by omega
  have hP : 0 < P1 := by
    rcases Nat.eq_zero_or_pos P1 with h | h
    · rw [h] at hA; simp at hA
    · exact h
  -- the three divisions
  have d1 := Nat.div_add_mod (Q1 * P1) M
  have d1r := Nat.mod_lt (Q1 * P1) hM
  have d2 := Nat.div_add_mod A Q1
  have d2r := Nat.mod_lt A hQ
  generalize hmu : Q1 * P1 / M = mu at *
  generalize hA1 : A / Q1 = A1 at *
  have d3 := Nat.div_add_mod (A1 * mu) P1
  have d3r := Nat.mod_lt (A1 * mu) hP
  generalize hq : A1 * mu / P1 = qh at *
  generalize Q1 * P1 % M = r1 at *
  generalize A % Q1 = r2 at *
  generalize A1 * mu % P1 = r3 at *
  -- A1 < P1, mu ≤ P1
  have hA1lt : A1 < P1 := by
    have : Q1 * A1 < Q1 * P1 := by omega
    exact Nat.lt_of_mul_lt_mul_left this
  have hmule : mu ≤ P1 := by
    have h1 : M * mu ≤ M * P1 := by
      have : Q1 * P1 ≤ M * P1 := Nat.mul_le_mul_right _ hQM
      omega
    exact Nat.le_of_mul_le_mul_left h1 hM
  constructor
  · -- upper estimate
    have h1 : P1 * (qh * M) ≤ P1 * A := by
      calc P1 * (qh * M) = (P1 * qh) * M := by ring
        _ ≤ (A1 * mu) * M := Nat.mul_le_mul_right _ (by omega)
        _ = A1 * (M * mu) := by ring
        _ ≤ A1 * (Q1 * P1) := Nat.mul_le_mul_left _ (by omega)
        _ = (Q1 * A1) * P1 := by ring
        _ ≤ A * P1 := Nat.mul_le_mul_right _ (by omega)
        _ = P1 * A := by ring
    exact Nat.le_of_mul_le_mul_left h1 hP
  · -- lower estimate
    have h1 : P1 * A < P1 * ((qh + 3) * M) := by
      have e1 : A + 1 ≤ Q1 * (A1 + 1) := by rw [Nat.mul_add]; omega
      have e2 : Q1 * P1 + 1 ≤ M * (mu + 1) := by rw [Nat.mul_add]; omega
      have e3 : (mu + 1) * (A1 + 1) ≤ (qh + 3) * P1 := by
        have : (mu + 1) * (A1 + 1) = A1 * mu + A1 + mu + 1 := by ring
        have : (qh + 3) * P1 = P1 * qh + 3 * P1 := by ring
        omega
      calc P1 * A < P1 * (A + 1) := by
            apply Nat.mul_lt_mul_of_pos_left _ hP; omega
        _ ≤ P1 * (Q1 * (A1 + 1)) := Nat.mul_le_mul_left _ e1
        _ = (Q1 * P1) * (A1 + 1) := by ring
        _ ≤ (M * (mu + 1)) * (A1 + 1) := Nat.mul_le_mul_right _ (by omega)
        _ = M * ((mu + 1) * (A1 + 1)) := by ring
        _ ≤ M * ((qh + 3) * P1) := Nat.mul_le_mul_left _ e3
        _ = P1 * ((qh + 3) * M) := by ring
    exact Nat.lt_of_mul_lt_mul_left h1

/-! ## lists: take / drop / toWords as mod / div -/

theorem val_take_mod (w : Nat) (l : List Nat) (k : Nat) (hl : Wf w l) (hk : k ≤ l.length) :
    val w (l.take k) = val w l % 2 ^ (w * k) ∧ val w (l.drop k) = val w l / 2 ^ (w * k) := by
  have h := val_take_drop w l k hk
  have hlt := val_lt (Wf_take hl k)
  rw [List.length_take, Nat.min_eq_left hk] at hlt
  have := divmod_of_eq hlt h.symm
  exact ⟨this.1.symm, this.2.symm⟩

theorem val_toWords (w n v : Nat) : val w (toWords w n v) = v % 2 ^ (w * n) := by
  induction n generalizing v with
  | zero => simp [toWords, val, Nat.mod_one]
  | succ n ih =>
    rw [toWords, val_cons, ih, Mul.powS, Nat.mod_mul]

theorem wsub_le {w x y : Nat} (hx : x < 2 ^ w) (hy : y ≤ x) : wsub w x y = x - y := by
  show (x + (2 ^ w - y % 2 ^ w)) % 2 ^ w = x - y
  rw [Nat.mod_eq_of_lt (show y < 2 ^ w by omega)]
  have : x + (2 ^ w - y) = (x - y) + 2 ^ w := by omega
  rw [this, Nat.add_mod_right, Nat.mod_eq_of_lt (by omega)]


/-! ## zzRedBarr: the common part -/

theorem barrStart_spec (w : Nat) (mod : List Nat) (n' : Nat) (hmod : Wf w mod)
    (hn : mod.length = n' + 1) (hlo : 2 ^ (w * n') ≤ val w mod) :
    val w (zzRedBarrStart w mod) = 2 ^ (w * (2 * mod.length)) / val w mod
    ∧ Wf w (zzRedBarrStart w mod) ∧ (zzRedBarrStart w mod).length = mod.length + 2 := by
  unfold zzRedBarrStart
  refine ⟨?_, toWords_Wf _ _ _, toWords_length _ _ _⟩
  rw [val_toWords, hn]
  apply Nat.mod_eq_of_lt
  have hQ : 0 < 2 ^ (w * n') := Nat.two_pow_pos _
  have e : 2 ^ (w * (2 * (n' + 1))) = 2 ^ (w * n') * 2 ^ (w * (n' + 2)) := by
    rw [← Nat.pow_add]; congr 1; ring
  have h1 : 2 ^ (w * (2 * (n' + 1))) / val w mod ≤ 2 ^ (w * (2 * (n' + 1))) / 2 ^ (w * n') :=
    Nat.div_le_div_left hlo hQ
  rw [e, Nat.mul_div_cancel_left _ hQ] at h1
  rw [e]
  have h2 : 2 ^ (w * (n' + 2)) < 2 ^ (w * (n' + 1 + 2)) := by
    rcases Nat.eq_zero_or_pos w with h | h
    · subst h
      -- w = 0: all words are 0, so val mod = 0 < 1 = 2^0 contradicts hlo
      exfalso
      have := val_lt hmod
      simp at this hlo
      omega
    · exact Nat.pow_lt_pow_right (by omega) (by nlinarith)
  omega

theorem barrCommon_spec (w : Nat) (hw : 2 ≤ w) (a mod : List Nat) (n' : Nat)
    (hmod : Wf w mod) (hn : mod.length = n' + 1) (ha : Wf w a) (hl : a.length = 2 * (n' + 1))
    (hlo : 2 ^ (w * n') ≤ val w mod) :
    Wf w (zzRedBarrCommon w a mod (zzRedBarrStart w mod))
    ∧ (zzRedBarrCommon w a mod (zzRedBarrStart w mod)).length = n' + 2
    ∧ val w (zzRedBarrCommon w a mod (zzRedBarrStart w mod)) < 3 * val w mod
    ∧ ∃ qh, val w (zzRedBarrCommon w a mod (zzRedBarrStart w mod)) + qh * val w mod = val w a := by
  obtain ⟨p1, p2, p3⟩ := barrStart_spec w mod n' hmod hn hlo
  have hM := val_lt hmod
  rw [hn] at hM p1 p3
  have hA := val_lt ha
  rw [hl] at hA
  have hQ : 0 < 2 ^ (w * n') := Nat.two_pow_pos _
  have eR : 2 ^ (w * (2 * (n' + 1))) = 2 ^ (w * n') * 2 ^ (w * (n' + 2)) := by
    rw [← Nat.pow_add]; congr 1; ring
  have eP : 2 ^ (w * (n' + 2)) = 2 ^ w * 2 ^ (w * (n' + 1)) := by
    rw [← Nat.pow_add]; congr 1; ring
  have hB4 : 4 ≤ 2 ^ w := by
    calc 4 = 2 ^ 2 := rfl
      _ ≤ 2 ^ w := Nat.pow_le_pow_right (by omega) hw
  rw [eR] at hA p1
  obtain ⟨est1, est2⟩ := barrett_estimate (A := val w a) (M := val w mod) hQ hlo hA
  unfold zzRedBarrCommon
  simp only [hn, Nat.add_sub_cancel]
  generalize zzRedBarrStart w mod = param at *
  -- q = a[n-1..] * param
  obtain ⟨x1, x2⟩ := val_take_mod w a n' ha (by omega)
  have xW := Wf_drop ha n'
  have xL : (a.drop n').length = n' + 2 := by rw [List.length_drop, hl]; omega
  obtain ⟨q1, q2, q3⟩ := Mul.zzMul_spec w (a.drop n') param xW p2
  rw [x2, p1] at q1
  rw [xL, p3] at q3
  generalize zzMul w (a.drop n') param = q at *
  -- q̂ = q div B^{n+1}
  obtain ⟨_, y2⟩ := val_take_mod w q (n' + 2) q2 (by omega)
  have yW := Wf_drop q2 (n' + 2)
  have yL : (q.drop (n' + 2)).length = n' + 3 := by rw [List.length_drop, q3]; omega
  rw [q1] at y2
  obtain ⟨m1, m2, m3⟩ := Mul.zzMul_spec w (q.drop (n' + 2)) mod yW hmod
  rw [y2] at m1
  rw [yL, hn] at m3
  generalize zzMul w (q.drop (n' + 2)) mod = qm at *
  -- the truncated subtraction
  obtain ⟨t1, _⟩ := val_take_mod w qm (n' + 2) m2 (by omega)
  have tW := Wf_take m2 (n' + 2)
  have tL : (qm.take (n' + 2)).length = n' + 2 := by rw [List.length_take, m3]; omega
  obtain ⟨u1, _⟩ := val_take_mod w a (n' + 2) ha (by omega)
  have uW := Wf_take ha (n' + 2)
  have uL : (a.take (n' + 2)).length = n' + 2 := by rw [List.length_take, hl]; omega
  obtain ⟨s1, s2, s3, s4⟩ := zzSub2_lem w (a.take (n' + 2)) (qm.take (n' + 2)) uW tW (by rw [uL, tL])
  rw [uL] at s1 s4
  rw [t1, m1, u1] at s1
  have hs := val_lt s3
  rw [s4] at hs
  generalize zzSub2 w (a.take (n' + 2)) (qm.take (n' + 2)) = s at *
  generalize hqh : val w a / 2 ^ (w * n') * (2 ^ (w * n') * 2 ^ (w * (n' + 2)) / val w mod)
    / 2 ^ (w * (n' + 2)) = qh at *
  -- r = A - q̂ M < 3 M ≤ B^{n+1}
  have h3M : 3 * val w mod ≤ 2 ^ (w * (n' + 2)) := by
    rw [eP]
    have : 4 * 2 ^ (w * (n' + 1)) ≤ 2 ^ w * 2 ^ (w * (n' + 1)) := Nat.mul_le_mul_right _ hB4
    omega
  have dA := Nat.div_add_mod (val w a) (2 ^ (w * (n' + 2)))
  have dY := Nat.div_add_mod (qh * val w mod) (2 ^ (w * (n' + 2)))
  generalize val w a / 2 ^ (w * (n' + 2)) = ka at *
  generalize val w a % 2 ^ (w * (n' + 2)) = ra at *
  generalize qh * val w mod / 2 ^ (w * (n' + 2)) = ky at *
  generalize qh * val w mod % 2 ^ (w * (n' + 2)) = ry at *
  obtain ⟨r, hr⟩ : ∃ r, val w a = qh * val w mod + r :=
    ⟨val w a - qh * val w mod, by omega⟩
  have hr3 : r < 3 * val w mod := by
    have : (qh + 3) * val w mod = qh * val w mod + 3 * val w mod := by ring
    omega
  generalize 2 ^ (w * (n' + 2)) = P at *
  have key : val w s.1 = r := by
    have e2 : P * (ky + s.2) = P * ky + P * s.2 := Nat.mul_add _ _ _
    exact (cons_inj_aux (B := P) (x := val w s.1) (y := r) (u := ka) (v := ky + s.2) hs
      (by omega) (by omega)).1
  refine ⟨s3, s4, ?_, qh, ?_⟩
  · rw [key]; exact hr3
  · rw [key]; omega


/-! ## zzRedBarr: the corrections -/

theorem drop_last (l : List Nat) (k : Nat) (h : l.length = k + 1) : l.drop k = [l.getD k 0] := by
  induction k generalizing l with
  | zero =>
    match l, h with
    | [x], _ => rfl
  | succ k ih =>
    match l, h with
    | x :: xs, h => simpa using ih xs (by simpa using h)

/-- an (n+1)-word number as low n words + top word -/
theorem val_split_top (w : Nat) (c : List Nat) (n : Nat) (hc : Wf w c) (hl : c.length = n + 1) :
    val w c = val w (c.take n) + 2 ^ (w * n) * c.getD n 0
    ∧ Wf w (c.take n) ∧ (c.take n).length = n ∧ c.getD n 0 < 2 ^ w := by
  have h := val_take_drop w c n (by omega)
  rw [drop_last c n hl] at h
  refine ⟨by simpa [val] using h, Wf_take hc n, by rw [List.length_take, hl]; omega, getD_lt hc n⟩

theorem wwCmp2_safe_ge (w : Nat) (a b : List Nat) (ha : Wf w a) (hb : Wf w b) :
    wwCmp2_safe a b ≥ 0 ↔ val w b ≤ val w a := by
  rw [wwCmp2_safe_eq_fast, wwCmp2_fast_eq w a b ha hb, cmp3_nonneg]

/-- one iteration of the FAST while loop: `a[n] -= zzSub2(a, mod, n)` subtracts mod -/
theorem barrFastStep (w : Nat) (c mod : List Nat) (n : Nat) (hc : Wf w c) (hmod : Wf w mod)
    (hn : mod.length = n) (hl : c.length = n + 1) (hge : val w mod ≤ val w c) :
    Wf w ((zzSub2 w (c.take n) mod).1 ++ [wsub w (c.getD n 0) (zzSub2 w (c.take n) mod).2])
    ∧ ((zzSub2 w (c.take n) mod).1 ++ [wsub w (c.getD n 0) (zzSub2 w (c.take n) mod).2]).length = n + 1
    ∧ val w ((zzSub2 w (c.take n) mod).1 ++ [wsub w (c.getD n 0) (zzSub2 w (c.take n) mod).2])
        + val w mod = val w c := by
  obtain ⟨v1, v2, v3, v4⟩ := val_split_top w c n hc hl
  obtain ⟨s1, s2, s3, s4⟩ := zzSub2_lem w (c.take n) mod v2 hmod (by rw [v3, hn])
  rw [v3] at s1 s4
  have hs := val_lt s3
  rw [s4] at hs
  have hM := val_lt hmod
  rw [hn] at hM
  generalize zzSub2 w (c.take n) mod = r at *
  generalize c.getD n 0 = top at *
  have e2 := mul01 (2 ^ (w * n)) s2
  have hle : r.2 ≤ top := by
    rcases Nat.eq_zero_or_pos top with h | h
    · subst h
      simp only [Nat.mul_zero, Nat.add_zero] at v1
      split_ifs at e2 <;> omega
    · omega
  rw [wsub_le v4 hle]
  obtain ⟨d, rfl⟩ : ∃ d, top = r.2 + d := ⟨top - r.2, by omega⟩
  rw [Nat.add_sub_cancel_left]
  refine ⟨Wf_append.mpr ⟨s3, ?_⟩, by simp [s4], ?_⟩
  · intro x hx
    simp at hx; subst hx; omega
  · rw [val_append, s4]
    simp only [val, Nat.mul_zero, Nat.add_zero]
    rw [Nat.mul_add] at v1
    omega

theorem barrFastLoop_spec (w : Nat) (mod : List Nat) (n : Nat) (hmod : Wf w mod)
    (hn : mod.length = n) (hM0 : 0 < val w mod) :
    ∀ f c, Wf w c → c.length = n + 1 → val w c / val w mod < f →
      Wf w (zzRedBarrFastLoop w mod f c) ∧ (zzRedBarrFastLoop w mod f c).length = n + 1
      ∧ val w (zzRedBarrFastLoop w mod f c) = val w c % val w mod := by
  intro f
  induction f with
  | zero => intro c _ _ h; exact (Nat.not_lt_zero _ h).elim
  | succ f ih =>
    intro c hc hl hf
    unfold zzRedBarrFastLoop
    by_cases hge : wwCmp2_safe c mod ≥ 0
    · rw [if_pos hge]
      have hge' := (wwCmp2_safe_ge w c mod hc hmod).mp hge
      simp only [hn]
      obtain ⟨b1, b2, b3⟩ := barrFastStep w c mod n hc hmod hn hl hge'
      have hd := Nat.div_eq_sub_div hM0 hge'
      have hv : val w ((zzSub2 w (c.take n) mod).1
          ++ [wsub w (c.getD n 0) (zzSub2 w (c.take n) mod).2]) = val w c - val w mod := by omega
      have hf2 : (val w c - val w mod) / val w mod < f := by
        generalize (val w c - val w mod) / val w mod = k2 at *
        generalize val w c / val w mod = k1 at *
        omega
      obtain ⟨i1, i2, i3⟩ := ih _ b1 b2 (by rw [hv]; exact hf2)
      exact ⟨i1, i2, by rw [i3, hv, ← Nat.mod_eq_sub_mod hge']⟩
    · rw [if_neg hge]
      have hlt : val w c < val w mod := by
        rw [wwCmp2_safe_ge w c mod hc hmod] at hge; omega
      exact ⟨hc, hl, (Nat.mod_eq_of_lt hlt).symm⟩


/-- one round of SAFE(zzRedBarr) (repaired mask): compare, `w |= wordNeq01(a[n], 0)`,
    masked subtraction; the (n+1)-word value decreases by mod iff it is ≥ mod -/
theorem barrRound (w : Nat) (hw : 0 < w) (lo mod : List Nat) (top : Nat)
    (hlo : Wf w lo) (hmod : Wf w mod) (hl : lo.length = mod.length) (htop : top < 2 ^ w) :
    (zzSubAndW w lo mod (wneg w ((zzRedMontCmp lo mod 1).2 ||| wneq01 top 0))).2 ≤ top
    ∧ Wf w (zzSubAndW w lo mod (wneg w ((zzRedMontCmp lo mod 1).2 ||| wneq01 top 0))).1
    ∧ (zzSubAndW w lo mod (wneg w ((zzRedMontCmp lo mod 1).2 ||| wneq01 top 0))).1.length
        = mod.length
    ∧ val w (zzSubAndW w lo mod (wneg w ((zzRedMontCmp lo mod 1).2 ||| wneq01 top 0))).1
        + 2 ^ (w * mod.length)
          * (top - (zzSubAndW w lo mod (wneg w ((zzRedMontCmp lo mod 1).2 ||| wneq01 top 0))).2)
        + (if val w mod ≤ val w lo + 2 ^ (w * mod.length) * top then val w mod else 0)
      = val w lo + 2 ^ (w * mod.length) * top := by
  obtain ⟨_, c2⟩ := Mul.zzRedMontCmp_spec w lo mod 1 hlo hmod hl (by omega)
  have hM := val_lt hmod
  have hL := val_lt hlo
  rw [hl] at hL
  have h2 := two_le_two_pow hw
  have hq : wneq01 top 0 = if top = 0 then 0 else 1 := rfl
  have hc1 : (zzRedMontCmp lo mod 1).2 ≤ 1 := by rw [c2]; split_ifs <;> omega
  have hq1 : wneq01 top 0 ≤ 1 := by rw [hq]; split_ifs <;> omega
  have hf := lor01 hc1 hq1
  have hf1 : (zzRedMontCmp lo mod 1).2 ||| wneq01 top 0 ≤ 1 := by rw [hf]; split_ifs <;> omega
  have hmask := wneg01 hw hf1
  have hm01 : wneg w ((zzRedMontCmp lo mod 1).2 ||| wneq01 top 0) = 0
      ∨ wneg w ((zzRedMontCmp lo mod 1).2 ||| wneq01 top 0) = 2 ^ w - 1 := by
    rw [hmask]; split_ifs <;> simp
  obtain ⟨s1, s2, s3, s4⟩ := zzSubAndW_lem w lo mod _ hm01 hlo hmod hl
  rw [hl] at s1 s4
  have hS := val_lt s3
  rw [s4] at hS
  generalize zzSubAndW w lo mod (wneg w ((zzRedMontCmp lo mod 1).2 ||| wneq01 top 0)) = s at *
  have e2 := mul01 (2 ^ (w * mod.length)) s2
  -- f = 0 iff lo < mod and top = 0
  have hf0 : ((zzRedMontCmp lo mod 1).2 ||| wneq01 top 0 = 0) ↔ (val w lo < val w mod ∧ top = 0) := by
    have hcz : ((zzRedMontCmp lo mod 1).2 = 0 ↔ val w lo < val w mod) := by
      rw [c2]
      by_cases h1 : val w mod < val w lo
      · simp only [if_pos h1]
        constructor <;> intro h <;> omega
      · by_cases h2 : val w mod = val w lo
        · simp only [if_neg h1, if_pos h2]
          constructor <;> intro h <;> omega
        · simp only [if_neg h1, if_neg h2] <;> constructor <;> intro h <;> first | omega | trivial
    have hqz : (wneq01 top 0 = 0 ↔ top = 0) := by
      rw [hq]
      by_cases h1 : top = 0
      · simp only [if_pos h1] <;> constructor <;> intro h <;> first | omega | trivial
      · simp only [if_neg h1]
        constructor <;> intro h <;> omega
    rw [Nat.or_eq_zero_iff, hcz, hqz]
  have hmz : wneg w ((zzRedMontCmp lo mod 1).2 ||| wneq01 top 0) = 0
      ↔ (val w lo < val w mod ∧ top = 0) := by
    rw [← hf0, hmask]; split_ifs <;> omega
  generalize wneg w ((zzRedMontCmp lo mod 1).2 ||| wneq01 top 0) = mask at *
  generalize 2 ^ (w * mod.length) = P at *
  by_cases hz : val w lo < val w mod ∧ top = 0
  · obtain ⟨hz1, rfl⟩ := hz
    rw [if_pos (hmz.mpr ⟨hz1, rfl⟩)] at s1
    have hs0 : s.2 = 0 := by split_ifs at e2 <;> omega
    refine ⟨by omega, s3, s4, ?_⟩
    rw [hs0, Nat.mul_zero] at s1
    rw [hs0, Nat.mul_zero, if_neg (by omega)]
    omega
  · rw [if_neg (fun h => hz (hmz.mp h))] at s1
    have hge : val w mod ≤ val w lo + P * top := by
      by_cases h1 : val w lo < val w mod
      · have : 1 ≤ top := by
          rcases Nat.eq_zero_or_pos top with h | h
          · exact absurd ⟨h1, h⟩ hz
          · exact h
        have : P * 1 ≤ P * top := Nat.mul_le_mul_left _ this
        omega
      · omega
    have hle : s.2 ≤ top := by
      rcases Nat.eq_zero_or_pos top with h | h
      · subst h
        simp only [Nat.mul_zero, Nat.add_zero] at hge
        split_ifs at e2 <;> omega
      · omega
    refine ⟨hle, s3, s4, ?_⟩
    rw [if_pos hge]
    obtain ⟨d, rfl⟩ : ∃ d, top = s.2 + d := ⟨top - s.2, by omega⟩
    rw [Nat.add_sub_cancel_left, Nat.mul_add]
    omega

end Bee2V.C05.Red

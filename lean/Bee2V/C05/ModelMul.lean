/-
C05 — code-shaped executable models of
  src/math/zz/zz_mul.c : zzMulW, zzAddMulW, zzSubMulW, zzMul, zzSqr, zzDivW, zzModW, zzModW2
                         (regular `#else` body and the `#ifdef SAFE_FAST` body)
  src/math/zz/zz_red.c : SAFE/FAST(zzRedMont), SAFE/FAST(zzRedCrand)

Conventions (same as ModelAdd.lean): words are `Nat`s below `2^w`, numbers are little-endian
`List Nat`.  A `dword` register (`prod`, `divisor`, `r1`) is a `Nat` that is reduced
`% 2^(2*w)` after every C operation that could wrap (`dmul`, `dadd`, `dsub`, `dshl`), so
"the double word never overflows" is a theorem about the model, not an assumption.

Loops `for (i = 0; i < n; ++i)` are structural recursions over the lists carrying the same
registers.  Loops that advance a pointer into a longer array (`c + i` in zzMul, `b + 2i` in
zzSqr, `a + i` in zzRedMont) recurse on the *window* that starts at the pointer; the words
left behind are emitted in front of the recursive result, so the functions still return the
whole array.  Loops running from the top word down (`while (n--)` in zzDivW/zzModW/zzModW2)
are structural recursions that process the tail (the higher words) first and then the head:
the register (`r`, `(r1, r0)`) is threaded from a[n-1] down to a[0] exactly as in C.

FAST editions call the *default* names of their helpers (`wwCmp`, `wwCmp2`, `zzAddW2`,
`zzSub2`): in the default build these are the SAFE editions / regular bodies.

No Mathlib (imported by the native driver).
-/
import Bee2V.C05.ModelAdd
namespace Bee2V.C05

/-! ### C operators on `dword` -/

/-- `_MUL(prod, x, y)`: `prod = (word)x, prod *= (word)y` -/
@[reducible] def dmul (w x y : Nat) : Nat := (x * y) % 2 ^ (2 * w)
/-- `prod += x` / `prod + x` on dword -/
@[reducible] def dadd (w p x : Nat) : Nat := (p + x) % 2 ^ (2 * w)
/-- `prod -= x` on dword -/
@[reducible] def dsub (w p x : Nat) : Nat := (p + (2 ^ (2 * w) - x % 2 ^ (2 * w))) % 2 ^ (2 * w)
/-- `(word)prod` -/
@[reducible] def dlo (w p : Nat) : Nat := p % 2 ^ w
/-- `prod >> B_PER_W` (still a dword) -/
@[reducible] def dshr (w p : Nat) : Nat := p / 2 ^ w
/-- `(word)(prod >> B_PER_W)` -/
@[reducible] def dhi (w p : Nat) : Nat := (p / 2 ^ w) % 2 ^ w
/-- `prod <<= B_PER_W` -/
@[reducible] def dshl (w p : Nat) : Nat := (p * 2 ^ w) % 2 ^ (2 * w)

/-! ## zz_mul.c : multiplication by a word -/

/-- zzMulW loop: `_MUL(prod, w, a[i]); prod += carry; b[i] = (word)prod; carry = (word)(prod >> B_PER_W)` -/
def zzMulWLoop (w : Nat) : List Nat → Nat → Nat → List Nat × Nat
  | a :: as, x, carry =>
    let prod := dmul w x a
    let prod := dadd w prod carry
    let r := zzMulWLoop w as x (dhi w prod)
    (dlo w prod :: r.1, r.2)
  | [], _, carry => ([], carry)
/-- zzMulW(b, a, n, w): `b <- a * w`, returns the carry word -/
def zzMulW (w : Nat) (a : List Nat) (x : Nat) : List Nat × Nat := zzMulWLoop w a x 0

/-- zzAddMulW loop: `_MUL(prod, w, a[i]); prod += carry; prod += b[i]; b[i] = (word)prod;
    carry = (word)(prod >> B_PER_W)` -/
def zzAddMulWLoop (w : Nat) : List Nat → List Nat → Nat → Nat → List Nat × Nat
  | b :: bs, a :: as, x, carry =>
    let prod := dmul w x a
    let prod := dadd w prod carry
    let prod := dadd w prod b
    let r := zzAddMulWLoop w bs as x (dhi w prod)
    (dlo w prod :: r.1, r.2)
  | _, _, _, carry => ([], carry)
/-- zzAddMulW(b, a, n, w): `b += a * w`, returns the carry word -/
def zzAddMulW (w : Nat) (b a : List Nat) (x : Nat) : List Nat × Nat := zzAddMulWLoop w b a x 0

/-- zzSubMulW loop: `_MUL(prod, w, a[i]); prod = (dword)0 - prod; prod += b[i]; prod -= borrow;
    b[i] = (word)prod; borrow = WORD_0 - (word)(prod >> B_PER_W)` -/
def zzSubMulWLoop (w : Nat) : List Nat → List Nat → Nat → Nat → List Nat × Nat
  | b :: bs, a :: as, x, borrow =>
    let prod := dmul w x a
    let prod := dsub w 0 prod
    let prod := dadd w prod b
    let prod := dsub w prod borrow
    let r := zzSubMulWLoop w bs as x (wneg w (dhi w prod))
    (dlo w prod :: r.1, r.2)
  | _, _, _, borrow => ([], borrow)
/-- zzSubMulW(b, a, n, w): `b -= a * w`, returns the borrow word -/
def zzSubMulW (w : Nat) (b a : List Nat) (x : Nat) : List Nat × Nat := zzSubMulWLoop w b a x 0

/-! ## zzMul -/

/-- outer loop of zzMul; `c` is the window `c + i` (n - i + m words), `a` the remaining a[i..n).
    One iteration: the inner `j` loop is the zzAddMulW pattern on `c[i .. i+m)` with multiplier a[i]
    (the register `carry` is 0 on entry: initialised to 0 and reset after every row),
    then `c[i + m] = carry`. Word c[i] is final after iteration i. -/
def zzMulLoop (w : Nat) (b : List Nat) : List Nat → List Nat → List Nat
  | [], c => c
  | ai :: as, c =>
    let m := b.length
    let r := zzAddMulWLoop w (c.take m) b ai 0
    let c' := r.1 ++ r.2 :: c.drop (m + 1)
    match c' with
    | c0 :: cs => c0 :: zzMulLoop w b as cs
    | [] => []
/-- zzMul(c, a, n, b, m): `wwSetZero(c, n + m)`, then the double loop -/
def zzMul (w : Nat) (a b : List Nat) : List Nat :=
  zzMulLoop w b a (List.replicate (a.length + b.length) 0)

/-! ## zzSqr -/

/-- first pass of zzSqr, `b <- Σ_{i<j} a_i a_j B^{i+j}`; `c` is the window `b + 2i`
    (2(n - i) words), `a` the remaining a[i..n).  One iteration: the inner loop
    `for (j = i + 1; j < n; ++j)` is the zzAddMulW pattern on `b[2i+1 .. i+n)` with the words
    a[i+1..n) and multiplier a[i] (carry 0 on entry), then `b[i + n] = carry`.
    Words b[2i], b[2i+1] are not touched by later iterations. -/
def zzSqrLoop1 (w : Nat) : List Nat → List Nat → List Nat
  | [], c => c
  | ai :: as, c =>
    let k := as.length
    let r := zzAddMulWLoop w ((c.drop 1).take k) as ai 0
    let c' := c.take 1 ++ r.1 ++ r.2 :: c.drop (k + 2)
    match c' with
    | x :: y :: rest => x :: y :: zzSqrLoop1 w as rest
    | _ => c'

/-- second pass of zzSqr, `b <- 2 b`:
    `carry1 = b[i] >> (B_PER_W - 1); b[i] = (b[i] << 1) | carry; carry = carry1` -/
def zzSqrLoop2 (w : Nat) : List Nat → Nat → List Nat × Nat
  | b :: bs, carry =>
    let carry1 := wshr b (w - 1)
    let b' := wshl w b 1 ||| carry
    let r := zzSqrLoop2 w bs carry1
    (b' :: r.1, r.2)
  | [], carry => ([], carry)

/-- third pass of zzSqr, `b <- b + Σ_i a_i^2 B^{2i}`:
    `_MUL(prod, a[i], a[i]); prod += carry; prod += b[2i]; b[2i] = (word)prod; prod >>= B_PER_W;
     prod += b[2i+1]; b[2i+1] = (word)prod; carry = (word)(prod >> B_PER_W)` -/
def zzSqrLoop3 (w : Nat) : List Nat → List Nat → Nat → List Nat × Nat
  | a :: as, b0 :: b1 :: bs, carry =>
    let prod := dmul w a a
    let prod := dadd w prod carry
    let prod := dadd w prod b0
    let c0 := dlo w prod
    let prod := dshr w prod
    let prod := dadd w prod b1
    let c1 := dlo w prod
    let r := zzSqrLoop3 w as bs (dhi w prod)
    (c0 :: c1 :: r.1, r.2)
  | _, _, carry => ([], carry)

/-- zzSqr(b, a, n): the three passes as written.  The register `carry` is 0 when pass 2
    starts (reset after every row of pass 1); pass 3 starts with the carry left by pass 2
    (the C does not reset it). -/
def zzSqr (w : Nat) (a : List Nat) : List Nat :=
  let b1 := zzSqrLoop1 w a (List.replicate (a.length + a.length) 0)
  let r2 := zzSqrLoop2 w b1 0
  (zzSqrLoop3 w a r2.1 r2.2).1

/-! ## division by a word -/

/-- zzDivW: `while (n--) { divisor = r; divisor <<= B_PER_W; divisor |= a[n];
    q[n] = (word)(divisor / w); r = (word)(divisor % w); }`
    (the tail = higher words is processed first, `r` is threaded downwards) -/
def zzDivW (w : Nat) : List Nat → Nat → List Nat × Nat
  | [], _ => ([], 0)
  | a0 :: as, x =>
    let t := zzDivW w as x
    let divisor := dshl w t.2 ||| a0
    (dlo w (divisor / x) :: t.1, dlo w (divisor % x))

/-- zzModW: the same loop without the quotient -/
def zzModW (w : Nat) : List Nat → Nat → Nat
  | [], _ => 0
  | a0 :: as, x =>
    let r := zzModW w as x
    let divisor := dshl w r ||| a0
    dlo w (divisor % x)

/-- first loop of zzModW2, state `(r1, r0)`:
    `r1 *= b; r1 += r0; r1 *= b; r1 += a[n]; r0 = (word)r1; r1 >>= B_PER_W` -/
def zzModW2Loop (w : Nat) (b : Nat) : List Nat → Nat × Nat
  | [] => (0, 0)
  | a0 :: as =>
    let st := zzModW2Loop w b as
    let r1 := dmul w st.1 b
    let r1 := dadd w r1 st.2
    let r1 := dmul w r1 b
    let r1 := dadd w r1 a0
    (dshr w r1, dlo w r1)

/-- `b = (WORD_MAX - w + 1) % w` -/
@[reducible] def zzModW2B (w x : Nat) : Nat := wadd w (wsub w (2 ^ w - 1) x) 1 % x

/-- zzModW2, regular (`#else`) normalisation:
    `r1 *= b; r1 += r0 % w; r0 = (word)r1; r1 >>= B_PER_W; r1 *= b; r1 += r0 % w; r0 = (word)r1 % w` -/
def zzModW2 (w : Nat) (a : List Nat) (x : Nat) : Nat :=
  let b := zzModW2B w x
  let st := zzModW2Loop w b a
  let r1 := dmul w st.1 b
  let r1 := dadd w r1 (st.2 % x)
  let r0 := dlo w r1
  let r1 := dshr w r1
  let r1 := dmul w r1 b
  let r1 := dadd w r1 (r0 % x)
  dlo w r1 % x

/-- `while (r1 != 0) { r1 *= b; r1 += r0 % w; r0 = (word)r1; r1 >>= B_PER_W; }` with a fuel
    counter making the model total (under the header's precondition two iterations suffice:
    theorem, not assumption; the fuel given by `zzModW2F` is never exhausted on a terminating run
    of realistic length) -/
def zzModW2FLoop (w b x : Nat) : Nat → Nat → Nat → Nat × Nat
  | 0, r1, r0 => (r1, r0)
  | fuel + 1, r1, r0 =>
    if r1 = 0 then (r1, r0) else
    let r1 := dmul w r1 b
    let r1 := dadd w r1 (r0 % x)
    zzModW2FLoop w b x fuel (dshr w r1) (dlo w r1)

/-- zzModW2, `#ifdef SAFE_FAST` normalisation: the `while` loop, then `r0 %= w` -/
def zzModW2F (w : Nat) (a : List Nat) (x : Nat) : Nat :=
  let b := zzModW2B w x
  let st := zzModW2Loop w b a
  let st := zzModW2FLoop w b x (2 ^ (2 * w)) st.1 st.2
  st.2 % x

/-! ## zz_red.c : Montgomery reduction -/

/-- the Dusse–Kaliski loop of zzRedMont; `k` = iterations left, `a` = the window `a + i`
    (2n - i words), `carry` the register.  One iteration:
    `_MUL_LO(w, a[i], mont_param);
     carry |= zzAddW2(a + i + n, n - i, zzAddMulW(a + i, mod, n, w));`
    Word a[i] (zero afterwards: theorem) is emitted, the window moves on. Returns the whole
    2n-word array and `carry`. -/
def zzRedMontLoop (w : Nat) (mod : List Nat) (mp : Nat) : Nat → List Nat → Nat → List Nat × Nat
  | 0, a, carry => (a, carry)
  | k + 1, a, carry =>
    match a with
    | [] => ([], carry)
    | ai :: _ =>
      let n := mod.length
      let m := wmul w ai mp
      let r1 := zzAddMulW w (a.take n) mod m
      let r2 := zzAddW2 w (a.drop n) r1.2
      let carry' := carry ||| r2.2
      match r1.1 ++ r2.1 with
      | [] => ([], carry')
      | z :: rest =>
        let r := zzRedMontLoop w mod mp k rest carry'
        (z :: r.1, r.2)

/-- compare-and-copy loop of SAFE(zzRedMont):
    `for (i = 0, w = 1; i < n; ++i) { a[i] = a[n + i]; w &= wordEq01(mod[i], a[i]);
     w |= wordLess01(mod[i], a[i]); }`; `hi` is a[n..2n) -/
def zzRedMontCmp : List Nat → List Nat → Nat → List Nat × Nat
  | h :: hs, m :: ms, mask =>
    let r := zzRedMontCmp hs ms (maskStep mask m h)
    (h :: r.1, r.2)
  | _, _, mask => ([], mask)

/-- SAFE(zzRedMont)(a, mod, n, mont_param): result = a[0..n) -/
def zzRedMont_safe (w : Nat) (a mod : List Nat) (mp : Nat) : List Nat :=
  let n := mod.length
  let r := zzRedMontLoop w mod mp n a 0
  let c := zzRedMontCmp (r.1.drop n) mod 1
  let mask := wneg w (c.2 ||| r.2)
  (zzSubAndW w c.1 mod mask).1

/-- FAST(zzRedMont): `wwCopy(a, a + n, n); a[n] = carry;
    if (wwCmp2(a, n + 1, mod, n) >= 0) zzSub2(a, mod, n);` -/
def zzRedMont_fast (w : Nat) (a mod : List Nat) (mp : Nat) : List Nat :=
  let n := mod.length
  let r := zzRedMontLoop w mod mp n a 0
  let lo := (r.1.drop n).take n
  if wwCmp2_safe (lo ++ [r.2]) mod ≥ 0 then (zzSub2 w lo mod).1 else lo

/-! ## Crandall reduction (mod = B^n - c, n ≥ 2) -/

/-- "add and cmp" loop of SAFE(zzRedCrand), i = 1 .. n-1:
    `a[i] += carry; carry = wordLess01(a[i], carry); mask &= wordEq01(mod[i], a[i]);
     mask |= wordLess01(mod[i], a[i]);` -/
def zzRedCrandLoop (w : Nat) : List Nat → List Nat → Nat → Nat → List Nat × Nat × Nat
  | a :: as, m :: ms, carry, mask =>
    let a' := wadd w a carry
    let carry' := wless01 a' carry
    let r := zzRedCrandLoop w as ms carry' (maskStep mask m a')
    (a' :: r.1, r.2.1, r.2.2)
  | _, _, carry, mask => ([], carry, mask)

/-- FAST(zzRedCrand)(a, mod, n): result = a[0..n)  (`mod.headD 0` is mod[0]; n ≥ 2 in every use) -/
def zzRedCrand_fast (w : Nat) (a mod : List Nat) : List Nat :=
  let n := mod.length
  let c := wneg w (mod.headD 0)
  -- iter1
  let r1 := zzAddMulW w (a.take n) (a.drop n) c
  match r1.1 with
  | [] => []
  | a0 :: at1 =>
    -- iter2
    let prod := dmul w r1.2 c
    let prod := dadd w prod a0
    let a0 := dlo w prod
    let prod := dshr w prod
    let r2 := zzAddW2 w at1 (dlo w prod)
    let a' := a0 :: r2.1
    if r2.2 ≠ 0 ∨ wwCmp_safe a' mod ≥ 0 then (zzAddW2 w a' c).1 else a'

/-- SAFE(zzRedCrand)(a, mod, n): result = a[0..n) -/
def zzRedCrand_safe (w : Nat) (a mod : List Nat) : List Nat :=
  let n := mod.length
  let c := wneg w (mod.headD 0)
  -- iter1
  let r1 := zzAddMulW w (a.take n) (a.drop n) c
  match r1.1 with
  | [] => []
  | a0 :: at1 =>
    -- iter2
    let prod := dmul w r1.2 c
    let prod := dadd w prod a0
    let a0 := dlo w prod
    let prod := dshr w prod
    -- add and cmp
    let carry := dlo w prod
    let mask := wleq01 (mod.headD 0) a0
    let r2 := zzRedCrandLoop w at1 mod.tail carry mask
    -- correct
    let mask := r2.2.2 ||| r2.2.1
    let mask := wneg w mask
    let mask := mask &&& c
    (zzAddW2 w (a0 :: r2.1) mask).1

end Bee2V.C05

/-
C05 — property theorems for the bit-level functions of ww.c (models: ModelBits.lean) and the word
helpers of u16.c / u32.c / u64.c (models: ModelWord.lean).

⟦a⟧ = `val w a` is the number represented by the word array, `Wf w a` says that every element is
a word (< 2^w), `w` = B_PER_W > 0 is arbitrary, the length n = `a.length` is arbitrary.
The preconditions are those of ww.h ("W_OF_B(pos + width) words are reserved" is
`pos + width ≤ w * a.length`); under them the models never index outside the list, so the
totalisation of `List.getD` / `List.set` plays no role.
-/
import Bee2V.C05.LemmasBits
namespace Bee2V.C05

/-! ## bit fields -/

/-- wwGetBits returns the bits pos, …, pos + width − 1 of ⟦a⟧ as a number
    (also when the field straddles a word boundary). -/
theorem wwGetBits_spec {w : Nat} (hw : 0 < w) (a : List Nat) (pos width : Nat) (hwd : width ≤ w)
    (hres : pos + width ≤ w * a.length) (h : Wf w a) :
    wwGetBits w a pos width = (val w a / 2 ^ pos) % 2 ^ width :=
  wwGetBits_val hw a pos width hwd hres h

example : wwGetBits 8 [0xA5, 0x3C, 0xFF] 6 7 = (val 8 [0xA5, 0x3C, 0xFF] / 2 ^ 6) % 2 ^ 7 ∧
    wwGetBits 8 [0xA5, 0x3C, 0xFF] 6 7 = 0x72 := by decide

/-- wwSetBits: same length, still words, and the number changes exactly by replacing the field
    [pos, pos + width) with the low `width` bits of `v` — all other bits are unchanged
    (frame condition), also when the field straddles a word boundary.
    Stated without truncated subtraction: ⟦r⟧ + old_field·2^pos = ⟦a⟧ + new_field·2^pos.
    `0 < width`: for width = 0 the C code shifts a word by B_PER_W bits (undefined behaviour;
    see the report), the header does not exclude width = 0. -/
theorem wwSetBits_spec {w : Nat} (hw : 0 < w) (a : List Nat) (pos width v : Nat)
    (hwd : width ≤ w) (h0 : 0 < width) (hres : pos + width ≤ w * a.length) (h : Wf w a) :
    (wwSetBits w a pos width v).length = a.length ∧ Wf w (wwSetBits w a pos width v) ∧
    val w (wwSetBits w a pos width v) + ((val w a / 2 ^ pos) % 2 ^ width) * 2 ^ pos
      = val w a + (v % 2 ^ width) * 2 ^ pos :=
  wwSetBits_val hw a pos width v hwd h0 hres h

/-- the same, bit by bit: bits inside the field come from `v`, bits outside are those of ⟦a⟧ -/
theorem wwSetBits_frame {w : Nat} (hw : 0 < w) (a : List Nat) (pos width v : Nat)
    (hwd : width ≤ w) (h0 : 0 < width) (hres : pos + width ≤ w * a.length) (h : Wf w a) (k : Nat) :
    (val w (wwSetBits w a pos width v)).testBit k =
      if pos ≤ k ∧ k < pos + width then v.testBit (k - pos) else (val w a).testBit k :=
  (wwSetBits_bits hw a pos width v hwd h0 hres h).2.2 k

-- the witness of the defect fixed in e22b6b9 (a field straddling a word boundary), w = 64
example : wwSetBits 64 [0, 0xFFFFFFFFFFFFFFFF] 60 8 0x5C = [0xC000000000000000, 0xFFFFFFFFFFFFFFF5] ∧
    val 64 (wwSetBits 64 [0, 0xFFFFFFFFFFFFFFFF] 60 8 0x5C)
      + ((val 64 [0, 0xFFFFFFFFFFFFFFFF] / 2 ^ 60) % 2 ^ 8) * 2 ^ 60
      = val 64 [0, 0xFFFFFFFFFFFFFFFF] + (0x5C % 2 ^ 8) * 2 ^ 60 := by decide

/-- wwTestBit returns bit `pos` of ⟦a⟧ -/
theorem wwTestBit_spec {w : Nat} (hw : 0 < w) (a : List Nat) (pos : Nat)
    (hres : pos < w * a.length) (h : Wf w a) :
    wwTestBit w a pos = decide (val w a / 2 ^ pos % 2 = 1) := by
  rw [wwTestBit_val hw a pos hres h, Nat.testBit_eq_decide_div_mod_eq]

example : wwTestBit 8 [0, 0x10] 12 = true ∧ wwTestBit 8 [0xFF, 0xEF] 12 = false := by decide

/-- wwSetBit sets bit `pos` to `b` and changes nothing else -/
theorem wwSetBit_spec {w : Nat} (hw : 0 < w) (a : List Nat) (pos : Nat) (b : Bool)
    (hres : pos < w * a.length) (h : Wf w a) :
    (wwSetBit w a pos b).length = a.length ∧ Wf w (wwSetBit w a pos b) ∧
    val w (wwSetBit w a pos b) + (val w a / 2 ^ pos % 2) * 2 ^ pos
      = val w a + b.toNat * 2 ^ pos := by
  obtain ⟨h1, h2, h3⟩ := wwSetBit_bits hw a pos b hres h
  exact ⟨h1, h2, bit_replace _ _ _ _ h3⟩

example : wwSetBit 8 [0xFF, 0xFF] 9 false = [0xFF, 0xFD] ∧ wwSetBit 8 [0, 0] 9 true = [0, 2] := by
  decide

/-- wwFlipBit inverts bit `pos` and changes nothing else -/
theorem wwFlipBit_spec {w : Nat} (hw : 0 < w) (a : List Nat) (pos : Nat)
    (hres : pos < w * a.length) (h : Wf w a) :
    (wwFlipBit w a pos).length = a.length ∧ Wf w (wwFlipBit w a pos) ∧
    val w (wwFlipBit w a pos) + (val w a / 2 ^ pos % 2) * 2 ^ pos
      = val w a + (1 - val w a / 2 ^ pos % 2) * 2 ^ pos := by
  obtain ⟨h1, h2, h3⟩ := wwFlipBit_bits hw a pos hres h
  refine ⟨h1, h2, ?_⟩
  have := bit_replace (val w a) _ pos (!(val w a).testBit pos) (by
    intro k
    rw [h3 k]
    by_cases c : k = pos
    · rw [if_pos c, if_pos c, c]
    · rw [if_neg c, if_neg c])
  rw [this, Nat.testBit_eq_decide_div_mod_eq]
  have : val w a / 2 ^ pos % 2 < 2 := Nat.mod_lt _ (by decide)
  rcases Nat.lt_or_ge (val w a / 2 ^ pos % 2) 1 with c | c
  · have e : val w a / 2 ^ pos % 2 = 0 := by omega
    simp [e]
  · have e : val w a / 2 ^ pos % 2 = 1 := by omega
    simp [e]

example : wwFlipBit 8 [0xFF, 0xFF] 9 = [0xFF, 0xFD] ∧ wwFlipBit 8 [0, 0] 15 = [0, 0x80] := by decide

/-! ## shifts and trimming (any n, any shift: also shift = 0, multiples of w, shift ≥ n·w) -/

/-- wwShLo: ⟦a⟧ ← ⌊⟦a⟧ / 2^shift⌋ -/
theorem wwShLo_spec {w : Nat} (hw : 0 < w) (a : List Nat) (shift : Nat) (h : Wf w a) :
    (wwShLo w a shift).length = a.length ∧ Wf w (wwShLo w a shift) ∧
    val w (wwShLo w a shift) = val w a / 2 ^ shift :=
  wwShLo_val hw a shift h

example : wwShLo 8 [0x34, 0x12, 0xAB] 12 = [0xB1, 0x0A, 0] ∧
    val 8 [0xB1, 0x0A, 0] = val 8 [0x34, 0x12, 0xAB] / 2 ^ 12 := by decide

/-- wwShHi: ⟦a⟧ ← ⟦a⟧ · 2^shift mod 2^(n·w) -/
theorem wwShHi_spec {w : Nat} (hw : 0 < w) (a : List Nat) (shift : Nat) (h : Wf w a) :
    (wwShHi w a shift).length = a.length ∧ Wf w (wwShHi w a shift) ∧
    val w (wwShHi w a shift) = (val w a * 2 ^ shift) % 2 ^ (w * a.length) :=
  wwShHi_val hw a shift h

example : wwShHi 8 [0x34, 0x12, 0xAB] 12 = [0, 0x40, 0x23] ∧
    val 8 [0, 0x40, 0x23] = (val 8 [0x34, 0x12, 0xAB] * 2 ^ 12) % 2 ^ (8 * 3) := by decide

/-- wwTrimLo clears the bits below `pos` (everything when pos ≥ n·w) -/
theorem wwTrimLo_spec {w : Nat} (hw : 0 < w) (a : List Nat) (pos : Nat) (h : Wf w a) :
    (wwTrimLo w a pos).length = a.length ∧ Wf w (wwTrimLo w a pos) ∧
    val w (wwTrimLo w a pos) = val w a / 2 ^ pos * 2 ^ pos :=
  wwTrimLo_val hw a pos h

example : wwTrimLo 8 [0xFF, 0xFF, 0xFF] 11 = [0, 0xF8, 0xFF] := by decide

/-- wwTrimHi: ⟦a⟧ ← ⟦a⟧ mod 2^pos (nothing happens when pos ≥ n·w) -/
theorem wwTrimHi_spec {w : Nat} (hw : 0 < w) (a : List Nat) (pos : Nat) (h : Wf w a) :
    (wwTrimHi w a pos).length = a.length ∧ Wf w (wwTrimHi w a pos) ∧
    val w (wwTrimHi w a pos) = val w a % 2 ^ pos :=
  wwTrimHi_val hw a pos h

example : wwTrimHi 8 [0xFF, 0xFF, 0xFF] 11 = [0xFF, 0x07, 0] ∧
    wwTrimHi 8 [0xFF, 0xFF, 0xFF] 16 = [0xFF, 0xFF, 0] := by decide

/-! ## word helpers: general theorems (all values of the word) -/

/-- uNNNegInv(x)·x ≡ −1 (mod 2^NN) for every odd x: starting from ret = x, every step
    `ret ← ret·(x·ret + 2)` squares `ret·x + 1`, and `x·x + 1` is even -/
theorem u16NegInv_spec (x : Nat) (hodd : x % 2 = 1) : (u16NegInv x * x + 1) % 2 ^ 16 = 0 :=
  u16NegInv_gen x hodd
theorem u32NegInv_spec (x : Nat) (hodd : x % 2 = 1) : (u32NegInv x * x + 1) % 2 ^ 32 = 0 :=
  u32NegInv_gen x hodd
theorem u64NegInv_spec (x : Nat) (hodd : x % 2 = 1) : (u64NegInv x * x + 1) % 2 ^ 64 = 0 :=
  u64NegInv_gen x hodd

example : u16NegInv 3 = 21845 ∧ (21845 * 3 + 1) % 2 ^ 16 = 0 ∧
    (u32NegInv 0xDEADBEEF * 0xDEADBEEF + 1) % 2 ^ 32 = 0 ∧
    (u64NegInv 0xFFFFFFFFFFFFFFFF * 0xFFFFFFFFFFFFFFFF + 1) % 2 ^ 64 = 0 := by decide

/-- FAST(u32CLZ) counts the leading zeros of every 32-bit word (32 for 0) -/
theorem u32CLZ_fast_spec (x : Nat) (hx : x < 2 ^ 32) : ClzSpec 32 x (u32CLZ_fast x) :=
  u32CLZ_fast_gen x hx

example : u32CLZ_fast 0x00012345 = 15 ∧ ClzSpec 32 0x00012345 15 := by
  refine ⟨by decide, fun h => absurd h (by decide), fun _ => by decide⟩

/-! ## sizes.  `wordCLZ` / `wordCTZ` enter as a parameter `clz` / `ctz` with their word-level
specification (`ClzOK`, `CtzOK`: correct on every non-zero word); the instances for the builds follow. -/

/-- wwWordSize = index of the last non-zero word + 1 (0 if all words are zero) -/
theorem wwWordSize_spec (a : List Nat) :
    wwWordSize a ≤ a.length ∧ (∀ i, wwWordSize a ≤ i → a.getD i 0 = 0) ∧
    (0 < wwWordSize a → a.getD (wwWordSize a - 1) 0 ≠ 0) :=
  wwWordSize_spec' a

example : wwWordSize [5, 0, 7, 0, 0] = 3 ∧ wwWordSize [0, 0] = 0 := by decide

/-- wwBitSize = m with ⟦a⟧ < 2^m and (m > 0 → 2^(m−1) ≤ ⟦a⟧); wwHiZeroBits = n·w − m.
    (ww.h's remark says 2^(m−1) < a, which is wrong for a = 2^(m−1), e.g. a = 1, m = 1.) -/
theorem wwBitSize_spec {w : Nat} (hw : 0 < w) (clz : Nat → Nat) (hclz : ClzOK w clz)
    (a : List Nat) (h : Wf w a) :
    wwBitSizeWith clz w a ≤ w * a.length ∧
    val w a < 2 ^ wwBitSizeWith clz w a ∧
    (0 < wwBitSizeWith clz w a → 2 ^ (wwBitSizeWith clz w a - 1) ≤ val w a) ∧
    wwHiZeroBitsWith clz w a + wwBitSizeWith clz w a = w * a.length :=
  wwBitSize_gen hw clz hclz a h

/-- wwLoZeroBits = z: the bits below z are zero, bit z is set unless z = n·w (⟦a⟧ = 0) -/
theorem wwLoZeroBits_spec {w : Nat} (hw : 0 < w) (ctz : Nat → Nat) (hctz : CtzOK w ctz)
    (a : List Nat) (h : Wf w a) :
    wwLoZeroBitsWith ctz w a ≤ w * a.length ∧
    (∀ k, k < wwLoZeroBitsWith ctz w a → (val w a).testBit k = false) ∧
    (wwLoZeroBitsWith ctz w a < w * a.length →
      (val w a).testBit (wwLoZeroBitsWith ctz w a) = true) :=
  wwLoZeroBits_gen hw ctz hctz a h

/-! ## the 16-bit word helpers: every one of the 65536 values (complete enumeration by the kernel) -/

/-- u16Rev swaps the two octets -/
theorem u16Rev_spec (x : Nat) (hx : x < 65536) : u16Rev x = (x % 256) * 256 + x / 256 :=
  (chk16_unpack (chk16_all x hx)).1
/-- u16Bitrev: bit i goes to bit 15 − i -/
theorem u16Bitrev_spec (x : Nat) (hx : x < 65536) : u16Bitrev x = bitrevN 16 x :=
  (chk16_unpack (chk16_all x hx)).2.1
/-- u16Weight = number of ones -/
theorem u16Weight_spec (x : Nat) (hx : x < 65536) : u16Weight x = popN 16 x :=
  (chk16_unpack (chk16_all x hx)).2.2.1
/-- u16Parity = number of ones mod 2 -/
theorem u16Parity_spec (x : Nat) (hx : x < 65536) : u16Parity x = popN 16 x % 2 :=
  (chk16_unpack (chk16_all x hx)).2.2.2.1
/-- SAFE(u16CTZ) and FAST(u16CTZ) both count the trailing zeros (16 for 0) -/
theorem u16CTZ_spec (x : Nat) (hx : x < 65536) :
    CtzSpec 16 x (u16CTZ_safe x) ∧ CtzSpec 16 x (u16CTZ_fast x) :=
  ⟨(chk16_unpack (chk16_all x hx)).2.2.2.2.1, (chk16_unpack (chk16_all x hx)).2.2.2.2.2.1⟩
/-- SAFE(u16CLZ) and FAST(u16CLZ) both count the leading zeros (16 for 0) -/
theorem u16CLZ_spec (x : Nat) (hx : x < 65536) :
    ClzSpec 16 x (u16CLZ_safe x) ∧ ClzSpec 16 x (u16CLZ_fast x) :=
  ⟨(chk16_unpack (chk16_all x hx)).2.2.2.2.2.2.1, (chk16_unpack (chk16_all x hx)).2.2.2.2.2.2.2.1⟩
/-- u16Shuffle: bit i of the low octet → bit 2i, bit i of the high octet → bit 2i + 1 -/
theorem u16Shuffle_spec (x : Nat) (hx : x < 65536) :
    u16Shuffle x = shufN 8 (x % 256) (x / 256) :=
  (chk16_unpack (chk16_all x hx)).2.2.2.2.2.2.2.2.1
/-- u16Deshuffle and u16Shuffle are mutually inverse -/
theorem u16Deshuffle_Shuffle (x : Nat) (hx : x < 65536) :
    u16Deshuffle (u16Shuffle x) = x ∧ u16Shuffle (u16Deshuffle x) = x :=
  ⟨(chk16_unpack (chk16_all x hx)).2.2.2.2.2.2.2.2.2.1,
   (chk16_unpack (chk16_all x hx)).2.2.2.2.2.2.2.2.2.2.1⟩
/-- u16NegInv, by enumeration (the general proof is `u16NegInv_spec`) -/
theorem u16NegInv_enum (x : Nat) (hx : x < 65536) (hodd : x % 2 = 1) :
    (u16NegInv x * x + 1) % 65536 = 0 :=
  (chk16_unpack (chk16_all x hx)).2.2.2.2.2.2.2.2.2.2.2 hodd

example : u16Rev 0x1234 = 0x3412 ∧ u16Bitrev 0x0001 = 0x8000 ∧ bitrevN 16 0x0001 = 0x8000 ∧
    u16Weight 0xF0F1 = 9 ∧ u16Parity 0xF0F1 = 1 ∧ u16CTZ_safe 0x0100 = 8 ∧ u16CTZ_fast 0 = 16 ∧
    u16CLZ_safe 0x0100 = 7 ∧ u16CLZ_fast 0x8000 = 0 ∧ u16Shuffle 0xFF00 = 0xAAAA ∧
    u16Deshuffle 0xAAAA = 0xFF00 := by decide

/-! instances of the size theorems: 16-bit words, both builds (default: SAFE editions of
CTZ / CLZ, SAFE_FAST: FAST editions) -/

theorem wwBitSize16_spec (a : List Nat) (h : Wf 16 a) :
    (val 16 a < 2 ^ wwBitSize 16 a ∧ (0 < wwBitSize 16 a → 2 ^ (wwBitSize 16 a - 1) ≤ val 16 a) ∧
      wwHiZeroBits 16 a + wwBitSize 16 a = 16 * a.length) ∧
    (val 16 a < 2 ^ wwBitSizeF 16 a ∧ (0 < wwBitSizeF 16 a → 2 ^ (wwBitSizeF 16 a - 1) ≤ val 16 a) ∧
      wwHiZeroBitsF 16 a + wwBitSizeF 16 a = 16 * a.length) := by
  have h1 : ClzOK 16 (wordCLZ_safe 16) :=
    ClzOK_of_spec (fun x hx => by
      have : wordCLZ_safe 16 x = u16CLZ_safe x := by simp [wordCLZ_safe]
      rw [this]; exact (u16CLZ_spec x hx).1)
  have h2 : ClzOK 16 (wordCLZ_fast 16) :=
    ClzOK_of_spec (fun x hx => by
      have : wordCLZ_fast 16 x = u16CLZ_fast x := by simp [wordCLZ_fast]
      rw [this]; exact (u16CLZ_spec x hx).2)
  exact ⟨(wwBitSize_gen (by decide) _ h1 a h).2, (wwBitSize_gen (by decide) _ h2 a h).2⟩

example : wwBitSize 16 [0xFFFF, 0x0100, 0] = 25 ∧ wwHiZeroBits 16 [0xFFFF, 0x0100, 0] = 23 ∧
    wwBitSize 16 [0, 0] = 0 ∧ wwLoZeroBits 16 [0, 0x0100, 0] = 24 := by decide

theorem wwLoZeroBits16_spec (a : List Nat) (h : Wf 16 a) :
    ((∀ k, k < wwLoZeroBits 16 a → (val 16 a).testBit k = false) ∧
      (wwLoZeroBits 16 a < 16 * a.length → (val 16 a).testBit (wwLoZeroBits 16 a) = true)) ∧
    ((∀ k, k < wwLoZeroBitsF 16 a → (val 16 a).testBit k = false) ∧
      (wwLoZeroBitsF 16 a < 16 * a.length → (val 16 a).testBit (wwLoZeroBitsF 16 a) = true)) := by
  have h1 : CtzOK 16 (wordCTZ_safe 16) :=
    CtzOK_of_spec (fun x hx => by
      have : wordCTZ_safe 16 x = u16CTZ_safe x := by simp [wordCTZ_safe]
      rw [this]; exact (u16CTZ_spec x hx).1)
  have h2 : CtzOK 16 (wordCTZ_fast 16) :=
    CtzOK_of_spec (fun x hx => by
      have : wordCTZ_fast 16 x = u16CTZ_fast x := by simp [wordCTZ_fast]
      rw [this]; exact (u16CTZ_spec x hx).2)
  exact ⟨(wwLoZeroBits_gen (by decide) _ h1 a h).2, (wwLoZeroBits_gen (by decide) _ h2 a h).2⟩

/-! ## FAST(uNNCLZ) / FAST(uNNCTZ) at 32 and 64 bits (all words), and the sizes in the SAFE_FAST
build at 32- and 64-bit words.  (The SAFE editions at 32 / 64 bits rest on the branch-free uNNWeight;
they are not proved for all words here — see the report.) -/

theorem u64CLZ_fast_spec (x : Nat) (hx : x < 2 ^ 64) : ClzSpec 64 x (u64CLZ_fast x) :=
  u64CLZ_fast_gen x hx
theorem u32CTZ_fast_spec (x : Nat) (hx : x < 2 ^ 32) : CtzSpec 32 x (u32CTZ_fast x) :=
  u32CTZ_fast_gen x hx
theorem u64CTZ_fast_spec (x : Nat) (hx : x < 2 ^ 64) : CtzSpec 64 x (u64CTZ_fast x) :=
  u64CTZ_fast_gen x hx

example : u64CLZ_fast 0x0000000100000000 = 31 ∧ u32CTZ_fast 0x00A00000 = 21 ∧
    u64CTZ_fast 0x8000000000000000 = 63 ∧ u64CTZ_fast 0 = 64 := by decide

theorem wwSizesF32_spec (a : List Nat) (h : Wf 32 a) :
    (val 32 a < 2 ^ wwBitSizeF 32 a ∧ (0 < wwBitSizeF 32 a → 2 ^ (wwBitSizeF 32 a - 1) ≤ val 32 a) ∧
      wwHiZeroBitsF 32 a + wwBitSizeF 32 a = 32 * a.length) ∧
    ((∀ k, k < wwLoZeroBitsF 32 a → (val 32 a).testBit k = false) ∧
      (wwLoZeroBitsF 32 a < 32 * a.length → (val 32 a).testBit (wwLoZeroBitsF 32 a) = true)) := by
  have h1 : ClzOK 32 (wordCLZ_fast 32) :=
    ClzOK_of_spec (fun x hx => by
      have : wordCLZ_fast 32 x = u32CLZ_fast x := by simp [wordCLZ_fast]
      rw [this]; exact u32CLZ_fast_gen x hx)
  have h2 : CtzOK 32 (wordCTZ_fast 32) :=
    CtzOK_of_spec (fun x hx => by
      have : wordCTZ_fast 32 x = u32CTZ_fast x := by simp [wordCTZ_fast]
      rw [this]; exact u32CTZ_fast_gen x hx)
  exact ⟨(wwBitSize_gen (by decide) _ h1 a h).2, (wwLoZeroBits_gen (by decide) _ h2 a h).2⟩

theorem wwSizesF64_spec (a : List Nat) (h : Wf 64 a) :
    (val 64 a < 2 ^ wwBitSizeF 64 a ∧ (0 < wwBitSizeF 64 a → 2 ^ (wwBitSizeF 64 a - 1) ≤ val 64 a) ∧
      wwHiZeroBitsF 64 a + wwBitSizeF 64 a = 64 * a.length) ∧
    ((∀ k, k < wwLoZeroBitsF 64 a → (val 64 a).testBit k = false) ∧
      (wwLoZeroBitsF 64 a < 64 * a.length → (val 64 a).testBit (wwLoZeroBitsF 64 a) = true)) := by
  have h1 : ClzOK 64 (wordCLZ_fast 64) :=
    ClzOK_of_spec (fun x hx => by
      have : wordCLZ_fast 64 x = u64CLZ_fast x := by simp [wordCLZ_fast]
      rw [this]; exact u64CLZ_fast_gen x hx)
  have h2 : CtzOK 64 (wordCTZ_fast 64) :=
    CtzOK_of_spec (fun x hx => by
      have : wordCTZ_fast 64 x = u64CTZ_fast x := by simp [wordCTZ_fast]
      rw [this]; exact u64CTZ_fast_gen x hx)
  exact ⟨(wwBitSize_gen (by decide) _ h1 a h).2, (wwLoZeroBits_gen (by decide) _ h2 a h).2⟩

example : wwBitSizeF 64 [0, 0x10, 0] = 69 ∧ wwLoZeroBitsF 64 [0, 0x10, 0] = 68 ∧
    wwHiZeroBitsF 64 [0, 0x10, 0] = 123 := by decide

/-! ## wwIsW, wwIsRepW: the SAFE and FAST editions agree and decide what ww.h says -/

/-- wwIsW(a, n, x): `a[0] == x && a[1] == … == a[n-1] == 0` (n = 0: `x == 0`) -/
theorem wwIsW_spec (a : List Nat) (x : Nat) :
    wwIsW_fast a x = wwIsW_safe a x ∧
    (wwIsW_safe a x = true ↔ (a = [] ∧ x = 0) ∨ (∃ as, a = x :: as ∧ ∀ y ∈ as, y = 0)) :=
  wwIsW_both a x

/-- wwIsRepW(a, n, x): every word equals x (n = 0: `x == 0`) -/
theorem wwIsRepW_spec (a : List Nat) (x : Nat) :
    wwIsRepW_fast a x = wwIsRepW_safe a x ∧
    (wwIsRepW_safe a x = true ↔ (a = [] ∧ x = 0) ∨ (a ≠ [] ∧ ∀ y ∈ a, y = x)) :=
  wwIsRepW_both a x

example : wwIsW_safe [7, 0, 0] 7 = true ∧ wwIsW_fast [7, 0, 1] 7 = false ∧
    wwIsRepW_safe [7, 7, 7] 7 = true ∧ wwIsRepW_fast [7, 7, 6] 7 = false ∧
    wwIsRepW_safe [] 1 = false := by decide

/-! ## SAFE(uNNCLZ) / SAFE(uNNCTZ) at 32 and 64 bits, all words; hence the sizes in the DEFAULT build
(wordCLZ / wordCTZ = SAFE editions) at 32- and 64-bit words, unconditionally -/

theorem u32CLZ_safe_spec (x : Nat) (hx : x < 2 ^ 32) : ClzSpec 32 x (u32CLZ_safe x) :=
  Bits.u32CLZ_safe_gen x hx
theorem u64CLZ_safe_spec (x : Nat) (hx : x < 2 ^ 64) : ClzSpec 64 x (u64CLZ_safe x) :=
  Bits.u64CLZ_safe_gen x hx
theorem u32CTZ_safe_spec (x : Nat) (hx : x < 2 ^ 32) : CtzSpec 32 x (u32CTZ_safe x) :=
  Bits.u32CTZ_safe_gen x hx
theorem u64CTZ_safe_spec (x : Nat) (hx : x < 2 ^ 64) : CtzSpec 64 x (u64CTZ_safe x) :=
  Bits.u64CTZ_safe_gen x hx

example : u32CLZ_safe 0x00012345 = 15 ∧ u64CLZ_safe 1 = 63 ∧ u32CTZ_safe 0x00A00000 = 21 ∧
    u64CTZ_safe 0x8000000000000000 = 63 ∧ u64CTZ_safe 0 = 64 ∧ u32CLZ_safe 0 = 32 := by decide

theorem wwSizes32_spec (a : List Nat) (h : Wf 32 a) :
    (val 32 a < 2 ^ wwBitSize 32 a ∧ (0 < wwBitSize 32 a → 2 ^ (wwBitSize 32 a - 1) ≤ val 32 a) ∧
      wwHiZeroBits 32 a + wwBitSize 32 a = 32 * a.length) ∧
    ((∀ k, k < wwLoZeroBits 32 a → (val 32 a).testBit k = false) ∧
      (wwLoZeroBits 32 a < 32 * a.length → (val 32 a).testBit (wwLoZeroBits 32 a) = true)) := by
  have h1 : ClzOK 32 (wordCLZ_safe 32) :=
    ClzOK_of_spec (fun x hx => by
      have : wordCLZ_safe 32 x = u32CLZ_safe x := by simp [wordCLZ_safe]
      rw [this]; exact Bits.u32CLZ_safe_gen x hx)
  have h2 : CtzOK 32 (wordCTZ_safe 32) :=
    CtzOK_of_spec (fun x hx => by
      have : wordCTZ_safe 32 x = u32CTZ_safe x := by simp [wordCTZ_safe]
      rw [this]; exact Bits.u32CTZ_safe_gen x hx)
  exact ⟨(wwBitSize_gen (by decide) _ h1 a h).2, (wwLoZeroBits_gen (by decide) _ h2 a h).2⟩

theorem wwSizes64_spec (a : List Nat) (h : Wf 64 a) :
    (val 64 a < 2 ^ wwBitSize 64 a ∧ (0 < wwBitSize 64 a → 2 ^ (wwBitSize 64 a - 1) ≤ val 64 a) ∧
      wwHiZeroBits 64 a + wwBitSize 64 a = 64 * a.length) ∧
    ((∀ k, k < wwLoZeroBits 64 a → (val 64 a).testBit k = false) ∧
      (wwLoZeroBits 64 a < 64 * a.length → (val 64 a).testBit (wwLoZeroBits 64 a) = true)) := by
  have h1 : ClzOK 64 (wordCLZ_safe 64) :=
    ClzOK_of_spec (fun x hx => by
      have : wordCLZ_safe 64 x = u64CLZ_safe x := by simp [wordCLZ_safe]
      rw [this]; exact Bits.u64CLZ_safe_gen x hx)
  have h2 : CtzOK 64 (wordCTZ_safe 64) :=
    CtzOK_of_spec (fun x hx => by
      have : wordCTZ_safe 64 x = u64CTZ_safe x := by simp [wordCTZ_safe]
      rw [this]; exact Bits.u64CTZ_safe_gen x hx)
  exact ⟨(wwBitSize_gen (by decide) _ h1 a h).2, (wwLoZeroBits_gen (by decide) _ h2 a h).2⟩

example : wwBitSize 64 [0, 0x10, 0] = 69 ∧ wwLoZeroBits 64 [0, 0x10, 0] = 68 ∧
    wwHiZeroBits 64 [0, 0x10, 0] = 123 ∧ wwBitSize 32 [0xFFFFFFFF, 1] = 33 := by decide

/-! ## shifts with carry word (any n, any shift) -/

/-- wwShLoCarry: with V = ⟦a⟧ + carry·2^(n·w) (the carry word on top),
    ⟦a⟧ ← ⌊V / 2^shift⌋ mod 2^(n·w), and the returned word consists of the w bits of V just below
    position `shift` (⌊V·2^w / 2^shift⌋ mod 2^w). -/
theorem wwShLoCarry_spec {w : Nat} (hw : 0 < w) (a : List Nat) (shift carry : Nat) (h : Wf w a)
    (hc : carry < 2 ^ w) :
    (wwShLoCarry w a shift carry).1.length = a.length ∧ Wf w (wwShLoCarry w a shift carry).1 ∧
    val w (wwShLoCarry w a shift carry).1 =
      ((val w a + carry * 2 ^ (w * a.length)) / 2 ^ shift) % 2 ^ (w * a.length) ∧
    (wwShLoCarry w a shift carry).2 =
      ((val w a + carry * 2 ^ (w * a.length)) * 2 ^ w / 2 ^ shift) % 2 ^ w :=
  Bits.wwShLoCarry_val hw a shift carry h hc

example : wwShLoCarry 8 [0x34, 0x12, 0xAB] 12 0xCD = ([0xB1, 0xDA, 0x0C], 0x23) ∧
    wwShLoCarry 8 [0x34, 0x12] 1 1 = ([0x1A, 0x89], 0) ∧
    wwShLoCarry 8 [0x34, 0x12] 27 0xFF = ([0, 0], 0x1F) := by decide

/-- wwShHiCarry: with V = carry + ⟦a⟧·2^w (the carry word below),
    ⟦a⟧ ← ⌊V·2^shift / 2^w⌋ mod 2^(n·w), and the returned word consists of the w bits pushed out
    last at the top (⌊V·2^shift / 2^((n+1)·w)⌋ mod 2^w). -/
theorem wwShHiCarry_spec {w : Nat} (hw : 0 < w) (a : List Nat) (shift carry : Nat) (h : Wf w a)
    (hc : carry < 2 ^ w) :
    (wwShHiCarry w a shift carry).1.length = a.length ∧ Wf w (wwShHiCarry w a shift carry).1 ∧
    val w (wwShHiCarry w a shift carry).1 =
      ((carry + val w a * 2 ^ w) * 2 ^ shift / 2 ^ w) % 2 ^ (w * a.length) ∧
    (wwShHiCarry w a shift carry).2 =
      ((carry + val w a * 2 ^ w) * 2 ^ shift / 2 ^ (w * (a.length + 1))) % 2 ^ w :=
  Bits.wwShHiCarry_val hw a shift carry h hc

example : wwShHiCarry 8 [0x34, 0x12, 0xAB] 12 0xCD = ([0xD0, 0x4C, 0x23], 0xB1) ∧
    wwShHiCarry 8 [0x34, 0x12] 1 0x80 = ([0x69, 0x24], 0) ∧
    wwShHiCarry 8 [0x34, 0x12] 27 0xFF = ([0, 0], 0xF8) := by decide

/-- wwOctetSize (w = 8·O, O = O_PER_W ≥ 1): r with ⟦a⟧ < 2^(8r) and (r > 0 → 2^(8(r−1)) ≤ ⟦a⟧),
    i.e. the index of the last non-zero octet + 1 (0 for the zero number) -/
theorem wwOctetSize_spec {w : Nat} (O : Nat) (hO : 0 < O) (hw8 : w = 8 * O) (a : List Nat)
    (h : Wf w a) :
    val w a < 2 ^ (8 * wwOctetSize w a) ∧
    (0 < wwOctetSize w a → 2 ^ (8 * (wwOctetSize w a - 1)) ≤ val w a) ∧
    wwOctetSize w a ≤ O * a.length :=
  Bits.wwOctetSize_gen O hO hw8 a h

example : wwOctetSize 32 [0xFFFFFFFF, 0x00010000, 0] = 7 ∧ wwOctetSize 64 [0, 0] = 0 ∧
    wwOctetSize 16 [0, 0x00FF] = 3 := by decide

/-! ## u32Parity / u64Parity: all words (the folding `w ^= w >> 2^k` XORs all bits into bit 0) -/

theorem u32Parity_spec (x : Nat) : u32Parity x = popN 32 x % 2 := Bits.u32Parity_gen x
theorem u64Parity_spec (x : Nat) : u64Parity x = popN 64 x % 2 := Bits.u64Parity_gen x

example : u32Parity 0x80000001 = 0 ∧ u32Parity 0x00010101 = 1 ∧ popN 32 0x00010101 = 3 ∧
    u64Parity 0xFFFFFFFFFFFFFFFE = 1 := by decide

/-! ## u32/u64 Shuffle and Deshuffle: all words -/

/-- uNNDeshuffle and uNNShuffle are mutually inverse (every stage
    `t = (w ^ (w >> s)) & m, w ^= t ^ (t << s)` is an involution, Deshuffle runs the stages backwards) -/
theorem u32Deshuffle_Shuffle (x : Nat) :
    u32Deshuffle (u32Shuffle x) = x ∧ u32Shuffle (u32Deshuffle x) = x :=
  ⟨Bits.u32Deshuffle_Shuffle_gen x, Bits.u32Shuffle_Deshuffle_gen x⟩
theorem u64Deshuffle_Shuffle (x : Nat) :
    u64Deshuffle (u64Shuffle x) = x ∧ u64Shuffle (u64Deshuffle x) = x :=
  ⟨Bits.u64Deshuffle_Shuffle_gen x, Bits.u64Shuffle_Deshuffle_gen x⟩

/-- uNNShuffle: bit i of the low half → bit 2i, bit i of the high half → bit 2i + 1 -/
theorem u32Shuffle_spec (x : Nat) (hx : x < 2 ^ 32) :
    u32Shuffle x = shufN 16 (x % 2 ^ 16) (x / 2 ^ 16) := Bits.u32Shuffle_gen x hx
theorem u64Shuffle_spec (x : Nat) (hx : x < 2 ^ 64) :
    u64Shuffle x = shufN 32 (x % 2 ^ 32) (x / 2 ^ 32) := Bits.u64Shuffle_gen x hx

example : u32Shuffle 0xFFFF0000 = 0xAAAAAAAA ∧ u32Deshuffle 0xAAAAAAAA = 0xFFFF0000 ∧
    u64Shuffle 0x00000000FFFFFFFF = 0x5555555555555555 ∧ shufN 16 0 0xFFFF = 0xAAAAAAAA := by decide

/-! ## u32/u64 Rev and Bitrev: all words -/

/-- uNNRev reverses the octets (`octRevN k`: octet i goes to octet k − 1 − i) -/
theorem u32Rev_spec (x : Nat) (hx : x < 2 ^ 32) : u32Rev x = octRevN 4 x := Bits.u32Rev_gen x hx
theorem u64Rev_spec (x : Nat) (hx : x < 2 ^ 64) : u64Rev x = octRevN 8 x := Bits.u64Rev_gen x hx
/-- uNNBitrev reverses the bits (`bitrevN k`: bit i goes to bit k − 1 − i) -/
theorem u32Bitrev_spec (x : Nat) : u32Bitrev x = bitrevN 32 x := Bits.u32Bitrev_gen x
theorem u64Bitrev_spec (x : Nat) : u64Bitrev x = bitrevN 64 x := Bits.u64Bitrev_gen x

example : u32Rev 0x12345678 = 0x78563412 ∧ octRevN 4 0x12345678 = 0x78563412 ∧
    u64Rev 0x0102030405060708 = 0x0807060504030201 ∧ u32Bitrev 0x00000001 = 0x80000000 ∧
    u64Bitrev 0x8000000000000001 = 0x8000000000000001 ∧ bitrevN 32 6 = 0x60000000 := by decide

/-! ## u32Weight / u64Weight: all words.
uNNWeight x = u(NN/2)Weight(lo) + u(NN/2)Weight(hi): lines 1–3 act on the two half-word lanes
independently (the bits a shift carries across the lane boundary are masked, no borrow / carry
crosses it), the tail adds the octet counts; u16Weight is enumerated completely. -/
theorem u32Weight_spec (x : Nat) (hx : x < 2 ^ 32) : u32Weight x = popN 32 x := Bits.u32Weight_gen x hx
theorem u64Weight_spec (x : Nat) (hx : x < 2 ^ 64) : u64Weight x = popN 64 x := Bits.u64Weight_gen x hx

example : u32Weight (2 ^ 32 - 2 ^ 5) = 27 ∧ u64Weight (2 ^ 64 - 2 ^ 0) = 64 ∧
    u32Weight 0xF0F1F3F7 = 22 ∧ popN 32 0xF0F1F3F7 = 22 ∧
    u64Weight 0x8000000100000001 = 3 := by decide

/-- the weight never exceeds the word size -/
theorem uWeight_le (x : Nat) :
    (x < 2 ^ 16 → u16Weight x ≤ 16) ∧ (x < 2 ^ 32 → u32Weight x ≤ 32) ∧ (x < 2 ^ 64 → u64Weight x ≤ 64) :=
  ⟨fun h => by rw [u16Weight_spec x h]; exact Bits.popN_le 16 x,
   fun h => by rw [u32Weight_spec x h]; exact Bits.popN_le 32 x,
   fun h => by rw [u64Weight_spec x h]; exact Bits.popN_le 64 x⟩

/-- uNNParity x = uNNWeight x mod 2 -/
theorem uParity_eq_Weight_mod2 (x : Nat) :
    (x < 2 ^ 16 → u16Parity x = u16Weight x % 2) ∧ (x < 2 ^ 32 → u32Parity x = u32Weight x % 2) ∧
    (x < 2 ^ 64 → u64Parity x = u64Weight x % 2) :=
  ⟨fun h => by rw [u16Parity_spec x h, u16Weight_spec x h],
   fun h => by rw [u32Parity_spec x, u32Weight_spec x h],
   fun h => by rw [u64Parity_spec x, u64Weight_spec x h]⟩

example : u64Parity 0x8000000100000001 = 1 ∧ u64Weight 0x8000000100000001 % 2 = 1 := by decide

/-! ## wwCmpW, logical operations, copying -/

/-- wwCmpW (SAFE and FAST) = three-way comparison of ⟦a⟧ with the word x (−1 / 0 / 1);
    the empty word has value 0 -/
theorem wwCmpW_spec {w : Nat} (a : List Nat) (x : Nat) (h : Wf w a) (hx : x < 2 ^ w) :
    wwCmpW_safe w a x = Bits.cmp3 (val w a) x ∧ wwCmpW_fast w a x = Bits.cmp3 (val w a) x :=
  Bits.wwCmpW_both a x h hx

example : wwCmpW_safe 8 [5, 0, 0] 5 = 0 ∧ wwCmpW_fast 8 [5, 0, 1] 9 = 1 ∧ wwCmpW_safe 8 [4] 9 = -1 ∧
    wwCmpW_fast 8 [] 3 = -1 ∧ Bits.cmp3 (val 8 [5, 0, 1]) 9 = 1 := by decide

/-- wwXor / wwXor2: ⟦c⟧ = ⟦a⟧ xor ⟦b⟧ -/
theorem wwXor_spec {w : Nat} (a b : List Nat) (hl : a.length = b.length) (ha : Wf w a) (hb : Wf w b) :
    (wwXor a b).length = a.length ∧ Wf w (wwXor a b) ∧ val w (wwXor a b) = val w a ^^^ val w b :=
  Bits.wwXor_val a b hl ha hb
theorem wwXor2_spec {w : Nat} (b a : List Nat) (hl : b.length = a.length) (hb : Wf w b) (ha : Wf w a) :
    (wwXor2 b a).length = b.length ∧ Wf w (wwXor2 b a) ∧ val w (wwXor2 b a) = val w b ^^^ val w a :=
  Bits.wwXor_val b a hl hb ha

example : wwXor [0xF0, 0x0F] [0xFF, 0x01] = [0x0F, 0x0E] := by decide

/-- wwCopy copies, wwSwap exchanges (equal lengths) -/
theorem wwCopy_spec (a : List Nat) : wwCopy a = a := by simp [wwCopy]
theorem wwSwap_spec (a b : List Nat) (hl : a.length = b.length) : wwSwap a b = (b, a) := by
  unfold wwSwap
  have h1 : (a.zip b).map (fun p => p.2) = b := List.map_snd_zip (by omega)
  have h2 : (a.zip b).map (fun p => p.1) = a := List.map_fst_zip (by omega)
  rw [h1, h2]

example : wwSwap [1, 2] [3, 4] = ([3, 4], [1, 2]) ∧ wwCopy [7, 8] = [7, 8] := by decide

/-- wwSetW: ⟦a⟧ ← x (n > 0);  wwRepW: every word ← x -/
theorem wwSetW_spec {w : Nat} (a : List Nat) (x : Nat) (hn : a ≠ []) (hx : x < 2 ^ w) :
    (wwSetW a x).length = a.length ∧ Wf w (wwSetW a x) ∧ val w (wwSetW a x) = x := by
  cases a with
  | nil => exact absurd rfl hn
  | cons a0 as =>
    simp only [wwSetW, List.length_cons, List.length_replicate, val_cons, val_replicate_zero,
      Nat.mul_zero, Nat.add_zero, true_and]
    exact ⟨Wf_cons.mpr ⟨hx, Wf_replicate_zero w _⟩, trivial⟩
theorem wwRepW_spec (a : List Nat) (x : Nat) :
    (wwRepW a x).length = a.length ∧ ∀ y ∈ wwRepW a x, y = x := by
  unfold wwRepW
  exact ⟨List.length_replicate, fun y hy => (List.mem_replicate.mp hy).2⟩

example : wwSetW [9, 9, 9] 5 = [5, 0, 0] ∧ wwRepW [9, 9, 9] 5 = [5, 5, 5] := by decide

/-! ## wwFrom / wwTo on a little-endian host (w = 8·O, O = O_PER_W ≥ 1).
`val 8 o` is the little-endian value of the octet string `o` (= `leVal o` of ModelMisc for octets < 256). -/

/-- wwFrom: W_OF_O(count) words, all of them words, and ⟦wwFrom o⟧ = the LE value of the octets -/
theorem wwFrom_spec {w : Nat} (O : Nat) (hO : 0 < O) (hw8 : w = 8 * O) (o : List Nat) (ho : Wf 8 o) :
    (wwFrom w o).length = (o.length + O - 1) / O ∧ Wf w (wwFrom w o) ∧
    val w (wwFrom w o) = val 8 o :=
  ⟨(Bits.wwFrom_val O hO hw8 o).1, Bits.wwFrom_Wf O hw8 o ho, (Bits.wwFrom_val O hO hw8 o).2⟩

/-- wwTo inverts wwFrom -/
theorem wwTo_wwFrom_spec {w : Nat} (O : Nat) (hO : 0 < O) (hw8 : w = 8 * O) (o : List Nat)
    (ho : Wf 8 o) : wwTo w o.length (wwFrom w o) = o :=
  Bits.wwTo_wwFrom O hO hw8 o ho

example : wwFrom 32 [1, 2, 3, 4, 5] = [0x04030201, 5] ∧ wwTo 32 5 [0x04030201, 5] = [1, 2, 3, 4, 5] ∧
    val 32 [0x04030201, 5] = val 8 [1, 2, 3, 4, 5] ∧ wwFrom 64 [] = [] := by decide

end Bee2V.C05

import Bee2V.C05.Drv
/-- driver executable of area C05 (`drv_c05`) -/
def main : IO Unit := Bee2V.Proto.runLoop Bee2V.C05.Drv.handle

/-
C05 — helper lemmas for PropsEtcW.lean: the word-level models of zzJacobi / zzSqrt refine the
value-level models of ModelEtc.lean.
-/
import Bee2V.C05.ModelEtcW
import Bee2V.C05.LemmasGcdW
import Bee2V.C05.PropsDiv
import Bee2V.C05.PropsEtc
import Mathlib.Tactic.Ring
import Mathlib.Tactic.Linarith
namespace Bee2V.C05.EtcW
open Bee2V.C05 Bee2V.C05.Add Bee2V.C05.GcdW

theorem loZerosEF_eq : ∀ f n, loZerosEF f n = loZerosF f n := by
  intro f
  induction f with
  | zero => intro n; rfl
  | succ f ih => intro n; simp only [loZerosEF, loZerosF, ih]

theorem loZerosE_eq (n : Nat) : loZerosE n = loZeros n := loZerosEF_eq n n

theorem and7 (x : Nat) : x &&& 7 = x % 8 := Nat.and_two_pow_sub_one_eq_mod x 3
theorem and3 (x : Nat) : x &&& 3 = x % 4 := Nat.and_two_pow_sub_one_eq_mod x 2

/-- the low 3 bits of a number are those of its low word (w ≥ 3) -/
theorem low_word {w : Nat} (hw : 3 ≤ w) (l : List Nat) :
    l.getD 0 0 % 8 = val w l % 8 ∧ l.getD 0 0 % 4 = val w l % 4 := by
  cases l with
  | nil => simp [val]
  | cons x xs =>
    obtain ⟨k, rfl⟩ : ∃ k, w = k + 3 := ⟨w - 3, by omega⟩
    have hp : 2 ^ (k + 3) * val (k + 3) xs = 8 * (2 ^ k * val (k + 3) xs) := by
      rw [Nat.pow_add]; ring
    rw [val_cons, hp]
    simp only [List.getD_cons_zero]
    omega

theorem getD_take_zero (l : List Nat) (m : Nat) (hm : 0 < m) : (l.take m).getD 0 0 = l.getD 0 0 := by
  cases l with
  | nil => simp
  | cons x xs =>
    obtain ⟨j, rfl⟩ : ∃ j, m = j + 1 := ⟨m - 1, by omega⟩
    simp

theorem getLast_eq_getD (l : List Nat) (h : l ≠ []) : l.getLast h = l.getD (l.length - 1) 0 := by
  rw [List.getLast_eq_getElem, List.getD_eq_getElem?_getD, List.getElem?_eq_getElem]
  rfl

/-- the prefix `u[0 .. n)` after `n <- wwWordSize(u, n)`: same value, top word non-zero -/
theorem norm_prefix {w : Nat} (u : List Nat) (n : Nat) (hu : Wf w u) (hn : n ≤ u.length) :
    wwWordSize (u.take n) ≤ n
    ∧ val w (u.take (wwWordSize (u.take n))) = val w (u.take n)
    ∧ (0 < val w (u.take n) → ∃ h : u.take (wwWordSize (u.take n)) ≠ [],
        (u.take (wwWordSize (u.take n))).getLast h ≠ 0) := by
  have hp := Wf_take hu n
  have hl : (u.take n).length = n := by rw [List.length_take]; omega
  obtain ⟨b1, b2, _⟩ := wordSize_buf (buf_full hp)
  rw [List.take_length] at b1 b2
  rw [hl] at b2
  obtain ⟨s1, s2, s3⟩ := wwWordSize_spec (u.take n)
  generalize wwWordSize (u.take n) = k at *
  have htt : (u.take n).take k = u.take k := by rw [List.take_take, Nat.min_eq_left b2]
  have hv := b1.val_take
  rw [htt] at hv
  refine ⟨b2, hv, fun hpos => ?_⟩
  have hk : 0 < k := by
    rcases Nat.eq_zero_or_pos k with h | h
    · exfalso; rw [h] at hv; simp [val] at hv; omega
    · exact h
  have hlk : (u.take k).length = k := by rw [List.length_take]; omega
  have hne : u.take k ≠ [] := by
    intro h; rw [h] at hlk; simp at hlk; omega
  refine ⟨hne, ?_⟩
  rw [getLast_eq_getD, hlk]
  have h3 := s3 hk
  rw [← htt, List.getD_eq_getElem?_getD, List.getElem?_take_of_lt (by omega),
    ← List.getD_eq_getElem?_getD]
  exact h3


/-- `wwShLo(u, n, s)` on the prefix (the words above n are untouched) -/
theorem shLo_prefix {w : Nat} (hw : 0 < w) (u : List Nat) (n s : Nat) (hu : Wf w u)
    (hn : n ≤ u.length) :
    Wf w (onPrefixW n (fun p => wwShLo w p s) u)
    ∧ (onPrefixW n (fun p => wwShLo w p s) u).length = u.length
    ∧ val w ((onPrefixW n (fun p => wwShLo w p s) u).take n) = val w (u.take n) / 2 ^ s
    ∧ (onPrefixW n (fun p => wwShLo w p s) u).drop n = u.drop n := by
  obtain ⟨s1, s2, s3⟩ := wwShLo_spec hw (u.take n) s (Wf_take hu n)
  have hl : (u.take n).length = n := by rw [List.length_take]; omega
  unfold onPrefixW
  have ht : (wwShLo w (u.take n) s ++ u.drop n).take n = wwShLo w (u.take n) s := by
    rw [List.take_append_of_le_length (by omega), List.take_of_length_le (by omega)]
  have hd : (wwShLo w (u.take n) s ++ u.drop n).drop n = u.drop n := by
    rw [List.drop_append_of_le_length (by omega), List.drop_of_length_le (by omega),
      List.nil_append]
  exact ⟨Wf_append.mpr ⟨s2, Wf_drop hu n⟩, by rw [List.length_append, s1, hl, List.length_drop]; omega,
    by rw [ht, s3], hd⟩

theorem cmpW_one {w : Nat} (hw : 0 < w) (l : List Nat) (hl : Wf w l) :
    wwCmpW_safe w l 1 > 0 ↔ 1 < val w l := by
  have h2 := two_le_two_pow hw
  rw [(wwCmpW_spec l 1 hl (by omega)).1]
  unfold Bits.cmp3
  split_ifs <;> omega

/-- the loop of zzJacobi: word level and value level in lockstep -/
theorem zzJacobiLoopW_spec {w : Nat} (hw : 3 ≤ w) (hs : SizesOK w) :
    ∀ (f : Nat) (u : List Nat) (n : Nat) (v : List Nat) (m : Nat) (t : Int),
      Wf w u → Wf w v → n ≤ m → m ≤ v.length → m ≤ u.length →
      zzJacobiLoopW w f u n v m t = zzJacobiLoop f (val w (u.take n)) (val w (v.take m)) t := by
  have hw0 : 0 < w := by omega
  intro f
  induction f with
  | zero => intro u n v m t _ _ _ _ _; rfl
  | succ f ih =>
    intro u n v m t hu hv hnm hmv hmu
    unfold zzJacobiLoopW zzJacobiLoop
    have hWu := Wf_take hu n
    have hWv := Wf_take hv m
    by_cases hv1 : 1 < val w (v.take m)
    · rw [if_pos ((cmpW_one hw0 _ hWv).mpr hv1), if_pos hv1]
      rw [wwIsZero_safe_spec w, wwIsW_one hw0 _ hWu]
      by_cases hu0 : val w (u.take n) = 0
      · simp only [hu0, decide_true, if_true]
      · simp only [hu0, decide_false, Bool.false_eq_true, if_false]
        by_cases hu1 : val w (u.take n) = 1
        · simp only [hu1, decide_true, if_true]
        · simp only [hu1, decide_false, Bool.false_eq_true, if_false]
          -- the general step
          have hup : 0 < val w (u.take n) := by omega
          have hmpos : 0 < m := by
            rcases Nat.eq_zero_or_pos m with h | h
            · exfalso; rw [h] at hv1; simp [val] at hv1
            · exact h
          have hlz : wwLoZeroBits w (u.take n) = loZerosE (val w (u.take n)) := by
            rw [lz_eq hs _ hWu hup, loZerosE_eq]
          have hv8 : v.getD 0 0 &&& 7 = val w (v.take m) % 8 := by
            rw [and7, ← getD_take_zero v m hmpos]; exact (low_word hw _).1
          have hv4 : v.getD 0 0 &&& 3 = val w (v.take m) % 4 := by
            rw [and3, ← getD_take_zero v m hmpos]; exact (low_word hw _).2
          rw [hlz, hv8, hv4]
          have hstrip : 0 < val w (u.take n) / 2 ^ loZerosE (val w (u.take n)) := by
            rw [loZerosE_eq]; exact (Gcd.strip_pos_le hup).1
          generalize loZerosE (val w (u.take n)) = s at *
          -- u <- u >> s
          obtain ⟨a1, a2, a3, a4⟩ := shLo_prefix hw0 u n s hu (by omega)
          generalize onPrefixW n (fun p => wwShLo w p s) u = u1 at *
          obtain ⟨n1, n2, n3⟩ := norm_prefix u1 n a1 (by omega)
          -- n <- wwWordSize(u, n)
          have hu1pos : 0 < val w (u1.take n) := by
            rw [a3]; exact hstrip
          obtain ⟨hne, htop⟩ := n3 hu1pos
          have hu4 : u1.getD 0 0 &&& 3 = val w (u1.take (wwWordSize (u1.take n))) % 4 := by
            have hkpos : 0 < wwWordSize (u1.take n) := by
              rcases Nat.eq_zero_or_pos (wwWordSize (u1.take n)) with h | h
              · exfalso; rw [h] at hne; simp at hne
              · exact h
            rw [and3, ← getD_take_zero u1 _ hkpos]; exact (low_word hw _).2
          rw [hu4, n2, a3]
          generalize hn' : wwWordSize (u1.take n) = n' at *
          -- v <- v mod u
          have hWu1 := Wf_take a1 n'
          obtain ⟨z1, z2, z3⟩ := zzMod_spec w (v.take m) (u1.take n') hWv hWu1 hne htop
          have hln' : (u1.take n').length = n' := by rw [List.length_take]; omega
          rw [hln'] at z3
          rw [n2, a3] at z1
          have hv2W : Wf w (zzMod w (v.take m) (u1.take n') ++ v.drop n') :=
            Wf_append.mpr ⟨z2, Wf_drop hv _⟩
          have hv2L : (zzMod w (v.take m) (u1.take n') ++ v.drop n').length = v.length := by
            rw [List.length_append, z3, List.length_drop]; omega
          have hv2T : (zzMod w (v.take m) (u1.take n') ++ v.drop n').take n'
              = zzMod w (v.take m) (u1.take n') := by
            rw [List.take_append_of_le_length (by omega), List.take_of_length_le (by omega)]
          have hv2D : (zzMod w (v.take m) (u1.take n') ++ v.drop n').drop n' = v.drop n' := by
            rw [List.drop_append_of_le_length (by omega), List.drop_of_length_le (by omega),
              List.nil_append]
          generalize hv2 : zzMod w (v.take m) (u1.take n') ++ v.drop n' = v2 at *
          -- m <- wwWordSize(v, n)
          obtain ⟨m1, m2, _⟩ := norm_prefix v2 n' hv2W (by omega)
          generalize hm' : wwWordSize (v2.take n') = m' at *
          rw [hv2T, z1] at m2
          -- swap
          have hsw : wwSwap (u1.take n') (v2.take n') = (v2.take n', u1.take n') :=
            wwSwap_spec _ _ (by rw [hln', hv2T, z3])
          rw [hsw]
          simp only []
          have hl2 : (v2.take n').length = n' := by rw [hv2T, z3]
          rw [ih (v2.take n' ++ u1.drop n') m' (u1.take n' ++ v2.drop n') n' _
            (Wf_append.mpr ⟨Wf_take hv2W _, Wf_drop a1 _⟩)
            (Wf_append.mpr ⟨hWu1, Wf_drop hv2W _⟩) m1
            (by rw [List.length_append, hln', List.length_drop]; omega)
            (by rw [List.length_append, hl2, List.length_drop]; omega)]
          have e1 : (v2.take n' ++ u1.drop n').take m' = v2.take m' := by
            rw [List.take_append_of_le_length (by omega), List.take_take, Nat.min_eq_left m1]
          have e2 : (u1.take n' ++ v2.drop n').take n' = u1.take n' := by
            rw [List.take_append_of_le_length (by omega), List.take_of_length_le (by omega)]
          rw [e1, e2, m2, n2, a3]
    · rw [if_neg (fun h => hv1 ((cmpW_one hw0 _ hWv).mp h)), if_neg hv1]


/-- zzJacobi: the word-level model computes the value-level model (b ≠ 0) -/
theorem zzJacobiW_refines {w : Nat} (hw : 3 ≤ w) (hs : SizesOK w) (a b : List Nat)
    (ha : Wf w a) (hb : Wf w b) (hbp : 0 < val w b) :
    zzJacobiW w a b = zzJacobiV (val w a) (val w b) := by
  unfold zzJacobiW zzJacobiV
  simp only []
  obtain ⟨m1, m2, m3⟩ := norm_prefix b b.length hb (Nat.le_refl _)
  rw [List.take_length] at m1 m2 m3
  obtain ⟨hne, htop⟩ := m3 hbp
  generalize hm : wwWordSize b = m at *
  obtain ⟨z1, z2, z3⟩ := zzMod_spec w a (b.take m) ha (Wf_take hb m) hne htop
  have hlm : (b.take m).length = m := by rw [List.length_take]; omega
  rw [hlm] at z3
  rw [m2] at z1
  have hut : (zzMod w a (b.take m) ++ List.replicate (max a.length b.length - m) 0).take m
      = zzMod w a (b.take m) := by
    rw [List.take_append_of_le_length (by omega), List.take_of_length_le (by omega)]
  have huW : Wf w (zzMod w a (b.take m) ++ List.replicate (max a.length b.length - m) 0) :=
    Wf_append.mpr ⟨z2, Wf_replicate_zero' w _⟩
  have huL : m ≤ (zzMod w a (b.take m) ++ List.replicate (max a.length b.length - m) 0).length := by
    rw [List.length_append, z3]; omega
  generalize zzMod w a (b.take m) ++ List.replicate (max a.length b.length - m) 0 = u at *
  obtain ⟨n1, n2, _⟩ := norm_prefix u m huW huL
  rw [zzJacobiLoopW_spec hw hs _ u _ b m 1 huW hb n1 m1 huL, n2, hut, z1, m2]


/-! ## zzSqrt -/

/-- wwWordSize of a word list is the value-level word size of its value -/
theorem wordSize_eq {w : Nat} (hw : 0 < w) (l : List Nat) (hl : Wf w l) :
    wwWordSize l = wordSizeV w (val w l) := by
  obtain ⟨b1, _, b3⟩ := wordSize_buf (buf_full hl)
  rw [List.take_length] at b1 b3
  have h1 := b1.lt
  generalize wwWordSize l = k at *
  have h2 := Etc.wordSizeV_le w (val w l) k hw h1
  rcases Nat.lt_or_ge (wordSizeV w (val w l)) k with h | h
  · exfalso
    have h3 := b3 (by omega)
    have h4 := Etc.wordSizeV_lt w (val w l) hw
    have h5 : 2 ^ (w * wordSizeV w (val w l)) ≤ 2 ^ (w * (k - 1)) :=
      Nat.pow_le_pow_right (by omega) (Nat.mul_le_mul_left _ (by omega))
    omega
  · omega

/-- word i of a number -/
theorem getD_digit {w : Nat} (l : List Nat) (hl : Wf w l) (i : Nat) :
    l.getD i 0 = val w l / 2 ^ (w * i) % 2 ^ w := by
  induction l generalizing i with
  | nil => simp [val]
  | cons x xs ih =>
    obtain ⟨hx, hxs⟩ := Wf_cons.mp hl
    have hB : 0 < 2 ^ w := Nat.two_pow_pos w
    cases i with
    | zero =>
      simp only [List.getD_cons_zero, val_cons, Nat.mul_zero, Nat.pow_zero, Nat.div_one]
      rw [Nat.add_mul_mod_self_left, Nat.mod_eq_of_lt hx]
    | succ j =>
      rw [List.getD_cons_succ, ih hxs j, val_cons, Nat.mul_succ, Nat.pow_add,
        Nat.mul_comm (2 ^ (w * j)), ← Nat.div_div_eq_div_mul,
        Nat.add_mul_div_left _ _ hB, Nat.div_eq_of_lt hx, Nat.zero_add]


theorem getD_append_left (l l' : List Nat) (i : Nat) (h : i < l.length) :
    (l ++ l').getD i 0 = l.getD i 0 := by
  rw [List.getD_eq_getElem?_getD, List.getD_eq_getElem?_getD, List.getElem?_append_left h]

theorem take_mod {w : Nat} (l : List Nat) (k : Nat) (hl : Wf w l) (hk : k ≤ l.length) :
    val w (l.take k) = val w l % 2 ^ (w * k) := by
  have h := val_take_drop w l k hk
  have hlt := Add.val_lt (Wf_take hl k)
  rw [List.length_take, Nat.min_eq_left hk] at hlt
  exact ((divmod_of_eq hlt h.symm).1).symm

/-- the `while (1)` loop of zzSqrt: word level and value level in lockstep.  Carried: the Newton
    invariant `a < (t + 1)^2` and `t < B^((n+1)/2)` (t decreases), which give the side conditions
    of zzDiv (divisor non-empty with non-zero top word, m ≤ n, m ≤ n - m + 1). -/
theorem zzSqrtLoopW_spec {w : Nat} (hw : 0 < w) (a : List Nat) (ha : Wf w a) (hA : val w a ≠ 0)
    (hnV : wordSizeV w (val w a) = a.length) :
    ∀ (f : Nat) (b t : List Nat) (m : Nat), Wf w b → Wf w t → m ≤ b.length → m ≤ t.length →
      val w (b.drop m) = 0 → val w a < (val w (t.take m) + 1) * (val w (t.take m) + 1) →
      val w (t.take m) < 2 ^ (w * ((a.length + 1) / 2)) →
      val w (zzSqrtLoopW w a f b t m).1 = (zzSqrtLoop w (val w a) a.length f (val w (t.take m)) m).1
      ∧ (zzSqrtLoopW w a f b t m).2 = (zzSqrtLoop w (val w a) a.length f (val w (t.take m)) m).2
      ∧ Wf w (zzSqrtLoopW w a f b t m).1 ∧ (zzSqrtLoopW w a f b t m).1.length = b.length := by
  intro f
  induction f with
  | zero =>
    intro b t m hb ht hmb hmt hbz _ _
    have hl : (t.take m).length = m := by rw [List.length_take]; omega
    unfold zzSqrtLoopW zzSqrtLoop
    refine ⟨by rw [val_append, hl, hbz]; simp, rfl, Wf_append.mpr ⟨Wf_take ht _, Wf_drop hb _⟩, ?_⟩
    rw [List.length_append, hl, List.length_drop]; omega
  | succ f ih =>
    intro b t m hb ht hmb hmt hbz hNewton hTh
    have hl : (t.take m).length = m := by rw [List.length_take]; omega
    have hTm := Add.val_lt (Wf_take ht m)
    rw [hl] at hTm
    -- b <- t[0..m)
    have hb'W : Wf w (t.take m ++ b.drop m) := Wf_append.mpr ⟨Wf_take ht _, Wf_drop hb _⟩
    have hb'L : (t.take m ++ b.drop m).length = b.length := by
      rw [List.length_append, hl, List.length_drop]; omega
    have hb'V : val w (t.take m ++ b.drop m) = val w (t.take m) := by
      rw [val_append, hl, hbz]; simp
    have e_bt : (t.take m ++ b.drop m).take m = t.take m := by
      rw [List.take_append_of_le_length (by omega), List.take_of_length_le (by omega)]
    -- value-level facts (as in Etc.zzSqrtLoop_spec)
    have hT0 : val w (t.take m) ≠ 0 := by
      intro h; rw [h] at hNewton; simp at hNewton; omega
    have hTpos : 0 < val w (t.take m) := by omega
    obtain ⟨n1, n2, n3⟩ := norm_prefix t m ht hmt
    have hws := wordSize_eq hw (t.take m) (Wf_take ht m)
    obtain ⟨hm1, hbl⟩ := Etc.wordSizeV_ge w (val w (t.take m)) hw hT0
    have hbu := Etc.wordSizeV_lt w (val w (t.take m)) hw
    have hmh : wordSizeV w (val w (t.take m)) ≤ (a.length + 1) / 2 :=
      Etc.wordSizeV_le w _ _ hw hTh
    have han := Etc.wordSizeV_lt w (val w a) hw
    rw [hnV] at han
    have hn2 : a.length ≤ 2 * wordSizeV w (val w (t.take m)) := by
      rw [← hnV]
      apply Etc.wordSizeV_le w (val w a) _ hw
      calc val w a < (val w (t.take m) + 1) * (val w (t.take m) + 1) := hNewton
        _ ≤ 2 ^ (w * wordSizeV w (val w (t.take m))) * 2 ^ (w * wordSizeV w (val w (t.take m))) :=
          Nat.mul_le_mul hbu hbu
        _ = 2 ^ (w * (2 * wordSizeV w (val w (t.take m)))) := by rw [← Nat.pow_add]; congr 1; ring
    have hapos : 0 < a.length := by
      rcases Nat.eq_zero_or_pos a.length with h | h
      · exfalso; rw [h] at han; simp at han; omega
      · exact h
    unfold zzSqrtLoopW zzSqrtLoop
    simp only []
    rw [Nat.mod_eq_of_lt hTm, e_bt, hws]
    rw [hws] at n1 n2 n3
    generalize hm' : wordSizeV w (val w (t.take m)) = m' at *
    obtain ⟨hne, htop⟩ := n3 hTpos
    have e_bt' : (t.take m ++ b.drop m).take m' = t.take m' := by
      rw [List.take_append_of_le_length (by omega), List.take_take, Nat.min_eq_left n1]
    have hb'D : val w ((t.take m ++ b.drop m).drop m') = 0 := by
      have hsplit := val_take_drop w (t.take m ++ b.drop m) m' (by rw [hb'L]; omega)
      rw [e_bt', n2, hb'V] at hsplit
      have hp := Nat.two_pow_pos (w * m')
      rcases Nat.eq_zero_or_pos (val w ((t.take m ++ b.drop m).drop m')) with h | h
      · exact h
      · exfalso
        have : 2 ^ (w * m') * 1 ≤ 2 ^ (w * m') * val w ((t.take m ++ b.drop m).drop m') :=
          Nat.mul_le_mul_left _ h
        omega
    rw [e_bt']
    generalize hbb : t.take m ++ b.drop m = b' at *
    -- the division
    have hlm' : (t.take m').length = m' := by rw [List.length_take]; omega
    obtain ⟨d1, d2, d3, d4, d5, d6⟩ := zzDiv_spec w a (t.take m') ha (Wf_take ht _) hne htop
      (by rw [hlm']; omega)
    obtain ⟨dq, dr⟩ := zzDiv_divmod w a (t.take m') ha (Wf_take ht _) hne htop (by rw [hlm']; omega)
    rw [n2] at dq dr
    rw [hlm'] at d5 d6
    generalize zzDiv w a (t.take m') = qr at *
    -- t <- quotient words
    have hqm : m' ≤ qr.1.length := by rw [d5]; omega
    have e_tt : (qr.1 ++ t.drop qr.1.length).take m' = qr.1.take m' := by
      rw [List.take_append_of_le_length hqm]
    have htl : val w (qr.1.take m') = val w a / val w (t.take m) % 2 ^ (w * m') := by
      rw [take_mod qr.1 m' d3 hqm, dq]
    have hC1 : (a.length - m' = m' ∧ (qr.1 ++ t.drop qr.1.length).getD m' 0 > 0)
        ↔ (a.length - m' = m' ∧ val w a / val w (t.take m) / 2 ^ (w * m') % 2 ^ w > 0) := by
      constructor
      · rintro ⟨h1, h2⟩
        refine ⟨h1, ?_⟩
        rw [getD_append_left _ _ _ (by rw [d5]; omega), getD_digit qr.1 d3, dq] at h2
        exact h2
      · rintro ⟨h1, h2⟩
        refine ⟨h1, ?_⟩
        rw [getD_append_left _ _ _ (by rw [d5]; omega), getD_digit qr.1 d3, dq]
        exact h2
    rw [e_tt]
    have h2w := two_le_two_pow hw
    have hql : (qr.1.take m').length = m' := by rw [List.length_take]; omega
    have hcmp := wwCmp_safe_spec w (t.take m') (qr.1.take m') (Wf_take ht _) (Wf_take d3 _)
      (by rw [hlm', hql])
    rw [n2, htl] at hcmp
    have hzr : wwIsZero_safe qr.2 = decide (val w a % val w (t.take m) = 0) := by
      rw [wwIsZero_safe_spec w, dr]
    generalize hTL : val w a / val w (t.take m) % 2 ^ (w * m') = TL at *
    by_cases c1 : a.length - m' = m' ∧ val w a / val w (t.take m) / 2 ^ (w * m') % 2 ^ w > 0
    · rw [if_pos (hC1.mpr c1), if_pos c1]
      exact ⟨hb'V, rfl, hb'W, hb'L⟩
    · rw [if_neg (fun h => c1 (hC1.mp h)), if_neg c1]
      by_cases c2 : val w (t.take m) = TL
      · have h0 : wwCmp_safe (t.take m') (qr.1.take m') = 0 := by
          rw [hcmp, if_neg (by omega), if_neg (by omega)]
        rw [if_pos h0, if_pos c2]
        exact ⟨hb'V, hzr, hb'W, hb'L⟩
      · by_cases c3 : val w (t.take m) < TL
        · have h1 : wwCmp_safe (t.take m') (qr.1.take m') = -1 := by rw [hcmp, if_pos c3]
          rw [if_neg (by rw [h1]; decide), if_pos (by rw [h1]; decide), if_neg c2, if_pos c3]
          exact ⟨hb'V, rfl, hb'W, hb'L⟩
        · have h1 : wwCmp_safe (t.take m') (qr.1.take m') = 1 := by
            rw [hcmp, if_neg c3, if_pos (by omega)]
          rw [if_neg (by rw [h1]; decide), if_neg (by rw [h1]; decide), if_neg c2, if_neg c3]
          -- the quotient fits m' words, so TL is the quotient (as in Etc.zzSqrtLoop_spec)
          have hq1 : val w a / val w (t.take m) < 2 ^ (w * (m' + 1)) :=
            Etc.quot_bound w (val w a) (val w (t.take m)) m' a.length hm1 hbl han (m' + 1) (by omega)
          have hq : val w a / val w (t.take m) < 2 ^ (w * m') := by
            by_cases hnm : a.length - m' = m'
            · have h0 : val w a / val w (t.take m) / 2 ^ (w * m') % 2 ^ w = 0 := by
                by_contra h
                exact c1 ⟨hnm, by omega⟩
              have h2 : val w a / val w (t.take m) / 2 ^ (w * m') < 2 ^ w := by
                rw [Nat.div_lt_iff_lt_mul (Nat.two_pow_pos _), ← Nat.pow_add]
                have : w + w * m' = w * (m' + 1) := by ring
                rw [this]; exact hq1
              rw [Nat.mod_eq_of_lt h2] at h0
              by_contra h
              have : 1 ≤ val w a / val w (t.take m) / 2 ^ (w * m') :=
                (Nat.le_div_iff_mul_le (Nat.two_pow_pos _)).2 (by omega)
              omega
            · exact Etc.quot_bound w (val w a) (val w (t.take m)) m' a.length hm1 hbl han m' (by omega)
          have hTLq : TL = val w a / val w (t.take m) := by
            rw [← hTL]; exact Nat.mod_eq_of_lt hq
          have hng := Etc.newton_ge (val w a) (val w (t.take m)) (Nat.sqrt (val w a)) hTpos
            (Nat.sqrt_le (val w a))
          have hT2lt : (TL + val w (t.take m)) / 2 < val w (t.take m) := by omega
          have hNew2 : val w a < ((TL + val w (t.take m)) / 2 + 1) * ((TL + val w (t.take m)) / 2 + 1) := by
            have h1' : Nat.sqrt (val w a) + 1 ≤ (TL + val w (t.take m)) / 2 + 1 := by
              rw [hTLq]; omega
            calc val w a < (Nat.sqrt (val w a) + 1) * (Nat.sqrt (val w a) + 1) := Nat.lt_succ_sqrt _
              _ ≤ _ := Nat.mul_le_mul h1' h1'
          -- t[m] = zzAdd2(t, b, m); wwShLo(t, m + 1, 1)
          obtain ⟨s1, s2, s3, s4⟩ := zzAdd2_spec w (qr.1.take m') (t.take m') (Wf_take d3 _)
            (Wf_take ht _) (by rw [hql, hlm'])
          rw [hql, htl, n2] at s1
          rw [hql] at s4
          generalize zzAdd2 w (qr.1.take m') (t.take m') = sm at *
          have hpreW : Wf w (sm.1 ++ [sm.2]) :=
            Wf_append.mpr ⟨s3, Wf_cons.mpr ⟨by omega, Wf_nil w⟩⟩
          have hpreL : (sm.1 ++ [sm.2]).length = m' + 1 := by
            rw [List.length_append, s4]; rfl
          have hpreV : val w (sm.1 ++ [sm.2]) = TL + val w (t.take m) := by
            rw [val_append, s4]; simp only [val, Nat.mul_zero, Nat.add_zero]; exact s1
          have ht2W : Wf w (sm.1 ++ [sm.2] ++ (qr.1 ++ t.drop qr.1.length).drop (m' + 1)) :=
            Wf_append.mpr ⟨hpreW, Wf_drop (Wf_append.mpr ⟨d3, Wf_drop ht _⟩) _⟩
          have ht2T : (sm.1 ++ [sm.2] ++ (qr.1 ++ t.drop qr.1.length).drop (m' + 1)).take (m' + 1)
              = sm.1 ++ [sm.2] := by
            rw [List.take_append_of_le_length (by omega), List.take_of_length_le (by omega)]
          have ht2L : m' + 1 ≤ (sm.1 ++ [sm.2] ++ (qr.1 ++ t.drop qr.1.length).drop (m' + 1)).length := by
            rw [List.length_append, hpreL]; omega
          generalize sm.1 ++ [sm.2] ++ (qr.1 ++ t.drop qr.1.length).drop (m' + 1) = t2 at *
          obtain ⟨a1, a2, a3, _⟩ := shLo_prefix hw t2 (m' + 1) 1 ht2W ht2L
          rw [ht2T, hpreV, Nat.pow_one] at a3
          generalize onPrefixW (m' + 1) (fun p => wwShLo w p 1) t2 = t3 at *
          have hT3 : val w (t3.take m') = (TL + val w (t.take m)) / 2 := by
            have htt : t3.take m' = (t3.take (m' + 1)).take m' := by
              rw [List.take_take, Nat.min_eq_left (by omega)]
            rw [htt, take_mod _ m' (Wf_take a1 _) (by rw [List.length_take]; omega), a3]
            exact Nat.mod_eq_of_lt (by omega)
          have := ih b' t3 m' hb'W a1 (by rw [hb'L]; omega) (by omega) hb'D
            (by rw [hT3]; exact hNew2) (by rw [hT3]; omega)
          rw [hT3, hb'L] at this
          exact this


theorem bitSize_unique {x k : Nat} (hx : x ≠ 0) (h1 : x < 2 ^ k) (h2 : 0 < k → 2 ^ (k - 1) ≤ x) :
    k = bitSizeV x := by
  have g1 := Etc.bitSizeV_lt x
  obtain ⟨g2, g3⟩ := Etc.bitSizeV_ge x hx
  rcases Nat.lt_trichotomy k (bitSizeV x) with h | h | h
  · exfalso
    have : 2 ^ k ≤ 2 ^ (bitSizeV x - 1) := Nat.pow_le_pow_right (by omega) (by omega)
    omega
  · exact h
  · exfalso
    have h3 := h2 (by omega)
    have : 2 ^ bitSizeV x ≤ 2 ^ (k - 1) := Nat.pow_le_pow_right (by omega) (by omega)
    omega

/-- zzSqrt: the word-level model computes the value-level model -/
theorem zzSqrtW_refines {w : Nat} (hw : 0 < w) (hs : SizesOK w) (a : List Nat) (ha : Wf w a) :
    val w (zzSqrtW w a).1 = (zzSqrtV w a.length (val w a)).1
    ∧ (zzSqrtW w a).2 = (zzSqrtV w a.length (val w a)).2
    ∧ Wf w (zzSqrtW w a).1 ∧ (zzSqrtW w a).1.length = (a.length + 1) / 2 := by
  have hws := wordSize_eq hw a ha
  unfold zzSqrtW zzSqrtV
  simp only []
  rw [hws]
  by_cases h0 : wordSizeV w (val w a) = 0
  · simp only [h0, if_true]
    exact ⟨val_replicate_zero' w _, trivial, Wf_replicate_zero' w _, List.length_replicate⟩
  · simp only [h0, if_false]
    have hA : val w a ≠ 0 := by
      intro h; rw [h] at h0; exact h0 (Etc.wordSizeV_zero w)
    -- the normalised operand
    obtain ⟨n1, n2, _⟩ := norm_prefix a a.length ha (Nat.le_refl _)
    rw [List.take_length, hws] at n1 n2
    generalize hn : wordSizeV w (val w a) = n at *
    have hal : (a.take n).length = n := by rw [List.length_take]; omega
    have haW := Wf_take ha n
    -- wwBitSize
    obtain ⟨⟨z1, z2⟩, _⟩ := hs (a.take n) haW
    rw [n2] at z1 z2
    have hbits := bitSize_unique hA z1 z2
    rw [hbits]
    -- the start value 2^k - 1
    have han := Etc.wordSizeV_lt w (val w a) hw
    rw [hn] at han
    have hL : bitSizeV (val w a) ≤ w * n := by
      by_contra h
      obtain ⟨_, h2⟩ := Etc.bitSizeV_ge (val w a) hA
      have := Nat.pow_le_pow_right (show 0 < 2 by omega) (show w * n ≤ bitSizeV (val w a) - 1 by omega)
      omega
    have hmm : w * n ≤ 2 * (w * ((n + 1) / 2)) := by
      rw [← Nat.mul_assoc, Nat.mul_comm 2 w, Nat.mul_assoc]
      exact Nat.mul_le_mul_left _ (by omega)
    have hk : (bitSizeV (val w a) + 1) / 2 ≤ w * ((n + 1) / 2) := by omega
    have hk2 : bitSizeV (val w a) ≤ 2 * ((bitSizeV (val w a) + 1) / 2) := by omega
    have hbl := Etc.bitSizeV_lt (val w a)
    generalize (bitSizeV (val w a) + 1) / 2 = k at *
    have hm0 : w * ((n + 1) / 2) ≤ w * ((a.length + 1) / 2) := Nat.mul_le_mul_left _ (by omega)
    have hp1 : 2 ^ k ≤ 2 ^ (w * ((a.length + 1) / 2)) := Nat.pow_le_pow_right (by omega) (by omega)
    have hp2 : 2 ^ (w * ((a.length + 1) / 2)) < 2 ^ (w * ((a.length + 1) / 2 + 1)) :=
      Nat.pow_lt_pow_right (by omega) (by rw [Nat.mul_succ]; omega)
    have hkpos := Nat.two_pow_pos k
    have e1 : 2 ^ k % 2 ^ (w * ((a.length + 1) / 2 + 1)) = 2 ^ k := Nat.mod_eq_of_lt (by omega)
    have e2 : (2 ^ k + 2 ^ (w * ((a.length + 1) / 2 + 1)) - 1) % 2 ^ (w * ((a.length + 1) / 2 + 1))
        = 2 ^ k - 1 := by
      have : 2 ^ k + 2 ^ (w * ((a.length + 1) / 2 + 1)) - 1
          = (2 ^ k - 1) + 2 ^ (w * ((a.length + 1) / 2 + 1)) := by omega
      rw [this, Nat.add_mod_right]
      exact Nat.mod_eq_of_lt (by omega)
    rw [e1, e2]
    -- wwSetBit / zzSubW2
    have hzl : (List.replicate ((a.length + 1) / 2 + 1) 0).length = (a.length + 1) / 2 + 1 :=
      List.length_replicate
    obtain ⟨b1, b2, b3⟩ := wwSetBit_spec hw (List.replicate ((a.length + 1) / 2 + 1) 0) k true
      (by rw [hzl, Nat.mul_succ]; omega) (Wf_replicate_zero' w _)
    rw [val_replicate_zero' w] at b3
    simp only [Nat.zero_div, Nat.zero_mod, Nat.zero_mul, Nat.add_zero, Nat.zero_add,
      Bool.toNat_true, Nat.one_mul] at b3
    rw [hzl] at b1
    generalize wwSetBit w (List.replicate ((a.length + 1) / 2 + 1) 0) k true = t0 at *
    have h2w := two_le_two_pow hw
    obtain ⟨c1, _, c3, c4, c5⟩ := zzSubW2_spec w t0 1 b2 (by omega)
    have hne0 : t0 ≠ [] := by intro h; rw [h] at b1; simp at b1
    rw [c3 hne0, if_neg (by omega), Nat.mul_zero, Nat.add_zero] at c1
    rw [b1] at c5
    generalize (zzSubW2 w t0 1).1 = t1 at *
    have ht1V : val w t1 = 2 ^ k - 1 := by omega
    have ht1T : val w (t1.take ((a.length + 1) / 2)) = 2 ^ k - 1 := by
      rw [take_mod t1 _ c4 (by omega), ht1V]
      exact Nat.mod_eq_of_lt (by omega)
    have hpw : 2 ^ k ≤ 2 ^ (w * ((n + 1) / 2)) := Nat.pow_le_pow_right (by omega) hk
    have := zzSqrtLoopW_spec hw (a.take n) haW (by rw [n2]; exact hA) (by rw [n2, hal, hn])
      (val w t1 + 1) (List.replicate ((a.length + 1) / 2) 0) t1 ((a.length + 1) / 2)
      (Wf_replicate_zero' w _) c4 (by rw [List.length_replicate]) (by omega)
      (by rw [List.drop_of_length_le (by rw [List.length_replicate])]; rfl)
      (by
        rw [ht1T, n2]
        have h2 : 2 ^ bitSizeV (val w a) ≤ 2 ^ (2 * k) := Nat.pow_le_pow_right (by omega) hk2
        have h3 : 2 ^ (2 * k) = 2 ^ k * 2 ^ k := by rw [← Nat.pow_add]; congr 1; ring
        have h4 : 2 ^ k - 1 + 1 = 2 ^ k := by omega
        rw [h4]; omega)
      (by rw [ht1T, hal]; omega)
    rw [ht1T, n2, hal, ht1V, List.length_replicate] at this
    rw [ht1V]
    exact this

end Bee2V.C05.EtcW

/-
C05 — gf2Tr, gf2QSolve (gf2.c), ppMinPoly, ppIsIrred (pp_etc.c) = exact arithmetic in
GF(2)[x]/(f) (value-level models of ModelGf2.lean; helper lemmas in LemmasGf2.lean, which
builds the `CommRing` structure of GF(2)[x]/(f) on Nat codes from the finished theory of
`Spec.clmul` / `pmod` in LemmasPp.lean).

What irreducibility of f (degree m) provides is taken as explicit hypotheses of the theorems (nothing is postulated):
  `FrobFix f m`   : f ≠ 0, deg f = m, and x^(2^m) = x for every reduced x (iterated qrSqr);
  `NoZeroDiv f m` : no zero divisors among reduced codes.
Both are decidable for a concrete f (see the examples).  `FrobFix` alone does NOT make the
trace 0/1 (example with f = product of the three irreducible quartics below).
-/
import Bee2V.C05.LemmasGf2
namespace Bee2V.C05
open Bee2V.C05.Spec Bee2V.C05.Gf2

/-! ## gf2Tr -/

/-- gf2Tr, ring identity (any f ≠ 0, any reduced a, m ≥ 1 turns): the loop `t <- t^2 + a`
    ends with `t = Σ_{i<m} a^(2^i) mod f` (`gf2TrSum` = xor of the iterated squares) -/
theorem gf2TrVal_sum (f a m : Nat) (hf : f ≠ 0) (ha : a < 2 ^ f.log2) (hm : 1 ≤ m) :
    gf2TrVal f m a = gf2TrSum f a m := trVal_sum' f a m hf ha hm

/-- the trace value is additive (ring identity) -/
theorem gf2TrVal_add (f a b m : Nat) (hf : f ≠ 0) (ha : a < 2 ^ f.log2) (hb : b < 2 ^ f.log2)
    (hm : 1 ≤ m) : gf2TrVal f m (a ^^^ b) = gf2TrVal f m a ^^^ gf2TrVal f m b :=
  trVal_add' f a b m hf ha hb hm

/-- Tr(x^2) = Tr(x) when Frobenius^m is the identity -/
theorem gf2TrVal_sqr (f a m : Nat) (hF : FrobFix f m) (ha : a < 2 ^ m) (hm : 1 ≤ m) :
    gf2TrVal f m (gfSqr f a) = gf2TrVal f m a := trVal_sqr' f a m hF ha hm

/-- in a field GF(2^m) the loop value is 0 or 1 (header: "След совпадает либо с нулем, либо с
    единицей поля"; it is the C `ASSERT(qrIsUnity(t, f))`), so gf2Tr returns TRUE iff Tr = 1 -/
theorem gf2TrVal_bit (f a m : Nat) (hF : FrobFix f m) (hZ : NoZeroDiv f m) (ha : a < 2 ^ m)
    (hm : 1 ≤ m) : gf2TrVal f m a = 0 ∨ gf2TrVal f m a = 1 := trVal_bit' f a m hF hZ ha hm

theorem gf2TrV_iff (f a m : Nat) (hF : FrobFix f m) (hZ : NoZeroDiv f m) (ha : a < 2 ^ m)
    (hm : 1 ≤ m) : gf2TrV f m a = true ↔ gf2TrVal f m a = 1 := by
  unfold gf2TrV
  rcases gf2TrVal_bit f a m hF hZ ha hm with h | h <;> simp [h]

-- the hypotheses are satisfiable: x^5 + x^2 + 1 and x^7 + x + 1
example : FrobFix 0b100101 5 ∧ NoZeroDiv 0b100101 5 := by
  refine ⟨⟨by decide, by decide, ?_⟩, ?_⟩
  · decide +kernel
  · have h : ∀ x, x < 2 ^ 5 → ∀ y, y < 2 ^ 5 → gfMul 0b100101 x y = 0 → x = 0 ∨ y = 0 := by
      decide +kernel
    exact fun x y hx hy => h x hx y hy
example : FrobFix 0b10000011 7 := ⟨by decide, by decide, by decide +kernel⟩
example : gf2TrVal 0b100101 5 0b10110 = gf2TrSum 0b100101 0b10110 5
    ∧ gf2TrV 0b100101 5 0b00111 = true ∧ gf2TrV 0b100101 5 0b00110 = false := by decide +kernel
-- FrobFix alone is not enough for "trace ∈ {0, 1}": f = (x^4+x+1)(x^4+x^3+1)(x^4+x^3+x^2+x+1)
-- = 4681 has x^(2^12) = x for all 4096 reduced x (checked by native evaluation only:
-- `(List.range 4096).all fun x => gf2SqrN 4681 12 x == x` is `true`; too slow for the kernel),
-- yet the loop value for a = x is neither 0 nor 1, and the ring has zero divisors:
example : gf2TrVal 4681 12 2 = 278 ∧ ¬ NoZeroDiv 4681 12 := by
  refine ⟨by decide +kernel, ?_⟩
  intro h
  have := h 0b10011 (clmul 0b11001 0b11111) (by decide) (by decide +kernel) (by decide +kernel)
  revert this
  decide +kernel

/-! ## gf2QSolve -/

/-- gf2QSolve returns TRUE (header: m odd, a, b in the field; f odd; `a^2` invertible when
    a ≠ 0 — what a field gives; then ppDivModV is the quotient by PropsPp.ppDivModV_spec):
    the stored x is reduced and satisfies `x^2 + a x + b = 0` in GF(2)[x]/(f). -/
theorem gf2QSolveV_sound (f m a b x : Nat) (hF : FrobFix f m) (hodd : m % 2 = 1)
    (hfo : f % 2 = 1) (ha : a < 2 ^ m) (hb : b < 2 ^ m) (hg : a ≠ 0 → pgcd (gfSqr f a) f = 1)
    (h : gf2QSolveV f m a b = some x) :
    x < 2 ^ m ∧ gfSqr f x ^^^ gfMul f a x ^^^ b = 0 :=
  qsolve_sound' f m a b x hF hodd hfo ha hb hg h

/-- gf2QSolve returns FALSE only for a, b ≠ 0 with Tr(b / a^2) ≠ 0, and then the equation has
    no root at all. -/
theorem gf2QSolveV_none (f m a b : Nat) (hF : FrobFix f m) (hodd : m % 2 = 1)
    (hfo : f % 2 = 1) (ha : a < 2 ^ m) (hb : b < 2 ^ m) (hg : a ≠ 0 → pgcd (gfSqr f a) f = 1)
    (h : gf2QSolveV f m a b = none) :
    a ≠ 0 ∧ b ≠ 0 ∧ gf2TrVal f m (ppDivModV b (gfSqr f a) f) ≠ 0
      ∧ ∀ x, x < 2 ^ m → gfSqr f x ^^^ gfMul f a x ^^^ b ≠ 0 :=
  qsolve_none' f m a b hF hodd hfo ha hb hg h

example : gf2QSolveV 0b100101 5 0b00111 0b10001 = some 14
    ∧ gfSqr 0b100101 14 ^^^ gfMul 0b100101 0b00111 14 ^^^ 0b10001 = 0
    ∧ pgcd (gfSqr 0b100101 0b00111) 0b100101 = 1 := by decide +kernel
example : gf2QSolveV 0b100101 5 0b00111 0b10000 = none ∧ gf2QSolveV 0b100101 5 0 0b10110 = some 29
    ∧ gf2QSolveV 0b100101 5 0b110 0 = some 0 := by decide +kernel

/-! ## instantiation at a concrete field: GF(2^7) = GF(2)[x]/(x^7 + x + 1)

All hypotheses are discharged by kernel evaluation, so the theorems above apply unconditionally
to this field (m = 7 is odd, f is odd). -/

theorem gf128_frobFix : FrobFix 0b10000011 7 := ⟨by decide, by decide, by decide +kernel⟩

theorem gf128_noZeroDiv : NoZeroDiv 0b10000011 7 := by
  have h : ∀ x, x < 2 ^ 7 → ∀ y, y < 2 ^ 7 → gfMul 0b10000011 x y = 0 → x = 0 ∨ y = 0 := by
    decide +kernel
  exact fun x y hx hy => h x hx y hy

theorem gf128_invertible : ∀ a, a < 2 ^ 7 → a ≠ 0 → pgcd (gfSqr 0b10000011 a) 0b10000011 = 1 := by
  decide +kernel

/-- in GF(2^7): the trace loop ends in 0 or 1, and gf2Tr returns TRUE exactly for trace 1 -/
theorem gf128_tr (a : Nat) (ha : a < 2 ^ 7) :
    (gf2TrVal 0b10000011 7 a = 0 ∨ gf2TrVal 0b10000011 7 a = 1)
      ∧ (gf2TrV 0b10000011 7 a = true ↔ gf2TrVal 0b10000011 7 a = 1) :=
  ⟨gf2TrVal_bit _ a 7 gf128_frobFix gf128_noZeroDiv ha (by decide),
   gf2TrV_iff _ a 7 gf128_frobFix gf128_noZeroDiv ha (by decide)⟩

/-- in GF(2^7): gf2QSolve is correct and complete — TRUE comes with a root, FALSE means that
    x^2 + a x + b has no root -/
theorem gf128_qsolve (a b : Nat) (ha : a < 2 ^ 7) (hb : b < 2 ^ 7) :
    (∀ x, gf2QSolveV 0b10000011 7 a b = some x →
        x < 2 ^ 7 ∧ gfSqr 0b10000011 x ^^^ gfMul 0b10000011 a x ^^^ b = 0)
      ∧ (gf2QSolveV 0b10000011 7 a b = none →
        ∀ x, x < 2 ^ 7 → gfSqr 0b10000011 x ^^^ gfMul 0b10000011 a x ^^^ b ≠ 0) :=
  ⟨fun x h => gf2QSolveV_sound _ 7 a b x gf128_frobFix (by decide) (by decide) ha hb
      (gf128_invertible a ha) h,
   fun h => (gf2QSolveV_none _ 7 a b gf128_frobFix (by decide) (by decide) ha hb
      (gf128_invertible a ha) h).2.2.2⟩

/-! ## ppMinPoly -/

/- Remark: "the coefficients of x^l … x^{2l-1} of da·a vanish" makes da a true annihilator
   (deg(da·a mod x^{2l}) < deg da) only when the linear complexity of the sequence is ≤ l; for
   e.g. l = 1, a = 0b01 the C code (and the model) returns 1, and no annihilator of degree ≤ 1
   exists — the header does not state this restriction.  The theorem below characterises the
   result for ALL inputs: it is the generator of the solutions of the "key equation"
   g·a = r + k·x^{2l}, deg g ≤ l, deg r < l. -/

/-- ppMinPoly (l ≥ 1; the sequence = the low 2l bits of a, as wwTrimHi does): the Euclid loop on
    (x^{2l}, a) as written returns da ≠ 0 with deg da ≤ l (so it fits the W_OF_B(l+1) words of
    b: the C ASSERT on `nq + nda`), da·a mod x^{2l} has degree < l, and da is MINIMAL: every
    g ≠ 0 with deg g ≤ l and g·a = r + k·x^{2l}, deg r < l, is a polynomial multiple of da
    (in particular deg da ≤ deg g). -/
theorem ppMinPolyV_spec (a l : Nat) (hl : 1 ≤ l) :
    ppMinPolyV a l ≠ 0 ∧ (ppMinPolyV a l).log2 ≤ l
      ∧ clmul (ppMinPolyV a l) (a % 2 ^ (2 * l)) % 2 ^ (2 * l) < 2 ^ l
      ∧ ∀ g r k, g ≠ 0 → g.log2 ≤ l → r < 2 ^ l →
          clmul g (a % 2 ^ (2 * l)) ^^^ r = clmul k (2 ^ (2 * l)) →
          (∃ h', g = clmul h' (ppMinPolyV a l)) ∧ (ppMinPolyV a l).log2 ≤ g.log2 := by
  obtain ⟨h1, h2, h3⟩ := minPolyV_spec' a l hl
  exact ⟨h1, h2, h3, fun g r k hg0 hgl hr hk => minPolyV_minimal' a l g r hl hg0 hgl hr ⟨k, hk⟩⟩

-- the sequence 1,0,1,1,0,1,1,0 (period 3: s_{j+2} = s_{j+1} + s_j) has minimal polynomial x^2+x+1
example : ppMinPolyV 0b10110110 4 = 0b111 ∧ ppMinPolyV 0 5 = 1 ∧ ppMinPolyV (2 ^ 10 - 1) 5 = 0b11
    ∧ clmul 0b111 0b10110110 % 2 ^ 8 = 0b10 ∧ ppMinPolyV 0b01 1 = 1 := by decide +kernel

/-! ## ppIsIrred -/

/-- ppIsIrred as written (un-reduced start h = x^2, the `h + x == 0` early FALSE, ppGCD by the
    binary algorithm of ModelPp, squaring skipped in the last turn) returns exactly what the
    Ben-Or specification `Spec.pIsIrred` returns, for every a.  (Both compute
    gcd(a, x^(2^i) + x) = 1 for i = 1 … deg a / 2; the link of Ben-Or's criterion to mathematical
    irreducibility is not part of this theorem.) -/
theorem ppIsIrredV_spec (a : Nat) : ppIsIrredV a = pIsIrred a := isIrredV_eq' a

example : ppIsIrredV (2 ^ 17 + 2 ^ 3 + 1) = true
    ∧ ppIsIrredV (2 ^ 17 + 2 ^ 2 + 1) = false ∧ ppIsIrredV 0b10011 = true
    ∧ ppIsIrredV 0b10101 = false ∧ ppIsIrredV 1 = false ∧ ppIsIrredV 0b11 = true
    ∧ ppIsIrredV 0b110 = false := by decide +kernel

end Bee2V.C05

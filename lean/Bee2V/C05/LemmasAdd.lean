/-
C05 — helper lemmas for the additive part of the arithmetic layer (PropsAdd.lean).

Structure:
  §1 word-level facts (`%` by the base unfolded into a case split, `|||` on {0,1})
  §2 `val` facts (bound, injectivity, append)
  §3 generic two-list carry loop `loop2` and its add / sub specifications
  §4 the model loops of zz_add.c as instances of `loop2`, single-step lemmas
  §5 one-list loops (zzAddW, zzSubW and their SAFE_FAST bodies)
-/
import Bee2V.C05.ModelAdd
import Mathlib.Tactic.Ring
import Mathlib.Tactic.Linarith
namespace Bee2V.C05.Add
open Bee2V.C05

/-! ## §1 words -/

theorem lor01 {a b : Nat} (ha : a ≤ 1) (hb : b ≤ 1) : a ||| b = if a = 0 then b else 1 := by
  obtain rfl | rfl : a = 0 ∨ a = 1 := by omega
  · simp
  · obtain rfl | rfl : b = 0 ∨ b = 1 := by omega
    all_goals rfl

theorem mul01 (B : Nat) {c : Nat} (hc : c ≤ 1) : B * c = if c = 0 then 0 else B := by
  obtain rfl | rfl : c = 0 ∨ c = 1 := by omega
  all_goals simp

theorem wless01_le (x y : Nat) : wless01 x y ≤ 1 := by
  show (if x < y then 1 else 0) ≤ 1
  split <;> omega

theorem mod_wrap {a B : Nat} (h : a < 2 * B) : a % B = if a < B then a else a - B := by
  split
  · exact Nat.mod_eq_of_lt ‹_›
  · rw [Nat.mod_eq_sub_mod (by omega)]; exact Nat.mod_eq_of_lt (by omega)

theorem two_le_two_pow {w : Nat} (hw : 0 < w) : 2 ≤ 2 ^ w := by
  calc 2 = 2 ^ 1 := rfl
    _ ≤ 2 ^ w := Nat.pow_le_pow_right (by omega) hw

/-- one iteration of the regular zzAdd body, base `B` opaque -/
theorem addStepB {B x y c : Nat} (hx : x < B) (hy : y < B) (hc : c ≤ 1) :
    let t := (x + c) % B
    let c1 := wless01 t c
    let s := (t + y) % B
    let c2 := c1 ||| wless01 s t
    s + B * c2 = x + y + c ∧ s < B ∧ c2 ≤ 1 := by
  intro t c1 s c2
  have ht : t = if x + c < B then x + c else x + c - B := mod_wrap (by omega)
  have htB : t < B := Nat.mod_lt _ (by omega)
  have hs : s = if t + y < B then t + y else t + y - B := mod_wrap (by omega)
  have hc1 : c1 = if t < c then 1 else 0 := rfl
  have hc2 : c2 = if c1 = 0 then (if s < t then 1 else 0) else 1 :=
    lor01 (wless01_le _ _) (wless01_le _ _)
  clear_value t c1 s c2
  subst hc2 hc1
  split_ifs at * <;> subst_vars <;> simp <;> omega

/-- one iteration of the `SAFE_FAST` zzAdd body -/
theorem addStepFB {B x y c : Nat} (hx : x < B) (hy : y < B) (hc : c ≤ 1) :
    let t := (x + c) % B
    let r : Nat × Nat := if t < c then (y, c) else ((t + y) % B, wless01 ((t + y) % B) y)
    r.1 + B * r.2 = x + y + c ∧ r.1 < B ∧ r.2 ≤ 1 := by
  intro t r
  have hBc := mul01 B hc
  have ht : t = if x + c < B then x + c else x + c - B := mod_wrap (by omega)
  have htB : t < B := Nat.mod_lt _ (by omega)
  have hs : (t + y) % B = if t + y < B then t + y else t + y - B := mod_wrap (by omega)
  have hr : r = if t < c then (y, c) else ((t + y) % B, if (t + y) % B < y then 1 else 0) := rfl
  clear_value t r
  rw [hs] at hr
  subst hr
  split_ifs at * <;> subst_vars <;> simp <;> omega

/-- one iteration of the regular zzSub body -/
theorem subStepB {B x y c : Nat} (hx : x < B) (hy : y < B) (hc : c ≤ 1) :
    let t := (y + c) % B
    let b2 := wless01 t c ||| wless01 x t
    let s := (x + (B - t % B)) % B
    s + y + c = x + B * b2 ∧ s < B ∧ b2 ≤ 1 := by
  intro t b2 s
  have ht : t = if y + c < B then y + c else y + c - B := mod_wrap (by omega)
  have htB : t < B := Nat.mod_lt _ (by omega)
  have hs : s = if x + (B - t % B) < B then x + (B - t % B) else x + (B - t % B) - B :=
    mod_wrap (by omega)
  have hb2 : b2 = if (if t < c then 1 else 0) = 0 then (if x < t then 1 else 0) else 1 :=
    lor01 (wless01_le _ _) (wless01_le _ _)
  rw [Nat.mod_eq_of_lt htB] at hs
  clear_value t b2 s
  subst hb2
  split_ifs at * <;> subst_vars <;> simp <;> omega

/-- one iteration of the `SAFE_FAST` zzSub body (needs `c < B`, i.e. a base of at least 2) -/
theorem subStepFB {B x y c : Nat} (hB : 2 ≤ B) (hx : x < B) (hy : y < B) (hc : c ≤ 1) :
    let t := (x + (B - c % B)) % B
    let r : Nat × Nat :=
      if t > B - 1 - c % B then (B - 1 - y % B, c)
      else ((t + (B - y % B)) % B, wgreater01 ((t + (B - y % B)) % B) (B - 1 - y % B))
    r.1 + y + c = x + B * r.2 ∧ r.1 < B ∧ r.2 ≤ 1 := by
  intro t r
  have hBc := mul01 B hc
  have hcB : c % B = c := Nat.mod_eq_of_lt (by omega)
  have hyB : y % B = y := Nat.mod_eq_of_lt hy
  have ht : t = if x + (B - c % B) < B then x + (B - c % B) else x + (B - c % B) - B :=
    mod_wrap (by omega)
  have htB : t < B := Nat.mod_lt _ (by omega)
  have hs : (t + (B - y % B)) % B
      = if t + (B - y % B) < B then t + (B - y % B) else t + (B - y % B) - B := mod_wrap (by omega)
  have hr : r = if t > B - 1 - c % B then (B - 1 - y % B, c)
      else ((t + (B - y % B)) % B, if B - 1 - y % B < (t + (B - y % B)) % B then 1 else 0) := rfl
  clear_value t r
  rw [hs] at hr
  rw [hcB] at ht hr
  rw [hyB] at hr
  subst hr
  split_ifs at * <;> subst_vars <;> simp <;> omega

/-! ## §2 `val` -/

theorem val_lt {w : Nat} {a : List Nat} (ha : Wf w a) : val w a < 2 ^ (w * a.length) := by
  induction a with
  | nil => simp [val]
  | cons x xs ih =>
    obtain ⟨hx, hxs⟩ := Wf_cons.mp ha
    have h := ih hxs
    have h2 : 2 ^ w * (val w xs + 1) ≤ 2 ^ w * 2 ^ (w * xs.length) := Nat.mul_le_mul_left _ h
    simp only [val_cons, List.length_cons, Nat.mul_succ, Nat.pow_add] at *
    rw [Nat.mul_comm (2 ^ (w * xs.length)) (2 ^ w)]
    omega

/-- a value together with the next digit determines the low word and the rest -/
theorem cons_inj_aux {B x y u v : Nat} (hx : x < B) (hy : y < B) (h : x + B * u = y + B * v) :
    x = y ∧ u = v := by
  have h1 : (x + B * u) % B = (y + B * v) % B := by rw [h]
  rw [Nat.add_mul_mod_self_left, Nat.add_mul_mod_self_left, Nat.mod_eq_of_lt hx,
    Nat.mod_eq_of_lt hy] at h1
  subst h1
  have h2 : B * u = B * v := by omega
  exact ⟨rfl, Nat.eq_of_mul_eq_mul_left (by omega) h2⟩

theorem val_inj {w : Nat} {a b : List Nat} (ha : Wf w a) (hb : Wf w b)
    (hl : a.length = b.length) (h : val w a = val w b) : a = b := by
  induction a generalizing b with
  | nil => cases b with
    | nil => rfl
    | cons y ys => simp at hl
  | cons x xs ih =>
    cases b with
    | nil => simp at hl
    | cons y ys =>
      obtain ⟨hx, hxs⟩ := Wf_cons.mp ha
      obtain ⟨hy, hys⟩ := Wf_cons.mp hb
      obtain ⟨h1, h2⟩ := cons_inj_aux hx hy h
      rw [h1, ih hxs hys (by simpa using hl) h2]

theorem val_append (w : Nat) (a b : List Nat) :
    val w (a ++ b) = val w a + 2 ^ (w * a.length) * val w b := by
  induction a with
  | nil => simp [val]
  | cons x xs ih =>
    simp only [List.cons_append, val_cons, ih, List.length_cons, Nat.mul_succ, Nat.pow_add]
    ring

theorem Wf_append {w : Nat} {a b : List Nat} : Wf w (a ++ b) ↔ Wf w a ∧ Wf w b := by
  simp only [Wf, List.mem_append]
  constructor
  · intro h; exact ⟨fun x hx => h x (Or.inl hx), fun x hx => h x (Or.inr hx)⟩
  · rintro ⟨h1, h2⟩ x (hx | hx)
    · exact h1 x hx
    · exact h2 x hx

/-- quotient and remainder read off a `low + P * high` decomposition -/
theorem divmod_of_eq {r P c V : Nat} (hr : r < P) (h : r + P * c = V) : V % P = r ∧ V / P = c := by
  subst h
  have hP : 0 < P := by omega
  rw [Nat.add_mul_mod_self_left, Nat.mod_eq_of_lt hr, Nat.add_mul_div_left _ _ hP,
    Nat.div_eq_of_lt hr, Nat.zero_add]
  exact ⟨rfl, rfl⟩

/-! ## §3 generic two-list loop -/

/-- the common shape of the loops of zz_add.c: per index a word function of the two input words
    and the running carry/borrow -/
def loop2 (f : Nat → Nat → Nat → Nat × Nat) : List Nat → List Nat → Nat → List Nat × Nat
  | x :: xs, y :: ys, c =>
    let r := loop2 f xs ys (f x y c).2
    ((f x y c).1 :: r.1, r.2)
  | _, _, c => ([], c)

/-- `f` is a correct word adder: `(sum word, carry')` with `s + B c' = x + y + c` -/
def AddStepOK (w : Nat) (f : Nat → Nat → Nat → Nat × Nat) : Prop :=
  ∀ x y c, x < 2 ^ w → y < 2 ^ w → c ≤ 1 →
    (f x y c).1 + 2 ^ w * (f x y c).2 = x + y + c ∧ (f x y c).1 < 2 ^ w ∧ (f x y c).2 ≤ 1

/-- `f` is a correct word subtractor: `s + y + c = x + B c'` -/
def SubStepOK (w : Nat) (f : Nat → Nat → Nat → Nat × Nat) : Prop :=
  ∀ x y c, x < 2 ^ w → y < 2 ^ w → c ≤ 1 →
    (f x y c).1 + y + c = x + 2 ^ w * (f x y c).2 ∧ (f x y c).1 < 2 ^ w ∧ (f x y c).2 ≤ 1

theorem add_glue {B P s c' x y c vr cout va vb : Nat}
    (h1 : s + B * c' = x + y + c) (h2 : vr + P * cout = va + vb + c') :
    (s + B * vr) + (B * P) * cout = (x + B * va) + (y + B * vb) + c := by
  have h3 : B * (vr + P * cout) = B * (va + vb + c') := by rw [h2]
  simp only [Nat.mul_add, ← Nat.mul_assoc] at h3
  omega

theorem sub_glue {B P s c' x y c vr cout va vb : Nat}
    (h1 : s + y + c = x + B * c') (h2 : vr + vb + c' = va + P * cout) :
    (s + B * vr) + (y + B * vb) + c = (x + B * va) + (B * P) * cout := by
  have h3 : B * (vr + vb + c') = B * (va + P * cout) := by rw [h2]
  simp only [Nat.mul_add, ← Nat.mul_assoc] at h3
  omega

theorem loop2_add {w : Nat} {f : Nat → Nat → Nat → Nat × Nat} (hf : AddStepOK w f)
    (a b : List Nat) (c : Nat)
    (ha : Wf w a) (hb : Wf w b) (hl : a.length = b.length) (hc : c ≤ 1) :
    val w (loop2 f a b c).1 + 2 ^ (w * a.length) * (loop2 f a b c).2 = val w a + val w b + c
    ∧ (loop2 f a b c).2 ≤ 1 ∧ Wf w (loop2 f a b c).1
    ∧ (loop2 f a b c).1.length = a.length := by
  induction a generalizing b c with
  | nil => cases b <;> simp_all [loop2, val, Wf_nil]
  | cons x xs ih =>
    cases b with
    | nil => simp at hl
    | cons y ys =>
      obtain ⟨hx, hxs⟩ := Wf_cons.mp ha
      obtain ⟨hy, hys⟩ := Wf_cons.mp hb
      obtain ⟨h1, h2, h3⟩ := hf x y c hx hy hc
      obtain ⟨i1, i2, i3, i4⟩ := ih ys (f x y c).2 hxs hys (by simpa using hl) h3
      simp only [loop2, val_cons, List.length_cons, Nat.mul_succ, Nat.pow_add]
      refine ⟨?_, i2, Wf_cons.mpr ⟨h2, i3⟩, by rw [i4]⟩
      rw [Nat.mul_comm (2 ^ (w * xs.length)) (2 ^ w)]
      exact add_glue h1 i1

theorem loop2_sub {w : Nat} {f : Nat → Nat → Nat → Nat × Nat} (hf : SubStepOK w f)
    (a b : List Nat) (c : Nat)
    (ha : Wf w a) (hb : Wf w b) (hl : a.length = b.length) (hc : c ≤ 1) :
    val w (loop2 f a b c).1 + val w b + c = val w a + 2 ^ (w * a.length) * (loop2 f a b c).2
    ∧ (loop2 f a b c).2 ≤ 1 ∧ Wf w (loop2 f a b c).1
    ∧ (loop2 f a b c).1.length = a.length := by
  induction a generalizing b c with
  | nil => cases b <;> simp_all [loop2, val, Wf_nil]
  | cons x xs ih =>
    cases b with
    | nil => simp at hl
    | cons y ys =>
      obtain ⟨hx, hxs⟩ := Wf_cons.mp ha
      obtain ⟨hy, hys⟩ := Wf_cons.mp hb
      obtain ⟨h1, h2, h3⟩ := hf x y c hx hy hc
      obtain ⟨i1, i2, i3, i4⟩ := ih ys (f x y c).2 hxs hys (by simpa using hl) h3
      simp only [loop2, val_cons, List.length_cons, Nat.mul_succ, Nat.pow_add]
      refine ⟨?_, i2, Wf_cons.mpr ⟨h2, i3⟩, by rw [i4]⟩
      rw [Nat.mul_comm (2 ^ (w * xs.length)) (2 ^ w)]
      exact sub_glue h1 i1

/-- the borrow of a full-length subtraction is the comparison of the operands -/
theorem borrow_eq_lt {r b a P c : Nat} (hr : r < P) (hc : c ≤ 1) (_ha : a < P)
    (h : r + b = a + P * c) : c = if a < b then 1 else 0 := by
  have := mul01 P hc
  split <;> split_ifs at this <;> omega

/-! ## §4 the loops of zz_add.c as instances -/

def fAdd (w : Nat) (x y c : Nat) : Nat × Nat :=
  (wadd w (wadd w x c) y, wless01 (wadd w x c) c ||| wless01 (wadd w (wadd w x c) y) (wadd w x c))
def fAddF (w : Nat) (x y c : Nat) : Nat × Nat :=
  if wadd w x c < c then (y, c)
  else (wadd w (wadd w x c) y, wless01 (wadd w (wadd w x c) y) y)
/-- zzAdd2(b, a): x = b[i], y = a[i] -/
def fAdd2 (w : Nat) (x y c : Nat) : Nat × Nat :=
  (wadd w x (wadd w y c), wless01 (wadd w y c) c ||| wless01 (wadd w x (wadd w y c)) (wadd w y c))
def fAdd2F (w : Nat) (x y c : Nat) : Nat × Nat :=
  if wadd w y c ≥ c then (wadd w (wadd w y c) x, wless01 (wadd w (wadd w y c) x) x)
  else (x, c)
def fSub (w : Nat) (x y c : Nat) : Nat × Nat :=
  (wsub w x (wadd w y c), wless01 (wadd w y c) c ||| wless01 x (wadd w y c))
def fSubF (w : Nat) (x y c : Nat) : Nat × Nat :=
  if wsub w x c > wnot w c then (wnot w y, c)
  else (wsub w (wsub w x c) y, wgreater01 (wsub w (wsub w x c) y) (wnot w y))

theorem zzAddLoop_eq (w : Nat) (a b : List Nat) (c : Nat) :
    zzAddLoop w a b c = loop2 (fAdd w) a b c := by
  induction a generalizing b c with
  | nil => simp [zzAddLoop, loop2]
  | cons x xs ih => cases b <;> simp [zzAddLoop, loop2, fAdd, ih]

theorem zzAddFLoop_eq (w : Nat) (a b : List Nat) (c : Nat) :
    zzAddFLoop w a b c = loop2 (fAddF w) a b c := by
  induction a generalizing b c with
  | nil => simp [zzAddFLoop, loop2]
  | cons x xs ih =>
    cases b with
    | nil => simp [zzAddFLoop, loop2]
    | cons y ys =>
      simp only [zzAddFLoop, loop2, fAddF, ih]
      split <;> rfl

theorem zzAdd2Loop_eq (w : Nat) (b a : List Nat) (c : Nat) :
    zzAdd2Loop w b a c = loop2 (fAdd2 w) b a c := by
  induction b generalizing a c with
  | nil => simp [zzAdd2Loop, loop2]
  | cons x xs ih => cases a <;> simp [zzAdd2Loop, loop2, fAdd2, ih]

theorem zzAdd2FLoop_eq (w : Nat) (b a : List Nat) (c : Nat) :
    zzAdd2FLoop w b a c = loop2 (fAdd2F w) b a c := by
  induction b generalizing a c with
  | nil => simp [zzAdd2FLoop, loop2]
  | cons x xs ih =>
    cases a with
    | nil => simp [zzAdd2FLoop, loop2]
    | cons y ys =>
      simp only [zzAdd2FLoop, loop2, fAdd2F, ih]
      split <;> rfl

theorem zzSubLoop_eq (w : Nat) (a b : List Nat) (c : Nat) :
    zzSubLoop w a b c = loop2 (fSub w) a b c := by
  induction a generalizing b c with
  | nil => simp [zzSubLoop, loop2]
  | cons x xs ih => cases b <;> simp [zzSubLoop, loop2, fSub, ih]

theorem zzSub2Loop_eq (w : Nat) (b a : List Nat) (c : Nat) :
    zzSub2Loop w b a c = loop2 (fSub w) b a c := by
  induction b generalizing a c with
  | nil => simp [zzSub2Loop, loop2]
  | cons x xs ih => cases a <;> simp [zzSub2Loop, loop2, fSub, ih]

theorem zzSubFLoop_eq (w : Nat) (a b : List Nat) (c : Nat) :
    zzSubFLoop w a b c = loop2 (fSubF w) a b c := by
  induction a generalizing b c with
  | nil => simp [zzSubFLoop, loop2]
  | cons x xs ih =>
    cases b with
    | nil => simp [zzSubFLoop, loop2]
    | cons y ys =>
      simp only [zzSubFLoop, loop2, fSubF, ih]
      split <;> rfl

theorem zzSub2FLoop_eq (w : Nat) (b a : List Nat) (c : Nat) :
    zzSub2FLoop w b a c = loop2 (fSubF w) b a c := by
  induction b generalizing a c with
  | nil => simp [zzSub2FLoop, loop2]
  | cons x xs ih =>
    cases a with
    | nil => simp [zzSub2FLoop, loop2]
    | cons y ys =>
      simp only [zzSub2FLoop, loop2, fSubF, ih]
      split <;> rfl

theorem fAdd_ok (w : Nat) : AddStepOK w (fAdd w) := fun _ _ _ hx hy hc => addStepB hx hy hc
theorem fAddF_ok (w : Nat) : AddStepOK w (fAddF w) := by
  intro x y c hx hy hc
  have := addStepFB hx hy hc
  simp only [fAddF]
  split <;> simp_all
theorem fAdd2_ok (w : Nat) : AddStepOK w (fAdd2 w) := by
  intro x y c hx hy hc
  have := addStepB hy hx hc
  simp only [fAdd2, wadd, Nat.add_comm x] at *
  omega
theorem fAdd2F_ok (w : Nat) : AddStepOK w (fAdd2F w) := by
  intro x y c hx hy hc
  have := addStepFB hy hx hc
  simp only [fAdd2F, ge_iff_le]
  rw [Nat.add_comm x y]
  by_cases h : wadd w y c < c
  · rw [if_neg (by omega)]
    simpa [h] using this
  · rw [if_pos (by omega)]
    simpa [h] using this
theorem fSub_ok (w : Nat) : SubStepOK w (fSub w) := fun _ _ _ hx hy hc => subStepB hx hy hc
theorem fSubF_ok {w : Nat} (hw : 0 < w) : SubStepOK w (fSubF w) := by
  intro x y c hx hy hc
  have := subStepFB (two_le_two_pow hw) hx hy hc
  simp only [fSubF]
  split <;> simp_all

/-! ## §5 one-list loops -/

theorem addWStepB {B a x : Nat} (ha : a < B) (hx : x < B) :
    (a + x) % B + B * wless01 ((a + x) % B) x = a + x ∧ (a + x) % B < B
    ∧ wless01 ((a + x) % B) x ≤ 1 ∧ wless01 ((a + x) % B) x < B := by
  have hs : (a + x) % B = if a + x < B then a + x else a + x - B := mod_wrap (by omega)
  rw [hs]
  show _ + B * (if _ < x then 1 else 0) = _ ∧ _ ∧ (if _ < x then 1 else 0) ≤ 1 ∧ (if _ < x then 1 else 0) < B
  split_ifs <;> omega

theorem subWStepB {B a x : Nat} (ha : a < B) (hx : x < B) :
    (a + (B - x % B)) % B + x = a + B * wless01 (B - 1 - x % B) ((a + (B - x % B)) % B)
    ∧ (a + (B - x % B)) % B < B
    ∧ wless01 (B - 1 - x % B) ((a + (B - x % B)) % B) ≤ 1
    ∧ wless01 (B - 1 - x % B) ((a + (B - x % B)) % B) < B := by
  rw [Nat.mod_eq_of_lt hx]
  have hs : (a + (B - x)) % B = if a + (B - x) < B then a + (B - x) else a + (B - x) - B :=
    mod_wrap (by omega)
  rw [hs]
  show _ + x = a + B * (if _ < _ then 1 else 0) ∧ _ ∧ (if _ < _ then 1 else 0) ≤ 1
    ∧ (if _ < _ then 1 else 0) < B
  split_ifs <;> omega

theorem glue1_add {B P s c' a x vr cout va : Nat}
    (h1 : s + B * c' = a + x) (h2 : vr + P * cout = va + c') :
    (s + B * vr) + (B * P) * cout = (a + B * va) + x := by
  have h3 : B * (vr + P * cout) = B * (va + c') := by rw [h2]
  simp only [Nat.mul_add, ← Nat.mul_assoc] at h3
  omega

theorem glue1_sub {B P s c' a x vr cout va : Nat}
    (h1 : s + x = a + B * c') (h2 : vr + c' = va + P * cout) :
    (s + B * vr) + x = (a + B * va) + (B * P) * cout := by
  have h3 : B * (vr + c') = B * (va + P * cout) := by rw [h2]
  simp only [Nat.mul_add, ← Nat.mul_assoc] at h3
  omega

theorem zzAddW_spec (w : Nat) (a : List Nat) (x : Nat) (ha : Wf w a) (hx : x < 2 ^ w) :
    val w (zzAddW w a x).1 + 2 ^ (w * a.length) * (zzAddW w a x).2 = val w a + x
    ∧ (zzAddW w a x).2 < 2 ^ w ∧ (a ≠ [] → (zzAddW w a x).2 ≤ 1)
    ∧ Wf w (zzAddW w a x).1 ∧ (zzAddW w a x).1.length = a.length := by
  induction a generalizing x with
  | nil => simp [zzAddW, val, Wf_nil, hx]
  | cons y ys ih =>
    obtain ⟨hy, hys⟩ := Wf_cons.mp ha
    obtain ⟨h1, h2, h3, h4⟩ := addWStepB hy hx
    obtain ⟨i1, i2, i3, i4, i5⟩ := ih _ hys h4
    simp only [zzAddW, val_cons, List.length_cons, Nat.mul_succ, Nat.pow_add]
    refine ⟨?_, i2, fun _ => ?_, Wf_cons.mpr ⟨h2, i4⟩, by rw [i5]⟩
    · rw [Nat.mul_comm (2 ^ (w * ys.length)) (2 ^ w)]
      exact glue1_add h1 i1
    · cases ys with
      | nil => simpa [zzAddW] using h3
      | cons z zs => exact i3 (by simp)

theorem zzSubW_spec (w : Nat) (a : List Nat) (x : Nat) (ha : Wf w a) (hx : x < 2 ^ w) :
    val w (zzSubW w a x).1 + x = val w a + 2 ^ (w * a.length) * (zzSubW w a x).2
    ∧ (zzSubW w a x).2 < 2 ^ w ∧ (a ≠ [] → (zzSubW w a x).2 ≤ 1)
    ∧ Wf w (zzSubW w a x).1 ∧ (zzSubW w a x).1.length = a.length := by
  induction a generalizing x with
  | nil => simp [zzSubW, val, Wf_nil, hx]
  | cons y ys ih =>
    obtain ⟨hy, hys⟩ := Wf_cons.mp ha
    obtain ⟨h1, h2, h3, h4⟩ := subWStepB hy hx
    obtain ⟨i1, i2, i3, i4, i5⟩ := ih _ hys h4
    simp only [zzSubW, val_cons, List.length_cons, Nat.mul_succ, Nat.pow_add]
    refine ⟨?_, i2, fun _ => ?_, Wf_cons.mpr ⟨h2, i4⟩, by rw [i5]⟩
    · rw [Nat.mul_comm (2 ^ (w * ys.length)) (2 ^ w)]
      exact glue1_sub h1 i1
    · cases ys with
      | nil => simpa [zzSubW] using h3
      | cons z zs => exact i3 (by simp)

theorem zzAddW_zero (w : Nat) (a : List Nat) (ha : Wf w a) : zzAddW w a 0 = (a, 0) := by
  induction a with
  | nil => rfl
  | cons y ys ih =>
    obtain ⟨hy, hys⟩ := Wf_cons.mp ha
    simp [zzAddW, wadd, wless01, Nat.mod_eq_of_lt hy, ih hys]

theorem zzSubW_zero (w : Nat) (a : List Nat) (ha : Wf w a) : zzSubW w a 0 = (a, 0) := by
  induction a with
  | nil => rfl
  | cons y ys ih =>
    obtain ⟨hy, hys⟩ := Wf_cons.mp ha
    have h0 : (y + 2 ^ w) % 2 ^ w = y := by
      rw [Nat.add_mod_right]; exact Nat.mod_eq_of_lt hy
    have h1 : ¬ (2 ^ w - 1 < y) := by omega
    simp [zzSubW, wsub, wnot, wless01, Nat.zero_mod, h0, h1, ih hys]

/-- the early exit of the SAFE_FAST body of zzAddW2 does not change the result -/
theorem zzAddW2F_eq (w : Nat) (a : List Nat) (x : Nat) (ha : Wf w a) :
    zzAddW2F w a x = zzAddW w a x := by
  induction a generalizing x with
  | nil => rfl
  | cons y ys ih =>
    obtain ⟨hy, hys⟩ := Wf_cons.mp ha
    by_cases h : x = 0
    · subst h
      rw [zzAddW_zero w _ ha]; simp [zzAddW2F]
    · simp only [zzAddW2F, zzAddW, if_neg h, ih _ hys]

theorem zzSubW2F_eq (w : Nat) (a : List Nat) (x : Nat) (ha : Wf w a) :
    zzSubW2F w a x = zzSubW w a x := by
  induction a generalizing x with
  | nil => rfl
  | cons y ys ih =>
    obtain ⟨hy, hys⟩ := Wf_cons.mp ha
    by_cases h : x = 0
    · subst h
      rw [zzSubW_zero w _ ha]; simp [zzSubW2F]
    · simp only [zzSubW2F, zzSubW, if_neg h, ih _ hys]

theorem val_map_wnot (w : Nat) (a : List Nat) (ha : Wf w a) :
    val w (a.map (wnot w)) + val w a + 1 = 2 ^ (w * a.length) := by
  induction a with
  | nil => simp [val]
  | cons y ys ih =>
    obtain ⟨hy, hys⟩ := Wf_cons.mp ha
    have h := ih hys
    have h3 : 2 ^ w * (val w (ys.map (wnot w)) + val w ys + 1) = 2 ^ w * 2 ^ (w * ys.length) := by
      rw [h]
    simp only [List.map_cons, val_cons, List.length_cons, Nat.mul_succ, Nat.pow_add, wnot,
      Nat.mod_eq_of_lt hy, Nat.mul_add] at *
    rw [Nat.mul_comm (2 ^ (w * ys.length)) (2 ^ w)]
    omega

theorem Wf_map_wnot (w : Nat) (a : List Nat) : Wf w (a.map (wnot w)) := by
  intro x hx
  obtain ⟨y, _, rfl⟩ := List.mem_map.mp hx
  have := Nat.two_pow_pos w
  show 2 ^ w - 1 - y % 2 ^ w < 2 ^ w
  omega

/-- two (result, carry) pairs with the same `value + P * carry` coincide -/
theorem result_unique {w n V : Nat} {r1 r2 : List Nat × Nat}
    (h1 : val w r1.1 + 2 ^ (w * n) * r1.2 = V) (h2 : val w r2.1 + 2 ^ (w * n) * r2.2 = V)
    (w1 : Wf w r1.1) (w2 : Wf w r2.1) (l1 : r1.1.length = n) (l2 : r2.1.length = n) : r1 = r2 := by
  have b1 := val_lt w1
  have b2 := val_lt w2
  rw [l1] at b1
  rw [l2] at b2
  obtain ⟨e1, e2⟩ := cons_inj_aux b1 b2 (h1.trans h2.symm)
  have e3 := val_inj w1 w2 (l1.trans l2.symm) e1
  exact Prod.ext e3 e2

/-! ## §6 ww.c : comparisons -/

theorem nat_xor_eq_zero {x y : Nat} : x ^^^ y = 0 ↔ x = y := by
  constructor
  · intro h
    apply Nat.eq_of_testBit_eq
    intro i
    have h2 := congrArg (fun z => Nat.testBit z i) h
    simpa [Nat.testBit_xor] using h2
  · rintro rfl
    exact Nat.xor_self _

theorem foldl_or_eq_zero {α : Type} (g : α → Nat) (l : List α) (d0 : Nat) :
    l.foldl (fun d p => d ||| g p) d0 = 0 ↔ d0 = 0 ∧ ∀ p ∈ l, g p = 0 := by
  induction l generalizing d0 with
  | nil => simp
  | cons q qs ih =>
    simp only [List.foldl_cons, ih, Nat.or_eq_zero_iff, List.mem_cons, forall_eq_or_imp]
    tauto

theorem zip_all_eq {a b : List Nat} (hl : a.length = b.length) :
    (∀ p ∈ a.zip b, p.1 = p.2) ↔ a = b := by
  induction a generalizing b with
  | nil => cases b with
    | nil => simp
    | cons y ys => simp at hl
  | cons x xs ih =>
    cases b with
    | nil => simp at hl
    | cons y ys =>
      have := ih (b := ys) (by simpa using hl)
      simp only [List.zip_cons_cons, List.mem_cons, forall_eq_or_imp, this, List.cons.injEq]

theorem wwEq_fastLoop_iff (l : List (Nat × Nat)) :
    wwEq_fastLoop l = true ↔ ∀ p ∈ l, p.1 = p.2 := by
  induction l with
  | nil => simp [wwEq_fastLoop]
  | cons q qs ih =>
    simp only [wwEq_fastLoop, List.mem_cons, forall_eq_or_imp]
    by_cases h : q.1 = q.2 <;> simp [h, ih]

theorem wwEq_safe_iff (a b : List Nat) :
    wwEq_safe a b = true ↔ ∀ p ∈ a.zip b, p.1 = p.2 := by
  unfold wwEq_safe
  rw [beq_iff_eq, foldl_or_eq_zero (fun p : Nat × Nat => p.1 ^^^ p.2)]
  simp [nat_xor_eq_zero]

theorem wwEq_fast_iff (a b : List Nat) :
    wwEq_fast a b = true ↔ ∀ p ∈ a.zip b, p.1 = p.2 := by
  unfold wwEq_fast
  rw [wwEq_fastLoop_iff]
  simp

theorem val_eq_zero_iff (w : Nat) (a : List Nat) : val w a = 0 ↔ ∀ x ∈ a, x = 0 := by
  induction a with
  | nil => simp [val]
  | cons y ys ih =>
    have := Nat.two_pow_pos w
    simp only [val_cons, Nat.add_eq_zero_iff, Nat.mul_eq_zero, ih, List.mem_cons, forall_eq_or_imp]
    constructor
    · rintro ⟨h1, h2 | h2⟩
      · omega
      · exact ⟨h1, h2⟩
    · rintro ⟨h1, h2⟩
      exact ⟨h1, Or.inr h2⟩

theorem wwIsZero_safe_iff (a : List Nat) : wwIsZero_safe a = true ↔ ∀ x ∈ a, x = 0 := by
  unfold wwIsZero_safe
  rw [beq_iff_eq, foldl_or_eq_zero (fun x : Nat => x)]
  simp

theorem wwIsZero_fast_iff (a : List Nat) : wwIsZero_fast a = true ↔ ∀ x ∈ a, x = 0 := by
  unfold wwIsZero_fast
  simp

/-- three-way comparison of naturals with the C convention -1 / 0 / 1 -/
def cmp3 (x y : Nat) : Int := if x < y then -1 else if y < x then 1 else 0

theorem wwCmp_fastLoop_append (l : List (Nat × Nat)) (p : Nat × Nat) :
    wwCmp_fastLoop (l ++ [p]) = if wwCmp_fastLoop l = 0 then cmp3 p.1 p.2 else wwCmp_fastLoop l := by
  induction l with
  | nil =>
    simp only [List.nil_append, wwCmp_fastLoop, cmp3]
    split_ifs <;> first | rfl | omega
  | cons q qs ih =>
    simp only [List.cons_append, wwCmp_fastLoop, ih]
    by_cases h1 : q.1 > q.2
    · simp [h1]
    · by_cases h2 : q.1 < q.2
      · simp [h1, h2]
      · simp [h1, h2]

theorem wwCmp_fastLoop_range (l : List (Nat × Nat)) :
    wwCmp_fastLoop l = -1 ∨ wwCmp_fastLoop l = 0 ∨ wwCmp_fastLoop l = 1 := by
  induction l with
  | nil => simp [wwCmp_fastLoop]
  | cons q qs ih =>
    simp only [wwCmp_fastLoop]
    split_ifs <;> simp [ih]

theorem hi_lt {B x y u v : Nat} (hx : x < B) (h : u < v) : x + B * u < y + B * v := by
  have h2 : B * (u + 1) ≤ B * v := Nat.mul_le_mul_left B h
  rw [Nat.mul_add] at h2
  omega

theorem cmp3_cons {B x y u v : Nat} (hx : x < B) (hy : y < B) :
    cmp3 (x + B * u) (y + B * v) = if cmp3 u v = 0 then cmp3 x y else cmp3 u v := by
  rcases Nat.lt_trichotomy u v with h | h | h
  · have := hi_lt (y := y) hx h
    simp only [cmp3]
    split_ifs <;> first | rfl | omega
  · subst h
    simp only [cmp3]
    split_ifs <;> first | rfl | omega
  · have := hi_lt (y := x) hy h
    simp only [cmp3]
    split_ifs <;> first | rfl | omega

theorem wwCmp_fast_eq (w : Nat) (a b : List Nat) (ha : Wf w a) (hb : Wf w b)
    (hl : a.length = b.length) : wwCmp_fast a b = cmp3 (val w a) (val w b) := by
  unfold wwCmp_fast
  induction a generalizing b with
  | nil => cases b with
    | nil => simp [wwCmp_fastLoop, cmp3, val]
    | cons y ys => simp at hl
  | cons x xs ih =>
    cases b with
    | nil => simp at hl
    | cons y ys =>
      obtain ⟨hx, hxs⟩ := Wf_cons.mp ha
      obtain ⟨hy, hys⟩ := Wf_cons.mp hb
      rw [List.zip_cons_cons, List.reverse_cons, wwCmp_fastLoop_append,
        ih ys hxs hys (by simpa using hl), val_cons, val_cons, cmp3_cons hx hy]

/-- encoding of a comparison result in the (less, greater) registers of SAFE(wwCmp) -/
def encCmp (r : Int) : Nat × Nat := if r = -1 then (1, 0) else if r = 1 then (0, 1) else (0, 0)

theorem wwCmpStep_less (p : Nat × Nat) : wwCmpStep (1, 0) p = (1, 0) := by
  simp only [wwCmpStep, wless01, wgreater01]
  by_cases h1 : p.1 < p.2 <;> by_cases h2 : p.2 < p.1 <;> simp [*]

theorem wwCmpStep_greater (p : Nat × Nat) : wwCmpStep (0, 1) p = (0, 1) := by
  simp only [wwCmpStep, wless01, wgreater01]
  by_cases h1 : p.1 < p.2 <;> by_cases h2 : p.2 < p.1 <;> simp [*]

theorem wwCmpStep_eq (p : Nat × Nat) : wwCmpStep (0, 0) p = encCmp (cmp3 p.1 p.2) := by
  simp only [wwCmpStep, wless01, wgreater01, encCmp, cmp3]
  by_cases h1 : p.1 < p.2
  · have h2 : ¬ p.2 < p.1 := by omega
    simp [*]
  · by_cases h2 : p.2 < p.1 <;> simp [*]

theorem wwCmp_safe_state (l : List (Nat × Nat)) :
    l.reverse.foldl wwCmpStep (0, 0) = encCmp (wwCmp_fastLoop l.reverse) := by
  induction l with
  | nil => rfl
  | cons q qs ih =>
    rw [List.reverse_cons, List.foldl_append, List.foldl_cons, List.foldl_nil, ih,
      wwCmp_fastLoop_append]
    rcases wwCmp_fastLoop_range qs.reverse with h | h | h <;> rw [h]
    · exact wwCmpStep_less q
    · exact wwCmpStep_eq q
    · exact wwCmpStep_greater q

theorem wwCmp_safe_eq_fast (a b : List Nat) : wwCmp_safe a b = wwCmp_fast a b := by
  unfold wwCmp_safe wwCmp_fast
  simp only [wwCmp_safe_state]
  rcases wwCmp_fastLoop_range (a.zip b).reverse with h | h | h <;> rw [h] <;> rfl

theorem cmp3_eq_iff (x y : Nat) : (cmp3 x y = -1 ↔ x < y) ∧ (cmp3 x y = 0 ↔ x = y) ∧ (cmp3 x y = 1 ↔ y < x) := by
  simp only [cmp3]
  by_cases h1 : x < y
  · simp [h1]; omega
  · by_cases h2 : y < x
    · simp [h1, h2]; omega
    · simp [h1, h2]; omega

theorem wwCmp2_safe_eq_fast (a b : List Nat) : wwCmp2_safe a b = wwCmp2_fast a b := by
  unfold wwCmp2_safe wwCmp2_fast
  have hz : ∀ l, wwIsZero_safe l = wwIsZero_fast l := fun l => by
    rw [Bool.eq_iff_iff, wwIsZero_safe_iff, wwIsZero_fast_iff]
  simp only [hz, wwCmp_safe_eq_fast]

theorem val_take_drop (w : Nat) (a : List Nat) (m : Nat) (hm : m ≤ a.length) :
    val w a = val w (a.take m) + 2 ^ (w * m) * val w (a.drop m) := by
  conv_lhs => rw [← List.take_append_drop m a]
  rw [val_append, List.length_take, Nat.min_eq_left hm]

theorem Wf_take {w : Nat} {a : List Nat} (ha : Wf w a) (m : Nat) : Wf w (a.take m) :=
  fun x hx => ha x (List.mem_of_mem_take hx)

theorem Wf_drop {w : Nat} {a : List Nat} (ha : Wf w a) (m : Nat) : Wf w (a.drop m) :=
  fun x hx => ha x (List.mem_of_mem_drop hx)

theorem wwCmp2_fast_eq (w : Nat) (a b : List Nat) (ha : Wf w a) (hb : Wf w b) :
    wwCmp2_fast a b = cmp3 (val w a) (val w b) := by
  unfold wwCmp2_fast
  simp only []
  split_ifs with h1 hz h2 hz
  · -- longer a, zero excess
    have hv := val_take_drop w a b.length (by omega)
    rw [wwIsZero_fast_iff, ← val_eq_zero_iff w] at hz
    rw [hz, Nat.mul_zero, Nat.add_zero] at hv
    rw [hv]
    exact wwCmp_fast_eq w _ b (Wf_take ha _) hb (by rw [List.length_take]; omega)
  · -- longer a, nonzero excess
    have hv := val_take_drop w a b.length (by omega)
    rw [wwIsZero_fast_iff, ← val_eq_zero_iff w] at hz
    have hb' := val_lt hb
    have : 2 ^ (w * b.length) * 1 ≤ 2 ^ (w * b.length) * val w (a.drop b.length) :=
      Nat.mul_le_mul_left _ (by omega)
    have hlt : val w b < val w a := by omega
    simp only [cmp3]
    rw [if_neg (by omega), if_pos hlt]
  · have hv := val_take_drop w b a.length (by omega)
    rw [wwIsZero_fast_iff, ← val_eq_zero_iff w] at hz
    rw [hz, Nat.mul_zero, Nat.add_zero] at hv
    rw [hv]
    exact wwCmp_fast_eq w a _ ha (Wf_take hb _) (by rw [List.length_take]; omega)
  · have hv := val_take_drop w b a.length (by omega)
    rw [wwIsZero_fast_iff, ← val_eq_zero_iff w] at hz
    have ha' := val_lt ha
    have : 2 ^ (w * a.length) * 1 ≤ 2 ^ (w * a.length) * val w (b.drop a.length) :=
      Nat.mul_le_mul_left _ (by omega)
    have hlt : val w a < val w b := by omega
    simp only [cmp3]
    rw [if_pos hlt]
  · exact wwCmp_fast_eq w a b ha hb (by omega)

/-! ## §7 zzIsSumEq / zzIsSumWEq: the checkers re-run the adders -/

theorem zzIsSumEq_safeLoop_iff (w : Nat) (c a b : List Nat) (diff carry : Nat)
    (hl1 : c.length = a.length) (hl2 : a.length = b.length) :
    ((zzIsSumEq_safeLoop w c a b diff carry).1 ||| (zzIsSumEq_safeLoop w c a b diff carry).2 = 0)
      ↔ diff = 0 ∧ zzAddLoop w a b carry = (c, 0) := by
  induction c generalizing a b diff carry with
  | nil =>
    cases a with
    | cons _ _ => simp at hl1
    | nil =>
      cases b with
      | cons _ _ => simp at hl2
      | nil => simp [zzIsSumEq_safeLoop, zzAddLoop, Nat.or_eq_zero_iff]
  | cons ci cs ih =>
    cases a with
    | nil => simp at hl1
    | cons x xs =>
      cases b with
      | nil => simp at hl2
      | cons y ys =>
        simp only [zzIsSumEq_safeLoop, zzAddLoop]
        rw [ih xs ys _ _ (by simpa using hl1) (by simpa using hl2), Nat.or_eq_zero_iff,
          nat_xor_eq_zero]
        constructor
        · rintro ⟨⟨h1, h2⟩, h3⟩
          subst h2
          rw [h3]
          exact ⟨h1, rfl⟩
        · rintro ⟨h1, h2⟩
          simp only [Prod.mk.injEq, List.cons.injEq] at h2
          obtain ⟨⟨h2, h3⟩, h4⟩ := h2
          refine ⟨⟨h1, h2.symm⟩, ?_⟩
          rw [← h2]
          exact Prod.ext h3 h4

theorem zzIsSumEq_fastLoop_iff (w : Nat) (c a b : List Nat) (carry : Nat)
    (ha : Wf w a) (hb : Wf w b) (hc : carry ≤ 1)
    (hl1 : c.length = a.length) (hl2 : a.length = b.length) :
    zzIsSumEq_fastLoop w c a b carry = true ↔ zzAddLoop w a b carry = (c, 0) := by
  induction c generalizing a b carry with
  | nil =>
    cases a with
    | cons _ _ => simp at hl1
    | nil =>
      cases b with
      | cons _ _ => simp at hl2
      | nil => simp [zzIsSumEq_fastLoop, zzAddLoop]
  | cons ci cs ih =>
    cases a with
    | nil => simp at hl1
    | cons x xs =>
      cases b with
      | nil => simp at hl2
      | cons y ys =>
        obtain ⟨hx, hxs⟩ := Wf_cons.mp ha
        obtain ⟨hy, hys⟩ := Wf_cons.mp hb
        obtain ⟨_, _, s3⟩ := addStepB hx hy hc
        have hl1' : cs.length = xs.length := by simpa using hl1
        have hl2' : xs.length = ys.length := by simpa using hl2
        simp only [zzIsSumEq_fastLoop, zzAddLoop]
        by_cases ht : wadd w x carry < carry
        · -- a[i] + carry wrapped: carry = 1, a[i] = B - 1
          have ht0 : wadd w x carry = 0 := by omega
          have hc1 : carry = 1 := by omega
          have hs : wadd w (wadd w x carry) y = y := by
            rw [ht0]; show (0 + y) % 2 ^ w = y; rw [Nat.zero_add, Nat.mod_eq_of_lt hy]
          have hcy : wless01 (wadd w x carry) carry ||| wless01 (wadd w (wadd w x carry) y) (wadd w x carry) = carry := by
            rw [hs, ht0, hc1]
            simp [wless01]
          rw [if_pos ht, hcy, hs]
          by_cases hne : ci = y
          · subst hne
            simp only [bne_self_eq_false, Bool.false_eq_true, if_false]
            rw [ih xs ys carry hxs hys hc hl1' hl2']
            constructor
            · intro h; rw [h]
            · intro h
              simp only [Prod.mk.injEq, List.cons.injEq, true_and] at h
              exact Prod.ext h.1 h.2
          · have : (ci != y) = true := by simpa using hne
            simp only [this, if_true]
            constructor
            · intro h; cases h
            · intro h
              simp only [Prod.mk.injEq, List.cons.injEq] at h
              exact absurd h.1.1.symm hne
        · rw [if_neg ht]
          have hc0 : wless01 (wadd w x carry) carry = 0 := by simp [wless01, ht]
          rw [hc0, Nat.zero_or]
          by_cases hne : ci = wadd w (wadd w x carry) y
          · rw [← hne]
            simp only [bne_self_eq_false, Bool.false_eq_true, if_false]
            rw [ih xs ys _ hxs hys (wless01_le _ _) hl1' hl2']
            constructor
            · intro h; rw [h]
            · intro h
              simp only [Prod.mk.injEq, List.cons.injEq, true_and] at h
              exact Prod.ext h.1 h.2
          · have : (ci != wadd w (wadd w x carry) y) = true := by simpa using hne
            simp only [this, if_true]
            constructor
            · intro h; cases h
            · intro h
              simp only [Prod.mk.injEq, List.cons.injEq] at h
              exact absurd h.1.1.symm hne

theorem wless_wrap {B a x : Nat} (ha : a < B) (hx : x < B) :
    wless01 ((a + x) % B) a = wless01 ((a + x) % B) x := by
  have hs : (a + x) % B = if a + x < B then a + x else a + x - B := mod_wrap (by omega)
  rw [hs]
  show (if _ < a then 1 else 0) = (if _ < x then 1 else 0)
  split_ifs <;> omega

theorem zzIsSumWEq_safeLoop_iff (w : Nat) (b a : List Nat) (diff x : Nat)
    (ha : Wf w a) (hx : x < 2 ^ w) (hl : b.length = a.length) :
    ((zzIsSumWEq_safeLoop w b a diff x).1 ||| (zzIsSumWEq_safeLoop w b a diff x).2 = 0)
      ↔ diff = 0 ∧ zzAddW w a x = (b, 0) := by
  induction b generalizing a diff x with
  | nil =>
    cases a with
    | cons _ _ => simp at hl
    | nil => simp [zzIsSumWEq_safeLoop, zzAddW, Nat.or_eq_zero_iff]
  | cons bi bs ih =>
    cases a with
    | nil => simp at hl
    | cons y ys =>
      obtain ⟨hy, hys⟩ := Wf_cons.mp ha
      obtain ⟨_, _, _, s4⟩ := addWStepB hy hx
      simp only [zzIsSumWEq_safeLoop, zzAddW]
      by_cases hne : bi = wadd w y x
      · have hwr : wless01 bi y = wless01 (wadd w y x) x := by rw [hne]; exact wless_wrap hy hx
        rw [hwr, ih ys _ _ hys s4 (by simpa using hl), Nat.or_eq_zero_iff, nat_xor_eq_zero]
        constructor
        · rintro ⟨⟨h1, _⟩, h3⟩
          rw [h3, hne]
          exact ⟨h1, rfl⟩
        · rintro ⟨h1, h2⟩
          simp only [Prod.mk.injEq, List.cons.injEq] at h2
          exact ⟨⟨h1, hne⟩, Prod.ext h2.1.2 h2.2⟩
      · have hx0 : 0 < 2 ^ w := Nat.two_pow_pos w
        have hwl : wless01 bi y < 2 ^ w := by
          have := wless01_le bi y
          by_cases h2 : 2 ≤ 2 ^ w
          · omega
          · have : y = 0 := by omega
            subst this
            simp [wless01]
        rw [ih ys _ _ hys hwl (by simpa using hl), Nat.or_eq_zero_iff, nat_xor_eq_zero]
        constructor
        · rintro ⟨⟨_, h2⟩, _⟩
          exact absurd h2 hne
        · rintro ⟨_, h2⟩
          simp only [Prod.mk.injEq, List.cons.injEq] at h2
          exact absurd h2.1.1.symm hne

theorem zzIsSumWEq_fast_iff (w : Nat) (b a : List Nat) (x : Nat)
    (ha : Wf w a) (hx : x < 2 ^ w) (hl : b.length = a.length) :
    zzIsSumWEq_fast w b a x = true ↔ zzAddW w a x = (b, 0) := by
  induction b generalizing a x with
  | nil =>
    cases a with
    | cons _ _ => simp at hl
    | nil => simp [zzIsSumWEq_fast, zzAddW]
  | cons bi bs ih =>
    cases a with
    | nil => simp at hl
    | cons y ys =>
      obtain ⟨hy, hys⟩ := Wf_cons.mp ha
      obtain ⟨_, _, _, s4⟩ := addWStepB hy hx
      simp only [zzIsSumWEq_fast, zzAddW]
      by_cases hne : bi = wadd w y x
      · have hwr : wless01 bi y = wless01 (wadd w y x) x := by rw [hne]; exact wless_wrap hy hx
        rw [hwr, ← hne]
        simp only [bne_self_eq_false, Bool.false_eq_true, if_false]
        rw [hne, ih ys _ hys s4 (by simpa using hl)]
        constructor
        · intro h; rw [h]
        · intro h
          simp only [Prod.mk.injEq, List.cons.injEq, true_and] at h
          exact Prod.ext h.1 h.2
      · have : (bi != wadd w y x) = true := by simpa using hne
        simp only [this, if_true]
        constructor
        · intro h; cases h
        · intro h
          simp only [Prod.mk.injEq, List.cons.injEq] at h
          exact absurd h.1.1.symm hne

/-! ## §8 zz_etc.c : masked addition / subtraction -/

theorem zzAddAndWLoop_eq (w : Nat) (b a : List Nat) (m c : Nat) :
    zzAddAndWLoop w b a m c = (loop2 (fAdd2 w) b (a.map (m &&& ·)) c).1 := by
  induction b generalizing a c with
  | nil => simp [zzAddAndWLoop, loop2]
  | cons x xs ih => cases a <;> simp [zzAddAndWLoop, loop2, fAdd2, ih]

theorem zzSubAndWLoop_eq (w : Nat) (b a : List Nat) (m c : Nat) :
    zzSubAndWLoop w b a m c = loop2 (fSub w) b (a.map (m &&& ·)) c := by
  induction b generalizing a c with
  | nil => simp [zzSubAndWLoop, loop2]
  | cons x xs ih => cases a <;> simp [zzSubAndWLoop, loop2, fSub, ih]

theorem Wf_map_and {w : Nat} {a : List Nat} (ha : Wf w a) (m : Nat) : Wf w (a.map (m &&& ·)) := by
  intro x hx
  obtain ⟨y, hy, rfl⟩ := List.mem_map.mp hx
  exact Nat.lt_of_le_of_lt Nat.and_le_right (ha y hy)

theorem map_and_zero (a : List Nat) : a.map (0 &&& ·) = a.map (fun _ => 0) := by
  apply List.map_congr_left
  intro x _
  exact Nat.zero_and x

theorem val_map_zero (w : Nat) (a : List Nat) : val w (a.map (fun _ => 0)) = 0 := by
  rw [val_eq_zero_iff]
  intro x hx
  obtain ⟨_, _, rfl⟩ := List.mem_map.mp hx
  rfl

theorem map_and_ones {w : Nat} {a : List Nat} (ha : Wf w a) : a.map ((2 ^ w - 1) &&& ·) = a := by
  conv_rhs => rw [← List.map_id a]
  apply List.map_congr_left
  intro x hx
  show (2 ^ w - 1) &&& x = x
  rw [Nat.and_comm, Nat.and_two_pow_sub_one_eq_mod, Nat.mod_eq_of_lt (ha x hx)]

/-- value of the masked operand for the two masks used by the library -/
theorem val_map_and (w : Nat) (a : List Nat) (ha : Wf w a) (m : Nat) (hm : m = 0 ∨ m = 2 ^ w - 1) :
    val w (a.map (m &&& ·)) = if m = 0 then 0 else val w a := by
  rcases hm with rfl | rfl
  · rw [map_and_zero, val_map_zero]; rfl
  · by_cases h : 2 ^ w - 1 = 0
    · rw [if_pos h, h, map_and_zero, val_map_zero]
    · rw [if_neg h, map_and_ones ha]

/-! ## §9 zz_mod.c : helpers -/

/-- the running comparison of the SAFE modular routines, as a fold over (mod, c) -/
def maskFold : List Nat → List Nat → Nat → Nat
  | m :: ms, c :: cs, mask => maskFold ms cs (maskStep mask m c)
  | _, _, mask => mask

theorem maskStep_eq {mask : Nat} (hm : mask ≤ 1) (m c : Nat) :
    maskStep mask m c = if m < c then 1 else if m = c then mask else 0 := by
  obtain rfl | rfl : mask = 0 ∨ mask = 1 := by omega
  · simp only [maskStep, weq01, wless01, Nat.zero_and, Nat.zero_or]
    split_ifs <;> rfl
  · simp only [maskStep, weq01, wless01]
    by_cases h1 : m < c
    · have h2 : ¬ m = c := by omega
      simp [h1, h2]
    · by_cases h2 : m = c <;> simp [h1, h2]

/-- loop invariant of the SAFE routines: after processing prefixes low to high the mask is the
    comparison `mod ≤ c` of the prefixes (started with mask0 on empty prefixes) -/
theorem maskFold_spec (w : Nat) (ms cs : List Nat) (mask0 : Nat) (h0 : mask0 ≤ 1)
    (hms : Wf w ms) (hcs : Wf w cs) (hl : ms.length = cs.length) :
    maskFold ms cs mask0
      = if val w ms < val w cs then 1 else if val w ms = val w cs then mask0 else 0 := by
  induction ms generalizing cs mask0 with
  | nil =>
    cases cs with
    | nil => simp [maskFold, val]
    | cons _ _ => simp at hl
  | cons m ms ih =>
    cases cs with
    | nil => simp at hl
    | cons c cs =>
      obtain ⟨hm, hms'⟩ := Wf_cons.mp hms
      obtain ⟨hc, hcs'⟩ := Wf_cons.mp hcs
      have hstep := maskStep_eq h0 m c
      have hle : maskStep mask0 m c ≤ 1 := by rw [hstep]; split_ifs <;> omega
      rw [maskFold, ih cs _ hle hms' hcs' (by simpa using hl), val_cons, val_cons, hstep]
      rcases Nat.lt_trichotomy (val w ms) (val w cs) with h | h | h
      · have := hi_lt (y := c) hm h
        rw [if_pos h, if_pos this]
      · rw [h]
        split_ifs <;> omega
      · have := hi_lt (y := m) hc h
        rw [if_neg (by omega), if_neg (by omega), if_neg (by omega), if_neg (by omega)]

/-- `mask = 1 ↔ mod ≤ c` for the full-length run started with mask = 1 -/
theorem maskFold_one (w : Nat) (ms cs : List Nat)
    (hms : Wf w ms) (hcs : Wf w cs) (hl : ms.length = cs.length) :
    maskFold ms cs 1 = if val w ms ≤ val w cs then 1 else 0 := by
  rw [maskFold_spec w ms cs 1 (by omega) hms hcs hl]
  split_ifs <;> omega

theorem zzAddMod_safeLoop_eq (w : Nat) (a b mod : List Nat) (carry mask : Nat)
    (hl1 : a.length = b.length) (hl2 : a.length = mod.length) :
    zzAddMod_safeLoop w a b mod carry mask
      = ((zzAddLoop w a b carry).1, (zzAddLoop w a b carry).2,
          maskFold mod (zzAddLoop w a b carry).1 mask) := by
  induction a generalizing b mod carry mask with
  | nil =>
    cases b with
    | cons _ _ => simp at hl1
    | nil =>
      cases mod with
      | cons _ _ => simp at hl2
      | nil => simp [zzAddMod_safeLoop, zzAddLoop, maskFold]
  | cons x xs ih =>
    cases b with
    | nil => simp at hl1
    | cons y ys =>
      cases mod with
      | nil => simp at hl2
      | cons m ms =>
        simp only [zzAddMod_safeLoop, zzAddLoop, maskFold]
        rw [ih ys ms _ _ (by simpa using hl1) (by simpa using hl2)]

theorem zzAddWMod_safeLoop_eq (w : Nat) (a mod : List Nat) (x mask : Nat)
    (hl : a.length = mod.length) :
    zzAddWMod_safeLoop w a mod x mask
      = ((zzAddW w a x).1, (zzAddW w a x).2, maskFold mod (zzAddW w a x).1 mask) := by
  induction a generalizing mod x mask with
  | nil =>
    cases mod with
    | cons _ _ => simp at hl
    | nil => simp [zzAddWMod_safeLoop, zzAddW, maskFold]
  | cons y ys ih =>
    cases mod with
    | nil => simp at hl
    | cons m ms =>
      simp only [zzAddWMod_safeLoop, zzAddW, maskFold]
      rw [ih ms _ _ (by simpa using hl)]

theorem zzDoubleMod_safeLoop_eq (w : Nat) (a mod : List Nat) (carry mask : Nat)
    (hl : a.length = mod.length) :
    zzDoubleMod_safeLoop w a mod carry mask
      = ((zzDoubleLoop w a carry).1, (zzDoubleLoop w a carry).2,
          maskFold mod (zzDoubleLoop w a carry).1 mask) := by
  induction a generalizing mod carry mask with
  | nil =>
    cases mod with
    | cons _ _ => simp at hl
    | nil => simp [zzDoubleMod_safeLoop, zzDoubleLoop, maskFold]
  | cons y ys ih =>
    cases mod with
    | nil => simp at hl
    | cons m ms =>
      simp only [zzDoubleMod_safeLoop, zzDoubleLoop, maskFold]
      rw [ih ms _ _ (by simpa using hl)]

theorem wneg01 {w : Nat} (hw : 0 < w) {k : Nat} (hk : k ≤ 1) :
    wneg w k = if k = 0 then 0 else 2 ^ w - 1 := by
  have h2 := two_le_two_pow hw
  obtain rfl | rfl : k = 0 ∨ k = 1 := by omega
  · simp [wneg]
  · have h1 : 1 % 2 ^ w = 1 := Nat.mod_eq_of_lt (by omega)
    simp only [wneg, h1]
    rw [Nat.mod_eq_of_lt (by omega)]
    simp

/-- a strict inequality between values is only possible with a real word size -/
theorem pos_w_of_val_pos {w : Nat} {m : List Nat} (hm : Wf w m) (h : 0 < val w m) : 0 < w := by
  rcases Nat.eq_zero_or_pos w with rfl | hw
  · exfalso
    have : val 0 m = 0 := by
      rw [val_eq_zero_iff]
      intro x hx
      have := hm x hx
      simpa using this
    omega
  · exact hw

theorem ne_nil_of_val_pos {w : Nat} {m : List Nat} (h : 0 < val w m) : m ≠ [] := by
  rintro rfl
  simp [val] at h

/-- final conditional subtraction of the modular routines, as plain arithmetic:
    `r + P cy = V < 2M`, then `s = r - (sub ? M : 0) (mod P)` with `sub ↔ cy ≠ 0 ∨ M ≤ r` -/
theorem modred_arith {V M P r cy s bw t : Nat} (sub : Prop)
    (hV : V < 2 * M) (hMP : M < P) (_hr : r < P) (hs : s < P) (hcy : cy ≤ 1) (hbw : bw ≤ 1)
    (h1 : r + P * cy = V) (h2 : s + t = r + P * bw)
    (ht1 : sub → t = M) (ht0 : ¬ sub → t = 0) (hsub : sub ↔ (cy ≠ 0 ∨ M ≤ r)) :
    s = V % M ∧ s < M := by
  have e1 := mul01 P hcy
  have e2 := mul01 P hbw
  rw [mod_wrap hV]
  by_cases hsb : sub
  · have := ht1 hsb
    have := hsub.mp hsb
    split_ifs at * <;> omega
  · have := ht0 hsb
    have : ¬ (cy ≠ 0 ∨ M ≤ r) := fun h => hsb (hsub.mpr h)
    split_ifs at * <;> omega

/-- final conditional addition of zzSubMod / zzSubWMod: `r + Bv = A + P bw`, then `s = r + (bw ? M : 0) mod P` -/
theorem modsub_arith {A Bv M P r bw s cy t : Nat}
    (hA : A < M) (hB : Bv < M) (hMP : M < P) (_hr : r < P) (hs : s < P) (hcy : cy ≤ 1) (hbw : bw ≤ 1)
    (h1 : r + Bv = A + P * bw) (h2 : s + P * cy = r + t)
    (ht : t = if bw = 0 then 0 else M) :
    s = (A + M - Bv) % M ∧ s < M := by
  have e1 := mul01 P hcy
  have e2 := mul01 P hbw
  rw [mod_wrap (by omega)]
  split_ifs at * <;> omega

/-! ### doubling loop -/

theorem or_bit {e c : Nat} (he : e % 2 = 0) (hc : c ≤ 1) : e ||| c = e + c := by
  have h : e = (e / 2) <<< 1 := by rw [Nat.shiftLeft_eq]; omega
  rw [h, ← Nat.shiftLeft_add_eq_or_of_lt (by omega : c < 2 ^ 1)]

theorem doubleStep {w a c : Nat} (hw : 0 < w) (ha : a < 2 ^ w) (hc : c ≤ 1) :
    (wshl w a 1 ||| c) + 2 ^ w * wshr a (w - 1) = 2 * a + c ∧ (wshl w a 1 ||| c) < 2 ^ w
      ∧ wshr a (w - 1) ≤ 1 := by
  obtain ⟨k, rfl⟩ : ∃ k, w = k + 1 := ⟨w - 1, by omega⟩
  simp only [wshl, wshr, Nat.add_sub_cancel, Nat.pow_one]
  have hH : 0 < 2 ^ k := Nat.two_pow_pos k
  have hpow : 2 ^ (k + 1) = 2 * 2 ^ k := by rw [Nat.pow_succ, Nat.mul_comm]
  have e1 : (a * 2) % 2 ^ (k + 1) = 2 * (a % 2 ^ k) := by
    rw [hpow, Nat.mul_comm a 2, Nat.mul_mod_mul_left]
  have e2 : (a * 2) % 2 ^ (k + 1) % 2 = 0 := by rw [e1]; omega
  rw [or_bit e2 hc, e1, hpow]
  have hdm := Nat.mod_add_div a (2 ^ k)
  have hlt := Nat.mod_lt a hH
  have hq : a / 2 ^ k ≤ 1 := by
    have : a / 2 ^ k < 2 := Nat.div_lt_of_lt_mul (by omega)
    omega
  have e3 := mul01 (2 ^ k) hq
  refine ⟨?_, ?_, hq⟩
  · rw [Nat.mul_assoc]; split_ifs at e3 <;> omega
  · omega

theorem double_glue {B P s c' a c vr cout va : Nat}
    (h1 : s + B * c' = 2 * a + c) (h2 : vr + P * cout = 2 * va + c') :
    (s + B * vr) + (B * P) * cout = 2 * (a + B * va) + c := by
  have h3 : B * (vr + P * cout) = B * (2 * va + c') := by rw [h2]
  simp only [Nat.mul_add, ← Nat.mul_assoc] at h3
  have h4 : B * 2 * va = 2 * (B * va) := by ring
  omega

theorem zzDoubleLoop_spec (w : Nat) (hw : 0 < w) (a : List Nat) (c : Nat) (ha : Wf w a) (hc : c ≤ 1) :
    val w (zzDoubleLoop w a c).1 + 2 ^ (w * a.length) * (zzDoubleLoop w a c).2 = 2 * val w a + c
    ∧ (zzDoubleLoop w a c).2 ≤ 1 ∧ Wf w (zzDoubleLoop w a c).1
    ∧ (zzDoubleLoop w a c).1.length = a.length := by
  induction a generalizing c with
  | nil => simp [zzDoubleLoop, val, Wf_nil, hc]
  | cons y ys ih =>
    obtain ⟨hy, hys⟩ := Wf_cons.mp ha
    obtain ⟨h1, h2, h3⟩ := doubleStep hw hy hc
    obtain ⟨i1, i2, i3, i4⟩ := ih _ hys h3
    simp only [zzDoubleLoop, val_cons, List.length_cons, Nat.mul_succ, Nat.pow_add]
    refine ⟨?_, i2, Wf_cons.mpr ⟨h2, i3⟩, by rw [i4]⟩
    rw [Nat.mul_comm (2 ^ (w * ys.length)) (2 ^ w)]
    exact double_glue h1 i1

/-! ### the two reduction tails shared by the modular routines -/

theorem cmp3_nonneg (x y : Nat) : cmp3 x y ≥ 0 ↔ y ≤ x := by
  simp only [cmp3]
  split_ifs <;> omega

theorem zzSub2_lem (w : Nat) (b a : List Nat)
    (hb : Wf w b) (ha : Wf w a) (hl : b.length = a.length) :
    val w (zzSub2 w b a).1 + val w a = val w b + 2 ^ (w * b.length) * (zzSub2 w b a).2
    ∧ (zzSub2 w b a).2 ≤ 1
    ∧ Wf w (zzSub2 w b a).1 ∧ (zzSub2 w b a).1.length = b.length := by
  unfold zzSub2
  rw [zzSub2Loop_eq]
  obtain ⟨h1, h2, h3, h4⟩ := loop2_sub (fSub_ok w) b a 0 hb ha hl (by omega)
  exact ⟨by simpa using h1, h2, h3, h4⟩

theorem zzAdd2_lem (w : Nat) (b a : List Nat)
    (hb : Wf w b) (ha : Wf w a) (hl : b.length = a.length) :
    val w (zzAdd2 w b a).1 + 2 ^ (w * b.length) * (zzAdd2 w b a).2 = val w b + val w a
    ∧ (zzAdd2 w b a).2 ≤ 1 ∧ Wf w (zzAdd2 w b a).1 ∧ (zzAdd2 w b a).1.length = b.length := by
  unfold zzAdd2
  rw [zzAdd2Loop_eq]
  exact loop2_add (fAdd2_ok w) b a 0 hb ha hl (by omega)

theorem zzSubAndW_lem (w : Nat) (b a : List Nat) (m : Nat) (hm : m = 0 ∨ m = 2 ^ w - 1)
    (hb : Wf w b) (ha : Wf w a) (hl : b.length = a.length) :
    val w (zzSubAndW w b a m).1 + (if m = 0 then 0 else val w a)
      = val w b + 2 ^ (w * b.length) * (zzSubAndW w b a m).2
    ∧ (zzSubAndW w b a m).2 ≤ 1
    ∧ Wf w (zzSubAndW w b a m).1 ∧ (zzSubAndW w b a m).1.length = b.length := by
  rw [← val_map_and w a ha m hm]
  unfold zzSubAndW
  rw [zzSubAndWLoop_eq]
  obtain ⟨h1, h2, h3, h4⟩ := loop2_sub (fSub_ok w) b (a.map (m &&& ·)) 0 hb (Wf_map_and ha m)
    (by simpa using hl) (by omega)
  exact ⟨by simpa using h1, h2, h3, h4⟩

theorem zzAddAndW_lem (w : Nat) (b a : List Nat) (m : Nat) (hm : m = 0 ∨ m = 2 ^ w - 1)
    (hb : Wf w b) (ha : Wf w a) (hl : b.length = a.length) :
    ∃ cy, cy ≤ 1 ∧ val w (zzAddAndW w b a m) + 2 ^ (w * b.length) * cy
        = val w b + (if m = 0 then 0 else val w a)
    ∧ Wf w (zzAddAndW w b a m) ∧ (zzAddAndW w b a m).length = b.length := by
  rw [← val_map_and w a ha m hm]
  unfold zzAddAndW
  rw [zzAddAndWLoop_eq]
  obtain ⟨h1, h2, h3, h4⟩ := loop2_add (fAdd2_ok w) b (a.map (m &&& ·)) 0 hb (Wf_map_and ha m)
    (by simpa using hl) (by omega)
  exact ⟨_, h2, by simpa using h1, h3, h4⟩

/-- FAST tail: `if (carry || cmp(c, mod) >= 0) zzSub2(c, mod)` -/
theorem redFast (w : Nat) (c mod : List Nat) (cy V : Nat) (cmp : Int)
    (hc : Wf w c) (hm : Wf w mod) (hl : c.length = mod.length)
    (h1 : val w c + 2 ^ (w * c.length) * cy = V) (hcy : cy ≤ 1) (hV : V < 2 * val w mod)
    (hcmp : cmp = cmp3 (val w c) (val w mod)) :
    val w (if cy ≠ 0 ∨ cmp ≥ 0 then (zzSub2 w c mod).1 else c) = V % val w mod
    ∧ val w (if cy ≠ 0 ∨ cmp ≥ 0 then (zzSub2 w c mod).1 else c) < val w mod
    ∧ Wf w (if cy ≠ 0 ∨ cmp ≥ 0 then (zzSub2 w c mod).1 else c)
    ∧ (if cy ≠ 0 ∨ cmp ≥ 0 then (zzSub2 w c mod).1 else c).length = c.length := by
  obtain ⟨s1, s2, s3, s4⟩ := zzSub2_lem w c mod hc hm hl
  have hMP := val_lt hm
  rw [← hl] at hMP
  have hr := val_lt hc
  have hs := val_lt s3
  rw [s4] at hs
  have hsub : (cy ≠ 0 ∨ cmp ≥ 0) ↔ (cy ≠ 0 ∨ val w mod ≤ val w c) := by
    rw [hcmp, cmp3_nonneg]
  by_cases hb : cy ≠ 0 ∨ cmp ≥ 0
  · simp only [if_pos hb]
    obtain ⟨e1, e2⟩ := modred_arith (cy ≠ 0 ∨ cmp ≥ 0) hV hMP hr hs hcy s2 h1 s1
      (fun _ => rfl) (fun h => absurd hb h) hsub
    exact ⟨e1, e2, s3, s4⟩
  · simp only [if_neg hb]
    obtain ⟨e1, e2⟩ := modred_arith (t := 0) (bw := 0) (cy ≠ 0 ∨ cmp ≥ 0) hV hMP hr hr hcy
      (by omega) h1 (by simp) (fun h => absurd h hb) (fun _ => rfl) hsub
    exact ⟨e1, e2, hc, trivial⟩

/-- SAFE tail: `mask |= carry; mask = 0 - mask; zzSubAndW(c, mod, n, mask)` with the loop's mask -/
theorem redSafe (w : Nat) (hw : 0 < w) (c mod : List Nat) (cy V : Nat)
    (hc : Wf w c) (hm : Wf w mod) (hl : c.length = mod.length)
    (h1 : val w c + 2 ^ (w * c.length) * cy = V) (hcy : cy ≤ 1) (hV : V < 2 * val w mod) :
    val w (zzSubAndW w c mod (wneg w (maskFold mod c 1 ||| cy))).1 = V % val w mod
    ∧ val w (zzSubAndW w c mod (wneg w (maskFold mod c 1 ||| cy))).1 < val w mod
    ∧ Wf w (zzSubAndW w c mod (wneg w (maskFold mod c 1 ||| cy))).1
    ∧ (zzSubAndW w c mod (wneg w (maskFold mod c 1 ||| cy))).1.length = c.length := by
  have hmk := maskFold_one w mod c hm hc hl.symm
  have hk : maskFold mod c 1 ||| cy ≤ 1 := by
    rw [lor01 (by rw [hmk]; split_ifs <;> omega) hcy]; split_ifs <;> omega
  have hk0 : (maskFold mod c 1 ||| cy = 0) ↔ ¬ (cy ≠ 0 ∨ val w mod ≤ val w c) := by
    rw [Nat.or_eq_zero_iff, hmk]
    by_cases hle : val w mod ≤ val w c
    · rw [if_pos hle]; omega
    · rw [if_neg hle]; omega
  have hmask := wneg01 hw hk
  have h2 := two_le_two_pow hw
  have hm01 : wneg w (maskFold mod c 1 ||| cy) = 0 ∨ wneg w (maskFold mod c 1 ||| cy) = 2 ^ w - 1 := by
    rw [hmask]; split_ifs <;> simp
  have hmz : wneg w (maskFold mod c 1 ||| cy) = 0 ↔ (maskFold mod c 1 ||| cy = 0) := by
    rw [hmask]; split_ifs <;> omega
  obtain ⟨s1, s2, s3, s4⟩ := zzSubAndW_lem w c mod _ hm01 hc hm hl
  have hMP := val_lt hm
  rw [← hl] at hMP
  have hr := val_lt hc
  have hs := val_lt s3
  rw [s4] at hs
  obtain ⟨e1, e2⟩ := modred_arith (cy ≠ 0 ∨ val w mod ≤ val w c) hV hMP hr hs hcy s2 h1 s1
    (fun h => by rw [if_neg]; rw [hmz, hk0]; exact fun h' => h' h)
    (fun h => by rw [if_pos]; rw [hmz, hk0]; exact h) Iff.rfl
  exact ⟨e1, e2, s3, s4⟩

/-- FAST tail of zzSubMod / zzSubWMod: `if (borrow) zzAdd2(c, mod)` -/
theorem incFast (w : Nat) (c mod : List Nat) (bw A Bv : Nat)
    (hc : Wf w c) (hm : Wf w mod) (hl : c.length = mod.length)
    (h1 : val w c + Bv = A + 2 ^ (w * c.length) * bw) (hbw : bw ≤ 1)
    (hA : A < val w mod) (hB : Bv < val w mod) :
    val w (if bw ≠ 0 then (zzAdd2 w c mod).1 else c) = (A + val w mod - Bv) % val w mod
    ∧ val w (if bw ≠ 0 then (zzAdd2 w c mod).1 else c) < val w mod
    ∧ Wf w (if bw ≠ 0 then (zzAdd2 w c mod).1 else c)
    ∧ (if bw ≠ 0 then (zzAdd2 w c mod).1 else c).length = c.length := by
  obtain ⟨s1, s2, s3, s4⟩ := zzAdd2_lem w c mod hc hm hl
  have hMP := val_lt hm
  rw [← hl] at hMP
  have hr := val_lt hc
  have hs := val_lt s3
  rw [s4] at hs
  by_cases hb : bw ≠ 0
  · simp only [if_pos hb]
    obtain ⟨e1, e2⟩ := modsub_arith hA hB hMP hr hs s2 hbw h1 s1 (by rw [if_neg hb])
    exact ⟨e1, e2, s3, s4⟩
  · simp only [if_neg hb]
    obtain ⟨e1, e2⟩ := modsub_arith (cy := 0) (t := 0) hA hB hMP hr hr (by omega) hbw h1 (by simp)
      (by rw [if_pos (by omega)])
    exact ⟨e1, e2, hc, trivial⟩

/-- SAFE tail of zzSubMod / zzSubWMod: `mask = 0 - borrow; zzAddAndW(c, mod, n, mask)` -/
theorem incSafe (w : Nat) (hw : 0 < w) (c mod : List Nat) (bw A Bv : Nat)
    (hc : Wf w c) (hm : Wf w mod) (hl : c.length = mod.length)
    (h1 : val w c + Bv = A + 2 ^ (w * c.length) * bw) (hbw : bw ≤ 1)
    (hA : A < val w mod) (hB : Bv < val w mod) :
    val w (zzAddAndW w c mod (wneg w bw)) = (A + val w mod - Bv) % val w mod
    ∧ val w (zzAddAndW w c mod (wneg w bw)) < val w mod
    ∧ Wf w (zzAddAndW w c mod (wneg w bw))
    ∧ (zzAddAndW w c mod (wneg w bw)).length = c.length := by
  have hmask := wneg01 hw hbw
  have h2 := two_le_two_pow hw
  have hm01 : wneg w bw = 0 ∨ wneg w bw = 2 ^ w - 1 := by
    rw [hmask]; split_ifs <;> simp
  have hmz : wneg w bw = 0 ↔ bw = 0 := by
    rw [hmask]; split_ifs <;> omega
  obtain ⟨cy, s2, s1, s3, s4⟩ := zzAddAndW_lem w c mod _ hm01 hc hm hl
  have hMP := val_lt hm
  rw [← hl] at hMP
  have hr := val_lt hc
  have hs := val_lt s3
  rw [s4] at hs
  obtain ⟨e1, e2⟩ := modsub_arith hA hB hMP hr hs s2 hbw h1 s1
    (by by_cases h : bw = 0
        · rw [if_pos (hmz.mpr h), if_pos h]
        · rw [if_neg (fun h' => h (hmz.mp h')), if_neg h])
  exact ⟨e1, e2, s3, s4⟩

/-! ## §10 zzHalfMod -/

theorem or_hi {k p bit : Nat} (hp : p < 2 ^ k) : p ||| (2 ^ k * bit) = p + 2 ^ k * bit := by
  rw [Nat.or_comm, ← Nat.two_pow_add_eq_or_of_lt hp, Nat.add_comm]

theorem wshl_bit {k bit : Nat} (hb : bit ≤ 1) : wshl (k + 1) bit k = 2 ^ k * bit := by
  have hH : 0 < 2 ^ k := Nat.two_pow_pos k
  have hpow : 2 ^ (k + 1) = 2 * 2 ^ k := by rw [Nat.pow_succ, Nat.mul_comm]
  show (bit * 2 ^ k) % 2 ^ (k + 1) = 2 ^ k * bit
  rw [Nat.mul_comm bit]
  apply Nat.mod_eq_of_lt
  obtain rfl | rfl : bit = 0 ∨ bit = 1 := by omega
  all_goals omega

/-- one word of the right shift: `out = x/2 + c 2^(w-1)`, `2 out + x%2 = x + B c` -/
theorem shrStep {k x c : Nat} (hx : x < 2 ^ (k + 1)) (hc : c ≤ 1) :
    2 * (wshr x 1 ||| wshl (k + 1) c k) + x % 2 = x + 2 ^ (k + 1) * c
    ∧ (wshr x 1 ||| wshl (k + 1) c k) < 2 ^ (k + 1) := by
  have hpow : 2 ^ (k + 1) = 2 * 2 ^ k := by rw [Nat.pow_succ, Nat.mul_comm]
  have hx2 : x / 2 < 2 ^ k := by omega
  rw [wshl_bit hc]
  show 2 * (x / 2 ^ 1 ||| 2 ^ k * c) + x % 2 = _ ∧ (x / 2 ^ 1 ||| 2 ^ k * c) < _
  rw [Nat.pow_one, or_hi hx2, hpow]
  have e := mul01 (2 ^ k) hc
  have e2 : 2 * 2 ^ k * c = 2 * (2 ^ k * c) := by rw [Nat.mul_assoc]
  constructor
  · omega
  · split_ifs at e <;> omega

/-- the carry leaving the top-down shift loop: the parity of the last (lowest) word -/
def halfOut : List Nat → Nat → Nat
  | [], c => c
  | x :: xs, _ => halfOut xs (x % 2)

theorem halfOut_append (xs : List Nat) (x c : Nat) : halfOut (xs ++ [x]) c = x % 2 := by
  induction xs generalizing c with
  | nil => rfl
  | cons y ys ih => simp only [List.cons_append, halfOut, ih]

theorem Wf_reverse {w : Nat} {l : List Nat} (h : Wf w l) : Wf w l.reverse :=
  fun x hx => h x (List.mem_reverse.mp hx)

theorem val_snoc (w : Nat) (l : List Nat) (y : Nat) :
    val w (l ++ [y]) = val w l + 2 ^ (w * l.length) * y := by
  rw [val_append]; simp [val]

theorem zzHalfLoop_length (w : Nat) (t : List Nat) (c : Nat) : (zzHalfLoop w t c).length = t.length := by
  induction t generalizing c with
  | nil => rfl
  | cons x xs ih => simp [zzHalfLoop, ih]

/-- the shift loop of FAST(zzHalfMod) (top word first) halves `value + B^n carry` -/
theorem zzHalfLoop_spec (k : Nat) (t : List Nat) (c : Nat) (ht : Wf (k + 1) t) (hc : c ≤ 1) :
    2 * val (k + 1) (zzHalfLoop (k + 1) t c).reverse + halfOut t c
      = val (k + 1) t.reverse + 2 ^ ((k + 1) * t.length) * c
    ∧ Wf (k + 1) (zzHalfLoop (k + 1) t c) := by
  induction t generalizing c with
  | nil => simp [zzHalfLoop, halfOut, val, Wf_nil]
  | cons x xs ih =>
    obtain ⟨hx, hxs⟩ := Wf_cons.mp ht
    obtain ⟨i1, i2⟩ := ih (x % 2) hxs (by omega)
    obtain ⟨s1, s2⟩ := shrStep hx hc
    have hP : 2 ^ ((k + 1) * (xs.length + 1)) = 2 ^ ((k + 1) * xs.length) * 2 ^ (k + 1) := by
      rw [Nat.mul_succ, Nat.pow_add]
    simp only [zzHalfLoop, Nat.add_sub_cancel, List.reverse_cons, val_snoc, List.length_reverse,
      zzHalfLoop_length, halfOut, List.length_cons, hP]
    refine ⟨?_, Wf_cons.mpr ⟨s2, i2⟩⟩
    generalize (wshr x 1 ||| wshl (k + 1) c k) = y at *
    generalize 2 ^ ((k + 1) * xs.length) = Q at *
    have h3 : Q * (2 * y + x % 2) = Q * (x + 2 ^ (k + 1) * c) := by rw [s1]
    simp only [Nat.mul_add] at h3
    have h4 : Q * (2 * y) = 2 * (Q * y) := by ring
    have h5 : Q * (2 ^ (k + 1) * c) = Q * 2 ^ (k + 1) * c := by ring
    omega

theorem val_mod_two (k x : Nat) (xs : List Nat) : val (k + 1) (x :: xs) % 2 = x % 2 := by
  have hpow : 2 ^ (k + 1) * val (k + 1) xs = 2 * (2 ^ k * val (k + 1) xs) := by
    rw [Nat.pow_succ]; ring
  rw [val_cons, hpow]
  omega

theorem halfOut_reverse (k : Nat) (l : List Nat) (hne : l ≠ []) (c : Nat) :
    halfOut l.reverse c = val (k + 1) l % 2 := by
  cases l with
  | nil => exact absurd rfl hne
  | cons x xs => rw [List.reverse_cons, halfOut_append, val_mod_two]

theorem zzIsOdd_iff (k : Nat) (a : List Nat) : zzIsOdd a = true ↔ val (k + 1) a % 2 = 1 := by
  cases a with
  | nil => simp [zzIsOdd, val]
  | cons x xs => rw [val_mod_two]; simp [zzIsOdd]

/-- the whole top-down shift, in little-endian terms -/
theorem halfShift_spec (k : Nat) (l : List Nat) (c : Nat) (hl : Wf (k + 1) l) (hc : c ≤ 1)
    (hne : l ≠ []) :
    2 * val (k + 1) (zzHalfLoop (k + 1) l.reverse c).reverse + val (k + 1) l % 2
      = val (k + 1) l + 2 ^ ((k + 1) * l.length) * c
    ∧ Wf (k + 1) (zzHalfLoop (k + 1) l.reverse c).reverse
    ∧ (zzHalfLoop (k + 1) l.reverse c).reverse.length = l.length := by
  obtain ⟨h1, h2⟩ := zzHalfLoop_spec k l.reverse c (Wf_reverse hl) hc
  rw [List.reverse_reverse, List.length_reverse, halfOut_reverse k l hne] at h1
  exact ⟨h1, Wf_reverse h2, by rw [List.length_reverse, zzHalfLoop_length, List.length_reverse]⟩

/-- `B^n` is even for a non-empty number -/
theorem pow_even (k n : Nat) (hn : 0 < n) (c : Nat) : ∃ q, 2 ^ ((k + 1) * n) * c = 2 * q := by
  obtain ⟨m, hm⟩ : ∃ m, (k + 1) * n = m + 1 := ⟨(k + 1) * n - 1, by
    have : 1 ≤ (k + 1) * n := Nat.mul_pos (by omega) hn
    omega⟩
  exact ⟨2 ^ m * c, by rw [hm, Nat.pow_succ]; ring⟩

/-! ### SAFE(zzHalfMod) -/

/-- the adder step of SAFE(zzHalfMod): `b = a + carry; carry = b < carry; b += t; carry |= b < t` -/
def fAdd3 (w : Nat) (x y c : Nat) : Nat × Nat :=
  (wadd w (wadd w x c) y, wless01 (wadd w x c) c ||| wless01 (wadd w (wadd w x c) y) y)

theorem addStep3B {B x y c : Nat} (hx : x < B) (hy : y < B) (hc : c ≤ 1) :
    let t := (x + c) % B
    let c1 := wless01 t c
    let s := (t + y) % B
    let c2 := c1 ||| wless01 s y
    s + B * c2 = x + y + c ∧ s < B ∧ c2 ≤ 1 := by
  intro t c1 s c2
  have ht : t = if x + c < B then x + c else x + c - B := mod_wrap (by omega)
  have htB : t < B := Nat.mod_lt _ (by omega)
  have hs : s = if t + y < B then t + y else t + y - B := mod_wrap (by omega)
  have hc1 : c1 = if t < c then 1 else 0 := rfl
  have hc2 : c2 = if c1 = 0 then (if s < y then 1 else 0) else 1 :=
    lor01 (wless01_le _ _) (wless01_le _ _)
  clear_value t c1 s c2
  subst hc2 hc1
  split_ifs at * <;> subst_vars <;> simp <;> omega

theorem fAdd3_ok (w : Nat) : AddStepOK w (fAdd3 w) := fun _ _ _ hx hy hc => addStep3B hx hy hc

/-- low-to-high right shift of the sum words `ss` with top carry `cout`; `prev` is the already
    shifted previous word waiting for its top bit -/
def shrLE (w : Nat) : Nat → List Nat → Nat → List Nat
  | prev, [], cout => [prev ||| wshl w cout (w - 1)]
  | prev, s :: ss, cout => (prev ||| wshl w (s % 2) (w - 1)) :: shrLE w (wshr s 1) ss cout

theorem zzHalfMod_safeLoop_eq (w : Nat) (as ms : List Nat) (mask carry prev : Nat)
    (hl : as.length = ms.length) :
    zzHalfMod_safeLoop w as ms mask carry prev
      = shrLE w prev (loop2 (fAdd3 w) as (ms.map (mask &&& ·)) carry).1
          (loop2 (fAdd3 w) as (ms.map (mask &&& ·)) carry).2 := by
  induction as generalizing ms carry prev with
  | nil =>
    cases ms with
    | nil => simp [zzHalfMod_safeLoop, loop2, shrLE]
    | cons _ _ => simp at hl
  | cons x xs ih =>
    cases ms with
    | nil => simp at hl
    | cons m ms =>
      simp only [zzHalfMod_safeLoop, List.map_cons, loop2, shrLE, fAdd3]
      rw [ih ms _ _ (by simpa using hl)]

theorem shrLE_spec (k : Nat) (prev : Nat) (ss : List Nat) (cout : Nat)
    (hp : prev < 2 ^ k) (hss : Wf (k + 1) ss) (hc : cout ≤ 1) :
    val (k + 1) (shrLE (k + 1) prev ss cout)
      = prev + 2 ^ k * (val (k + 1) ss + 2 ^ ((k + 1) * ss.length) * cout)
    ∧ Wf (k + 1) (shrLE (k + 1) prev ss cout)
    ∧ (shrLE (k + 1) prev ss cout).length = ss.length + 1 := by
  have hpow : 2 ^ (k + 1) = 2 * 2 ^ k := by rw [Nat.pow_succ, Nat.mul_comm]
  induction ss generalizing prev with
  | nil =>
    have e := mul01 (2 ^ k) hc
    have h0 : shrLE (k + 1) prev [] cout = [prev + 2 ^ k * cout] := by
      simp only [shrLE, Nat.add_sub_cancel, wshl_bit hc, or_hi hp]
    rw [h0]
    refine ⟨by simp [val], Wf_cons.mpr ⟨?_, Wf_nil _⟩, rfl⟩
    split_ifs at e <;> omega
  | cons s ss ih =>
    obtain ⟨hs, hss'⟩ := Wf_cons.mp hss
    have hw2 : wshr s 1 = s / 2 := by show s / 2 ^ 1 = s / 2; rw [Nat.pow_one]
    have hs2 : s / 2 < 2 ^ k := by omega
    obtain ⟨i1, i2, i3⟩ := ih (s / 2) hs2 hss'
    have hb : s % 2 ≤ 1 := by omega
    have e := mul01 (2 ^ k) hb
    have h0 : shrLE (k + 1) prev (s :: ss) cout
        = (prev + 2 ^ k * (s % 2)) :: shrLE (k + 1) (s / 2) ss cout := by
      simp only [shrLE, Nat.add_sub_cancel, wshl_bit hb, or_hi hp, hw2]
    have hP : 2 ^ ((k + 1) * (ss.length + 1)) = 2 ^ ((k + 1) * ss.length) * 2 ^ (k + 1) := by
      rw [Nat.mul_succ, Nat.pow_add]
    rw [h0, val_cons, val_cons, i1, List.length_cons, List.length_cons, i3, hP]
    refine ⟨?_, Wf_cons.mpr ⟨by split_ifs at e <;> omega, i2⟩, rfl⟩
    generalize val (k + 1) ss = V
    generalize 2 ^ ((k + 1) * ss.length) = Q
    have h1 : 2 ^ (k + 1) * (s / 2 + 2 ^ k * (V + Q * cout))
        = 2 ^ k * (2 * (s / 2)) + 2 ^ k * (2 ^ (k + 1) * V + Q * 2 ^ (k + 1) * cout) := by
      rw [hpow]; ring
    have h2 : 2 ^ k * (2 * (s / 2)) + 2 ^ k * (s % 2) = 2 ^ k * s := by
      rw [← Nat.mul_add]; congr 1; omega
    have h3 : 2 ^ k * (s + 2 ^ (k + 1) * V + Q * 2 ^ (k + 1) * cout)
        = 2 ^ k * s + 2 ^ k * (2 ^ (k + 1) * V + Q * 2 ^ (k + 1) * cout) := by ring
    rw [h1, h3, ← h2]
    omega

/-- SAFE(zzHalfMod) halves the masked sum `L = a + (mod & mask)` computed by its adder -/
theorem zzHalfMod_safe_val (k : Nat) (a0 : Nat) (as : List Nat) (m0 : Nat) (ms : List Nat)
    (ha : Wf (k + 1) (a0 :: as)) (hm : Wf (k + 1) (m0 :: ms)) (hl : as.length = ms.length) :
    2 * val (k + 1) (zzHalfMod_safe (k + 1) (a0 :: as) (m0 :: ms))
        + val (k + 1) (loop2 (fAdd3 (k + 1)) (a0 :: as)
            ((m0 :: ms).map (wneg (k + 1) (a0 % 2) &&& ·)) 0).1 % 2
      = val (k + 1) (loop2 (fAdd3 (k + 1)) (a0 :: as)
            ((m0 :: ms).map (wneg (k + 1) (a0 % 2) &&& ·)) 0).1
        + 2 ^ ((k + 1) * (as.length + 1)) * (loop2 (fAdd3 (k + 1)) (a0 :: as)
            ((m0 :: ms).map (wneg (k + 1) (a0 % 2) &&& ·)) 0).2
    ∧ Wf (k + 1) (zzHalfMod_safe (k + 1) (a0 :: as) (m0 :: ms))
    ∧ (zzHalfMod_safe (k + 1) (a0 :: as) (m0 :: ms)).length = as.length + 1 := by
  obtain ⟨ha0, has⟩ := Wf_cons.mp ha
  have hT := Wf_map_and hm (wneg (k + 1) (a0 % 2))
  have hunf : zzHalfMod_safe (k + 1) (a0 :: as) (m0 :: ms)
      = zzHalfMod_safeLoop (k + 1) as ms (wneg (k + 1) (a0 % 2))
          (wless01 (wadd (k + 1) a0 (wneg (k + 1) (a0 % 2) &&& m0)) (wneg (k + 1) (a0 % 2) &&& m0))
          (wshr (wadd (k + 1) a0 (wneg (k + 1) (a0 % 2) &&& m0)) 1) := rfl
  rw [hunf]
  generalize wneg (k + 1) (a0 % 2) = mask at *
  rw [List.map_cons] at hT ⊢
  obtain ⟨ht0, hts⟩ := Wf_cons.mp hT
  obtain ⟨_, f2, f3⟩ := fAdd3_ok (k + 1) a0 (mask &&& m0) 0 ha0 ht0 (by omega)
  have hf : fAdd3 (k + 1) a0 (mask &&& m0) 0
      = (wadd (k + 1) a0 (mask &&& m0), wless01 (wadd (k + 1) a0 (mask &&& m0)) (mask &&& m0)) := by
    simp only [fAdd3, wadd, wless01, Nat.add_zero, Nat.mod_eq_of_lt ha0, if_false,
      Nat.not_lt_zero, Nat.zero_or]
  have hsafe : zzHalfMod_safeLoop (k + 1) as ms mask
          (wless01 (wadd (k + 1) a0 (mask &&& m0)) (mask &&& m0)) (wshr (wadd (k + 1) a0 (mask &&& m0)) 1)
      = shrLE (k + 1) (wshr (fAdd3 (k + 1) a0 (mask &&& m0) 0).1 1)
          (loop2 (fAdd3 (k + 1)) as (ms.map (mask &&& ·)) (fAdd3 (k + 1) a0 (mask &&& m0) 0).2).1
          (loop2 (fAdd3 (k + 1)) as (ms.map (mask &&& ·)) (fAdd3 (k + 1) a0 (mask &&& m0) 0).2).2 := by
    rw [hf]
    rw [zzHalfMod_safeLoop_eq _ _ _ _ _ _ hl]
  obtain ⟨_, r2, r3, r4⟩ := loop2_add (fAdd3_ok (k + 1)) as (ms.map (mask &&& ·))
    (fAdd3 (k + 1) a0 (mask &&& m0) 0).2 has hts (by simpa using hl) f3
  have hpow : 2 ^ (k + 1) = 2 * 2 ^ k := by rw [Nat.pow_succ, Nat.mul_comm]
  have hS2 : wshr (fAdd3 (k + 1) a0 (mask &&& m0) 0).1 1 = (fAdd3 (k + 1) a0 (mask &&& m0) 0).1 / 2 := by
    show _ / 2 ^ 1 = _; rw [Nat.pow_one]
  obtain ⟨v1, v2, v3⟩ := shrLE_spec k (wshr (fAdd3 (k + 1) a0 (mask &&& m0) 0).1 1) _ _
    (by rw [hS2]; omega) r3 r2
  rw [hsafe]
  simp only [loop2]
  rw [r4] at v1 v3
  refine ⟨?_, v2, v3⟩
  rw [v1, val_mod_two, val_cons, hS2]
  have hP : 2 ^ ((k + 1) * (as.length + 1)) = 2 ^ ((k + 1) * as.length) * 2 ^ (k + 1) := by
    rw [Nat.mul_succ, Nat.pow_add]
  rw [hP]
  generalize (fAdd3 (k + 1) a0 (mask &&& m0) 0).1 = S0
  generalize val (k + 1) (loop2 (fAdd3 (k + 1)) as (ms.map (mask &&& ·)) (fAdd3 (k + 1) a0 (mask &&& m0) 0).2).1 = V
  generalize (loop2 (fAdd3 (k + 1)) as (ms.map (mask &&& ·)) (fAdd3 (k + 1) a0 (mask &&& m0) 0).2).2 = co
  generalize 2 ^ ((k + 1) * as.length) = Q
  have h1 : 2 * (S0 / 2 + 2 ^ k * (V + Q * co)) = 2 * (S0 / 2) + (2 ^ (k + 1) * V + Q * 2 ^ (k + 1) * co) := by
    rw [hpow]; ring
  rw [h1]
  omega

end Bee2V.C05.Add

/-
C05 — for an irreducible f (`NatIrred f`) the ring `Gf2.R f` = GF(2)[x]/(f) on Nat codes
(CommRing of LemmasGf2.lean) is a field of 2^(deg f) elements and characteristic 2, with
`ppInvModV` (the C algorithm of pp_mod.c, ModelPp) as the inverse for odd f.
Everything lives in `namespace Bee2V.C05.Fld`.
-/
import Bee2V.C05.ModelFld
import Bee2V.C05.LemmasGf2
import Bee2V.C05.PropsPp
import Mathlib.Algebra.Field.Defs
import Mathlib.Algebra.CharP.Two
import Mathlib.FieldTheory.Finite.Basic
import Mathlib.Algebra.Polynomial.Degree.Units
import Mathlib.Algebra.Polynomial.Inductions
import Mathlib.Algebra.Field.ZMod
namespace Bee2V.C05.Fld
open Bee2V.C05 Bee2V.C05.Spec Bee2V.C05.Pp Bee2V.C05.Gf2

/-! ## consequences of irreducibility at the Nat level -/

theorem natIrred_ne_zero {f : Nat} (h : NatIrred f) : f ≠ 0 := by
  rintro rfl
  have := h.1
  simp at this

theorem natIrred_two_le {f : Nat} (h : NatIrred f) : 2 ≤ f := by
  have := (Nat.le_log2 (natIrred_ne_zero h) (k := 1)).1 h.1
  simpa using this

/-- a non-zero multiple of f has degree ≥ deg f -/
theorem lt_of_pdvd {f a : Nat} (hf : f ≠ 0) (h : PDvd f a) (ha : a < 2 ^ f.log2) : a = 0 := by
  obtain ⟨q, hq⟩ := h
  by_contra ha0
  have hq0 : q ≠ 0 := by
    rintro rfl
    rw [zero_clmul] at hq
    exact ha0 hq
  have := log2_clmul hq0 hf
  rw [← hq] at this
  have h2 := (Nat.log2_lt ha0).2 ha
  omega

/-- a non-zero reduced element is coprime to an irreducible f -/
theorem pgcd_eq_one {f a : Nat} (h : NatIrred f) (ha0 : a ≠ 0) (ha : a < 2 ^ f.log2) :
    pgcd a f = 1 := by
  obtain ⟨g1, g2, _⟩ := pgcd_spec a f
  obtain ⟨q, hq⟩ := g2
  rcases h.2 q (pgcd a f) hq with hq1 | hg1
  · exfalso
    rw [hq1, one_clmul] at hq
    rw [← hq] at g1
    exact ha0 (lt_of_pdvd (natIrred_ne_zero h) g1 ha)
  · exact hg1

theorem pgcd_zero_left {f : Nat} : pgcd 0 f = f := by
  have h1 := pgcd_spec 0 f
  have h2 : IsPGcd f 0 f := ⟨pdvd_zero f, pdvd_refl f, fun d _ h => h⟩
  exact isPGcd_unique h1 h2

/-- an even irreducible polynomial is x -/
theorem natIrred_even {f : Nat} (h : NatIrred f) (he : f % 2 = 0) : f = 2 := by
  have e : f = clmul (f / 2) 2 := by rw [clmul_two]; omega
  rcases h.2 _ _ e with h1 | h1
  · omega
  · exact absurd h1 (by decide)

/-! ## the field structure -/

variable {f : Nat} [hI : Fact (NatIrred f)]

instance instFactNeZero : Fact (f ≠ 0) := ⟨natIrred_ne_zero hI.out⟩

omit hI in
theorem one_lt_pow (h : NatIrred f) : 1 < 2 ^ f.log2 :=
  Nat.lt_of_lt_of_le (by decide : 1 < 2 ^ 1) (Nat.pow_le_pow_right (by decide) h.1)

theorem val_one_eq : (1 : R f).1 = 1 := by
  rw [val_one]; exact pmod_of_lt (natIrred_ne_zero hI.out) (one_lt_pow hI.out)

theorem one_ne_zero' : (1 : R f) ≠ 0 := by
  intro h
  have := congrArg Subtype.val h
  rw [val_one_eq, val_zero] at this
  exact absurd this (by decide)

/-- the inverse as the code computes it: ppInvMod for odd f (for the only even irreducible
    polynomial f = x the field is {0, 1} and the inverse is the identity) -/
def invNat (f a : Nat) : Nat := if f % 2 = 1 then ppInvModV a f else a

theorem invNat_lt (a : R f) : invNat f a.1 < 2 ^ f.log2 := by
  unfold invNat
  split_ifs with ho
  · have h1 : f ≠ 1 := by have := natIrred_two_le hI.out; omega
    obtain ⟨s1, s2⟩ := ppInvModV_spec a.1 f ho h1
    by_cases hg : pgcd a.1 f = 1
    · exact (s1 hg).2
    · rw [s2 hg]; exact Nat.two_pow_pos _
  · exact a.2

instance : Inv (R f) := ⟨fun a => ⟨invNat f a.1, invNat_lt a⟩⟩

theorem val_inv (a : R f) : (a⁻¹).1 = invNat f a.1 := rfl

theorem mul_inv_cancel' (a : R f) (ha : a ≠ 0) : a * a⁻¹ = 1 := by
  have ha0 : a.1 ≠ 0 := fun h => ha (R.ext h)
  apply R.ext
  rw [val_mul, val_inv, val_one_eq]
  unfold invNat gfMul
  split_ifs with ho
  · have h1 : f ≠ 1 := by have := natIrred_two_le hI.out; omega
    have hg := pgcd_eq_one hI.out ha0 a.2
    rw [clmul_comm]
    exact (((ppInvModV_spec a.1 f ho h1).1) hg).1
  · have hf2 := natIrred_even hI.out (by omega)
    have ha2 : a.1 < 2 ^ f.log2 := a.2
    generalize a.1 = av at *
    rw [hf2] at ha2 ⊢
    have : av = 1 := by
      have : (2 : Nat).log2 = 1 := by decide
      rw [this] at ha2
      omega
    rw [this]; decide

theorem inv_zero' : (0 : R f)⁻¹ = 0 := by
  apply R.ext
  rw [val_inv, val_zero]
  unfold invNat
  split_ifs with ho
  · have h1 : f ≠ 1 := by have := natIrred_two_le hI.out; omega
    apply (ppInvModV_spec 0 f ho h1).2
    rw [pgcd_zero_left]; exact h1
  · rfl

instance instField : Field (R f) where
  inv := Inv.inv
  exists_pair_ne := ⟨0, 1, fun h => one_ne_zero' h.symm⟩
  mul_inv_cancel := mul_inv_cancel'
  inv_zero := inv_zero'
  nnqsmul := _
  nnqsmul_def := fun _ _ => rfl
  qsmul := _
  qsmul_def := fun _ _ => rfl

instance : DecidableEq (R f) := fun a b => decidable_of_iff (a.1 = b.1) ⟨R.ext, congrArg _⟩

instance : Fintype (R f) := Fintype.ofEquiv (Fin (2 ^ f.log2))
  ⟨fun i => ⟨i.1, i.2⟩, fun a => ⟨a.1, a.2⟩, fun _ => rfl, fun _ => rfl⟩

omit hI in
theorem card_R [Fact (f ≠ 0)] : Fintype.card (R f) = 2 ^ f.log2 := by
  rw [Fintype.card_congr (⟨fun a => ⟨a.1, a.2⟩, fun i => ⟨i.1, i.2⟩, fun _ => rfl, fun _ => rfl⟩ :
    R f ≃ Fin (2 ^ f.log2)), Fintype.card_fin]

instance : CharP (R f) 2 :=
  CharTwo.of_one_ne_zero_of_two_eq_zero one_ne_zero' (by
    rw [← one_add_one_eq_two]; exact add_self 1)

/-- ppInvModV is the field inverse (odd f), including 0 ↦ 0 -/
theorem val_inv_odd (ho : f % 2 = 1) (a : R f) : (a⁻¹).1 = ppInvModV a.1 f := by
  rw [val_inv]; unfold invNat; rw [if_pos ho]

/-! ## the hypotheses of PropsGf2 hold for every irreducible f -/

omit hI in
theorem frobFix_of_irred {f m : Nat} (h : NatIrred f) (hm : f.log2 = m) : FrobFix f m := by
  have : Fact (NatIrred f) := ⟨h⟩
  refine ⟨natIrred_ne_zero h, hm, fun x hx => ?_⟩
  have hx' : x < 2 ^ f.log2 := by rw [hm]; exact hx
  have h1 := gf2SqrN_eq (mk x hx') m
  have h2 := FiniteField.pow_card (mk x hx')
  rw [card_R, hm] at h2
  rw [h2] at h1
  exact h1

omit hI in
theorem noZeroDiv_of_irred {f m : Nat} (h : NatIrred f) (hm : f.log2 = m) : NoZeroDiv f m := by
  have : Fact (NatIrred f) := ⟨h⟩
  intro x y hx hy hxy
  have hx' : x < 2 ^ f.log2 := by rw [hm]; exact hx
  have hy' : y < 2 ^ f.log2 := by rw [hm]; exact hy
  have : mk x hx' * mk y hy' = 0 := R.ext hxy
  rcases mul_eq_zero.1 this with h0 | h0
  · exact Or.inl (congrArg Subtype.val h0)
  · exact Or.inr (congrArg Subtype.val h0)

omit hI in
theorem sqr_coprime_of_irred {f m a : Nat} (h : NatIrred f) (hm : f.log2 = m) (ha : a < 2 ^ m)
    (ha0 : a ≠ 0) : pgcd (gfSqr f a) f = 1 := by
  have hf0 := natIrred_ne_zero h
  apply pgcd_eq_one h _ (pmod_lt hf0 _)
  intro hs
  rcases noZeroDiv_of_irred h hm a a ha ha hs with h0 | h0 <;> exact ha0 h0

omit hI in
theorem odd_of_irred {f : Nat} (h : NatIrred f) (h2 : f ≠ 2) : f % 2 = 1 := by
  by_contra ho
  exact h2 (natIrred_even h (by omega))

/-- a finite (decidable) criterion: only factors of degree ≤ deg f need to be tried -/
theorem natIrred_of_check {f : Nat} (h1 : 1 ≤ f.log2)
    (h2 : ∀ b, b < 2 ^ (f.log2 + 1) → ∀ c, c < 2 ^ (f.log2 + 1) → f = clmul b c → b = 1 ∨ c = 1) :
    NatIrred f := by
  refine ⟨h1, fun b c hbc => ?_⟩
  have hf0 : f ≠ 0 := by rintro rfl; simp at h1
  have hb0 : b ≠ 0 := by rintro rfl; rw [zero_clmul] at hbc; exact hf0 hbc
  have hc0 : c ≠ 0 := by rintro rfl; rw [clmul_zero] at hbc; exact hf0 hbc
  have hl := log2_clmul hb0 hc0
  rw [← hbc] at hl
  have hb : b < 2 ^ (f.log2 + 1) :=
    Nat.lt_of_lt_of_le Nat.lt_log2_self (Nat.pow_le_pow_right (by decide) (by omega))
  have hc : c < 2 ^ (f.log2 + 1) :=
    Nat.lt_of_lt_of_le Nat.lt_log2_self (Nat.pow_le_pow_right (by decide) (by omega))
  exact h2 b hb c hc hbc

/-! ## the embedding of Nat codes used by the C06 bridge -/

/-- the canonical embedding of Nat codes: reduced codes to themselves, everything else to 0 -/
def toR (md : Nat) [Fact (md ≠ 0)] (a : Nat) : R md :=
  if h : a < 2 ^ md.log2 then (⟨a, h⟩ : R md) else 0

theorem toR_val {md : Nat} [Fact (md ≠ 0)] {a : Nat} (h : a < 2 ^ md.log2) : (toR md a).1 = a := by
  have : toR md a = ⟨a, h⟩ := dif_pos h
  rw [this]

theorem toR_mk {md : Nat} [Fact (md ≠ 0)] (x : R md) : toR md x.1 = x := R.ext (toR_val x.2)

/-! ## the projection GF(2)[x] → GF(2)[x]/(f) -/

section proj
variable {f : Nat} [hf : Fact (f ≠ 0)]

/-- the class of the polynomial c -/
def proj (f : Nat) [Fact (f ≠ 0)] (c : Nat) : R f := ⟨pmod c f, pmod_lt Fact.out c⟩

theorem proj_xor (a b : Nat) : proj f (a ^^^ b) = proj f a + proj f b :=
  R.ext (pmod_xor hf.out a b)

theorem proj_clmul (a b : Nat) : proj f (clmul a b) = proj f a * proj f b := by
  apply R.ext
  show pmod (clmul a b) f = gfMul f (pmod a f) (pmod b f)
  unfold gfMul
  rw [pmod_mul_left hf.out, pmod_mul_right hf.out]

theorem proj_val (a : R f) : proj f a.1 = a := R.ext (pmod_of_lt hf.out a.2)

theorem proj_zero : proj f 0 = 0 := R.ext (pmod_zero hf.out)

theorem proj_one : proj f 1 = 1 := rfl

theorem proj_eq_zero_iff (c : Nat) : proj f c = 0 ↔ PDvd f c := by
  constructor
  · intro h
    have h0 : pmod c f = 0 := congrArg Subtype.val h
    have := (pdivmod_spec c f hf.out).1
    unfold pmod at h0
    rw [h0, Nat.xor_zero] at this
    exact ⟨_, this.symm⟩
  · rintro ⟨q, hq⟩
    apply R.ext
    show pmod c f = 0
    have : Cong f c 0 := ⟨q, by rw [Nat.xor_zero, hq]⟩
    rw [pmod_cong hf.out this, pmod_zero hf.out]

/-- reduction modulo a multiple of g does not change the class modulo g -/
theorem proj_pmod_of_dvd {g : Nat} [Fact (g ≠ 0)] (hgf : PDvd g f) (c : Nat) :
    proj g (pmod c f) = proj g c := by
  rw [pmod_eq c f hf.out, proj_xor, proj_clmul, (proj_eq_zero_iff f).2 hgf, mul_zero, add_zero]

theorem proj_gfSqr_of_dvd {g : Nat} [Fact (g ≠ 0)] (hgf : PDvd g f) (y : Nat) :
    proj g (gfSqr f y) = (proj g y) ^ 2 := by
  unfold gfSqr
  rw [proj_pmod_of_dvd hgf, proj_clmul, sq]

theorem proj_sqrN_of_dvd {g : Nat} [Fact (g ≠ 0)] (hgf : PDvd g f) (k y : Nat) :
    proj g (gf2SqrN f k y) = (proj g y) ^ 2 ^ k := by
  induction k generalizing y with
  | zero => simp [gf2SqrN]
  | succ k ih =>
    unfold gf2SqrN
    rw [ih, proj_gfSqr_of_dvd hgf, ← pow_mul, pow_succ, Nat.mul_comm]

/-- if Frobenius^i fixes the class of x it fixes every class -/
theorem frob_fix_all (i : Nat) (hx : (proj f 2) ^ 2 ^ i = proj f 2) :
    ∀ c : Nat, (proj f c) ^ 2 ^ i = proj f c := by
  intro c
  induction c using Nat.strong_induction_on with
  | _ c ih =>
    by_cases h0 : c = 0
    · subst h0
      rw [proj_zero]
      exact zero_pow (Nat.pos_iff_ne_zero.1 (Nat.two_pow_pos i))
    · have hd : c = clmul 2 (c / 2) ^^^ c % 2 := by
        rw [clmul_comm, clmul_two]; exact (bit_decomp c).symm
      have hlt : c / 2 < c := by omega
      have hb : (proj f (c % 2)) ^ 2 ^ i = proj f (c % 2) := by
        rcases Nat.mod_two_eq_zero_or_one c with h | h <;> rw [h]
        · rw [proj_zero]; exact zero_pow (Nat.pos_iff_ne_zero.1 (Nat.two_pow_pos i))
        · rw [proj_one, one_pow]
      conv_lhs => rw [hd]
      conv_rhs => rw [hd]
      rw [proj_xor, proj_clmul, add_pow_two_pow, mul_pow, hx, ih _ hlt, hb]

end proj

/-! ## Ben-Or, direction "irreducible ⇒ all tests pass" -/

/-- in the field of 2^n elements Frobenius^i (1 ≤ i < n) moves the class of x -/
theorem frob_moves_x {f : Nat} [hI : Fact (NatIrred f)] (i : Nat) (hi1 : 1 ≤ i) (hin : i < f.log2) :
    (proj f 2) ^ 2 ^ i ≠ proj f 2 := by
  intro hx
  have hall : ∀ a : R f, a ^ 2 ^ i = a := fun a => by
    have := frob_fix_all i hx a.1
    rwa [proj_val] at this
  obtain ⟨g, hg⟩ := IsCyclic.exists_generator (α := (R f)ˣ)
  have hord : orderOf g = 2 ^ f.log2 - 1 := by
    rw [orderOf_eq_card_of_forall_mem_zpowers hg, Nat.card_eq_fintype_card, Fintype.card_units, card_R]
  have hpos : 0 < 2 ^ i - 1 := by
    have : 2 ^ 1 ≤ 2 ^ i := Nat.pow_le_pow_right (by decide) hi1
    omega
  have hg1 : g ^ (2 ^ i - 1) = 1 := by
    have h1 : g ^ 2 ^ i = g := Units.ext (by rw [Units.val_pow_eq_pow_val]; exact hall _)
    have h2 : g ^ (2 ^ i - 1) * g = 1 * g := by
      rw [← pow_succ, Nat.sub_add_cancel (Nat.one_le_two_pow), h1, one_mul]
    exact mul_right_cancel h2
  have hdvd := orderOf_dvd_of_pow_eq_one hg1
  rw [hord] at hdvd
  have hle := Nat.le_of_dvd hpos hdvd
  have : 2 ^ (i + 1) ≤ 2 ^ f.log2 := Nat.pow_le_pow_right (by decide) hin
  rw [Nat.pow_succ] at this
  have := Nat.two_pow_pos i
  omega

theorem isPGcd_symm {g a b : Nat} (h : IsPGcd g a b) : IsPGcd g b a :=
  ⟨h.2.1, h.1, fun d h1 h2 => h.2.2 d h2 h1⟩

theorem pgcd_comm' (a b : Nat) : pgcd a b = pgcd b a :=
  isPGcd_unique (pgcd_spec a b) (isPGcd_symm (pgcd_spec b a))

/-- for irreducible f every Ben-Or test i = 1 … deg f / 2 passes -/
theorem benor_pass {f : Nat} (h : NatIrred f) (i : Nat) (hi : i < f.log2 / 2) :
    pgcd f (gf2SqrN f (i + 1) (pmod 2 f) ^^^ pmod 2 f) = 1 := by
  have : Fact (NatIrred f) := ⟨h⟩
  have hf0 := natIrred_ne_zero h
  have hmv := frob_moves_x (f := f) (i + 1) (by omega) (by omega)
  have e1 : gf2SqrN f (i + 1) (pmod 2 f) = ((proj f 2) ^ 2 ^ (i + 1)).1 :=
    gf2SqrN_eq (proj f 2) (i + 1)
  have e2 : gf2SqrN f (i + 1) (pmod 2 f) ^^^ pmod 2 f = ((proj f 2) ^ 2 ^ (i + 1) + proj f 2).1 := by
    rw [val_add, ← e1]; rfl
  rw [e2, pgcd_comm']
  apply pgcd_eq_one h _ ((proj f 2) ^ 2 ^ (i + 1) + proj f 2).2
  intro h0
  apply hmv
  have hz : (proj f 2) ^ 2 ^ (i + 1) + proj f 2 = 0 := R.ext h0
  calc (proj f 2) ^ 2 ^ (i + 1) = ((proj f 2) ^ 2 ^ (i + 1) + proj f 2) + proj f 2 := by
        rw [add_assoc, add_self, add_zero]
    _ = proj f 2 := by rw [hz, zero_add]

/-! ## Ben-Or, direction "all tests pass ⇒ irreducible" -/

theorem pdvd_trans {a b c : Nat} (h1 : PDvd a b) (h2 : PDvd b c) : PDvd a c := by
  obtain ⟨q, hq⟩ := h1
  obtain ⟨r, hr⟩ := h2
  exact ⟨clmul r q, by rw [hr, hq, clmul_assoc]⟩

theorem eq_one_of_log2_zero {x : Nat} (h0 : x ≠ 0) (hl : x.log2 = 0) : x = 1 := by
  have := (Nat.log2_lt h0).1 (show x.log2 < 1 by omega)
  omega

/-- every polynomial of degree ≥ 1 has an irreducible factor; a reducible one has an irreducible
    factor of degree ≤ deg / 2 -/
theorem exists_irred_factor : ∀ (n f : Nat), f.log2 = n → 1 ≤ n →
    ∃ g, NatIrred g ∧ PDvd g f ∧ (¬ NatIrred f → g.log2 ≤ n / 2) := by
  intro n
  induction n using Nat.strong_induction_on with
  | _ n ih =>
    intro f hfn hn
    by_cases hirr : NatIrred f
    · exact ⟨f, hirr, pdvd_refl f, fun h => absurd hirr h⟩
    · have hf0 : f ≠ 0 := by rintro rfl; simp at hfn; omega
      -- a non-trivial factorisation
      have hex : ∃ b c, f = clmul b c ∧ b ≠ 1 ∧ c ≠ 1 := by
        by_contra hne
        apply hirr
        refine ⟨by omega, fun b c hbc => ?_⟩
        by_contra h2
        exact hne ⟨b, c, hbc, fun hb => h2 (Or.inl hb), fun hc => h2 (Or.inr hc)⟩
      obtain ⟨b, c, hbc, hb1, hc1⟩ := hex
      have hb0 : b ≠ 0 := by rintro rfl; rw [zero_clmul] at hbc; exact hf0 hbc
      have hc0 : c ≠ 0 := by rintro rfl; rw [clmul_zero] at hbc; exact hf0 hbc
      have hl := log2_clmul hb0 hc0
      rw [← hbc, hfn] at hl
      have hbl : 1 ≤ b.log2 := by
        by_contra h; exact hb1 (eq_one_of_log2_zero hb0 (by omega))
      have hcl : 1 ≤ c.log2 := by
        by_contra h; exact hc1 (eq_one_of_log2_zero hc0 (by omega))
      -- take the factor of smaller degree
      by_cases hle : c.log2 ≤ b.log2
      · obtain ⟨g, g1, g2, g3⟩ := ih c.log2 (by omega) c rfl hcl
        refine ⟨g, g1, pdvd_trans g2 ⟨b, hbc⟩, fun _ => ?_⟩
        have hgc : g.log2 ≤ c.log2 := by
          by_cases hci : NatIrred c
          · obtain ⟨q, hq⟩ := g2
            have hg0 := natIrred_ne_zero g1
            have hq0 : q ≠ 0 := by rintro rfl; rw [zero_clmul] at hq; exact hc0 hq
            have := log2_clmul hq0 hg0
            rw [← hq] at this; omega
          · have := g3 hci; omega
        omega
      · obtain ⟨g, g1, g2, g3⟩ := ih b.log2 (by omega) b rfl hbl
        refine ⟨g, g1, pdvd_trans g2 ⟨c, by rw [hbc, clmul_comm]⟩, fun _ => ?_⟩
        have hgb : g.log2 ≤ b.log2 := by
          by_cases hbi : NatIrred b
          · obtain ⟨q, hq⟩ := g2
            have hg0 := natIrred_ne_zero g1
            have hq0 : q ≠ 0 := by rintro rfl; rw [zero_clmul] at hq; exact hb0 hq
            have := log2_clmul hq0 hg0
            rw [← hq] at this; omega
          · have := g3 hbi; omega
        omega

/-- a reducible f fails the Ben-Or test with index deg g, g an irreducible factor of small degree -/
theorem benor_fail {f : Nat} (hn : 1 ≤ f.log2) (hred : ¬ NatIrred f) :
    ∃ i, i < f.log2 / 2 ∧ pgcd f (gf2SqrN f (i + 1) (pmod 2 f) ^^^ pmod 2 f) ≠ 1 := by
  obtain ⟨g, g1, g2, g3⟩ := exists_irred_factor f.log2 f rfl hn
  have hgd := g3 hred
  have hf0 : f ≠ 0 := by rintro rfl; simp at hn
  have : Fact (NatIrred g) := ⟨g1⟩
  have : Fact (f ≠ 0) := ⟨hf0⟩
  have hd1 : 1 ≤ g.log2 := g1.1
  refine ⟨g.log2 - 1, by omega, ?_⟩
  rw [show g.log2 - 1 + 1 = g.log2 by omega]
  -- g divides the test polynomial
  have hw : proj g (gf2SqrN f g.log2 (pmod 2 f) ^^^ pmod 2 f) = 0 := by
    rw [proj_xor, proj_sqrN_of_dvd g2, proj_pmod_of_dvd g2]
    have := FiniteField.pow_card (proj g 2)
    rw [card_R] at this
    rw [this, add_self]
  have hgw := (proj_eq_zero_iff (f := g) _).1 hw
  intro hone
  have := (pgcd_spec f (gf2SqrN f g.log2 (pmod 2 f) ^^^ pmod 2 f)).2.2 g g2 hgw
  rw [hone] at this
  -- g ∣ 1 is impossible for deg g ≥ 1
  obtain ⟨q, hq⟩ := this
  have hg0 := natIrred_ne_zero g1
  have hq0 : q ≠ 0 := by rintro rfl; rw [zero_clmul] at hq; exact absurd hq (by decide)
  have := log2_clmul hq0 hg0
  rw [← hq] at this
  have h1 : Nat.log2 1 = 0 := by decide
  omega

/-! ## Spec.pIsIrred = Ben-Or tests -/

theorem specLoop_iff (a x : Nat) : ∀ (k y : Nat),
    specLoop a x k y = true ↔ ∀ i, i < k → pgcd a (gf2SqrN a (i + 1) y ^^^ x) = 1 := by
  intro k
  induction k with
  | zero => intro y; simp [specLoop]
  | succ k ih =>
    intro y
    unfold specLoop
    simp only []
    have e : pmod (psqr y) a = gfSqr a y := rfl
    rw [e]
    constructor
    · intro h
      by_cases hc : pgcd a (gfSqr a y ^^^ x) = 1
      · rw [if_pos hc] at h
        intro i hi
        cases i with
        | zero => exact hc
        | succ j => exact (ih (gfSqr a y)).1 h j (by omega)
      · rw [if_neg hc] at h; cases h
    · intro h
      have hc : pgcd a (gfSqr a y ^^^ x) = 1 := h 0 (by omega)
      rw [if_pos hc]
      exact (ih (gfSqr a y)).2 (fun j hj => h (j + 1) (by omega))

theorem pIsIrred_eq (f : Nat) (h : 1 ≤ f.log2) :
    pIsIrred f = specLoop f (pmod 2 f) (f.log2 / 2) (pmod 2 f) := by
  have hf0 : f ≠ 0 := by rintro rfl; simp at h
  unfold pIsIrred pdeg
  rw [if_neg hf0]
  obtain ⟨n, hn⟩ := Nat.exists_eq_succ_of_ne_zero (show f.log2 ≠ 0 by omega)
  rw [hn]
  simp only []
  have := foldl_const (specStep f (pmod 2 f)) (List.range ((n + 1) / 2)) (pmod 2 f, true)
  rw [List.length_range] at this
  change ((List.range ((n + 1) / 2)).foldl (fun st _ => specStep f (pmod 2 f) st) (pmod 2 f, true)).2 = _
  rw [this, iterate_spec]

/-- Ben-Or's test (as `Spec.pIsIrred` runs it) decides irreducibility in GF(2)[x] -/
theorem pIsIrred_iff' (f : Nat) : pIsIrred f = true ↔ NatIrred f := by
  by_cases h : 1 ≤ f.log2
  · rw [pIsIrred_eq f h, specLoop_iff]
    constructor
    · intro hall
      by_contra hred
      obtain ⟨i, hi, hne⟩ := benor_fail h hred
      exact hne (hall i hi)
    · intro hirr i hi
      exact benor_pass hirr i hi
  · constructor
    · intro hp
      exfalso
      have hl : f.log2 = 0 := by omega
      unfold pIsIrred pdeg at hp
      by_cases hf0 : f = 0
      · rw [if_pos hf0] at hp; cases hp
      · rw [if_neg hf0, hl] at hp; cases hp
    · intro hirr; exact absurd hirr.1 h

/-- irreducibility is decidable: run Ben-Or -/
instance : DecidablePred NatIrred := fun f => decidable_of_iff _ (pIsIrred_iff' f)

/-! ## the bridge to Mathlib: Nat codes ≃ (ZMod 2)[X] -/

section bridge
open Polynomial

/-- the polynomial over ZMod 2 coded by a natural number (bit i = coefficient of X^i) -/
noncomputable def decode : Nat → (ZMod 2)[X]
  | 0 => 0
  | c + 1 => X * decode ((c + 1) / 2) + C (((c + 1) % 2 : Nat) : ZMod 2)
decreasing_by omega

theorem decode_zero : decode 0 = 0 := by rw [decode]

theorem decode_eq (c : Nat) : decode c = X * decode (c / 2) + C ((c % 2 : Nat) : ZMod 2) := by
  cases c with
  | zero => simp [decode_zero]
  | succ c => rw [decode]

theorem decode_one : decode 1 = 1 := by
  rw [decode_eq]; simp [decode_zero]

theorem decode_two_mul (a : Nat) : decode (2 * a) = X * decode a := by
  rw [decode_eq, Nat.mul_div_cancel_left _ (by decide : 0 < 2), Nat.mul_mod_right]; simp

theorem decode_bit (r : Nat) (hr : r < 2) : decode r = C ((r : Nat) : ZMod 2) := by
  interval_cases r
  · simp [decode_zero]
  · simp [decode_one]

theorem two_eq_zero_poly : (2 : (ZMod 2)[X]) = 0 := by
  have h : (2 : ZMod 2) = 0 := by decide
  rw [← map_ofNat (C : ZMod 2 →+* (ZMod 2)[X]) 2, h, map_zero]

theorem decode_xor : ∀ (n a b : Nat), a + b = n → decode (a ^^^ b) = decode a + decode b := by
  intro n
  induction n using Nat.strong_induction_on with
  | _ n ih =>
    intro a b hab
    by_cases h0 : n = 0
    · have ha : a = 0 := by omega
      have hb : b = 0 := by omega
      subst ha hb; simp [decode_zero]
    · have hd : (a ^^^ b) / 2 = a / 2 ^^^ b / 2 := by
        have := Nat.shiftRight_xor_distrib (a := a) (b := b) (i := 1)
        simpa [Nat.shiftRight_eq_div_pow] using this
      rw [decode_eq (a ^^^ b), hd, ih (a / 2 + b / 2) (by omega) _ _ rfl, decode_eq a, decode_eq b,
        xor_mod_two]
      have hc : (((a % 2 + b % 2) % 2 : Nat) : ZMod 2) = ((a % 2 : Nat) : ZMod 2) + ((b % 2 : Nat) : ZMod 2) := by
        rw [ZMod.natCast_mod, Nat.cast_add]
      rw [hc, C_add]; ring

theorem decode_clmul (a : Nat) : ∀ b : Nat, decode (clmul a b) = decode a * decode b := by
  intro b
  induction b using Nat.strong_induction_on with
  | _ b ih =>
    by_cases h0 : b = 0
    · subst h0; rw [clmul_zero, decode_zero, mul_zero]
    · have hb : b = 2 * (b / 2) ^^^ b % 2 := (bit_decomp b).symm
      have hr : b % 2 < 2 := Nat.mod_lt _ (by decide)
      conv_lhs => rw [hb]
      rw [clmul_xor, clmul_two_mul, decode_xor _ _ _ rfl, decode_two_mul, ih (b / 2) (by omega)]
      have e : decode (clmul a (b % 2)) = decode a * C ((b % 2 : Nat) : ZMod 2) := by
        rcases Nat.mod_two_eq_zero_or_one b with h | h <;> rw [h]
        · simp [clmul_zero, decode_zero]
        · simp [clmul_one]
      rw [e, decode_eq b]; ring

theorem decode_eq_zero : ∀ c : Nat, decode c = 0 → c = 0 := by
  intro c
  induction c using Nat.strong_induction_on with
  | _ c ih =>
    intro h
    by_contra h0
    rw [decode_eq] at h
    have hc0 := congrArg (fun p => coeff p 0) h
    simp at hc0
    have hr : c % 2 = 0 := by
      have := (ZMod.natCast_eq_zero_iff c 2).1 hc0
      omega
    rw [hr] at h
    simp at h
    have := ih (c / 2) (by omega) h
    omega

theorem decode_injective : Function.Injective decode := by
  intro a b h
  have : decode (a ^^^ b) = 0 := by
    rw [decode_xor _ _ _ rfl, h, ← two_mul, two_eq_zero_poly, zero_mul]
  exact xor_eq_zero_iff.1 (decode_eq_zero _ this)

theorem decode_surjective : Function.Surjective decode := by
  suffices H : ∀ n : Nat, ∀ p : (ZMod 2)[X], p.natDegree = n → ∃ c, decode c = p from
    fun p => H _ p rfl
  intro n
  induction n using Nat.strong_induction_on with
  | _ n ih =>
  intro p hn
  have hr := ZMod.val_lt (p.coeff 0)
  by_cases hn0 : n = 0
  · subst hn0
    refine ⟨(p.coeff 0).val, ?_⟩
    rw [decode_bit _ hr, ZMod.natCast_zmod_val]
    exact (eq_C_of_natDegree_eq_zero hn).symm
  · obtain ⟨c', hc'⟩ := ih (p.divX.natDegree)
      (by rw [natDegree_divX_eq_natDegree_tsub_one]; omega) p.divX rfl
    refine ⟨2 * c' + (p.coeff 0).val, ?_⟩
    rw [decode_eq, show (2 * c' + (p.coeff 0).val) / 2 = c' by omega,
      show (2 * c' + (p.coeff 0).val) % 2 = (p.coeff 0).val by omega, hc',
      ZMod.natCast_zmod_val]
    exact X_mul_divX_add p

theorem isUnit_decode_iff (c : Nat) : IsUnit (decode c) ↔ c = 1 := by
  constructor
  · intro h
    obtain ⟨r, hr, hrc⟩ := Polynomial.isUnit_iff.1 h
    have hall : ∀ r : ZMod 2, r ≠ 0 → r = 1 := by decide
    have hr1 : r = 1 := hall r hr.ne_zero
    rw [hr1, C_1, ← decode_one] at hrc
    exact (decode_injective hrc).symm
  · rintro rfl; rw [decode_one]; exact isUnit_one

/-- irreducibility of the Nat code = irreducibility of the polynomial over ZMod 2 -/
theorem natIrred_iff_irreducible' (f : Nat) : NatIrred f ↔ Irreducible (decode f) := by
  constructor
  · intro h
    refine ⟨fun hu => ?_, fun a b hab => ?_⟩
    · have := (isUnit_decode_iff f).1 hu
      have h1 := h.1
      rw [this] at h1
      exact absurd h1 (by decide)
    · obtain ⟨u, rfl⟩ := decode_surjective a
      obtain ⟨v, rfl⟩ := decode_surjective b
      rw [← decode_clmul] at hab
      rcases h.2 u v (decode_injective hab) with h1 | h1
      · exact Or.inl ((isUnit_decode_iff u).2 h1)
      · exact Or.inr ((isUnit_decode_iff v).2 h1)
  · intro h
    have hf0 : f ≠ 0 := by
      rintro rfl; rw [decode_zero] at h; exact not_irreducible_zero h
    have hf1 : f ≠ 1 := by
      rintro rfl; exact h.not_isUnit ((isUnit_decode_iff 1).2 rfl)
    refine ⟨(Nat.le_log2 hf0).2 (by omega), fun b c hbc => ?_⟩
    have := h.isUnit_or_isUnit (by rw [hbc, decode_clmul])
    rcases this with h1 | h1
    · exact Or.inl ((isUnit_decode_iff b).1 h1)
    · exact Or.inr ((isUnit_decode_iff c).1 h1)

end bridge

end Bee2V.C05.Fld

/-
C05 — arithmetic layer = exact integer / modular / GF(2)[x] arithmetic.
Property theorems, part 0: the representation tie used by the correspondence run, and the
index of the other parts.

  Props.lean      (this file)  little-endian word lists <-> numbers (what the driver's
                               decoding/encoding of operands does)
  PropsAdd.lean   zz_add.c, zz_etc.c (AndW), zz_mod.c additive family, ww.c comparisons:
                  value + carry/borrow/flag, SAFE and FAST editions, SAFE = FAST
  PropsMul.lean   zz_mul.c word multiplication, zzMul, zzSqr, zzDivW, zzModW; zz_red.c zzRedMont (both editions)
  PropsBits.lean  ww.c bit fields, shifts, trims, sizes; u16/u32/u64 helpers (16-bit complete enumeration)

Every theorem is about a code-shaped model (Model*.lean) for ALL lengths and every word size w;
the models are the definitions the driver `drv_c05` runs against the real library.
-/
import Bee2V.C05.Basic

namespace Bee2V.C05

/-- Decoding an operand: the n-word list the driver builds from the number `v` has value
    `v mod B^n` — so for operands below `B^n` (all the harness can express) nothing is lost. -/
theorem repr_val_toWords (w n v : Nat) : val w (toWords w n v) = v % 2 ^ (w * n) := by
  induction n generalizing v with
  | zero => simp [toWords, val, Nat.mod_one]
  | succ n ih =>
    simp only [toWords, val_cons, ih]
    rw [Nat.mul_succ, Nat.pow_add, Nat.mul_comm (2 ^ (w * n)) (2 ^ w), Nat.mod_mul]

/-- a well-formed n-word list is a number below `B^n` -/
theorem repr_val_lt (w : Nat) (a : List Nat) (h : Wf w a) : val w a < 2 ^ (w * a.length) := by
  induction a with
  | nil => simp [val]
  | cons x xs ih =>
    have hx := (Wf_cons.mp h).1
    have hxs := ih (Wf_cons.mp h).2
    simp only [val_cons, List.length_cons, Nat.mul_succ, Nat.pow_add]
    have hB : 0 < 2 ^ w := Nat.two_pow_pos w
    calc x + 2 ^ w * val w xs < 2 ^ w + 2 ^ w * val w xs := by omega
      _ = 2 ^ w * (val w xs + 1) := by rw [Nat.mul_add, Nat.mul_one, Nat.add_comm]
      _ ≤ 2 ^ w * 2 ^ (w * xs.length) := Nat.mul_le_mul_left _ hxs
      _ = 2 ^ (w * xs.length) * 2 ^ w := Nat.mul_comm _ _

/-- Encoding a result: re-reading the words of a well-formed list gives the same list
    (`toWords` ∘ `val` = id), i.e. the hex the driver prints determines the word list. -/
theorem repr_toWords_val (w : Nat) (a : List Nat) (h : Wf w a) : toWords w a.length (val w a) = a := by
  induction a with
  | nil => rfl
  | cons x xs ih =>
    have hx := (Wf_cons.mp h).1
    have hB : 0 < 2 ^ w := Nat.two_pow_pos w
    simp only [List.length_cons, toWords, val_cons]
    rw [Nat.add_mul_mod_self_left, Nat.mod_eq_of_lt hx, Nat.add_mul_div_left _ _ hB,
      Nat.div_eq_of_lt hx, Nat.zero_add, ih (Wf_cons.mp h).2]

-- non-vacuity: a two-word number with a carry-prone low word, w = 64
example : val 64 (toWords 64 2 (2 ^ 64 - 1 + 2 ^ 64 * 5)) = 2 ^ 64 - 1 + 2 ^ 64 * 5 := by decide
example : Wf 64 [2 ^ 64 - 1, 5] ∧ toWords 64 2 (val 64 [2 ^ 64 - 1, 5]) = [2 ^ 64 - 1, 5] := by decide

end Bee2V.C05

/-
C05 — ppMinPolyMod (pp_etc.c; header pp.h: "минимальный многочлен элемента a факторкольца
F_2[x]/(mod) … если mod неприводим и a ≠ 0, то результат неприводим") for an irreducible
modulus: the result IS the minimal polynomial of the class of a in the field GF(2)[x]/(md).

Built on `ppMinPolyModV_spec` (PropsPpModOps.lean: result = ppMinPolyV of the sequence of constant
terms of a, a², …, a^{2l}, with the key-equation characterisation incl. minimality) and on the
field `Gf2.R md` (LemmasFld.lean).  `MinPoly.evalAt α c` = Σ c_i α^i is the evaluation of the
Nat-coded polynomial c at α (Horner recursion; it is the ring homomorphism with x ↦ α, see
`evalAt_hom`).  Lemmas: LemmasMinPoly.lean (namespace Bee2V.C05.MinPoly).
-/
import Bee2V.C05.LemmasMinPoly
namespace Bee2V.C05
open Bee2V.C05.Spec Bee2V.C05.Gf2 Bee2V.C05.Fld Bee2V.C05.MinPoly

/-- `evalAt α` is the evaluation homomorphism GF(2)[x] → GF(2)[x]/(f), x ↦ α -/
theorem evalAt_hom (f : Nat) [Fact (f ≠ 0)] (α : R f) :
    evalAt α 0 = 0 ∧ evalAt α 1 = 1 ∧ evalAt α 2 = α
      ∧ (∀ a b, evalAt α (a ^^^ b) = evalAt α a + evalAt α b)
      ∧ (∀ a b, evalAt α (clmul a b) = evalAt α a * evalAt α b) :=
  ⟨evalAt_zero α, evalAt_one α,
    by have := evalAt_two_mul α 1; rw [evalAt_one] at this; simpa using this,
    fun a b => evalAt_xor α _ a b rfl, evalAt_clmul α⟩

variable {md : Nat} [Fact (NatIrred md)]

/-- (i) the result g of ppMinPolyMod vanishes at the class of a: g(ā) = 0 in GF(2)[x]/(md)
    (md irreducible, 0 ≠ a reduced) -/
theorem ppMinPolyModV_root (a : Nat) (ha0 : a ≠ 0) (ha : a < 2 ^ md.log2) :
    evalAt (mk a ha) (ppMinPolyModV a md) = 0 := by
  rw [minPolyMod_eq_minAnn a ha0 ha]; exact (minAnn_spec _).2

/-- (ii) g is THE minimal polynomial: a Nat-coded polynomial c vanishes at ā iff it is a
    multiple of g -/
theorem ppMinPolyModV_minimal (a : Nat) (ha0 : a ≠ 0) (ha : a < 2 ^ md.log2) (c : Nat) :
    evalAt (mk a ha) c = 0 ↔ ∃ q, c = clmul q (ppMinPolyModV a md) := by
  constructor
  · intro h
    rw [minPolyMod_eq_minAnn a ha0 ha]; exact minAnn_dvd _ c h
  · rintro ⟨q, rfl⟩
    rw [evalAt_clmul, ppMinPolyModV_root a ha0 ha, mul_zero]

/-- (iii) the header's claim: for irreducible mod and a ≠ 0 the result is irreducible; moreover
    deg g ≤ deg mod, g has constant term 1 and g ≠ 1 -/
theorem ppMinPolyModV_irred (a : Nat) (ha0 : a ≠ 0) (ha : a < 2 ^ md.log2) :
    NatIrred (ppMinPolyModV a md) ∧ (ppMinPolyModV a md).log2 ≤ md.log2
      ∧ ppMinPolyModV a md % 2 = 1 := by
  rw [minPolyMod_eq_minAnn a ha0 ha]
  exact ⟨minAnn_irred _, minAnn_log2 _,
    minAnn_odd _ (fun h => ha0 (congrArg Subtype.val h))⟩

/-- in Mathlib's terms: the result decodes to an irreducible polynomial over ZMod 2 -/
theorem ppMinPolyModV_irreducible (a : Nat) (ha0 : a ≠ 0) (ha : a < 2 ^ md.log2) :
    Irreducible (decode (ppMinPolyModV a md)) :=
  (natIrred_iff_irreducible' _).1 (ppMinPolyModV_irred a ha0 ha).1

/-- the degree of the minimal polynomial divides deg mod (the field GF(2)(ā) has 2^(deg g)
    elements and is a subfield of GF(2^l)) -/
theorem ppMinPolyModV_deg_dvd (a : Nat) (ha0 : a ≠ 0) (ha : a < 2 ^ md.log2) :
    (ppMinPolyModV a md).log2 ∣ md.log2 := by
  rw [minPolyMod_eq_minAnn a ha0 ha]; exact minAnn_deg_dvd _

/-- everything together: ppMinPolyMod returns THE minimal polynomial of ā over GF(2) -/
theorem ppMinPolyModV_minpoly (a : Nat) (ha0 : a ≠ 0) (ha : a < 2 ^ md.log2) :
    evalAt (mk a ha) (ppMinPolyModV a md) = 0
      ∧ (∀ c, evalAt (mk a ha) c = 0 ↔ ∃ q, c = clmul q (ppMinPolyModV a md))
      ∧ NatIrred (ppMinPolyModV a md)
      ∧ (ppMinPolyModV a md).log2 ∣ md.log2 :=
  ⟨ppMinPolyModV_root a ha0 ha, ppMinPolyModV_minimal a ha0 ha, (ppMinPolyModV_irred a ha0 ha).1,
    ppMinPolyModV_deg_dvd a ha0 ha⟩

-- GF(16) = GF(2)[x]/(x^4 + x + 1): a = x^2 + x generates the subfield GF(4), minimal polynomial
-- x^2 + x + 1; a = x generates GF(16), minimal polynomial = the modulus
example : ppMinPolyModV 0b110 0b10011 = 0b111 ∧ ppMinPolyModV 0b10 0b10011 = 0b10011
    ∧ NatIrred 0b10011 ∧ NatIrred 0b111 := by decide +kernel
example : NatIrred (ppMinPolyModV 0b110 0b10011) :=
  (@ppMinPolyModV_irred 0b10011 ⟨by decide +kernel⟩ 0b110 (by decide) (by decide)).1

end Bee2V.C05

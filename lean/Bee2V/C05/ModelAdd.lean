/-
C05 — code-shaped executable models of
  src/math/ww.c      : wwEq, wwCmp, wwCmp2, wwCmpW, wwIsZero (SAFE and FAST editions)
  src/math/zz/zz_add.c : zzAdd, zzAdd2, zzAddW, zzAddW2, zzSub, zzSub2, zzSubW, zzSubW2, zzNeg,
                         zzIsSumEq, zzIsSumWEq (regular bodies and the `#ifdef SAFE_FAST` bodies)
  src/math/zz/zz_etc.c : zzAddAndW, zzSubAndW, zzIsEven, zzIsOdd
  src/math/zz/zz_mod.c : zzAddMod, zzAddWMod, zzSubMod, zzSubWMod, zzNegMod, zzDoubleMod, zzHalfMod
                         (SAFE and FAST editions as separate definitions)

Every C loop `for (i = 0; i < n; ++i)` over word arrays is a structural recursion over the
lists carrying the same register variables (`carry`, `borrow`, `w`, `mask`, `diff`, …);
loops running from the top word down (`while (n--)`) recurse over the reversed list.
Iteration i of every loop below reads only index i of its inputs and writes only index i of
its output, which is why the documented aliasing (output == an input) does not change the
result; the aliasing patterns themselves are exercised by the correspondence run.

Naming: `f` is the body compiled in the default build, `fF` is the `#ifdef SAFE_FAST` body of a
single-edition function, `f_safe` / `f_fast` are the SAFE(f) / FAST(f) editions.
FAST editions call the *default* names of their helpers (as the C does): in the default
build `zzAdd`, `zzSub2`, `wwCmp` … are the regular bodies.

No Mathlib (imported by the native driver).
-/
import Bee2V.C05.Basic
namespace Bee2V.C05

/-! ## ww.c : comparisons -/

/-- SAFE(wwEq): `diff |= a[n] ^ b[n]` from the top word down; `wordEq(diff, 0)` -/
def wwEq_safe (a b : List Nat) : Bool :=
  ((a.zip b).reverse.foldl (fun diff p => diff ||| (p.1 ^^^ p.2)) 0) == 0

/-- FAST(wwEq): first difference from the top returns FALSE -/
def wwEq_fastLoop : List (Nat × Nat) → Bool
  | [] => true
  | p :: ps => if p.1 != p.2 then false else wwEq_fastLoop ps
def wwEq_fast (a b : List Nat) : Bool := wwEq_fastLoop (a.zip b).reverse

/-- one step of SAFE(wwCmp): `less |= ~greater & (a<b); greater |= ~less & (a>b)`
    (`less`, `greater` ∈ {0,1}: `~g & x` for x ∈ {0,1} is `x` if the low bit of g is clear, else 0) -/
def wwCmpStep (st : Nat × Nat) (p : Nat × Nat) : Nat × Nat :=
  let less := st.1 ||| (if st.2 % 2 = 0 then wless01 p.1 p.2 else 0)
  let greater := st.2 ||| (if less % 2 = 0 then wgreater01 p.1 p.2 else 0)
  (less, greater)

/-- SAFE(wwCmp): `(wordEq(less, 0) - 1) | wordNeq(greater, 0)` is -1 if less ≠ 0, else (greater ≠ 0) -/
def wwCmp_safe (a b : List Nat) : Int :=
  let st := (a.zip b).reverse.foldl wwCmpStep (0, 0)
  if st.1 ≠ 0 then -1 else if st.2 ≠ 0 then 1 else 0

def wwCmp_fastLoop : List (Nat × Nat) → Int
  | [] => 0
  | p :: ps => if p.1 > p.2 then 1 else if p.1 < p.2 then -1 else wwCmp_fastLoop ps
/-- FAST(wwCmp) -/
def wwCmp_fast (a b : List Nat) : Int := wwCmp_fastLoop (a.zip b).reverse

/-- SAFE(wwIsZero): `diff |= a[n]` -/
def wwIsZero_safe (a : List Nat) : Bool := (a.reverse.foldl (fun d x => d ||| x) 0) == 0
/-- FAST(wwIsZero) -/
def wwIsZero_fast (a : List Nat) : Bool := a.reverse.all (· == 0)

/-- SAFE(wwCmp2) (default build: `wwIsZero`, `wwCmp` are the SAFE editions):
    `ret = -z & ret | (z - 1) & ±1` selects `ret` when the excess words are zero, ±1 otherwise -/
def wwCmp2_safe (a b : List Nat) : Int :=
  let n := a.length
  let m := b.length
  if n > m then
    let z := wwIsZero_safe (a.drop m)
    let ret := wwCmp_safe (a.take m) b
    if z then ret else 1
  else if n < m then
    let z := wwIsZero_safe (b.drop n)
    let ret := wwCmp_safe a (b.take n)
    if z then ret else -1
  else wwCmp_safe a b

/-- FAST(wwCmp2) -/
def wwCmp2_fast (a b : List Nat) : Int :=
  let n := a.length
  let m := b.length
  if n > m then (if wwIsZero_fast (a.drop m) then wwCmp_fast (a.take m) b else 1)
  else if n < m then (if wwIsZero_fast (b.drop n) then wwCmp_fast a (b.take n) else -1)
  else wwCmp_fast a b

/-! ## zz_add.c -/

/-- zzAdd, regular body -/
def zzAddLoop (w : Nat) : List Nat → List Nat → Nat → List Nat × Nat
  | a :: as, b :: bs, carry =>
    let t := wadd w a carry
    let carry1 := wless01 t carry
    let c := wadd w t b
    let carry2 := carry1 ||| wless01 c t
    let r := zzAddLoop w as bs carry2
    (c :: r.1, r.2)
  | _, _, carry => ([], carry)
def zzAdd (w : Nat) (a b : List Nat) : List Nat × Nat := zzAddLoop w a b 0

/-- zzAdd, `#ifdef SAFE_FAST` body:
    `w = a[i] + carry; if (w < carry) c[i] = b[i]; else w += b[i], carry = w < b[i], c[i] = w;` -/
def zzAddFLoop (w : Nat) : List Nat → List Nat → Nat → List Nat × Nat
  | a :: as, b :: bs, carry =>
    let t := wadd w a carry
    if t < carry then
      let r := zzAddFLoop w as bs carry
      (b :: r.1, r.2)
    else
      let t2 := wadd w t b
      let r := zzAddFLoop w as bs (wless01 t2 b)
      (t2 :: r.1, r.2)
  | _, _, carry => ([], carry)
def zzAddF (w : Nat) (a b : List Nat) : List Nat × Nat := zzAddFLoop w a b 0

/-- zzAdd2(b, a): `b += a`, regular body -/
def zzAdd2Loop (w : Nat) : List Nat → List Nat → Nat → List Nat × Nat
  | b :: bs, a :: as, carry =>
    let t := wadd w a carry
    let carry1 := wless01 t carry
    let b' := wadd w b t
    let carry2 := carry1 ||| wless01 b' t
    let r := zzAdd2Loop w bs as carry2
    (b' :: r.1, r.2)
  | _, _, carry => ([], carry)
def zzAdd2 (w : Nat) (b a : List Nat) : List Nat × Nat := zzAdd2Loop w b a 0

/-- zzAdd2, `#ifdef SAFE_FAST` body: `w = a[i] + carry; if (w >= carry) w += b[i], carry = w < b[i], b[i] = w;` -/
def zzAdd2FLoop (w : Nat) : List Nat → List Nat → Nat → List Nat × Nat
  | b :: bs, a :: as, carry =>
    let t := wadd w a carry
    if t ≥ carry then
      let t2 := wadd w t b
      let r := zzAdd2FLoop w bs as (wless01 t2 b)
      (t2 :: r.1, r.2)
    else
      let r := zzAdd2FLoop w bs as carry
      (b :: r.1, r.2)
  | _, _, carry => ([], carry)
def zzAdd2F (w : Nat) (b a : List Nat) : List Nat × Nat := zzAdd2FLoop w b a 0

/-- zzAddW / zzAddW2 (regular): `b[i] = a[i] + w, w = wordLess01(b[i], w)` -/
def zzAddW (w : Nat) : List Nat → Nat → List Nat × Nat
  | a :: as, x =>
    let b := wadd w a x
    let r := zzAddW w as (wless01 b x)
    (b :: r.1, r.2)
  | [], x => ([], x)
def zzAddW2 (w : Nat) (a : List Nat) (x : Nat) : List Nat × Nat := zzAddW w a x

/-- zzAddW2, `#ifdef SAFE_FAST` body: `for (i = 0; w && i < n; ++i)` -/
def zzAddW2F (w : Nat) : List Nat → Nat → List Nat × Nat
  | a :: as, x =>
    if x = 0 then (a :: as, 0) else
    let b := wadd w a x
    let r := zzAddW2F w as (wless01 b x)
    (b :: r.1, r.2)
  | [], x => ([], x)

/-- zzSub, regular body -/
def zzSubLoop (w : Nat) : List Nat → List Nat → Nat → List Nat × Nat
  | a :: as, b :: bs, borrow =>
    let t := wadd w b borrow
    let borrow1 := wless01 t borrow
    let borrow2 := borrow1 ||| wless01 a t
    let c := wsub w a t
    let r := zzSubLoop w as bs borrow2
    (c :: r.1, r.2)
  | _, _, borrow => ([], borrow)
def zzSub (w : Nat) (a b : List Nat) : List Nat × Nat := zzSubLoop w a b 0

/-- zzSub, `#ifdef SAFE_FAST` body:
    `w = a[i] - borrow; if (w > ~borrow) c[i] = ~b[i]; else w -= b[i], borrow = w > ~b[i], c[i] = w;` -/
def zzSubFLoop (w : Nat) : List Nat → List Nat → Nat → List Nat × Nat
  | a :: as, b :: bs, borrow =>
    let t := wsub w a borrow
    if t > wnot w borrow then
      let r := zzSubFLoop w as bs borrow
      (wnot w b :: r.1, r.2)
    else
      let t2 := wsub w t b
      let r := zzSubFLoop w as bs (wgreater01 t2 (wnot w b))
      (t2 :: r.1, r.2)
  | _, _, borrow => ([], borrow)
def zzSubF (w : Nat) (a b : List Nat) : List Nat × Nat := zzSubFLoop w a b 0

/-- zzSub2(b, a): `b -= a`, regular body -/
def zzSub2Loop (w : Nat) : List Nat → List Nat → Nat → List Nat × Nat
  | b :: bs, a :: as, borrow =>
    let t := wadd w a borrow
    let borrow1 := wless01 t borrow
    let borrow2 := borrow1 ||| wless01 b t
    let b' := wsub w b t
    let r := zzSub2Loop w bs as borrow2
    (b' :: r.1, r.2)
  | _, _, borrow => ([], borrow)
def zzSub2 (w : Nat) (b a : List Nat) : List Nat × Nat := zzSub2Loop w b a 0

/-- zzSub2, `#ifdef SAFE_FAST` body -/
def zzSub2FLoop (w : Nat) : List Nat → List Nat → Nat → List Nat × Nat
  | b :: bs, a :: as, borrow =>
    let t := wsub w b borrow
    if t > wnot w borrow then
      let r := zzSub2FLoop w bs as borrow
      (wnot w a :: r.1, r.2)
    else
      let t2 := wsub w t a
      let r := zzSub2FLoop w bs as (wgreater01 t2 (wnot w a))
      (t2 :: r.1, r.2)
  | _, _, borrow => ([], borrow)
def zzSub2F (w : Nat) (b a : List Nat) : List Nat × Nat := zzSub2FLoop w b a 0

/-- zzSubW / zzSubW2 (regular): `b[i] = a[i] - w, w = wordLess01(~w, b[i])` -/
def zzSubW (w : Nat) : List Nat → Nat → List Nat × Nat
  | a :: as, x =>
    let b := wsub w a x
    let r := zzSubW w as (wless01 (wnot w x) b)
    (b :: r.1, r.2)
  | [], x => ([], x)
def zzSubW2 (w : Nat) (a : List Nat) (x : Nat) : List Nat × Nat := zzSubW w a x

/-- zzSubW2, `#ifdef SAFE_FAST` body: `for (i = 0; w && i < n; ++i)` -/
def zzSubW2F (w : Nat) : List Nat → Nat → List Nat × Nat
  | a :: as, x =>
    if x = 0 then (a :: as, 0) else
    let b := wsub w a x
    let r := zzSubW2F w as (wgreater01 b (wnot w x))
    (b :: r.1, r.2)
  | [], x => ([], x)

/-- zzNeg: `b[i] = ~a[i]; zzAddW2(b, n, 1)` -/
def zzNeg (w : Nat) (a : List Nat) : List Nat := (zzAddW2 w (a.map (wnot w)) 1).1

/-- SAFE(zzIsSumEq)(c, a, b): does a + b == c? -/
def zzIsSumEq_safeLoop (w : Nat) : List Nat → List Nat → List Nat → Nat → Nat → Nat × Nat
  | c :: cs, a :: as, b :: bs, diff, carry =>
    let t := wadd w a carry
    let carry1 := wless01 t carry
    let diff' := diff ||| (c ^^^ wadd w t b)
    let carry2 := carry1 ||| wless01 c t
    zzIsSumEq_safeLoop w cs as bs diff' carry2
  | _, _, _, diff, carry => (diff, carry)
def zzIsSumEq_safe (w : Nat) (c a b : List Nat) : Bool :=
  let r := zzIsSumEq_safeLoop w c a b 0 0
  (r.1 ||| r.2) == 0

/-- FAST(zzIsSumEq) -/
def zzIsSumEq_fastLoop (w : Nat) : List Nat → List Nat → List Nat → Nat → Bool
  | c :: cs, a :: as, b :: bs, carry =>
    let t := wadd w a carry
    if t < carry then
      if c != b then false else zzIsSumEq_fastLoop w cs as bs carry
    else if c != wadd w t b then false
    else zzIsSumEq_fastLoop w cs as bs (wless01 c t)
  | _, _, _, carry => carry == 0
def zzIsSumEq_fast (w : Nat) (c a b : List Nat) : Bool := zzIsSumEq_fastLoop w c a b 0

/-- SAFE(zzIsSumWEq)(b, a, w): does a + w == b? -/
def zzIsSumWEq_safeLoop (w : Nat) : List Nat → List Nat → Nat → Nat → Nat × Nat
  | b :: bs, a :: as, diff, x =>
    zzIsSumWEq_safeLoop w bs as (diff ||| (b ^^^ wadd w a x)) (wless01 b a)
  | _, _, diff, x => (diff, x)
def zzIsSumWEq_safe (w : Nat) (b a : List Nat) (x : Nat) : Bool :=
  let r := zzIsSumWEq_safeLoop w b a 0 x
  (r.1 ||| r.2) == 0

/-- FAST(zzIsSumWEq) -/
def zzIsSumWEq_fast (w : Nat) : List Nat → List Nat → Nat → Bool
  | b :: bs, a :: as, x =>
    if b != wadd w a x then false else zzIsSumWEq_fast w bs as (wless01 b a)
  | _, _, x => x == 0

/-! ## zz_etc.c -/

def zzIsEven (a : List Nat) : Bool := match a with | [] => true | x :: _ => x % 2 == 0
def zzIsOdd (a : List Nat) : Bool := match a with | [] => false | x :: _ => x % 2 == 1

/-- zzAddAndW(b, a, n, w): `b += a & w` (carry dropped) -/
def zzAddAndWLoop (w : Nat) : List Nat → List Nat → Nat → Nat → List Nat
  | b :: bs, a :: as, m, carry =>
    let prod := m &&& a
    let prod' := wadd w prod carry
    let carry1 := wless01 prod' carry
    let b' := wadd w b prod'
    let carry2 := carry1 ||| wless01 b' prod'
    b' :: zzAddAndWLoop w bs as m carry2
  | _, _, _, _ => []
def zzAddAndW (w : Nat) (b a : List Nat) (m : Nat) : List Nat := zzAddAndWLoop w b a m 0

/-- zzSubAndW(b, a, n, w): `b -= a & w`, returns the borrow -/
def zzSubAndWLoop (w : Nat) : List Nat → List Nat → Nat → Nat → List Nat × Nat
  | b :: bs, a :: as, m, borrow =>
    let prod := m &&& a
    let prod' := wadd w prod borrow
    let borrow1 := wless01 prod' borrow
    let borrow2 := borrow1 ||| wless01 b prod'
    let b' := wsub w b prod'
    let r := zzSubAndWLoop w bs as m borrow2
    (b' :: r.1, r.2)
  | _, _, _, borrow => ([], borrow)
def zzSubAndW (w : Nat) (b a : List Nat) (m : Nat) : List Nat × Nat := zzSubAndWLoop w b a m 0

/-! ## zz_mod.c : additive modular operations -/

/-- the running comparison used by every SAFE routine:
    `mask &= wordEq01(mod[i], c[i]); mask |= wordLess01(mod[i], c[i]);` -/
@[reducible] def maskStep (mask modi ci : Nat) : Nat := (mask &&& weq01 modi ci) ||| wless01 modi ci

/-- FAST(zzAddMod): `if (zzAdd(c, a, b, n) || FAST(wwCmp)(c, mod, n) >= 0) zzSub2(c, mod, n);` -/
def zzAddMod_fast (w : Nat) (a b mod : List Nat) : List Nat :=
  let r := zzAdd w a b
  if r.2 ≠ 0 ∨ wwCmp_fast r.1 mod ≥ 0 then (zzSub2 w r.1 mod).1 else r.1

/-- first pass of SAFE(zzAddMod): add and compare with mod in the same loop -/
def zzAddMod_safeLoop (w : Nat) : List Nat → List Nat → List Nat → Nat → Nat → List Nat × Nat × Nat
  | a :: as, b :: bs, m :: ms, carry, mask =>
    let t := wadd w a carry
    let carry1 := wless01 t carry
    let c := wadd w t b
    let carry2 := carry1 ||| wless01 c t
    let mask' := maskStep mask m c
    let r := zzAddMod_safeLoop w as bs ms carry2 mask'
    (c :: r.1, r.2.1, r.2.2)
  | _, _, _, carry, mask => ([], carry, mask)
/-- SAFE(zzAddMod): `mask |= carry; mask = WORD_0 - mask; zzSubAndW(c, mod, n, mask)` -/
def zzAddMod_safe (w : Nat) (a b mod : List Nat) : List Nat :=
  let r := zzAddMod_safeLoop w a b mod 0 1
  let mask := wneg w (r.2.2 ||| r.2.1)
  (zzSubAndW w r.1 mod mask).1

/-- FAST(zzAddWMod): `if (zzAddW(b, a, n, w) || wwCmp(b, mod, n) >= 0) zzSub2(b, mod, n);`
    (`wwCmp` is the default edition: SAFE in the default build) -/
def zzAddWMod_fast (w : Nat) (a : List Nat) (x : Nat) (mod : List Nat) : List Nat :=
  let r := zzAddW w a x
  if r.2 ≠ 0 ∨ wwCmp_safe r.1 mod ≥ 0 then (zzSub2 w r.1 mod).1 else r.1

def zzAddWMod_safeLoop (w : Nat) : List Nat → List Nat → Nat → Nat → List Nat × Nat × Nat
  | a :: as, m :: ms, x, mask =>
    let b := wadd w a x
    let x' := wless01 b x
    let mask' := maskStep mask m b
    let r := zzAddWMod_safeLoop w as ms x' mask'
    (b :: r.1, r.2.1, r.2.2)
  | _, _, x, mask => ([], x, mask)
/-- SAFE(zzAddWMod) -/
def zzAddWMod_safe (w : Nat) (a : List Nat) (x : Nat) (mod : List Nat) : List Nat :=
  let r := zzAddWMod_safeLoop w a mod x 1
  let mask := wneg w (r.2.2 ||| r.2.1)
  (zzSubAndW w r.1 mod mask).1

/-- FAST(zzSubMod): `if (zzSub(c, a, b, n)) zzAdd2(c, mod, n);` -/
def zzSubMod_fast (w : Nat) (a b mod : List Nat) : List Nat :=
  let r := zzSub w a b
  if r.2 ≠ 0 then (zzAdd2 w r.1 mod).1 else r.1

/-- SAFE(zzSubMod): `mask = WORD_0 - zzSub(c, a, b, n); zzAddAndW(c, mod, n, mask);` -/
def zzSubMod_safe (w : Nat) (a b mod : List Nat) : List Nat :=
  let r := zzSub w a b
  zzAddAndW w r.1 mod (wneg w r.2)

/-- FAST(zzSubWMod) -/
def zzSubWMod_fast (w : Nat) (a : List Nat) (x : Nat) (mod : List Nat) : List Nat :=
  let r := zzSubW w a x
  if r.2 ≠ 0 then (zzAdd2 w r.1 mod).1 else r.1

/-- SAFE(zzSubWMod) -/
def zzSubWMod_safe (w : Nat) (a : List Nat) (x : Nat) (mod : List Nat) : List Nat :=
  let r := zzSubW w a x
  zzAddAndW w r.1 mod (wneg w r.2)

/-- FAST(zzNegMod): `if (!wwIsZero(a, n)) zzSub(b, mod, a, n); else wwSetZero(b, n);` -/
def zzNegMod_fast (w : Nat) (a mod : List Nat) : List Nat :=
  if !wwIsZero_safe a then (zzSub w mod a).1 else a.map (fun _ => 0)

/-- SAFE(zzNegMod): `zzSub(b, mod, a, n); mask = WORD_0 - (word)wwEq(b, mod, n); zzSubAndW(b, mod, n, mask);` -/
def zzNegMod_safe (w : Nat) (a mod : List Nat) : List Nat :=
  let b := (zzSub w mod a).1
  let mask := wneg w (if wwEq_safe b mod then 1 else 0)
  (zzSubAndW w b mod mask).1

/-- `b <- a * 2` loop of zzDoubleMod: `hi = a[i] >> (B_PER_W - 1), b[i] = a[i] << 1 | carry, carry = hi` -/
def zzDoubleLoop (w : Nat) : List Nat → Nat → List Nat × Nat
  | a :: as, carry =>
    let hi := wshr a (w - 1)
    let b := wshl w a 1 ||| carry
    let r := zzDoubleLoop w as hi
    (b :: r.1, r.2)
  | [], carry => ([], carry)

/-- FAST(zzDoubleMod): `if (carry || wwCmp(b, mod, n) >= 0) zzSub2(b, mod, n);` -/
def zzDoubleMod_fast (w : Nat) (a mod : List Nat) : List Nat :=
  let r := zzDoubleLoop w a 0
  if r.2 ≠ 0 ∨ wwCmp_safe r.1 mod ≥ 0 then (zzSub2 w r.1 mod).1 else r.1

def zzDoubleMod_safeLoop (w : Nat) : List Nat → List Nat → Nat → Nat → List Nat × Nat × Nat
  | a :: as, m :: ms, carry, mask =>
    let hi := wshr a (w - 1)
    let b := wshl w a 1 ||| carry
    let mask' := maskStep mask m b
    let r := zzDoubleMod_safeLoop w as ms hi mask'
    (b :: r.1, r.2.1, r.2.2)
  | _, _, carry, mask => ([], carry, mask)
/-- SAFE(zzDoubleMod) -/
def zzDoubleMod_safe (w : Nat) (a mod : List Nat) : List Nat :=
  let r := zzDoubleMod_safeLoop w a mod 0 1
  let mask := wneg w (r.2.2 ||| r.2.1)
  (zzSubAndW w r.1 mod mask).1

/-- the shift loop of FAST(zzHalfMod), from the top word down:
    `lo = b[n] & 1, b[n] = b[n] >> 1 | carry << (B_PER_W - 1), carry = lo`; input is the reversed list -/
def zzHalfLoop (w : Nat) : List Nat → Nat → List Nat
  | x :: xs, carry =>
    let lo := x % 2
    (wshr x 1 ||| wshl w carry (w - 1)) :: zzHalfLoop w xs lo
  | [], _ => []

/-- FAST(zzHalfMod) -/
def zzHalfMod_fast (w : Nat) (a mod : List Nat) : List Nat :=
  if zzIsOdd a then
    let r := zzAdd w a mod
    (zzHalfLoop w r.1.reverse r.2).reverse
  else (zzHalfLoop w a.reverse 0).reverse

/-- loop `for (i = 1; i < n; ++i)` of SAFE(zzHalfMod); `prev` is b[i-1] (already shifted),
    emitted once bit 0 of b[i] has been moved into its top bit -/
def zzHalfMod_safeLoop (w : Nat) : List Nat → List Nat → Nat → Nat → Nat → List Nat
  | a :: as, m :: ms, mask, carry, prev =>
    let b0 := wadd w a carry
    let carry1 := wless01 b0 carry
    let t := mask &&& m
    let b1 := wadd w b0 t
    let carry2 := carry1 ||| wless01 b1 t
    let prev' := prev ||| wshl w (b1 % 2) (w - 1)
    prev' :: zzHalfMod_safeLoop w as ms mask carry2 (wshr b1 1)
  | _, _, _, carry, prev => [prev ||| wshl w carry (w - 1)]

/-- SAFE(zzHalfMod) (n ≥ 1) -/
def zzHalfMod_safe (w : Nat) (a mod : List Nat) : List Nat :=
  match a, mod with
  | a0 :: as, m0 :: ms =>
    let mask := wneg w (a0 % 2)
    let t := mask &&& m0
    let b0 := wadd w a0 t
    let carry := wless01 b0 t
    zzHalfMod_safeLoop w as ms mask carry (wshr b0 1)
  | _, _ => []

end Bee2V.C05

/-
C05 — special reductions of zz_red.c: zzRedCrandMont (both editions) = Montgomery reduction
for a Crandall modulus; zzRedBarr: the defect of the old SAFE edition (counterexample) and the
statements that remain to be proved.  Models: ModelRed.lean, helper lemmas: LemmasRed.lean.
-/
import Bee2V.C05.LemmasRed
import Bee2V.C05.PropsMul
namespace Bee2V.C05
open Bee2V.C05.Add Bee2V.C05.Red

/-! ## zzRedCrandMont

Header preconditions: n ≥ 2 (`ms ≠ []`), mod = m0 :: (B-1) … (B-1), `m0 * mont_param ≡ -1 (mod B)`
(which makes m0 odd and non-zero), a has 2n words, `a < mod * B^n`. -/

/-- SAFE(zzRedCrandMont): `r * B^n ≡ a (mod mod)`, `r < mod`, n words. -/
theorem zzRedCrandMont_safe_spec (w : Nat) (m0 : Nat) (ms a : List Nat) (mp : Nat)
    (hms : ∀ x ∈ ms, x = 2 ^ w - 1) (hne : ms ≠ [])
    (hm0 : 0 < m0) (hm0B : m0 < 2 ^ w) (hmp : (m0 * mp + 1) % 2 ^ w = 0)
    (ha : Wf w a) (hl : a.length = (m0 :: ms).length + (m0 :: ms).length)
    (hlt : val w a < val w (m0 :: ms) * 2 ^ (w * (m0 :: ms).length)) :
    (val w (zzRedCrandMont_safe w a (m0 :: ms) mp) * 2 ^ (w * (m0 :: ms).length)) % val w (m0 :: ms)
      = val w a % val w (m0 :: ms)
    ∧ val w (zzRedCrandMont_safe w a (m0 :: ms) mp) < val w (m0 :: ms)
    ∧ Wf w (zzRedCrandMont_safe w a (m0 :: ms) mp)
    ∧ (zzRedCrandMont_safe w a (m0 :: ms) mp).length = (m0 :: ms).length := by
  apply crandMont_finish w cmAddS cmSubS (cmAddS_ok w) (cmSubS_ok w) m0 ms a mp hms hne hm0 hm0B hmp
    ha hl hlt
  obtain ⟨n', hn⟩ : ∃ n', ms.length = n' + 1 :=
    ⟨ms.length - 1, by have := List.length_pos_iff.mpr hne; omega⟩
  have hmod : Wf w (m0 :: ms) := Wf_cons.mpr ⟨hm0B, Mul.Wf_ones w ms hms⟩
  have hw : 0 < w := by
    rcases Nat.eq_zero_or_pos w with h | h
    · subst h; have : m0 < 1 := by simpa using hm0B
      omega
    · exact h
  obtain ⟨t, _, t2, t3, t4, _⟩ := cmCore_spec w cmAddS cmSubS (cmAddS_ok w) (cmSubS_ok w) m0 ms a mp
    n' hn hms hm0 hm0B hmp ha hl hlt
  unfold zzRedCrandMont_safe
  simp only []
  generalize zzRedCrandMontCore w cmAddS cmSubS a (m0 :: ms) mp = r at *
  obtain ⟨c1, c2⟩ := Mul.zzRedMontCmp_spec w r.1 (m0 :: ms) 1 t3 hmod t4 (by omega)
  have hvh := val_lt t3
  have hvm := val_lt hmod
  rw [t4] at hvh
  have hf : (zzRedMontCmp r.1 (m0 :: ms) 1).2 ||| r.2 ≤ 1 :=
    Mul.lor_le_one (by rw [c2]; split_ifs <;> omega) t2
  rw [Mul.zzSubAndW_flag w hw _ _ _ hf (by rw [c1]; exact t3) hmod (by rw [c1]; exact t4), c1, c2]
  generalize val w r.1 = vh at *
  generalize val w (m0 :: ms) = vm at *
  generalize 2 ^ (w * (m0 :: ms).length) = Pn at *
  obtain h | h : r.2 = 0 ∨ r.2 = 1 := by omega
  all_goals rw [h]
  all_goals split_ifs <;> first | rfl | (exfalso; omega) | (exfalso; simp_all)

/-- FAST(zzRedCrandMont): the same statement. -/
theorem zzRedCrandMont_fast_spec (w : Nat) (m0 : Nat) (ms a : List Nat) (mp : Nat)
    (hms : ∀ x ∈ ms, x = 2 ^ w - 1) (hne : ms ≠ [])
    (hm0 : 0 < m0) (hm0B : m0 < 2 ^ w) (hmp : (m0 * mp + 1) % 2 ^ w = 0)
    (ha : Wf w a) (hl : a.length = (m0 :: ms).length + (m0 :: ms).length)
    (hlt : val w a < val w (m0 :: ms) * 2 ^ (w * (m0 :: ms).length)) :
    (val w (zzRedCrandMont_fast w a (m0 :: ms) mp) * 2 ^ (w * (m0 :: ms).length)) % val w (m0 :: ms)
      = val w a % val w (m0 :: ms)
    ∧ val w (zzRedCrandMont_fast w a (m0 :: ms) mp) < val w (m0 :: ms)
    ∧ Wf w (zzRedCrandMont_fast w a (m0 :: ms) mp)
    ∧ (zzRedCrandMont_fast w a (m0 :: ms) mp).length = (m0 :: ms).length := by
  apply crandMont_finish w cmAddF cmSubF (cmAddF_ok w) (cmSubF_ok w) m0 ms a mp hms hne hm0 hm0B hmp
    ha hl hlt
  obtain ⟨n', hn⟩ : ∃ n', ms.length = n' + 1 :=
    ⟨ms.length - 1, by have := List.length_pos_iff.mpr hne; omega⟩
  have hmod : Wf w (m0 :: ms) := Wf_cons.mpr ⟨hm0B, Mul.Wf_ones w ms hms⟩
  obtain ⟨t, _, t2, t3, t4, _⟩ := cmCore_spec w cmAddF cmSubF (cmAddF_ok w) (cmSubF_ok w) m0 ms a mp
    n' hn hms hm0 hm0B hmp ha hl hlt
  unfold zzRedCrandMont_fast
  simp only []
  have := Mul.wwCmp2_safe_top w _ (m0 :: ms) _ t3 hmod t4 t2
  by_cases hc : wwCmp2_safe ((zzRedCrandMontCore w cmAddF cmSubF a (m0 :: ms) mp).1
      ++ [(zzRedCrandMontCore w cmAddF cmSubF a (m0 :: ms) mp).2]) (m0 :: ms) ≥ 0
  · rw [if_pos hc, if_pos (this.mp hc)]
  · rw [if_neg hc, if_neg (fun h => hc (this.mpr h))]

/-- SAFE(zzRedCrandMont) = FAST(zzRedCrandMont) under the header's preconditions. -/
theorem zzRedCrandMont_safe_eq_fast (w : Nat) (m0 : Nat) (ms a : List Nat) (mp : Nat)
    (hms : ∀ x ∈ ms, x = 2 ^ w - 1) (hne : ms ≠ [])
    (hm0 : 0 < m0) (hm0B : m0 < 2 ^ w) (hmp : (m0 * mp + 1) % 2 ^ w = 0)
    (ha : Wf w a) (hl : a.length = (m0 :: ms).length + (m0 :: ms).length)
    (hlt : val w a < val w (m0 :: ms) * 2 ^ (w * (m0 :: ms).length)) :
    zzRedCrandMont_safe w a (m0 :: ms) mp = zzRedCrandMont_fast w a (m0 :: ms) mp := by
  obtain ⟨s1, s2, s3, s4⟩ := zzRedCrandMont_safe_spec w m0 ms a mp hms hne hm0 hm0B hmp ha hl hlt
  obtain ⟨f1, f2, f3, f4⟩ := zzRedCrandMont_fast_spec w m0 ms a mp hms hne hm0 hm0B hmp ha hl hlt
  have hw : 0 < w := by
    rcases Nat.eq_zero_or_pos w with h | h
    · subst h; have : m0 < 1 := by simpa using hm0B
      omega
    · exact h
  have hodd : val w (m0 :: ms) % 2 = 1 := by
    obtain ⟨k, rfl⟩ : ∃ k, w = k + 1 := ⟨w - 1, by omega⟩
    rw [val_mod_two]
    exact odd_of_mont (by omega) hmp
  exact val_inj s3 f3 (s4.trans f4.symm) (mont_unique hodd (s1.trans f1.symm) s2 f2)

example : zzRedCrandMont_safe 64 [5, 2 ^ 64 - 1, 7, 2 ^ 64 - 3] [2 ^ 64 - 189, 2 ^ 64 - 1] 11907422100489763477
      = zzRedCrandMont_fast 64 [5, 2 ^ 64 - 1, 7, 2 ^ 64 - 3] [2 ^ 64 - 189, 2 ^ 64 - 1] 11907422100489763477
    ∧ ((2 ^ 64 - 189) * 11907422100489763477 + 1) % 2 ^ 64 = 0
    ∧ (val 64 (zzRedCrandMont_fast 64 [5, 2 ^ 64 - 1, 7, 2 ^ 64 - 3] [2 ^ 64 - 189, 2 ^ 64 - 1]
          11907422100489763477) * 2 ^ 128) % (2 ^ 128 - 189)
        = val 64 [5, 2 ^ 64 - 1, 7, 2 ^ 64 - 3] % (2 ^ 128 - 189) := by decide +kernel

/-- for a Crandall modulus the specialised reduction returns the same words as the generic
    Montgomery reduction zzRedMont (both editions). -/
theorem zzRedCrandMont_eq_zzRedMont (w : Nat) (m0 : Nat) (ms a : List Nat) (mp : Nat)
    (hms : ∀ x ∈ ms, x = 2 ^ w - 1) (hne : ms ≠ [])
    (hm0 : 0 < m0) (hm0B : m0 < 2 ^ w) (hmp : (m0 * mp + 1) % 2 ^ w = 0)
    (ha : Wf w a) (hl : a.length = (m0 :: ms).length + (m0 :: ms).length)
    (hlt : val w a < val w (m0 :: ms) * 2 ^ (w * (m0 :: ms).length)) :
    zzRedCrandMont_safe w a (m0 :: ms) mp = zzRedMont_safe w a (m0 :: ms) mp
    ∧ zzRedCrandMont_fast w a (m0 :: ms) mp = zzRedMont_fast w a (m0 :: ms) mp := by
  have hmod : Wf w (m0 :: ms) := Wf_cons.mpr ⟨hm0B, Mul.Wf_ones w ms hms⟩
  have hw : 0 < w := by
    rcases Nat.eq_zero_or_pos w with h | h
    · subst h; have : m0 < 1 := by simpa using hm0B
      omega
    · exact h
  have hodd : val w (m0 :: ms) % 2 = 1 := by
    obtain ⟨k, rfl⟩ : ∃ k, w = k + 1 := ⟨w - 1, by omega⟩
    rw [val_mod_two]
    exact odd_of_mont (by omega) hmp
  obtain ⟨s1, s2, s3, s4⟩ := zzRedCrandMont_safe_spec w m0 ms a mp hms hne hm0 hm0B hmp ha hl hlt
  obtain ⟨f1, f2, f3, f4⟩ := zzRedCrandMont_fast_spec w m0 ms a mp hms hne hm0 hm0B hmp ha hl hlt
  obtain ⟨a1, a2, a3, a4⟩ := zzRedMont_safe_spec w m0 ms a mp ha hmod hl hmp hlt
  obtain ⟨b1, b2, b3, b4⟩ := zzRedMont_fast_spec w m0 ms a mp ha hmod hl hmp hlt
  exact ⟨val_inj s3 a3 (s4.trans a4.symm) (mont_unique hodd (s1.trans a1.symm) s2 a2),
    val_inj f3 b3 (f4.trans b4.symm) (mont_unique hodd (f1.trans b1.symm) f2 b2)⟩

/-! ## zzRedBarr

`zzRedBarr_safe` models the code as repaired by docs/C05.fix-11.diff; `zzRedBarr_safe_old` is the
code before the repair.  The old SAFE edition violates the header's formula: witness below
(w = 8, n = 3; the same construction works for every word size, on the real library for
w = 64: mod = 2^192 - 2^96 + 1).

NOT YET PROVED (full statements; `param = zzRedBarrStart w mod`, header preconditions
`mod ≠ []`, `2^(w*(n-1)) ≤ val w mod` (mod[n-1] ≠ 0), `a.length = 2 * mod.length`, Wf):

  zzRedBarr_fast_spec :
    val w (zzRedBarr_fast w a mod (zzRedBarrStart w mod)) = val w a % val w mod
    ∧ val w (zzRedBarr_fast ..) < val w mod ∧ Wf w (zzRedBarr_fast ..)
    ∧ (zzRedBarr_fast ..).length = mod.length
  zzRedBarr_safe_spec : the same for zzRedBarr_safe (repaired mask)
  zzRedBarr_safe_eq_fast : zzRedBarr_safe .. = zzRedBarr_fast ..

Missing: the quotient-estimate lemma (q - 2 ≤ q̂ ≤ q, hence the (n+1)-word difference is
`a - q̂ mod < 3 mod` and its top word is ≤ 2) and the two-round / while-loop correction on top
of it; the word-level pieces (zzMul_spec, zzSub2, zzSubAndW_mask, zzRedMontCmp_spec,
wwCmp2) are available.  What is established here: the models agree with the real library on
302 operations (n = 1..4, w = 64), and the concrete instances below. -/

/-- the old SAFE(zzRedBarr) returns a wrong remainder (a[n] = 2 after the first subtraction):
    the header promises `a mod mod`, FAST and the repaired SAFE deliver it. -/
theorem zzRedBarr_safe_old_counterexample :
    zzRedBarr_safe_old 8 [0xff, 0xff, 0x00, 0xff, 0xff, 0xff] [0x01, 0xf0, 0xff]
        (zzRedBarrStart 8 [0x01, 0xf0, 0xff])
      ≠ toWords 8 3 (val 8 [0xff, 0xff, 0x00, 0xff, 0xff, 0xff] % val 8 [0x01, 0xf0, 0xff])
    ∧ zzRedBarr_safe 8 [0xff, 0xff, 0x00, 0xff, 0xff, 0xff] [0x01, 0xf0, 0xff]
        (zzRedBarrStart 8 [0x01, 0xf0, 0xff])
      = toWords 8 3 (val 8 [0xff, 0xff, 0x00, 0xff, 0xff, 0xff] % val 8 [0x01, 0xf0, 0xff])
    ∧ zzRedBarr_fast 8 [0xff, 0xff, 0x00, 0xff, 0xff, 0xff] [0x01, 0xf0, 0xff]
        (zzRedBarrStart 8 [0x01, 0xf0, 0xff])
      = toWords 8 3 (val 8 [0xff, 0xff, 0x00, 0xff, 0xff, 0xff] % val 8 [0x01, 0xf0, 0xff]) := by
  decide +kernel

/-- the same witness class on 64-bit words (the input that fails on the real library). -/
theorem zzRedBarr_safe_old_counterexample64 :
    zzRedBarr_safe_old 64 [2 ^ 64 - 1, 2 ^ 64 - 1, 0, 2 ^ 64 - 1, 2 ^ 64 - 1, 2 ^ 64 - 1]
        [1, 2 ^ 64 - 2 ^ 32, 2 ^ 64 - 1] (zzRedBarrStart 64 [1, 2 ^ 64 - 2 ^ 32, 2 ^ 64 - 1])
      = [1, 0xfffffffe00000000, 1]
    ∧ zzRedBarr_safe 64 [2 ^ 64 - 1, 2 ^ 64 - 1, 0, 2 ^ 64 - 1, 2 ^ 64 - 1, 2 ^ 64 - 1]
        [1, 2 ^ 64 - 2 ^ 32, 2 ^ 64 - 1] (zzRedBarrStart 64 [1, 2 ^ 64 - 2 ^ 32, 2 ^ 64 - 1])
      = [0, 0xfffffffe00000000, 0]
    ∧ val 64 [2 ^ 64 - 1, 2 ^ 64 - 1, 0, 2 ^ 64 - 1, 2 ^ 64 - 1, 2 ^ 64 - 1]
        % val 64 [1, 2 ^ 64 - 2 ^ 32, 2 ^ 64 - 1] = val 64 [0, 0xfffffffe00000000, 0] := by
  decide +kernel

end Bee2V.C05

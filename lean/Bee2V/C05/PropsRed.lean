/-
C05 — special reductions of zz_red.c: zzRedCrandMont (both editions) = Montgomery reduction
for a Crandall modulus; zzRedBarr: the defect of the old SAFE edition (counterexample) and the
general theorems for the repaired code.  Models: ModelRed.lean, helper lemmas: LemmasRed.lean.
-/
import Bee2V.C05.LemmasRed
import Bee2V.C05.PropsMul
namespace Bee2V.C05
open Bee2V.C05.Add Bee2V.C05.Red

/-! ## zzRedCrandMont

Header preconditions: n ≥ 2 (`ms ≠ []`), mod = m0 :: (B-1) … (B-1), `m0 * mont_param ≡ -1 (mod B)`
(which makes m0 odd and non-zero), a has 2n words, `a < mod * B^n`. -/

/-- SAFE(zzRedCrandMont): `r * B^n ≡ a (mod mod)`, `r < mod`, n words. -/
theorem zzRedCrandMont_safe_spec (w : Nat) (m0 : Nat) (ms a : List Nat) (mp : Nat)
    (hms : ∀ x ∈ ms, x = 2 ^ w - 1) (hne : ms ≠ [])
    (hm0 : 0 < m0) (hm0B : m0 < 2 ^ w) (hmp : (m0 * mp + 1) % 2 ^ w = 0)
    (ha : Wf w a) (hl : a.length = (m0 :: ms).length + (m0 :: ms).length)
    (hlt : val w a < val w (m0 :: ms) * 2 ^ (w * (m0 :: ms).length)) :
    (val w (zzRedCrandMont_safe w a (m0 :: ms) mp) * 2 ^ (w * (m0 :: ms).length)) % val w (m0 :: ms)
      = val w a % val w (m0 :: ms)
    ∧ val w (zzRedCrandMont_safe w a (m0 :: ms) mp) < val w (m0 :: ms)
    ∧ Wf w (zzRedCrandMont_safe w a (m0 :: ms) mp)
    ∧ (zzRedCrandMont_safe w a (m0 :: ms) mp).length = (m0 :: ms).length := by
  apply crandMont_finish w cmAddS cmSubS (cmAddS_ok w) (cmSubS_ok w) m0 ms a mp hms hne hm0 hm0B hmp
    ha hl hlt
  obtain ⟨n', hn⟩ : ∃ n', ms.length = n' + 1 :=
    ⟨ms.length - 1, by have := List.length_pos_iff.mpr hne; omega⟩
  have hmod : Wf w (m0 :: ms) := Wf_cons.mpr ⟨hm0B, Mul.Wf_ones w ms hms⟩
  have hw : 0 < w := by
    rcases Nat.eq_zero_or_pos w with h | h
    · subst h; have : m0 < 1 := by simpa using hm0B
      omega
    · exact h
  obtain ⟨t, _, t2, t3, t4, _⟩ := cmCore_spec w cmAddS cmSubS (cmAddS_ok w) (cmSubS_ok w) m0 ms a mp
    n' hn hms hm0 hm0B hmp ha hl hlt
  unfold zzRedCrandMont_safe
  simp only []
  generalize zzRedCrandMontCore w cmAddS cmSubS a (m0 :: ms) mp = r at *
  obtain ⟨c1, c2⟩ := Mul.zzRedMontCmp_spec w r.1 (m0 :: ms) 1 t3 hmod t4 (by omega)
  have hvh := val_lt t3
  have hvm := val_lt hmod
  rw [t4] at hvh
  have hf : (zzRedMontCmp r.1 (m0 :: ms) 1).2 ||| r.2 ≤ 1 :=
    Mul.lor_le_one (by rw [c2]; split_ifs <;> omega) t2
  rw [Mul.zzSubAndW_flag w hw _ _ _ hf (by rw [c1]; exact t3) hmod (by rw [c1]; exact t4), c1, c2]
  generalize val w r.1 = vh at *
  generalize val w (m0 :: ms) = vm at *
  generalize 2 ^ (w * (m0 :: ms).length) = Pn at *
  obtain h | h : r.2 = 0 ∨ r.2 = 1 := by omega
  all_goals rw [h]
  all_goals split_ifs <;> first | rfl | (exfalso; omega) | (exfalso; simp_all)

/-- FAST(zzRedCrandMont): the same statement. -/
theorem zzRedCrandMont_fast_spec (w : Nat) (m0 : Nat) (ms a : List Nat) (mp : Nat)
    (hms : ∀ x ∈ ms, x = 2 ^ w - 1) (hne : ms ≠ [])
    (hm0 : 0 < m0) (hm0B : m0 < 2 ^ w) (hmp : (m0 * mp + 1) % 2 ^ w = 0)
    (ha : Wf w a) (hl : a.length = (m0 :: ms).length + (m0 :: ms).length)
    (hlt : val w a < val w (m0 :: ms) * 2 ^ (w * (m0 :: ms).length)) :
    (val w (zzRedCrandMont_fast w a (m0 :: ms) mp) * 2 ^ (w * (m0 :: ms).length)) % val w (m0 :: ms)
      = val w a % val w (m0 :: ms)
    ∧ val w (zzRedCrandMont_fast w a (m0 :: ms) mp) < val w (m0 :: ms)
    ∧ Wf w (zzRedCrandMont_fast w a (m0 :: ms) mp)
    ∧ (zzRedCrandMont_fast w a (m0 :: ms) mp).length = (m0 :: ms).length := by
  apply crandMont_finish w cmAddF cmSubF (cmAddF_ok w) (cmSubF_ok w) m0 ms a mp hms hne hm0 hm0B hmp
    ha hl hlt
  obtain ⟨n', hn⟩ : ∃ n', ms.length = n' + 1 :=
    ⟨ms.length - 1, by have := List.length_pos_iff.mpr hne; omega⟩
  have hmod : Wf w (m0 :: ms) := Wf_cons.mpr ⟨hm0B, Mul.Wf_ones w ms hms⟩
  obtain ⟨t, _, t2, t3, t4, _⟩ := cmCore_spec w cmAddF cmSubF (cmAddF_ok w) (cmSubF_ok w) m0 ms a mp
    n' hn hms hm0 hm0B hmp ha hl hlt
  unfold zzRedCrandMont_fast
  simp only []
  have := Mul.wwCmp2_safe_top w _ (m0 :: ms) _ t3 hmod t4 t2
  by_cases hc : wwCmp2_safe ((zzRedCrandMontCore w cmAddF cmSubF a (m0 :: ms) mp).1
      ++ [(zzRedCrandMontCore w cmAddF cmSubF a (m0 :: ms) mp).2]) (m0 :: ms) ≥ 0
  · rw [if_pos hc, if_pos (this.mp hc)]
  · rw [if_neg hc, if_neg (fun h => hc (this.mpr h))]

/-- SAFE(zzRedCrandMont) = FAST(zzRedCrandMont) under the header's preconditions. -/
theorem zzRedCrandMont_safe_eq_fast (w : Nat) (m0 : Nat) (ms a : List Nat) (mp : Nat)
    (hms : ∀ x ∈ ms, x = 2 ^ w - 1) (hne : ms ≠ [])
    (hm0 : 0 < m0) (hm0B : m0 < 2 ^ w) (hmp : (m0 * mp + 1) % 2 ^ w = 0)
    (ha : Wf w a) (hl : a.length = (m0 :: ms).length + (m0 :: ms).length)
    (hlt : val w a < val w (m0 :: ms) * 2 ^ (w * (m0 :: ms).length)) :
    zzRedCrandMont_safe w a (m0 :: ms) mp = zzRedCrandMont_fast w a (m0 :: ms) mp := by
  obtain ⟨s1, s2, s3, s4⟩ := zzRedCrandMont_safe_spec w m0 ms a mp hms hne hm0 hm0B hmp ha hl hlt
  obtain ⟨f1, f2, f3, f4⟩ := zzRedCrandMont_fast_spec w m0 ms a mp hms hne hm0 hm0B hmp ha hl hlt
  have hw : 0 < w := by
    rcases Nat.eq_zero_or_pos w with h | h
    · subst h; have : m0 < 1 := by simpa using hm0B
      omega
    · exact h
  have hodd : val w (m0 :: ms) % 2 = 1 := by
    obtain ⟨k, rfl⟩ : ∃ k, w = k + 1 := ⟨w - 1, by omega⟩
    rw [val_mod_two]
    exact odd_of_mont (by omega) hmp
  exact val_inj s3 f3 (s4.trans f4.symm) (mont_unique hodd (s1.trans f1.symm) s2 f2)

example : zzRedCrandMont_safe 64 [5, 2 ^ 64 - 1, 7, 2 ^ 64 - 3] [2 ^ 64 - 189, 2 ^ 64 - 1] 11907422100489763477
      = zzRedCrandMont_fast 64 [5, 2 ^ 64 - 1, 7, 2 ^ 64 - 3] [2 ^ 64 - 189, 2 ^ 64 - 1] 11907422100489763477
    ∧ ((2 ^ 64 - 189) * 11907422100489763477 + 1) % 2 ^ 64 = 0
    ∧ (val 64 (zzRedCrandMont_fast 64 [5, 2 ^ 64 - 1, 7, 2 ^ 64 - 3] [2 ^ 64 - 189, 2 ^ 64 - 1]
          11907422100489763477) * 2 ^ 128) % (2 ^ 128 - 189)
        = val 64 [5, 2 ^ 64 - 1, 7, 2 ^ 64 - 3] % (2 ^ 128 - 189) := by decide +kernel

/-- for a Crandall modulus the specialised reduction returns the same words as the generic
    Montgomery reduction zzRedMont (both editions). -/
theorem zzRedCrandMont_eq_zzRedMont (w : Nat) (m0 : Nat) (ms a : List Nat) (mp : Nat)
    (hms : ∀ x ∈ ms, x = 2 ^ w - 1) (hne : ms ≠ [])
    (hm0 : 0 < m0) (hm0B : m0 < 2 ^ w) (hmp : (m0 * mp + 1) % 2 ^ w = 0)
    (ha : Wf w a) (hl : a.length = (m0 :: ms).length + (m0 :: ms).length)
    (hlt : val w a < val w (m0 :: ms) * 2 ^ (w * (m0 :: ms).length)) :
    zzRedCrandMont_safe w a (m0 :: ms) mp = zzRedMont_safe w a (m0 :: ms) mp
    ∧ zzRedCrandMont_fast w a (m0 :: ms) mp = zzRedMont_fast w a (m0 :: ms) mp := by
  have hmod : Wf w (m0 :: ms) := Wf_cons.mpr ⟨hm0B, Mul.Wf_ones w ms hms⟩
  have hw : 0 < w := by
    rcases Nat.eq_zero_or_pos w with h | h
    · subst h; have : m0 < 1 := by simpa using hm0B
      omega
    · exact h
  have hodd : val w (m0 :: ms) % 2 = 1 := by
    obtain ⟨k, rfl⟩ : ∃ k, w = k + 1 := ⟨w - 1, by omega⟩
    rw [val_mod_two]
    exact odd_of_mont (by omega) hmp
  obtain ⟨s1, s2, s3, s4⟩ := zzRedCrandMont_safe_spec w m0 ms a mp hms hne hm0 hm0B hmp ha hl hlt
  obtain ⟨f1, f2, f3, f4⟩ := zzRedCrandMont_fast_spec w m0 ms a mp hms hne hm0 hm0B hmp ha hl hlt
  obtain ⟨a1, a2, a3, a4⟩ := zzRedMont_safe_spec w m0 ms a mp ha hmod hl hmp hlt
  obtain ⟨b1, b2, b3, b4⟩ := zzRedMont_fast_spec w m0 ms a mp ha hmod hl hmp hlt
  exact ⟨val_inj s3 a3 (s4.trans a4.symm) (mont_unique hodd (s1.trans a1.symm) s2 a2),
    val_inj f3 b3 (f4.trans b4.symm) (mont_unique hodd (f1.trans b1.symm) f2 b2)⟩

/-! ## zzRedBarr

`zzRedBarr_safe` models the code as repaired by docs/C05.fix-11.diff; `zzRedBarr_safe_old` is the
code before the repair.  The old SAFE edition violates the header's formula: witness below
(w = 8, n = 3; the same construction works for every word size, on the real library for
w = 64: mod = 2^192 - 2^96 + 1).

The general theorems for the repaired code (`zzRedBarrStart_spec`, `zzRedBarr_fast_spec`,
`zzRedBarr_safe_spec`, `zzRedBarr_safe_eq_fast`) follow the counterexamples.  They rest on
`Red.barrett_estimate` (q̂ M ≤ a < (q̂ + 3) M for q̂ = ⌊⌊a / B^{n-1}⌋ μ / B^{n+1}⌋,
μ = ⌊B^{2n} / M⌋), `Red.barrCommon_spec` (the (n+1)-word truncated subtraction is exactly
a - q̂ M < 3 M; needs B ≥ 4, i.e. `2 ≤ w`), `Red.barrFastLoop_spec` (the while loop with fuel)
and `Red.barrRound` (one masked round).  Header remark: zz.h states the precondition of
zzRedBarrStart as "n > 0 && mod[n] != 0"; this is a typo for mod[n - 1] (the C ASSERT and
zzRedBarr say mod[n - 1]). -/

/-- the old SAFE(zzRedBarr) returns a wrong remainder (a[n] = 2 after the first subtraction):
    the header promises `a mod mod`, FAST and the repaired SAFE deliver it. -/
theorem zzRedBarr_safe_old_counterexample :
    zzRedBarr_safe_old 8 [0xff, 0xff, 0x00, 0xff, 0xff, 0xff] [0x01, 0xf0, 0xff]
        (zzRedBarrStart 8 [0x01, 0xf0, 0xff])
      ≠ toWords 8 3 (val 8 [0xff, 0xff, 0x00, 0xff, 0xff, 0xff] % val 8 [0x01, 0xf0, 0xff])
    ∧ zzRedBarr_safe 8 [0xff, 0xff, 0x00, 0xff, 0xff, 0xff] [0x01, 0xf0, 0xff]
        (zzRedBarrStart 8 [0x01, 0xf0, 0xff])
      = toWords 8 3 (val 8 [0xff, 0xff, 0x00, 0xff, 0xff, 0xff] % val 8 [0x01, 0xf0, 0xff])
    ∧ zzRedBarr_fast 8 [0xff, 0xff, 0x00, 0xff, 0xff, 0xff] [0x01, 0xf0, 0xff]
        (zzRedBarrStart 8 [0x01, 0xf0, 0xff])
      = toWords 8 3 (val 8 [0xff, 0xff, 0x00, 0xff, 0xff, 0xff] % val 8 [0x01, 0xf0, 0xff]) := by
  decide +kernel

/-- the same witness class on 64-bit words (the input that fails on the real library). -/
theorem zzRedBarr_safe_old_counterexample64 :
    zzRedBarr_safe_old 64 [2 ^ 64 - 1, 2 ^ 64 - 1, 0, 2 ^ 64 - 1, 2 ^ 64 - 1, 2 ^ 64 - 1]
        [1, 2 ^ 64 - 2 ^ 32, 2 ^ 64 - 1] (zzRedBarrStart 64 [1, 2 ^ 64 - 2 ^ 32, 2 ^ 64 - 1])
      = [1, 0xfffffffe00000000, 1]
    ∧ zzRedBarr_safe 64 [2 ^ 64 - 1, 2 ^ 64 - 1, 0, 2 ^ 64 - 1, 2 ^ 64 - 1, 2 ^ 64 - 1]
        [1, 2 ^ 64 - 2 ^ 32, 2 ^ 64 - 1] (zzRedBarrStart 64 [1, 2 ^ 64 - 2 ^ 32, 2 ^ 64 - 1])
      = [0, 0xfffffffe00000000, 0]
    ∧ val 64 [2 ^ 64 - 1, 2 ^ 64 - 1, 0, 2 ^ 64 - 1, 2 ^ 64 - 1, 2 ^ 64 - 1]
        % val 64 [1, 2 ^ 64 - 2 ^ 32, 2 ^ 64 - 1] = val 64 [0, 0xfffffffe00000000, 0] := by
  decide +kernel

/-- zzRedBarrStart: `barr_param = B^{2n} div mod`, n + 2 words
    (precondition n > 0, mod[n-1] ≠ 0, i.e. `B^{n-1} ≤ mod`). -/
theorem zzRedBarrStart_spec (w : Nat) (mod : List Nat) (hmod : Wf w mod) (hne : mod ≠ [])
    (hlo : 2 ^ (w * (mod.length - 1)) ≤ val w mod) :
    val w (zzRedBarrStart w mod) = 2 ^ (w * (2 * mod.length)) / val w mod
    ∧ Wf w (zzRedBarrStart w mod) ∧ (zzRedBarrStart w mod).length = mod.length + 2 := by
  obtain ⟨n', hn⟩ : ∃ n', mod.length = n' + 1 :=
    ⟨mod.length - 1, by have := List.length_pos_iff.mpr hne; omega⟩
  rw [hn, Nat.add_sub_cancel] at hlo
  exact barrStart_spec w mod n' hmod hn hlo

example : zzRedBarrStart 8 [0x01, 0xf0, 0xff] = [0xff, 0x0f, 0x00, 0x01, 0x00]
    ∧ 2 ^ 48 / 0xfff001 = 0x1000fff := by decide

/-- FAST(zzRedBarr) with `barr_param = zzRedBarrStart(mod)`: `a mod mod`
    (header: n > 0, mod[n-1] ≠ 0, a has 2n words).  `2 ≤ w`: the proof uses `3 mod < B^{n+1}`. -/
theorem zzRedBarr_fast_spec (w : Nat) (hw : 2 ≤ w) (a mod : List Nat)
    (ha : Wf w a) (hmod : Wf w mod) (hne : mod ≠ []) (hl : a.length = 2 * mod.length)
    (hlo : 2 ^ (w * (mod.length - 1)) ≤ val w mod) :
    val w (zzRedBarr_fast w a mod (zzRedBarrStart w mod)) = val w a % val w mod
    ∧ val w (zzRedBarr_fast w a mod (zzRedBarrStart w mod)) < val w mod
    ∧ Wf w (zzRedBarr_fast w a mod (zzRedBarrStart w mod))
    ∧ (zzRedBarr_fast w a mod (zzRedBarrStart w mod)).length = mod.length := by
  obtain ⟨n', hn⟩ : ∃ n', mod.length = n' + 1 :=
    ⟨mod.length - 1, by have := List.length_pos_iff.mpr hne; omega⟩
  rw [hn, Nat.add_sub_cancel] at hlo
  rw [hn] at hl
  obtain ⟨c1, c2, c3, qh, c4⟩ := barrCommon_spec w hw a mod n' hmod hn ha hl hlo
  have hM0 : 0 < val w mod := Nat.lt_of_lt_of_le (Nat.two_pow_pos _) hlo
  have hM := val_lt hmod
  rw [hn] at hM
  have hfuel : val w (zzRedBarrCommon w a mod (zzRedBarrStart w mod)) / val w mod < 2 ^ (2 * w) := by
    have h1 : val w (zzRedBarrCommon w a mod (zzRedBarrStart w mod)) / val w mod < 3 :=
      (Nat.div_lt_iff_lt_mul hM0).mpr c3
    have h2 : 2 ^ 2 ≤ 2 ^ (2 * w) := Nat.pow_le_pow_right (by omega) (by omega)
    omega
  obtain ⟨l1, l2, l3⟩ := barrFastLoop_spec w mod (n' + 1) hmod hn hM0 (2 ^ (2 * w)) _ c1 c2 hfuel
  unfold zzRedBarr_fast
  rw [hn]
  generalize zzRedBarrFastLoop w mod (2 ^ (2 * w)) (zzRedBarrCommon w a mod (zzRedBarrStart w mod))
    = res at *
  have hres : val w res = val w a % val w mod := by
    rw [l3, ← c4, Nat.add_mul_mod_self_right]
  have hlt : val w res < val w mod := by rw [hres]; exact Nat.mod_lt _ hM0
  obtain ⟨t1, _⟩ := val_take_mod w res (n' + 1) l1 (by omega)
  have ht : val w (res.take (n' + 1)) = val w res := by
    rw [t1]; exact Nat.mod_eq_of_lt (by omega)
  refine ⟨by rw [ht, hres], by rw [ht]; exact hlt, Wf_take l1 _, by rw [List.length_take, l2]; omega⟩

/-- SAFE(zzRedBarr) (with the repaired flag `w |= wordNeq01(a[n], 0)`): `a mod mod`. -/
theorem zzRedBarr_safe_spec (w : Nat) (hw : 2 ≤ w) (a mod : List Nat)
    (ha : Wf w a) (hmod : Wf w mod) (hne : mod ≠ []) (hl : a.length = 2 * mod.length)
    (hlo : 2 ^ (w * (mod.length - 1)) ≤ val w mod) :
    val w (zzRedBarr_safe w a mod (zzRedBarrStart w mod)) = val w a % val w mod
    ∧ val w (zzRedBarr_safe w a mod (zzRedBarrStart w mod)) < val w mod
    ∧ Wf w (zzRedBarr_safe w a mod (zzRedBarrStart w mod))
    ∧ (zzRedBarr_safe w a mod (zzRedBarrStart w mod)).length = mod.length := by
  obtain ⟨n', hn⟩ : ∃ n', mod.length = n' + 1 :=
    ⟨mod.length - 1, by have := List.length_pos_iff.mpr hne; omega⟩
  rw [hn, Nat.add_sub_cancel] at hlo
  rw [hn] at hl
  obtain ⟨c1, c2, c3, qh, c4⟩ := barrCommon_spec w hw a mod n' hmod hn ha hl hlo
  have hM0 : 0 < val w mod := Nat.lt_of_lt_of_le (Nat.two_pow_pos _) hlo
  have hM := val_lt hmod
  unfold zzRedBarr_safe
  simp only []
  rw [hn] at hM ⊢
  generalize zzRedBarrCommon w a mod (zzRedBarrStart w mod) = c at *
  obtain ⟨v1, v2, v3, v4⟩ := val_split_top w c (n' + 1) c1 c2
  generalize c.take (n' + 1) = lo at *
  generalize c.getD (n' + 1) 0 = top at *
  -- round 1
  obtain ⟨r1, r2, r3, r4⟩ := barrRound w (by omega) lo mod top v2 hmod (by rw [v3, hn]) v4
  rw [hn] at r3 r4
  rw [wsub_le v4 r1]
  generalize zzSubAndW w lo mod (wneg w ((zzRedMontCmp lo mod 1).2 ||| wneq01 top 0)) = s at *
  -- round 2
  obtain ⟨t1, t2, t3, t4⟩ := barrRound w (by omega) s.1 mod (top - s.2) r2 hmod (by rw [r3, hn])
    (by omega)
  rw [hn] at t3 t4
  generalize zzSubAndW w s.1 mod
    (wneg w ((zzRedMontCmp s.1 mod 1).2 ||| wneq01 (top - s.2) 0)) = s' at *
  have hS := val_lt t2
  rw [t3] at hS
  generalize 2 ^ (w * (n' + 1)) = P at *
  generalize P * (top - s.2) = T1 at *
  have hT2 : P * (top - s.2 - s'.2) = 0 ∨ P ≤ P * (top - s.2 - s'.2) := by
    rcases Nat.eq_zero_or_pos (top - s.2 - s'.2) with h | h
    · left; rw [h]; rfl
    · right; exact Nat.le_mul_of_pos_right _ h
  generalize P * (top - s.2 - s'.2) = T2 at *
  have hval : val w s'.1 < val w mod ∧ ∃ k, val w c = val w s'.1 + k * val w mod := by
    split_ifs at r4 t4
    · exact ⟨by omega, 2, by omega⟩
    · exact ⟨by omega, 1, by omega⟩
    · exact ⟨by omega, 1, by omega⟩
    · exact ⟨by omega, 0, by omega⟩
  obtain ⟨h1, k, h2⟩ := hval
  refine ⟨?_, h1, t2, t3⟩
  rw [← c4, h2, Nat.add_assoc, ← Nat.add_mul, Nat.add_mul_mod_self_right, Nat.mod_eq_of_lt h1]

/-- SAFE(zzRedBarr) = FAST(zzRedBarr) under the header's preconditions. -/
theorem zzRedBarr_safe_eq_fast (w : Nat) (hw : 2 ≤ w) (a mod : List Nat)
    (ha : Wf w a) (hmod : Wf w mod) (hne : mod ≠ []) (hl : a.length = 2 * mod.length)
    (hlo : 2 ^ (w * (mod.length - 1)) ≤ val w mod) :
    zzRedBarr_safe w a mod (zzRedBarrStart w mod) = zzRedBarr_fast w a mod (zzRedBarrStart w mod) := by
  obtain ⟨s1, _, s3, s4⟩ := zzRedBarr_safe_spec w hw a mod ha hmod hne hl hlo
  obtain ⟨f1, _, f3, f4⟩ := zzRedBarr_fast_spec w hw a mod ha hmod hne hl hlo
  exact val_inj s3 f3 (s4.trans f4.symm) (s1.trans f1.symm)

example : zzRedBarr_safe 64 [5, 2 ^ 64 - 1, 7, 2 ^ 64 - 3] [2 ^ 64 - 189, 2 ^ 63]
        (zzRedBarrStart 64 [2 ^ 64 - 189, 2 ^ 63])
      = toWords 64 2 (val 64 [5, 2 ^ 64 - 1, 7, 2 ^ 64 - 3] % val 64 [2 ^ 64 - 189, 2 ^ 63])
    ∧ zzRedBarr_fast 64 [5, 2 ^ 64 - 1, 7, 2 ^ 64 - 3] [2 ^ 64 - 189, 2 ^ 63]
        (zzRedBarrStart 64 [2 ^ 64 - 189, 2 ^ 63])
      = toWords 64 2 (val 64 [5, 2 ^ 64 - 1, 7, 2 ^ 64 - 3] % val 64 [2 ^ 64 - 189, 2 ^ 63]) := by
  decide +kernel

end Bee2V.C05

/-
C05 — GF(2)[x]/(f) for an irreducible f (`NatIrred f`, ModelFld.lean) is a field: the Nat-coded
ring `Gf2.R f` of LemmasGf2.lean gets `Field`, `Fintype` (2^deg f elements), `CharP _ 2`
instances (LemmasFld.lean), the inverse being the C algorithm `ppInvModV` (pp_mod.c).
Consequently the hypotheses `FrobFix` / `NoZeroDiv` of PropsGf2.lean hold for every irreducible
f, and the theorems about gf2Tr / gf2QSolve become unconditional.
-/
import Bee2V.C05.LemmasFld
import Bee2V.C05.PropsGf2
namespace Bee2V.C05
open Bee2V.C05.Spec Bee2V.C05.Gf2 Bee2V.C05.Fld

/-! ## the field -/

/-- number of elements: 2^(deg f) -/
theorem gf2_card (f : Nat) [Fact (NatIrred f)] : Fintype.card (R f) = 2 ^ f.log2 := card_R

/-- the field inverse IS ppInvMod (odd f, i.e. f ≠ x), including 0 ↦ 0 -/
theorem gf2_inv_eq_ppInvMod (f : Nat) [Fact (NatIrred f)] (ho : f % 2 = 1) (a : R f) :
    (a⁻¹).1 = ppInvModV a.1 f ∧ (a ≠ 0 → a * a⁻¹ = 1) ∧ (0 : R f)⁻¹ = 0 :=
  ⟨val_inv_odd ho a, fun h => mul_inv_cancel₀ h, inv_zero⟩

/-- multiplication, addition of the field are gfMul (qrMul of gf2) and xor -/
theorem gf2_ops (f : Nat) [Fact (NatIrred f)] (a b : R f) :
    (a * b).1 = gfMul f a.1 b.1 ∧ (a + b).1 = a.1 ^^^ b.1 ∧ (a ^ 2).1 = gfSqr f a.1
      ∧ (1 : R f).1 = 1 ∧ (0 : R f).1 = 0 ∧ a + a = 0 :=
  ⟨rfl, rfl, val_sq a, val_one_eq, rfl, add_self a⟩

/-- characteristic 2 -/
theorem gf2_charP (f : Nat) [Fact (NatIrred f)] : CharP (R f) 2 := inferInstance

-- non-vacuity: x^3 + x + 1 and x^5 + x^2 + 1 are irreducible (finite check of all factor pairs)
example : NatIrred 0b1011 := natIrred_of_check (by decide) (by decide +kernel)
example : NatIrred 0b100101 := natIrred_of_check (by decide) (by decide +kernel)
example : ¬ NatIrred 0b101 := fun h => by
  have := h.2 0b11 0b11 (by decide)
  revert this; decide

/-! ## Ben-Or decides irreducibility -/

/-- `Spec.pIsIrred` (Ben-Or: gcd(f, x^(2^i) + x) = 1 for i = 1 … deg f / 2) returns TRUE exactly
    for the irreducible polynomials of GF(2)[x].
    ⇐: in the field GF(2)[x]/(f) of 2^n elements Frobenius^i, i < n, cannot fix the class of x
    (it would fix every element, but the multiplicative group is cyclic of order 2^n − 1);
    ⇒: a reducible f has an irreducible factor g of degree d ≤ n/2, and x^(2^d) = x in the field
    GF(2)[x]/(g) (`FiniteField.pow_card`), so g divides gcd(f, x^(2^d) + x mod f). -/
theorem ppIsIrred_iff (a : Nat) : pIsIrred a = true ↔ NatIrred a := pIsIrred_iff' a

/-- the C function ppIsIrred (value-level model `ppIsIrredV`, proved equal to `Spec.pIsIrred` in
    PropsGf2.ppIsIrredV_spec) returns TRUE iff its argument is irreducible -/
theorem ppIsIrredV_iff (a : Nat) : ppIsIrredV a = true ↔ NatIrred a := by
  rw [ppIsIrredV_spec]; exact pIsIrred_iff' a

-- irreducibility of concrete polynomials is now a computation (DecidablePred NatIrred):
example : NatIrred 0b10000011 ∧ NatIrred (2 ^ 17 + 2 ^ 3 + 1) ∧ ¬ NatIrred (2 ^ 17 + 2 ^ 2 + 1)
    ∧ NatIrred 0b10 ∧ NatIrred 0b11 ∧ ¬ NatIrred 1 ∧ ¬ NatIrred 0 ∧ ¬ NatIrred 4681 := by
  decide +kernel

/-! ## bridge to Mathlib's polynomials -/

open Polynomial in
/-- `Fld.decode : Nat → (ZMod 2)[X]` (bit i ↦ coefficient of X^i) is a bijection that turns xor
    into `+` and `Spec.clmul` into `*` -/
theorem decode_ring_iso :
    Function.Bijective decode ∧ decode 0 = 0 ∧ decode 1 = 1 ∧ decode 2 = X
      ∧ (∀ a b, decode (a ^^^ b) = decode a + decode b)
      ∧ (∀ a b, decode (clmul a b) = decode a * decode b) :=
  ⟨⟨decode_injective, decode_surjective⟩, decode_zero, decode_one,
    by have := decode_two_mul 1; rw [decode_one, mul_one, mul_one] at this; exact this,
    fun a b => decode_xor _ a b rfl, decode_clmul⟩

/-- `NatIrred f` is irreducibility of the polynomial over ZMod 2 in Mathlib's sense; together
    with `ppIsIrredV_iff`: the C function ppIsIrred decides `Irreducible (decode a)` -/
theorem natIrred_iff_irreducible (f : Nat) : NatIrred f ↔ Irreducible (decode f) :=
  natIrred_iff_irreducible' f

theorem ppIsIrredV_iff_irreducible (a : Nat) : ppIsIrredV a = true ↔ Irreducible (decode a) := by
  rw [ppIsIrredV_iff, natIrred_iff_irreducible]

example : Irreducible (decode 0b10000011) := (natIrred_iff_irreducible _).1 (by decide +kernel)

/-! ## FrobFix and NoZeroDiv are consequences of irreducibility -/

/-- x^(2^m) = x for all reduced x (Frobenius^m = id; `FiniteField.pow_card`) -/
theorem frobFix_irred (f m : Nat) (h : NatIrred f) (hm : f.log2 = m) : FrobFix f m :=
  frobFix_of_irred h hm

theorem noZeroDiv_irred (f m : Nat) (h : NatIrred f) (hm : f.log2 = m) : NoZeroDiv f m :=
  noZeroDiv_of_irred h hm

/-! ## gf2Tr, gf2QSolve for irreducible f, without further hypotheses -/

/-- gf2Tr in GF(2^m): the loop ends in 0 or 1 (the C ASSERT), TRUE iff the trace is 1, the value
    is Σ_{i<m} a^(2^i), it is additive and invariant under squaring -/
theorem gf2TrV_irred (f m a : Nat) (h : NatIrred f) (hm : f.log2 = m) (ha : a < 2 ^ m) :
    (gf2TrVal f m a = 0 ∨ gf2TrVal f m a = 1)
      ∧ (gf2TrV f m a = true ↔ gf2TrVal f m a = 1)
      ∧ gf2TrVal f m a = gf2TrSum f a m
      ∧ gf2TrVal f m (gfSqr f a) = gf2TrVal f m a
      ∧ ∀ b, b < 2 ^ m → gf2TrVal f m (a ^^^ b) = gf2TrVal f m a ^^^ gf2TrVal f m b := by
  have hF := frobFix_of_irred h hm
  have hZ := noZeroDiv_of_irred h hm
  have hm1 : 1 ≤ m := by rw [← hm]; exact h.1
  have hf0 := natIrred_ne_zero h
  have ha' : a < 2 ^ f.log2 := by rw [hm]; exact ha
  exact ⟨gf2TrVal_bit f a m hF hZ ha hm1, gf2TrV_iff f a m hF hZ ha hm1,
    gf2TrVal_sum f a m hf0 ha' hm1, gf2TrVal_sqr f a m hF ha hm1,
    fun b hb => gf2TrVal_add f a b m hf0 ha' (by rw [hm]; exact hb) hm1⟩

/-- gf2QSolve in GF(2^m), m odd, f ≠ x: sound (TRUE comes with a reduced root) and complete
    (FALSE only when x^2 + a x + b has no root) -/
theorem gf2QSolveV_irred (f m a b : Nat) (h : NatIrred f) (hm : f.log2 = m) (hodd : m % 2 = 1)
    (hf2 : f ≠ 2) (ha : a < 2 ^ m) (hb : b < 2 ^ m) :
    (∀ x, gf2QSolveV f m a b = some x → x < 2 ^ m ∧ gfSqr f x ^^^ gfMul f a x ^^^ b = 0)
      ∧ (gf2QSolveV f m a b = none →
          ∀ x, x < 2 ^ m → gfSqr f x ^^^ gfMul f a x ^^^ b ≠ 0) := by
  have hF := frobFix_of_irred h hm
  have hfo := odd_of_irred h hf2
  have hg : a ≠ 0 → pgcd (gfSqr f a) f = 1 := fun ha0 => sqr_coprime_of_irred h hm ha ha0
  exact ⟨fun x hx => gf2QSolveV_sound f m a b x hF hodd hfo ha hb hg hx,
    fun hn => (gf2QSolveV_none f m a b hF hodd hfo ha hb hg hn).2.2.2⟩

example : (gf2TrVal 0b100101 5 0b00111 = 1) ∧ gf2QSolveV 0b100101 5 0b00111 0b10001 = some 14 := by
  decide +kernel

end Bee2V.C05

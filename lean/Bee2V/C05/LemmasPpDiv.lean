/-
C05 — lemmas for ModelPpDiv.lean (ppDiv / ppMod): the two shortcut branches.
-/
import Bee2V.C05.ModelPpDiv
import Bee2V.C05.LemmasPpRed
namespace Bee2V.C05.PpDiv
open Bee2V.C05 Bee2V.C05.Spec Bee2V.C05.Pp Bee2V.C05.PpRed

theorem val_replicate_zero (w k : Nat) : val w (List.replicate k 0) = 0 := by
  induction k with
  | zero => rfl
  | succ k ih => rw [List.replicate_succ, val_cons, ih]; simp

/-- `deg a < deg b` (as wwBitSize compares) ⇒ a fits below the top of b -/
theorem lt_of_bitSize_lt {x y : Nat} (h : ppBitSize x < ppBitSize y) :
    y ≠ 0 ∧ x < 2 ^ y.log2 := by
  unfold ppBitSize at h
  by_cases hy : y = 0
  · rw [if_pos hy] at h; omega
  · refine ⟨hy, ?_⟩
    rw [if_neg hy] at h
    by_cases hx : x = 0
    · subst hx; exact Nat.two_pow_pos _
    · rw [if_neg hx] at h
      exact (Nat.log2_lt hx).1 (by omega)

theorem ppDiv_small {w : Nat} (a b : List Nat) (ha : Wf w a) (hb : Wf w b) (hle : b.length ≤ a.length)
    (hlt : ppBitSize (val w a) < ppBitSize (val w b)) :
    ppDiv w a b = (List.replicate (a.length - b.length + 1) 0, a.take b.length)
    ∧ val w (a.take b.length) = val w a := by
  refine ⟨by unfold ppDiv; simp only [if_pos hlt], ?_⟩
  obtain ⟨hy, hx⟩ := lt_of_bitSize_lt hlt
  have h1 := val_lt hb
  have h2 := Nat.log2_self_le hy
  rw [val_take ha _ hle]
  exact Nat.mod_eq_of_lt (by omega)

/-! ## normalisation: multiplying dividend and divisor by x^s -/

theorem clmul_shiftLeft (q b s : Nat) : clmul q (b <<< s) = clmul q b <<< s := by
  rw [clmul_comm q (b <<< s), shiftLeft_clmul, clmul_comm]

/-- `(a·x^s) divmod (b·x^s) = (q, r·x^s)`: the quotient is unchanged, the remainder is shifted -/
theorem pdivmod_shift (a b s : Nat) (hb : b ≠ 0) :
    pdivmod (a <<< s) (b <<< s) = ((pdivmod a b).1, (pdivmod a b).2 <<< s) := by
  obtain ⟨h1, h2⟩ := pdivmod_spec a b hb
  have hbs : b <<< s ≠ 0 := by
    rw [Nat.shiftLeft_eq]
    exact Nat.mul_ne_zero hb (Nat.pos_iff_ne_zero.1 (Nat.two_pow_pos s))
  have hlog : (b <<< s).log2 = b.log2 + s := by rw [Nat.shiftLeft_eq]; exact log2_mul_two_pow hb s
  obtain ⟨g1, g2⟩ := pdivmod_spec (a <<< s) (b <<< s) hbs
  have hr : (pdivmod a b).2 <<< s < 2 ^ (b <<< s).log2 := by
    rw [hlog, Nat.shiftLeft_eq, Nat.pow_add]
    exact Nat.mul_lt_mul_of_pos_right h2 (Nat.two_pow_pos s)
  have heq : clmul (pdivmod (a <<< s) (b <<< s)).1 (b <<< s) ^^^ (pdivmod (a <<< s) (b <<< s)).2
      = clmul (pdivmod a b).1 (b <<< s) ^^^ (pdivmod a b).2 <<< s := by
    rw [g1, clmul_shiftLeft, ← Nat.shiftLeft_xor_distrib, h1]
  obtain ⟨e1, e2⟩ := divmod_unique hbs g2 hr heq
  exact Prod.ext e1 e2

/-- denormalisation: dividing the shifted remainder by x^s gives the remainder -/
theorem pmod_shift (a b s : Nat) (hb : b ≠ 0) : pmod (a <<< s) (b <<< s) / 2 ^ s = pmod a b := by
  unfold pmod
  rw [pdivmod_shift a b s hb, Nat.shiftLeft_eq, Nat.mul_div_cancel _ (Nat.two_pow_pos s)]

theorem pmod_one (x : Nat) : pmod x 1 = 0 := by
  have h := (pdivmod_spec x 1 (by decide)).2
  have h10 : Nat.log2 1 = 0 := by simpa using @Nat.log2_two_pow 0
  rw [h10] at h
  unfold pmod; omega

theorem ppMod_small {w : Nat} (a b : List Nat) (ha : Wf w a) (hb : Wf w b)
    (hlt : ppBitSize (val w a) < ppBitSize (val w b)) :
    val w (ppMod w a b) = val w a ∧ (ppMod w a b).length = b.length := by
  unfold ppMod
  simp only [if_pos hlt]
  by_cases hnm : a.length < b.length
  · rw [if_pos hnm, val_append, val_replicate_zero]
    refine ⟨by simp, ?_⟩
    rw [List.length_append, List.length_replicate]; omega
  · rw [if_neg hnm]
    obtain ⟨hy, hx⟩ := lt_of_bitSize_lt hlt
    have h1 := val_lt hb
    have h2 := Nat.log2_self_le hy
    refine ⟨?_, by rw [List.length_take]; omega⟩
    rw [val_take ha _ (by omega)]
    exact Nat.mod_eq_of_lt (by omega)

/-! ## the multiplication table `_MUL_PRE_S4` -/

/-- `j·a` truncated to a word -/
def mt (w a j : Nat) : Nat := clmul j a % 2 ^ w

theorem mt_double (w a j : Nat) : mt w a (2 * j) = wshl w (mt w a j) 1 := by
  unfold mt
  show clmul (2 * j) a % 2 ^ w = clmul j a % 2 ^ w * 2 ^ 1 % 2 ^ w
  rw [two_mul_clmul, Nat.pow_one, Nat.mod_mul_mod, Nat.mul_comm]

theorem mt_succ {w a : Nat} (ha : a < 2 ^ w) (j : Nat) : mt w a (2 * j + 1) = mt w a (2 * j) ^^^ a := by
  unfold mt
  have hd := bit_decomp (2 * j + 1)
  have e1 : (2 * j + 1) / 2 = j := by omega
  have e2 : (2 * j + 1) % 2 = 1 := by omega
  rw [e1, e2] at hd
  rw [← hd, xor_clmul, one_clmul, Nat.xor_mod_two_pow, Nat.mod_eq_of_lt ha]

theorem mulPreS4_eq {w a : Nat} (ha : a < 2 ^ w) :
    mulPreS4 w a = [mt w a 0, mt w a 1, mt w a 2, mt w a 3, mt w a 4, mt w a 5, mt w a 6, mt w a 7,
      mt w a 8, mt w a 9, mt w a 10, mt w a 11, mt w a 12, mt w a 13, mt w a 14, mt w a 15] := by
  have h0 : mt w a 0 = 0 := by unfold mt; rw [zero_clmul]; exact Nat.zero_mod _
  have h1 : mt w a 1 = a := by unfold mt; rw [one_clmul]; exact Nat.mod_eq_of_lt ha
  have d := mt_double w a
  have o := mt_succ ha
  have h2 : mt w a 2 = wshl w (mt w a 1) 1 := d 1
  have h3 : mt w a 3 = mt w a 2 ^^^ a := o 1
  have h4 : mt w a 4 = wshl w (mt w a 2) 1 := d 2
  have h5 : mt w a 5 = mt w a 4 ^^^ a := o 2
  have h6 : mt w a 6 = wshl w (mt w a 3) 1 := d 3
  have h7 : mt w a 7 = mt w a 6 ^^^ a := o 3
  have h8 : mt w a 8 = wshl w (mt w a 4) 1 := d 4
  have h9 : mt w a 9 = mt w a 8 ^^^ a := o 4
  have h10 : mt w a 10 = wshl w (mt w a 5) 1 := d 5
  have h11 : mt w a 11 = mt w a 10 ^^^ a := o 5
  have h12 : mt w a 12 = wshl w (mt w a 6) 1 := d 6
  have h13 : mt w a 13 = mt w a 12 ^^^ a := o 6
  have h14 : mt w a 14 = wshl w (mt w a 7) 1 := d 7
  have h15 : mt w a 15 = mt w a 14 ^^^ a := o 7
  unfold mulPreS4
  rw [h15, h14, h13, h12, h11, h10, h9, h8, h7, h6, h5, h4, h3, h2, h1, h0]

end Bee2V.C05.PpDiv

/-
C05 — lemmas for ModelPpDiv.lean (ppDiv / ppMod): shortcut branches, tables `_MUL_PRE_S4` /
`_DIV_PRE_S4`, the trial quotient `_DIV_DIV_S4` (nibble-loop invariant), the digit loop
(uses PpMul.ppAddMulW_spec), normalisation, and the final `ppDiv_ok` / `ppMod_ok`.
-/
import Bee2V.C05.ModelPpDiv
import Bee2V.C05.LemmasPpRed
import Bee2V.C05.LemmasPpMul
namespace Bee2V.C05.PpDiv
open Bee2V.C05 Bee2V.C05.Spec Bee2V.C05.Pp Bee2V.C05.PpRed

theorem val_replicate_zero (w k : Nat) : val w (List.replicate k 0) = 0 := by
  induction k with
  | zero => rfl
  | succ k ih => rw [List.replicate_succ, val_cons, ih]; simp

/-- `deg a < deg b` (as wwBitSize compares) ⇒ a fits below the top of b -/
theorem lt_of_bitSize_lt {x y : Nat} (h : ppBitSize x < ppBitSize y) :
    y ≠ 0 ∧ x < 2 ^ y.log2 := by
  unfold ppBitSize at h
  by_cases hy : y = 0
  · rw [if_pos hy] at h; omega
  · refine ⟨hy, ?_⟩
    rw [if_neg hy] at h
    by_cases hx : x = 0
    · subst hx; exact Nat.two_pow_pos _
    · rw [if_neg hx] at h
      exact (Nat.log2_lt hx).1 (by omega)

theorem ppDiv_small {w : Nat} (a b : List Nat) (ha : Wf w a) (hb : Wf w b) (hle : b.length ≤ a.length)
    (hlt : ppBitSize (val w a) < ppBitSize (val w b)) :
    ppDiv w a b = (List.replicate (a.length - b.length + 1) 0, a.take b.length)
    ∧ val w (a.take b.length) = val w a := by
  refine ⟨by unfold ppDiv; simp only [if_pos hlt], ?_⟩
  obtain ⟨hy, hx⟩ := lt_of_bitSize_lt hlt
  have h1 := val_lt hb
  have h2 := Nat.log2_self_le hy
  rw [val_take ha _ hle]
  exact Nat.mod_eq_of_lt (by omega)

/-! ## normalisation: multiplying dividend and divisor by x^s -/

theorem clmul_shiftLeft (q b s : Nat) : clmul q (b <<< s) = clmul q b <<< s := by
  rw [clmul_comm q (b <<< s), shiftLeft_clmul, clmul_comm]

/-- `(a·x^s) divmod (b·x^s) = (q, r·x^s)`: the quotient is unchanged, the remainder is shifted -/
theorem pdivmod_shift (a b s : Nat) (hb : b ≠ 0) :
    pdivmod (a <<< s) (b <<< s) = ((pdivmod a b).1, (pdivmod a b).2 <<< s) := by
  obtain ⟨h1, h2⟩ := pdivmod_spec a b hb
  have hbs : b <<< s ≠ 0 := by
    rw [Nat.shiftLeft_eq]
    exact Nat.mul_ne_zero hb (Nat.pos_iff_ne_zero.1 (Nat.two_pow_pos s))
  have hlog : (b <<< s).log2 = b.log2 + s := by rw [Nat.shiftLeft_eq]; exact log2_mul_two_pow hb s
  obtain ⟨g1, g2⟩ := pdivmod_spec (a <<< s) (b <<< s) hbs
  have hr : (pdivmod a b).2 <<< s < 2 ^ (b <<< s).log2 := by
    rw [hlog, Nat.shiftLeft_eq, Nat.pow_add]
    exact Nat.mul_lt_mul_of_pos_right h2 (Nat.two_pow_pos s)
  have heq : clmul (pdivmod (a <<< s) (b <<< s)).1 (b <<< s) ^^^ (pdivmod (a <<< s) (b <<< s)).2
      = clmul (pdivmod a b).1 (b <<< s) ^^^ (pdivmod a b).2 <<< s := by
    rw [g1, clmul_shiftLeft, ← Nat.shiftLeft_xor_distrib, h1]
  obtain ⟨e1, e2⟩ := divmod_unique hbs g2 hr heq
  exact Prod.ext e1 e2

/-- denormalisation: dividing the shifted remainder by x^s gives the remainder -/
theorem pmod_shift (a b s : Nat) (hb : b ≠ 0) : pmod (a <<< s) (b <<< s) / 2 ^ s = pmod a b := by
  unfold pmod
  rw [pdivmod_shift a b s hb, Nat.shiftLeft_eq, Nat.mul_div_cancel _ (Nat.two_pow_pos s)]

theorem pmod_one (x : Nat) : pmod x 1 = 0 := by
  have h := (pdivmod_spec x 1 (by decide)).2
  have h10 : Nat.log2 1 = 0 := by simpa using @Nat.log2_two_pow 0
  rw [h10] at h
  unfold pmod; omega

theorem ppMod_small {w : Nat} (a b : List Nat) (ha : Wf w a) (hb : Wf w b)
    (hlt : ppBitSize (val w a) < ppBitSize (val w b)) :
    val w (ppMod w a b) = val w a ∧ (ppMod w a b).length = b.length := by
  unfold ppMod
  simp only [if_pos hlt]
  by_cases hnm : a.length < b.length
  · rw [if_pos hnm, val_append, val_replicate_zero]
    refine ⟨by simp, ?_⟩
    rw [List.length_append, List.length_replicate]; omega
  · rw [if_neg hnm]
    obtain ⟨hy, hx⟩ := lt_of_bitSize_lt hlt
    have h1 := val_lt hb
    have h2 := Nat.log2_self_le hy
    refine ⟨?_, by rw [List.length_take]; omega⟩
    rw [val_take ha _ (by omega)]
    exact Nat.mod_eq_of_lt (by omega)

/-! ## the multiplication table `_MUL_PRE_S4` -/

/-- `j·a` truncated to a word -/
def mt (w a j : Nat) : Nat := clmul j a % 2 ^ w

theorem mt_double (w a j : Nat) : mt w a (2 * j) = wshl w (mt w a j) 1 := by
  unfold mt
  show clmul (2 * j) a % 2 ^ w = clmul j a % 2 ^ w * 2 ^ 1 % 2 ^ w
  rw [two_mul_clmul, Nat.pow_one, Nat.mod_mul_mod, Nat.mul_comm]

theorem mt_succ {w a : Nat} (ha : a < 2 ^ w) (j : Nat) : mt w a (2 * j + 1) = mt w a (2 * j) ^^^ a := by
  unfold mt
  have hd := bit_decomp (2 * j + 1)
  have e1 : (2 * j + 1) / 2 = j := by omega
  have e2 : (2 * j + 1) % 2 = 1 := by omega
  rw [e1, e2] at hd
  rw [← hd, xor_clmul, one_clmul, Nat.xor_mod_two_pow, Nat.mod_eq_of_lt ha]

theorem mulPreS4_eq {w a : Nat} (ha : a < 2 ^ w) :
    mulPreS4 w a = [mt w a 0, mt w a 1, mt w a 2, mt w a 3, mt w a 4, mt w a 5, mt w a 6, mt w a 7,
      mt w a 8, mt w a 9, mt w a 10, mt w a 11, mt w a 12, mt w a 13, mt w a 14, mt w a 15] := by
  have h0 : mt w a 0 = 0 := by unfold mt; rw [zero_clmul]; exact Nat.zero_mod _
  have h1 : mt w a 1 = a := by unfold mt; rw [one_clmul]; exact Nat.mod_eq_of_lt ha
  have d := mt_double w a
  have o := mt_succ ha
  have h2 : mt w a 2 = wshl w (mt w a 1) 1 := d 1
  have h3 : mt w a 3 = mt w a 2 ^^^ a := o 1
  have h4 : mt w a 4 = wshl w (mt w a 2) 1 := d 2
  have h5 : mt w a 5 = mt w a 4 ^^^ a := o 2
  have h6 : mt w a 6 = wshl w (mt w a 3) 1 := d 3
  have h7 : mt w a 7 = mt w a 6 ^^^ a := o 3
  have h8 : mt w a 8 = wshl w (mt w a 4) 1 := d 4
  have h9 : mt w a 9 = mt w a 8 ^^^ a := o 4
  have h10 : mt w a 10 = wshl w (mt w a 5) 1 := d 5
  have h11 : mt w a 11 = mt w a 10 ^^^ a := o 5
  have h12 : mt w a 12 = wshl w (mt w a 6) 1 := d 6
  have h13 : mt w a 13 = mt w a 12 ^^^ a := o 6
  have h14 : mt w a 14 = wshl w (mt w a 7) 1 := d 7
  have h15 : mt w a 15 = mt w a 14 ^^^ a := o 7
  unfold mulPreS4
  rw [h15, h14, h13, h12, h11, h10, h9, h8, h7, h6, h5, h4, h3, h2, h1, h0]

/-! ## the trial quotient `_DIV_DIV_S4` -/

/-- high word of `q·(x^w + t)`: `q ^ hi(q·t)` -/
def Gq (w t q : Nat) : Nat := q ^^^ clmul q t / 2 ^ w

theorem Gq_zero (w t : Nat) : Gq w t 0 = 0 := by simp [Gq, zero_clmul]

theorem Gq_xor (w t x y : Nat) : Gq w t (x ^^^ y) = Gq w t x ^^^ Gq w t y := by
  unfold Gq
  rw [xor_clmul, Nat.xor_div_two_pow, xor4_swap]

theorem clmul_lt_pow {a b p r : Nat} (ha : a < 2 ^ p) (hb : b < 2 ^ r) (hp : 0 < p) (hr : 0 < r) :
    clmul a b < 2 ^ (p + r - 1) := by
  by_cases ha0 : a = 0
  · subst ha0; rw [zero_clmul]; exact Nat.two_pow_pos _
  · by_cases hb0 : b = 0
    · subst hb0; rw [clmul_zero]; exact Nat.two_pow_pos _
    · have h1 := (Nat.log2_lt ha0).2 ha
      have h2 := (Nat.log2_lt hb0).2 hb
      have hne := clmul_ne_zero ha0 hb0
      have hl := log2_clmul ha0 hb0
      exact (Nat.log2_lt hne).1 (by omega)

/-- `G(c·x^e)` for a nibble c: the part that cancels the leading nibble and the part xored into hi -/
theorem Gq_nibble {w t c e : Nat} (he : e ≤ w) :
    Gq w t (c <<< e) = (c ^^^ clmul c t / 2 ^ w) <<< e ^^^ (clmul c t % 2 ^ w) / 2 ^ (w - e) := by
  unfold Gq
  have hpow : 2 ^ w = 2 ^ (w - e) * 2 ^ e := by rw [← Nat.pow_add]; congr 1; omega
  have h1 : clmul (c <<< e) t / 2 ^ w = clmul c t / 2 ^ (w - e) := by
    rw [shiftLeft_clmul, Nat.shiftLeft_eq, hpow, Nat.mul_div_mul_right _ _ (Nat.two_pow_pos e)]
  have hL : clmul c t % 2 ^ w / 2 ^ (w - e) < 2 ^ e := by
    apply Nat.div_lt_of_lt_mul
    rw [← hpow]; exact Nat.mod_lt _ (Nat.two_pow_pos w)
  have h2 : clmul c t / 2 ^ (w - e) = (clmul c t / 2 ^ w) <<< e ^^^ clmul c t % 2 ^ w / 2 ^ (w - e) := by
    rw [← add_shl_eq_xor hL]
    conv => lhs; rw [← Nat.div_add_mod (clmul c t) (2 ^ w)]
    rw [hpow, Nat.mul_assoc, Nat.mul_add_div (Nat.two_pow_pos _), ← hpow]
  rw [h1, h2, Nat.shiftLeft_xor_distrib, Nat.xor_assoc]


/-- `_DIV_PRE_S4` as a function of the three shifted copies of the top word it reads -/
def divPre3 (g1 g2 g3 : Nat) : List Nat :=
  let t2 := [0, 1]
  let t4 := t2 ++ (List.range 2).map (fun j => 2 ^^^ t2.getD (j ^^^ g1) 0)
  let t8 := t4 ++ (List.range 4).map (fun j => 4 ^^^ t4.getD (j ^^^ g2) 0)
  t8 ++ (List.range 8).map (fun j => 8 ^^^ t8.getD (j ^^^ g3) 0)

theorem divPreS4_eq (w a : Nat) :
    divPreS4 w a = divPre3 (a / 2 ^ (w - 1)) (a / 2 ^ (w - 2)) (a / 2 ^ (w - 3)) := rfl

/-- the finite core: for every value u of the top three bits, table entry j is the nibble c with
    `c ^ hi(c·u) = j` -/
theorem divPre3_ok : ∀ u, u < 8 → ∀ j, j < 16 →
    (divPre3 (u / 4) (u / 2) u).getD j 0 < 16
    ∧ (divPre3 (u / 4) (u / 2) u).getD j 0 ^^^ clmul ((divPre3 (u / 4) (u / 2) u).getD j 0) u / 8 = j := by
  decide

/-- only the top three bits of t matter for the high part of `c·t`, c a nibble -/
theorem hi_clmul_nibble {w t c : Nat} (hw : 4 ≤ w) (hc : c < 16) :
    clmul c t / 2 ^ w = clmul c (t / 2 ^ (w - 3)) / 8 := by
  have hpow : 2 ^ w = 2 ^ (w - 3) * 8 := by
    rw [show (8 : Nat) = 2 ^ 3 by rfl, ← Nat.pow_add]; congr 1; omega
  have htl : t % 2 ^ (w - 3) < 2 ^ (w - 3) := Nat.mod_lt _ (Nat.two_pow_pos _)
  have hdec : t = (t / 2 ^ (w - 3)) <<< (w - 3) ^^^ t % 2 ^ (w - 3) := by
    rw [← add_shl_eq_xor htl, Nat.div_add_mod]
  have hlow : clmul c (t % 2 ^ (w - 3)) < 2 ^ w := by
    have := clmul_lt_pow (p := 4) (r := w - 3) (by simpa using hc) htl (by omega) (by omega)
    rwa [show 4 + (w - 3) - 1 = w by omega] at this
  conv => lhs; rw [hdec]
  rw [clmul_xor, clmul_shiftLeft, Nat.xor_div_two_pow, Nat.div_eq_of_lt hlow, Nat.xor_zero,
    Nat.shiftLeft_eq, hpow, Nat.mul_comm (clmul c _) (2 ^ (w - 3)),
    Nat.mul_div_mul_left _ _ (Nat.two_pow_pos _)]

/-- table `_DIV_PRE_S4(w1, t)`: entry j is the quotient nibble for the leading nibble j -/
theorem divPreS4_ok {w t j : Nat} (hw : 4 ≤ w) (ht : t < 2 ^ w) (hj : j < 16) :
    (divPreS4 w t).getD j 0 < 16
    ∧ (divPreS4 w t).getD j 0 ^^^ clmul ((divPreS4 w t).getD j 0) t / 2 ^ w = j := by
  have hu : t / 2 ^ (w - 3) < 8 := by
    apply Nat.div_lt_of_lt_mul
    rw [show (8 : Nat) = 2 ^ 3 by rfl, ← Nat.pow_add, show w - 3 + 3 = w by omega]; exact ht
  have e2 : t / 2 ^ (w - 2) = t / 2 ^ (w - 3) / 2 := by
    rw [Nat.div_div_eq_div_mul, ← Nat.pow_succ]; congr 2; omega
  have e1 : t / 2 ^ (w - 1) = t / 2 ^ (w - 3) / 4 := by
    rw [Nat.div_div_eq_div_mul, show (4 : Nat) = 2 ^ 2 by rfl, ← Nat.pow_add]; congr 2; omega
  rw [divPreS4_eq, e1, e2]
  obtain ⟨h1, h2⟩ := divPre3_ok _ hu j hj
  refine ⟨h1, ?_⟩
  rw [hi_clmul_nibble hw h1]
  exact h2


theorem mulPreS4_getD {w t c : Nat} (ht : t < 2 ^ w) (hc : c < 16) :
    (mulPreS4 w t).getD c 0 = clmul c t % 2 ^ w := by
  have h : mulPreS4 w t = (List.range 16).map (fun j => clmul j t % 2 ^ w) := by
    rw [mulPreS4_eq ht]; rfl
  rw [h, List.getD_eq_getElem?_getD, List.getElem?_map, List.getElem?_range hc]
  rfl

/-- state of the nibble loop before step s: q holds s nibbles, and x (= hi after the pending
    update) agrees below bit w − 4s with what is still to be cancelled -/
def NibInv (w t hi0 s q x : Nat) : Prop :=
  q < 2 ^ (4 * s) ∧ x % 2 ^ (w - 4 * s) = hi0 ^^^ Gq w t (q <<< (w - 4 * s))

theorem nibStep {w t hi0 s q x : Nat} (hw4 : 4 ≤ w) (ht : t < 2 ^ w) (hs : 4 * (s + 1) ≤ w)
    (h : NibInv w t hi0 s q x) :
    let c := (divPreS4 w t).getD (wshr x (w - 4 * (s + 1)) &&& 15) 0
    (wshl w q 4 ^^^ c) &&& 15 = c
    ∧ NibInv w t hi0 (s + 1) (wshl w q 4 ^^^ c) (x ^^^ wshr ((mulPreS4 w t).getD c 0) (4 * (s + 1))) := by
  intro c
  obtain ⟨hq, hx⟩ := h
  have h15 : ∀ y : Nat, y &&& 15 = y % 16 := fun y => Nat.and_two_pow_sub_one_eq_mod y 4
  have hj : wshr x (w - 4 * (s + 1)) &&& 15 < 16 := by rw [h15]; exact Nat.mod_lt _ (by decide)
  obtain ⟨hc16, hcj⟩ := divPreS4_ok hw4 ht hj
  have hw2 := mulPreS4_getD (w := w) ht hc16
  -- q << 4 is exact
  have hq16 : q * 2 ^ 4 < 2 ^ w := by
    have : q * 2 ^ 4 < 2 ^ (4 * s) * 2 ^ 4 := Nat.mul_lt_mul_of_pos_right hq (by decide)
    rw [← Nat.pow_add] at this
    exact Nat.lt_of_lt_of_le this (Nat.pow_le_pow_right (by omega) (by omega))
  have hshl : wshl w q 4 = q <<< 4 := by
    show q * 2 ^ 4 % 2 ^ w = _
    rw [Nat.mod_eq_of_lt hq16, Nat.shiftLeft_eq]
  have hc4 : c < 2 ^ 4 := hc16
  refine ⟨?_, ?_, ?_⟩
  · rw [h15, hshl, Nat.shiftLeft_eq, show (16 : Nat) = 2 ^ 4 by rfl, Nat.xor_mod_two_pow,
      Nat.mul_mod_left, Nat.zero_xor, Nat.mod_eq_of_lt hc4]
  · rw [hshl, show 4 * (s + 1) = 4 * s + 4 by omega]
    apply Nat.xor_lt_two_pow
    · rw [Nat.shiftLeft_eq]
      have := Nat.mul_lt_mul_of_pos_right hq (Nat.two_pow_pos 4)
      rwa [← Nat.pow_add] at this
    · exact Nat.lt_of_lt_of_le hc4 (Nat.pow_le_pow_right (by omega) (by omega))
  · -- the congruence
    have he : w - 4 * s = (w - 4 * (s + 1)) + 4 := by omega
    rw [he] at hx
    have hle : w - 4 * (s + 1) ≤ w := Nat.sub_le _ _
    have hsplit : (wshl w q 4 ^^^ c) <<< (w - 4 * (s + 1))
        = q <<< (w - 4 * (s + 1) + 4) ^^^ c <<< (w - 4 * (s + 1)) := by
      rw [hshl, Nat.shiftLeft_xor_distrib, ← Nat.shiftLeft_add, Nat.add_comm 4]
    rw [hsplit, Gq_xor, Gq_nibble hle, ← Nat.xor_assoc, ← hx, hcj, hw2,
      show w - (w - 4 * (s + 1)) = 4 * (s + 1) by omega]
    -- x % 2^(e+4) = j <<< e ^^^ x % 2^e
    have hY : clmul c t % 2 ^ w / 2 ^ (4 * (s + 1)) < 2 ^ (w - 4 * (s + 1)) := by
      apply Nat.div_lt_of_lt_mul
      rw [← Nat.pow_add, show 4 * (s + 1) + (w - 4 * (s + 1)) = w by omega]
      exact Nat.mod_lt _ (Nat.two_pow_pos w)
    have hxd : x % 2 ^ (w - 4 * (s + 1) + 4)
        = (wshr x (w - 4 * (s + 1)) &&& 15) <<< (w - 4 * (s + 1)) ^^^ x % 2 ^ (w - 4 * (s + 1)) := by
      rw [← add_shl_eq_xor (Nat.mod_lt _ (Nat.two_pow_pos _)), h15]
      show _ = 2 ^ (w - 4 * (s + 1)) * (x / 2 ^ (w - 4 * (s + 1)) % 16) + _
      rw [show (16 : Nat) = 2 ^ 4 by rfl, ← Nat.mod_mul_right_div_self, ← Nat.pow_add]
      have hdvd : 2 ^ (w - 4 * (s + 1)) ∣ 2 ^ (w - 4 * (s + 1) + 4) := Nat.pow_dvd_pow 2 (by omega)
      conv => rhs; rhs; rw [← Nat.mod_mod_of_dvd x hdvd]
      rw [Nat.div_add_mod]
    show (x ^^^ clmul c t % 2 ^ w / 2 ^ (4 * (s + 1))) % 2 ^ (w - 4 * (s + 1)) = _
    rw [Nat.xor_mod_two_pow, Nat.mod_eq_of_lt hY, hxd]
    generalize clmul c t % 2 ^ w / 2 ^ (4 * (s + 1)) = Y
    generalize x % 2 ^ (w - 4 * (s + 1)) = X
    generalize (wshr x (w - 4 * (s + 1)) &&& 15) <<< (w - 4 * (s + 1)) = J
    apply Nat.eq_of_testBit_eq
    intro i
    simp only [Nat.testBit_xor]
    cases Y.testBit i <;> cases X.testBit i <;> cases J.testBit i <;> rfl

theorem divDivS4Loop_ok {w t hi0 : Nat} (hw4 : 4 ≤ w) (ht : t < 2 ^ w) :
    ∀ cnt s hi q, 4 * (s + cnt) = w →
      NibInv w t hi0 s q (hi ^^^ wshr ((mulPreS4 w t).getD (q &&& 15) 0) (4 * s)) →
      divDivS4Loop w (divPreS4 w t) (mulPreS4 w t) cnt s hi q < 2 ^ w
      ∧ Gq w t (divDivS4Loop w (divPreS4 w t) (mulPreS4 w t) cnt s hi q) = hi0 := by
  intro cnt
  induction cnt with
  | zero =>
    intro s hi q hs ⟨hq, hx⟩
    have e0 : w - 4 * s = 0 := by omega
    rw [e0, Nat.pow_zero, Nat.mod_one, Nat.shiftLeft_zero] at hx
    rw [show 4 * s = w by omega] at hq
    exact ⟨hq, (xor_eq_zero_iff.1 hx.symm).symm⟩
  | succ cnt ih =>
    intro s hi q hs h
    obtain ⟨n1, n2⟩ := nibStep hw4 ht (by omega) h
    rw [divDivS4Loop]
    apply ih (s + 1) _ _ (by omega)
    rw [n1]
    exact n2

/-- `_DIV_DIV_S4`: the quotient word q of (hi, ·) by (1, t) — the high word of q·(x^w + t) is hi -/
theorem divDivS4_ok {w t hi : Nat} (hw4 : 4 ≤ w) (hdvd : 4 ∣ w) (ht : t < 2 ^ w) (hhi : hi < 2 ^ w) :
    divDivS4 w (divPreS4 w t) (mulPreS4 w t) hi < 2 ^ w
    ∧ Gq w t (divDivS4 w (divPreS4 w t) (mulPreS4 w t) hi) = hi := by
  have h0 : NibInv w t hi 0 0 hi := by
    refine ⟨by simp, ?_⟩
    rw [Nat.mul_zero, Nat.sub_zero, Nat.zero_shiftLeft, Gq_zero, Nat.xor_zero, Nat.mod_eq_of_lt hhi]
  obtain ⟨n1, n2⟩ := nibStep hw4 ht (by omega) h0
  have hz : wshl w 0 4 = 0 := by simp [wshl]
  rw [hz, Nat.zero_xor] at n1 n2
  have hlt : wshr hi (w - 4) < 16 := by
    apply Nat.div_lt_of_lt_mul
    rw [show (16 : Nat) = 2 ^ 4 by rfl, ← Nat.pow_add, show w - 4 + 4 = w by omega]; exact hhi
  have hmask : wshr hi (w - 4 * (0 + 1)) &&& 15 = wshr hi (w - 4) := by
    rw [Nat.and_two_pow_sub_one_eq_mod _ 4]; exact Nat.mod_eq_of_lt hlt
  rw [hmask] at n1 n2
  unfold divDivS4
  obtain ⟨k, hk⟩ := hdvd
  apply divDivS4Loop_ok hw4 ht (w / 4 - 1) 1 hi _ (by omega)
  rw [n1]
  exact n2


/-! ## the digit loop -/

theorem val_append_xor {w : Nat} {a : List Nat} (ha : Wf w a) (b : List Nat) :
    val w (a ++ b) = val w b <<< (w * a.length) ^^^ val w a := by
  rw [PpRed.val_append, Nat.add_comm, add_shl_eq_xor (val_lt ha)]

theorem getD_eq_div {w : Nat} {d : List Nat} (hd : Wf w d) {i : Nat} (hi : i < d.length)
    (hV : val w d < 2 ^ (w * (i + 1))) : d.getD i 0 = val w d / 2 ^ (w * i) := by
  have h1 := val_take_succ_add (w := w) i hi
  have h2 := val_take hd (i + 1) (by omega)
  rw [Nat.mod_eq_of_lt hV] at h2
  have h3 := val_lt (Wf_take hd i)
  rw [List.length_take, Nat.min_eq_left (by omega)] at h3
  rw [← h2, h1, Nat.add_comm, Nat.mul_add_div (Nat.two_pow_pos _), Nat.div_eq_of_lt h3, Nat.add_zero]

/-- the high word of `q · divisor` only depends on the top word of the divisor -/
theorem hi_clmul_top {w : Nat} {dv : List Nat} (hdv : Wf w dv) {m : Nat} (hm : dv.length = m) (hm1 : 1 ≤ m)
    (hw : 0 < w) {q : Nat} (hq : q < 2 ^ w) :
    clmul q (val w dv) / 2 ^ (w * m) = clmul q (dv.getD (m - 1) 0) / 2 ^ w := by
  have h1 := val_take_succ_add (w := w) (a := dv) (m - 1) (by omega)
  rw [show m - 1 + 1 = m by omega, ← hm, List.take_length, hm] at h1
  have h3 := val_lt (Wf_take hdv (m - 1))
  rw [List.length_take, Nat.min_eq_left (by omega)] at h3
  have hdec : val w dv = (dv.getD (m - 1) 0) <<< (w * (m - 1)) ^^^ val w (dv.take (m - 1)) := by
    rw [h1, Nat.add_comm, add_shl_eq_xor h3]
  have hlow : clmul q (val w (dv.take (m - 1))) < 2 ^ (w * m) := by
    by_cases hm2 : m = 1
    · subst hm2
      simp only [Nat.sub_self, List.take_zero, val_nil, clmul_zero]
      exact Nat.two_pow_pos _
    · have hpos : 0 < w * (m - 1) := Nat.mul_pos hw (by omega)
      have := clmul_lt_pow hq h3 hw hpos
      refine Nat.lt_of_lt_of_le this (Nat.pow_le_pow_right (by omega) ?_)
      have : w * m = w + w * (m - 1) := by
        rw [show m = 1 + (m - 1) by omega, Nat.mul_add, Nat.mul_one]; simp
      omega
  have hpow : 2 ^ (w * m) = 2 ^ w * 2 ^ (w * (m - 1)) := by
    rw [← Nat.pow_add]; congr 1
    rw [show m = 1 + (m - 1) by omega, Nat.mul_add, Nat.mul_one]; simp
  rw [hdec, clmul_xor, clmul_shiftLeft, Nat.xor_div_two_pow, Nat.div_eq_of_lt hlow, Nat.xor_zero,
    Nat.shiftLeft_eq, hpow, Nat.mul_div_mul_right _ _ (Nat.two_pow_pos _)]

/-- the divident after one digit step with quotient word q -/
def digitD (w : Nat) (dv : List Nat) (k q : Nat) (d : List Nat) : List Nat :=
  let m := dv.length
  let r := ppAddMulW w ((d.drop k).take m) dv q
  xorAt (xorAt (d.take k ++ r.1 ++ d.drop (k + m)) (m + k) r.2) (m + k) q

theorem ppDivLoop_succ (w : Nat) (dv w1 w2 : List Nat) (k : Nat) (d : List Nat) :
    ppDivLoop w dv w1 w2 (k + 1) d
      = ((ppDivLoop w dv w1 w2 k (digitD w dv k (divDivS4 w w1 w2 (d.getD (dv.length + k) 0)) d)).1,
         (ppDivLoop w dv w1 w2 k (digitD w dv k (divDivS4 w w1 w2 (d.getD (dv.length + k) 0)) d)).2
           ++ [divDivS4 w w1 w2 (d.getD (dv.length + k) 0)]) := rfl

theorem Wf_drop {w : Nat} {a : List Nat} (h : Wf w a) (n : Nat) : Wf w (a.drop n) :=
  fun x hx => h x (List.mem_of_mem_drop hx)

theorem digitD_val {w : Nat} (hw : w = 16 ∨ w = 32 ∨ w = 64) (dv d : List Nat) (k q m : Nat)
    (hd : Wf w d) (hdv : Wf w dv) (hm : dv.length = m) (hk : m + k < d.length) (hq : q < 2 ^ w) :
    Wf w (digitD w dv k q d) ∧ (digitD w dv k q d).length = d.length
    ∧ val w (digitD w dv k q d)
        = val w d ^^^ (clmul q (2 ^ (w * m) ^^^ val w dv)) <<< (w * k) := by
  have hwin : Wf w ((d.drop k).take m) := Wf_take (Wf_drop hd k) m
  have hwl : ((d.drop k).take m).length = m := by
    rw [List.length_take, List.length_drop]; omega
  obtain ⟨s1, s2, s3, s4⟩ := PpMul.ppAddMulW_spec w (PpMul.Mul1OK_of_width hw) ((d.drop k).take m) dv q
    hwin hdv (by rw [hwl, hm]) hq
  rw [hwl] at s4
  have hsplit : d = d.take k ++ (d.drop k).take m ++ d.drop (k + m) := by
    rw [List.append_assoc, ← List.drop_drop, List.take_append_drop, List.take_append_drop]
  have hT : Wf w (d.take k) := Wf_take hd k
  have hTl : (d.take k).length = k := by rw [List.length_take]; omega
  have hWf1 : Wf w (d.take k ++ (ppAddMulW w ((d.drop k).take m) dv q).1) := Wf_append.2 ⟨hT, s3⟩
  have hWf1' : Wf w (d.take k ++ (d.drop k).take m) := Wf_append.2 ⟨hT, hwin⟩
  have hWfd1 : Wf w (d.take k ++ (ppAddMulW w ((d.drop k).take m) dv q).1 ++ d.drop (k + m)) :=
    Wf_append.2 ⟨hWf1, Wf_drop hd _⟩
  have hlen1 : (d.take k ++ (ppAddMulW w ((d.drop k).take m) dv q).1 ++ d.drop (k + m)).length
      = d.length := by
    rw [List.length_append, List.length_append, hTl, s4, List.length_drop]; omega
  obtain ⟨f1, f2, f3⟩ := val_xorAt _ (m + k) (ppAddMulW w ((d.drop k).take m) dv q).2 hWfd1
    (by omega) s2
  obtain ⟨g1, g2, g3⟩ := val_xorAt _ (m + k) q f1 (by omega) hq
  have hdef : digitD w dv k q d
      = xorAt (xorAt (d.take k ++ (ppAddMulW w ((d.drop k).take m) dv q).1 ++ d.drop (k + m)) (m + k)
          (ppAddMulW w ((d.drop k).take m) dv q).2) (m + k) q := by
    unfold digitD; rw [hm]
  rw [hdef]
  refine ⟨g1, by omega, ?_⟩
  -- values
  have hv1 : val w (d.take k ++ (ppAddMulW w ((d.drop k).take m) dv q).1 ++ d.drop (k + m))
      = val w (d.drop (k + m)) <<< (w * (k + m))
        ^^^ (val w (ppAddMulW w ((d.drop k).take m) dv q).1 <<< (w * k) ^^^ val w (d.take k)) := by
    rw [val_append_xor hWf1, val_append_xor hT, List.length_append, hTl, s4]
  have hv0 : val w d = val w (d.drop (k + m)) <<< (w * (k + m))
        ^^^ (val w ((d.drop k).take m) <<< (w * k) ^^^ val w (d.take k)) := by
    conv => lhs; rw [hsplit]
    rw [val_append_xor hWf1', val_append_xor hT, List.length_append, hTl, hwl]
  have hE : (ppAddMulW w ((d.drop k).take m) dv q).2 <<< (w * m)
      ^^^ val w (ppAddMulW w ((d.drop k).take m) dv q).1
      = val w ((d.drop k).take m) ^^^ clmul (val w dv) q := by
    rw [← s1, val_append_xor s3, s4, val_cons, val_nil]; simp
  have hE' : val w (ppAddMulW w ((d.drop k).take m) dv q).1
      = (val w ((d.drop k).take m) ^^^ clmul (val w dv) q)
        ^^^ (ppAddMulW w ((d.drop k).take m) dv q).2 <<< (w * m) := by
    rw [← hE, Nat.xor_comm (_ <<< _), xor_xor_cancel]
  rw [g3, f3, hv1, hv0, hE', clmul_xor, clmul_two_pow, clmul_comm (val w dv) q,
    Nat.shiftLeft_xor_distrib, Nat.shiftLeft_xor_distrib, Nat.shiftLeft_xor_distrib,
    ← Nat.shiftLeft_add, ← Nat.shiftLeft_add, show w * m + w * k = w * (m + k) by rw [Nat.mul_add]]
  generalize val w (d.drop (k + m)) <<< (w * (k + m)) = R
  generalize val w ((d.drop k).take m) <<< (w * k) = W
  generalize clmul q (val w dv) <<< (w * k) = C
  generalize (ppAddMulW w ((d.drop k).take m) dv q).2 <<< (w * (m + k)) = R2
  generalize val w (d.take k) = T
  generalize q <<< (w * (m + k)) = Q
  apply Nat.eq_of_testBit_eq
  intro i
  simp only [Nat.testBit_xor]
  cases R.testBit i <;> cases W.testBit i <;> cases C.testBit i <;> cases R2.testBit i <;>
    cases T.testBit i <;> cases Q.testBit i <;> rfl

theorem xor_rot3 (A R X : Nat) : (A ^^^ R) ^^^ X = (X ^^^ A) ^^^ R := by
  apply Nat.eq_of_testBit_eq
  intro i
  simp only [Nat.testBit_xor]
  cases A.testBit i <;> cases R.testBit i <;> cases X.testBit i <;> rfl

theorem width_facts {w : Nat} (hw : w = 16 ∨ w = 32 ∨ w = 64) : 4 ≤ w ∧ 4 ∣ w ∧ 0 < w := by
  rcases hw with rfl | rfl | rfl <;> exact ⟨by decide, by decide, by decide⟩

/-- with the trial quotient of `_DIV_DIV_S4` the top word of the divident is cancelled -/
theorem digitD_lt {w : Nat} (hw : w = 16 ∨ w = 32 ∨ w = 64) (dv d : List Nat) (k m : Nat)
    (hd : Wf w d) (hdv : Wf w dv) (hm : dv.length = m) (hm1 : 1 ≤ m) (hk : m + k < d.length)
    (hV : val w d < 2 ^ (w * (m + k + 1))) :
    divDivS4 w (divPreS4 w (dv.getD (m - 1) 0)) (mulPreS4 w (dv.getD (m - 1) 0)) (d.getD (m + k) 0) < 2 ^ w
    ∧ val w (digitD w dv k (divDivS4 w (divPreS4 w (dv.getD (m - 1) 0)) (mulPreS4 w (dv.getD (m - 1) 0))
        (d.getD (m + k) 0)) d) < 2 ^ (w * (m + k)) := by
  obtain ⟨hw4, hdvd, hw0⟩ := width_facts hw
  have ht := getD_lt hdv (m - 1)
  have hhi := getD_lt hd (m + k)
  obtain ⟨hq, hG⟩ := divDivS4_ok hw4 hdvd ht hhi
  refine ⟨hq, ?_⟩
  obtain ⟨_, _, g3⟩ := digitD_val hw dv d k _ m hd hdv hm hk hq
  rw [g3]
  generalize divDivS4 w (divPreS4 w (dv.getD (m - 1) 0)) (mulPreS4 w (dv.getD (m - 1) 0))
    (d.getD (m + k) 0) = q at hq hG ⊢
  have hhiV := getD_eq_div hd hk hV
  -- the quotient of the new value by x^(w(m+k)) vanishes
  have hdiv : (val w d ^^^ (clmul q (2 ^ (w * m) ^^^ val w dv)) <<< (w * k)) / 2 ^ (w * (m + k)) = 0 := by
    have hpow : 2 ^ (w * (m + k)) = 2 ^ (w * m) * 2 ^ (w * k) := by rw [Nat.mul_add, Nat.pow_add]
    rw [Nat.xor_div_two_pow, ← hhiV, Nat.shiftLeft_eq, hpow,
      Nat.mul_div_mul_right _ _ (Nat.two_pow_pos _), clmul_xor, clmul_two_pow, Nat.xor_div_two_pow,
      Nat.shiftLeft_eq, Nat.mul_div_cancel _ (Nat.two_pow_pos _), hi_clmul_top hdv hm hm1 hw0 hq]
    have : q ^^^ clmul q (dv.getD (m - 1) 0) / 2 ^ w = d.getD (m + k) 0 := hG
    rw [this, Nat.xor_self]
  rcases (Nat.div_eq_zero_iff).1 hdiv with h | h
  · exact absurd h (Nat.pos_iff_ne_zero.1 (Nat.two_pow_pos _))
  · exact h

theorem ppDivLoop_ok {w : Nat} (hw : w = 16 ∨ w = 32 ∨ w = 64) (dv : List Nat) (m L : Nat)
    (hdv : Wf w dv) (hm : dv.length = m) (hm1 : 1 ≤ m) :
    ∀ (K : Nat) (d : List Nat), Wf w d → d.length = L → m + K ≤ L → val w d < 2 ^ (w * (m + K)) →
      Wf w (ppDivLoop w dv (divPreS4 w (dv.getD (m - 1) 0)) (mulPreS4 w (dv.getD (m - 1) 0)) K d).1
      ∧ (ppDivLoop w dv (divPreS4 w (dv.getD (m - 1) 0)) (mulPreS4 w (dv.getD (m - 1) 0)) K d).1.length = L
      ∧ Wf w (ppDivLoop w dv (divPreS4 w (dv.getD (m - 1) 0)) (mulPreS4 w (dv.getD (m - 1) 0)) K d).2
      ∧ (ppDivLoop w dv (divPreS4 w (dv.getD (m - 1) 0)) (mulPreS4 w (dv.getD (m - 1) 0)) K d).2.length = K
      ∧ val w (ppDivLoop w dv (divPreS4 w (dv.getD (m - 1) 0)) (mulPreS4 w (dv.getD (m - 1) 0)) K d).1
          < 2 ^ (w * m)
      ∧ val w d = clmul (val w (ppDivLoop w dv (divPreS4 w (dv.getD (m - 1) 0))
            (mulPreS4 w (dv.getD (m - 1) 0)) K d).2) (2 ^ (w * m) ^^^ val w dv)
          ^^^ val w (ppDivLoop w dv (divPreS4 w (dv.getD (m - 1) 0)) (mulPreS4 w (dv.getD (m - 1) 0)) K d).1 := by
  intro K
  induction K with
  | zero =>
    intro d hd hl _ hV
    simp only [ppDivLoop, val_nil, zero_clmul, Nat.zero_xor, List.length_nil, true_and]
    exact ⟨hd, hl, Wf_nil w, by simpa using hV⟩
  | succ k ih =>
    intro d hd hl hle hV
    have hk : m + k < d.length := by omega
    obtain ⟨hq, hlt⟩ := digitD_lt hw dv d k m hd hdv hm hm1 hk (by rw [show m + k + 1 = m + (k + 1) by omega]; exact hV)
    obtain ⟨g1, g2, g3⟩ := digitD_val hw dv d k _ m hd hdv hm hk hq
    obtain ⟨i1, i2, i3, i4, i5, i6⟩ := ih _ g1 (by omega) (by omega) hlt
    rw [ppDivLoop_succ, hm]
    refine ⟨i1, i2, Wf_append.2 ⟨i3, Wf_cons.2 ⟨hq, Wf_nil w⟩⟩, by rw [List.length_append, i4]; rfl, i5, ?_⟩
    simp only []
    rw [val_append_xor i3, i4, val_cons, val_nil, Nat.mul_zero, Nat.add_zero, xor_clmul, shiftLeft_clmul]
    have hv : val w d = val w (digitD w dv k (divDivS4 w (divPreS4 w (dv.getD (m - 1) 0))
        (mulPreS4 w (dv.getD (m - 1) 0)) (d.getD (m + k) 0)) d)
        ^^^ (clmul (divDivS4 w (divPreS4 w (dv.getD (m - 1) 0))
        (mulPreS4 w (dv.getD (m - 1) 0)) (d.getD (m + k) 0)) (2 ^ (w * m) ^^^ val w dv)) <<< (w * k) := by
      rw [g3, xor_xor_cancel]
    rw [hv, i6]
    generalize (clmul (divDivS4 w (divPreS4 w (dv.getD (m - 1) 0))
        (mulPreS4 w (dv.getD (m - 1) 0)) (d.getD (m + k) 0)) (2 ^ (w * m) ^^^ val w dv)) <<< (w * k) = X
    exact xor_rot3 _ _ _


/-! ## normalisation on word lists -/

theorem val_toWords (w n v : Nat) : val w (toWords w n v) = v % 2 ^ (w * n) := by
  induction n generalizing v with
  | zero => simp [toWords, val, Nat.mod_one]
  | succ n ih =>
    rw [toWords, val_cons, ih, Nat.mul_succ, Nat.pow_add, Nat.mul_comm (2 ^ (w * n)), Nat.mod_mul]

theorem log2_add_mul {x y p : Nat} (hx : x < 2 ^ p) (hy : y ≠ 0) :
    (x + 2 ^ p * y).log2 = p + y.log2 := by
  have h1 := Nat.log2_self_le hy
  have h2 := @Nat.lt_log2_self y
  have hne : x + 2 ^ p * y ≠ 0 := by
    have : 0 < 2 ^ p * y := Nat.mul_pos (Nat.two_pow_pos p) (by omega)
    omega
  apply (Nat.log2_eq_iff hne).2
  constructor
  · rw [Nat.pow_add]
    exact Nat.le_trans (Nat.mul_le_mul_left _ h1) (Nat.le_add_left _ _)
  · rw [show p + y.log2 + 1 = p + (y.log2 + 1) by omega, Nat.pow_add]
    have : 2 ^ p * (y + 1) ≤ 2 ^ p * 2 ^ (y.log2 + 1) := Nat.mul_le_mul_left _ h2
    rw [Nat.mul_add, Nat.mul_one] at this
    omega

/-- a number with a non-zero top word: value split and degree -/
theorem val_top {w : Nat} {b : List Nat} (hb : Wf w b) {m : Nat} (hm : b.length = m) (hm1 : 1 ≤ m) :
    val w b = val w (b.take (m - 1)) + 2 ^ (w * (m - 1)) * b.getD (m - 1) 0
    ∧ val w (b.take (m - 1)) < 2 ^ (w * (m - 1)) := by
  have h1 := val_take_succ_add (w := w) (a := b) (m - 1) (by omega)
  rw [show m - 1 + 1 = m by omega, ← hm, List.take_length, hm] at h1
  have h3 := val_lt (Wf_take hb (m - 1))
  rw [List.length_take, Nat.min_eq_left (by omega)] at h3
  exact ⟨h1, h3⟩

theorem log2_val_top {w : Nat} {b : List Nat} (hb : Wf w b) {m : Nat} (hm : b.length = m) (hm1 : 1 ≤ m)
    (htop : b.getD (m - 1) 0 ≠ 0) :
    (val w b).log2 = w * (m - 1) + (b.getD (m - 1) 0).log2 := by
  obtain ⟨h1, h2⟩ := val_top hb hm hm1
  rw [h1]; exact log2_add_mul h2 htop

/-- the normalisation shift of ppDiv -/
theorem shift_eq {w tb : Nat} (htb0 : tb ≠ 0) (htb : tb < 2 ^ w) :
    (ppBitSize tb - 1) % w = tb.log2 := by
  unfold ppBitSize
  rw [if_neg htb0, Nat.add_sub_cancel]
  exact Nat.mod_eq_of_lt ((Nat.log2_lt htb0).2 htb)

theorem toWords_take (w n m v : Nat) (h : m ≤ n) : (toWords w n v).take m = toWords w m v := by
  induction m generalizing n v with
  | zero => simp [toWords]
  | succ m ih =>
    obtain ⟨k, rfl⟩ : ∃ k, n = k + 1 := ⟨n - 1, by omega⟩
    simp only [toWords, List.take_succ_cons, ih k _ (by omega)]

theorem pdivmod_eq_of {a b q r : Nat} (hb : b ≠ 0) (h : a = clmul q b ^^^ r) (hr : r < 2 ^ b.log2) :
    pdivmod a b = (q, r) := by
  obtain ⟨h1, h2⟩ := pdivmod_spec a b hb
  obtain ⟨e1, e2⟩ := divmod_unique hb h2 hr (h1.trans h)
  exact Prod.ext e1 e2

theorem Wf_zero1 (w : Nat) : Wf w [0] := Wf_cons.2 ⟨Nat.two_pow_pos w, Wf_nil w⟩

/-- the main branch of ppDiv / ppMod -/
theorem ppDivCore_ok {w : Nat} (hw : w = 16 ∨ w = 32 ∨ w = 64) (a b : List Nat) (extra : Nat)
    (hex : extra ≤ 1) (ha : Wf w a) (hb : Wf w b) (hnm : b.length ≤ a.length) (hm1 : 1 ≤ b.length)
    (htop : b.getD (b.length - 1) 0 ≠ 0) (hne1 : ¬ (b.length = 1 ∧ b.getD 0 0 = 1)) :
    val w (ppDivCore w a b extra).2 = (pdivmod (val w a) (val w b)).2
    ∧ (ppDivCore w a b extra).2.length = b.length ∧ Wf w (ppDivCore w a b extra).2
    ∧ (extra = 0 → val w (ppDivCore w a b extra).1 = (pdivmod (val w a) (val w b)).1
        ∧ (ppDivCore w a b extra).1.length = a.length - b.length + 1
        ∧ Wf w (ppDivCore w a b extra).1) := by
  obtain ⟨hw4, hdvd, hw0⟩ := width_facts hw
  have htb := getD_lt hb (b.length - 1)
  have hlogb := log2_val_top hb rfl hm1 htop
  obtain ⟨hvb, hvb2⟩ := val_top hb rfl hm1
  have hb0 : val w b ≠ 0 := by
    have : 0 < 2 ^ (w * (b.length - 1)) * b.getD (b.length - 1) 0 :=
      Nat.mul_pos (Nat.two_pow_pos _) (by omega)
    omega
  have hlogtb : (b.getD (b.length - 1) 0).log2 < w := (Nat.log2_lt htop).2 htb
  have hd0 : Wf w (a ++ [0]) := Wf_append.2 ⟨ha, Wf_zero1 w⟩
  have hd0l : (a ++ [0]).length = a.length + 1 := by simp
  have hd0v : val w (a ++ [0]) = val w a := by rw [PpRed.val_append]; simp [val]
  have hva := val_lt ha
  unfold ppDivCore
  dsimp only
  rw [shift_eq htop htb]
  split
  · -- shift == 0: the top word is 1
    rename_i hs
    have htb1 : b.getD (b.length - 1) 0 = 1 := by
      have := (Nat.log2_lt htop).1 (by omega : (b.getD (b.length - 1) 0).log2 < 1)
      omega
    have hm2 : 2 ≤ b.length := by
      by_cases h1 : b.length = 1
      · exfalso; apply hne1; refine ⟨h1, ?_⟩; rw [h1] at htb1; exact htb1
      · omega
    have hdv : Wf w (b.take (b.length - 1)) := Wf_take hb _
    have hdvl : (b.take (b.length - 1)).length = b.length - 1 := by rw [List.length_take]; omega
    have hB : 2 ^ (w * (b.length - 1)) ^^^ val w (b.take (b.length - 1)) = val w b := by
      rw [hvb, htb1, Nat.add_comm, add_shl_eq_xor hvb2, Nat.one_shiftLeft]
    obtain ⟨i1, i2, i3, i4, i5, i6⟩ := ppDivLoop_ok hw (b.take (b.length - 1)) (b.length - 1)
      (a.length + 1) hdv hdvl (by omega) (a.length - b.length + 1 + extra) (a ++ [0]) hd0 hd0l (by omega)
      (by rw [hd0v]; exact Nat.lt_of_lt_of_le hva (Nat.pow_le_pow_right (by omega)
            (Nat.mul_le_mul_left w (by omega))))
    rw [show b.length - 1 - 1 = b.length - 2 by omega] at i1 i2 i3 i4 i5 i6
    rw [hB, hd0v] at i6
    have hlog : (val w b).log2 = w * (b.length - 1) := by rw [hlogb, htb1]; simp [Nat.log2_def]
    have hpd := pdivmod_eq_of hb0 i6 (by rw [hlog]; exact i5)
    rw [hpd]
    have hrv : val w ((ppDivLoop w (b.take (b.length - 1))
        (divPreS4 w ((b.take (b.length - 1)).getD (b.length - 2) 0))
        (mulPreS4 w ((b.take (b.length - 1)).getD (b.length - 2) 0))
        (a.length - b.length + 1 + extra) (a ++ [0])).1.take (b.length - 1) ++ [0])
        = val w (ppDivLoop w (b.take (b.length - 1))
        (divPreS4 w ((b.take (b.length - 1)).getD (b.length - 2) 0))
        (mulPreS4 w ((b.take (b.length - 1)).getD (b.length - 2) 0))
        (a.length - b.length + 1 + extra) (a ++ [0])).1 := by
      rw [PpRed.val_append, val_take i1 _ (by omega), Nat.mod_eq_of_lt i5]; simp [val]
    refine ⟨hrv, ?_, Wf_append.2 ⟨Wf_take i1 _, Wf_zero1 w⟩, ?_⟩
    · rw [List.length_append, List.length_take, i2]; simp; omega
    · intro he
      subst he
      dsimp only
      rw [List.take_of_length_le (by rw [i4])]
      exact ⟨rfl, by rw [i4], i3⟩
  · -- shift != 0
    rename_i hs
    have hsh1 : w - (b.getD (b.length - 1) 0).log2 ≤ w := Nat.sub_le _ _
    have hwm : w * b.length = w * (b.length - 1) + w := by
      conv => lhs; rw [show b.length = (b.length - 1) + 1 by omega, Nat.mul_succ]
    generalize hshd : w - (b.getD (b.length - 1) 0).log2 = sh at hsh1 ⊢
    -- the normalised divisor has its top bit at position w·m
    have hXne : val w b * 2 ^ sh ≠ 0 := Nat.mul_ne_zero hb0 (Nat.pos_iff_ne_zero.1 (Nat.two_pow_pos _))
    have hXlog : (val w b * 2 ^ sh).log2 = w * b.length := by
      rw [log2_mul_two_pow hb0, hlogb]; omega
    obtain ⟨hXlo, hXhi⟩ := (Nat.log2_eq_iff hXne).1 hXlog
    have hXdiv : val w b * 2 ^ sh / 2 ^ (w * b.length) = 1 :=
      Nat.div_eq_of_lt_le (by omega) (by rw [Nat.pow_succ] at hXhi; omega)
    have hdvv := val_toWords w b.length (val w b * 2 ^ sh)
    have hB : 2 ^ (w * b.length) ^^^ val w (toWords w b.length (val w b * 2 ^ sh)) = val w b * 2 ^ sh := by
      have h1 := add_shl_eq_xor (a := 1) (b := val w b * 2 ^ sh % 2 ^ (w * b.length)) (i := w * b.length)
        (Nat.mod_lt _ (Nat.two_pow_pos _))
      rw [Nat.one_shiftLeft, Nat.mul_one] at h1
      rw [hdvv, ← h1]
      conv => rhs; rw [← Nat.div_add_mod (val w b * 2 ^ sh) (2 ^ (w * b.length)), hXdiv, Nat.mul_one]
    have hdv' : val w (toWords w (a.length + 1) (val w (a ++ [0]) * 2 ^ sh)) = val w a * 2 ^ sh := by
      rw [val_toWords, hd0v]
      apply Nat.mod_eq_of_lt
      have h1 : val w a * 2 ^ sh < 2 ^ (w * a.length) * 2 ^ sh :=
        Nat.mul_lt_mul_of_pos_right hva (Nat.two_pow_pos _)
      have h2 : 2 ^ (w * a.length) * 2 ^ sh ≤ 2 ^ (w * a.length) * 2 ^ w :=
        Nat.mul_le_mul_left _ (Nat.pow_le_pow_right (by omega) hsh1)
      rw [Nat.mul_succ, Nat.pow_add]
      omega
    obtain ⟨i1, i2, i3, i4, i5, i6⟩ := ppDivLoop_ok hw (toWords w b.length (val w b * 2 ^ sh)) b.length
      (a.length + 1) (toWords_Wf w _ _) (toWords_length w _ _) hm1 (a.length - b.length + 1)
      (toWords w (a.length + 1) (val w (a ++ [0]) * 2 ^ sh)) (toWords_Wf w _ _) (toWords_length w _ _)
      (by omega)
      (by rw [show b.length + (a.length - b.length + 1) = a.length + 1 by omega]
          have := val_lt (toWords_Wf w (a.length + 1) (val w (a ++ [0]) * 2 ^ sh))
          rwa [toWords_length] at this)
    rw [hB, hdv'] at i6
    have hpd := pdivmod_eq_of hXne i6 (by rw [hXlog]; exact i5)
    have hshift := pdivmod_shift (val w a) (val w b) sh hb0
    rw [Nat.shiftLeft_eq, Nat.shiftLeft_eq, hpd] at hshift
    have hq0 := congrArg Prod.fst hshift
    have hr0 := congrArg Prod.snd hshift
    simp only at hq0 hr0
    have hrlt : (pdivmod (val w a) (val w b)).2 < 2 ^ (w * b.length) := by
      refine Nat.lt_of_lt_of_le (pdivmod_spec (val w a) (val w b) hb0).2 (Nat.pow_le_pow_right (by omega) ?_)
      rw [hlogb]; omega
    have hrv : val w (ppDivLoop w (toWords w b.length (val w b * 2 ^ sh))
        (divPreS4 w ((toWords w b.length (val w b * 2 ^ sh)).getD (b.length - 1) 0))
        (mulPreS4 w ((toWords w b.length (val w b * 2 ^ sh)).getD (b.length - 1) 0))
        (a.length - b.length + 1) (toWords w (a.length + 1) (val w (a ++ [0]) * 2 ^ sh))).1 / 2 ^ sh
        = (pdivmod (val w a) (val w b)).2 := by
      rw [hr0, Nat.shiftLeft_eq, Nat.mul_div_cancel _ (Nat.two_pow_pos _)]
    rw [toWords_take w _ _ _ (by omega), hrv, val_toWords, Nat.mod_eq_of_lt hrlt]
    refine ⟨rfl, toWords_length w _ _, toWords_Wf w _ _, fun _ => ⟨hq0, i4, i3⟩⟩


/-! ## ppDiv / ppMod -/

theorem Wf_replicate_zero (w k : Nat) : Wf w (List.replicate k 0) := by
  intro x hx
  rw [List.eq_of_mem_replicate hx]; exact Nat.two_pow_pos w

theorem val_one_of {w : Nat} {b : List Nat} (h1 : b.length = 1) (h2 : b.getD 0 0 = 1) : val w b = 1 := by
  match b, h1 with
  | [x], _ => simp at h2; subst h2; simp [val]

theorem pdivmod_one (x : Nat) : pdivmod x 1 = (x, 0) :=
  pdivmod_eq_of (by decide) (by rw [clmul_one, Nat.xor_zero]) (Nat.two_pow_pos _)

/-- a dividend with fewer words than the divisor takes the `deg a < deg b` shortcut -/
theorem small_of_short {w : Nat} {a b : List Nat} (ha : Wf w a) (hb : Wf w b) (hm1 : 1 ≤ b.length)
    (htop : b.getD (b.length - 1) 0 ≠ 0) (hlt : a.length < b.length) :
    ppBitSize (val w a) < ppBitSize (val w b) := by
  have hva := val_lt ha
  have hlogb := log2_val_top hb rfl hm1 htop
  obtain ⟨hvb, _⟩ := val_top hb rfl hm1
  have hb0 : val w b ≠ 0 := by
    have : 0 < 2 ^ (w * (b.length - 1)) * b.getD (b.length - 1) 0 :=
      Nat.mul_pos (Nat.two_pow_pos _) (by omega)
    omega
  have hle : w * a.length ≤ w * (b.length - 1) := Nat.mul_le_mul_left w (by omega)
  unfold ppBitSize
  rw [if_neg hb0]
  by_cases ha0 : val w a = 0
  · rw [if_pos ha0]; omega
  · rw [if_neg ha0]
    have : (val w a).log2 < w * a.length := (Nat.log2_lt ha0).2 hva
    omega

theorem ppDiv_ok {w : Nat} (hw : w = 16 ∨ w = 32 ∨ w = 64) (a b : List Nat) (ha : Wf w a) (hb : Wf w b)
    (hnm : b.length ≤ a.length) (hm1 : 1 ≤ b.length) (htop : b.getD (b.length - 1) 0 ≠ 0) :
    pdivmod (val w a) (val w b) = (val w (ppDiv w a b).1, val w (ppDiv w a b).2)
    ∧ (ppDiv w a b).1.length = a.length - b.length + 1 ∧ (ppDiv w a b).2.length = b.length
    ∧ Wf w (ppDiv w a b).1 ∧ Wf w (ppDiv w a b).2 := by
  by_cases hlt : ppBitSize (val w a) < ppBitSize (val w b)
  · obtain ⟨h1, h2⟩ := ppDiv_small a b ha hb hnm hlt
    obtain ⟨hy, hx⟩ := lt_of_bitSize_lt hlt
    rw [h1]
    dsimp only
    rw [val_replicate_zero, h2, pdivmod_eq_of hy (by rw [zero_clmul, Nat.zero_xor]) hx]
    refine ⟨rfl, by simp, by rw [List.length_take]; omega, Wf_replicate_zero w _, Wf_take ha _⟩
  · by_cases hone : b.length = 1 ∧ b.getD 0 0 = 1
    · have h1 : ppDiv w a b = (a, [0]) := by
        unfold ppDiv; simp only [if_neg hlt, if_pos hone]
      rw [h1, val_one_of hone.1 hone.2, pdivmod_one]
      dsimp only
      refine ⟨by simp [val], by omega, by simp [hone.1], ha, Wf_zero1 w⟩
    · have h1 : ppDiv w a b = ppDivCore w a b 0 := by
        unfold ppDiv; simp only [if_neg hlt, if_neg hone]
      rw [h1]
      obtain ⟨c1, c2, c3, c4⟩ := ppDivCore_ok hw a b 0 (by omega) ha hb hnm hm1 htop hone
      obtain ⟨c5, c6, c7⟩ := c4 rfl
      exact ⟨Prod.ext c5.symm c1.symm, c6, c2, c7, c3⟩

theorem ppMod_ok {w : Nat} (hw : w = 16 ∨ w = 32 ∨ w = 64) (a b : List Nat) (ha : Wf w a) (hb : Wf w b)
    (hm1 : 1 ≤ b.length) (htop : b.getD (b.length - 1) 0 ≠ 0) :
    val w (ppMod w a b) = pmod (val w a) (val w b)
    ∧ (ppMod w a b).length = b.length ∧ Wf w (ppMod w a b) := by
  by_cases hlt : ppBitSize (val w a) < ppBitSize (val w b)
  · obtain ⟨h1, h2⟩ := ppMod_small a b ha hb hlt
    obtain ⟨hy, hx⟩ := lt_of_bitSize_lt hlt
    refine ⟨by rw [h1, pmod_of_lt hy hx], h2, ?_⟩
    unfold ppMod
    simp only [if_pos hlt]
    split
    · exact Wf_append.2 ⟨ha, Wf_replicate_zero w _⟩
    · exact Wf_take ha _
  · have hnm : b.length ≤ a.length := by
      by_cases h : b.length ≤ a.length
      · exact h
      · exact absurd (small_of_short ha hb hm1 htop (by omega)) hlt
    by_cases hone : b.length = 1 ∧ b.getD 0 0 = 1
    · have h1 : ppMod w a b = [0] := by
        unfold ppMod; simp only [if_neg hlt, if_pos hone]
      rw [h1, val_one_of hone.1 hone.2, pmod_one]
      exact ⟨by simp [val], by simp [hone.1], Wf_zero1 w⟩
    · have h1 : ppMod w a b = (ppDivCore w a b 1).2 := by
        unfold ppMod; simp only [if_neg hlt, if_neg hone]
      rw [h1]
      obtain ⟨c1, c2, c3, _⟩ := ppDivCore_ok hw a b 1 (by omega) ha hb hnm hm1 htop hone
      exact ⟨c1, c2, c3⟩


end Bee2V.C05.PpDiv

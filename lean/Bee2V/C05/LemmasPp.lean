/-
C05 — lemmas about the Nat-coded GF(2)[x] specification (`Spec.clmul`, `pdivmod`, `pgcd`) and
about the value-level models of pp_gcd.c / pp_mod.c (ModelPp.lean).

§1 bits: xor / doubling / halving
§2 `mulR`: carry-less multiplication by binary recursion on the second argument; ring laws
§3 `Spec.clmul = mulR`
§4 degree (`Nat.log2`), parity
-/
import Bee2V.C05.ModelPp
namespace Bee2V.C05.Pp
open Bee2V.C05 Bee2V.C05.Spec

/-! ## §1 bits -/

theorem xor_left_comm (x y z : Nat) : x ^^^ (y ^^^ z) = y ^^^ (x ^^^ z) := by
  rw [← Nat.xor_assoc, Nat.xor_comm x y, Nat.xor_assoc]

theorem two_mul_xor (x y : Nat) : 2 * (x ^^^ y) = 2 * x ^^^ 2 * y := by
  have := @Nat.shiftLeft_xor_distrib 1 x y
  simpa [Nat.shiftLeft_eq, Nat.mul_comm] using this

theorem bit_decomp (x : Nat) : 2 * (x / 2) ^^^ x % 2 = x := by
  apply Nat.eq_of_testBit_eq
  intro i
  cases i with
  | zero =>
    simp only [Nat.testBit_zero, Nat.xor_mod_two_eq_one]
    have := Nat.mod_two_eq_zero_or_one x
    rcases this with h | h <;> simp [h, Nat.mul_mod_right]
  | succ i =>
    rw [Nat.testBit_succ, Nat.testBit_succ, Nat.xor_div_two]
    have h1 : 2 * (x / 2) / 2 = x / 2 := by omega
    have h2 : x % 2 / 2 = 0 := by omega
    rw [h1, h2, Nat.xor_zero]

theorem xor4_swap (a b c d : Nat) : (a ^^^ b) ^^^ (c ^^^ d) = (a ^^^ c) ^^^ (b ^^^ d) := by
  simp only [Nat.xor_assoc]
  congr 1
  rw [xor_left_comm]

theorem xor_cancel_left {x y z : Nat} (h : x ^^^ y = x ^^^ z) : y = z := by
  have := congrArg (fun t => x ^^^ t) h
  simpa [← Nat.xor_assoc] using this

theorem xor_eq_zero_iff {x y : Nat} : x ^^^ y = 0 ↔ x = y := by
  constructor
  · intro h
    have : x ^^^ (x ^^^ y) = x ^^^ 0 := by rw [h]
    simpa [← Nat.xor_assoc] using this.symm
  · intro h; rw [h, Nat.xor_self]

/-! ## §2 carry-less multiplication by binary recursion -/

/-- `a · b` over GF(2): `a·b = (b₀ ? a : 0) + (x a)·(b / x)` -/
def mulR (a b : Nat) : Nat :=
  if b = 0 then 0 else (if b % 2 = 1 then a else 0) ^^^ mulR (2 * a) (b / 2)
termination_by b
decreasing_by omega

theorem mulR_zero (a : Nat) : mulR a 0 = 0 := by rw [mulR]; simp

theorem mulR_step (a b : Nat) :
    mulR a b = (if b % 2 = 1 then a else 0) ^^^ mulR (2 * a) (b / 2) := by
  by_cases hb : b = 0
  · subst hb; simp [mulR_zero]
  · rw [mulR, if_neg hb]

theorem mulR_two_mul_left (a b : Nat) : mulR (2 * a) b = 2 * mulR a b := by
  induction b using Nat.strongRecOn generalizing a with
  | _ b ih =>
    by_cases hb : b = 0
    · subst hb; simp [mulR_zero]
    · rw [mulR_step (2 * a) b, mulR_step a b, ih (b / 2) (by omega) (2 * a), two_mul_xor]
      split <;> simp

theorem mulR_step' (a b : Nat) :
    mulR a b = (if b % 2 = 1 then a else 0) ^^^ 2 * mulR a (b / 2) := by
  rw [mulR_step, mulR_two_mul_left]

theorem mulR_two_mul_right (a b : Nat) : mulR a (2 * b) = 2 * mulR a b := by
  rw [mulR_step']
  have h1 : 2 * b % 2 = 0 := by omega
  have h2 : 2 * b / 2 = b := by omega
  simp [h1, h2]

theorem mulR_one (a : Nat) : mulR a 1 = a := by
  rw [mulR_step]; simp [mulR_zero]

theorem zero_mulR (b : Nat) : mulR 0 b = 0 := by
  induction b using Nat.strongRecOn with
  | _ b ih =>
    by_cases hb : b = 0
    · subst hb; exact mulR_zero 0
    · rw [mulR_step', ih (b / 2) (by omega)]; simp

theorem one_mulR (b : Nat) : mulR 1 b = b := by
  induction b using Nat.strongRecOn with
  | _ b ih =>
    by_cases hb : b = 0
    · subst hb; exact mulR_zero 1
    · rw [mulR_step', ih (b / 2) (by omega)]
      have := bit_decomp b
      rcases Nat.mod_two_eq_zero_or_one b with h | h
      · rw [h] at this; simp [h]; simpa using this
      · rw [h] at this; simp only [h, if_true]; rw [Nat.xor_comm]; exact this

theorem xor_mulR (a a' b : Nat) : mulR (a ^^^ a') b = mulR a b ^^^ mulR a' b := by
  induction b using Nat.strongRecOn with
  | _ b ih =>
    by_cases hb : b = 0
    · subst hb; simp [mulR_zero]
    · rw [mulR_step' (a ^^^ a') b, mulR_step' a b, mulR_step' a' b, ih (b / 2) (by omega),
        two_mul_xor]
      split
      · simp only [Nat.xor_assoc]
        congr 1
        rw [xor_left_comm]
      · simp

theorem ite_xor_parity (a b c : Nat) :
    (if (b ^^^ c) % 2 = 1 then a else 0)
      = (if b % 2 = 1 then a else 0) ^^^ (if c % 2 = 1 then a else 0) := by
  rcases Nat.mod_two_eq_zero_or_one b with h | h <;>
    rcases Nat.mod_two_eq_zero_or_one c with h' | h' <;>
    simp [Nat.xor_mod_two_eq_one, h, h']

theorem mulR_xor (a b c : Nat) : mulR a (b ^^^ c) = mulR a b ^^^ mulR a c := by
  induction b using Nat.strongRecOn generalizing c with
  | _ b ih =>
    by_cases hb : b = 0
    · subst hb; simp [mulR_zero]
    · rw [mulR_step' a (b ^^^ c), mulR_step' a b, mulR_step' a c, Nat.xor_div_two,
        ih (b / 2) (by omega), two_mul_xor, ite_xor_parity]
      simp only [Nat.xor_assoc]
      congr 1
      rw [xor_left_comm]

theorem mulR_comm (a b : Nat) : mulR a b = mulR b a := by
  induction b using Nat.strongRecOn generalizing a with
  | _ b ih =>
    by_cases hb : b = 0
    · subst hb; rw [mulR_zero, zero_mulR]
    · have hd := bit_decomp b
      have h2 : mulR b a = mulR (2 * (b / 2) ^^^ b % 2) a := by rw [hd]
      rw [h2, xor_mulR, mulR_two_mul_left, mulR_step' a b, ih (b / 2) (by omega), Nat.xor_comm]
      congr 1
      rcases Nat.mod_two_eq_zero_or_one b with h | h
      · simp [h, zero_mulR]
      · simp [h, one_mulR]

theorem mulR_assoc (a b c : Nat) : mulR (mulR a b) c = mulR a (mulR b c) := by
  induction c using Nat.strongRecOn with
  | _ c ih =>
    by_cases hc : c = 0
    · subst hc; simp [mulR_zero]
    · rw [mulR_step' (mulR a b) c, ih (c / 2) (by omega), mulR_step' b c, mulR_xor,
        mulR_two_mul_right]
      congr 1
      split
      · rfl
      · exact (mulR_zero a).symm

theorem mulR_two_pow (a k : Nat) : mulR a (2 ^ k) = a <<< k := by
  induction k with
  | zero => simp [mulR_one]
  | succ k ih =>
    rw [Nat.pow_succ, Nat.mul_comm, mulR_two_mul_right, ih, Nat.shiftLeft_succ]

/-! ## §3 the specification `Spec.clmul` is `mulR` -/

/-- the fold step of `Spec.clmul` -/
def cstep (a b : Nat) (r i : Nat) : Nat := if b.testBit i then r ^^^ (a <<< i) else r

theorem foldl_cstep_init (a b : Nat) (l : List Nat) (r : Nat) :
    l.foldl (cstep a b) r = r ^^^ l.foldl (cstep a b) 0 := by
  induction l generalizing r with
  | nil => simp
  | cons i l ih =>
    rw [List.foldl_cons, List.foldl_cons, ih (cstep a b r i), ih (cstep a b 0 i)]
    unfold cstep
    split
    · simp [Nat.xor_assoc]
    · simp

theorem cstep_succ (a b r i : Nat) : cstep a b r (i + 1) = cstep (2 * a) (b / 2) r i := by
  unfold cstep
  rw [Nat.testBit_succ]
  have : a <<< (i + 1) = (2 * a) <<< i := by
    simp only [Nat.shiftLeft_eq, Nat.pow_succ]
    rw [Nat.mul_comm 2 a, Nat.mul_assoc, Nat.mul_comm 2 (2 ^ i)]
  rw [this]

theorem foldl_cstep_eq (n : Nat) : ∀ (a b : Nat), b < 2 ^ n →
    (List.range n).foldl (cstep a b) 0 = mulR a b := by
  induction n with
  | zero => intro a b hb; have : b = 0 := by simpa using hb
            subst this; simp [mulR_zero]
  | succ n ih =>
    intro a b hb
    rw [List.range_succ_eq_map, List.foldl_cons, List.foldl_map]
    have hf : (fun r i => cstep a b r (Nat.succ i)) = cstep (2 * a) (b / 2) := by
      funext r i; exact cstep_succ a b r i
    rw [hf, foldl_cstep_init, ih (2 * a) (b / 2) (by rw [Nat.pow_succ] at hb; omega), mulR_step a b]
    congr 1
    unfold cstep
    simp [Nat.testBit_zero]

theorem clmul_eq_mulR (a b : Nat) : clmul a b = mulR a b := by
  unfold clmul
  by_cases hb : b = 0
  · subst hb; simp [mulR_zero]
  · rw [if_neg hb]
    exact foldl_cstep_eq (b.log2 + 1) a b Nat.lt_log2_self

/-! ### ring laws for `clmul` -/

theorem clmul_zero (a : Nat) : clmul a 0 = 0 := by rw [clmul_eq_mulR, mulR_zero]
theorem zero_clmul (b : Nat) : clmul 0 b = 0 := by rw [clmul_eq_mulR, zero_mulR]
theorem clmul_one (a : Nat) : clmul a 1 = a := by rw [clmul_eq_mulR, mulR_one]
theorem one_clmul (b : Nat) : clmul 1 b = b := by rw [clmul_eq_mulR, one_mulR]
theorem clmul_comm (a b : Nat) : clmul a b = clmul b a := by
  rw [clmul_eq_mulR, clmul_eq_mulR, mulR_comm]
theorem clmul_assoc (a b c : Nat) : clmul (clmul a b) c = clmul a (clmul b c) := by
  simp only [clmul_eq_mulR, mulR_assoc]
theorem clmul_xor (a b c : Nat) : clmul a (b ^^^ c) = clmul a b ^^^ clmul a c := by
  simp only [clmul_eq_mulR, mulR_xor]
theorem xor_clmul (a b c : Nat) : clmul (a ^^^ b) c = clmul a c ^^^ clmul b c := by
  simp only [clmul_eq_mulR, xor_mulR]
theorem clmul_two_pow (a k : Nat) : clmul a (2 ^ k) = a <<< k := by
  rw [clmul_eq_mulR, mulR_two_pow]
theorem two_pow_clmul (a k : Nat) : clmul (2 ^ k) a = a <<< k := by
  rw [clmul_comm, clmul_two_pow]
theorem clmul_two (a : Nat) : clmul a 2 = 2 * a := by
  have := clmul_two_pow a 1
  simpa [Nat.shiftLeft_eq, Nat.mul_comm] using this
theorem clmul_two_mul (a b : Nat) : clmul a (2 * b) = 2 * clmul a b := by
  simp only [clmul_eq_mulR, mulR_two_mul_right]
theorem two_mul_clmul (a b : Nat) : clmul (2 * a) b = 2 * clmul a b := by
  simp only [clmul_eq_mulR, mulR_two_mul_left]

theorem shiftLeft_clmul (a b s : Nat) : clmul (a <<< s) b = clmul a b <<< s := by
  rw [← clmul_two_pow a s, ← clmul_two_pow (clmul a b) s, clmul_assoc, clmul_assoc,
    clmul_comm (2 ^ s) b]

/-! ## §4 parity and degree -/

theorem xor_mod_two (x y : Nat) : (x ^^^ y) % 2 = (x % 2 + y % 2) % 2 := by
  have h := @Nat.xor_mod_two_eq_one x y
  rcases Nat.mod_two_eq_zero_or_one x with hx | hx <;>
    rcases Nat.mod_two_eq_zero_or_one y with hy | hy <;>
    rcases Nat.mod_two_eq_zero_or_one (x ^^^ y) with hz | hz <;>
    simp [hx, hy, hz] at h ⊢

theorem clmul_mod_two (a b : Nat) : clmul a b % 2 = (a % 2) * (b % 2) := by
  rw [clmul_eq_mulR, mulR_step', xor_mod_two]
  rcases Nat.mod_two_eq_zero_or_one b with hb | hb
  · simp [hb]
  · simp [hb]

/-- xor with something of smaller degree keeps the degree -/
theorem log2_xor_of_lt {x y : Nat} (hy : y ≠ 0) (hx : x < 2 ^ y.log2) :
    x ^^^ y ≠ 0 ∧ (x ^^^ y).log2 = y.log2 := by
  have hbit : (x ^^^ y).testBit y.log2 = true := by
    rw [Nat.testBit_xor, Nat.testBit_lt_two_pow hx, Nat.testBit_log2 hy]; rfl
  have hge := Nat.ge_two_pow_of_testBit hbit
  have hpos : 0 < 2 ^ y.log2 := Nat.two_pow_pos _
  have hne : x ^^^ y ≠ 0 := by omega
  refine ⟨hne, (Nat.log2_eq_iff hne).2 ⟨hge, ?_⟩⟩
  apply Nat.xor_lt_two_pow
  · rw [Nat.pow_succ]; omega
  · exact Nat.lt_log2_self

theorem log2_mulR {a : Nat} (ha : a ≠ 0) (b : Nat) (hb : b ≠ 0) :
    mulR a b ≠ 0 ∧ (mulR a b).log2 = a.log2 + b.log2 := by
  induction b using Nat.strongRecOn with
  | _ b ih =>
    by_cases h1 : b = 1
    · subst h1
      have h10 : Nat.log2 1 = 0 := by simpa using @Nat.log2_two_pow 0
      rw [mulR_one, h10]; exact ⟨ha, rfl⟩
    · have hb2 : b / 2 ≠ 0 := by omega
      obtain ⟨hX, hXl⟩ := ih (b / 2) (by omega) hb2
      have hlb : b.log2 = (b / 2).log2 + 1 := by
        rw [Nat.log2_def b, if_pos (by omega)]
      have hY : 2 * mulR a (b / 2) ≠ 0 := by omega
      have hYl : (2 * mulR a (b / 2)).log2 = a.log2 + b.log2 := by
        rw [Nat.log2_two_mul hX, hXl, hlb]; omega
      rw [mulR_step']
      split
      · have hlt : a < 2 ^ (2 * mulR a (b / 2)).log2 := by
          rw [hYl]
          calc a < 2 ^ (a.log2 + 1) := Nat.lt_log2_self
            _ ≤ 2 ^ (a.log2 + b.log2) := Nat.pow_le_pow_right (by omega) (by omega)
        obtain ⟨h1, h2⟩ := log2_xor_of_lt hY hlt
        exact ⟨h1, by rw [h2, hYl]⟩
      · rw [Nat.zero_xor]; exact ⟨hY, hYl⟩

theorem clmul_ne_zero {a b : Nat} (ha : a ≠ 0) (hb : b ≠ 0) : clmul a b ≠ 0 := by
  rw [clmul_eq_mulR]; exact (log2_mulR ha b hb).1
theorem log2_clmul {a b : Nat} (ha : a ≠ 0) (hb : b ≠ 0) :
    (clmul a b).log2 = a.log2 + b.log2 := by
  rw [clmul_eq_mulR]; exact (log2_mulR ha b hb).2

theorem clmul_eq_zero {a b : Nat} (h : clmul a b = 0) : a = 0 ∨ b = 0 := by
  by_cases ha : a = 0
  · exact Or.inl ha
  · by_cases hb : b = 0
    · exact Or.inr hb
    · exact absurd h (clmul_ne_zero ha hb)

/-! ## §5 division with remainder -/

/-- the fold step of `Spec.pdivmod` -/
def dstep (b db : Nat) (qr : Nat × Nat) (i : Nat) : Nat × Nat :=
  if qr.2.testBit (i + db) then (qr.1 ^^^ (1 <<< i), qr.2 ^^^ (b <<< i)) else qr

theorem lt_two_pow_of_bit_clear {r k : Nat} (h : r < 2 ^ (k + 1)) (hb : r.testBit k = false) :
    r < 2 ^ k := by
  apply Nat.lt_pow_two_of_testBit
  intro i hi
  by_cases hik : i = k
  · subst hik; exact hb
  · exact Nat.testBit_lt_two_pow (Nat.lt_of_lt_of_le h (Nat.pow_le_pow_right (by omega) (by omega)))

theorem xor_shift_lt {b r n : Nat} (hb : b ≠ 0) (h : r < 2 ^ (n + b.log2 + 1))
    (hbit : r.testBit (n + b.log2) = true) : r ^^^ (b <<< n) < 2 ^ (n + b.log2) := by
  have hs : b <<< n < 2 ^ (n + b.log2 + 1) := by
    rw [Nat.shiftLeft_eq, show n + b.log2 + 1 = (b.log2 + 1) + n by omega, Nat.pow_add]
    exact Nat.mul_lt_mul_of_pos_right Nat.lt_log2_self (Nat.two_pow_pos n)
  apply lt_two_pow_of_bit_clear (Nat.xor_lt_two_pow h hs)
  rw [Nat.testBit_xor, hbit, Nat.testBit_shiftLeft]
  have : n + b.log2 - n = b.log2 := by omega
  simp [this, Nat.testBit_log2 hb]

theorem foldl_dstep (b : Nat) (hb : b ≠ 0) (n : Nat) : ∀ (q r : Nat), r < 2 ^ (n + b.log2) →
    clmul ((List.range n).reverse.foldl (dstep b b.log2) (q, r)).1 b
        ^^^ ((List.range n).reverse.foldl (dstep b b.log2) (q, r)).2 = clmul q b ^^^ r
    ∧ ((List.range n).reverse.foldl (dstep b b.log2) (q, r)).2 < 2 ^ b.log2 := by
  induction n with
  | zero => intro q r hr; simpa using hr
  | succ n ih =>
    intro q r hr
    rw [List.range_succ, List.reverse_append, List.reverse_singleton, List.singleton_append,
      List.foldl_cons]
    by_cases hbit : r.testBit (n + b.log2) = true
    · have hs : dstep b b.log2 (q, r) n = (q ^^^ 1 <<< n, r ^^^ b <<< n) := by simp [dstep, hbit]
      rw [hs]
      obtain ⟨h1, h2⟩ := ih (q ^^^ 1 <<< n) (r ^^^ b <<< n)
        (xor_shift_lt hb (by rw [show n + b.log2 + 1 = n + 1 + b.log2 by omega]; exact hr) hbit)
      refine ⟨?_, h2⟩
      rw [h1, xor_clmul, Nat.one_shiftLeft, two_pow_clmul, Nat.xor_assoc]
      congr 1
      rw [xor_left_comm, Nat.xor_self, Nat.xor_zero]
    · have hs : dstep b b.log2 (q, r) n = (q, r) := by simp [dstep, hbit]
      rw [hs]
      have hbit' : r.testBit (n + b.log2) = false := by simpa using hbit
      exact ih q r (lt_two_pow_of_bit_clear
        (by rw [show n + b.log2 + 1 = n + 1 + b.log2 by omega]; exact hr) hbit')

theorem pdivmod_spec (a b : Nat) (hb : b ≠ 0) :
    clmul (pdivmod a b).1 b ^^^ (pdivmod a b).2 = a ∧ (pdivmod a b).2 < 2 ^ b.log2 := by
  unfold pdivmod
  rw [if_neg hb]
  dsimp only
  split
  · rename_i h
    simp only [zero_clmul, Nat.zero_xor, true_and]
    rcases h with h | h
    · subst h; exact Nat.two_pow_pos _
    · by_cases ha : a = 0
      · subst ha; exact Nat.two_pow_pos _
      · exact (Nat.log2_lt ha).1 h
  · rename_i h
    have hlt : a < 2 ^ (a.log2 - b.log2 + 1 + b.log2) := by
      rw [show a.log2 - b.log2 + 1 + b.log2 = a.log2 + 1 by omega]; exact Nat.lt_log2_self
    have := foldl_dstep b hb (a.log2 - b.log2 + 1) 0 a hlt
    rw [zero_clmul, Nat.zero_xor] at this
    exact this

theorem divmod_unique {b q r q' r' : Nat} (hb : b ≠ 0) (hr : r < 2 ^ b.log2) (hr' : r' < 2 ^ b.log2)
    (h : clmul q b ^^^ r = clmul q' b ^^^ r') : q = q' ∧ r = r' := by
  have h2 : clmul (q ^^^ q') b = r ^^^ r' := by
    rw [xor_clmul]
    apply xor_eq_zero_iff.1
    rw [xor4_swap, h, Nat.xor_self]
  have hq : q ^^^ q' = 0 := by
    by_cases hz : q ^^^ q' = 0
    · exact hz
    · exfalso
      have hne := clmul_ne_zero hz hb
      have hl := log2_clmul hz hb
      have hge : 2 ^ b.log2 ≤ clmul (q ^^^ q') b :=
        (Nat.le_log2 hne).1 (by rw [hl]; omega)
      have hlt : r ^^^ r' < 2 ^ b.log2 := Nat.xor_lt_two_pow hr hr'
      omega
  have hqq := xor_eq_zero_iff.1 hq
  subst hqq
  exact ⟨rfl, xor_cancel_left h⟩

/-! ## §6 wwLoZeroBits -/

theorem loZerosF_dvd (f : Nat) : ∀ n, 2 ^ ppLoZerosF f n ∣ n := by
  induction f with
  | zero => intro n; simp [ppLoZerosF]
  | succ f ih =>
    intro n
    unfold ppLoZerosF
    split
    · rename_i h
      obtain ⟨k, hk⟩ := ih (n / 2)
      refine ⟨k, ?_⟩
      rw [Nat.add_comm, Nat.pow_succ, Nat.mul_comm _ 2, Nat.mul_assoc, ← hk]; omega
    · simp

theorem loZerosF_odd (f : Nat) : ∀ n, n ≠ 0 → n < 2 ^ f → (n / 2 ^ ppLoZerosF f n) % 2 = 1 := by
  induction f with
  | zero => intro n h0 h; simp at h; exact absurd h h0
  | succ f ih =>
    intro n h0 h
    unfold ppLoZerosF
    split
    · rename_i he
      have := ih (n / 2) (by omega) (by rw [Nat.pow_succ] at h; omega)
      rw [Nat.add_comm, Nat.pow_succ, Nat.mul_comm _ 2, ← Nat.div_div_eq_div_mul]
      exact this
    · simp; omega

theorem loZeros_dvd (n : Nat) : 2 ^ ppLoZeros n ∣ n := loZerosF_dvd _ n
theorem loZeros_odd {n : Nat} (h : n ≠ 0) : (n / 2 ^ ppLoZeros n) % 2 = 1 :=
  loZerosF_odd _ n h Nat.lt_log2_self

theorem shr_shl_of_le {n s : Nat} (h : s ≤ ppLoZeros n) : (n >>> s) <<< s = n := by
  rw [Nat.shiftRight_eq_div_pow, Nat.shiftLeft_eq]
  exact Nat.div_mul_cancel (Nat.dvd_trans (Nat.pow_dvd_pow 2 h) (loZeros_dvd n))

/-- after dividing by the common power of x, one of the two has a constant term -/
theorem min_loZeros_odd {a b : Nat} (ha : a ≠ 0) (hb : b ≠ 0) :
    (a >>> min (ppLoZeros a) (ppLoZeros b)) % 2 = 1 ∨ (b >>> min (ppLoZeros a) (ppLoZeros b)) % 2 = 1 := by
  rcases Nat.le_total (ppLoZeros a) (ppLoZeros b) with h | h
  · left; rw [Nat.min_eq_left h, Nat.shiftRight_eq_div_pow]; exact loZeros_odd ha
  · right; rw [Nat.min_eq_right h, Nat.shiftRight_eq_div_pow]; exact loZeros_odd hb

/-! ## §7 ppExGCD: the Bezout invariant `aa·da + bb·db = u` -/

theorem halve_even {aa bb u da db : Nat} (h : clmul aa da ^^^ clmul bb db = u)
    (hu : u % 2 = 0) (hda : da % 2 = 0) (hdb : db % 2 = 0) :
    clmul aa (da / 2) ^^^ clmul bb (db / 2) = u / 2 := by
  have e1 : 2 * (da / 2) = da := by omega
  have e2 : 2 * (db / 2) = db := by omega
  have : 2 * (clmul aa (da / 2) ^^^ clmul bb (db / 2)) = 2 * (u / 2) := by
    rw [two_mul_xor, ← clmul_two_mul, ← clmul_two_mul, e1, e2, h]; omega
  omega

theorem halve_odd_parity {aa bb u da db : Nat} (h : clmul aa da ^^^ clmul bb db = u)
    (hu : u % 2 = 0) (hodd : aa % 2 = 1 ∨ bb % 2 = 1) (hn : ¬ (da % 2 = 0 ∧ db % 2 = 0)) :
    (da ^^^ bb) % 2 = 0 ∧ (db ^^^ aa) % 2 = 0 := by
  have hp := congrArg (· % 2) h
  simp only [xor_mod_two, clmul_mod_two] at hp
  rw [hu] at hp
  rw [xor_mod_two, xor_mod_two]
  rcases Nat.mod_two_eq_zero_or_one aa with h1 | h1 <;>
    rcases Nat.mod_two_eq_zero_or_one bb with h2 | h2 <;>
    rcases Nat.mod_two_eq_zero_or_one da with h3 | h3 <;>
    rcases Nat.mod_two_eq_zero_or_one db with h4 | h4 <;>
    simp [h1, h2, h3, h4] at hp hodd hn ⊢

theorem halve_odd_inv {aa bb u da db : Nat} (h : clmul aa da ^^^ clmul bb db = u) :
    clmul aa (da ^^^ bb) ^^^ clmul bb (db ^^^ aa) = u := by
  rw [clmul_xor, clmul_xor, clmul_comm bb aa, xor4_swap, Nat.xor_self, Nat.xor_zero, h]

theorem halveEx_inv (aa bb : Nat) (hodd : aa % 2 = 1 ∨ bb % 2 = 1) (f : Nat) :
    ∀ u da db, clmul aa da ^^^ clmul bb db = u →
      clmul aa (ppHalveEx aa bb f u da db).2.1 ^^^ clmul bb (ppHalveEx aa bb f u da db).2.2
        = (ppHalveEx aa bb f u da db).1 := by
  induction f with
  | zero => intro u da db h; exact h
  | succ f ih =>
    intro u da db h
    unfold ppHalveEx
    split
    · rename_i hu
      split
      · rename_i hdd
        exact ih _ _ _ (halve_even h hu hdd.1 hdd.2)
      · rename_i hdd
        obtain ⟨p1, p2⟩ := halve_odd_parity h hu hodd hdd
        exact ih _ _ _ (halve_even (halve_odd_inv h) hu p1 p2)
    · exact h

theorem exLoop_inv (aa bb : Nat) (hodd : aa % 2 = 1 ∨ bb % 2 = 1) (f : Nat) :
    ∀ u v da0 db0 da db, clmul aa da0 ^^^ clmul bb db0 = u → clmul aa da ^^^ clmul bb db = v →
      clmul aa (ppExGCDLoop aa bb f u v da0 db0 da db).2.1
        ^^^ clmul bb (ppExGCDLoop aa bb f u v da0 db0 da db).2.2
        = (ppExGCDLoop aa bb f u v da0 db0 da db).1 := by
  induction f with
  | zero => intro u v da0 db0 da db _ h; exact h
  | succ f ih =>
    intro u v da0 db0 da db h0 h1
    have i0 := halveEx_inv aa bb hodd (u.log2 + 1) u da0 db0 h0
    have i1 := halveEx_inv aa bb hodd (v.log2 + 1) v da db h1
    unfold ppExGCDLoop
    dsimp only
    split
    · split
      · apply ih _ _ _ _ _ _ _ i1
        rw [clmul_xor, clmul_xor, xor4_swap, i0, i1]
      · exact i1
    · split
      · apply ih _ _ _ _ _ _ i0
        rw [clmul_xor, clmul_xor, xor4_swap, i0, i1]
      · rw [clmul_xor, clmul_xor, xor4_swap, i0, i1]

theorem exGCDV_bezout {a b : Nat} (ha : a ≠ 0) (hb : b ≠ 0) :
    clmul a (ppExGCDV a b).2.1 ^^^ clmul b (ppExGCDV a b).2.2 = (ppExGCDV a b).1 := by
  have hodd := min_loZeros_odd ha hb
  have ea := shr_shl_of_le (Nat.min_le_left (ppLoZeros a) (ppLoZeros b))
  have eb := shr_shl_of_le (Nat.min_le_right (ppLoZeros a) (ppLoZeros b))
  have inv := exLoop_inv _ _ hodd
    ((a >>> min (ppLoZeros a) (ppLoZeros b)).log2 + (b >>> min (ppLoZeros a) (ppLoZeros b)).log2 + 3)
    (a >>> min (ppLoZeros a) (ppLoZeros b)) (b >>> min (ppLoZeros a) (ppLoZeros b)) 1 0 0 1
    (by rw [clmul_one, clmul_zero, Nat.xor_zero]) (by rw [clmul_one, clmul_zero, Nat.zero_xor])
  unfold ppExGCDV
  dsimp only
  rw [← inv, Nat.shiftLeft_xor_distrib, ← shiftLeft_clmul, ← shiftLeft_clmul, ea, eb]

/-! ## §8 congruences modulo `md`; ppDivMod invariants -/

/-- `x ≡ y (mod md)` in GF(2)[x] -/
def Cong (md x y : Nat) : Prop := ∃ k, x ^^^ y = clmul k md

theorem cong_refl (md x : Nat) : Cong md x x := ⟨0, by rw [Nat.xor_self, zero_clmul]⟩

theorem cong_xor {md x y x' y' : Nat} (h : Cong md x y) (h' : Cong md x' y') :
    Cong md (x ^^^ x') (y ^^^ y') := by
  obtain ⟨k, hk⟩ := h
  obtain ⟨k', hk'⟩ := h'
  exact ⟨k ^^^ k', by rw [xor4_swap, hk, hk', xor_clmul]⟩

theorem cong_halve {md x y : Nat} (hmd : md % 2 = 1) (h : Cong md (2 * x) (2 * y)) : Cong md x y := by
  obtain ⟨k, hk⟩ := h
  have hp := congrArg (· % 2) hk
  simp only [← two_mul_xor, clmul_mod_two, hmd, Nat.mul_one, Nat.mul_mod_right] at hp
  have ek : 2 * (k / 2) = k := by omega
  refine ⟨k / 2, ?_⟩
  have : 2 * (x ^^^ y) = 2 * clmul (k / 2) md := by
    rw [← two_mul_clmul, ek, two_mul_xor]; exact hk
  omega

theorem pmod_cong {md x y : Nat} (hmd : md ≠ 0) (h : Cong md x y) : pmod x md = pmod y md := by
  obtain ⟨k, hk⟩ := h
  obtain ⟨hx, hxr⟩ := pdivmod_spec x md hmd
  obtain ⟨hy, hyr⟩ := pdivmod_spec y md hmd
  have hy' : clmul ((pdivmod x md).1 ^^^ k) md ^^^ (pdivmod x md).2 = y := by
    rw [xor_clmul, ← hk, Nat.xor_assoc, Nat.xor_comm (x ^^^ y) (pdivmod x md).2, ← Nat.xor_assoc, hx,
      ← Nat.xor_assoc, Nat.xor_self, Nat.zero_xor]
  exact ((divmod_unique hmd hyr hxr (hy.trans hy'.symm)).2).symm

/-- invariant of ppDivMod for a pair (u, d): `d·a ≡ divident·u (mod md)` -/
def DInv (md a dv u d : Nat) : Prop := Cong md (clmul d a) (clmul dv u)

theorem dinv_halve_even {md a dv u d : Nat} (hmd : md % 2 = 1) (h : DInv md a dv u d)
    (hu : u % 2 = 0) (hd : d % 2 = 0) : DInv md a dv (u / 2) (d / 2) := by
  apply cong_halve hmd
  have e1 : 2 * (d / 2) = d := by omega
  have e2 : 2 * (u / 2) = u := by omega
  rw [← two_mul_clmul, ← clmul_two_mul, e1, e2]
  exact h

theorem dinv_add_mod {md a dv u d : Nat} (h : DInv md a dv u d) : DInv md a dv u (d ^^^ md) := by
  obtain ⟨k, hk⟩ := h
  refine ⟨k ^^^ a, ?_⟩
  rw [xor_clmul, xor_clmul, ← hk, clmul_comm a md, Nat.xor_assoc, Nat.xor_assoc]
  congr 1
  exact Nat.xor_comm _ _

theorem halveMod_inv (md a dv : Nat) (hmd : md % 2 = 1) (f : Nat) :
    ∀ u d, DInv md a dv u d →
      DInv md a dv (ppHalveMod md f u d).1 (ppHalveMod md f u d).2 := by
  induction f with
  | zero => intro u d h; exact h
  | succ f ih =>
    intro u d h
    unfold ppHalveMod
    split
    · rename_i hu
      split
      · rename_i hd
        exact ih _ _ (dinv_halve_even hmd h hu hd)
      · rename_i hd
        have hp : (d ^^^ md) % 2 = 0 := by rw [xor_mod_two]; omega
        exact ih _ _ (dinv_halve_even hmd (dinv_add_mod h) hu hp)
    · exact h

theorem halveMod_bound (md : Nat) (f : Nat) :
    ∀ u d, d < 2 ^ md.log2 → (ppHalveMod md f u d).2 < 2 ^ md.log2 := by
  induction f with
  | zero => intro u d h; exact h
  | succ f ih =>
    intro u d h
    unfold ppHalveMod
    split
    · split
      · exact ih _ _ (by omega)
      · apply ih
        have h1 : d ^^^ md < 2 ^ (md.log2 + 1) :=
          Nat.xor_lt_two_pow (by rw [Nat.pow_succ]; omega) Nat.lt_log2_self
        rw [Nat.pow_succ] at h1
        omega
    · exact h

theorem dinv_xor {md a dv u d u' d' : Nat} (h : DInv md a dv u d) (h' : DInv md a dv u' d') :
    DInv md a dv (u ^^^ u') (d ^^^ d') := by
  unfold DInv
  rw [xor_clmul, clmul_xor]
  exact cong_xor h h'

theorem divLoop_inv (md a dv : Nat) (hmd : md % 2 = 1) (f : Nat) :
    ∀ u v da0 da, DInv md a dv u da0 → DInv md a dv v da →
      DInv md a dv (ppDivModLoop md f u v da0 da).1 (ppDivModLoop md f u v da0 da).2 := by
  induction f with
  | zero => intro u v da0 da _ h; exact h
  | succ f ih =>
    intro u v da0 da h0 h1
    have i0 := halveMod_inv md a dv hmd (u.log2 + 1) u da0 h0
    have i1 := halveMod_inv md a dv hmd (v.log2 + 1) v da h1
    unfold ppDivModLoop
    split
    · exact h1
    · dsimp only
      split
      · exact ih _ _ _ _ (dinv_xor i0 i1) i1
      · exact ih _ _ _ _ i0 (dinv_xor i1 i0)

theorem divLoop_bound (md : Nat) (f : Nat) :
    ∀ u v da0 da, da0 < 2 ^ md.log2 → da < 2 ^ md.log2 →
      (ppDivModLoop md f u v da0 da).2 < 2 ^ md.log2 := by
  induction f with
  | zero => intro u v da0 da _ h; exact h
  | succ f ih =>
    intro u v da0 da h0 h1
    have i0 := halveMod_bound md (u.log2 + 1) u da0 h0
    have i1 := halveMod_bound md (v.log2 + 1) v da h1
    unfold ppDivModLoop
    split
    · exact h1
    · dsimp only
      split
      · exact ih _ _ _ _ (Nat.xor_lt_two_pow i0 i1) i1
      · exact ih _ _ _ _ i0 (Nat.xor_lt_two_pow i1 i0)

theorem pmod_of_lt {md x : Nat} (hmd : md ≠ 0) (h : x < 2 ^ md.log2) : pmod x md = x := by
  obtain ⟨h1, h2⟩ := pdivmod_spec x md hmd
  have : clmul (pdivmod x md).1 md ^^^ (pdivmod x md).2 = clmul 0 md ^^^ x := by
    rw [h1, zero_clmul, Nat.zero_xor]
  exact (divmod_unique hmd h2 h this).2

theorem divModV_partial (dv a md : Nat) (hmd : md % 2 = 1) (hdv : dv < 2 ^ md.log2) :
    (ppDivModV dv a md = 0 ∨ pmod (clmul (ppDivModV dv a md) a) md = dv)
    ∧ ppDivModV dv a md < 2 ^ md.log2 := by
  have hmd0 : md ≠ 0 := by omega
  have inv := divLoop_inv md a dv hmd (a.log2 + md.log2 + 4) a md dv 0 (cong_refl _ _)
    ⟨dv, by rw [zero_clmul, Nat.zero_xor]⟩
  have bnd := divLoop_bound md (a.log2 + md.log2 + 4) a md dv 0 hdv (Nat.two_pow_pos _)
  unfold ppDivModV
  dsimp only
  split
  · rename_i h1
    rw [h1] at inv
    refine ⟨Or.inr ?_, bnd⟩
    have := pmod_cong hmd0 inv
    rw [clmul_one, pmod_of_lt hmd0 hdv] at this
    exact this
  · exact ⟨Or.inl rfl, Nat.two_pow_pos _⟩

/-! ## §9 divisibility; the Euclidean `Spec.pgcd` is a greatest common divisor -/

/-- `d ∣ a` in GF(2)[x] -/
def PDvd (d a : Nat) : Prop := ∃ q, a = clmul q d

theorem pdvd_refl (a : Nat) : PDvd a a := ⟨1, (one_clmul a).symm⟩
theorem pdvd_zero (d : Nat) : PDvd d 0 := ⟨0, (zero_clmul d).symm⟩
theorem pdvd_xor {d a b : Nat} (ha : PDvd d a) (hb : PDvd d b) : PDvd d (a ^^^ b) := by
  obtain ⟨q, hq⟩ := ha
  obtain ⟨q', hq'⟩ := hb
  exact ⟨q ^^^ q', by rw [xor_clmul, hq, hq']⟩
theorem pdvd_mul {d a : Nat} (k : Nat) (ha : PDvd d a) : PDvd d (clmul k a) := by
  obtain ⟨q, hq⟩ := ha
  exact ⟨clmul k q, by rw [hq, clmul_assoc]⟩

theorem pmod_eq (a b : Nat) (hb : b ≠ 0) : pmod a b = a ^^^ clmul (pdivmod a b).1 b := by
  have h := (pdivmod_spec a b hb).1
  unfold pmod
  conv => rhs; lhs; rw [← h]
  rw [Nat.xor_comm (clmul _ _), Nat.xor_assoc, Nat.xor_self, Nat.xor_zero]

theorem pdvd_pmod {d a b : Nat} (hb : b ≠ 0) (ha : PDvd d a) (hdb : PDvd d b) : PDvd d (pmod a b) := by
  rw [pmod_eq a b hb]; exact pdvd_xor ha (pdvd_mul _ hdb)

theorem pdvd_of_pmod {d a b : Nat} (hb : b ≠ 0) (hr : PDvd d (pmod a b)) (hdb : PDvd d b) : PDvd d a := by
  have h := (pdivmod_spec a b hb).1
  rw [← h]
  exact pdvd_xor (pdvd_mul _ hdb) hr

/-- g is a greatest common divisor of a and b -/
def IsPGcd (g a b : Nat) : Prop := PDvd g a ∧ PDvd g b ∧ ∀ d, PDvd d a → PDvd d b → PDvd d g

theorem pgcdAux_spec (f : Nat) : ∀ a b, b < 2 ^ f → IsPGcd (pgcdAux f a b) a b := by
  induction f with
  | zero =>
    intro a b hb
    have : b = 0 := by simpa using hb
    subst this
    exact ⟨pdvd_refl a, pdvd_zero a, fun d h _ => h⟩
  | succ f ih =>
    intro a b hb
    unfold pgcdAux
    split
    · rename_i h0; subst h0
      exact ⟨pdvd_refl a, pdvd_zero a, fun d h _ => h⟩
    · rename_i h0
      have hr : pmod a b < 2 ^ f := by
        have h1 := (pdivmod_spec a b h0).2
        have h2 : b.log2 ≤ f := by
          have := (Nat.log2_lt h0).2 hb; omega
        exact Nat.lt_of_lt_of_le h1 (Nat.pow_le_pow_right (by omega) h2)
      obtain ⟨g1, g2, g3⟩ := ih b (pmod a b) hr
      exact ⟨pdvd_of_pmod h0 g2 g1, g1, fun d hda hdb => g3 d hdb (pdvd_pmod h0 hda hdb)⟩

theorem pgcd_spec (a b : Nat) : IsPGcd (pgcd a b) a b := by
  unfold pgcd
  apply pgcdAux_spec
  exact Nat.lt_of_lt_of_le (Nat.lt_log2_self (n := b)) (Nat.pow_le_pow_right (by omega) (by omega))

/-- a gcd is unique (the only unit of GF(2)[x] is 1) -/
theorem isPGcd_unique {g g' a b : Nat} (h : IsPGcd g a b) (h' : IsPGcd g' a b) : g = g' := by
  obtain ⟨q, hq⟩ := h'.2.2 g h.1 h.2.1      -- g' = q g ... (g ∣ g')
  obtain ⟨q', hq'⟩ := h.2.2 g' h'.1 h'.2.1  -- g = q' g'
  by_cases hg : g = 0
  · subst hg; rw [clmul_zero] at hq; exact hq.symm
  · have hg' : g' ≠ 0 := by
      intro h0; rw [h0, clmul_zero] at hq'; exact hg hq'
    have hq0 : q ≠ 0 := by intro h0; rw [h0, zero_clmul] at hq; exact hg' hq
    have hl := log2_clmul hq0 hg
    have hq'0 : q' ≠ 0 := by intro h0; rw [h0, zero_clmul] at hq'; exact hg hq'
    have hl' := log2_clmul hq'0 hg'
    rw [← hq] at hl
    rw [← hq'] at hl'
    have : q.log2 = 0 := by omega
    have hq1 : q = 1 := by
      have := (Nat.log2_lt hq0).1 (by omega : q.log2 < 1)
      omega
    rw [hq1, one_clmul] at hq
    exact hq.symm

/-! ## §10 the odd part; termination of the binary loops -/

/-- `u / x^(wwLoZeroBits u)` -/
def oddP (u : Nat) : Nat := u / 2 ^ ppLoZeros u

theorem shr_loZeros (u : Nat) : u >>> ppLoZeros u = oddP u := Nat.shiftRight_eq_div_pow _ _

theorem oddP_odd {u : Nat} (h : u ≠ 0) : oddP u % 2 = 1 := loZeros_odd h
theorem oddP_mul (u : Nat) : oddP u * 2 ^ ppLoZeros u = u := Nat.div_mul_cancel (loZeros_dvd u)
theorem oddP_ne_zero {u : Nat} (h : u ≠ 0) : oddP u ≠ 0 := by have := oddP_odd h; omega

theorem log2_mul_two_pow {x : Nat} (hx : x ≠ 0) (t : Nat) : (x * 2 ^ t).log2 = x.log2 + t := by
  induction t with
  | zero => simp
  | succ t ih =>
    have hne : x * 2 ^ t ≠ 0 := Nat.mul_ne_zero hx (Nat.pos_iff_ne_zero.1 (Nat.two_pow_pos t))
    rw [Nat.pow_succ, ← Nat.mul_assoc, Nat.mul_comm _ 2, Nat.log2_two_mul hne, ih]; omega

theorem log2_oddP {u : Nat} (h : u ≠ 0) : (oddP u).log2 + ppLoZeros u = u.log2 := by
  have := log2_mul_two_pow (oddP_ne_zero h) (ppLoZeros u)
  rw [oddP_mul] at this; omega

theorem loZeros_pos {u : Nat} (he : u % 2 = 0) : 1 ≤ ppLoZeros u := by
  unfold ppLoZeros ppLoZerosF
  rw [if_pos he]; omega

theorem loZeros_of_odd {u : Nat} (ho : u % 2 = 1) : ppLoZeros u = 0 := by
  unfold ppLoZeros ppLoZerosF
  rw [if_neg (by omega)]

theorem oddP_of_odd {u : Nat} (ho : u % 2 = 1) : oddP u = u := by
  unfold oddP; rw [loZeros_of_odd ho]; simp

theorem pdvd_shl {g x : Nat} (t : Nat) (h : PDvd g x) : PDvd g (x * 2 ^ t) := by
  have := pdvd_mul (2 ^ t) h
  rwa [two_pow_clmul, Nat.shiftLeft_eq] at this

theorem pdvd_of_oddP {g u : Nat} (h : PDvd g (oddP u)) : PDvd g u := by
  have := pdvd_shl (ppLoZeros u) h
  rwa [oddP_mul] at this

/-- the potential drops: u1 ≥ v1 odd, u2 = u1 + v1 ≠ 0 ⇒ deg(odd part of u2) < deg u1 -/
theorem pot_drop {u1 v1 : Nat} (hu : u1 % 2 = 1) (hv : v1 % 2 = 1) (hle : v1 ≤ u1)
    (hne : u1 ^^^ v1 ≠ 0) : (oddP (u1 ^^^ v1)).log2 + 1 ≤ u1.log2 := by
  have he : (u1 ^^^ v1) % 2 = 0 := by rw [xor_mod_two, hu, hv]
  have h1 := loZeros_pos he
  have h2 := log2_oddP hne
  have h3 : u1 ^^^ v1 < 2 ^ (u1.log2 + 1) :=
    Nat.xor_lt_two_pow Nat.lt_log2_self (Nat.lt_of_le_of_lt hle Nat.lt_log2_self)
  have h4 := (Nat.log2_lt hne).2 h3
  omega

theorem xor_xor_cancel (x y : Nat) : x ^^^ y ^^^ y = x := by
  rw [Nat.xor_assoc, Nat.xor_self, Nat.xor_zero]

/-- with enough fuel the do-while loop of ppGCD ends with u = 0, and the returned v divides both -/
theorem gcdLoop_dvd (f : Nat) : ∀ u v, u ≠ 0 → v ≠ 0 → (oddP u).log2 + (oddP v).log2 + 1 ≤ f →
    PDvd (ppGCDLoop f u v) u ∧ PDvd (ppGCDLoop f u v) v := by
  induction f with
  | zero => intro u v _ _ h; omega
  | succ f ih =>
    intro u v hu hv hf
    have ou := oddP_odd hu
    have ov := oddP_odd hv
    unfold ppGCDLoop
    simp only [shr_loZeros]
    split
    · rename_i hge
      split
      · rename_i hne
        have hd := pot_drop ou ov hge hne
        obtain ⟨g1, g2⟩ := ih (oddP u ^^^ oddP v) (oddP v) hne (oddP_ne_zero hv)
          (by rw [oddP_of_odd ov]; omega)
        have g3 := pdvd_xor g1 g2
        rw [xor_xor_cancel] at g3
        exact ⟨pdvd_of_oddP g3, pdvd_of_oddP g2⟩
      · rename_i hz
        have hz' : oddP u ^^^ oddP v = 0 := by simpa using hz
        have he := xor_eq_zero_iff.1 hz'
        refine ⟨pdvd_of_oddP ?_, pdvd_of_oddP (pdvd_refl _)⟩
        rw [he]; exact pdvd_refl _
    · rename_i hlt
      have hlt' : oddP u ≤ oddP v := by omega
      have hne : oddP v ^^^ oddP u ≠ 0 := by
        intro h0; have := xor_eq_zero_iff.1 h0; omega
      rw [if_pos (oddP_ne_zero hu)]
      have hd := pot_drop ov ou hlt' hne
      obtain ⟨g1, g2⟩ := ih (oddP u) (oddP v ^^^ oddP u) (oddP_ne_zero hu) hne
        (by rw [oddP_of_odd ou]; omega)
      have g3 := pdvd_xor g2 g1
      rw [xor_xor_cancel] at g3
      exact ⟨pdvd_of_oddP g1, pdvd_of_oddP g3⟩

/-- the halving loops of ppExGCD / ppDivMod compute the odd part of u -/
theorem halveEx_fst (aa bb f : Nat) : ∀ u da db,
    (ppHalveEx aa bb f u da db).1 = u / 2 ^ ppLoZerosF f u := by
  induction f with
  | zero => intro u da db; simp [ppHalveEx, ppLoZerosF]
  | succ f ih =>
    intro u da db
    unfold ppHalveEx ppLoZerosF
    split
    · have e : u / 2 ^ (1 + ppLoZerosF f (u / 2)) = u / 2 / 2 ^ ppLoZerosF f (u / 2) := by
        rw [Nat.add_comm, Nat.pow_succ, Nat.mul_comm _ 2, ← Nat.div_div_eq_div_mul]
      split <;> rw [ih, e]
    · simp

theorem halveMod_fst (md f : Nat) : ∀ u d,
    (ppHalveMod md f u d).1 = u / 2 ^ ppLoZerosF f u := by
  induction f with
  | zero => intro u d; simp [ppHalveMod, ppLoZerosF]
  | succ f ih =>
    intro u d
    unfold ppHalveMod ppLoZerosF
    split
    · have e : u / 2 ^ (1 + ppLoZerosF f (u / 2)) = u / 2 / 2 ^ ppLoZerosF f (u / 2) := by
        rw [Nat.add_comm, Nat.pow_succ, Nat.mul_comm _ 2, ← Nat.div_div_eq_div_mul]
      split <;> rw [ih, e]
    · simp

theorem halveEx_fst' (aa bb u da db : Nat) : (ppHalveEx aa bb (u.log2 + 1) u da db).1 = oddP u :=
  halveEx_fst aa bb _ u da db
theorem halveMod_fst' (md u d : Nat) : (ppHalveMod md (u.log2 + 1) u d).1 = oddP u :=
  halveMod_fst md _ u d

/-- ppExGCD's (u, v) run exactly as ppGCD's -/
theorem exLoop_fst (aa bb f : Nat) : ∀ u v da0 db0 da db,
    (ppExGCDLoop aa bb f u v da0 db0 da db).1 = ppGCDLoop f u v := by
  induction f with
  | zero => intro u v da0 db0 da db; rfl
  | succ f ih =>
    intro u v da0 db0 da db
    unfold ppExGCDLoop ppGCDLoop
    simp only [halveEx_fst', shr_loZeros]
    split
    · split
      · exact ih _ _ _ _ _ _
      · rfl
    · split
      · exact ih _ _ _ _ _ _
      · rfl

theorem exGCDV_fst (a b : Nat) : (ppExGCDV a b).1 = ppGCDV a b := by
  unfold ppExGCDV ppGCDV
  simp only [exLoop_fst]

theorem pdvd_shiftLeft {g x : Nat} (s : Nat) (h : PDvd g x) : PDvd (g <<< s) (x <<< s) := by
  obtain ⟨q, hq⟩ := h
  exact ⟨q, by rw [hq, clmul_comm q g, ← shiftLeft_clmul, clmul_comm]⟩

theorem gcdV_isPGcd {a b : Nat} (ha : a ≠ 0) (hb : b ≠ 0) : IsPGcd (ppGCDV a b) a b := by
  have ea := shr_shl_of_le (Nat.min_le_left (ppLoZeros a) (ppLoZeros b))
  have eb := shr_shl_of_le (Nat.min_le_right (ppLoZeros a) (ppLoZeros b))
  have hu : a >>> min (ppLoZeros a) (ppLoZeros b) ≠ 0 := by
    intro h0; rw [h0] at ea; simp at ea; exact ha ea.symm
  have hv : b >>> min (ppLoZeros a) (ppLoZeros b) ≠ 0 := by
    intro h0; rw [h0] at eb; simp at eb; exact hb eb.symm
  have hfuel : (oddP (a >>> min (ppLoZeros a) (ppLoZeros b))).log2
      + (oddP (b >>> min (ppLoZeros a) (ppLoZeros b))).log2 + 1
      ≤ (a >>> min (ppLoZeros a) (ppLoZeros b)).log2 + (b >>> min (ppLoZeros a) (ppLoZeros b)).log2 + 3 := by
    have := log2_oddP hu
    have := log2_oddP hv
    omega
  obtain ⟨g1, g2⟩ := gcdLoop_dvd _ _ _ hu hv hfuel
  refine ⟨?_, ?_, ?_⟩
  · have := pdvd_shiftLeft (min (ppLoZeros a) (ppLoZeros b)) g1
    rw [ea] at this; exact this
  · have := pdvd_shiftLeft (min (ppLoZeros a) (ppLoZeros b)) g2
    rw [eb] at this; exact this
  · intro d hda hdb
    obtain ⟨q1, h1⟩ := hda
    obtain ⟨q2, h2⟩ := hdb
    refine ⟨clmul q1 (ppExGCDV a b).2.1 ^^^ clmul q2 (ppExGCDV a b).2.2, ?_⟩
    rw [← exGCDV_fst, ← exGCDV_bezout ha hb, xor_clmul, clmul_assoc, clmul_assoc,
      clmul_comm (ppExGCDV a b).2.1 d, clmul_comm (ppExGCDV a b).2.2 d, ← clmul_assoc, ← clmul_assoc,
      ← h1, ← h2]

theorem gcdV_eq_pgcd {a b : Nat} (ha : a ≠ 0) (hb : b ≠ 0) : ppGCDV a b = pgcd a b :=
  isPGcd_unique (gcdV_isPGcd ha hb) (pgcd_spec a b)

/-! ## §11 ppDivMod: the loop ends with v = gcd(a, mod) -/

theorem gcdLoop_isPGcd {u v : Nat} (hu : u ≠ 0) (hv : v ≠ 0) (hodd : u % 2 = 1 ∨ v % 2 = 1) (f : Nat)
    (hf : (oddP u).log2 + (oddP v).log2 + 1 ≤ f) : IsPGcd (ppGCDLoop f u v) u v := by
  obtain ⟨g1, g2⟩ := gcdLoop_dvd f u v hu hv hf
  refine ⟨g1, g2, ?_⟩
  intro d hda hdb
  have inv := exLoop_inv u v hodd f u v 1 0 0 1
    (by rw [clmul_one, clmul_zero, Nat.xor_zero]) (by rw [clmul_one, clmul_zero, Nat.zero_xor])
  rw [exLoop_fst] at inv
  obtain ⟨q1, h1⟩ := hda
  obtain ⟨q2, h2⟩ := hdb
  refine ⟨clmul q1 (ppExGCDLoop u v f u v 1 0 0 1).2.1 ^^^ clmul q2 (ppExGCDLoop u v f u v 1 0 0 1).2.2, ?_⟩
  rw [← inv, xor_clmul, clmul_assoc, clmul_assoc,
    clmul_comm (ppExGCDLoop u v f u v 1 0 0 1).2.1 d, clmul_comm (ppExGCDLoop u v f u v 1 0 0 1).2.2 d,
    ← clmul_assoc, ← clmul_assoc, ← h1, ← h2]

/-- the `while` loop of ppDivMod runs (u, v) as the do-while of ppGCD (one more test of u) -/
theorem divLoop_fst (md f : Nat) : ∀ u v da0 da, u ≠ 0 → v ≠ 0 →
    (oddP u).log2 + (oddP v).log2 + 1 ≤ f →
    (ppDivModLoop md (f + 1) u v da0 da).1 = ppGCDLoop f u v := by
  induction f with
  | zero => intro u v _ _ _ _ h; omega
  | succ f ih =>
    intro u v da0 da hu hv hf
    have ou := oddP_odd hu
    have ov := oddP_odd hv
    rw [ppDivModLoop, if_neg hu]
    simp only [halveMod_fst']
    unfold ppGCDLoop
    simp only [shr_loZeros]
    split
    · rename_i hge
      split
      · rename_i hne
        have hd := pot_drop ou ov hge hne
        exact ih _ _ _ _ hne (oddP_ne_zero hv) (by rw [oddP_of_odd ov]; omega)
      · rename_i hz
        have hz' : oddP u ^^^ oddP v = 0 := by simpa using hz
        rw [hz', ppDivModLoop, if_pos rfl]
    · rename_i hlt
      have hlt' : oddP u ≤ oddP v := by omega
      have hne : oddP v ^^^ oddP u ≠ 0 := by
        intro h0; have := xor_eq_zero_iff.1 h0; omega
      have hd := pot_drop ov ou hlt' hne
      rw [if_pos (oddP_ne_zero hu)]
      exact ih _ _ _ _ (oddP_ne_zero hu) hne (by rw [oddP_of_odd ou]; omega)

theorem divLoop_gcd (dv a md : Nat) (hmd : md % 2 = 1) :
    (ppDivModLoop md (a.log2 + md.log2 + 4) a md dv 0).1 = pgcd a md := by
  have hmd0 : md ≠ 0 := by omega
  by_cases ha : a = 0
  · subst ha
    rw [ppDivModLoop, if_pos rfl]
    exact isPGcd_unique ⟨pdvd_zero md, pdvd_refl md, fun d _ h => h⟩ (pgcd_spec 0 md)
  · have hf : (oddP a).log2 + (oddP md).log2 + 1 ≤ a.log2 + md.log2 + 3 := by
      have := log2_oddP ha
      have := log2_oddP hmd0
      omega
    rw [divLoop_fst md (a.log2 + md.log2 + 3) a md dv 0 ha hmd0 hf]
    exact isPGcd_unique (gcdLoop_isPGcd ha hmd0 (Or.inr hmd) _ hf) (pgcd_spec a md)

/-! ## §12 ppDivMod: the result is reduced even when deg divident = deg mod -/

theorem halveMod_bound2 (md : Nat) (f : Nat) :
    ∀ u d, d < 2 ^ (md.log2 + 1) → (ppHalveMod md f u d).2 < 2 ^ (md.log2 + 1) := by
  induction f with
  | zero => intro u d h; exact h
  | succ f ih =>
    intro u d h
    unfold ppHalveMod
    split
    · split
      · exact ih _ _ (by omega)
      · apply ih
        have h1 : d ^^^ md < 2 ^ (md.log2 + 1) := Nat.xor_lt_two_pow h Nat.lt_log2_self
        omega
    · exact h

/-- if v is even (≠ 0) the halving loop halves at least once, which reduces d below deg mod -/
theorem halveMod_bound3 (md v d : Nat) (hd : d < 2 ^ (md.log2 + 1))
    (h : d < 2 ^ md.log2 ∨ v % 2 = 0) : (ppHalveMod md (v.log2 + 1) v d).2 < 2 ^ md.log2 := by
  rcases h with h | h
  · exact halveMod_bound md _ v d h
  · unfold ppHalveMod
    rw [if_pos h]
    split
    · exact halveMod_bound md _ _ _ (by rw [Nat.pow_succ] at hd; omega)
    · apply halveMod_bound
      have h1 : d ^^^ md < 2 ^ (md.log2 + 1) := Nat.xor_lt_two_pow hd Nat.lt_log2_self
      rw [Nat.pow_succ] at h1
      omega

theorem divLoop_bound2 (md : Nat) (f : Nat) :
    ∀ u v da0 da, v ≠ 0 → da0 < 2 ^ (md.log2 + 1) → da < 2 ^ (md.log2 + 1) →
      (da < 2 ^ md.log2 ∨ v % 2 = 0) →
      (ppDivModLoop md f u v da0 da).1 % 2 = 1 → (ppDivModLoop md f u v da0 da).2 < 2 ^ md.log2 := by
  induction f with
  | zero =>
    intro u v da0 da _ _ _ h hv
    simp only [ppDivModLoop] at hv ⊢
    rcases h with h | h
    · exact h
    · omega
  | succ f ih =>
    intro u v da0 da hv0 h0 h1 h hv
    have hle : 2 ^ md.log2 ≤ 2 ^ (md.log2 + 1) := Nat.pow_le_pow_right (by omega) (by omega)
    rw [ppDivModLoop] at hv ⊢
    split
    · rename_i hu
      rw [if_pos hu] at hv
      rcases h with h | h
      · exact h
      · simp only at hv; omega
    · rename_i hu
      rw [if_neg hu] at hv
      have i0 := halveMod_bound2 md (u.log2 + 1) u da0 h0
      have i1 := halveMod_bound3 md v da h1 h
      have ou := oddP_odd hu
      have ov := oddP_odd hv0
      simp only [halveMod_fst'] at hv ⊢
      split
      · rename_i hge
        rw [if_pos hge] at hv
        exact ih _ _ _ _ (oddP_ne_zero hv0) (Nat.xor_lt_two_pow i0 (Nat.lt_of_lt_of_le i1 hle))
          (Nat.lt_of_lt_of_le i1 hle) (Or.inl i1) hv
      · rename_i hlt
        rw [if_neg hlt] at hv
        have hne : oddP v ^^^ oddP u ≠ 0 := by
          intro h0; have := xor_eq_zero_iff.1 h0; omega
        exact ih _ _ _ _ hne i0 (Nat.xor_lt_two_pow (Nat.lt_of_lt_of_le i1 hle) i0)
          (Or.inr (by rw [xor_mod_two, ou, ov])) hv

/-- ppDivMod at full strength; divident of degree ≤ deg mod (in particular divident < mod as
    integers), a arbitrary -/
theorem divModV_spec (dv a md : Nat) (hmd : md % 2 = 1) (hdv : dv < 2 ^ (md.log2 + 1)) :
    (pgcd a md = 1 → pmod (clmul (ppDivModV dv a md) a) md = pmod dv md
        ∧ ppDivModV dv a md < 2 ^ md.log2)
    ∧ (pgcd a md ≠ 1 → ppDivModV dv a md = 0) := by
  have hmd0 : md ≠ 0 := by omega
  have hg := divLoop_gcd dv a md hmd
  have inv := divLoop_inv md a dv hmd (a.log2 + md.log2 + 4) a md dv 0 (cong_refl _ _)
    ⟨dv, by rw [zero_clmul, Nat.zero_xor]⟩
  have bnd := divLoop_bound2 md (a.log2 + md.log2 + 4) a md dv 0 hmd0 hdv (Nat.two_pow_pos _)
    (Or.inl (Nat.two_pow_pos _))
  unfold ppDivModV
  dsimp only
  rw [hg] at inv bnd ⊢
  constructor
  · intro h1
    rw [if_pos h1]
    rw [h1] at inv bnd
    have := pmod_cong hmd0 inv
    rw [clmul_one] at this
    exact ⟨this, bnd rfl⟩
  · intro h1
    rw [if_neg h1]

end Bee2V.C05.Pp

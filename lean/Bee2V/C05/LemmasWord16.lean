/-
C05 — the 16-bit word helpers of u16.c (models: ModelWord.lean): complete enumeration of the
65536 values by the kernel (`decide +kernel`, 16 chunks), in a file of its own so that edits to
the other lemma files do not re-run it.  No Mathlib needed.
-/
import Bee2V.C05.ModelWord
namespace Bee2V.C05


/-- `c` is the number of trailing zero bits of the `bits`-bit word `x` -/
def CtzSpec (bits x c : Nat) : Prop :=
  (x = 0 → c = bits) ∧ (x ≠ 0 → c < bits ∧ x % 2 ^ c = 0 ∧ x / 2 ^ c % 2 = 1)
/-- `c` is the number of leading zero bits of the `bits`-bit word `x` -/
def ClzSpec (bits x c : Nat) : Prop :=
  (x = 0 → c = bits) ∧ (x ≠ 0 → c < bits ∧ x / 2 ^ (bits - 1 - c) = 1)


/-! ## the 16-bit word helpers: complete enumeration -/

/-! ### specifications of the word helpers (structural, width as a parameter) -/
/-- bit-reversal of the low `k` bits: bit i goes to bit k-1-i -/
def bitrevN : Nat → Nat → Nat | 0, _ => 0 | k+1, x => (x % 2) * 2^k + bitrevN k (x/2)
/-- number of ones among the low `k` bits -/
def popN : Nat → Nat → Nat | 0,_ => 0 | k+1, x => x % 2 + popN k (x/2)
/-- interleave: bit i of `lo` goes to bit 2i, bit i of `hi` to bit 2i+1 (k bits each) -/
def shufN : Nat → Nat → Nat → Nat | 0, _, _ => 0 | k+1, lo, hi => (lo % 2) + 2 * (hi % 2) + 4 * shufN k (lo/2) (hi/2)

/-! ### kernel-friendly copies of the 16-bit models (raw `Nat.*` operations: the kernel evaluates
these about ten times faster than the instance-wrapped notation); each is definitionally the model -/
def k16Rev (w : Nat) : Nat := Nat.mod (Nat.lor (Nat.shiftLeft w 8) (Nat.shiftRight w 8)) 0x10000
def k16Bitrev (w : Nat) : Nat :=
  let w := Nat.mod (Nat.lor (Nat.land (Nat.shiftRight w 1) 0x5555) (Nat.shiftLeft (Nat.land w 0x5555) 1)) 0x10000
  let w := Nat.mod (Nat.lor (Nat.land (Nat.shiftRight w 2) 0x3333) (Nat.shiftLeft (Nat.land w 0x3333) 2)) 0x10000
  let w := Nat.mod (Nat.lor (Nat.land (Nat.shiftRight w 4) 0x0F0F) (Nat.shiftLeft (Nat.land w 0x0F0F) 4)) 0x10000
  let w := Nat.mod (Nat.lor (Nat.shiftRight w 8) (Nat.shiftLeft w 8)) 0x10000
  w
def k16Weight (w : Nat) : Nat :=
  let w := Nat.mod (Nat.add w (Nat.sub 0x10000 (Nat.land (Nat.shiftRight w 1) 0x5555))) 0x10000
  let w := Nat.mod (Nat.add (Nat.land w 0x3333) (Nat.land (Nat.shiftRight w 2) 0x3333)) 0x10000
  let w := Nat.mod (Nat.land (Nat.add w (Nat.shiftRight w 4)) 0x0F0F) 0x10000
  let w := Nat.mod (Nat.add w (Nat.shiftRight w 8)) 0x10000
  Nat.land w 0x001F
def k16Parity (w : Nat) : Nat :=
  let w := Nat.xor w (Nat.shiftRight w 1)
  let w := Nat.xor w (Nat.shiftRight w 2)
  let w := Nat.xor w (Nat.shiftRight w 4)
  let w := Nat.xor w (Nat.shiftRight w 8)
  Nat.land w 1
def k16CTZ_safe (w : Nat) : Nat :=
  Nat.mod (Nat.add 16 (Nat.sub 0x10000000000000000 (k16Weight (Nat.mod (Nat.lor w (Nat.mod (Nat.sub 0x10000 (Nat.mod w 0x10000)) 0x10000)) 0x10000)))) 0x10000000000000000
def k16CLZ_safe (w : Nat) : Nat :=
  let w := Nat.lor w (Nat.shiftRight w 1)
  let w := Nat.lor w (Nat.shiftRight w 2)
  let w := Nat.lor w (Nat.shiftRight w 4)
  let w := Nat.lor w (Nat.shiftRight w 8)
  k16Weight (Nat.mod (Nat.xor w 0xFFFF) 0x10000)
def k16Shuffle (w : Nat) : Nat :=
  let t := Nat.land (Nat.xor w (Nat.shiftRight w 4)) 0x00F0
  let w := Nat.mod (Nat.xor w (Nat.xor t (Nat.shiftLeft t 4))) 0x10000
  let t := Nat.land (Nat.xor w (Nat.shiftRight w 2)) 0x0C0C
  let w := Nat.mod (Nat.xor w (Nat.xor t (Nat.shiftLeft t 2))) 0x10000
  let t := Nat.land (Nat.xor w (Nat.shiftRight w 1)) 0x2222
  let w := Nat.mod (Nat.xor w (Nat.xor t (Nat.shiftLeft t 1))) 0x10000
  w
def k16Deshuffle (w : Nat) : Nat :=
  let t := Nat.land (Nat.xor w (Nat.shiftRight w 1)) 0x2222
  let w := Nat.mod (Nat.xor w (Nat.xor t (Nat.shiftLeft t 1))) 0x10000
  let t := Nat.land (Nat.xor w (Nat.shiftRight w 2)) 0x0C0C
  let w := Nat.mod (Nat.xor w (Nat.xor t (Nat.shiftLeft t 2))) 0x10000
  let t := Nat.land (Nat.xor w (Nat.shiftRight w 4)) 0x00F0
  let w := Nat.mod (Nat.xor w (Nat.xor t (Nat.shiftLeft t 4))) 0x10000
  w
def k16Step (w ret : Nat) : Nat := Nat.mod (Nat.mul ret (Nat.add (Nat.mul w ret) 2)) 0x10000
def k16NegInv (w : Nat) : Nat := k16Step w (k16Step w (k16Step w (k16Step w w)))

theorem k16Rev_eq (w : Nat) : u16Rev w = k16Rev w := rfl
theorem k16Bitrev_eq (w : Nat) : u16Bitrev w = k16Bitrev w := rfl
theorem k16Weight_eq (w : Nat) : u16Weight w = k16Weight w := rfl
theorem k16Parity_eq (w : Nat) : u16Parity w = k16Parity w := rfl
theorem k16CTZ_safe_eq (w : Nat) : u16CTZ_safe w = k16CTZ_safe w := rfl
theorem k16CLZ_safe_eq (w : Nat) : u16CLZ_safe w = k16CLZ_safe w := rfl
theorem k16Shuffle_eq (w : Nat) : u16Shuffle w = k16Shuffle w := rfl
theorem k16Deshuffle_eq (w : Nat) : u16Deshuffle w = k16Deshuffle w := rfl
theorem k16NegInv_eq (w : Nat) : u16NegInv w = k16NegInv w := rfl

def pop16K (x0 : Nat) : Nat :=
  let x1 := Nat.div x0 2
  let x2 := Nat.div x1 2
  let x3 := Nat.div x2 2
  let x4 := Nat.div x3 2
  let x5 := Nat.div x4 2
  let x6 := Nat.div x5 2
  let x7 := Nat.div x6 2
  let x8 := Nat.div x7 2
  let x9 := Nat.div x8 2
  let x10 := Nat.div x9 2
  let x11 := Nat.div x10 2
  let x12 := Nat.div x11 2
  let x13 := Nat.div x12 2
  let x14 := Nat.div x13 2
  let x15 := Nat.div x14 2
  Nat.add (Nat.mod x0 2) (Nat.add (Nat.mod x1 2) (Nat.add (Nat.mod x2 2) (Nat.add (Nat.mod x3 2) (Nat.add (Nat.mod x4 2) (Nat.add (Nat.mod x5 2) (Nat.add (Nat.mod x6 2) (Nat.add (Nat.mod x7 2) (Nat.add (Nat.mod x8 2) (Nat.add (Nat.mod x9 2) (Nat.add (Nat.mod x10 2) (Nat.add (Nat.mod x11 2) (Nat.add (Nat.mod x12 2) (Nat.add (Nat.mod x13 2) (Nat.add (Nat.mod x14 2) (Nat.add (Nat.mod x15 2) (0))))))))))))))))
def brev16K (x0 : Nat) : Nat :=
  let x1 := Nat.div x0 2
  let x2 := Nat.div x1 2
  let x3 := Nat.div x2 2
  let x4 := Nat.div x3 2
  let x5 := Nat.div x4 2
  let x6 := Nat.div x5 2
  let x7 := Nat.div x6 2
  let x8 := Nat.div x7 2
  let x9 := Nat.div x8 2
  let x10 := Nat.div x9 2
  let x11 := Nat.div x10 2
  let x12 := Nat.div x11 2
  let x13 := Nat.div x12 2
  let x14 := Nat.div x13 2
  let x15 := Nat.div x14 2
  Nat.add (Nat.mul (Nat.mod x0 2) 32768) (Nat.add (Nat.mul (Nat.mod x1 2) 16384) (Nat.add (Nat.mul (Nat.mod x2 2) 8192) (Nat.add (Nat.mul (Nat.mod x3 2) 4096) (Nat.add (Nat.mul (Nat.mod x4 2) 2048) (Nat.add (Nat.mul (Nat.mod x5 2) 1024) (Nat.add (Nat.mul (Nat.mod x6 2) 512) (Nat.add (Nat.mul (Nat.mod x7 2) 256) (Nat.add (Nat.mul (Nat.mod x8 2) 128) (Nat.add (Nat.mul (Nat.mod x9 2) 64) (Nat.add (Nat.mul (Nat.mod x10 2) 32) (Nat.add (Nat.mul (Nat.mod x11 2) 16) (Nat.add (Nat.mul (Nat.mod x12 2) 8) (Nat.add (Nat.mul (Nat.mod x13 2) 4) (Nat.add (Nat.mul (Nat.mod x14 2) 2) (Nat.add (Nat.mul (Nat.mod x15 2) 1) (0))))))))))))))))
def shuf16K (l0 h0 : Nat) : Nat :=
  let l1 := Nat.div l0 2
  let l2 := Nat.div l1 2
  let l3 := Nat.div l2 2
  let l4 := Nat.div l3 2
  let l5 := Nat.div l4 2
  let l6 := Nat.div l5 2
  let l7 := Nat.div l6 2
  let h1 := Nat.div h0 2
  let h2 := Nat.div h1 2
  let h3 := Nat.div h2 2
  let h4 := Nat.div h3 2
  let h5 := Nat.div h4 2
  let h6 := Nat.div h5 2
  let h7 := Nat.div h6 2
  Nat.add (Nat.add (Nat.mod l0 2) (Nat.mul 2 (Nat.mod h0 2))) (Nat.mul 4 (Nat.add (Nat.add (Nat.mod l1 2) (Nat.mul 2 (Nat.mod h1 2))) (Nat.mul 4 (Nat.add (Nat.add (Nat.mod l2 2) (Nat.mul 2 (Nat.mod h2 2))) (Nat.mul 4 (Nat.add (Nat.add (Nat.mod l3 2) (Nat.mul 2 (Nat.mod h3 2))) (Nat.mul 4 (Nat.add (Nat.add (Nat.mod l4 2) (Nat.mul 2 (Nat.mod h4 2))) (Nat.mul 4 (Nat.add (Nat.add (Nat.mod l5 2) (Nat.mul 2 (Nat.mod h5 2))) (Nat.mul 4 (Nat.add (Nat.add (Nat.mod l6 2) (Nat.mul 2 (Nat.mod h6 2))) (Nat.mul 4 (Nat.add (Nat.add (Nat.mod l7 2) (Nat.mul 2 (Nat.mod h7 2))) (Nat.mul 4 (0))))))))))))))))

theorem pop16K_eq (x : Nat) : popN 16 x = pop16K x := rfl
theorem brev16K_eq (x : Nat) : bitrevN 16 x = brev16K x := by
  simp only [bitrevN, brev16K]; rfl
theorem shuf16K_eq (l h : Nat) : shufN 8 l h = shuf16K l h := rfl

def k16CTZ_fast (w : Nat) : Nat :=
  let l := 16
  let t := Nat.mod (Nat.shiftLeft w 8) 0x10000
  let (l, w) := if t ≠ 0 then (l - 8, t) else (l, w)
  let t := Nat.mod (Nat.shiftLeft w 4) 0x10000
  let (l, w) := if t ≠ 0 then (l - 4, t) else (l, w)
  let t := Nat.mod (Nat.shiftLeft w 2) 0x10000
  let (l, w) := if t ≠ 0 then (l - 2, t) else (l, w)
  if Nat.mod (Nat.shiftLeft w 1) 0x10000 ≠ 0 then l - 2 else l - (if w ≠ 0 then 1 else 0)
def k16CLZ_fast (w : Nat) : Nat :=
  let l := 16
  let t := Nat.shiftRight w 8
  let (l, w) := if t ≠ 0 then (l - 8, t) else (l, w)
  let t := Nat.shiftRight w 4
  let (l, w) := if t ≠ 0 then (l - 4, t) else (l, w)
  let t := Nat.shiftRight w 2
  let (l, w) := if t ≠ 0 then (l - 2, t) else (l, w)
  if Nat.shiftRight w 1 ≠ 0 then l - 2 else l - (if w ≠ 0 then 1 else 0)
theorem raw_mod (a b : Nat) : Nat.mod a b = a % b := rfl
theorem raw_shl (a b : Nat) : Nat.shiftLeft a b = a <<< b := rfl
theorem raw_shr (a b : Nat) : Nat.shiftRight a b = a >>> b := rfl
theorem k16CTZ_fast_eq (w : Nat) : u16CTZ_fast w = k16CTZ_fast w := by
  simp only [u16CTZ_fast, k16CTZ_fast, raw_mod, raw_shl]
theorem k16CLZ_fast_eq (w : Nat) : u16CLZ_fast w = k16CLZ_fast w := by
  simp only [u16CLZ_fast, k16CLZ_fast, raw_shr]

def ctzOk (x c : Nat) : Bool :=
  bif Nat.beq x 0 then Nat.beq c 16
  else (Nat.blt c 16 && Nat.beq (Nat.mod x (Nat.pow 2 c)) 0 &&
    Nat.beq (Nat.mod (Nat.div x (Nat.pow 2 c)) 2) 1)
def clzOk (x c : Nat) : Bool :=
  bif Nat.beq x 0 then Nat.beq c 16
  else (Nat.blt c 16 && Nat.beq (Nat.div x (Nat.pow 2 (Nat.sub 15 c))) 1)

theorem ctzOk_spec {x c : Nat} (h : ctzOk x c = true) : CtzSpec 16 x c := by
  unfold ctzOk at h
  by_cases hx : x = 0
  · subst hx
    simp at h
    exact ⟨fun _ => h, fun h0 => absurd rfl h0⟩
  · have hb : Nat.beq x 0 = false := by
      cases hb : Nat.beq x 0
      · rfl
      · exact absurd (Nat.eq_of_beq_eq_true hb) hx
    rw [hb] at h
    simp only [cond_false, Bool.and_eq_true, Nat.beq_eq_true_eq, Nat.blt_eq] at h
    exact ⟨fun h0 => absurd h0 hx, fun _ => ⟨h.1.1, Nat.eq_of_beq_eq_true h.1.2, Nat.eq_of_beq_eq_true h.2⟩⟩

theorem clzOk_spec {x c : Nat} (h : clzOk x c = true) : ClzSpec 16 x c := by
  unfold clzOk at h
  by_cases hx : x = 0
  · subst hx
    simp at h
    exact ⟨fun _ => h, fun h0 => absurd rfl h0⟩
  · have hb : Nat.beq x 0 = false := by
      cases hb : Nat.beq x 0
      · rfl
      · exact absurd (Nat.eq_of_beq_eq_true hb) hx
    rw [hb] at h
    simp only [cond_false, Bool.and_eq_true, Nat.beq_eq_true_eq, Nat.blt_eq] at h
    exact ⟨fun h0 => absurd h0 hx, fun _ => ⟨h.1, Nat.eq_of_beq_eq_true h.2⟩⟩

/-- everything that is claimed about the 16-bit helpers at the point `x`, as one Boolean -/
def chk16 (x : Nat) : Bool :=
  Nat.beq (k16Rev x) (Nat.add (Nat.mul (Nat.mod x 256) 256) (Nat.div x 256)) &&
  Nat.beq (k16Bitrev x) (brev16K x) &&
  Nat.beq (k16Weight x) (pop16K x) &&
  Nat.beq (k16Parity x) (Nat.mod (pop16K x) 2) &&
  ctzOk x (k16CTZ_safe x) && ctzOk x (k16CTZ_fast x) &&
  clzOk x (k16CLZ_safe x) && clzOk x (k16CLZ_fast x) &&
  Nat.beq (k16Shuffle x) (shuf16K (Nat.mod x 256) (Nat.div x 256)) &&
  Nat.beq (k16Deshuffle (k16Shuffle x)) x && Nat.beq (k16Shuffle (k16Deshuffle x)) x &&
  (Nat.beq (Nat.mod x 2) 0 || Nat.beq (Nat.mod (Nat.add (Nat.mul (k16NegInv x) x) 1) 65536) 0)

/-- `p` holds at lo, lo+1, …, lo+k-1 (the index is computed from literals, so that the kernel
    evaluates `p` at a literal) -/
def allRange (p : Nat → Bool) : Nat → Nat → Bool
  | _, 0 => true
  | lo, k+1 => p (lo + k) && allRange p lo k

theorem allRange_spec {p : Nat → Bool} {lo k : Nat} (h : allRange p lo k = true) :
    ∀ x, lo ≤ x → x < lo + k → p x = true := by
  induction k with
  | zero => intro x h1 h2; omega
  | succ k ih =>
    intro x h1 h2
    simp only [allRange, Bool.and_eq_true] at h
    by_cases hx : x = lo + k
    · rw [hx]; exact h.1
    · exact ih h.2 x h1 (by omega)

/-! complete enumeration of the 65536 values of a 16-bit word, in 16 chunks checked by the kernel -/
set_option maxRecDepth 100000 in
theorem chk16_c0 : allRange chk16 0 4096 = true := by decide +kernel
set_option maxRecDepth 100000 in
theorem chk16_c1 : allRange chk16 4096 4096 = true := by decide +kernel
set_option maxRecDepth 100000 in
theorem chk16_c2 : allRange chk16 8192 4096 = true := by decide +kernel
set_option maxRecDepth 100000 in
theorem chk16_c3 : allRange chk16 12288 4096 = true := by decide +kernel
set_option maxRecDepth 100000 in
theorem chk16_c4 : allRange chk16 16384 4096 = true := by decide +kernel
set_option maxRecDepth 100000 in
theorem chk16_c5 : allRange chk16 20480 4096 = true := by decide +kernel
set_option maxRecDepth 100000 in
theorem chk16_c6 : allRange chk16 24576 4096 = true := by decide +kernel
set_option maxRecDepth 100000 in
theorem chk16_c7 : allRange chk16 28672 4096 = true := by decide +kernel
set_option maxRecDepth 100000 in
theorem chk16_c8 : allRange chk16 32768 4096 = true := by decide +kernel
set_option maxRecDepth 100000 in
theorem chk16_c9 : allRange chk16 36864 4096 = true := by decide +kernel
set_option maxRecDepth 100000 in
theorem chk16_c10 : allRange chk16 40960 4096 = true := by decide +kernel
set_option maxRecDepth 100000 in
theorem chk16_c11 : allRange chk16 45056 4096 = true := by decide +kernel
set_option maxRecDepth 100000 in
theorem chk16_c12 : allRange chk16 49152 4096 = true := by decide +kernel
set_option maxRecDepth 100000 in
theorem chk16_c13 : allRange chk16 53248 4096 = true := by decide +kernel
set_option maxRecDepth 100000 in
theorem chk16_c14 : allRange chk16 57344 4096 = true := by decide +kernel
set_option maxRecDepth 100000 in
theorem chk16_c15 : allRange chk16 61440 4096 = true := by decide +kernel

theorem chk16_all (x : Nat) (hx : x < 65536) : chk16 x = true := by
  by_cases h0 : x < 4096
  · exact allRange_spec chk16_c0 x (by omega) (by omega)
  by_cases h1 : x < 8192
  · exact allRange_spec chk16_c1 x (by omega) (by omega)
  by_cases h2 : x < 12288
  · exact allRange_spec chk16_c2 x (by omega) (by omega)
  by_cases h3 : x < 16384
  · exact allRange_spec chk16_c3 x (by omega) (by omega)
  by_cases h4 : x < 20480
  · exact allRange_spec chk16_c4 x (by omega) (by omega)
  by_cases h5 : x < 24576
  · exact allRange_spec chk16_c5 x (by omega) (by omega)
  by_cases h6 : x < 28672
  · exact allRange_spec chk16_c6 x (by omega) (by omega)
  by_cases h7 : x < 32768
  · exact allRange_spec chk16_c7 x (by omega) (by omega)
  by_cases h8 : x < 36864
  · exact allRange_spec chk16_c8 x (by omega) (by omega)
  by_cases h9 : x < 40960
  · exact allRange_spec chk16_c9 x (by omega) (by omega)
  by_cases h10 : x < 45056
  · exact allRange_spec chk16_c10 x (by omega) (by omega)
  by_cases h11 : x < 49152
  · exact allRange_spec chk16_c11 x (by omega) (by omega)
  by_cases h12 : x < 53248
  · exact allRange_spec chk16_c12 x (by omega) (by omega)
  by_cases h13 : x < 57344
  · exact allRange_spec chk16_c13 x (by omega) (by omega)
  by_cases h14 : x < 61440
  · exact allRange_spec chk16_c14 x (by omega) (by omega)
  by_cases h15 : x < 65536
  · exact allRange_spec chk16_c15 x (by omega) (by omega)
  omega

/-- the conjuncts of `chk16`, in terms of the models and the structural specifications -/
theorem chk16_unpack {x : Nat} (h : chk16 x = true) :
    u16Rev x = (x % 256) * 256 + x / 256 ∧ u16Bitrev x = bitrevN 16 x ∧
    u16Weight x = popN 16 x ∧ u16Parity x = popN 16 x % 2 ∧
    CtzSpec 16 x (u16CTZ_safe x) ∧ CtzSpec 16 x (u16CTZ_fast x) ∧
    ClzSpec 16 x (u16CLZ_safe x) ∧ ClzSpec 16 x (u16CLZ_fast x) ∧
    u16Shuffle x = shufN 8 (x % 256) (x / 256) ∧
    u16Deshuffle (u16Shuffle x) = x ∧ u16Shuffle (u16Deshuffle x) = x ∧
    (x % 2 = 1 → (u16NegInv x * x + 1) % 65536 = 0) := by
  simp only [chk16, Bool.and_eq_true, Bool.or_eq_true, Nat.beq_eq_true_eq] at h
  obtain ⟨⟨⟨⟨⟨⟨⟨⟨⟨⟨⟨h1, h2⟩, h3⟩, h4⟩, h5⟩, h6⟩, h7⟩, h8⟩, h9⟩, h10⟩, h11⟩, h12⟩ := h
  rw [k16Rev_eq, k16Bitrev_eq, k16Weight_eq, k16Parity_eq, k16CTZ_safe_eq, k16CTZ_fast_eq,
    k16CLZ_safe_eq, k16CLZ_fast_eq, k16Shuffle_eq, k16Deshuffle_eq, k16NegInv_eq,
    pop16K_eq, brev16K_eq, shuf16K_eq]
  have e := @Nat.eq_of_beq_eq_true
  refine ⟨e h1, e h2, e h3, e h4, ctzOk_spec h5, ctzOk_spec h6, clzOk_spec h7, clzOk_spec h8,
    e h9, e h10, e h11, ?_⟩
  intro hodd
  rcases h12 with h12 | h12
  · have : x % 2 = 0 := e h12
    omega
  · exact e h12




end Bee2V.C05

/-
C05 — WORD-LEVEL code-shaped models of the binary algorithms of
  src/math/pp/pp_gcd.c : ppGCD, ppExGCD          src/math/pp/pp_mod.c : ppDivMod, ppInvMod
(the value-level models of the same loops are in ModelPp.lean; the refinement
`val (word level) = value level` is proved in PropsPpW.lean).

The stack variables are word lists with their C lengths; the normalised lengths n, m / nu, mv / nu, nv
are carried as the C does: every operation on `u` acts on the prefix `u[0 .. nu)`
(`wwShLo(u, nu, 1)`, `wwCmp2(u, nu, v, mv)`, `wwXor2(u, v, mv)`, `wwIsZero(u, nu)`) and leaves the
words above untouched (they are zero: theorem).  Every statement is the corresponding model of
ModelAdd / ModelBits (wwShLo, wwXor2, wwTestBit, wwWordSize, wwLoZeroBits, wwBitSize, wwShHi,
wwCmp2 / wwIsZero / wwIsW: default = SAFE editions).  As in ModelGcdW's zzExGCDW the coefficient
buffers of ppExGCD are kept at the normalised lengths the C uses for all their operations
(da0, da: m = wwWordSize(bb) words; db0, db: n = wwWordSize(aa) words) and padded with the zero words
of the output buffers at the end.  Loops are fuel-bounded with the SAME fuel as the value-level
models (computed from `val`), which keeps the two models in lockstep.

No Mathlib (imported by the native driver).
-/
import Bee2V.C05.ModelAdd
import Bee2V.C05.ModelBits
import Bee2V.C05.ModelPp
import Bee2V.C05.ModelGcdW
namespace Bee2V.C05

/-- `wwXor2(x, y, k)`: x[0 .. k) ^= y[0 .. k) -/
def xorPrefixW (k : Nat) (x y : List Nat) : List Nat :=
  onPrefixW k (fun p => wwXor2 p (y.take k)) x

/-- `wwShLo(x, k, 1)` -/
def shLo1W (w k : Nat) (x : List Nat) : List Nat := onPrefixW k (fun p => wwShLo w p 1) x

/-! ## ppGCD -/

/-- the `do … while (!wwIsZero(u, n))` loop of ppGCD; returns (v, m) -/
def ppGCDLoopW (w : Nat) : Nat → List Nat → Nat → List Nat → Nat → List Nat × Nat
  | 0, _, _, v, m => (v, m)
  | f + 1, u, n, v, m =>
    let u := onPrefixW n (fun p => wwShLo w p (wwLoZeroBits w p)) u
    let n := wwWordSize (u.take n)
    let v := onPrefixW m (fun p => wwShLo w p (wwLoZeroBits w p)) v
    let m := wwWordSize (v.take m)
    if wwCmp2_safe (u.take n) (v.take m) ≥ 0 then
      let u := xorPrefixW m u v
      if !wwIsZero_safe (u.take n) then ppGCDLoopW w f u n v m else (v, m)
    else
      let v := xorPrefixW n v u
      if !wwIsZero_safe (u.take n) then ppGCDLoopW w f u n v m else (v, m)

/-- ppGCD(d, a, n, b, m): min(n, m) words -/
def ppGCDW (w : Nat) (a b : List Nat) : List Nat :=
  let k := min a.length b.length
  let s := min (wwLoZeroBits w a) (wwLoZeroBits w b)
  let u := wwShLo w a s
  let n := wwWordSize u
  let v := wwShLo w b s
  let m := wwWordSize v
  let r := ppGCDLoopW w ((val w u).log2 + (val w v).log2 + 3) u n v m
  -- wwCopy(d, v, m); wwShHi(d, W_OF_B(wwBitSize(d, m) + s), s)
  let d := (r.1.take r.2 ++ List.replicate (k - r.2) 0).take k
  let win := (wwBitSize w (d.take r.2) + s + w - 1) / w
  onPrefixW win (fun p => wwShHi w p s) d

/-! ## ppExGCD -/

/-- `for (; wwTestBit(u, 0) == 0; wwShLo(u, nu, 1))` with the coefficient update: both even:
    `wwShLo(da0, m, 1); wwShLo(db0, n, 1)`, otherwise `wwXor2(da0, bb, m), wwShLo(da0, m, 1);
    wwXor2(db0, aa, n), wwShLo(db0, n, 1)`; returns (u, da0, db0) -/
def ppHalveExW (w : Nat) (aa bb : List Nat) (nu : Nat) :
    Nat → List Nat → List Nat → List Nat → List Nat × List Nat × List Nat
  | 0, u, da, db => (u, da, db)
  | f + 1, u, da, db =>
    if wwTestBit w u 0 = false then
      if wwTestBit w da 0 = false ∧ wwTestBit w db 0 = false then
        ppHalveExW w aa bb nu f (shLo1W w nu u) (wwShLo w da 1) (wwShLo w db 1)
      else
        ppHalveExW w aa bb nu f (shLo1W w nu u) (wwShLo w (wwXor2 da bb) 1) (wwShLo w (wwXor2 db aa) 1)
    else (u, da, db)

/-- the `do … while (!wwIsZero(u, nu))` loop of ppExGCD; aa has n words, bb m words (normalised),
    u, db0, db have n words, v, da0, da have m words; returns (v, mv, da, db) -/
def ppExGCDLoopW (w : Nat) (aa bb : List Nat) :
    Nat → List Nat → Nat → List Nat → Nat → List Nat → List Nat → List Nat → List Nat →
      List Nat × Nat × List Nat × List Nat
  | 0, _, _, v, mv, _, _, da, db => (v, mv, da, db)
  | f + 1, u, nu, v, mv, da0, db0, da, db =>
    let r0 := ppHalveExW w aa bb nu ((val w u).log2 + 1) u da0 db0
    let r1 := ppHalveExW w aa bb mv ((val w v).log2 + 1) v da db
    let u := r0.1; let da0 := r0.2.1; let db0 := r0.2.2
    let v := r1.1; let da := r1.2.1; let db := r1.2.2
    let nu := wwWordSize (u.take nu)
    let mv := wwWordSize (v.take mv)
    if wwCmp2_safe (u.take nu) (v.take mv) ≥ 0 then
      let u' := xorPrefixW mv u v
      let da0' := wwXor2 da0 da
      let db0' := wwXor2 db0 db
      if !wwIsZero_safe (u'.take nu) then ppExGCDLoopW w aa bb f u' nu v mv da0' db0' da db
      else (v, mv, da, db)
    else
      let v' := xorPrefixW nu v u
      let da' := wwXor2 da da0
      let db' := wwXor2 db db0
      if !wwIsZero_safe (u.take nu) then ppExGCDLoopW w aa bb f u nu v' mv da0 db0 da' db'
      else (v', mv, da', db')

/-- ppExGCD(d, da, db, a, n, b, m): (d: min(n, m) words, da: m words, db: n words) -/
def ppExGCDW (w : Nat) (a b : List Nat) : List Nat × List Nat × List Nat :=
  let n0 := a.length
  let m0 := b.length
  let k := min n0 m0
  let s := min (wwLoZeroBits w a) (wwLoZeroBits w b)
  let aa0 := wwShLo w a s
  let n := wwWordSize aa0
  let aa := aa0.take n
  let bb0 := wwShLo w b s
  let m := wwWordSize bb0
  let bb := bb0.take m
  -- da0 <- 1, db0 <- 0, da <- 0, db <- 1 (the loop uses m resp. n words of them)
  let da0 := (1 :: List.replicate (m0 - 1) 0).take m
  let db0 := List.replicate n 0
  let da := List.replicate m 0
  let db := (1 :: List.replicate (n0 - 1) 0).take n
  let r := ppExGCDLoopW w aa bb ((val w aa).log2 + (val w bb).log2 + 3) aa n bb m da0 db0 da db
  -- wwCopy(d, v, mv); wwShHi(d, W_OF_B(wwBitSize(d, mv) + s), s)
  let d := (r.1.take r.2.1 ++ List.replicate (k - r.2.1) 0).take k
  let win := (wwBitSize w (d.take r.2.1) + s + w - 1) / w
  (onPrefixW win (fun p => wwShHi w p s) d,
   r.2.2.1 ++ List.replicate (m0 - m) 0,
   r.2.2.2 ++ List.replicate (n0 - n) 0)

/-! ## ppDivMod, ppInvMod -/

/-- `for (; wwTestBit(u, 0) == 0; wwShLo(u, nu, 1)) if (wwTestBit(da0, 0) == 0) wwShLo(da0, n, 1);
    else wwXor2(da0, mod, n), wwShLo(da0, n, 1);` — returns (u, da0) -/
def ppHalveModW (w : Nat) (md : List Nat) (nu : Nat) : Nat → List Nat → List Nat → List Nat × List Nat
  | 0, u, da => (u, da)
  | f + 1, u, da =>
    if wwTestBit w u 0 = false then
      if wwTestBit w da 0 = false then ppHalveModW w md nu f (shLo1W w nu u) (wwShLo w da 1)
      else ppHalveModW w md nu f (shLo1W w nu u) (wwShLo w (wwXor2 da md) 1)
    else (u, da)

/-- the `while (!wwIsZero(u, nu))` loop of ppDivMod; returns (v, nv, da) -/
def ppDivModLoopW (w : Nat) (md : List Nat) :
    Nat → List Nat → Nat → List Nat → Nat → List Nat → List Nat → List Nat × Nat × List Nat
  | 0, _, _, v, nv, _, da => (v, nv, da)
  | f + 1, u, nu, v, nv, da0, da =>
    if wwIsZero_safe (u.take nu) then (v, nv, da) else
    let r0 := ppHalveModW w md nu ((val w u).log2 + 1) u da0
    let r1 := ppHalveModW w md nv ((val w v).log2 + 1) v da
    let u := r0.1; let da0 := r0.2
    let v := r1.1; let da := r1.2
    let nu := wwWordSize (u.take nu)
    let nv := wwWordSize (v.take nv)
    if wwCmp2_safe (u.take nu) (v.take nv) ≥ 0 then
      ppDivModLoopW w md f (xorPrefixW nv u v) nu v nv (wwXor2 da0 da) da
    else
      ppDivModLoopW w md f u nu (xorPrefixW nu v u) nv da0 (wwXor2 da da0)

/-- ppDivMod(b, divident, a, mod, n) -/
def ppDivModW (w : Nat) (divident a md : List Nat) : List Nat :=
  let n := md.length
  let r := ppDivModLoopW w md ((val w a).log2 + (val w md).log2 + 4) a (wwWordSize a) md n divident
    (List.replicate n 0)
  if wwIsW_safe (r.1.take r.2.1) 1 then r.2.2 else List.replicate n 0

/-- ppInvMod(b, a, mod, n): `wwSetW(divident, n, 1); ppDivMod(b, divident, a, mod, n)` -/
def ppInvModW (w : Nat) (a md : List Nat) : List Nat := ppDivModW w (wwSetW md 1) a md

end Bee2V.C05

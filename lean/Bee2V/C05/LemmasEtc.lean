/-
C05 — helper lemmas for PropsEtc.lean (value-level models of ModelEtc.lean).
Everything lives in `namespace Bee2V.C05.Etc`.
-/
import Bee2V.C05.ModelEtc
import Mathlib.Tactic.Ring
import Mathlib.Tactic.Linarith
import Mathlib.Tactic.NormNum
import Mathlib.Data.Nat.ModEq
namespace Bee2V.C05.Etc
open Bee2V.C05

/-! ## sliding window: the bit bookkeeping -/

/-- the slide `(s, k)` taken below position `p` of `b`: `k` bits, value `s`, non-zero -/
def SlideInv (b p k s : Nat) : Prop :=
  k ≤ p ∧ 0 < s ∧ s < 2 ^ k ∧ b / 2 ^ (p - k) = (b / 2 ^ p) * 2 ^ k + s

theorem div_pow_sub (b p k : Nat) (hk : k ≤ p) : b / 2 ^ (p - k) / 2 ^ k = b / 2 ^ p := by
  rw [Nat.div_div_eq_div_mul, ← Nat.pow_add]
  congr 2; omega

theorem slideInv_init (b p wd : Nat) (hp : 1 ≤ p) (hb : b / 2 ^ (p - 1) % 2 = 1) (hwd : 1 ≤ wd) :
    SlideInv b p (min p wd) (b / 2 ^ (p - min p wd) % 2 ^ (min p wd)) := by
  unfold SlideInv
  generalize hk : min p wd = k
  have hk1 : 1 ≤ k := by omega
  have hkp : k ≤ p := by omega
  have hX := div_pow_sub b p k hkp
  have h2 : b / 2 ^ (p - k) / 2 ^ (k - 1) = b / 2 ^ (p - 1) := by
    rw [Nat.div_div_eq_div_mul, ← Nat.pow_add]
    congr 2; omega
  generalize b / 2 ^ (p - k) = X at *
  have hdm := Nat.div_add_mod X (2 ^ k)
  have hlt : X % 2 ^ k < 2 ^ k := Nat.mod_lt _ (Nat.two_pow_pos k)
  refine ⟨hkp, ?_, hlt, ?_⟩
  · rcases Nat.eq_zero_or_pos (X % 2 ^ k) with h0 | h0
    · exfalso
      have h3 : X = 2 ^ (k - 1) * (2 * (X / 2 ^ k)) := by
        have e : 2 ^ k = 2 ^ (k - 1) * 2 := by rw [← Nat.pow_succ]; congr 1; omega
        generalize X / 2 ^ k = q at *
        rw [h0, e] at hdm
        rw [← hdm]; ring
      rw [← h2, h3, Nat.mul_div_cancel_left _ (Nat.two_pow_pos _)] at hb
      omega
    · exact h0
  · rw [← hX, Nat.mul_comm]; exact hdm.symm

theorem slideInv_step (b p k s : Nat) (h : SlideInv b p k s) (hs : s % 2 = 0) :
    SlideInv b p (k - 1) (s / 2) := by
  obtain ⟨h1, h2, h3, h4⟩ := h
  have hk : k ≠ 0 := by
    rintro rfl
    simp at h3; omega
  obtain ⟨k', rfl⟩ := Nat.exists_eq_succ_of_ne_zero hk
  change SlideInv b p k' (s / 2)
  have e1 : 2 ^ (k' + 1) = 2 ^ k' * 2 := by rw [pow_succ]
  have e2 : b / 2 ^ (p - k') = b / 2 ^ (p - (k' + 1)) / 2 := by
    rw [Nat.div_div_eq_div_mul, ← Nat.pow_succ]
    congr 2; omega
  refine ⟨by omega, by omega, by omega, ?_⟩
  rw [e2, h4, e1, ← Nat.mul_assoc]
  omega

theorem slideStrip_spec (b p : Nat) : ∀ (f k s : Nat), SlideInv b p k s → k ≤ f →
    SlideInv b p (slideStrip f s k).2 (slideStrip f s k).1 ∧ (slideStrip f s k).1 % 2 = 1
      ∧ (slideStrip f s k).2 ≤ k := by
  intro f
  induction f with
  | zero =>
    intro k s h hk
    obtain ⟨_, h2, h3, _⟩ := h
    have : k = 0 := by omega
    subst this
    simp at h3; omega
  | succ f ih =>
    intro k s h hk
    unfold slideStrip
    by_cases hs : s % 2 = 0
    · rw [if_pos hs]
      have hk0 : k ≠ 0 := by
        rintro rfl
        obtain ⟨_, h2, h3, _⟩ := h
        simp at h3; omega
      obtain ⟨g1, g2, g3⟩ := ih (k - 1) (s / 2) (slideInv_step b p k s h hs) (by omega)
      exact ⟨g1, g2, by omega⟩
    · rw [if_neg hs]
      exact ⟨h, by omega, Nat.le_refl _⟩

/-- a slide has at least one bit and indexes inside the table of `2^(wd-1)` odd powers -/
theorem slideInv_bounds {b p k s wd : Nat} (h : SlideInv b p k s) (hk : k ≤ wd) (hwd : 1 ≤ wd) :
    1 ≤ k ∧ s / 2 < 2 ^ (wd - 1) := by
  obtain ⟨_, h2, h3, _⟩ := h
  have hk0 : k ≠ 0 := by
    rintro rfl
    simp at h3; omega
  have : 2 ^ k ≤ 2 ^ wd := Nat.pow_le_pow_right (by omega) hk
  have e : 2 ^ wd = 2 ^ (wd - 1) * 2 := by rw [← Nat.pow_succ]; congr 1; omega
  omega

theorem top_bit (b : Nat) (hb : b ≠ 0) :
    b / 2 ^ (Nat.log2 b + 1) = 0 ∧ b / 2 ^ (Nat.log2 b + 1 - 1) % 2 = 1 := by
  have h1 := Nat.lt_log2_self (n := b)
  have h2 := Nat.log2_self_le hb
  refine ⟨Nat.div_eq_of_lt h1, ?_⟩
  simp only [Nat.add_sub_cancel]
  have : b / 2 ^ Nat.log2 b = 1 := by
    apply Nat.div_eq_of_lt_le
    · simpa using h2
    · rw [Nat.pow_succ] at h1; omega
  rw [this]

/-! ## qrPower: generic correctness

`pw k` is "the k-th power of a" in the ring: any family with `pw 1 = a`,
`mul (pw i) (pw j) = pw (i + j)`, `sqr (pw i) = pw (2 i)`. -/

section Generic
variable {α : Type} (mul : α → α → α) (sqr : α → α) (pw : Nat → α)
  (hmul : ∀ i j, mul (pw i) (pw j) = pw (i + j)) (hsqr : ∀ i, sqr (pw i) = pw (2 * i))
include hsqr in
theorem qrSqrN_pw (k i : Nat) : qrSqrN sqr k (pw i) = pw (i * 2 ^ k) := by
  induction k generalizing i with
  | zero => simp [qrSqrN]
  | succ k ih =>
    unfold qrSqrN
    rw [hsqr, ih]
    congr 1; rw [Nat.pow_succ]; ring

include hmul in
theorem qrPowersLoop_spec (k t : Nat) :
    qrPowersLoop mul (pw 2) k (((List.range (t + 1)).reverse.map fun j => pw (2 * j + 3)) ++ [pw 2])
      = ((List.range (t + 1 + k)).reverse.map fun j => pw (2 * j + 3)) ++ [pw 2] := by
  induction k generalizing t with
  | zero => simp [qrPowersLoop]
  | succ k ih =>
    have e : ((List.range (t + 1)).reverse.map fun j => pw (2 * j + 3)) ++ [pw 2]
        = pw (2 * t + 3) :: (((List.range t).reverse.map fun j => pw (2 * j + 3)) ++ [pw 2]) := by
      rw [List.range_succ]; simp
    rw [e]
    unfold qrPowersLoop
    simp only []
    rw [hmul, ← e]
    have e' : pw (2 * t + 3 + 2) :: (((List.range (t + 1)).reverse.map fun j => pw (2 * j + 3)) ++ [pw 2])
        = ((List.range (t + 1 + 1)).reverse.map fun j => pw (2 * j + 3)) ++ [pw 2] := by
      rw [List.range_succ (n := t + 1)]; simp
      congr 1
    rw [e', ih]
    congr 4; omega

include hmul hsqr in
theorem qrPowers_spec (wd : Nat) (hwd : 1 ≤ wd) :
    qrPowers mul sqr (pw 1) wd = (List.range (2 ^ (wd - 1))).map fun j => pw (2 * j + 1) := by
  unfold qrPowers
  by_cases h1 : wd = 1
  · subst h1; simp
  · rw [if_neg h1]
    obtain ⟨v, rfl⟩ : ∃ v, wd = v + 2 := ⟨wd - 2, by omega⟩
    simp only [show v + 2 - 1 = v + 1 from rfl]
    obtain ⟨c, hc⟩ : ∃ c, 2 ^ (v + 1) = c + 2 := by
      have : 2 ≤ 2 ^ (v + 1) := by
        calc 2 = 2 ^ 1 := rfl
          _ ≤ 2 ^ (v + 1) := Nat.pow_le_pow_right (by omega) (by omega)
      exact ⟨2 ^ (v + 1) - 2, by omega⟩
    rw [hc, Nat.add_sub_cancel]
    have e0 : [mul (pw 1) (sqr (pw 1)), sqr (pw 1)]
        = ((List.range (0 + 1)).reverse.map fun j => pw (2 * j + 3)) ++ [pw 2] := by
      simp [hsqr, hmul]
    rw [e0, hsqr, show 2 * 1 = 2 from rfl, qrPowersLoop_spec mul pw hmul]
    rw [List.reverse_append, List.reverse_singleton, List.singleton_append, List.drop_one,
      List.tail_cons, ← List.map_reverse, List.reverse_reverse]
    rw [show 0 + 1 + c = c + 1 by omega, List.range_succ_eq_map (n := c + 1)]
    simp [List.map_map, Function.comp_def]
    intro j _
    congr 1

include hmul hsqr in
theorem qrPowers_getD (wd : Nat) (hwd : 1 ≤ wd) (d : α) (j : Nat) (hj : j < 2 ^ (wd - 1)) :
    (qrPowers mul sqr (pw 1) wd).getD j d = pw (2 * j + 1) := by
  rw [qrPowers_spec mul sqr pw hmul hsqr wd hwd]
  simp [List.getD_eq_getElem?_getD, hj]

include hmul hsqr in
/-- the main loop: from `pw (b >> p)` to `pw b` -/
theorem qrPowerLoop_spec (tbl : Nat → α) (b wd : Nat) (hwd : 1 ≤ wd)
    (htbl : ∀ j, j < 2 ^ (wd - 1) → tbl j = pw (2 * j + 1)) :
    ∀ (f p : Nat), p ≤ f → qrPowerLoop mul sqr tbl b wd f p (pw (b / 2 ^ p)) = pw b := by
  intro f
  induction f with
  | zero =>
    intro p hp
    have : p = 0 := by omega
    subst this
    simp [qrPowerLoop]
  | succ f ih =>
    intro p hp
    unfold qrPowerLoop
    by_cases hp0 : p = 0
    · subst hp0; simp
    · rw [if_neg hp0]
      simp only []
      have e2 : b / 2 ^ (p - 1) = 2 * (b / 2 ^ p) + b / 2 ^ (p - 1) % 2 := by
        have : b / 2 ^ p = b / 2 ^ (p - 1) / 2 := by
          rw [Nat.div_div_eq_div_mul, ← Nat.pow_succ]; congr 2; omega
        omega
      by_cases hbit : b / 2 ^ (p - 1) % 2 = 0
      · rw [if_pos hbit, hsqr]
        have := ih (p - 1) (by omega)
        rw [e2, hbit, Nat.add_zero] at this
        exact this
      · rw [if_neg hbit]
        have hp1 : p - 1 + 1 = p := by omega
        rw [hp1]
        have hI := slideInv_init b p wd (by omega) (by omega) hwd
        obtain ⟨g1, g2, g3⟩ := slideStrip_spec b p _ _ _ hI (Nat.le_refl _)
        generalize slideStrip (min p wd) (b / 2 ^ (p - min p wd) % 2 ^ min p wd) (min p wd) = r at *
        obtain ⟨b1, b2⟩ := slideInv_bounds g1 (Nat.le_trans g3 (Nat.min_le_right _ _)) hwd
        rw [qrSqrN_pw sqr pw hsqr, htbl _ b2, hmul]
        have hodd : 2 * (r.1 / 2) + 1 = r.1 := by omega
        rw [hodd, ← g1.2.2.2]
        exact ih (p - r.2) (by omega)

include hmul hsqr in
/-- qrPowerG computes `pw b` for every window width ≥ 1 -/
theorem qrPowerG_gen (unity : α) (h0 : pw 0 = unity) (b wd : Nat) (hwd : 1 ≤ wd) :
    qrPowerG mul sqr unity (pw 1) b wd = pw b := by
  unfold qrPowerG
  by_cases hb : b = 0
  · rw [if_pos hb, hb, h0]
  · rw [if_neg hb]
    simp only []
    have hbs : bitSizeV b - 1 = Nat.log2 b := by unfold bitSizeV; rw [if_neg hb]; rfl
    rw [hbs]
    obtain ⟨t1, t2⟩ := top_bit b hb
    generalize Nat.log2 b + 1 = p at *
    have hp : 1 ≤ p := by
      rcases Nat.eq_zero_or_pos p with h | h
      · subst h; simp at t1; omega
      · exact h
    have hI := slideInv_init b p wd hp t2 hwd
    obtain ⟨g1, g2, g3⟩ := slideStrip_spec b p _ _ _ hI (Nat.le_refl _)
    generalize slideStrip (min p wd) (b / 2 ^ (p - min p wd) % 2 ^ min p wd) (min p wd) = r at *
    obtain ⟨b1, b2⟩ := slideInv_bounds g1 (Nat.le_trans g3 (Nat.min_le_right _ _)) hwd
    rw [qrPowers_getD mul sqr pw hmul hsqr wd hwd unity _ b2]
    have hodd : 2 * (r.1 / 2) + 1 = r.1 := by omega
    have e := g1.2.2.2
    rw [t1, Nat.zero_mul, Nat.zero_add] at e
    rw [hodd, ← e]
    exact qrPowerLoop_spec mul sqr pw hmul hsqr _ b wd hwd
      (fun j hj => qrPowers_getD mul sqr pw hmul hsqr wd hwd unity j hj) p (p - r.2) (by omega)

end Generic

/-! ## zzPowerModW -/

/-- `prod = x; prod *= y; prod %= mod; (word)prod` -/
def mulW (w mod x y : Nat) : Nat := (x * y % 2 ^ (2 * w)) % mod % 2 ^ w

theorem mulW_eq {w mod x y : Nat} (hm : mod < 2 ^ w) (hx : x < mod) (hy : y < mod) :
    mulW w mod x y = x * y % mod := by
  unfold mulW
  have h1 : x * y < 2 ^ (2 * w) := by
    rw [Nat.two_mul, Nat.pow_add]
    exact Nat.mul_lt_mul'' (by omega) (by omega)
  rw [Nat.mod_eq_of_lt h1]
  exact Nat.mod_eq_of_lt (Nat.lt_trans (Nat.mod_lt _ (by omega)) hm)

theorem mulW_pw {w mod a : Nat} (hm : mod < 2 ^ w) (hm0 : mod ≠ 0) (i j : Nat) :
    mulW w mod (a ^ i % mod) (a ^ j % mod) = a ^ (i + j) % mod := by
  rw [mulW_eq hm (Nat.mod_lt _ (by omega)) (Nat.mod_lt _ (by omega)), ← Nat.mul_mod, ← Nat.pow_add]

theorem powSqrN_eq (w mod : Nat) (k a : Nat) :
    powSqrN w mod k a = qrSqrN (fun x => mulW w mod x x) k a := by
  induction k generalizing a with
  | zero => rfl
  | succ k ih => unfold powSqrN qrSqrN; rw [ih]; rfl

theorem zzPowerModWLoop_eq (w b mod : Nat) (pwf : Nat → Nat) (hb : b < 2 ^ w) (f p a : Nat) :
    zzPowerModWLoop w b mod pwf f p a
      = qrPowerLoop (mulW w mod) (fun x => mulW w mod x x) pwf b 3 f p a := by
  induction f generalizing p a with
  | zero => rfl
  | succ f ih =>
    unfold zzPowerModWLoop qrPowerLoop
    have hlt : ∀ k, b / 2 ^ k % 2 ^ w = b / 2 ^ k := fun k =>
      Nat.mod_eq_of_lt (Nat.lt_of_le_of_lt (Nat.div_le_self _ _) hb)
    simp only [hlt, powSqrN_eq, ih]
    rfl

theorem mulD_eq {w mod x y : Nat} (hm : mod < 2 ^ w) (hx : x < mod) (hy : y < mod) :
    (x * y % 2 ^ (2 * w)) % mod = x * y % mod := by
  have h1 : x * y < 2 ^ (2 * w) := by
    rw [Nat.two_mul, Nat.pow_add]
    exact Nat.mul_lt_mul'' (by omega) (by omega)
  rw [Nat.mod_eq_of_lt h1]

/-- zzPowerModW with the base already reduced -/
theorem zzPowerModW_red (w a b mod : Nat) (hm0 : mod ≠ 0) (ha : a < mod) (hb : b < 2 ^ w)
    (hm : mod < 2 ^ w) : zzPowerModW w a b mod = a ^ b % mod := by
  unfold zzPowerModW
  by_cases hb0 : b = 0
  · rw [if_pos hb0, hb0, Nat.pow_zero]
  · rw [if_neg hb0]
    have hmm : ∀ x, x % mod < mod := fun x => Nat.mod_lt _ (by omega)
    have hw : ∀ x, x % mod % 2 ^ w = x % mod := fun x =>
      Nat.mod_eq_of_lt (Nat.lt_trans (hmm x) hm)
    have ham : a % mod = a := Nat.mod_eq_of_lt ha
    have q0 : (a * a % 2 ^ (2 * w)) % mod = a ^ 2 % mod := by
      rw [mulD_eq hm ha ha]; congr 1; ring
    have q1 : (a ^ 2 % mod * a % 2 ^ (2 * w)) % mod = a ^ 3 % mod := by
      rw [mulD_eq hm (hmm _) ha, Nat.mod_mul_mod]; congr 1
    have q2 : (a ^ 3 % mod * (a ^ 2 % mod) % 2 ^ (2 * w)) % mod = a ^ 5 % mod := by
      rw [mulD_eq hm (hmm _) (hmm _), ← Nat.mul_mod]; congr 1; ring
    have q3 : (a ^ 5 % mod * (a ^ 2 % mod) % 2 ^ (2 * w)) % mod = a ^ 7 % mod := by
      rw [mulD_eq hm (hmm _) (hmm _), ← Nat.mul_mod]; congr 1; ring
    simp only [ham, q0, hw, q1, q2, q3]
    have hlt : ∀ k, b / 2 ^ k % 2 ^ w = b / 2 ^ k := fun k =>
      Nat.mod_eq_of_lt (Nat.lt_of_le_of_lt (Nat.div_le_self _ _) hb)
    simp only [hlt]
    generalize htbl : (fun i : Nat => match i with
      | 0 => a | 1 => a ^ 3 % mod | 2 => a ^ 5 % mod | _ => a ^ 7 % mod) = tbl
    have htb : ∀ j, j < 2 ^ (3 - 1) → tbl j = (fun k => a ^ k % mod) (2 * j + 1) := by
      intro j hj
      subst htbl
      have : j = 0 ∨ j = 1 ∨ j = 2 ∨ j = 3 := by
        have : j < 4 := hj
        omega
      rcases this with rfl | rfl | rfl | rfl <;> simp [ham]
    rw [zzPowerModWLoop_eq w b mod tbl hb]
    have hmul : ∀ i j, mulW w mod ((fun k => a ^ k % mod) i) ((fun k => a ^ k % mod) j)
        = (fun k => a ^ k % mod) (i + j) := fun i j => mulW_pw hm hm0 i j
    have hsqr : ∀ i, (fun x => mulW w mod x x) ((fun k => a ^ k % mod) i)
        = (fun k => a ^ k % mod) (2 * i) := fun i => by
      have := mulW_pw (a := a) hm hm0 i i
      simp only [] at this ⊢
      rw [this, Nat.two_mul]
    obtain ⟨t1, t2⟩ := top_bit b hb0
    generalize Nat.log2 b + 1 = p at *
    have hp : 1 ≤ p := by
      rcases Nat.eq_zero_or_pos p with h | h
      · subst h; simp at t1; omega
      · exact h
    have hI := slideInv_init b p 3 hp t2 (by omega)
    obtain ⟨g1, g2, g3⟩ := slideStrip_spec b p _ _ _ hI (Nat.le_refl _)
    generalize slideStrip (min p 3) (b / 2 ^ (p - min p 3) % 2 ^ min p 3) (min p 3) = r at *
    obtain ⟨b1, b2⟩ := slideInv_bounds g1 (Nat.le_trans g3 (Nat.min_le_right _ _)) (by omega)
    have key := congrFun htbl (r.1 / 2)
    beta_reduce at key
    rw [key, htb _ b2]
    have hodd : 2 * (r.1 / 2) + 1 = r.1 := by omega
    have e := g1.2.2.2
    rw [t1, Nat.zero_mul, Nat.zero_add] at e
    rw [hodd, ← e]
    exact qrPowerLoop_spec (mulW w mod) (fun x => mulW w mod x x) (fun k => a ^ k % mod) hmul hsqr
      tbl b 3 (by omega) htb p (p - r.2) (by omega)

end Bee2V.C05.Etc

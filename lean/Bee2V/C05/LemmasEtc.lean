/-
C05 — helper lemmas for PropsEtc.lean (value-level models of ModelEtc.lean).
Everything lives in `namespace Bee2V.C05.Etc`.
-/
import Bee2V.C05.ModelEtc
import Mathlib.Tactic.Ring
import Mathlib.Tactic.Linarith
import Mathlib.Tactic.NormNum
import Mathlib.Data.Nat.ModEq
import Mathlib.Data.Nat.Sqrt
import Mathlib.NumberTheory.LegendreSymbol.JacobiSymbol
namespace Bee2V.C05.Etc
open Bee2V.C05

/-! ## sliding window: the bit bookkeeping -/

/-- the slide `(s, k)` taken below position `p` of `b`: `k` bits, value `s`, non-zero -/
def SlideInv (b p k s : Nat) : Prop :=
  k ≤ p ∧ 0 < s ∧ s < 2 ^ k ∧ b / 2 ^ (p - k) = (b / 2 ^ p) * 2 ^ k + s

theorem div_pow_sub (b p k : Nat) (hk : k ≤ p) : b / 2 ^ (p - k) / 2 ^ k = b / 2 ^ p := by
  rw [Nat.div_div_eq_div_mul, ← Nat.pow_add]
  congr 2; omega

theorem slideInv_init (b p wd : Nat) (hp : 1 ≤ p) (hb : b / 2 ^ (p - 1) % 2 = 1) (hwd : 1 ≤ wd) :
    SlideInv b p (min p wd) (b / 2 ^ (p - min p wd) % 2 ^ (min p wd)) := by
  unfold SlideInv
  generalize hk : min p wd = k
  have hk1 : 1 ≤ k := by omega
  have hkp : k ≤ p := by omega
  have hX := div_pow_sub b p k hkp
  have h2 : b / 2 ^ (p - k) / 2 ^ (k - 1) = b / 2 ^ (p - 1) := by
    rw [Nat.div_div_eq_div_mul, ← Nat.pow_add]
    congr 2; omega
  generalize b / 2 ^ (p - k) = X at *
  have hdm := Nat.div_add_mod X (2 ^ k)
  have hlt : X % 2 ^ k < 2 ^ k := Nat.mod_lt _ (Nat.two_pow_pos k)
  refine ⟨hkp, ?_, hlt, ?_⟩
  · rcases Nat.eq_zero_or_pos (X % 2 ^ k) with h0 | h0
    · exfalso
      have h3 : X = 2 ^ (k - 1) * (2 * (X / 2 ^ k)) := by
        have e : 2 ^ k = 2 ^ (k - 1) * 2 := by rw [← Nat.pow_succ]; congr 1; omega
        generalize X / 2 ^ k = q at *
        rw [h0, e] at hdm
        rw [← hdm]; ring
      rw [← h2, h3, Nat.mul_div_cancel_left _ (Nat.two_pow_pos _)] at hb
      omega
    · exact h0
  · rw [← hX, Nat.mul_comm]; exact hdm.symm

theorem slideInv_step (b p k s : Nat) (h : SlideInv b p k s) (hs : s % 2 = 0) :
    SlideInv b p (k - 1) (s / 2) := by
  obtain ⟨h1, h2, h3, h4⟩ := h
  have hk : k ≠ 0 := by
    rintro rfl
    simp at h3; omega
  obtain ⟨k', rfl⟩ := Nat.exists_eq_succ_of_ne_zero hk
  change SlideInv b p k' (s / 2)
  have e1 : 2 ^ (k' + 1) = 2 ^ k' * 2 := by rw [pow_succ]
  have e2 : b / 2 ^ (p - k') = b / 2 ^ (p - (k' + 1)) / 2 := by
    rw [Nat.div_div_eq_div_mul, ← Nat.pow_succ]
    congr 2; omega
  refine ⟨by omega, by omega, by omega, ?_⟩
  rw [e2, h4, e1, ← Nat.mul_assoc]
  omega

theorem slideStrip_spec (b p : Nat) : ∀ (f k s : Nat), SlideInv b p k s → k ≤ f →
    SlideInv b p (slideStrip f s k).2 (slideStrip f s k).1 ∧ (slideStrip f s k).1 % 2 = 1
      ∧ (slideStrip f s k).2 ≤ k := by
  intro f
  induction f with
  | zero =>
    intro k s h hk
    obtain ⟨_, h2, h3, _⟩ := h
    have : k = 0 := by omega
    subst this
    simp at h3; omega
  | succ f ih =>
    intro k s h hk
    unfold slideStrip
    by_cases hs : s % 2 = 0
    · rw [if_pos hs]
      have hk0 : k ≠ 0 := by
        rintro rfl
        obtain ⟨_, h2, h3, _⟩ := h
        simp at h3; omega
      obtain ⟨g1, g2, g3⟩ := ih (k - 1) (s / 2) (slideInv_step b p k s h hs) (by omega)
      exact ⟨g1, g2, by omega⟩
    · rw [if_neg hs]
      exact ⟨h, by omega, Nat.le_refl _⟩

/-- a slide has at least one bit and indexes inside the table of `2^(wd-1)` odd powers -/
theorem slideInv_bounds {b p k s wd : Nat} (h : SlideInv b p k s) (hk : k ≤ wd) (hwd : 1 ≤ wd) :
    1 ≤ k ∧ s / 2 < 2 ^ (wd - 1) := by
  obtain ⟨_, h2, h3, _⟩ := h
  have hk0 : k ≠ 0 := by
    rintro rfl
    simp at h3; omega
  have : 2 ^ k ≤ 2 ^ wd := Nat.pow_le_pow_right (by omega) hk
  have e : 2 ^ wd = 2 ^ (wd - 1) * 2 := by rw [← Nat.pow_succ]; congr 1; omega
  omega

theorem top_bit (b : Nat) (hb : b ≠ 0) :
    b / 2 ^ (Nat.log2 b + 1) = 0 ∧ b / 2 ^ (Nat.log2 b + 1 - 1) % 2 = 1 := by
  have h1 := Nat.lt_log2_self (n := b)
  have h2 := Nat.log2_self_le hb
  refine ⟨Nat.div_eq_of_lt h1, ?_⟩
  simp only [Nat.add_sub_cancel]
  have : b / 2 ^ Nat.log2 b = 1 := by
    apply Nat.div_eq_of_lt_le
    · simpa using h2
    · rw [Nat.pow_succ] at h1; omega
  rw [this]

/-! ## qrPower: generic correctness

`pw k` is "the k-th power of a" in the ring: any family with `pw 1 = a`,
`mul (pw i) (pw j) = pw (i + j)`, `sqr (pw i) = pw (2 i)`. -/

section Generic
variable {α : Type} (mul : α → α → α) (sqr : α → α) (pw : Nat → α)
  (hmul : ∀ i j, mul (pw i) (pw j) = pw (i + j)) (hsqr : ∀ i, sqr (pw i) = pw (2 * i))
include hsqr in
theorem qrSqrN_pw (k i : Nat) : qrSqrN sqr k (pw i) = pw (i * 2 ^ k) := by
  induction k generalizing i with
  | zero => simp [qrSqrN]
  | succ k ih =>
    unfold qrSqrN
    rw [hsqr, ih]
    congr 1; rw [Nat.pow_succ]; ring

include hmul in
theorem qrPowersLoop_spec (k t : Nat) :
    qrPowersLoop mul (pw 2) k (((List.range (t + 1)).reverse.map fun j => pw (2 * j + 3)) ++ [pw 2])
      = ((List.range (t + 1 + k)).reverse.map fun j => pw (2 * j + 3)) ++ [pw 2] := by
  induction k generalizing t with
  | zero => simp [qrPowersLoop]
  | succ k ih =>
    have e : ((List.range (t + 1)).reverse.map fun j => pw (2 * j + 3)) ++ [pw 2]
        = pw (2 * t + 3) :: (((List.range t).reverse.map fun j => pw (2 * j + 3)) ++ [pw 2]) := by
      rw [List.range_succ]; simp
    rw [e]
    unfold qrPowersLoop
    simp only []
    rw [hmul, ← e]
    have e' : pw (2 * t + 3 + 2) :: (((List.range (t + 1)).reverse.map fun j => pw (2 * j + 3)) ++ [pw 2])
        = ((List.range (t + 1 + 1)).reverse.map fun j => pw (2 * j + 3)) ++ [pw 2] := by
      rw [List.range_succ (n := t + 1)]; simp
      congr 1
    rw [e', ih]
    congr 4; omega

include hmul hsqr in
theorem qrPowers_spec (wd : Nat) (hwd : 1 ≤ wd) :
    qrPowers mul sqr (pw 1) wd = (List.range (2 ^ (wd - 1))).map fun j => pw (2 * j + 1) := by
  unfold qrPowers
  by_cases h1 : wd = 1
  · subst h1; simp
  · rw [if_neg h1]
    obtain ⟨v, rfl⟩ : ∃ v, wd = v + 2 := ⟨wd - 2, by omega⟩
    simp only [show v + 2 - 1 = v + 1 from rfl]
    obtain ⟨c, hc⟩ : ∃ c, 2 ^ (v + 1) = c + 2 := by
      have : 2 ≤ 2 ^ (v + 1) := by
        calc 2 = 2 ^ 1 := rfl
          _ ≤ 2 ^ (v + 1) := Nat.pow_le_pow_right (by omega) (by omega)
      exact ⟨2 ^ (v + 1) - 2, by omega⟩
    rw [hc, Nat.add_sub_cancel]
    have e0 : [mul (pw 1) (sqr (pw 1)), sqr (pw 1)]
        = ((List.range (0 + 1)).reverse.map fun j => pw (2 * j + 3)) ++ [pw 2] := by
      simp [hsqr, hmul]
    rw [e0, hsqr, show 2 * 1 = 2 from rfl, qrPowersLoop_spec mul pw hmul]
    rw [List.reverse_append, List.reverse_singleton, List.singleton_append, List.drop_one,
      List.tail_cons, ← List.map_reverse, List.reverse_reverse]
    rw [show 0 + 1 + c = c + 1 by omega, List.range_succ_eq_map (n := c + 1)]
    simp [List.map_map, Function.comp_def]
    intro j _
    congr 1

include hmul hsqr in
theorem qrPowers_getD (wd : Nat) (hwd : 1 ≤ wd) (d : α) (j : Nat) (hj : j < 2 ^ (wd - 1)) :
    (qrPowers mul sqr (pw 1) wd).getD j d = pw (2 * j + 1) := by
  rw [qrPowers_spec mul sqr pw hmul hsqr wd hwd]
  simp [List.getD_eq_getElem?_getD, hj]

include hmul hsqr in
/-- the main loop: from `pw (b >> p)` to `pw b` -/
theorem qrPowerLoop_spec (tbl : Nat → α) (b wd : Nat) (hwd : 1 ≤ wd)
    (htbl : ∀ j, j < 2 ^ (wd - 1) → tbl j = pw (2 * j + 1)) :
    ∀ (f p : Nat), p ≤ f → qrPowerLoop mul sqr tbl b wd f p (pw (b / 2 ^ p)) = pw b := by
  intro f
  induction f with
  | zero =>
    intro p hp
    have : p = 0 := by omega
    subst this
    simp [qrPowerLoop]
  | succ f ih =>
    intro p hp
    unfold qrPowerLoop
    by_cases hp0 : p = 0
    · subst hp0; simp
    · rw [if_neg hp0]
      simp only []
      have e2 : b / 2 ^ (p - 1) = 2 * (b / 2 ^ p) + b / 2 ^ (p - 1) % 2 := by
        have : b / 2 ^ p = b / 2 ^ (p - 1) / 2 := by
          rw [Nat.div_div_eq_div_mul, ← Nat.pow_succ]; congr 2; omega
        omega
      by_cases hbit : b / 2 ^ (p - 1) % 2 = 0
      · rw [if_pos hbit, hsqr]
        have := ih (p - 1) (by omega)
        rw [e2, hbit, Nat.add_zero] at this
        exact this
      · rw [if_neg hbit]
        have hp1 : p - 1 + 1 = p := by omega
        rw [hp1]
        have hI := slideInv_init b p wd (by omega) (by omega) hwd
        obtain ⟨g1, g2, g3⟩ := slideStrip_spec b p _ _ _ hI (Nat.le_refl _)
        generalize slideStrip (min p wd) (b / 2 ^ (p - min p wd) % 2 ^ min p wd) (min p wd) = r at *
        obtain ⟨b1, b2⟩ := slideInv_bounds g1 (Nat.le_trans g3 (Nat.min_le_right _ _)) hwd
        rw [qrSqrN_pw sqr pw hsqr, htbl _ b2, hmul]
        have hodd : 2 * (r.1 / 2) + 1 = r.1 := by omega
        rw [hodd, ← g1.2.2.2]
        exact ih (p - r.2) (by omega)

include hmul hsqr in
/-- qrPowerG computes `pw b` for every window width ≥ 1 -/
theorem qrPowerG_gen (unity : α) (h0 : pw 0 = unity) (b wd : Nat) (hwd : 1 ≤ wd) :
    qrPowerG mul sqr unity (pw 1) b wd = pw b := by
  unfold qrPowerG
  by_cases hb : b = 0
  · rw [if_pos hb, hb, h0]
  · rw [if_neg hb]
    simp only []
    have hbs : bitSizeV b - 1 = Nat.log2 b := by unfold bitSizeV; rw [if_neg hb]; rfl
    rw [hbs]
    obtain ⟨t1, t2⟩ := top_bit b hb
    generalize Nat.log2 b + 1 = p at *
    have hp : 1 ≤ p := by
      rcases Nat.eq_zero_or_pos p with h | h
      · subst h; simp at t1; omega
      · exact h
    have hI := slideInv_init b p wd hp t2 hwd
    obtain ⟨g1, g2, g3⟩ := slideStrip_spec b p _ _ _ hI (Nat.le_refl _)
    generalize slideStrip (min p wd) (b / 2 ^ (p - min p wd) % 2 ^ min p wd) (min p wd) = r at *
    obtain ⟨b1, b2⟩ := slideInv_bounds g1 (Nat.le_trans g3 (Nat.min_le_right _ _)) hwd
    rw [qrPowers_getD mul sqr pw hmul hsqr wd hwd unity _ b2]
    have hodd : 2 * (r.1 / 2) + 1 = r.1 := by omega
    have e := g1.2.2.2
    rw [t1, Nat.zero_mul, Nat.zero_add] at e
    rw [hodd, ← e]
    exact qrPowerLoop_spec mul sqr pw hmul hsqr _ b wd hwd
      (fun j hj => qrPowers_getD mul sqr pw hmul hsqr wd hwd unity j hj) p (p - r.2) (by omega)

end Generic

/-! ## zzPowerModW -/

/-- `prod = x; prod *= y; prod %= mod; (word)prod` -/
def mulW (w mod x y : Nat) : Nat := (x * y % 2 ^ (2 * w)) % mod % 2 ^ w

theorem mulW_eq {w mod x y : Nat} (hm : mod < 2 ^ w) (hx : x < mod) (hy : y < mod) :
    mulW w mod x y = x * y % mod := by
  unfold mulW
  have h1 : x * y < 2 ^ (2 * w) := by
    rw [Nat.two_mul, Nat.pow_add]
    exact Nat.mul_lt_mul'' (by omega) (by omega)
  rw [Nat.mod_eq_of_lt h1]
  exact Nat.mod_eq_of_lt (Nat.lt_trans (Nat.mod_lt _ (by omega)) hm)

theorem mulW_pw {w mod a : Nat} (hm : mod < 2 ^ w) (hm0 : mod ≠ 0) (i j : Nat) :
    mulW w mod (a ^ i % mod) (a ^ j % mod) = a ^ (i + j) % mod := by
  rw [mulW_eq hm (Nat.mod_lt _ (by omega)) (Nat.mod_lt _ (by omega)), ← Nat.mul_mod, ← Nat.pow_add]

theorem powSqrN_eq (w mod : Nat) (k a : Nat) :
    powSqrN w mod k a = qrSqrN (fun x => mulW w mod x x) k a := by
  induction k generalizing a with
  | zero => rfl
  | succ k ih => unfold powSqrN qrSqrN; rw [ih]; rfl

theorem zzPowerModWLoop_eq (w b mod : Nat) (pwf : Nat → Nat) (hb : b < 2 ^ w) (f p a : Nat) :
    zzPowerModWLoop w b mod pwf f p a
      = qrPowerLoop (mulW w mod) (fun x => mulW w mod x x) pwf b 3 f p a := by
  induction f generalizing p a with
  | zero => rfl
  | succ f ih =>
    unfold zzPowerModWLoop qrPowerLoop
    have hlt : ∀ k, b / 2 ^ k % 2 ^ w = b / 2 ^ k := fun k =>
      Nat.mod_eq_of_lt (Nat.lt_of_le_of_lt (Nat.div_le_self _ _) hb)
    simp only [hlt, powSqrN_eq, ih]
    rfl

theorem mulD_eq {w mod x y : Nat} (hm : mod < 2 ^ w) (hx : x < mod) (hy : y < mod) :
    (x * y % 2 ^ (2 * w)) % mod = x * y % mod := by
  have h1 : x * y < 2 ^ (2 * w) := by
    rw [Nat.two_mul, Nat.pow_add]
    exact Nat.mul_lt_mul'' (by omega) (by omega)
  rw [Nat.mod_eq_of_lt h1]

/-- zzPowerModW with the base already reduced -/
theorem zzPowerModW_red (w a b mod : Nat) (hm0 : mod ≠ 0) (ha : a < mod) (hb : b < 2 ^ w)
    (hm : mod < 2 ^ w) : zzPowerModW w a b mod = a ^ b % mod := by
  unfold zzPowerModW
  by_cases hb0 : b = 0
  · rw [if_pos hb0, hb0, Nat.pow_zero]
  · rw [if_neg hb0]
    have hmm : ∀ x, x % mod < mod := fun x => Nat.mod_lt _ (by omega)
    have hw : ∀ x, x % mod % 2 ^ w = x % mod := fun x =>
      Nat.mod_eq_of_lt (Nat.lt_trans (hmm x) hm)
    have ham : a % mod = a := Nat.mod_eq_of_lt ha
    have q0 : (a * a % 2 ^ (2 * w)) % mod = a ^ 2 % mod := by
      rw [mulD_eq hm ha ha]; congr 1; ring
    have q1 : (a ^ 2 % mod * a % 2 ^ (2 * w)) % mod = a ^ 3 % mod := by
      rw [mulD_eq hm (hmm _) ha, Nat.mod_mul_mod]; congr 1
    have q2 : (a ^ 3 % mod * (a ^ 2 % mod) % 2 ^ (2 * w)) % mod = a ^ 5 % mod := by
      rw [mulD_eq hm (hmm _) (hmm _), ← Nat.mul_mod]; congr 1; ring
    have q3 : (a ^ 5 % mod * (a ^ 2 % mod) % 2 ^ (2 * w)) % mod = a ^ 7 % mod := by
      rw [mulD_eq hm (hmm _) (hmm _), ← Nat.mul_mod]; congr 1; ring
    simp only [ham, q0, hw, q1, q2, q3]
    have hlt : ∀ k, b / 2 ^ k % 2 ^ w = b / 2 ^ k := fun k =>
      Nat.mod_eq_of_lt (Nat.lt_of_le_of_lt (Nat.div_le_self _ _) hb)
    simp only [hlt]
    generalize htbl : powTbl4 a (a ^ 3 % mod) (a ^ 5 % mod) (a ^ 7 % mod) = tbl
    have htb : ∀ j, j < 2 ^ (3 - 1) → tbl j = (fun k => a ^ k % mod) (2 * j + 1) := by
      intro j hj
      subst htbl
      have : j = 0 ∨ j = 1 ∨ j = 2 ∨ j = 3 := by
        have : j < 4 := hj
        omega
      rcases this with rfl | rfl | rfl | rfl <;> simp [powTbl4, ham]
    rw [zzPowerModWLoop_eq w b mod tbl hb]
    have hmul : ∀ i j, mulW w mod ((fun k => a ^ k % mod) i) ((fun k => a ^ k % mod) j)
        = (fun k => a ^ k % mod) (i + j) := fun i j => mulW_pw hm hm0 i j
    have hsqr : ∀ i, (fun x => mulW w mod x x) ((fun k => a ^ k % mod) i)
        = (fun k => a ^ k % mod) (2 * i) := fun i => by
      have := mulW_pw (a := a) hm hm0 i i
      simp only [] at this ⊢
      rw [this, Nat.two_mul]
    obtain ⟨t1, t2⟩ := top_bit b hb0
    generalize Nat.log2 b + 1 = p at *
    have hp : 1 ≤ p := by
      rcases Nat.eq_zero_or_pos p with h | h
      · subst h; simp at t1; omega
      · exact h
    have hI := slideInv_init b p 3 hp t2 (by omega)
    obtain ⟨g1, g2, g3⟩ := slideStrip_spec b p _ _ _ hI (Nat.le_refl _)
    generalize slideStrip (min p 3) (b / 2 ^ (p - min p 3) % 2 ^ min p 3) (min p 3) = r at *
    obtain ⟨b1, b2⟩ := slideInv_bounds g1 (Nat.le_trans g3 (Nat.min_le_right _ _)) (by omega)
    rw [htb _ b2]
    have hodd : 2 * (r.1 / 2) + 1 = r.1 := by omega
    have e := g1.2.2.2
    rw [t1, Nat.zero_mul, Nat.zero_add] at e
    rw [hodd, ← e]
    exact qrPowerLoop_spec (mulW w mod) (fun x => mulW w mod x x) (fun k => a ^ k % mod) hmul hsqr
      tbl b 3 (by omega) htb p (p - r.2) (by omega)

/-! ## zzSqrt -/

theorem bitSizeV_lt (x : Nat) : x < 2 ^ bitSizeV x := by
  unfold bitSizeV
  split_ifs with h
  · subst h; simp
  · exact Nat.lt_log2_self

theorem bitSizeV_ge (x : Nat) (hx : x ≠ 0) : 1 ≤ bitSizeV x ∧ 2 ^ (bitSizeV x - 1) ≤ x := by
  unfold bitSizeV
  rw [if_neg hx]
  exact ⟨by omega, by simpa using Nat.log2_self_le hx⟩

theorem wordSizeV_zero (w : Nat) : wordSizeV w 0 = 0 := by
  unfold wordSizeV bitSizeV
  rcases Nat.eq_zero_or_pos w with h | h
  · subst h; simp
  · simp only [if_true, Nat.zero_add]
    exact Nat.div_eq_of_lt (by omega)

theorem wordSizeV_lt (w x : Nat) (hw : 0 < w) : x < 2 ^ (w * wordSizeV w x) := by
  have h1 := bitSizeV_lt x
  have h2 := Nat.lt_mul_div_succ (bitSizeV x + w - 1) hw
  rw [Nat.mul_succ] at h2
  have : bitSizeV x ≤ w * wordSizeV w x := by unfold wordSizeV; omega
  exact Nat.lt_of_lt_of_le h1 (Nat.pow_le_pow_right (by omega) this)

theorem wordSizeV_ge (w x : Nat) (hw : 0 < w) (hx : x ≠ 0) :
    1 ≤ wordSizeV w x ∧ 2 ^ (w * (wordSizeV w x - 1)) ≤ x := by
  obtain ⟨h1, h2⟩ := bitSizeV_ge x hx
  have h3 := Nat.mul_div_le (bitSizeV x + w - 1) w
  have h4 : 1 ≤ wordSizeV w x := by
    unfold wordSizeV
    exact (Nat.le_div_iff_mul_le hw).2 (by omega)
  refine ⟨h4, Nat.le_trans (Nat.pow_le_pow_right (by omega) ?_) h2⟩
  have : w * (wordSizeV w x - 1) = w * wordSizeV w x - w := by
    rw [Nat.mul_sub, Nat.mul_one]
  rw [this]
  unfold wordSizeV
  omega

theorem wordSizeV_le (w x k : Nat) (hw : 0 < w) (h : x < 2 ^ (w * k)) : wordSizeV w x ≤ k := by
  rcases Nat.eq_zero_or_pos x with hx | hx
  · subst hx; rw [wordSizeV_zero]; omega
  · obtain ⟨h1, h2⟩ := wordSizeV_ge w x hw (by omega)
    by_contra hc
    have : w * k ≤ w * (wordSizeV w x - 1) := Nat.mul_le_mul_left _ (by omega)
    have := Nat.pow_le_pow_right (show 0 < 2 by omega) this
    omega

/-- one Newton step from above stays above the root -/
theorem newton_ge (a b s : Nat) (hb : 0 < b) (hs : s * s ≤ a) : s ≤ (b + a / b) / 2 := by
  by_contra hc
  have h1 : b + a / b + 1 ≤ 2 * s := by omega
  have h2 : a < b * (a / b + 1) := Nat.lt_mul_div_succ a hb
  have h3 := Nat.mul_le_mul_left b h1
  zify at *
  nlinarith [sq_nonneg ((s : ℤ) - b)]

/-- `b ≥ √a` and `a / b ≥ b + 1`, or `a/b = b`: then b is the root -/
theorem root_of_quot_ge (a b : Nat) (_hb : 0 < b) (hab : a < (b + 1) * (b + 1)) (hq : b ≤ a / b) :
    b = Nat.sqrt a := by
  rw [Nat.eq_sqrt]
  refine ⟨?_, hab⟩
  calc b * b ≤ b * (a / b) := Nat.mul_le_mul_left _ hq
    _ ≤ a := Nat.mul_div_le a b

theorem not_square_of_quot_gt (a b : Nat) (hb : 0 < b) (hq : b < a / b) : b * b ≠ a := by
  have : b * (b + 1) ≤ a := calc
    b * (b + 1) ≤ b * (a / b) := Nat.mul_le_mul_left _ hq
    _ ≤ a := Nat.mul_div_le a b
  have : b * b < b * (b + 1) := Nat.mul_lt_mul_of_pos_left (by omega) hb
  omega

/-- the quotient fits `m + 1` words, and `m` words unless `n = 2 m` -/
theorem quot_bound (w a b m n : Nat) (_hm : 1 ≤ m) (hbl : 2 ^ (w * (m - 1)) ≤ b)
    (ha : a < 2 ^ (w * n)) (k : Nat) (hn : n ≤ m - 1 + k) : a / b < 2 ^ (w * k) := by
  have hb : 0 < b := Nat.lt_of_lt_of_le (Nat.two_pow_pos _) hbl
  rw [Nat.div_lt_iff_lt_mul hb]
  calc a < 2 ^ (w * n) := ha
    _ ≤ 2 ^ (w * (m - 1 + k)) := Nat.pow_le_pow_right (by omega) (Nat.mul_le_mul_left _ hn)
    _ = 2 ^ (w * k) * 2 ^ (w * (m - 1)) := by rw [← Nat.pow_add]; congr 1; ring
    _ ≤ 2 ^ (w * k) * b := Nat.mul_le_mul_left _ hbl

theorem zzSqrtLoop_spec (w a : Nat) (hw : 0 < w) (ha : a ≠ 0) :
    ∀ (f t m : Nat), a < (t + 1) * (t + 1) → t < 2 ^ (w * m) → t < f →
      (zzSqrtLoop w a (wordSizeV w a) f t m).1 = Nat.sqrt a
      ∧ ((zzSqrtLoop w a (wordSizeV w a) f t m).2 = true ↔ Nat.sqrt a * Nat.sqrt a = a) := by
  intro f
  induction f with
  | zero => intro t m _ _ h; omega
  | succ f ih =>
    intro t m hta htm htf
    unfold zzSqrtLoop
    simp only []
    rw [Nat.mod_eq_of_lt htm]
    have ht0 : t ≠ 0 := by
      rintro rfl
      simp at hta; omega
    obtain ⟨hm1, hbl⟩ := wordSizeV_ge w t hw ht0
    have hbu := wordSizeV_lt w t hw
    generalize wordSizeV w t = m' at *
    have han := wordSizeV_lt w a hw
    -- n ≤ 2 m'
    have hn2 : wordSizeV w a ≤ 2 * m' := by
      apply wordSizeV_le w a _ hw
      calc a < (t + 1) * (t + 1) := hta
        _ ≤ 2 ^ (w * m') * 2 ^ (w * m') := Nat.mul_le_mul hbu hbu
        _ = 2 ^ (w * (2 * m')) := by rw [← Nat.pow_add]; congr 1; ring
    generalize wordSizeV w a = n at *
    have htpos : 0 < t := by omega
    have hq1 : a / t < 2 ^ (w * (m' + 1)) := quot_bound w a t m' n hm1 hbl han (m' + 1) (by omega)
    by_cases hc1 : n - m' = m' ∧ a / t / 2 ^ (w * m') % 2 ^ w > 0
    · rw [if_pos hc1]
      have hge : 2 ^ (w * m') ≤ a / t := by
        by_contra h
        rw [Nat.div_eq_of_lt (by omega)] at hc1
        simp at hc1
      have hlt : t < a / t := by omega
      have hr := root_of_quot_ge a t htpos hta (by omega)
      refine ⟨hr, ?_⟩
      simp only [Bool.false_eq_true, false_iff]
      rw [← hr]
      exact not_square_of_quot_gt a t htpos hlt
    · rw [if_neg hc1]
      have hq : a / t < 2 ^ (w * m') := by
        by_cases hnm : n - m' = m'
        · have h0 : a / t / 2 ^ (w * m') % 2 ^ w = 0 := by
            by_contra h
            exact hc1 ⟨hnm, by omega⟩
          have h2 : a / t / 2 ^ (w * m') < 2 ^ w := by
            rw [Nat.div_lt_iff_lt_mul (Nat.two_pow_pos _), ← Nat.pow_add]
            have : w + w * m' = w * (m' + 1) := by ring
            rw [this]; exact hq1
          rw [Nat.mod_eq_of_lt h2] at h0
          by_contra h
          have : 1 ≤ a / t / 2 ^ (w * m') := (Nat.le_div_iff_mul_le (Nat.two_pow_pos _)).2 (by omega)
          omega
        · exact quot_bound w a t m' n hm1 hbl han m' (by omega)
      rw [Nat.mod_eq_of_lt hq]
      by_cases hc2 : t = a / t
      · rw [if_pos hc2]
        have hr := root_of_quot_ge a t htpos hta (by omega)
        refine ⟨hr, ?_⟩
        rw [← hr]
        have hdm := Nat.div_add_mod a t
        rw [← hc2] at hdm
        simp only [decide_eq_true_eq]
        constructor <;> intro h <;> omega
      · rw [if_neg hc2]
        by_cases hc3 : t < a / t
        · rw [if_pos hc3]
          have hr := root_of_quot_ge a t htpos hta (by omega)
          refine ⟨hr, ?_⟩
          simp only [Bool.false_eq_true, false_iff]
          rw [← hr]
          exact not_square_of_quot_gt a t htpos hc3
        · rw [if_neg hc3]
          have hng := newton_ge a t (Nat.sqrt a) htpos (Nat.sqrt_le a)
          have hlt' : (a / t + t) / 2 < t := by omega
          apply ih
          · have h1 : Nat.sqrt a + 1 ≤ (a / t + t) / 2 + 1 := by omega
            calc a < (Nat.sqrt a + 1) * (Nat.sqrt a + 1) := Nat.lt_succ_sqrt a
              _ ≤ _ := Nat.mul_le_mul h1 h1
          · omega
          · omega

theorem zzSqrtV_spec' (w n a : Nat) (hw : 0 < w) (ha : a < 2 ^ (w * n)) :
    (zzSqrtV w n a).1 = Nat.sqrt a
      ∧ ((zzSqrtV w n a).2 = true ↔ Nat.sqrt a * Nat.sqrt a = a) := by
  unfold zzSqrtV
  simp only []
  by_cases h0 : wordSizeV w a = 0
  · rw [if_pos h0]
    have := wordSizeV_lt w a hw
    rw [h0] at this
    have ha0 : a = 0 := by simpa using this
    subst ha0
    simp
  · rw [if_neg h0]
    have ha0 : a ≠ 0 := by
      rintro rfl
      exact h0 (wordSizeV_zero w)
    -- the start value is 2^k - 1 and fits m words
    have hL : bitSizeV a ≤ w * n := by
      by_contra h
      obtain ⟨_, h2⟩ := bitSizeV_ge a ha0
      have := Nat.pow_le_pow_right (show 0 < 2 by omega) (show w * n ≤ bitSizeV a - 1 by omega)
      omega
    have hmm : w * n ≤ 2 * (w * ((n + 1) / 2)) := by
      rw [← Nat.mul_assoc, Nat.mul_comm 2 w, Nat.mul_assoc]
      exact Nat.mul_le_mul_left _ (by omega)
    have hk : (bitSizeV a + 1) / 2 ≤ w * ((n + 1) / 2) := by omega
    have hk2 : bitSizeV a ≤ 2 * ((bitSizeV a + 1) / 2) := by omega
    generalize (bitSizeV a + 1) / 2 = k at *
    have hp1 : 2 ^ k ≤ 2 ^ (w * ((n + 1) / 2)) := Nat.pow_le_pow_right (by omega) hk
    have hp2 : 2 ^ (w * ((n + 1) / 2)) < 2 ^ (w * ((n + 1) / 2 + 1)) :=
      Nat.pow_lt_pow_right (by omega) (by rw [Nat.mul_succ]; omega)
    have hkpos := Nat.two_pow_pos k
    have e1 : 2 ^ k % 2 ^ (w * ((n + 1) / 2 + 1)) = 2 ^ k := Nat.mod_eq_of_lt (by omega)
    have e2 : (2 ^ k + 2 ^ (w * ((n + 1) / 2 + 1)) - 1) % 2 ^ (w * ((n + 1) / 2 + 1)) = 2 ^ k - 1 := by
      have : 2 ^ k + 2 ^ (w * ((n + 1) / 2 + 1)) - 1 = (2 ^ k - 1) + 2 ^ (w * ((n + 1) / 2 + 1)) := by
        omega
      rw [this, Nat.add_mod_right]
      exact Nat.mod_eq_of_lt (by omega)
    rw [e1, e2]
    apply zzSqrtLoop_spec w a hw ha0
    · have h1 := bitSizeV_lt a
      have h2 : 2 ^ bitSizeV a ≤ 2 ^ (2 * k) := Nat.pow_le_pow_right (by omega) hk2
      have h3 : 2 ^ (2 * k) = 2 ^ k * 2 ^ k := by rw [← Nat.pow_add]; congr 1; ring
      have h4 : 2 ^ k - 1 + 1 = 2 ^ k := by omega
      rw [h4]; omega
    · omega
    · omega

/-! ## zzJacobi -/

open scoped NumberTheorySymbols

/-- the sign picked up by removing `2^s` from the numerator -/
def twoSign (s v : Nat) : Int := if s % 2 = 1 ∧ (v % 8 = 3 ∨ v % 8 = 5) then -1 else 1

theorem loZerosEF_spec (v : Nat) (hv : v % 2 = 1) : ∀ (f n : Nat), 0 < n → n ≤ f →
    (n / 2 ^ loZerosEF f n) % 2 = 1 ∧ 0 < n / 2 ^ loZerosEF f n ∧ n / 2 ^ loZerosEF f n ≤ n
      ∧ J((n : ℤ) | v) = twoSign (loZerosEF f n) v * J(((n / 2 ^ loZerosEF f n : ℕ) : ℤ) | v) := by
  intro f
  induction f with
  | zero => intro n h1 h2; omega
  | succ f ih =>
    intro n hn hf
    unfold loZerosEF
    by_cases he : n % 2 = 0
    · rw [if_pos he]
      obtain ⟨g1, g2, g3, g4⟩ := ih (n / 2) (by omega) (by omega)
      have e : n / 2 ^ (1 + loZerosEF f (n / 2)) = n / 2 / 2 ^ loZerosEF f (n / 2) := by
        rw [Nat.pow_add, Nat.pow_one, Nat.div_div_eq_div_mul]
      rw [e]
      refine ⟨g1, g2, by omega, ?_⟩
      have hz : ((n : ℤ)) % 2 = 0 := by exact_mod_cast he
      have h8 := jacobiSym.even_odd hz hv
      have e2 : (n : ℤ) / 2 = ((n / 2 : ℕ) : ℤ) := by push_cast; rfl
      rw [e2, g4] at h8
      rw [← h8]
      generalize loZerosEF f (n / 2) = s'
      generalize J(((n / 2 / 2 ^ s' : ℕ) : ℤ) | v) = X
      unfold twoSign
      have hs : (1 + s') % 2 = 1 ↔ ¬ s' % 2 = 1 := by omega
      by_cases c1 : v % 8 = 3 ∨ v % 8 = 5 <;> by_cases c2 : s' % 2 = 1 <;> simp [c1, c2, hs]
    · rw [if_neg he]
      simp only [Nat.pow_zero, Nat.div_one]
      refine ⟨by omega, hn, Nat.le_refl _, ?_⟩
      simp [twoSign]

theorem zzJacobiLoop_spec : ∀ (f u v : Nat) (t : Int), v % 2 = 1 → v ≤ f → (u < v ∨ v = 1) →
    zzJacobiLoop f u v t = t * J((u : ℤ) | v) := by
  intro f
  induction f with
  | zero => intro u v t h1 h2; omega
  | succ f ih =>
    intro u v t hv hf huv
    unfold zzJacobiLoop
    by_cases h1 : v > 1
    · rw [if_pos h1]
      by_cases hu0 : u = 0
      · rw [if_pos hu0, hu0]
        simp [jacobiSym.zero_left h1]
      · rw [if_neg hu0]
        by_cases hu1 : u = 1
        · rw [if_pos hu1, hu1]
          simp [jacobiSym.one_left]
        · rw [if_neg hu1]
          simp only []
          obtain ⟨g1, g2, g3, g4⟩ := loZerosEF_spec v hv u u (by omega) (Nat.le_refl _)
          change (u / 2 ^ loZerosE u) % 2 = 1 at g1
          change 0 < u / 2 ^ loZerosE u at g2
          change u / 2 ^ loZerosE u ≤ u at g3
          change J((u : ℤ) | v) = twoSign (loZerosE u) v * J(((u / 2 ^ loZerosE u : ℕ) : ℤ) | v) at g4
          generalize loZerosE u = s at *
          generalize u / 2 ^ s = u' at *
          rw [ih (v % u') u' _ g1 (by omega) (Or.inl (Nat.mod_lt _ g2))]
          rw [g4]
          have hqr := jacobiSym.quadratic_reciprocity_if g1 hv
          have hml := jacobiSym.mod_left (v : ℤ) u'
          rw [← Int.natCast_mod] at hml
          rw [← hqr, hml]
          unfold twoSign
          generalize J(((v % u' : ℕ) : ℤ) | u') = X
          by_cases c1 : s % 2 = 1 ∧ (v % 8 = 3 ∨ v % 8 = 5) <;>
            by_cases c2 : u' % 4 = 3 ∧ v % 4 = 3 <;> simp [c1, c2]
    · rw [if_neg h1]
      have : v = 1 := by omega
      subst this
      simp [jacobiSym.one_right]

theorem zzJacobiV_spec' (a b : Nat) (hb : b % 2 = 1) : zzJacobiV a b = J((a : ℤ) | b) := by
  unfold zzJacobiV
  rw [zzJacobiLoop_spec (b + 1) (a % b) b 1 hb (by omega)
    (by rcases Nat.lt_or_ge 1 b with h | h
        · exact Or.inl (Nat.mod_lt _ (by omega))
        · exact Or.inr (by omega))]
  rw [one_mul, Int.natCast_mod, ← jacobiSym.mod_left]

/-! ## Montgomery reduction -/

theorem pow_w_succ (w i : Nat) : 2 ^ (w * (i + 1)) = 2 ^ (w * i) * 2 ^ w := by
  rw [Nat.mul_succ, Nat.pow_add]

/-- the multiplier `wi` kills the lowest remaining word -/
theorem mont_word (B q md mp : Nat) (hmp : (md % B * mp + 1) % B = 0) :
    (q + (q % B * mp % B) * md) % B = 0 := by
  have h0 : md * mp + 1 ≡ 0 [MOD B] := by
    have : md * mp + 1 ≡ md % B * mp + 1 [MOD B] :=
      (((Nat.mod_modEq md B).symm).mul_right mp).add_right 1
    exact this.trans hmp
  have e1 : q % B * mp % B ≡ q * mp [MOD B] :=
    (Nat.mod_modEq _ _).trans ((Nat.mod_modEq q B).mul_right mp)
  have e2 : q + (q % B * mp % B) * md ≡ q + q * mp * md [MOD B] :=
    (Nat.ModEq.refl q).add (e1.mul_right md)
  have e3 : q + q * mp * md = q * (md * mp + 1) := by ring
  rw [e3] at e2
  have e4 : q * (md * mp + 1) ≡ q * 0 [MOD B] := h0.mul_left q
  exact (e2.trans e4).trans (by rw [Nat.mul_zero])

theorem zzRedMontLoopV_spec (w md mp : Nat) (hmp : (md % 2 ^ w * mp + 1) % 2 ^ w = 0) :
    ∀ (k i a : Nat), 2 ^ (w * i) ∣ a →
      2 ^ (w * (i + k)) ∣ zzRedMontLoopV w md mp k i a
      ∧ zzRedMontLoopV w md mp k i a ≡ a [MOD md]
      ∧ zzRedMontLoopV w md mp k i a + md * 2 ^ (w * i) ≤ a + md * 2 ^ (w * (i + k)) := by
  intro k
  induction k with
  | zero => intro i a h; exact ⟨h, Nat.ModEq.refl _, Nat.le_refl _⟩
  | succ k ih =>
    intro i a hdiv
    unfold zzRedMontLoopV
    simp only []
    generalize hwi : a / 2 ^ (w * i) % 2 ^ w * mp % 2 ^ w = wi
    have hwlt : wi < 2 ^ w := by rw [← hwi]; exact Nat.mod_lt _ (Nat.two_pow_pos w)
    have hdiv' : 2 ^ (w * (i + 1)) ∣ a + wi * md * 2 ^ (w * i) := by
      obtain ⟨q, hq⟩ := hdiv
      have hq' : a / 2 ^ (w * i) = q := by
        rw [hq, Nat.mul_div_cancel_left _ (Nat.two_pow_pos _)]
      have := mont_word (2 ^ w) q md mp hmp
      rw [hq'] at hwi
      rw [hwi] at this
      obtain ⟨c, hc⟩ := Nat.dvd_of_mod_eq_zero this
      refine ⟨c, ?_⟩
      rw [pow_w_succ, hq]
      calc 2 ^ (w * i) * q + wi * md * 2 ^ (w * i) = 2 ^ (w * i) * (q + wi * md) := by ring
        _ = 2 ^ (w * i) * 2 ^ w * c := by rw [hc]; ring
    obtain ⟨g1, g2, g3⟩ := ih (i + 1) _ hdiv'
    have e : i + 1 + k = i + (k + 1) := by omega
    rw [e] at g1 g3
    refine ⟨g1, g2.trans ?_, ?_⟩
    · have : wi * md * 2 ^ (w * i) ≡ 0 [MOD md] := by
        rw [Nat.modEq_zero_iff_dvd]
        exact ⟨wi * 2 ^ (w * i), by ring⟩
      simpa using (Nat.ModEq.refl a).add this
    · have hw1 : wi * md * 2 ^ (w * i) + md * 2 ^ (w * i) ≤ md * 2 ^ (w * (i + 1)) := by
        rw [pow_w_succ]
        have : (wi + 1) * (md * 2 ^ (w * i)) ≤ 2 ^ w * (md * 2 ^ (w * i)) :=
          Nat.mul_le_mul_right _ (by omega)
        calc wi * md * 2 ^ (w * i) + md * 2 ^ (w * i) = (wi + 1) * (md * 2 ^ (w * i)) := by ring
          _ ≤ 2 ^ w * (md * 2 ^ (w * i)) := this
          _ = md * (2 ^ (w * i) * 2 ^ w) := by ring
      omega

/-- zzRedMont (header: mod odd — through mont_param —, a < mod * R): the result is `< mod` and
    is `a * R^{-1}`: `result * R ≡ a (mod mod)`, R = B^n -/
theorem zzRedMontV_spec' (w n md mp a : Nat) (hmp : (md % 2 ^ w * mp + 1) % 2 ^ w = 0)
    (hmd : md < 2 ^ (w * n)) (ha : a < md * 2 ^ (w * n)) :
    zzRedMontV w n md mp a < md ∧ zzRedMontV w n md mp a * 2 ^ (w * n) ≡ a [MOD md] := by
  obtain ⟨g1, g2, g3⟩ := zzRedMontLoopV_spec w md mp hmp n 0 a (by simp)
  unfold zzRedMontV
  simp only []
  generalize zzRedMontLoopV w md mp n 0 a = s at *
  simp only [Nat.zero_add, Nat.mul_zero, Nat.pow_zero, Nat.mul_one] at g1 g3
  obtain ⟨F, hF⟩ := g1
  have hR := Nat.two_pow_pos (w * n)
  have h2R : 2 ^ (w * (2 * n)) = 2 ^ (w * n) * 2 ^ (w * n) := by
    rw [show w * (2 * n) = w * n + w * n by ring, Nat.pow_add]
  rw [h2R]
  generalize 2 ^ (w * n) = R at *
  subst hF
  have hmd0 : 0 < md := by
    rcases Nat.eq_zero_or_pos md with h | h
    · subst h; simp at ha
    · exact h
  have hFlt : F < 2 * md := by
    have : R * F < R * (2 * md) := by
      calc R * F < a + md * R := by omega
        _ < md * R + md * R := by omega
        _ = R * (2 * md) := by ring
    exact Nat.lt_of_mul_lt_mul_left this
  have e1 : R * F / R = F := Nat.mul_div_cancel_left _ hR
  have e2 : R * F / (R * R) = F / R := by
    rw [← Nat.div_div_eq_div_mul, e1]
  rw [e1, e2]
  have key : (if md ≤ F % R ∨ (if F / R ≠ 0 then 1 else 0) = 1 then (F % R + R - md) % R else F % R)
      = if md ≤ F then F - md else F := by
    by_cases hFR : F < R
    · rw [Nat.div_eq_of_lt hFR, Nat.mod_eq_of_lt hFR]
      simp only [ne_eq, not_true_eq_false, if_false, Nat.zero_ne_one, or_false]
      by_cases hc : md ≤ F
      · rw [if_pos hc, if_pos hc]
        have : F + R - md = (F - md) + R := by omega
        rw [this, Nat.add_mod_right]
        exact Nat.mod_eq_of_lt (by omega)
      · rw [if_neg hc, if_neg hc]
    · have h1 : F / R ≠ 0 := by
        intro h
        rw [Nat.div_eq_zero_iff] at h
        omega
      have h2 : F % R = F - R := by
        rw [Nat.mod_eq_sub_mod (by omega)]
        exact Nat.mod_eq_of_lt (by omega)
      rw [if_pos h1, h2, if_pos (Or.inr rfl), if_pos (by omega)]
      have : F - R + R - md = F - md := by omega
      rw [this]
      exact Nat.mod_eq_of_lt (by omega)
  rw [key]
  by_cases hc : md ≤ F
  · rw [if_pos hc]
    refine ⟨by omega, Nat.ModEq.trans ?_ g2⟩
    have : R * F = (F - md) * R + md * R := by
      rw [← Nat.add_mul]; rw [Nat.sub_add_cancel hc, Nat.mul_comm]
    rw [this]
    have h0 : md * R ≡ 0 [MOD md] := by
      rw [Nat.modEq_zero_iff_dvd]; exact ⟨R, rfl⟩
    simpa using ((Nat.ModEq.refl ((F - md) * R)).add h0).symm

  · rw [if_neg hc]
    refine ⟨by omega, ?_⟩
    rw [Nat.mul_comm]; exact g2

/-- `R = B^n` is invertible modulo an odd modulus: cancel it -/
theorem cancel_R {md k x y : Nat} (hodd : md % 2 = 1) (h : x * 2 ^ k ≡ y * 2 ^ k [MOD md]) :
    x ≡ y [MOD md] := by
  apply Nat.ModEq.cancel_right_of_coprime _ h
  apply Nat.Coprime.pow_right
  rw [Nat.coprime_comm]
  unfold Nat.Coprime
  rw [Nat.gcd_rec, hodd]
  rfl

theorem eq_of_modEq_lt {md x y : Nat} (h : x ≡ y [MOD md]) (hx : x < md) (hy : y < md) : x = y := by
  have := h
  unfold Nat.ModEq at this
  rwa [Nat.mod_eq_of_lt hx, Nat.mod_eq_of_lt hy] at this

/-! ## zmCreate: octet strings -/

theorem oval_append (a b : List Nat) :
    val 8 (a ++ b) = val 8 a + 2 ^ (8 * a.length) * val 8 b := by
  induction a with
  | nil => simp [val]
  | cons x xs ih =>
    rw [List.cons_append, val_cons, val_cons, ih, List.length_cons, Nat.mul_succ, Nat.pow_add]
    ring

theorem oval_lt (a : List Nat) (ha : Wf 8 a) : val 8 a < 2 ^ (8 * a.length) := by
  induction a with
  | nil => simp [val]
  | cons x xs ih =>
    obtain ⟨hx, hxs⟩ := Wf_cons.mp ha
    have := ih hxs
    rw [val_cons, List.length_cons, Nat.mul_succ, Nat.pow_add]
    have e : 2 ^ (8 * xs.length) * 2 ^ 8 = 2 ^ 8 * 2 ^ (8 * xs.length) := Nat.mul_comm _ _
    have h8 : (2 : Nat) ^ 8 = 256 := rfl
    rw [e]
    rw [h8] at hx ⊢
    omega

theorem oval_allFF (l : List Nat) (h : memIsRepV l 0xFF = true) :
    val 8 l + 1 = 2 ^ (8 * l.length) := by
  induction l with
  | nil => simp [val]
  | cons x xs ih =>
    simp only [memIsRepV, List.all_cons, Bool.and_eq_true, beq_iff_eq] at h
    have := ih (by simpa [memIsRepV] using h.2)
    rw [val_cons, List.length_cons, Nat.mul_succ, Nat.pow_add]
    have e : 2 ^ (8 * xs.length) * 2 ^ 8 = 2 ^ 8 * 2 ^ (8 * xs.length) := Nat.mul_comm _ _
    have h8 : (2 : Nat) ^ 8 = 256 := rfl
    rw [e, h8]
    omega

theorem oval_pos (l : List Nat) (h : memIsZeroV l = false) : 0 < val 8 l := by
  induction l with
  | nil => simp [memIsZeroV] at h
  | cons x xs ih =>
    simp only [val_cons]
    by_cases hx : x = 0
    · subst hx
      have : memIsZeroV xs = false := by simpa [memIsZeroV] using h
      have := ih this
      omega
    · omega

/-! ## wordNegInv -/

theorem wordNegInv_step (w m0 ret e : Nat) (h : 2 ^ e ∣ m0 * ret + 1) :
    2 ^ (min (2 * e) w) ∣ m0 * (ret * ((m0 * ret % 2 ^ w + 2) % 2 ^ w) % 2 ^ w) + 1 := by
  have e1 : ret * ((m0 * ret % 2 ^ w + 2) % 2 ^ w) % 2 ^ w ≡ ret * (m0 * ret + 2) [MOD 2 ^ w] :=
    (Nat.mod_modEq _ _).trans
      ((Nat.ModEq.refl ret).mul ((Nat.mod_modEq _ _).trans ((Nat.mod_modEq _ _).add_right 2)))
  have e2 : m0 * (ret * ((m0 * ret % 2 ^ w + 2) % 2 ^ w) % 2 ^ w) + 1
      ≡ m0 * (ret * (m0 * ret + 2)) + 1 [MOD 2 ^ w] := (e1.mul_left m0).add_right 1
  have e3 : m0 * (ret * (m0 * ret + 2)) + 1 = (m0 * ret + 1) * (m0 * ret + 1) := by ring
  rw [e3] at e2
  have d1 : 2 ^ (min (2 * e) w) ∣ 2 ^ w := Nat.pow_dvd_pow 2 (Nat.min_le_right _ _)
  have d2 : 2 ^ (min (2 * e) w) ∣ (m0 * ret + 1) * (m0 * ret + 1) := by
    have : 2 ^ (2 * e) ∣ (m0 * ret + 1) * (m0 * ret + 1) := by
      rw [Nat.two_mul, Nat.pow_add]; exact Nat.mul_dvd_mul h h
    exact Nat.dvd_trans (Nat.pow_dvd_pow 2 (Nat.min_le_left _ _)) this
  exact ((e2.of_dvd d1).dvd_iff (dvd_refl _)).2 d2

theorem wordNegInvLoop_spec (w m0 : Nat) : ∀ (k ret e : Nat), 2 ^ e ∣ m0 * ret + 1 → e ≤ w →
    2 ^ (min (e * 2 ^ k) w) ∣ m0 * wordNegInvLoop w m0 k ret + 1 := by
  intro k
  induction k with
  | zero =>
    intro ret e h he
    simpa [wordNegInvLoop, Nat.min_eq_left he] using h
  | succ k ih =>
    intro ret e h he
    unfold wordNegInvLoop
    have := ih _ _ (wordNegInv_step w m0 ret e h) (Nat.min_le_right _ _)
    have e4 : min (min (2 * e) w * 2 ^ k) w = min (e * 2 ^ (k + 1)) w := by
      rw [Nat.pow_succ]
      by_cases hc : 2 * e ≤ w
      · rw [Nat.min_eq_left hc]; congr 1; ring
      · have h1 : min (2 * e) w = w := Nat.min_eq_right (by omega)
        rw [h1]
        have hp := Nat.two_pow_pos k
        have h2 : w ≤ w * 2 ^ k := Nat.le_mul_of_pos_right _ hp
        have h3 : w ≤ e * (2 ^ k * 2) := by
          calc w ≤ 2 * e := by omega
            _ = e * (1 * 2) := by ring
            _ ≤ e * (2 ^ k * 2) := Nat.mul_le_mul_left _ (Nat.mul_le_mul_right _ hp)
        rw [Nat.min_eq_right h2, Nat.min_eq_right h3]
    rw [e4] at this
    exact this

/-- u16/u32/u64NegInv: `mod[0] * mont_param + 1 ≡ 0 (mod B)` for odd mod[0] — the C ASSERT of
    zzRedMont and the hypothesis `hmp` of the Montgomery theorems -/
theorem wordNegInvV_spec' (w m0 : Nat) (hw : w = 16 ∨ w = 32 ∨ w = 64) (hodd : m0 % 2 = 1) :
    (m0 * wordNegInvV w m0 + 1) % 2 ^ w = 0 := by
  unfold wordNegInvV
  have h1 : 2 ^ 1 ∣ m0 * m0 + 1 := by
    apply Nat.dvd_of_mod_eq_zero
    have : m0 * m0 % 2 = 1 := by rw [Nat.mul_mod, hodd]
    omega
  have := wordNegInvLoop_spec w m0 (Nat.log2 w) m0 1 h1 (by omega)
  have hl : 1 * 2 ^ Nat.log2 w = w := by
    rcases hw with rfl | rfl | rfl <;> decide
  rw [hl, Nat.min_self] at this
  exact Nat.mod_eq_zero_of_dvd this

end Bee2V.C05.Etc

/-
C05 — additive part of the arithmetic layer = exact arithmetic.

Property theorems (and non-vacuity examples) for the models of ModelAdd.lean:
for ALL list lengths and all word sizes `w` the code-shaped loops compute the
mathematical value.  `val w a` is the little-endian value of `a` in base `2^w`,
`Wf w a` says that all elements are words.  Helper lemmas: LemmasAdd.lean.
-/
import Bee2V.C05.LemmasAdd
namespace Bee2V.C05
open Bee2V.C05.Add

/-! ## 1. zz_add.c : addition and subtraction with carry / borrow -/

/-- zzAdd (regular body): `c + B^n carry = a + b`, carry ∈ {0,1}, c is an n-word number. -/
theorem zzAdd_spec (w : Nat) (a b : List Nat)
    (ha : Wf w a) (hb : Wf w b) (hl : a.length = b.length) :
    val w (zzAdd w a b).1 + 2 ^ (w * a.length) * (zzAdd w a b).2 = val w a + val w b
    ∧ (zzAdd w a b).2 ≤ 1 ∧ Wf w (zzAdd w a b).1 ∧ (zzAdd w a b).1.length = a.length := by
  unfold zzAdd
  rw [zzAddLoop_eq]
  exact loop2_add (fAdd_ok w) a b 0 ha hb hl (by omega)

example : zzAdd 64 [2 ^ 64 - 1, 2 ^ 64 - 1, 5] [1, 0, 2 ^ 64 - 6] = ([0, 0, 0], 1) := by decide

/-- zzAdd: the result is the sum modulo `B^n`, the returned carry is the quotient. -/
theorem zzAdd_mod_div (w : Nat) (a b : List Nat)
    (ha : Wf w a) (hb : Wf w b) (hl : a.length = b.length) :
    val w (zzAdd w a b).1 = (val w a + val w b) % 2 ^ (w * a.length)
    ∧ (zzAdd w a b).2 = (val w a + val w b) / 2 ^ (w * a.length) := by
  obtain ⟨h1, _, h3, h4⟩ := zzAdd_spec w a b ha hb hl
  have h5 := val_lt h3
  rw [h4] at h5
  obtain ⟨e1, e2⟩ := divmod_of_eq h5 h1
  exact ⟨e1.symm, e2.symm⟩

example : val 64 (zzAdd 64 [2 ^ 64 - 1, 7] [3, 2 ^ 64 - 8]).1 = 2 ∧ (zzAdd 64 [2 ^ 64 - 1, 7] [3, 2 ^ 64 - 8]).2 = 1 := by
  decide

/-- zzAdd, `#ifdef SAFE_FAST` body: same specification. -/
theorem zzAddF_spec (w : Nat) (a b : List Nat)
    (ha : Wf w a) (hb : Wf w b) (hl : a.length = b.length) :
    val w (zzAddF w a b).1 + 2 ^ (w * a.length) * (zzAddF w a b).2 = val w a + val w b
    ∧ (zzAddF w a b).2 ≤ 1 ∧ Wf w (zzAddF w a b).1 ∧ (zzAddF w a b).1.length = a.length := by
  unfold zzAddF
  rw [zzAddFLoop_eq]
  exact loop2_add (fAddF_ok w) a b 0 ha hb hl (by omega)

example : zzAddF 64 [2 ^ 64 - 1, 2 ^ 64 - 1, 5] [1, 0, 2 ^ 64 - 6] = ([0, 0, 0], 1) := by decide

/-- regular body = SAFE_FAST body of zzAdd (result words and carry). -/
theorem zzAddF_eq_zzAdd (w : Nat) (a b : List Nat)
    (ha : Wf w a) (hb : Wf w b) (hl : a.length = b.length) : zzAddF w a b = zzAdd w a b := by
  obtain ⟨h1, _, h3, h4⟩ := zzAdd_spec w a b ha hb hl
  obtain ⟨g1, _, g3, g4⟩ := zzAddF_spec w a b ha hb hl
  exact result_unique g1 h1 g3 h3 g4 h4

/-- zzAdd2(b, a) (`b += a`, regular body). -/
theorem zzAdd2_spec (w : Nat) (b a : List Nat)
    (hb : Wf w b) (ha : Wf w a) (hl : b.length = a.length) :
    val w (zzAdd2 w b a).1 + 2 ^ (w * b.length) * (zzAdd2 w b a).2 = val w b + val w a
    ∧ (zzAdd2 w b a).2 ≤ 1 ∧ Wf w (zzAdd2 w b a).1 ∧ (zzAdd2 w b a).1.length = b.length := by
  unfold zzAdd2
  rw [zzAdd2Loop_eq]
  exact loop2_add (fAdd2_ok w) b a 0 hb ha hl (by omega)

example : zzAdd2 64 [2 ^ 64 - 1, 2 ^ 64 - 1, 5] [1, 0, 2 ^ 64 - 7] = ([0, 0, 2 ^ 64 - 1], 0) := by decide

/-- zzAdd2, `#ifdef SAFE_FAST` body. -/
theorem zzAdd2F_spec (w : Nat) (b a : List Nat)
    (hb : Wf w b) (ha : Wf w a) (hl : b.length = a.length) :
    val w (zzAdd2F w b a).1 + 2 ^ (w * b.length) * (zzAdd2F w b a).2 = val w b + val w a
    ∧ (zzAdd2F w b a).2 ≤ 1 ∧ Wf w (zzAdd2F w b a).1 ∧ (zzAdd2F w b a).1.length = b.length := by
  unfold zzAdd2F
  rw [zzAdd2FLoop_eq]
  exact loop2_add (fAdd2F_ok w) b a 0 hb ha hl (by omega)

example : zzAdd2F 64 [2 ^ 64 - 1, 2 ^ 64 - 1, 5] [1, 0, 2 ^ 64 - 6] = ([0, 0, 0], 1) := by decide

theorem zzAdd2F_eq_zzAdd2 (w : Nat) (b a : List Nat)
    (hb : Wf w b) (ha : Wf w a) (hl : b.length = a.length) : zzAdd2F w b a = zzAdd2 w b a := by
  obtain ⟨h1, _, h3, h4⟩ := zzAdd2_spec w b a hb ha hl
  obtain ⟨g1, _, g3, g4⟩ := zzAdd2F_spec w b a hb ha hl
  exact result_unique g1 h1 g3 h3 g4 h4

/-- zzAddW (regular; also the regular body of zzAddW2): `b + B^n carry = a + x` for a word `x`.
    The returned carry is a word, and is 0/1 as soon as n > 0 (for n = 0 the C code returns `x`). -/
theorem zzAddW_spec' (w : Nat) (a : List Nat) (x : Nat) (ha : Wf w a) (hx : x < 2 ^ w) :
    val w (zzAddW w a x).1 + 2 ^ (w * a.length) * (zzAddW w a x).2 = val w a + x
    ∧ (zzAddW w a x).2 < 2 ^ w ∧ (a ≠ [] → (zzAddW w a x).2 ≤ 1)
    ∧ Wf w (zzAddW w a x).1 ∧ (zzAddW w a x).1.length = a.length :=
  zzAddW_spec w a x ha hx

example : zzAddW 64 [2 ^ 64 - 5, 2 ^ 64 - 1, 8] 77 = ([72, 0, 9], 0) := by decide
example : zzAddW 64 [2 ^ 64 - 5, 2 ^ 64 - 1] 77 = ([72, 0], 1) := by decide

/-- zzAddW2 regular body (the model shares the loop with zzAddW). -/
theorem zzAddW2_spec (w : Nat) (a : List Nat) (x : Nat) (ha : Wf w a) (hx : x < 2 ^ w) :
    val w (zzAddW2 w a x).1 + 2 ^ (w * a.length) * (zzAddW2 w a x).2 = val w a + x
    ∧ (zzAddW2 w a x).2 < 2 ^ w ∧ (a ≠ [] → (zzAddW2 w a x).2 ≤ 1)
    ∧ Wf w (zzAddW2 w a x).1 ∧ (zzAddW2 w a x).1.length = a.length :=
  zzAddW_spec w a x ha hx

/-- zzAddW2, `#ifdef SAFE_FAST` body (loop stops when the carry dies out). -/
theorem zzAddW2F_spec (w : Nat) (a : List Nat) (x : Nat) (ha : Wf w a) (hx : x < 2 ^ w) :
    val w (zzAddW2F w a x).1 + 2 ^ (w * a.length) * (zzAddW2F w a x).2 = val w a + x
    ∧ (zzAddW2F w a x).2 < 2 ^ w ∧ (a ≠ [] → (zzAddW2F w a x).2 ≤ 1)
    ∧ Wf w (zzAddW2F w a x).1 ∧ (zzAddW2F w a x).1.length = a.length := by
  rw [zzAddW2F_eq w a x ha]
  exact zzAddW_spec w a x ha hx

theorem zzAddW2F_eq_zzAddW2 (w : Nat) (a : List Nat) (x : Nat) (ha : Wf w a) :
    zzAddW2F w a x = zzAddW2 w a x := zzAddW2F_eq w a x ha

example : zzAddW2F 64 [2 ^ 64 - 5, 2 ^ 64 - 1, 8, 3] 77 = ([72, 0, 9, 3], 0) := by decide

/-- zzSub (regular body): `c + b = a + B^n borrow`, i.e. `c = a - b + borrow B^n`,
    and the borrow is the comparison `a < b`. -/
theorem zzSub_spec (w : Nat) (a b : List Nat)
    (ha : Wf w a) (hb : Wf w b) (hl : a.length = b.length) :
    val w (zzSub w a b).1 + val w b = val w a + 2 ^ (w * a.length) * (zzSub w a b).2
    ∧ (zzSub w a b).2 = (if val w a < val w b then 1 else 0)
    ∧ Wf w (zzSub w a b).1 ∧ (zzSub w a b).1.length = a.length := by
  unfold zzSub
  rw [zzSubLoop_eq]
  obtain ⟨h1, h2, h3, h4⟩ := loop2_sub (fSub_ok w) a b 0 ha hb hl (by omega)
  have h5 := val_lt h3
  rw [h4] at h5
  exact ⟨by simpa using h1, borrow_eq_lt h5 h2 (val_lt ha) (by simpa using h1), h3, h4⟩

example : zzSub 64 [0, 0, 5] [1, 0, 5] = ([2 ^ 64 - 1, 2 ^ 64 - 1, 2 ^ 64 - 1], 1) := by decide
example : zzSub 64 [0, 0, 5] [1, 0, 4] = ([2 ^ 64 - 1, 2 ^ 64 - 1, 0], 0) := by decide

/-- zzSub, `#ifdef SAFE_FAST` body (`0 < w` is needed: the body compares with `~borrow`). -/
theorem zzSubF_spec (w : Nat) (hw : 0 < w) (a b : List Nat)
    (ha : Wf w a) (hb : Wf w b) (hl : a.length = b.length) :
    val w (zzSubF w a b).1 + val w b = val w a + 2 ^ (w * a.length) * (zzSubF w a b).2
    ∧ (zzSubF w a b).2 = (if val w a < val w b then 1 else 0)
    ∧ Wf w (zzSubF w a b).1 ∧ (zzSubF w a b).1.length = a.length := by
  unfold zzSubF
  rw [zzSubFLoop_eq]
  obtain ⟨h1, h2, h3, h4⟩ := loop2_sub (fSubF_ok hw) a b 0 ha hb hl (by omega)
  have h5 := val_lt h3
  rw [h4] at h5
  exact ⟨by simpa using h1, borrow_eq_lt h5 h2 (val_lt ha) (by simpa using h1), h3, h4⟩

example : zzSubF 64 [0, 0, 5] [1, 0, 5] = ([2 ^ 64 - 1, 2 ^ 64 - 1, 2 ^ 64 - 1], 1) := by decide

theorem zzSubF_eq_zzSub (w : Nat) (hw : 0 < w) (a b : List Nat)
    (ha : Wf w a) (hb : Wf w b) (hl : a.length = b.length) : zzSubF w a b = zzSub w a b := by
  obtain ⟨h1, h2, h3, h4⟩ := zzSub_spec w a b ha hb hl
  obtain ⟨g1, g2, g3, g4⟩ := zzSubF_spec w hw a b ha hb hl
  have e : val w (zzSubF w a b).1 = val w (zzSub w a b).1 := by
    rw [g2] at g1; rw [h2] at h1; omega
  exact Prod.ext (val_inj g3 h3 (g4.trans h4.symm) e) (g2.trans h2.symm)

/-- zzSub2(b, a) (`b -= a`, regular body). -/
theorem zzSub2_spec (w : Nat) (b a : List Nat)
    (hb : Wf w b) (ha : Wf w a) (hl : b.length = a.length) :
    val w (zzSub2 w b a).1 + val w a = val w b + 2 ^ (w * b.length) * (zzSub2 w b a).2
    ∧ (zzSub2 w b a).2 = (if val w b < val w a then 1 else 0)
    ∧ Wf w (zzSub2 w b a).1 ∧ (zzSub2 w b a).1.length = b.length := by
  unfold zzSub2
  rw [zzSub2Loop_eq]
  obtain ⟨h1, h2, h3, h4⟩ := loop2_sub (fSub_ok w) b a 0 hb ha hl (by omega)
  have h5 := val_lt h3
  rw [h4] at h5
  exact ⟨by simpa using h1, borrow_eq_lt h5 h2 (val_lt hb) (by simpa using h1), h3, h4⟩

example : zzSub2 64 [0, 0, 5] [1, 0, 5] = ([2 ^ 64 - 1, 2 ^ 64 - 1, 2 ^ 64 - 1], 1) := by decide

/-- zzSub2, `#ifdef SAFE_FAST` body. -/
theorem zzSub2F_spec (w : Nat) (hw : 0 < w) (b a : List Nat)
    (hb : Wf w b) (ha : Wf w a) (hl : b.length = a.length) :
    val w (zzSub2F w b a).1 + val w a = val w b + 2 ^ (w * b.length) * (zzSub2F w b a).2
    ∧ (zzSub2F w b a).2 = (if val w b < val w a then 1 else 0)
    ∧ Wf w (zzSub2F w b a).1 ∧ (zzSub2F w b a).1.length = b.length := by
  unfold zzSub2F
  rw [zzSub2FLoop_eq]
  obtain ⟨h1, h2, h3, h4⟩ := loop2_sub (fSubF_ok hw) b a 0 hb ha hl (by omega)
  have h5 := val_lt h3
  rw [h4] at h5
  exact ⟨by simpa using h1, borrow_eq_lt h5 h2 (val_lt hb) (by simpa using h1), h3, h4⟩

example : zzSub2F 64 [0, 7, 5] [1, 7, 4] = ([2 ^ 64 - 1, 2 ^ 64 - 1, 0], 0) := by decide

theorem zzSub2F_eq_zzSub2 (w : Nat) (hw : 0 < w) (b a : List Nat)
    (hb : Wf w b) (ha : Wf w a) (hl : b.length = a.length) : zzSub2F w b a = zzSub2 w b a := by
  obtain ⟨h1, h2, h3, h4⟩ := zzSub2_spec w b a hb ha hl
  obtain ⟨g1, g2, g3, g4⟩ := zzSub2F_spec w hw b a hb ha hl
  have e : val w (zzSub2F w b a).1 = val w (zzSub2 w b a).1 := by
    rw [g2] at g1; rw [h2] at h1; omega
  exact Prod.ext (val_inj g3 h3 (g4.trans h4.symm) e) (g2.trans h2.symm)

/-- zzSubW (regular; also the regular body of zzSubW2): `b + x = a + B^n borrow`;
    for n > 0 the borrow is the comparison `a < x` (for n = 0 the C code returns `x`). -/
theorem zzSubW_spec' (w : Nat) (a : List Nat) (x : Nat) (ha : Wf w a) (hx : x < 2 ^ w) :
    val w (zzSubW w a x).1 + x = val w a + 2 ^ (w * a.length) * (zzSubW w a x).2
    ∧ (zzSubW w a x).2 < 2 ^ w
    ∧ (a ≠ [] → (zzSubW w a x).2 = (if val w a < x then 1 else 0))
    ∧ Wf w (zzSubW w a x).1 ∧ (zzSubW w a x).1.length = a.length := by
  obtain ⟨h1, h2, h3, h4, h5⟩ := zzSubW_spec w a x ha hx
  have h6 := val_lt h4
  rw [h5] at h6
  exact ⟨h1, h2, fun hne => borrow_eq_lt h6 (h3 hne) (val_lt ha) h1, h4, h5⟩

example : zzSubW 64 [3, 0, 8] 5 = ([2 ^ 64 - 2, 2 ^ 64 - 1, 7], 0) := by decide
example : zzSubW 64 [3, 0] 5 = ([2 ^ 64 - 2, 2 ^ 64 - 1], 1) := by decide

theorem zzSubW2_spec (w : Nat) (a : List Nat) (x : Nat) (ha : Wf w a) (hx : x < 2 ^ w) :
    val w (zzSubW2 w a x).1 + x = val w a + 2 ^ (w * a.length) * (zzSubW2 w a x).2
    ∧ (zzSubW2 w a x).2 < 2 ^ w
    ∧ (a ≠ [] → (zzSubW2 w a x).2 = (if val w a < x then 1 else 0))
    ∧ Wf w (zzSubW2 w a x).1 ∧ (zzSubW2 w a x).1.length = a.length :=
  zzSubW_spec' w a x ha hx

/-- zzSubW2, `#ifdef SAFE_FAST` body. -/
theorem zzSubW2F_spec (w : Nat) (a : List Nat) (x : Nat) (ha : Wf w a) (hx : x < 2 ^ w) :
    val w (zzSubW2F w a x).1 + x = val w a + 2 ^ (w * a.length) * (zzSubW2F w a x).2
    ∧ (zzSubW2F w a x).2 < 2 ^ w
    ∧ (a ≠ [] → (zzSubW2F w a x).2 = (if val w a < x then 1 else 0))
    ∧ Wf w (zzSubW2F w a x).1 ∧ (zzSubW2F w a x).1.length = a.length := by
  rw [zzSubW2F_eq w a x ha]
  exact zzSubW_spec' w a x ha hx

theorem zzSubW2F_eq_zzSubW2 (w : Nat) (a : List Nat) (x : Nat) (ha : Wf w a) :
    zzSubW2F w a x = zzSubW2 w a x := zzSubW2F_eq w a x ha

example : zzSubW2F 64 [3, 0, 8, 9] 5 = ([2 ^ 64 - 2, 2 ^ 64 - 1, 7, 9], 0) := by decide

/-- zzNeg: `b = (B^n - a) mod B^n` (`0 < w`: the constant 1 must be a word). -/
theorem zzNeg_spec (w : Nat) (hw : 0 < w) (a : List Nat) (ha : Wf w a) :
    val w (zzNeg w a) = (2 ^ (w * a.length) - val w a) % 2 ^ (w * a.length)
    ∧ Wf w (zzNeg w a) ∧ (zzNeg w a).length = a.length := by
  have h1lt : 1 < 2 ^ w := two_le_two_pow hw
  obtain ⟨h1, _, _, h4, h5⟩ := zzAddW_spec w (a.map (wnot w)) 1 (Wf_map_wnot w a) h1lt
  have h6 := val_lt h4
  have h7 := val_map_wnot w a ha
  have h8 := val_lt ha
  simp only [List.length_map] at h1 h5 h6
  rw [h5] at h6
  unfold zzNeg zzAddW2
  refine ⟨?_, h4, h5⟩
  have h9 : val w (zzAddW w (a.map (wnot w)) 1).1 + 2 ^ (w * a.length) * (zzAddW w (a.map (wnot w)) 1).2
      = 2 ^ (w * a.length) - val w a := by omega
  exact (divmod_of_eq h6 h9).1.symm

example : zzNeg 64 [0, 0, 5] = [0, 0, 2 ^ 64 - 5] := by decide
example : zzNeg 64 [0, 0, 0] = [0, 0, 0] := by decide

/-! ## 2. ww.c : comparisons (SAFE and FAST editions) -/

/-- SAFE(wwEq) decides equality of the values. -/
theorem wwEq_safe_spec (w : Nat) (a b : List Nat) (ha : Wf w a) (hb : Wf w b)
    (hl : a.length = b.length) : wwEq_safe a b = decide (val w a = val w b) := by
  rw [Bool.eq_iff_iff, wwEq_safe_iff, zip_all_eq hl, decide_eq_true_iff]
  exact ⟨fun h => by rw [h], val_inj ha hb hl⟩

/-- FAST(wwEq) decides equality of the values. -/
theorem wwEq_fast_spec (w : Nat) (a b : List Nat) (ha : Wf w a) (hb : Wf w b)
    (hl : a.length = b.length) : wwEq_fast a b = decide (val w a = val w b) := by
  rw [Bool.eq_iff_iff, wwEq_fast_iff, zip_all_eq hl, decide_eq_true_iff]
  exact ⟨fun h => by rw [h], val_inj ha hb hl⟩

/-- the two editions of wwEq agree on all inputs (no precondition). -/
theorem wwEq_safe_eq_fast (a b : List Nat) : wwEq_safe a b = wwEq_fast a b := by
  rw [Bool.eq_iff_iff, wwEq_safe_iff, wwEq_fast_iff]

example : wwEq_safe [1, 2 ^ 64 - 1, 3] [1, 2 ^ 64 - 1, 3] = true ∧ wwEq_fast [1, 2, 3] [1, 6, 3] = false := by
  decide

/-- FAST(wwCmp) is the three-way comparison of the values. -/
theorem wwCmp_fast_spec (w : Nat) (a b : List Nat) (ha : Wf w a) (hb : Wf w b)
    (hl : a.length = b.length) :
    wwCmp_fast a b = (if val w a < val w b then -1 else if val w b < val w a then 1 else 0) :=
  wwCmp_fast_eq w a b ha hb hl

/-- SAFE(wwCmp) is the three-way comparison of the values. -/
theorem wwCmp_safe_spec (w : Nat) (a b : List Nat) (ha : Wf w a) (hb : Wf w b)
    (hl : a.length = b.length) :
    wwCmp_safe a b = (if val w a < val w b then -1 else if val w b < val w a then 1 else 0) := by
  rw [wwCmp_safe_eq_fast]
  exact wwCmp_fast_eq w a b ha hb hl

/-- the two editions of wwCmp agree on all inputs (no precondition). -/
theorem wwCmp_safe_eq_wwCmp_fast (a b : List Nat) : wwCmp_safe a b = wwCmp_fast a b :=
  wwCmp_safe_eq_fast a b

example : wwCmp_safe [5, 2 ^ 64 - 1, 3] [9, 0, 3] = 1 ∧ wwCmp_fast [9, 7, 3] [5, 8, 3] = -1 := by decide

/-- SAFE(wwIsZero) / FAST(wwIsZero) decide `a = 0`. -/
theorem wwIsZero_safe_spec (w : Nat) (a : List Nat) : wwIsZero_safe a = decide (val w a = 0) := by
  rw [Bool.eq_iff_iff, wwIsZero_safe_iff, decide_eq_true_iff, val_eq_zero_iff]

theorem wwIsZero_fast_spec (w : Nat) (a : List Nat) : wwIsZero_fast a = decide (val w a = 0) := by
  rw [Bool.eq_iff_iff, wwIsZero_fast_iff, decide_eq_true_iff, val_eq_zero_iff]

theorem wwIsZero_safe_eq_fast (a : List Nat) : wwIsZero_safe a = wwIsZero_fast a := by
  rw [Bool.eq_iff_iff, wwIsZero_safe_iff, wwIsZero_fast_iff]

example : wwIsZero_safe [0, 0, 2 ^ 63] = false ∧ wwIsZero_fast [0, 0, 0] = true := by decide

/-- SAFE(wwCmp2): comparison of numbers of different lengths. -/
theorem wwCmp2_safe_spec (w : Nat) (a b : List Nat) (ha : Wf w a) (hb : Wf w b) :
    wwCmp2_safe a b = (if val w a < val w b then -1 else if val w b < val w a then 1 else 0) := by
  have key := wwCmp2_fast_eq w a b ha hb
  rw [wwCmp2_safe_eq_fast]
  exact key

/-- FAST(wwCmp2). -/
theorem wwCmp2_fast_spec (w : Nat) (a b : List Nat) (ha : Wf w a) (hb : Wf w b) :
    wwCmp2_fast a b = (if val w a < val w b then -1 else if val w b < val w a then 1 else 0) :=
  wwCmp2_fast_eq w a b ha hb

theorem wwCmp2_safe_eq_wwCmp2_fast (a b : List Nat) : wwCmp2_safe a b = wwCmp2_fast a b :=
  wwCmp2_safe_eq_fast a b

example : wwCmp2_safe [5, 7, 0, 0] [9, 7] = -1 ∧ wwCmp2_fast [5, 7] [9, 6, 0] = 1
    ∧ wwCmp2_safe [5, 7] [0, 0, 1] = -1 := by decide

/-! ## 3. zzIsSumEq / zzIsSumWEq -/

/-- SAFE(zzIsSumEq)(c, a, b) decides `a + b = c` (exact sum, no wrap). -/
theorem zzIsSumEq_safe_spec (w : Nat) (c a b : List Nat)
    (hc : Wf w c) (ha : Wf w a) (hb : Wf w b)
    (hl1 : c.length = a.length) (hl2 : a.length = b.length) :
    zzIsSumEq_safe w c a b = decide (val w a + val w b = val w c) := by
  obtain ⟨h1, _, h3, h4⟩ := zzAdd_spec w a b ha hb hl2
  rw [Bool.eq_iff_iff, decide_eq_true_iff]
  unfold zzIsSumEq_safe
  simp only [beq_iff_eq]
  rw [zzIsSumEq_safeLoop_iff w c a b 0 0 hl1 hl2]
  unfold zzAdd at h1 h3 h4
  constructor
  · rintro ⟨_, h⟩
    rw [h] at h1
    simpa using h1.symm
  · intro h
    refine ⟨rfl, ?_⟩
    exact result_unique (r2 := (c, 0)) h1 (by simpa using h.symm) h3 hc h4 hl1

/-- FAST(zzIsSumEq)(c, a, b) decides `a + b = c`. -/
theorem zzIsSumEq_fast_spec (w : Nat) (c a b : List Nat)
    (hc : Wf w c) (ha : Wf w a) (hb : Wf w b)
    (hl1 : c.length = a.length) (hl2 : a.length = b.length) :
    zzIsSumEq_fast w c a b = decide (val w a + val w b = val w c) := by
  obtain ⟨h1, _, h3, h4⟩ := zzAdd_spec w a b ha hb hl2
  rw [Bool.eq_iff_iff, decide_eq_true_iff]
  unfold zzIsSumEq_fast
  rw [zzIsSumEq_fastLoop_iff w c a b 0 ha hb (by omega) hl1 hl2]
  unfold zzAdd at h1 h3 h4
  constructor
  · intro h
    rw [h] at h1
    simpa using h1.symm
  · intro h
    exact result_unique (r2 := (c, 0)) h1 (by simpa using h.symm) h3 hc h4 hl1

theorem zzIsSumEq_safe_eq_fast (w : Nat) (c a b : List Nat)
    (hc : Wf w c) (ha : Wf w a) (hb : Wf w b)
    (hl1 : c.length = a.length) (hl2 : a.length = b.length) :
    zzIsSumEq_safe w c a b = zzIsSumEq_fast w c a b := by
  rw [zzIsSumEq_safe_spec w c a b hc ha hb hl1 hl2, zzIsSumEq_fast_spec w c a b hc ha hb hl1 hl2]

example : zzIsSumEq_safe 64 [0, 0, 9] [2 ^ 64 - 1, 2 ^ 64 - 1, 5] [1, 0, 3] = true
    ∧ zzIsSumEq_fast 64 [0, 0, 9] [2 ^ 64 - 1, 2 ^ 64 - 1, 5] [1, 0, 3] = true
    ∧ zzIsSumEq_safe 64 [0, 0] [2 ^ 64 - 1, 2 ^ 64 - 1] [1, 0] = false
    ∧ zzIsSumEq_fast 64 [0, 0] [2 ^ 64 - 1, 2 ^ 64 - 1] [1, 0] = false := by decide

/-- SAFE(zzIsSumWEq)(b, a, x) decides `a + x = b` for a word `x`. -/
theorem zzIsSumWEq_safe_spec (w : Nat) (b a : List Nat) (x : Nat)
    (hb : Wf w b) (ha : Wf w a) (hx : x < 2 ^ w) (hl : b.length = a.length) :
    zzIsSumWEq_safe w b a x = decide (val w a + x = val w b) := by
  obtain ⟨h1, _, _, h4, h5⟩ := zzAddW_spec w a x ha hx
  rw [Bool.eq_iff_iff, decide_eq_true_iff]
  unfold zzIsSumWEq_safe
  simp only [beq_iff_eq]
  rw [zzIsSumWEq_safeLoop_iff w b a 0 x ha hx hl]
  constructor
  · rintro ⟨_, h⟩
    rw [h] at h1
    simpa using h1.symm
  · intro h
    refine ⟨rfl, ?_⟩
    exact result_unique (r2 := (b, 0)) h1 (by simpa using h.symm) h4 hb h5 hl

/-- FAST(zzIsSumWEq)(b, a, x) decides `a + x = b`. -/
theorem zzIsSumWEq_fast_spec (w : Nat) (b a : List Nat) (x : Nat)
    (hb : Wf w b) (ha : Wf w a) (hx : x < 2 ^ w) (hl : b.length = a.length) :
    zzIsSumWEq_fast w b a x = decide (val w a + x = val w b) := by
  obtain ⟨h1, _, _, h4, h5⟩ := zzAddW_spec w a x ha hx
  rw [Bool.eq_iff_iff, decide_eq_true_iff, zzIsSumWEq_fast_iff w b a x ha hx hl]
  constructor
  · intro h
    rw [h] at h1
    simpa using h1.symm
  · intro h
    exact result_unique (r2 := (b, 0)) h1 (by simpa using h.symm) h4 hb h5 hl

theorem zzIsSumWEq_safe_eq_fast (w : Nat) (b a : List Nat) (x : Nat)
    (hb : Wf w b) (ha : Wf w a) (hx : x < 2 ^ w) (hl : b.length = a.length) :
    zzIsSumWEq_safe w b a x = zzIsSumWEq_fast w b a x := by
  rw [zzIsSumWEq_safe_spec w b a x hb ha hx hl, zzIsSumWEq_fast_spec w b a x hb ha hx hl]

example : zzIsSumWEq_safe 64 [4, 0, 6] [2 ^ 64 - 1, 2 ^ 64 - 1, 5] 5 = true
    ∧ zzIsSumWEq_fast 64 [4, 0, 6] [2 ^ 64 - 1, 2 ^ 64 - 1, 5] 5 = true
    ∧ zzIsSumWEq_safe 64 [4, 0] [2 ^ 64 - 1, 2 ^ 64 - 1] 5 = false
    ∧ zzIsSumWEq_fast 64 [4, 1] [2 ^ 64 - 1, 2 ^ 64 - 1] 5 = false := by decide

/-! ## 4. zz_etc.c : masked addition / subtraction (regularisation primitives) -/

/-- zzAddAndW(b, a, n, m): `b <- (b + (a & m)) mod B^n` for any mask word `m`
    (`a & m` word by word; the carry is dropped by the C code). -/
theorem zzAddAndW_spec (w : Nat) (b a : List Nat) (m : Nat)
    (hb : Wf w b) (ha : Wf w a) (hl : b.length = a.length) :
    val w (zzAddAndW w b a m) = (val w b + val w (a.map (m &&& ·))) % 2 ^ (w * b.length)
    ∧ Wf w (zzAddAndW w b a m) ∧ (zzAddAndW w b a m).length = b.length := by
  unfold zzAddAndW
  rw [zzAddAndWLoop_eq]
  obtain ⟨h1, _, h3, h4⟩ := loop2_add (fAdd2_ok w) b (a.map (m &&& ·)) 0 hb (Wf_map_and ha m)
    (by simpa using hl) (by omega)
  have h5 := val_lt h3
  rw [h4] at h5
  exact ⟨((divmod_of_eq h5 h1).1).symm, h3, h4⟩

/-- zzAddAndW with the masks the library uses: 0 keeps `b`, `WORD_MAX` adds `a`. -/
theorem zzAddAndW_mask (w : Nat) (b a : List Nat) (m : Nat) (hm : m = 0 ∨ m = 2 ^ w - 1)
    (hb : Wf w b) (ha : Wf w a) (hl : b.length = a.length) :
    val w (zzAddAndW w b a m) = (val w b + (if m = 0 then 0 else val w a)) % 2 ^ (w * b.length)
    ∧ Wf w (zzAddAndW w b a m) ∧ (zzAddAndW w b a m).length = b.length := by
  rw [← val_map_and w a ha m hm]
  exact zzAddAndW_spec w b a m hb ha hl

example : zzAddAndW 64 [2 ^ 64 - 1, 2 ^ 64 - 1, 7] [1, 0, 2] (2 ^ 64 - 1) = [0, 0, 10]
    ∧ zzAddAndW 64 [2 ^ 64 - 1, 2 ^ 64 - 1, 7] [1, 0, 2] 0 = [2 ^ 64 - 1, 2 ^ 64 - 1, 7] := by decide

/-- zzSubAndW(b, a, n, m): `b <- b - (a & m) + borrow B^n`, borrow = [b < a & m]. -/
theorem zzSubAndW_spec (w : Nat) (b a : List Nat) (m : Nat)
    (hb : Wf w b) (ha : Wf w a) (hl : b.length = a.length) :
    val w (zzSubAndW w b a m).1 + val w (a.map (m &&& ·))
      = val w b + 2 ^ (w * b.length) * (zzSubAndW w b a m).2
    ∧ (zzSubAndW w b a m).2 = (if val w b < val w (a.map (m &&& ·)) then 1 else 0)
    ∧ Wf w (zzSubAndW w b a m).1 ∧ (zzSubAndW w b a m).1.length = b.length := by
  unfold zzSubAndW
  rw [zzSubAndWLoop_eq]
  obtain ⟨h1, h2, h3, h4⟩ := loop2_sub (fSub_ok w) b (a.map (m &&& ·)) 0 hb (Wf_map_and ha m)
    (by simpa using hl) (by omega)
  have h5 := val_lt h3
  rw [h4] at h5
  exact ⟨by simpa using h1, borrow_eq_lt h5 h2 (val_lt hb) (by simpa using h1), h3, h4⟩

/-- zzSubAndW with the masks the library uses: 0 keeps `b`, `WORD_MAX` subtracts `a`. -/
theorem zzSubAndW_mask (w : Nat) (b a : List Nat) (m : Nat) (hm : m = 0 ∨ m = 2 ^ w - 1)
    (hb : Wf w b) (ha : Wf w a) (hl : b.length = a.length) :
    val w (zzSubAndW w b a m).1 + (if m = 0 then 0 else val w a)
      = val w b + 2 ^ (w * b.length) * (zzSubAndW w b a m).2
    ∧ (zzSubAndW w b a m).2 = (if val w b < (if m = 0 then 0 else val w a) then 1 else 0)
    ∧ Wf w (zzSubAndW w b a m).1 ∧ (zzSubAndW w b a m).1.length = b.length := by
  rw [← val_map_and w a ha m hm]
  exact zzSubAndW_spec w b a m hb ha hl

example : zzSubAndW 64 [0, 0, 7] [1, 0, 2] (2 ^ 64 - 1) = ([2 ^ 64 - 1, 2 ^ 64 - 1, 4], 0)
    ∧ zzSubAndW 64 [0, 0, 1] [1, 0, 2] (2 ^ 64 - 1) = ([2 ^ 64 - 1, 2 ^ 64 - 1, 2 ^ 64 - 2], 1)
    ∧ zzSubAndW 64 [0, 0, 7] [1, 0, 2] 0 = ([0, 0, 7], 0) := by decide

/-! ## 5. zz_mod.c : additive modular operations, SAFE and FAST editions

Preconditions are exactly those of zz.h: operands reduced (`a < mod`, …), equal lengths.
`0 < w` and `n > 0` are not assumed: they follow from `val a < val mod`.
`mod[n-1] ≠ 0` (stated in zz.h for zzSubMod and zzNegMod) is NOT needed by any theorem of
this section except zzHalfMod's. -/

/-- FAST(zzAddMod): `c = (a + b) mod mod`. -/
theorem zzAddMod_fast_spec (w : Nat) (a b mod : List Nat)
    (ha : Wf w a) (hb : Wf w b) (hm : Wf w mod)
    (hl1 : a.length = b.length) (hl2 : a.length = mod.length)
    (hA : val w a < val w mod) (hB : val w b < val w mod) :
    val w (zzAddMod_fast w a b mod) = (val w a + val w b) % val w mod
    ∧ val w (zzAddMod_fast w a b mod) < val w mod
    ∧ Wf w (zzAddMod_fast w a b mod) ∧ (zzAddMod_fast w a b mod).length = a.length := by
  obtain ⟨h1, h2, h3, h4⟩ := zzAdd_spec w a b ha hb hl1
  have hl : (zzAdd w a b).1.length = mod.length := h4.trans hl2
  have hcmp := wwCmp_fast_eq w (zzAdd w a b).1 mod h3 hm hl
  rw [← h4] at h1
  have := redFast w (zzAdd w a b).1 mod (zzAdd w a b).2 _ _ h3 hm hl h1 h2 (by omega) hcmp
  rw [h4] at this
  exact this

/-- SAFE(zzAddMod): `c = (a + b) mod mod`. -/
theorem zzAddMod_safe_spec (w : Nat) (a b mod : List Nat)
    (ha : Wf w a) (hb : Wf w b) (hm : Wf w mod)
    (hl1 : a.length = b.length) (hl2 : a.length = mod.length)
    (hA : val w a < val w mod) (hB : val w b < val w mod) :
    val w (zzAddMod_safe w a b mod) = (val w a + val w b) % val w mod
    ∧ val w (zzAddMod_safe w a b mod) < val w mod
    ∧ Wf w (zzAddMod_safe w a b mod) ∧ (zzAddMod_safe w a b mod).length = a.length := by
  have hw : 0 < w := pos_w_of_val_pos hm (by omega)
  obtain ⟨h1, h2, h3, h4⟩ := zzAdd_spec w a b ha hb hl1
  have hl : (zzAdd w a b).1.length = mod.length := h4.trans hl2
  rw [← h4] at h1
  have := redSafe w hw (zzAdd w a b).1 mod (zzAdd w a b).2 _ h3 hm hl h1 h2 (by omega)
  rw [h4] at this
  unfold zzAddMod_safe
  rw [zzAddMod_safeLoop_eq w a b mod 0 1 hl1 hl2]
  exact this

/-- the two editions of zzAddMod return the same words. -/
theorem zzAddMod_safe_eq_fast (w : Nat) (a b mod : List Nat)
    (ha : Wf w a) (hb : Wf w b) (hm : Wf w mod)
    (hl1 : a.length = b.length) (hl2 : a.length = mod.length)
    (hA : val w a < val w mod) (hB : val w b < val w mod) :
    zzAddMod_safe w a b mod = zzAddMod_fast w a b mod := by
  obtain ⟨s1, _, s3, s4⟩ := zzAddMod_safe_spec w a b mod ha hb hm hl1 hl2 hA hB
  obtain ⟨f1, _, f3, f4⟩ := zzAddMod_fast_spec w a b mod ha hb hm hl1 hl2 hA hB
  exact val_inj s3 f3 (s4.trans f4.symm) (s1.trans f1.symm)

example : zzAddMod_safe 64 [2 ^ 64 - 3, 5] [7, 4] [2 ^ 64 - 1, 6] = [5, 3]
    ∧ zzAddMod_fast 64 [2 ^ 64 - 3, 5] [7, 4] [2 ^ 64 - 1, 6] = [5, 3]
    ∧ zzAddMod_safe 64 [2 ^ 64 - 3, 2 ^ 64 - 1] [2 ^ 64 - 2, 2 ^ 64 - 1] [2 ^ 64 - 1, 2 ^ 64 - 1]
        = [2 ^ 64 - 4, 2 ^ 64 - 1] := by decide

/-- FAST(zzAddWMod): `b = (a + x) mod mod` for a word `x < mod`. -/
theorem zzAddWMod_fast_spec (w : Nat) (a : List Nat) (x : Nat) (mod : List Nat)
    (ha : Wf w a) (hx : x < 2 ^ w) (hm : Wf w mod) (hl : a.length = mod.length)
    (hA : val w a < val w mod) (hX : x < val w mod) :
    val w (zzAddWMod_fast w a x mod) = (val w a + x) % val w mod
    ∧ val w (zzAddWMod_fast w a x mod) < val w mod
    ∧ Wf w (zzAddWMod_fast w a x mod) ∧ (zzAddWMod_fast w a x mod).length = a.length := by
  have hne : a ≠ [] := by
    intro h; rw [h] at hl
    exact ne_nil_of_val_pos (w := w) (m := mod) (by omega) (List.length_eq_zero_iff.mp hl.symm)
  obtain ⟨h1, _, h2, h3, h4⟩ := zzAddW_spec w a x ha hx
  have hl' : (zzAddW w a x).1.length = mod.length := h4.trans hl
  have hcmp : wwCmp_safe (zzAddW w a x).1 mod = cmp3 (val w (zzAddW w a x).1) (val w mod) := by
    rw [wwCmp_safe_eq_fast]; exact wwCmp_fast_eq w _ mod h3 hm hl'
  rw [← h4] at h1
  have := redFast w (zzAddW w a x).1 mod (zzAddW w a x).2 _ _ h3 hm hl' h1 (h2 hne) (by omega) hcmp
  rw [h4] at this
  exact this

/-- SAFE(zzAddWMod). -/
theorem zzAddWMod_safe_spec (w : Nat) (a : List Nat) (x : Nat) (mod : List Nat)
    (ha : Wf w a) (hx : x < 2 ^ w) (hm : Wf w mod) (hl : a.length = mod.length)
    (hA : val w a < val w mod) (hX : x < val w mod) :
    val w (zzAddWMod_safe w a x mod) = (val w a + x) % val w mod
    ∧ val w (zzAddWMod_safe w a x mod) < val w mod
    ∧ Wf w (zzAddWMod_safe w a x mod) ∧ (zzAddWMod_safe w a x mod).length = a.length := by
  have hw : 0 < w := pos_w_of_val_pos hm (by omega)
  have hne : a ≠ [] := by
    intro h; rw [h] at hl
    exact ne_nil_of_val_pos (w := w) (m := mod) (by omega) (List.length_eq_zero_iff.mp hl.symm)
  obtain ⟨h1, _, h2, h3, h4⟩ := zzAddW_spec w a x ha hx
  have hl' : (zzAddW w a x).1.length = mod.length := h4.trans hl
  rw [← h4] at h1
  have := redSafe w hw (zzAddW w a x).1 mod (zzAddW w a x).2 _ h3 hm hl' h1 (h2 hne) (by omega)
  rw [h4] at this
  unfold zzAddWMod_safe
  rw [zzAddWMod_safeLoop_eq w a mod x 1 hl]
  exact this

theorem zzAddWMod_safe_eq_fast (w : Nat) (a : List Nat) (x : Nat) (mod : List Nat)
    (ha : Wf w a) (hx : x < 2 ^ w) (hm : Wf w mod) (hl : a.length = mod.length)
    (hA : val w a < val w mod) (hX : x < val w mod) :
    zzAddWMod_safe w a x mod = zzAddWMod_fast w a x mod := by
  obtain ⟨s1, _, s3, s4⟩ := zzAddWMod_safe_spec w a x mod ha hx hm hl hA hX
  obtain ⟨f1, _, f3, f4⟩ := zzAddWMod_fast_spec w a x mod ha hx hm hl hA hX
  exact val_inj s3 f3 (s4.trans f4.symm) (s1.trans f1.symm)

example : zzAddWMod_safe 64 [2 ^ 64 - 3, 5] 9 [2 ^ 64 - 1, 5] = [7, 0]
    ∧ zzAddWMod_fast 64 [2 ^ 64 - 3, 5] 9 [2 ^ 64 - 1, 5] = [7, 0]
    ∧ zzAddWMod_safe 64 [2 ^ 64 - 3, 2 ^ 64 - 1] 9 [2 ^ 64 - 1, 2 ^ 64 - 1] = [7, 0] := by decide

/-- FAST(zzSubMod): `c = (a - b) mod mod`. -/
theorem zzSubMod_fast_spec (w : Nat) (a b mod : List Nat)
    (ha : Wf w a) (hb : Wf w b) (hm : Wf w mod)
    (hl1 : a.length = b.length) (hl2 : a.length = mod.length)
    (hA : val w a < val w mod) (hB : val w b < val w mod) :
    val w (zzSubMod_fast w a b mod) = (val w a + val w mod - val w b) % val w mod
    ∧ val w (zzSubMod_fast w a b mod) < val w mod
    ∧ Wf w (zzSubMod_fast w a b mod) ∧ (zzSubMod_fast w a b mod).length = a.length := by
  obtain ⟨h1, h2, h3, h4⟩ := zzSub_spec w a b ha hb hl1
  have hbw : (zzSub w a b).2 ≤ 1 := by rw [h2]; split_ifs <;> omega
  rw [← h4] at h1
  have := incFast w (zzSub w a b).1 mod (zzSub w a b).2 _ _ h3 hm (h4.trans hl2) h1 hbw hA hB
  rw [h4] at this
  exact this

/-- SAFE(zzSubMod). -/
theorem zzSubMod_safe_spec (w : Nat) (a b mod : List Nat)
    (ha : Wf w a) (hb : Wf w b) (hm : Wf w mod)
    (hl1 : a.length = b.length) (hl2 : a.length = mod.length)
    (hA : val w a < val w mod) (hB : val w b < val w mod) :
    val w (zzSubMod_safe w a b mod) = (val w a + val w mod - val w b) % val w mod
    ∧ val w (zzSubMod_safe w a b mod) < val w mod
    ∧ Wf w (zzSubMod_safe w a b mod) ∧ (zzSubMod_safe w a b mod).length = a.length := by
  have hw : 0 < w := pos_w_of_val_pos hm (by omega)
  obtain ⟨h1, h2, h3, h4⟩ := zzSub_spec w a b ha hb hl1
  have hbw : (zzSub w a b).2 ≤ 1 := by rw [h2]; split_ifs <;> omega
  rw [← h4] at h1
  have := incSafe w hw (zzSub w a b).1 mod (zzSub w a b).2 _ _ h3 hm (h4.trans hl2) h1 hbw hA hB
  rw [h4] at this
  exact this

theorem zzSubMod_safe_eq_fast (w : Nat) (a b mod : List Nat)
    (ha : Wf w a) (hb : Wf w b) (hm : Wf w mod)
    (hl1 : a.length = b.length) (hl2 : a.length = mod.length)
    (hA : val w a < val w mod) (hB : val w b < val w mod) :
    zzSubMod_safe w a b mod = zzSubMod_fast w a b mod := by
  obtain ⟨s1, _, s3, s4⟩ := zzSubMod_safe_spec w a b mod ha hb hm hl1 hl2 hA hB
  obtain ⟨f1, _, f3, f4⟩ := zzSubMod_fast_spec w a b mod ha hb hm hl1 hl2 hA hB
  exact val_inj s3 f3 (s4.trans f4.symm) (s1.trans f1.symm)

example : zzSubMod_safe 64 [3, 4] [7, 4] [2 ^ 64 - 1, 6] = [2 ^ 64 - 5, 6]
    ∧ zzSubMod_fast 64 [3, 4] [7, 4] [2 ^ 64 - 1, 6] = [2 ^ 64 - 5, 6]
    ∧ zzSubMod_safe 64 [3, 0, 1] [7, 0, 0] [5, 0, 1] = [2 ^ 64 - 4, 2 ^ 64 - 1, 0] := by decide

/-- FAST(zzSubWMod): `b = (a - x) mod mod` for a word `x < mod`. -/
theorem zzSubWMod_fast_spec (w : Nat) (a : List Nat) (x : Nat) (mod : List Nat)
    (ha : Wf w a) (hx : x < 2 ^ w) (hm : Wf w mod) (hl : a.length = mod.length)
    (hA : val w a < val w mod) (hX : x < val w mod) :
    val w (zzSubWMod_fast w a x mod) = (val w a + val w mod - x) % val w mod
    ∧ val w (zzSubWMod_fast w a x mod) < val w mod
    ∧ Wf w (zzSubWMod_fast w a x mod) ∧ (zzSubWMod_fast w a x mod).length = a.length := by
  have hne : a ≠ [] := by
    intro h; rw [h] at hl
    exact ne_nil_of_val_pos (w := w) (m := mod) (by omega) (List.length_eq_zero_iff.mp hl.symm)
  obtain ⟨h1, _, h2, h3, h4⟩ := zzSubW_spec w a x ha hx
  rw [← h4] at h1
  have := incFast w (zzSubW w a x).1 mod (zzSubW w a x).2 _ _ h3 hm (h4.trans hl) h1 (h2 hne) hA hX
  rw [h4] at this
  exact this

/-- SAFE(zzSubWMod). -/
theorem zzSubWMod_safe_spec (w : Nat) (a : List Nat) (x : Nat) (mod : List Nat)
    (ha : Wf w a) (hx : x < 2 ^ w) (hm : Wf w mod) (hl : a.length = mod.length)
    (hA : val w a < val w mod) (hX : x < val w mod) :
    val w (zzSubWMod_safe w a x mod) = (val w a + val w mod - x) % val w mod
    ∧ val w (zzSubWMod_safe w a x mod) < val w mod
    ∧ Wf w (zzSubWMod_safe w a x mod) ∧ (zzSubWMod_safe w a x mod).length = a.length := by
  have hw : 0 < w := pos_w_of_val_pos hm (by omega)
  have hne : a ≠ [] := by
    intro h; rw [h] at hl
    exact ne_nil_of_val_pos (w := w) (m := mod) (by omega) (List.length_eq_zero_iff.mp hl.symm)
  obtain ⟨h1, _, h2, h3, h4⟩ := zzSubW_spec w a x ha hx
  rw [← h4] at h1
  have := incSafe w hw (zzSubW w a x).1 mod (zzSubW w a x).2 _ _ h3 hm (h4.trans hl) h1 (h2 hne) hA hX
  rw [h4] at this
  exact this

theorem zzSubWMod_safe_eq_fast (w : Nat) (a : List Nat) (x : Nat) (mod : List Nat)
    (ha : Wf w a) (hx : x < 2 ^ w) (hm : Wf w mod) (hl : a.length = mod.length)
    (hA : val w a < val w mod) (hX : x < val w mod) :
    zzSubWMod_safe w a x mod = zzSubWMod_fast w a x mod := by
  obtain ⟨s1, _, s3, s4⟩ := zzSubWMod_safe_spec w a x mod ha hx hm hl hA hX
  obtain ⟨f1, _, f3, f4⟩ := zzSubWMod_fast_spec w a x mod ha hx hm hl hA hX
  exact val_inj s3 f3 (s4.trans f4.symm) (s1.trans f1.symm)

example : zzSubWMod_safe 64 [3, 0] 9 [2 ^ 64 - 1, 5] = [2 ^ 64 - 7, 5]
    ∧ zzSubWMod_fast 64 [3, 0] 9 [2 ^ 64 - 1, 5] = [2 ^ 64 - 7, 5]
    ∧ zzSubWMod_safe 64 [3, 1] 9 [2 ^ 64 - 1, 5] = [2 ^ 64 - 6, 0] := by decide

/-- FAST(zzNegMod): `b = (-a) mod mod`, i.e. `mod - a` for `a ≠ 0` and 0 for `a = 0`. -/
theorem zzNegMod_fast_spec (w : Nat) (a mod : List Nat)
    (ha : Wf w a) (hm : Wf w mod) (hl : a.length = mod.length) (hA : val w a < val w mod) :
    val w (zzNegMod_fast w a mod) = (val w mod - val w a) % val w mod
    ∧ val w (zzNegMod_fast w a mod) < val w mod
    ∧ Wf w (zzNegMod_fast w a mod) ∧ (zzNegMod_fast w a mod).length = a.length := by
  obtain ⟨h1, h2, h3, h4⟩ := zzSub_spec w mod a hm ha hl.symm
  rw [if_neg (by omega)] at h2
  rw [h2] at h1
  unfold zzNegMod_fast
  rw [wwIsZero_safe_spec w a]
  by_cases hz : val w a = 0
  · simp only [hz, decide_true, Bool.not_true, Bool.false_eq_true, if_false, Nat.sub_zero,
      Nat.mod_self, val_map_zero, List.length_map, and_true, true_and]
    refine ⟨by omega, ?_⟩
    intro x hx
    obtain ⟨_, _, rfl⟩ := List.mem_map.mp hx
    exact Nat.two_pow_pos w
  · simp only [hz, decide_false, Bool.not_false, if_true]
    rw [Nat.mod_eq_of_lt (by omega)]
    exact ⟨by omega, by omega, h3, h4.trans hl.symm⟩

/-- SAFE(zzNegMod). -/
theorem zzNegMod_safe_spec (w : Nat) (a mod : List Nat)
    (ha : Wf w a) (hm : Wf w mod) (hl : a.length = mod.length) (hA : val w a < val w mod) :
    val w (zzNegMod_safe w a mod) = (val w mod - val w a) % val w mod
    ∧ val w (zzNegMod_safe w a mod) < val w mod
    ∧ Wf w (zzNegMod_safe w a mod) ∧ (zzNegMod_safe w a mod).length = a.length := by
  have hw : 0 < w := pos_w_of_val_pos hm (by omega)
  have h2w := two_le_two_pow hw
  obtain ⟨h1, h2, h3, h4⟩ := zzSub_spec w mod a hm ha hl.symm
  rw [if_neg (by omega)] at h2
  rw [h2] at h1
  have heq := wwEq_safe_spec w (zzSub w mod a).1 mod h3 hm h4
  have hk : (if wwEq_safe (zzSub w mod a).1 mod then 1 else 0) ≤ 1 := by split_ifs <;> omega
  have hmk : wneg w (if wwEq_safe (zzSub w mod a).1 mod then 1 else 0)
      = if val w a = 0 then 2 ^ w - 1 else 0 := by
    rw [wneg01 hw hk, heq]
    by_cases hz : val w a = 0
    · have : val w (zzSub w mod a).1 = val w mod := by omega
      simp [this, hz]
    · have : val w (zzSub w mod a).1 ≠ val w mod := by omega
      simp [this, hz]
  have hMP := val_lt hm
  have key : ∀ mk, mk = (if val w a = 0 then 2 ^ w - 1 else 0) →
      val w (zzSubAndW w (zzSub w mod a).1 mod mk).1 = (val w mod - val w a) % val w mod
      ∧ val w (zzSubAndW w (zzSub w mod a).1 mod mk).1 < val w mod
      ∧ Wf w (zzSubAndW w (zzSub w mod a).1 mod mk).1
      ∧ (zzSubAndW w (zzSub w mod a).1 mod mk).1.length = a.length := by
    intro mk hmk'
    have hm01 : mk = 0 ∨ mk = 2 ^ w - 1 := by rw [hmk']; split_ifs <;> simp
    obtain ⟨s1, s2, s3, s4⟩ := zzSubAndW_mask w (zzSub w mod a).1 mod mk hm01 h3 hm h4
    have hs := val_lt s3
    rw [s4, h4] at hs
    rw [h4] at s1
    have e2 := mul01 (2 ^ (w * mod.length)) (c := (zzSubAndW w (zzSub w mod a).1 mod mk).2)
      (by rw [s2]; split_ifs <;> omega)
    refine ⟨?_, ?_, s3, by rw [s4, h4, hl]⟩
    · by_cases hz : val w a = 0
      · rw [if_pos hz] at hmk'
        rw [if_neg (by omega)] at s1
        rw [hz, Nat.sub_zero, Nat.mod_self]
        split_ifs at e2 <;> omega
      · rw [if_neg hz] at hmk'
        rw [if_pos hmk'] at s1
        rw [Nat.mod_eq_of_lt (by omega)]
        split_ifs at e2 <;> omega
    · by_cases hz : val w a = 0
      · rw [if_pos hz] at hmk'
        rw [if_neg (by omega)] at s1
        split_ifs at e2 <;> omega
      · rw [if_neg hz] at hmk'
        rw [if_pos hmk'] at s1
        split_ifs at e2 <;> omega
  exact key _ hmk

theorem zzNegMod_safe_eq_fast (w : Nat) (a mod : List Nat)
    (ha : Wf w a) (hm : Wf w mod) (hl : a.length = mod.length) (hA : val w a < val w mod) :
    zzNegMod_safe w a mod = zzNegMod_fast w a mod := by
  obtain ⟨s1, _, s3, s4⟩ := zzNegMod_safe_spec w a mod ha hm hl hA
  obtain ⟨f1, _, f3, f4⟩ := zzNegMod_fast_spec w a mod ha hm hl hA
  exact val_inj s3 f3 (s4.trans f4.symm) (s1.trans f1.symm)

example : zzNegMod_safe 64 [3, 0, 1] [1, 0, 2] = [2 ^ 64 - 2, 2 ^ 64 - 1, 0]
    ∧ zzNegMod_fast 64 [3, 0, 1] [1, 0, 2] = [2 ^ 64 - 2, 2 ^ 64 - 1, 0]
    ∧ zzNegMod_safe 64 [0, 0, 0] [1, 0, 2] = [0, 0, 0]
    ∧ zzNegMod_fast 64 [0, 0, 0] [1, 0, 2] = [0, 0, 0] := by decide

/-- FAST(zzDoubleMod): `b = 2a mod mod`. -/
theorem zzDoubleMod_fast_spec (w : Nat) (a mod : List Nat)
    (ha : Wf w a) (hm : Wf w mod) (hl : a.length = mod.length) (hA : val w a < val w mod) :
    val w (zzDoubleMod_fast w a mod) = (2 * val w a) % val w mod
    ∧ val w (zzDoubleMod_fast w a mod) < val w mod
    ∧ Wf w (zzDoubleMod_fast w a mod) ∧ (zzDoubleMod_fast w a mod).length = a.length := by
  have hw : 0 < w := pos_w_of_val_pos hm (by omega)
  obtain ⟨h1, h2, h3, h4⟩ := zzDoubleLoop_spec w hw a 0 ha (by omega)
  have hl' : (zzDoubleLoop w a 0).1.length = mod.length := h4.trans hl
  have hcmp : wwCmp_safe (zzDoubleLoop w a 0).1 mod
      = cmp3 (val w (zzDoubleLoop w a 0).1) (val w mod) := by
    rw [wwCmp_safe_eq_fast]; exact wwCmp_fast_eq w _ mod h3 hm hl'
  rw [← h4, Nat.add_zero] at h1
  have := redFast w (zzDoubleLoop w a 0).1 mod (zzDoubleLoop w a 0).2 _ _ h3 hm hl' h1 h2
    (by omega) hcmp
  rw [h4] at this
  exact this

/-- SAFE(zzDoubleMod). -/
theorem zzDoubleMod_safe_spec (w : Nat) (a mod : List Nat)
    (ha : Wf w a) (hm : Wf w mod) (hl : a.length = mod.length) (hA : val w a < val w mod) :
    val w (zzDoubleMod_safe w a mod) = (2 * val w a) % val w mod
    ∧ val w (zzDoubleMod_safe w a mod) < val w mod
    ∧ Wf w (zzDoubleMod_safe w a mod) ∧ (zzDoubleMod_safe w a mod).length = a.length := by
  have hw : 0 < w := pos_w_of_val_pos hm (by omega)
  obtain ⟨h1, h2, h3, h4⟩ := zzDoubleLoop_spec w hw a 0 ha (by omega)
  have hl' : (zzDoubleLoop w a 0).1.length = mod.length := h4.trans hl
  rw [← h4, Nat.add_zero] at h1
  have := redSafe w hw (zzDoubleLoop w a 0).1 mod (zzDoubleLoop w a 0).2 _ h3 hm hl' h1 h2 (by omega)
  rw [h4] at this
  unfold zzDoubleMod_safe
  rw [zzDoubleMod_safeLoop_eq w a mod 0 1 hl]
  exact this

theorem zzDoubleMod_safe_eq_fast (w : Nat) (a mod : List Nat)
    (ha : Wf w a) (hm : Wf w mod) (hl : a.length = mod.length) (hA : val w a < val w mod) :
    zzDoubleMod_safe w a mod = zzDoubleMod_fast w a mod := by
  obtain ⟨s1, _, s3, s4⟩ := zzDoubleMod_safe_spec w a mod ha hm hl hA
  obtain ⟨f1, _, f3, f4⟩ := zzDoubleMod_fast_spec w a mod ha hm hl hA
  exact val_inj s3 f3 (s4.trans f4.symm) (s1.trans f1.symm)

example : zzDoubleMod_safe 64 [2 ^ 63 + 1, 2 ^ 63] [5, 2 ^ 64 - 1] = [2 ^ 64 - 3, 1]
    ∧ zzDoubleMod_fast 64 [2 ^ 63 + 1, 2 ^ 63] [5, 2 ^ 64 - 1] = [2 ^ 64 - 3, 1]
    ∧ zzDoubleMod_safe 64 [2 ^ 63 + 1, 3] [5, 2 ^ 64 - 1] = [2, 7] := by decide

/-- FAST(zzHalfMod): `b = a / 2 mod mod` for odd `mod`:
    `2 b = a` (a even) or `2 b = a + mod` (a odd), hence `2 b ≡ a (mod mod)` and `b < mod`.
    Not needed: `mod[n-1] ≠ 0`; `n > 0` follows from `a < mod`. -/
theorem zzHalfMod_fast_spec (w : Nat) (a mod : List Nat)
    (ha : Wf w a) (hm : Wf w mod) (hl : a.length = mod.length)
    (hodd : val w mod % 2 = 1) (hA : val w a < val w mod) :
    2 * val w (zzHalfMod_fast w a mod) = (if val w a % 2 = 1 then val w a + val w mod else val w a)
    ∧ (2 * val w (zzHalfMod_fast w a mod)) % val w mod = val w a
    ∧ val w (zzHalfMod_fast w a mod) < val w mod
    ∧ Wf w (zzHalfMod_fast w a mod) ∧ (zzHalfMod_fast w a mod).length = a.length := by
  have hw : 0 < w := pos_w_of_val_pos hm (by omega)
  obtain ⟨k, rfl⟩ : ∃ k, w = k + 1 := ⟨w - 1, by omega⟩
  have hne : a ≠ [] := by
    intro h; rw [h] at hl
    exact ne_nil_of_val_pos (w := k + 1) (m := mod) (by omega) (List.length_eq_zero_iff.mp hl.symm)
  have hn : 0 < a.length := List.length_pos_iff.mpr hne
  unfold zzHalfMod_fast
  by_cases hoa : val (k + 1) a % 2 = 1
  · rw [if_pos ((zzIsOdd_iff k a).mpr hoa), if_pos hoa]
    obtain ⟨h1, h2, h3, h4⟩ := zzAdd_spec (k + 1) a mod ha hm hl
    have hne' : (zzAdd (k + 1) a mod).1 ≠ [] := by
      intro h; rw [h] at h4; simp at h4; omega
    obtain ⟨g1, g2, g3⟩ := halfShift_spec k (zzAdd (k + 1) a mod).1 (zzAdd (k + 1) a mod).2 h3 h2 hne'
    rw [h4] at g1 g3
    obtain ⟨q, hq⟩ := pow_even k a.length hn (zzAdd (k + 1) a mod).2
    simp only []
    have e : 2 * val (k + 1) (zzHalfLoop (k + 1) (zzAdd (k + 1) a mod).1.reverse (zzAdd (k + 1) a mod).2).reverse
        = val (k + 1) a + val (k + 1) mod := by omega
    refine ⟨e, ?_, by omega, g2, g3⟩
    rw [e, Nat.add_mod_right, Nat.mod_eq_of_lt hA]
  · have hz : zzIsOdd a = false := by
      rw [← Bool.not_eq_true, zzIsOdd_iff k a]; exact hoa
    rw [hz, if_neg hoa]
    obtain ⟨g1, g2, g3⟩ := halfShift_spec k a 0 ha (by omega) hne
    simp only [Bool.false_eq_true, if_false]
    have e : 2 * val (k + 1) (zzHalfLoop (k + 1) a.reverse 0).reverse = val (k + 1) a := by omega
    refine ⟨e, ?_, by omega, g2, g3⟩
    rw [e, Nat.mod_eq_of_lt hA]

/-- SAFE(zzHalfMod). -/
theorem zzHalfMod_safe_spec (w : Nat) (a mod : List Nat)
    (ha : Wf w a) (hm : Wf w mod) (hl : a.length = mod.length)
    (hodd : val w mod % 2 = 1) (hA : val w a < val w mod) :
    2 * val w (zzHalfMod_safe w a mod) = (if val w a % 2 = 1 then val w a + val w mod else val w a)
    ∧ (2 * val w (zzHalfMod_safe w a mod)) % val w mod = val w a
    ∧ val w (zzHalfMod_safe w a mod) < val w mod
    ∧ Wf w (zzHalfMod_safe w a mod) ∧ (zzHalfMod_safe w a mod).length = a.length := by
  have hw : 0 < w := pos_w_of_val_pos hm (by omega)
  obtain ⟨k, rfl⟩ : ∃ k, w = k + 1 := ⟨w - 1, by omega⟩
  cases a with
  | nil =>
    exfalso
    exact ne_nil_of_val_pos (w := k + 1) (m := mod) (by omega) (List.length_eq_zero_iff.mp hl.symm)
  | cons a0 as =>
    cases mod with
    | nil => simp at hl
    | cons m0 ms =>
      have hl' : as.length = ms.length := by simpa using hl
      obtain ⟨g1, g2, g3⟩ := zzHalfMod_safe_val k a0 as m0 ms ha hm hl'
      have hbit : a0 % 2 ≤ 1 := by omega
      have hmask := wneg01 (w := k + 1) (by omega) hbit
      have h2w := two_le_two_pow (w := k + 1) (by omega)
      generalize wneg (k + 1) (a0 % 2) = mask at *
      have hm01 : mask = 0 ∨ mask = 2 ^ (k + 1) - 1 := by
        rw [hmask]; split_ifs <;> simp
      have hmz : mask = 0 ↔ a0 % 2 = 0 := by
        rw [hmask]; split_ifs <;> omega
      obtain ⟨l1, l2, _, _⟩ := loop2_add (fAdd3_ok (k + 1)) (a0 :: as)
        ((m0 :: ms).map (mask &&& ·)) 0 ha (Wf_map_and hm _) (by simpa using hl)
        (by omega)
      rw [val_map_and (k + 1) (m0 :: ms) hm _ hm01] at l1
      have hpar : val (k + 1) (a0 :: as) % 2 = a0 % 2 := val_mod_two k a0 as
      obtain ⟨q, hq⟩ := pow_even k (as.length + 1) (by omega)
        (loop2 (fAdd3 (k + 1)) (a0 :: as) ((m0 :: ms).map (mask &&& ·)) 0).2
      rw [List.length_cons] at l1
      have e : 2 * val (k + 1) (zzHalfMod_safe (k + 1) (a0 :: as) (m0 :: ms))
          = if val (k + 1) (a0 :: as) % 2 = 1 then val (k + 1) (a0 :: as) + val (k + 1) (m0 :: ms)
            else val (k + 1) (a0 :: as) := by
        by_cases hz : a0 % 2 = 0
        · rw [if_pos (hmz.mpr hz)] at l1
          rw [if_neg (by omega)]
          omega
        · rw [if_neg (fun h => hz (hmz.mp h))] at l1
          rw [if_pos (by omega)]
          omega
      refine ⟨e, ?_, ?_, g2, by rw [g3, List.length_cons]⟩
      · rw [e]
        split_ifs
        · rw [Nat.add_mod_right, Nat.mod_eq_of_lt hA]
        · exact Nat.mod_eq_of_lt hA
      · split_ifs at e <;> omega

/-- the two editions of zzHalfMod return the same words. -/
theorem zzHalfMod_safe_eq_fast (w : Nat) (a mod : List Nat)
    (ha : Wf w a) (hm : Wf w mod) (hl : a.length = mod.length)
    (hodd : val w mod % 2 = 1) (hA : val w a < val w mod) :
    zzHalfMod_safe w a mod = zzHalfMod_fast w a mod := by
  obtain ⟨s1, _, _, s3, s4⟩ := zzHalfMod_safe_spec w a mod ha hm hl hodd hA
  obtain ⟨f1, _, _, f3, f4⟩ := zzHalfMod_fast_spec w a mod ha hm hl hodd hA
  exact val_inj s3 f3 (s4.trans f4.symm) (by omega)

example : zzHalfMod_safe 64 [3, 2 ^ 64 - 1, 5] [2 ^ 64 - 1, 2, 2 ^ 64 - 1] = [1, 2 ^ 63 + 1, 2 ^ 63 + 2]
    ∧ zzHalfMod_fast 64 [3, 2 ^ 64 - 1, 5] [2 ^ 64 - 1, 2, 2 ^ 64 - 1] = [1, 2 ^ 63 + 1, 2 ^ 63 + 2]
    ∧ zzHalfMod_safe 64 [4, 3, 5] [2 ^ 64 - 1, 2, 2 ^ 64 - 1] = [2 ^ 63 + 2, 2 ^ 63 + 1, 2]
    ∧ zzHalfMod_fast 64 [4, 3, 5] [2 ^ 64 - 1, 2, 2 ^ 64 - 1] = [2 ^ 63 + 2, 2 ^ 63 + 1, 2] := by decide

/-! ## 6. the comparison mask of the SAFE loops (loop invariant)

`maskStep` is folded over the (mod, result) words from low to high; after any number of
steps `mask' = if m < c then 1 else if m = c then mask else 0` for the processed prefixes
(`maskFold_spec` in LemmasAdd.lean, by induction).  Started with `mask = 1` this is the
comparison `mod ≤ c`; the word results and the carry of the first pass are those of the
plain adders. -/

/-- first pass of SAFE(zzAddMod): words and carry of zzAdd, mask = [mod ≤ words]. -/
theorem zzAddMod_safeLoop_spec (w : Nat) (a b mod : List Nat)
    (ha : Wf w a) (hb : Wf w b) (hm : Wf w mod)
    (hl1 : a.length = b.length) (hl2 : a.length = mod.length) :
    (zzAddMod_safeLoop w a b mod 0 1).1 = (zzAdd w a b).1
    ∧ (zzAddMod_safeLoop w a b mod 0 1).2.1 = (zzAdd w a b).2
    ∧ (zzAddMod_safeLoop w a b mod 0 1).2.2
        = (if val w mod ≤ val w (zzAdd w a b).1 then 1 else 0) := by
  obtain ⟨_, _, h3, h4⟩ := zzAdd_spec w a b ha hb hl1
  rw [zzAddMod_safeLoop_eq w a b mod 0 1 hl1 hl2]
  exact ⟨rfl, rfl, maskFold_one w mod _ hm h3 (hl2.symm.trans h4.symm)⟩

/-- first pass of SAFE(zzAddWMod). -/
theorem zzAddWMod_safeLoop_spec (w : Nat) (a mod : List Nat) (x : Nat)
    (ha : Wf w a) (hx : x < 2 ^ w) (hm : Wf w mod) (hl : a.length = mod.length) :
    (zzAddWMod_safeLoop w a mod x 1).1 = (zzAddW w a x).1
    ∧ (zzAddWMod_safeLoop w a mod x 1).2.1 = (zzAddW w a x).2
    ∧ (zzAddWMod_safeLoop w a mod x 1).2.2
        = (if val w mod ≤ val w (zzAddW w a x).1 then 1 else 0) := by
  obtain ⟨_, _, _, h3, h4⟩ := zzAddW_spec w a x ha hx
  rw [zzAddWMod_safeLoop_eq w a mod x 1 hl]
  exact ⟨rfl, rfl, maskFold_one w mod _ hm h3 (hl.symm.trans h4.symm)⟩

/-- first pass of SAFE(zzDoubleMod): `b + B^n carry = 2a`, mask = [mod ≤ b]. -/
theorem zzDoubleMod_safeLoop_spec (w : Nat) (hw : 0 < w) (a mod : List Nat)
    (ha : Wf w a) (hm : Wf w mod) (hl : a.length = mod.length) :
    val w (zzDoubleMod_safeLoop w a mod 0 1).1
        + 2 ^ (w * a.length) * (zzDoubleMod_safeLoop w a mod 0 1).2.1 = 2 * val w a
    ∧ (zzDoubleMod_safeLoop w a mod 0 1).2.1 ≤ 1
    ∧ (zzDoubleMod_safeLoop w a mod 0 1).2.2
        = (if val w mod ≤ val w (zzDoubleMod_safeLoop w a mod 0 1).1 then 1 else 0) := by
  obtain ⟨h1, h2, h3, h4⟩ := zzDoubleLoop_spec w hw a 0 ha (by omega)
  rw [zzDoubleMod_safeLoop_eq w a mod 0 1 hl]
  exact ⟨by simpa using h1, h2, maskFold_one w mod _ hm h3 (hl.symm.trans h4.symm)⟩

example : zzAddMod_safeLoop 64 [2 ^ 64 - 3, 5] [7, 4] [2 ^ 64 - 1, 6] 0 1 = ([4, 10], 0, 1)
    ∧ zzAddMod_safeLoop 64 [2 ^ 64 - 3, 5] [1, 1] [2 ^ 64 - 1, 6] 0 1 = ([2 ^ 64 - 2, 6], 0, 0)
    ∧ zzDoubleMod_safeLoop 64 [2 ^ 63 + 1, 3] [5, 2 ^ 64 - 1] 0 1 = ([2, 7], 0, 0) := by decide

/-- the loop invariant in its inductive form (any entry state `carry`, `mask` ∈ {0,1}):
    on exit `mask' = 1` iff `mod < c`, or `mod = c` and the entry mask was 1
    (little-endian comparison of the processed words). -/
theorem zzAddMod_safeLoop_invariant (w : Nat) (a b mod : List Nat) (carry mask : Nat)
    (ha : Wf w a) (hb : Wf w b) (hm : Wf w mod)
    (hl1 : a.length = b.length) (hl2 : a.length = mod.length)
    (hc : carry ≤ 1) (hk : mask ≤ 1) :
    (zzAddMod_safeLoop w a b mod carry mask).2.2
      = (if val w mod < val w (zzAddMod_safeLoop w a b mod carry mask).1 then 1
         else if val w mod = val w (zzAddMod_safeLoop w a b mod carry mask).1 then mask else 0) := by
  rw [zzAddMod_safeLoop_eq w a b mod carry mask hl1 hl2]
  have h := loop2_add (fAdd_ok w) a b carry ha hb hl1 hc
  rw [← zzAddLoop_eq] at h
  obtain ⟨_, _, h3, h4⟩ := h
  exact maskFold_spec w mod _ mask hk hm h3 (hl2.symm.trans h4.symm)

example : (zzAddMod_safeLoop 64 [5, 1] [1, 1] [6, 2] 0 0).2.2 = 0
    ∧ (zzAddMod_safeLoop 64 [5, 1] [1, 1] [6, 2] 0 1).2.2 = 1
    ∧ (zzAddMod_safeLoop 64 [5, 1] [2, 1] [6, 2] 0 0).2.2 = 1 := by decide

end Bee2V.C05

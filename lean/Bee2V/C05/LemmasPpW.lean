/-
C05 — lemmas for ModelPpW.lean: the word-level models of pp_gcd.c / pp_mod.c refine the value-level
models of ModelPp.lean.  Reuses the buffer toolkit of LemmasGcdW (Buf, strip_buf, wordSize_buf,
norm_le, padTake, finalShift, SizesOK).
-/
import Bee2V.C05.ModelPpW
import Bee2V.C05.LemmasGcdW
import Bee2V.C05.LemmasPpRed
namespace Bee2V.C05.PpW
open Bee2V.C05 Bee2V.C05.Add Bee2V.C05.GcdW Bee2V.C05.Spec

/-! ## generalities -/

theorem ppLoZeros_eq {n : Nat} (hn : 0 < n) : ppLoZeros n = loZeros n :=
  loZeros_unique hn (Nat.mod_eq_zero_of_dvd (Pp.loZeros_dvd n)) (Pp.loZeros_odd (by omega))

/-- `wwXor2(x, y, ny)` on buffers, ny ≤ nx -/
theorem xorPrefix_spec {w : Nat} {x y : List Nat} {nx ny : Nat} (hx : Buf w x nx) (hy : Buf w y ny)
    (hle : ny ≤ nx) :
    Buf w (xorPrefixW ny x y) nx ∧ (xorPrefixW ny x y).length = x.length
    ∧ val w (xorPrefixW ny x y) = val w x ^^^ val w y := by
  obtain ⟨x1, x2, x3⟩ := hx
  obtain ⟨y1, y2, y3⟩ := hy
  have hxl : (x.take ny).length = ny := by rw [List.length_take]; omega
  have hyl : (y.take ny).length = ny := by rw [List.length_take]; omega
  obtain ⟨s1, s2, s3⟩ := wwXor2_spec (w := w) (x.take ny) (y.take ny) (by rw [hxl, hyl]) (Wf_take x1 _)
    (Wf_take y1 _)
  unfold xorPrefixW onPrefixW
  have hlen : (wwXor2 (x.take ny) (y.take ny) ++ x.drop ny).length = x.length := by
    rw [List.length_append, s1, hxl, List.length_drop]; omega
  have hdrop : (wwXor2 (x.take ny) (y.take ny) ++ x.drop ny).drop nx = x.drop nx := by
    rw [List.drop_append, List.drop_of_length_le (by rw [s1, hxl]; exact hle), List.nil_append,
      List.drop_drop, s1, hxl]
    congr 1; omega
  refine ⟨⟨Wf_append.mpr ⟨s2, Wf_drop x1 _⟩, by rw [hlen]; exact x2, by rw [hdrop]; exact x3⟩, hlen, ?_⟩
  have hyv : val w (y.take ny) = val w y := Buf.val_take ⟨y1, y2, y3⟩
  have hxs := val_take_drop w x ny (by omega)
  have hlt := Add.val_lt (Wf_take x1 ny)
  rw [hxl] at hlt
  have hlt2 := Add.val_lt s2
  rw [s1, hxl] at hlt2
  rw [val_append, s1, hxl, s3, hyv, hxs, Nat.add_comm, PpRed.add_shl_eq_xor (by rw [← hyv, ← s3]; exact hlt2),
    Nat.add_comm (val w (x.take ny)), PpRed.add_shl_eq_xor hlt, Nat.xor_assoc]

theorem cmp2_ge_buf {w : Nat} {u v : List Nat} {nu nv : Nat} (hu : Buf w u nu) (hv : Buf w v nv) :
    wwCmp2_safe (u.take nu) (v.take nv) ≥ 0 ↔ val w v ≤ val w u := by
  rw [wwCmp2_safe_spec w _ _ (Wf_take hu.1 nu) (Wf_take hv.1 nv), hu.val_take, hv.val_take]
  split_ifs <;> omega

theorem strip_buf' {w : Nat} (hw : 0 < w) (hs : SizesOK w) {u : List Nat} {n : Nat} (h : Buf w u n)
    (hne : 0 < val w u) :
    Buf w (onPrefixW n (fun p => wwShLo w p (wwLoZeroBits w p)) u) n
    ∧ (onPrefixW n (fun p => wwShLo w p (wwLoZeroBits w p)) u).length = u.length
    ∧ val w (onPrefixW n (fun p => wwShLo w p (wwLoZeroBits w p)) u) = val w u >>> ppLoZeros (val w u)
    ∧ 0 < val w u >>> ppLoZeros (val w u) := by
  obtain ⟨a1, a2, a3⟩ := strip_buf hw hs h hne
  rw [Nat.shiftRight_eq_div_pow, ppLoZeros_eq hne]
  exact ⟨a1, a2, a3, (Gcd.strip_pos_le hne).1⟩

/-! ## ppGCD -/

theorem isZero_take {w : Nat} {u : List Nat} {n : Nat} (h : Buf w u n) :
    wwIsZero_safe (u.take n) = decide (val w u = 0) := by
  rw [wwIsZero_safe_spec w, h.val_take]

/-- the `do … while` loop of ppGCD: lockstep with the value level (for every fuel) -/
theorem ppGCDLoopW_spec {w : Nat} (hw : 0 < w) (hs : SizesOK w) :
    ∀ (f : Nat) (u : List Nat) (n : Nat) (v : List Nat) (m : Nat), Buf w u n → Buf w v m →
      0 < val w u → 0 < val w v →
      val w (ppGCDLoopW w f u n v m).1 = ppGCDLoop f (val w u) (val w v)
      ∧ Buf w (ppGCDLoopW w f u n v m).1 (ppGCDLoopW w f u n v m).2
      ∧ (ppGCDLoopW w f u n v m).1.length = v.length := by
  intro f
  induction f with
  | zero => intro u n v m _ hv _ _; exact ⟨rfl, hv, rfl⟩
  | succ f ih =>
    intro u n v m hu hv hup hvp
    unfold ppGCDLoopW ppGCDLoop
    simp only []
    obtain ⟨a1, a2, a3, a4⟩ := strip_buf' hw hs hu hup
    obtain ⟨b1, b2, b3, b4⟩ := strip_buf' hw hs hv hvp
    rw [← a3] at a4 ⊢
    rw [← b3] at b4 ⊢
    generalize onPrefixW n (fun p => wwShLo w p (wwLoZeroBits w p)) u = u1 at *
    generalize onPrefixW m (fun p => wwShLo w p (wwLoZeroBits w p)) v = v1 at *
    obtain ⟨n1, n2, n3⟩ := wordSize_buf a1
    obtain ⟨m1, m2, m3⟩ := wordSize_buf b1
    generalize wwWordSize (u1.take n) = n' at *
    generalize wwWordSize (v1.take m) = m' at *
    by_cases hge : val w v1 ≤ val w u1
    · rw [if_pos ((cmp2_ge_buf n1 m1).mpr hge), if_pos hge]
      have hnn := norm_le n1 m3 hge
      obtain ⟨x1, x2, x3⟩ := xorPrefix_spec n1 m1 hnn
      rw [isZero_take x1, x3]
      by_cases hz : val w u1 ^^^ val w v1 = 0
      · simp only [hz, decide_true, Bool.not_true, Bool.false_eq_true, if_false, ne_eq,
          not_true_eq_false]
        exact ⟨trivial, m1, b2⟩
      · simp only [hz, decide_false, Bool.not_false, if_true, ne_eq, not_false_eq_true]
        obtain ⟨i1, i2, i3⟩ := ih (xorPrefixW m' u1 v1) n' v1 m' x1 m1 (by rw [x3]; omega) b4
        rw [x3] at i1
        exact ⟨i1, i2, by rw [i3, b2]⟩
    · rw [if_neg (fun h => hge ((cmp2_ge_buf n1 m1).mp h)), if_neg hge]
      have hnn := norm_le m1 n3 (by omega)
      obtain ⟨x1, x2, x3⟩ := xorPrefix_spec m1 n1 hnn
      rw [isZero_take n1]
      have hu0 : val w u1 ≠ 0 := by omega
      simp only [hu0, decide_false, Bool.not_false, if_true, ne_eq, not_false_eq_true]
      have hne : val w v1 ^^^ val w u1 ≠ 0 := by
        intro h0; have := Pp.xor_eq_zero_iff.1 h0; omega
      obtain ⟨i1, i2, i3⟩ := ih u1 n' (xorPrefixW n' v1 u1) m' n1 x1 a4 (by rw [x3]; omega)
      rw [x3] at i1
      exact ⟨i1, i2, by rw [i3, x2, b2]⟩

/-- a divisor of a non-zero polynomial that fits k words fits k words -/
theorem pdvd_lt {w : Nat} {g : Nat} {a : List Nat} (ha : Wf w a) (ha0 : val w a ≠ 0)
    (h : Pp.PDvd g (val w a)) : g < 2 ^ (w * a.length) := by
  obtain ⟨q, hq⟩ := h
  have hq0 : q ≠ 0 := by intro h0; rw [h0, Pp.zero_clmul] at hq; exact ha0 hq
  have hg0 : g ≠ 0 := by intro h0; rw [h0, Pp.clmul_zero] at hq; exact ha0 hq
  have hl := Pp.log2_clmul hq0 hg0
  rw [← hq] at hl
  have h1 := (Nat.log2_lt ha0).2 (Add.val_lt ha)
  exact (Nat.log2_lt hg0).1 (by omega)

/-- ppGCD: the word-level model computes the value-level model -/
theorem ppGCDW_refines {w : Nat} (hw : 0 < w) (hs : SizesOK w) (a b : List Nat)
    (ha : Wf w a) (hb : Wf w b) (hap : 0 < val w a) (hbp : 0 < val w b) :
    val w (ppGCDW w a b) = ppGCDV (val w a) (val w b)
    ∧ Wf w (ppGCDW w a b) ∧ (ppGCDW w a b).length = min a.length b.length := by
  obtain ⟨c1, c2, c3, c4, c5⟩ := Gcd.shift_common hap hbp
  have hgcd := Pp.gcdV_isPGcd (a := val w a) (b := val w b) (by omega) (by omega)
  have hlt1 := pdvd_lt ha (by omega) hgcd.1
  have hlt2 := pdvd_lt hb (by omega) hgcd.2.1
  unfold ppGCDW ppGCDV at *
  simp only [] at *
  rw [lz_eq hs a ha hap, lz_eq hs b hb hbp]
  rw [ppLoZeros_eq hap, ppLoZeros_eq hbp] at hlt1 hlt2 ⊢
  generalize min (loZeros (val w a)) (loZeros (val w b)) = s at *
  obtain ⟨u1, u2, u3⟩ := wwShLo_spec hw a s ha
  obtain ⟨v1, v2, v3⟩ := wwShLo_spec hw b s hb
  have hbu : Buf w (wwShLo w a s) (wwWordSize (wwShLo w a s)) := by
    have := (wordSize_buf (buf_full u2)).1
    rwa [List.take_length] at this
  have hbv : Buf w (wwShLo w b s) (wwWordSize (wwShLo w b s)) := by
    have := (wordSize_buf (buf_full v2)).1
    rwa [List.take_length] at this
  simp only [Nat.shiftRight_eq_div_pow, Nat.shiftLeft_eq] at hlt1 hlt2 ⊢
  rw [← u3, ← v3] at hlt1 hlt2 ⊢
  rw [← u3] at c4
  rw [← v3] at c5
  generalize wwShLo w a s = u at *
  generalize wwShLo w b s = v at *
  obtain ⟨l1, l2, l3⟩ := ppGCDLoopW_spec hw hs ((val w u).log2 + (val w v).log2 + 3) u
    (wwWordSize u) v (wwWordSize v) hbu hbv c4 c5
  rw [← l1] at hlt1 hlt2 ⊢
  generalize ppGCDLoopW w ((val w u).log2 + (val w v).log2 + 3) u (wwWordSize u) v (wwWordSize v) = r at *
  have hG2 : val w r.1 * 2 ^ s < 2 ^ (w * min a.length b.length) := by
    rcases Nat.le_total a.length b.length with h | h
    · rw [Nat.min_eq_left h]; exact hlt1
    · rw [Nat.min_eq_right h]; exact hlt2
  have hpl : (r.1.take r.2).length = r.2 := by
    rw [List.length_take]; exact Nat.min_eq_left l2.2.1
  have hpos : 0 < 2 ^ s := Nat.two_pow_pos s
  have hGle : val w r.1 ≤ val w r.1 * 2 ^ s := Nat.le_mul_of_pos_right _ hpos
  obtain ⟨p1, p2, p3, p4⟩ := padTake (w := w) (r.1.take r.2) (min a.length b.length) (Wf_take l2.1 _)
    (by rw [l2.val_take]; omega)
  rw [hpl] at p1 p2 p3 p4
  rw [l2.val_take] at p1 p4
  exact finalShift hw hs _ (min a.length b.length) s (val w r.1) r.2 p3 p2 p1 p4 hG2


/-! ## ppDivMod -/

theorem testBit0 {w : Nat} (hw : 0 < w) {a : List Nat} (ha : Wf w a) (hl : 0 < a.length) :
    (wwTestBit w a 0 = false) ↔ val w a % 2 = 0 := by
  rw [wwTestBit_spec hw a 0 (Nat.mul_pos hw hl) ha]
  simp only [Nat.pow_zero, Nat.div_one, decide_eq_false_iff_not]
  omega

theorem ppHalveModW_spec {w : Nat} (hw : 0 < w) (md : List Nat) (hm : Wf w md) (hml : 0 < md.length)
    (nu : Nat) :
    ∀ (f : Nat) (u da : List Nat), Buf w u nu → 0 < u.length → Wf w da → da.length = md.length →
      val w (ppHalveModW w md nu f u da).1 = (ppHalveMod (val w md) f (val w u) (val w da)).1
      ∧ val w (ppHalveModW w md nu f u da).2 = (ppHalveMod (val w md) f (val w u) (val w da)).2
      ∧ Buf w (ppHalveModW w md nu f u da).1 nu
      ∧ (ppHalveModW w md nu f u da).1.length = u.length
      ∧ Wf w (ppHalveModW w md nu f u da).2
      ∧ (ppHalveModW w md nu f u da).2.length = md.length := by
  intro f
  induction f with
  | zero => intro u da hu _ hda hdl; exact ⟨rfl, rfl, hu, rfl, hda, hdl⟩
  | succ f ih =>
    intro u da hu hul hda hdl
    unfold ppHalveModW ppHalveMod
    obtain ⟨s1, s2, s3⟩ := shLo1_buf hw hu
    by_cases hue : val w u % 2 = 0
    · rw [if_pos ((testBit0 hw hu.1 hul).2 hue), if_pos hue]
      by_cases hde : val w da % 2 = 0
      · rw [if_pos ((testBit0 hw hda (by omega)).2 hde), if_pos hde]
        obtain ⟨t1, t2, t3⟩ := wwShLo_spec hw da 1 hda
        obtain ⟨i1, i2, i3, i4, i5, i6⟩ := ih (shLo1W w nu u) (wwShLo w da 1) s1 (by rw [show (shLo1W w nu u).length = u.length from s2]; exact hul) t2 (by rw [t1, hdl])
        rw [show val w (shLo1W w nu u) = val w u / 2 from s3, t3, Nat.pow_one] at i1 i2
        exact ⟨i1, i2, i3, by rw [i4]; exact s2, i5, i6⟩
      · rw [if_neg (fun h => hde ((testBit0 hw hda (by omega)).1 h)), if_neg hde]
        obtain ⟨x1, x2, x3⟩ := wwXor2_spec (w := w) da md hdl hda hm
        obtain ⟨t1, t2, t3⟩ := wwShLo_spec hw (wwXor2 da md) 1 x2
        obtain ⟨i1, i2, i3, i4, i5, i6⟩ := ih (shLo1W w nu u) (wwShLo w (wwXor2 da md) 1) s1 (by rw [show (shLo1W w nu u).length = u.length from s2]; exact hul) t2 (by rw [t1, x1, hdl])
        rw [show val w (shLo1W w nu u) = val w u / 2 from s3, t3, x3, Nat.pow_one] at i1 i2
        exact ⟨i1, i2, i3, by rw [i4]; exact s2, i5, i6⟩
    · rw [if_neg (fun h => hue ((testBit0 hw hu.1 hul).1 h)), if_neg hue]
      exact ⟨rfl, rfl, hu, rfl, hda, hdl⟩

/-- the `while` loop of ppDivMod: lockstep with the value level (for every fuel) -/
theorem ppDivModLoopW_spec {w : Nat} (hw : 0 < w) (md : List Nat) (hm : Wf w md) (hml : 0 < md.length) :
    ∀ (f : Nat) (u : List Nat) (nu : Nat) (v : List Nat) (nv : Nat) (da0 da : List Nat),
      Buf w u nu → Buf w v nv → 0 < u.length → 0 < v.length →
      Wf w da0 → da0.length = md.length → Wf w da → da.length = md.length →
      val w (ppDivModLoopW w md f u nu v nv da0 da).1
          = (ppDivModLoop (val w md) f (val w u) (val w v) (val w da0) (val w da)).1
      ∧ val w (ppDivModLoopW w md f u nu v nv da0 da).2.2
          = (ppDivModLoop (val w md) f (val w u) (val w v) (val w da0) (val w da)).2
      ∧ Buf w (ppDivModLoopW w md f u nu v nv da0 da).1 (ppDivModLoopW w md f u nu v nv da0 da).2.1
      ∧ Wf w (ppDivModLoopW w md f u nu v nv da0 da).2.2
      ∧ (ppDivModLoopW w md f u nu v nv da0 da).2.2.length = md.length := by
  intro f
  induction f with
  | zero => intro u nu v nv da0 da _ hv _ _ _ _ hda hdl; exact ⟨rfl, rfl, hv, hda, hdl⟩
  | succ f ih =>
    intro u nu v nv da0 da hu hv hul hvl hda0 hd0l hda hdl
    unfold ppDivModLoopW ppDivModLoop
    rw [isZero_take hu]
    by_cases hu0 : val w u = 0
    · simp only [hu0, decide_true, if_true]
      exact ⟨trivial, trivial, hv, hda, hdl⟩
    · simp only [hu0, decide_false, Bool.false_eq_true, if_false]
      obtain ⟨a1, a2, a3, a4, a5, a6⟩ := ppHalveModW_spec hw md hm hml nu ((val w u).log2 + 1) u da0 hu hul
        hda0 hd0l
      obtain ⟨b1, b2, b3, b4, b5, b6⟩ := ppHalveModW_spec hw md hm hml nv ((val w v).log2 + 1) v da hv hvl
        hda hdl
      rw [← a1, ← a2, ← b1, ← b2]
      generalize ppHalveModW w md nu ((val w u).log2 + 1) u da0 = r0 at *
      generalize ppHalveModW w md nv ((val w v).log2 + 1) v da = r1 at *
      obtain ⟨n1, n2, n3⟩ := wordSize_buf a3
      obtain ⟨m1, m2, m3⟩ := wordSize_buf b3
      generalize wwWordSize (r0.1.take nu) = nu' at *
      generalize wwWordSize (r1.1.take nv) = nv' at *
      by_cases hge : val w r1.1 ≤ val w r0.1
      · rw [if_pos ((cmp2_ge_buf n1 m1).mpr hge), if_pos hge]
        have hnn := norm_le n1 m3 hge
        obtain ⟨x1, x2, x3⟩ := xorPrefix_spec n1 m1 hnn
        obtain ⟨y1, y2, y3⟩ := wwXor2_spec (w := w) r0.2 r1.2 (by rw [a6, b6]) a5 b5
        obtain ⟨i1, i2, i3, i4, i5⟩ := ih (xorPrefixW nv' r0.1 r1.1) nu' r1.1 nv' (wwXor2 r0.2 r1.2) r1.2
          x1 m1 (by rw [x2, a4]; exact hul) (by rw [b4]; exact hvl) y2 (by rw [y1, a6]) b5 b6
        rw [x3, y3] at i1 i2
        exact ⟨i1, i2, i3, i4, i5⟩
      · rw [if_neg (fun h => hge ((cmp2_ge_buf n1 m1).mp h)), if_neg hge]
        have hnn := norm_le m1 n3 (by omega)
        obtain ⟨x1, x2, x3⟩ := xorPrefix_spec m1 n1 hnn
        obtain ⟨y1, y2, y3⟩ := wwXor2_spec (w := w) r1.2 r0.2 (by rw [a6, b6]) b5 a5
        obtain ⟨i1, i2, i3, i4, i5⟩ := ih r0.1 nu' (xorPrefixW nu' r1.1 r0.1) nv' r0.2 (wwXor2 r1.2 r0.2)
          n1 x1 (by rw [a4]; exact hul) (by rw [x2, b4]; exact hvl) a5 a6 y2 (by rw [y1, b6])
        rw [x3, y3] at i1 i2
        exact ⟨i1, i2, i3, i4, i5⟩

/-- ppDivMod: the word-level model computes the value-level model, n words -/
theorem ppDivModW_refines {w : Nat} (hw : 0 < w) (d a md : List Nat) (hd : Wf w d) (ha : Wf w a)
    (hm : Wf w md) (hml : 0 < md.length) (hdl : d.length = md.length) (hal : a.length = md.length) :
    val w (ppDivModW w d a md) = ppDivModV (val w d) (val w a) (val w md)
    ∧ Wf w (ppDivModW w d a md) ∧ (ppDivModW w d a md).length = md.length := by
  have hbu : Buf w a (wwWordSize a) := by
    have := (wordSize_buf (buf_full ha)).1
    rwa [List.take_length] at this
  obtain ⟨l1, l2, l3, l4, l5⟩ := ppDivModLoopW_spec hw md hm hml ((val w a).log2 + (val w md).log2 + 4) a
    (wwWordSize a) md md.length d (List.replicate md.length 0) hbu (buf_full hm) (by omega) hml hd hdl
    (Wf_replicate_zero' w _) (by simp)
  rw [val_replicate_zero'] at l1 l2
  unfold ppDivModW ppDivModV
  simp only []
  rw [wwIsW_one hw _ (Wf_take l3.1 _), l3.val_take, l1]
  by_cases h1 : (ppDivModLoop (val w md) ((val w a).log2 + (val w md).log2 + 4) (val w a) (val w md)
      (val w d) 0).1 = 1
  · simp only [h1, decide_true, if_true]
    exact ⟨l2, l4, l5⟩
  · simp only [h1, decide_false, Bool.false_eq_true, if_false]
    exact ⟨val_replicate_zero' w _, Wf_replicate_zero' w _, by simp⟩



/-! ## ppExGCD -/

theorem ppHalveExW_spec {w : Nat} (hw : 0 < w) (aa bb : List Nat) (haa : Wf w aa) (hbb : Wf w bb)
    (hal : 0 < aa.length) (hbl : 0 < bb.length) (nu : Nat) :
    ∀ (f : Nat) (u da db : List Nat), Buf w u nu → 0 < u.length → Wf w da → da.length = bb.length →
      Wf w db → db.length = aa.length →
      val w (ppHalveExW w aa bb nu f u da db).1
          = (ppHalveEx (val w aa) (val w bb) f (val w u) (val w da) (val w db)).1
      ∧ val w (ppHalveExW w aa bb nu f u da db).2.1
          = (ppHalveEx (val w aa) (val w bb) f (val w u) (val w da) (val w db)).2.1
      ∧ val w (ppHalveExW w aa bb nu f u da db).2.2
          = (ppHalveEx (val w aa) (val w bb) f (val w u) (val w da) (val w db)).2.2
      ∧ Buf w (ppHalveExW w aa bb nu f u da db).1 nu
      ∧ (ppHalveExW w aa bb nu f u da db).1.length = u.length
      ∧ Wf w (ppHalveExW w aa bb nu f u da db).2.1
      ∧ (ppHalveExW w aa bb nu f u da db).2.1.length = bb.length
      ∧ Wf w (ppHalveExW w aa bb nu f u da db).2.2
      ∧ (ppHalveExW w aa bb nu f u da db).2.2.length = aa.length := by
  intro f
  induction f with
  | zero => intro u da db hu _ hda hdl hdb hbl'; exact ⟨rfl, rfl, rfl, hu, rfl, hda, hdl, hdb, hbl'⟩
  | succ f ih =>
    intro u da db hu hul hda hdal hdb hdbl
    unfold ppHalveExW ppHalveEx
    obtain ⟨s1, s2, s3⟩ := shLo1_buf hw hu
    have hsl : 0 < (shLo1W w nu u).length := by
      rw [show (shLo1W w nu u).length = u.length from s2]; exact hul
    by_cases hue : val w u % 2 = 0
    · rw [if_pos ((testBit0 hw hu.1 hul).2 hue), if_pos hue]
      by_cases hde : val w da % 2 = 0 ∧ val w db % 2 = 0
      · rw [if_pos ⟨(testBit0 hw hda (by omega)).2 hde.1, (testBit0 hw hdb (by omega)).2 hde.2⟩, if_pos hde]
        obtain ⟨t1, t2, t3⟩ := wwShLo_spec hw da 1 hda
        obtain ⟨q1, q2, q3⟩ := wwShLo_spec hw db 1 hdb
        obtain ⟨i1, i2, i3, i4, i5, i6, i7, i8, i9⟩ := ih (shLo1W w nu u) (wwShLo w da 1) (wwShLo w db 1) s1 hsl
          t2 (by rw [t1, hdal]) q2 (by rw [q1, hdbl])
        rw [show val w (shLo1W w nu u) = val w u / 2 from s3, t3, q3, Nat.pow_one] at i1 i2 i3
        exact ⟨i1, i2, i3, i4, by rw [i5]; exact s2, i6, i7, i8, i9⟩
      · have hneg : ¬ (wwTestBit w da 0 = false ∧ wwTestBit w db 0 = false) := fun h =>
          hde ⟨(testBit0 hw hda (by omega)).1 h.1, (testBit0 hw hdb (by omega)).1 h.2⟩
        rw [if_neg hneg, if_neg hde]
        obtain ⟨x1, x2, x3⟩ := wwXor2_spec (w := w) da bb hdal hda hbb
        obtain ⟨y1, y2, y3⟩ := wwXor2_spec (w := w) db aa hdbl hdb haa
        obtain ⟨t1, t2, t3⟩ := wwShLo_spec hw (wwXor2 da bb) 1 x2
        obtain ⟨q1, q2, q3⟩ := wwShLo_spec hw (wwXor2 db aa) 1 y2
        obtain ⟨i1, i2, i3, i4, i5, i6, i7, i8, i9⟩ := ih (shLo1W w nu u) (wwShLo w (wwXor2 da bb) 1)
          (wwShLo w (wwXor2 db aa) 1) s1 hsl t2 (by rw [t1, x1, hdal]) q2 (by rw [q1, y1, hdbl])
        rw [show val w (shLo1W w nu u) = val w u / 2 from s3, t3, q3, x3, y3, Nat.pow_one] at i1 i2 i3
        exact ⟨i1, i2, i3, i4, by rw [i5]; exact s2, i6, i7, i8, i9⟩
    · rw [if_neg (fun h => hue ((testBit0 hw hu.1 hul).1 h)), if_neg hue]
      exact ⟨rfl, rfl, rfl, hu, rfl, hda, hdal, hdb, hdbl⟩



/-- the `do … while` loop of ppExGCD: lockstep with the value level (for every fuel) -/
theorem ppExGCDLoopW_spec {w : Nat} (hw : 0 < w) (aa bb : List Nat) (haa : Wf w aa) (hbb : Wf w bb)
    (hal : 0 < aa.length) (hbl : 0 < bb.length) :
    ∀ (f : Nat) (u : List Nat) (nu : Nat) (v : List Nat) (mv : Nat) (da0 db0 da db : List Nat),
      Buf w u nu → Buf w v mv → 0 < u.length → 0 < v.length →
      Wf w da0 → da0.length = bb.length → Wf w db0 → db0.length = aa.length →
      Wf w da → da.length = bb.length → Wf w db → db.length = aa.length →
      val w (ppExGCDLoopW w aa bb f u nu v mv da0 db0 da db).1
        = (ppExGCDLoop (val w aa) (val w bb) f (val w u) (val w v) (val w da0) (val w db0) (val w da)
            (val w db)).1
      ∧ val w (ppExGCDLoopW w aa bb f u nu v mv da0 db0 da db).2.2.1
        = (ppExGCDLoop (val w aa) (val w bb) f (val w u) (val w v) (val w da0) (val w db0) (val w da)
            (val w db)).2.1
      ∧ val w (ppExGCDLoopW w aa bb f u nu v mv da0 db0 da db).2.2.2
        = (ppExGCDLoop (val w aa) (val w bb) f (val w u) (val w v) (val w da0) (val w db0) (val w da)
            (val w db)).2.2
      ∧ Buf w (ppExGCDLoopW w aa bb f u nu v mv da0 db0 da db).1
          (ppExGCDLoopW w aa bb f u nu v mv da0 db0 da db).2.1
      ∧ Wf w (ppExGCDLoopW w aa bb f u nu v mv da0 db0 da db).2.2.1
      ∧ (ppExGCDLoopW w aa bb f u nu v mv da0 db0 da db).2.2.1.length = bb.length
      ∧ Wf w (ppExGCDLoopW w aa bb f u nu v mv da0 db0 da db).2.2.2
      ∧ (ppExGCDLoopW w aa bb f u nu v mv da0 db0 da db).2.2.2.length = aa.length := by
  intro f
  induction f with
  | zero =>
    intro u nu v mv da0 db0 da db _ hv _ _ _ _ _ _ hda hdal hdb hdbl
    exact ⟨rfl, rfl, rfl, hv, hda, hdal, hdb, hdbl⟩
  | succ f ih =>
    intro u nu v mv da0 db0 da db hu hv hul hvl hda0 hda0l hdb0 hdb0l hda hdal hdb hdbl
    unfold ppExGCDLoopW ppExGCDLoop
    simp only []
    obtain ⟨a1, a2, a3, a4, a5, a6, a7, a8, a9⟩ := ppHalveExW_spec hw aa bb haa hbb hal hbl nu
      ((val w u).log2 + 1) u da0 db0 hu hul hda0 hda0l hdb0 hdb0l
    obtain ⟨b1, b2, b3, b4, b5, b6, b7, b8, b9⟩ := ppHalveExW_spec hw aa bb haa hbb hal hbl mv
      ((val w v).log2 + 1) v da db hv hvl hda hdal hdb hdbl
    rw [← a1, ← a2, ← a3, ← b1, ← b2, ← b3]
    generalize ppHalveExW w aa bb nu ((val w u).log2 + 1) u da0 db0 = r0 at *
    generalize ppHalveExW w aa bb mv ((val w v).log2 + 1) v da db = r1 at *
    obtain ⟨n1, n2, n3⟩ := wordSize_buf a4
    obtain ⟨m1, m2, m3⟩ := wordSize_buf b4
    generalize wwWordSize (r0.1.take nu) = nu' at *
    generalize wwWordSize (r1.1.take mv) = mv' at *
    by_cases hge : val w r1.1 ≤ val w r0.1
    · rw [if_pos ((cmp2_ge_buf n1 m1).mpr hge), if_pos hge]
      have hnn := norm_le n1 m3 hge
      obtain ⟨x1, x2, x3⟩ := xorPrefix_spec n1 m1 hnn
      obtain ⟨y1, y2, y3⟩ := wwXor2_spec (w := w) r0.2.1 r1.2.1 (by rw [a7, b7]) a6 b6
      obtain ⟨z1, z2, z3⟩ := wwXor2_spec (w := w) r0.2.2 r1.2.2 (by rw [a9, b9]) a8 b8
      rw [isZero_take x1, x3]
      by_cases hz : val w r0.1 ^^^ val w r1.1 = 0
      · simp only [hz, decide_true, Bool.not_true, Bool.false_eq_true, if_false, ne_eq,
          not_true_eq_false]
        exact ⟨trivial, trivial, trivial, m1, b6, b7, b8, b9⟩
      · simp only [hz, decide_false, Bool.not_false, if_true, ne_eq, not_false_eq_true]
        obtain ⟨i1, i2, i3, i4, i5, i6, i7, i8⟩ := ih (xorPrefixW mv' r0.1 r1.1) nu' r1.1 mv'
          (wwXor2 r0.2.1 r1.2.1) (wwXor2 r0.2.2 r1.2.2) r1.2.1 r1.2.2 x1 m1
          (by rw [x2, a5]; exact hul) (by rw [b5]; exact hvl) y2 (by rw [y1, a7]) z2 (by rw [z1, a9])
          b6 b7 b8 b9
        rw [x3, y3, z3] at i1 i2 i3
        exact ⟨i1, i2, i3, i4, i5, i6, i7, i8⟩
    · rw [if_neg (fun h => hge ((cmp2_ge_buf n1 m1).mp h)), if_neg hge]
      have hnn := norm_le m1 n3 (by omega)
      obtain ⟨x1, x2, x3⟩ := xorPrefix_spec m1 n1 hnn
      obtain ⟨y1, y2, y3⟩ := wwXor2_spec (w := w) r1.2.1 r0.2.1 (by rw [a7, b7]) b6 a6
      obtain ⟨z1, z2, z3⟩ := wwXor2_spec (w := w) r1.2.2 r0.2.2 (by rw [a9, b9]) b8 a8
      rw [isZero_take n1]
      by_cases hz : val w r0.1 = 0
      · simp only [hz, decide_true, Bool.not_true, Bool.false_eq_true, if_false, ne_eq,
          not_true_eq_false]
        rw [hz] at x3
        exact ⟨x3, y3, z3, x1, y2, by rw [y1, b7], z2, by rw [z1, b9]⟩
      · simp only [hz, decide_false, Bool.not_false, if_true, ne_eq, not_false_eq_true]
        obtain ⟨i1, i2, i3, i4, i5, i6, i7, i8⟩ := ih r0.1 nu' (xorPrefixW nu' r1.1 r0.1) mv'
          r0.2.1 r0.2.2 (wwXor2 r1.2.1 r0.2.1) (wwXor2 r1.2.2 r0.2.2) n1 x1
          (by rw [a5]; exact hul) (by rw [x2, b5]; exact hvl) a6 a7 a8 a9 y2 (by rw [y1, b7]) z2
          (by rw [z1, b9])
        rw [x3, y3, z3] at i1 i2 i3
        exact ⟨i1, i2, i3, i4, i5, i6, i7, i8⟩

/-- ppExGCD: the word-level model computes the value-level model (all three outputs) -/
theorem ppExGCDW_refines {w : Nat} (hw : 0 < w) (hs : SizesOK w) (a b : List Nat)
    (ha : Wf w a) (hb : Wf w b) (hap : 0 < val w a) (hbp : 0 < val w b) :
    val w (ppExGCDW w a b).1 = (ppExGCDV (val w a) (val w b)).1
    ∧ val w (ppExGCDW w a b).2.1 = (ppExGCDV (val w a) (val w b)).2.1
    ∧ val w (ppExGCDW w a b).2.2 = (ppExGCDV (val w a) (val w b)).2.2
    ∧ Wf w (ppExGCDW w a b).1 ∧ (ppExGCDW w a b).1.length = min a.length b.length
    ∧ Wf w (ppExGCDW w a b).2.1 ∧ (ppExGCDW w a b).2.1.length = b.length
    ∧ Wf w (ppExGCDW w a b).2.2 ∧ (ppExGCDW w a b).2.2.length = a.length := by
  obtain ⟨c1, c2, c3, c4, c5⟩ := Gcd.shift_common hap hbp
  have hgcd := Pp.gcdV_isPGcd (a := val w a) (b := val w b) (by omega) (by omega)
  rw [← Pp.exGCDV_fst] at hgcd
  have hlt1 := pdvd_lt ha (by omega) hgcd.1
  have hlt2 := pdvd_lt hb (by omega) hgcd.2.1
  unfold ppExGCDW
  unfold ppExGCDV at hlt1 hlt2 ⊢
  simp only [] at *
  rw [lz_eq hs a ha hap, lz_eq hs b hb hbp]
  rw [ppLoZeros_eq hap, ppLoZeros_eq hbp] at hlt1 hlt2 ⊢
  generalize min (loZeros (val w a)) (loZeros (val w b)) = s at *
  simp only [Nat.shiftRight_eq_div_pow, Nat.shiftLeft_eq] at hlt1 hlt2 ⊢
  obtain ⟨u1, u2, u3⟩ := wwShLo_spec hw a s ha
  obtain ⟨v1, v2, v3⟩ := wwShLo_spec hw b s hb
  have hbu := (wordSize_buf (buf_full u2)).1
  have hbv := (wordSize_buf (buf_full v2)).1
  rw [List.take_length] at hbu hbv
  have hnle := (wwWordSize_spec (wwShLo w a s)).1
  have hmle := (wwWordSize_spec (wwShLo w b s)).1
  rw [u1] at hnle
  rw [v1] at hmle
  generalize wwShLo w a s = aa0 at *
  generalize wwShLo w b s = bb0 at *
  have haaV : val w (aa0.take (wwWordSize aa0)) = val w a / 2 ^ s := by rw [hbu.val_take, u3]
  have hbbV : val w (bb0.take (wwWordSize bb0)) = val w b / 2 ^ s := by rw [hbv.val_take, v3]
  have haaW := Wf_take u2 (wwWordSize aa0)
  have hbbW := Wf_take v2 (wwWordSize bb0)
  have haaL : (aa0.take (wwWordSize aa0)).length = wwWordSize aa0 := by
    rw [List.length_take, u1]; omega
  have hbbL : (bb0.take (wwWordSize bb0)).length = wwWordSize bb0 := by
    rw [List.length_take, v1]; omega
  have hnpos : 0 < wwWordSize aa0 := by
    rcases Nat.eq_zero_or_pos (wwWordSize aa0) with h | h
    · exfalso; rw [h] at haaV; simp [val] at haaV; omega
    · exact h
  have hmpos : 0 < wwWordSize bb0 := by
    rcases Nat.eq_zero_or_pos (wwWordSize bb0) with h | h
    · exfalso; rw [h] at hbbV; simp [val] at hbbV; omega
    · exact h
  generalize hn : wwWordSize aa0 = n at *
  generalize hm : wwWordSize bb0 = m at *
  generalize aa0.take n = aa at *
  generalize bb0.take m = bb at *
  obtain ⟨o1, o2, o3⟩ := oneTake hw b.length m hmpos hmle
  obtain ⟨p1, p2, p3⟩ := oneTake hw a.length n hnpos hnle
  have hz1 := val_replicate_zero' w n
  have hz2 := val_replicate_zero' w m
  have hbufA : Buf w aa n := by have := buf_full haaW; rwa [haaL] at this
  have hbufB : Buf w bb m := by have := buf_full hbbW; rwa [hbbL] at this
  obtain ⟨l1, l2, l3, l4, l5, l6, l7, l8⟩ := ppExGCDLoopW_spec hw aa bb haaW hbbW (by omega) (by omega)
    ((val w aa).log2 + (val w bb).log2 + 3) aa n bb m ((1 :: List.replicate (b.length - 1) 0).take m)
    (List.replicate n 0) (List.replicate m 0) ((1 :: List.replicate (a.length - 1) 0).take n)
    hbufA hbufB (by omega) (by omega) o2 (by rw [o3, hbbL]) (Wf_replicate_zero' w _)
    (by rw [List.length_replicate, haaL]) (Wf_replicate_zero' w _) (by rw [List.length_replicate, hbbL])
    p2 (by rw [p3, haaL])
  generalize ppExGCDLoopW w aa bb ((val w aa).log2 + (val w bb).log2 + 3) aa n bb m
    ((1 :: List.replicate (b.length - 1) 0).take m) (List.replicate n 0) (List.replicate m 0)
    ((1 :: List.replicate (a.length - 1) 0).take n) = r at *
  rw [o1, hz1, hz2, p1, haaV, hbbV] at l1 l2 l3
  generalize ppExGCDLoop (val w a / 2 ^ s) (val w b / 2 ^ s)
    ((val w a / 2 ^ s).log2 + (val w b / 2 ^ s).log2 + 3)
    (val w a / 2 ^ s) (val w b / 2 ^ s) 1 0 0 1 = e at *
  have hG2 : e.1 * 2 ^ s < 2 ^ (w * min a.length b.length) := by
    rcases Nat.le_total a.length b.length with h | h
    · rw [Nat.min_eq_left h]; exact hlt1
    · rw [Nat.min_eq_right h]; exact hlt2
  have hGk : e.1 < 2 ^ (w * min a.length b.length) :=
    Nat.lt_of_le_of_lt (Nat.le_mul_of_pos_right _ (Nat.two_pow_pos s)) hG2
  have hpl : (r.1.take r.2.1).length = r.2.1 := by
    rw [List.length_take]; exact Nat.min_eq_left l4.2.1
  obtain ⟨d1, d2, d3, d4⟩ := padTake (r.1.take r.2.1) (min a.length b.length) (Wf_take l4.1 _)
    (by rw [l4.val_take, l1]; exact hGk)
  rw [hpl] at d1 d2 d3 d4
  rw [l4.val_take, l1] at d1 d4
  obtain ⟨f1, f2, f3⟩ := finalShift hw hs _ (min a.length b.length) s e.1 r.2.1 d3 d2 d1 d4 hG2
  refine ⟨f1, (by rw [val_pad, l2]), (by rw [val_pad, l3]), f2, f3,
    Wf_append.mpr ⟨l5, Wf_replicate_zero' w _⟩,
    (by rw [List.length_append, l6, hbbL, List.length_replicate]; omega),
    Wf_append.mpr ⟨l7, Wf_replicate_zero' w _⟩,
    (by rw [List.length_append, l8, haaL, List.length_replicate]; omega)⟩


end Bee2V.C05.PpW

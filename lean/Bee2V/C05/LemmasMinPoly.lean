/-
C05 — ppMinPolyMod computes THE minimal polynomial of a in the field GF(2)[x]/(md)
(lemmas for PropsMinPoly.lean).  namespace Bee2V.C05.MinPoly
-/
import Bee2V.C05.LemmasFld
import Bee2V.C05.PropsPpModOps
set_option linter.unusedSectionVars false
namespace Bee2V.C05.MinPoly
open Bee2V.C05 Bee2V.C05.Spec Bee2V.C05.Pp Bee2V.C05.Gf2 Bee2V.C05.Fld Bee2V.C05.PpModOps

section ring
variable {f : Nat} [hf : Fact (f ≠ 0)]

/-- the bit r as an element of the ring -/
def bitR (f : Nat) [Fact (f ≠ 0)] (r : Nat) : R f := if r % 2 = 1 then 1 else 0

/-- evaluation of the Nat-coded polynomial c at α (Horner): Σ c_i α^i -/
def evalAt (α : R f) : Nat → R f
  | 0 => 0
  | c + 1 => α * evalAt α ((c + 1) / 2) + bitR f (c + 1)
decreasing_by omega

theorem evalAt_zero (α : R f) : evalAt α 0 = 0 := by rw [evalAt]

theorem bitR_zero : bitR f 0 = 0 := by simp [bitR]

theorem evalAt_eq (α : R f) (c : Nat) : evalAt α c = α * evalAt α (c / 2) + bitR f c := by
  cases c with
  | zero => simp [evalAt_zero, bitR_zero]
  | succ c => rw [evalAt]

theorem bitR_mod (c : Nat) : bitR f (c % 2) = bitR f c := by simp [bitR]

theorem bitR_add (a b : Nat) : bitR f ((a % 2 + b % 2) % 2) = bitR f a + bitR f b := by
  unfold bitR
  rcases Nat.mod_two_eq_zero_or_one a with ha | ha <;> rcases Nat.mod_two_eq_zero_or_one b with hb | hb <;>
    simp [ha, hb, add_self]

theorem evalAt_one (α : R f) : evalAt α 1 = 1 := by
  rw [evalAt_eq]; simp [evalAt_zero, bitR]

theorem evalAt_two_mul (α : R f) (c : Nat) : evalAt α (2 * c) = α * evalAt α c := by
  rw [evalAt_eq, Nat.mul_div_cancel_left _ (by decide : 0 < 2)]
  simp [bitR]

theorem evalAt_xor (α : R f) : ∀ (n a b : Nat), a + b = n →
    evalAt α (a ^^^ b) = evalAt α a + evalAt α b := by
  intro n
  induction n using Nat.strong_induction_on with
  | _ n ih =>
    intro a b hab
    by_cases h0 : n = 0
    · have ha : a = 0 := by omega
      have hb : b = 0 := by omega
      subst ha hb; simp [evalAt_zero]
    · have hd : (a ^^^ b) / 2 = a / 2 ^^^ b / 2 := by
        have := Nat.shiftRight_xor_distrib (a := a) (b := b) (i := 1)
        simpa [Nat.shiftRight_eq_div_pow] using this
      rw [evalAt_eq α (a ^^^ b), hd, ih (a / 2 + b / 2) (by omega) _ _ rfl, evalAt_eq α a,
        evalAt_eq α b, ← bitR_mod (a ^^^ b), xor_mod_two, bitR_add]
      ring

theorem evalAt_clmul (α : R f) (a : Nat) : ∀ b : Nat,
    evalAt α (clmul a b) = evalAt α a * evalAt α b := by
  intro b
  induction b using Nat.strong_induction_on with
  | _ b ih =>
    by_cases h0 : b = 0
    · subst h0; rw [clmul_zero, evalAt_zero, mul_zero]
    · have hb : b = 2 * (b / 2) ^^^ b % 2 := (bit_decomp b).symm
      conv_lhs => rw [hb]
      rw [clmul_xor, clmul_two_mul, evalAt_xor α _ _ _ rfl, evalAt_two_mul, ih (b / 2) (by omega)]
      have e : evalAt α (clmul a (b % 2)) = evalAt α a * bitR f b := by
        unfold bitR
        rcases Nat.mod_two_eq_zero_or_one b with h | h <;> rw [h]
        · simp [clmul_zero, evalAt_zero]
        · simp [clmul_one]
      rw [e, evalAt_eq α b]; ring

/-- the linear functional "constant term" -/
def lam (x : R f) : Bool := decide (x.1 % 2 = 1)

theorem lam_add (x y : R f) : lam (x + y) = xor (lam x) (lam y) := by
  unfold lam
  rw [val_add, xor_mod_two]
  rcases Nat.mod_two_eq_zero_or_one x.1 with hx | hx <;>
    rcases Nat.mod_two_eq_zero_or_one y.1 with hy | hy <;> simp [hx, hy]

theorem lam_zero : lam (0 : R f) = false := by simp [lam, val_zero]

theorem lam_mul_bitR (x : R f) (c : Nat) : lam (x * bitR f c) = (lam x && decide (c % 2 = 1)) := by
  unfold bitR
  by_cases h : c % 2 = 1
  · simp [h]
  · simp [h, lam_zero]

end ring

section field
variable {md : Nat} [hI : Fact (NatIrred md)]

/-- S is the sequence word of ppMinPolyMod for α: 2l bits, bit j = constant term of α^(2l−j) -/
def IsSeq (α : R md) (l S : Nat) : Prop :=
  S < 2 ^ (2 * l) ∧ ∀ j, j < 2 * l → S.testBit j = lam (α ^ (2 * l - j))

/-- coefficient t of g·S, for deg g ≤ t < 2l, is the constant term of α^(2l−t)·g(α) -/
theorem conv_bit (α : R md) (l S : Nat) (hS : IsSeq α l S) : ∀ (g t : Nat), t < 2 * l → g < 2 ^ (t + 1) →
    (clmul g S).testBit t = lam (α ^ (2 * l - t) * evalAt α g) := by
  intro g
  induction g using Nat.strong_induction_on with
  | _ g ih =>
    intro t ht hg
    by_cases h0 : g = 0
    · subst h0; rw [zero_clmul, evalAt_zero, mul_zero, lam_zero]; simp
    · have hd : g = 2 * (g / 2) ^^^ g % 2 := (bit_decomp g).symm
      have hX : clmul g S = 2 * clmul (g / 2) S ^^^ clmul (g % 2) S := by
        conv_lhs => rw [hd]
        rw [xor_clmul, two_mul_clmul]
      cases t with
      | zero =>
        have hg1 : g = 1 := by simp at hg; omega
        subst hg1
        rw [one_clmul, evalAt_one, mul_one]
        exact hS.2 0 (by omega)
      | succ t' =>
        rw [hX, Nat.testBit_xor, Nat.testBit_succ, Nat.mul_div_cancel_left _ (by decide : 0 < 2),
          ih (g / 2) (by omega) t' (by omega) (by rw [Nat.pow_succ] at hg; omega),
          evalAt_eq α g, mul_add, lam_add]
        have e1 : α ^ (2 * l - (t' + 1)) * (α * evalAt α (g / 2)) = α ^ (2 * l - t') * evalAt α (g / 2) := by
          rw [← mul_assoc, ← pow_succ, show 2 * l - (t' + 1) + 1 = 2 * l - t' by omega]
        rw [e1, lam_mul_bitR]
        congr 1
        rcases Nat.mod_two_eq_zero_or_one g with h | h <;> rw [h]
        · rw [zero_clmul]; simp
        · rw [one_clmul, hS.2 (t' + 1) ht]; simp

/-- λ(α^e β) = 0 for e = 1 … l -/
def Vanish (α : R md) (l : Nat) (β : R md) : Prop := ∀ e, 1 ≤ e → e ≤ l → lam (α ^ e * β) = false

theorem vanish_of_key (α : R md) (l S : Nat) (hS : IsSeq α l S) (g : Nat) (hg : g < 2 ^ (l + 1))
    (hk : clmul g S % 2 ^ (2 * l) < 2 ^ l) : Vanish α l (evalAt α g) := by
  intro e he1 hel
  have ht : 2 * l - e < 2 * l := by omega
  have hb := conv_bit α l S hS g (2 * l - e) ht
    (Nat.lt_of_lt_of_le hg (Nat.pow_le_pow_right (by decide) (by omega)))
  rw [show 2 * l - (2 * l - e) = e by omega] at hb
  rw [← hb]
  have h1 : (clmul g S % 2 ^ (2 * l)).testBit (2 * l - e) = false :=
    Nat.testBit_lt_two_pow (Nat.lt_of_lt_of_le hk (Nat.pow_le_pow_right (by decide) (by omega)))
  rw [Nat.testBit_mod_two_pow] at h1
  simpa [ht] using h1

theorem key_of_vanish (α : R md) (l S : Nat) (hS : IsSeq α l S) (g : Nat) (hg : g < 2 ^ (l + 1))
    (hv : Vanish α l (evalAt α g)) :
    ∃ r k, r < 2 ^ l ∧ clmul g S ^^^ r = clmul k (2 ^ (2 * l)) := by
  refine ⟨clmul g S % 2 ^ (2 * l), clmul g S / 2 ^ (2 * l), ?_, ?_⟩
  · apply Nat.lt_pow_two_of_testBit
    intro i hi
    rw [Nat.testBit_mod_two_pow]
    by_cases h2 : i < 2 * l
    · have hb := conv_bit α l S hS g i h2
        (Nat.lt_of_lt_of_le hg (Nat.pow_le_pow_right (by decide) (by omega)))
      rw [hb, hv (2 * l - i) (by omega) (by omega)]; simp
    · simp [h2]
  · rw [clmul_two_pow]
    apply Nat.eq_of_testBit_eq
    intro i
    rw [Nat.testBit_xor, Nat.testBit_mod_two_pow, Nat.testBit_shiftLeft, Nat.testBit_div_two_pow]
    by_cases h2 : i < 2 * l
    · have : ¬ i ≥ 2 * l := by omega
      simp [h2, this]
    · have h3 : i ≥ 2 * l := by omega
      simp [h2, h3, show i - 2 * l + 2 * l = i by omega]

end field

section minimal
variable {md : Nat} [hI : Fact (NatIrred md)]

/-- c is a non-zero polynomial vanishing at α -/
def Ann (α : R md) (c : Nat) : Prop := c ≠ 0 ∧ evalAt α c = 0

/-- pigeonhole: some non-zero polynomial of degree ≤ deg md vanishes at α -/
theorem exists_ann (α : R md) : ∃ c, Ann α c ∧ c < 2 ^ (md.log2 + 1) := by
  have hcard : Fintype.card (R md) < Fintype.card (Fin (2 ^ (md.log2 + 1))) := by
    rw [card_R, Fintype.card_fin]
    exact Nat.pow_lt_pow_right (by decide) (Nat.lt_succ_self _)
  obtain ⟨c1, c2, hne, heq⟩ := Fintype.exists_ne_map_eq_of_card_lt
    (fun c : Fin (2 ^ (md.log2 + 1)) => evalAt α c.1) hcard
  refine ⟨c1.1 ^^^ c2.1, ⟨?_, ?_⟩, Nat.xor_lt_two_pow c1.2 c2.2⟩
  · intro h
    exact hne (Fin.ext (xor_eq_zero_iff.1 h))
  · have : evalAt α c1.1 = evalAt α c2.1 := heq
    rw [evalAt_xor α _ _ _ rfl, this, add_self]

open Classical in
/-- the annihilating polynomial with the least code -/
noncomputable def minAnn (α : R md) : Nat := Nat.find (⟨_, (exists_ann α).choose_spec.1⟩ : ∃ c, Ann α c)

open Classical in
theorem minAnn_spec (α : R md) : Ann α (minAnn α) :=
  Nat.find_spec (⟨_, (exists_ann α).choose_spec.1⟩ : ∃ c, Ann α c)

open Classical in
theorem minAnn_min (α : R md) {c : Nat} (h : Ann α c) : minAnn α ≤ c :=
  Nat.find_min' (⟨_, (exists_ann α).choose_spec.1⟩ : ∃ c, Ann α c) h

theorem minAnn_lt (α : R md) : minAnn α < 2 ^ (md.log2 + 1) :=
  Nat.lt_of_le_of_lt (minAnn_min α (exists_ann α).choose_spec.1) (exists_ann α).choose_spec.2

theorem minAnn_log2 (α : R md) : (minAnn α).log2 ≤ md.log2 := by
  have := (Nat.log2_lt (minAnn_spec α).1).2 (minAnn_lt α)
  omega

/-- every polynomial vanishing at α is a multiple of minAnn α -/
theorem minAnn_dvd (α : R md) (h : Nat) (hh : evalAt α h = 0) : ∃ q, h = clmul q (minAnn α) := by
  have hm := minAnn_spec α
  obtain ⟨hq, hr⟩ := pdivmod_spec h (minAnn α) hm.1
  refine ⟨(pdivmod h (minAnn α)).1, ?_⟩
  have hr0 : (pdivmod h (minAnn α)).2 = 0 := by
    by_contra hne
    have hann : Ann α (pdivmod h (minAnn α)).2 := by
      refine ⟨hne, ?_⟩
      have := congrArg (evalAt α) hq
      rw [evalAt_xor α _ _ _ rfl, evalAt_clmul, hm.2, mul_zero, zero_add, hh] at this
      exact this
    have := minAnn_min α hann
    have := Nat.log2_self_le hm.1
    omega
  rw [hr0, Nat.xor_zero] at hq
  exact hq.symm

theorem minAnn_irred (α : R md) : NatIrred (minAnn α) := by
  have hm := minAnn_spec α
  have hne1 : minAnn α ≠ 1 := by
    intro h1
    have := hm.2
    rw [h1, evalAt_one] at this
    exact one_ne_zero' this
  refine ⟨(Nat.le_log2 hm.1).2 (by have := hm.1; omega), fun b c hbc => ?_⟩
  have hb0 : b ≠ 0 := by rintro rfl; rw [zero_clmul] at hbc; exact hm.1 hbc
  have hc0 : c ≠ 0 := by rintro rfl; rw [clmul_zero] at hbc; exact hm.1 hbc
  have hl := log2_clmul hb0 hc0
  rw [← hbc] at hl
  have hev := hm.2
  rw [hbc, evalAt_clmul] at hev
  -- a proper factor vanishing at α would have a smaller code
  have key : ∀ u v : Nat, u ≠ 0 → v ≠ 0 → (minAnn α).log2 = u.log2 + v.log2 → evalAt α u = 0 → v = 1 := by
    intro u v hu hv hluv heu
    have hle := minAnn_min α ⟨hu, heu⟩
    by_contra hv1
    have hvl : 1 ≤ v.log2 := by
      by_contra h; exact hv1 (eq_one_of_log2_zero hv (by omega))
    have h1 : u < 2 ^ (u.log2 + 1) := Nat.lt_log2_self
    have h2 : 2 ^ (u.log2 + 1) ≤ 2 ^ (minAnn α).log2 := Nat.pow_le_pow_right (by decide) (by omega)
    have h3 := Nat.log2_self_le hm.1
    omega
  rcases mul_eq_zero.1 hev with h0 | h0
  · exact Or.inr (key b c hb0 hc0 hl h0)
  · exact Or.inl (key c b hc0 hb0 (by omega) h0)

/-- the constant term of minAnn α is 1 when α ≠ 0 -/
theorem minAnn_odd (α : R md) (hα : α ≠ 0) : minAnn α % 2 = 1 := by
  by_contra ho
  have h2 := natIrred_even (minAnn_irred α) (by omega)
  have := (minAnn_spec α).2
  rw [h2, show (2 : Nat) = 2 * 1 from rfl, evalAt_two_mul, evalAt_one, mul_one] at this
  exact hα this

/-- if λ(α^e) = 0 for e = e0 … e0 + n − 1 then λ(α^e0 · c(α)) = 0 for every c of degree < n -/
theorem lam_span (α : R md) : ∀ (n c e0 : Nat), c < 2 ^ n →
    (∀ e, e0 ≤ e → e < e0 + n → lam (α ^ e) = false) → lam (α ^ e0 * evalAt α c) = false := by
  intro n
  induction n with
  | zero =>
    intro c e0 hc _
    have : c = 0 := by simpa using hc
    rw [this, evalAt_zero, mul_zero, lam_zero]
  | succ n ih =>
    intro c e0 hc hv
    rw [evalAt_eq α c, mul_add, lam_add, ← mul_assoc, ← pow_succ,
      ih (c / 2) (e0 + 1) (by rw [Nat.pow_succ] at hc; omega) (fun e h1 h2 => hv e (by omega) (by omega)),
      lam_mul_bitR, hv e0 (Nat.le_refl _) (by omega)]
    simp

/-- g = 1 cannot satisfy the key equation: 1 lies in the span of α, …, α^l -/
theorem not_vanish_one (α : R md) (hα : α ≠ 0) : ¬ Vanish α md.log2 1 := by
  intro hv
  have hm := minAnn_spec α
  have hodd := minAnn_odd α hα
  -- m = 1 + x·m', so α·m'(α) = 1
  have hev := hm.2
  rw [evalAt_eq α (minAnn α)] at hev
  have hb : bitR md (minAnn α) = 1 := by simp [bitR, hodd]
  rw [hb] at hev
  have h1 : α * evalAt α (minAnn α / 2) = 1 := by
    calc α * evalAt α (minAnn α / 2) = (α * evalAt α (minAnn α / 2) + 1) + 1 := by
          rw [add_assoc, add_self, add_zero]
      _ = 1 := by rw [hev, zero_add]
  have hlt : minAnn α / 2 < 2 ^ md.log2 := by
    have := minAnn_lt α
    rw [Nat.pow_succ] at this; omega
  have := lam_span α md.log2 (minAnn α / 2) 1 hlt (fun e h1 h2 => by
    have := hv e h1 (by omega)
    rwa [mul_one] at this)
  rw [pow_one, h1] at this
  have h2 : lam (1 : R md) = true := by simp [lam, val_one_eq]
  rw [h2] at this
  exact absurd this (by decide)

end minimal

section main
variable {md : Nat} [hI : Fact (NatIrred md)]

theorem proj_cpow (a : Nat) (ha : a < 2 ^ md.log2) (k : Nat) :
    proj md (cpow a k) = (mk a ha) ^ k := by
  induction k with
  | zero => simp [cpow, proj_one]
  | succ k ih =>
    unfold cpow
    rw [proj_clmul, ih, pow_succ]
    congr 1
    exact proj_val (mk a ha)

theorem isSeq_ppSeqBits (a : Nat) (ha : a < 2 ^ md.log2) :
    IsSeq (mk a ha) md.log2 (ppSeqBits a md md.log2 (2 * md.log2)) := by
  have hl : 1 ≤ md.log2 := hI.out.1
  refine ⟨(ppMinPolyModV_spec a md hl).2.1, fun j hj => ?_⟩
  rw [ppMinPolyModV_seq_pow a md hl ha j hj]
  have := congrArg Subtype.val (proj_cpow a ha (2 * md.log2 - j))
  change pmod (cpow a (2 * md.log2 - j)) md = _ at this
  rw [this]; rfl

/-- ppMinPolyMod returns the least annihilating polynomial of the class of a -/
theorem minPolyMod_eq_minAnn (a : Nat) (ha0 : a ≠ 0) (ha : a < 2 ^ md.log2) :
    ppMinPolyModV a md = minAnn (mk a ha) := by
  have hl : 1 ≤ md.log2 := hI.out.1
  have hα : mk a ha ≠ 0 := fun h => ha0 (congrArg Subtype.val h)
  have hS := isSeq_ppSeqBits a ha
  obtain ⟨_, _, _, g0, gl, gk, gmin⟩ := ppMinPolyModV_spec a md hl
  generalize ppSeqBits a md md.log2 (2 * md.log2) = S at *
  generalize ppMinPolyModV a md = g at *
  have hm := minAnn_spec (mk a ha)
  have hmlt := minAnn_lt (mk a ha)
  have hv : Vanish (mk a ha) md.log2 (evalAt (mk a ha) (minAnn (mk a ha))) := by
    intro e _ _
    rw [hm.2, mul_zero, lam_zero]
  obtain ⟨r, k, hr, hk⟩ := key_of_vanish (mk a ha) md.log2 S hS _ hmlt hv
  obtain ⟨⟨h', hh'⟩, _⟩ := gmin _ r k hm.1 (minAnn_log2 (mk a ha)) hr hk
  rcases (minAnn_irred (mk a ha)).2 h' g hh' with h1 | h1
  · rw [h1, one_clmul] at hh'; exact hh'.symm
  · exfalso
    have hg1 : (1 : Nat) < 2 ^ (md.log2 + 1) := Nat.one_lt_two_pow (by omega)
    rw [h1] at gk
    have := vanish_of_key (mk a ha) md.log2 S hS 1 hg1 gk
    rw [evalAt_one] at this
    exact not_vanish_one (mk a ha) hα this

end main

/-! ## the degree of the minimal polynomial divides deg md -/

theorem evalAt_two_pow {f : Nat} [Fact (f ≠ 0)] (α : R f) (k : Nat) : evalAt α (2 ^ k) = α ^ k := by
  induction k with
  | zero => simp [evalAt_one]
  | succ k ih => rw [Nat.pow_succ, Nat.mul_comm, evalAt_two_mul, ih, pow_succ, mul_comm]

theorem proj_two_pow {f : Nat} [Fact (f ≠ 0)] (k : Nat) : proj f (2 ^ k) = (proj f 2) ^ k := by
  induction k with
  | zero => simp [proj_one]
  | succ k ih =>
    rw [Nat.pow_succ, Nat.mul_comm, ← clmul_two, proj_clmul, ih, pow_succ]

/-- an irreducible g of degree d that divides x^(2^l) + x has d ∣ l -/
theorem deg_dvd_of_dvd_frob {g : Nat} [hI : Fact (NatIrred g)] (l : Nat)
    (h : PDvd g (2 ^ 2 ^ l ^^^ 2)) : g.log2 ∣ l := by
  have hd1 : 1 ≤ g.log2 := hI.out.1
  have hX : (proj g 2) ^ 2 ^ l = proj g 2 := by
    have h0 := (proj_eq_zero_iff (f := g) _).2 h
    rw [proj_xor, proj_two_pow] at h0
    calc (proj g 2) ^ 2 ^ l = ((proj g 2) ^ 2 ^ l + proj g 2) + proj g 2 := by
          rw [add_assoc, add_self, add_zero]
      _ = proj g 2 := by rw [h0, zero_add]
  -- Frobenius^d is the identity, so Frobenius^(l % d) fixes the class of x as well
  have hred : ∀ q r : Nat, (proj g 2) ^ 2 ^ (r + q * g.log2) = (proj g 2) ^ 2 ^ r := by
    intro q
    induction q with
    | zero => intro r; simp
    | succ q ih =>
      intro r
      have e : r + (q + 1) * g.log2 = (r + q * g.log2) + g.log2 := by ring
      rw [e, Nat.pow_add, pow_mul]
      have := FiniteField.pow_card ((proj g 2) ^ 2 ^ (r + q * g.log2))
      rw [card_R] at this
      rw [this, ih]
  have hr := hred (l / g.log2) (l % g.log2)
  rw [Nat.mod_add_div' l g.log2, hX] at hr
  by_contra hnd
  have hr0 : l % g.log2 ≠ 0 := fun h0 => hnd (Nat.dvd_of_mod_eq_zero h0)
  exact frob_moves_x (f := g) (l % g.log2) (by omega) (Nat.mod_lt _ (by omega)) hr.symm

theorem minAnn_deg_dvd {md : Nat} [hI : Fact (NatIrred md)] (α : R md) :
    (minAnn α).log2 ∣ md.log2 := by
  have : Fact (NatIrred (minAnn α)) := ⟨minAnn_irred α⟩
  apply deg_dvd_of_dvd_frob
  have hev : evalAt α (2 ^ 2 ^ md.log2 ^^^ 2) = 0 := by
    have e2 : evalAt α 2 = α := by simpa [evalAt_one] using evalAt_two_mul α 1
    rw [evalAt_xor α _ _ _ rfl, evalAt_two_pow, e2]
    have := FiniteField.pow_card α
    rw [card_R] at this
    rw [this, add_self]
  obtain ⟨q, hq⟩ := minAnn_dvd α _ hev
  exact ⟨q, hq⟩

end Bee2V.C05.MinPoly

/-
C05 — lemmas for the bit-level functions of ww.c (ModelBits) and the word helpers (ModelWord).

Technique: a multi-word number is compared with its specification bit by bit
(`Nat.eq_of_testBit_eq`); `testBit_val` reads bit k of ⟦a⟧ as bit `k % w` of word `k / w`.
-/
import Bee2V.C05.ModelBits
import Bee2V.C05.LemmasWord16
import Mathlib.Tactic.Ring
import Mathlib.Tactic.Linarith
import Mathlib.Tactic.NormNum
import Mathlib.Tactic.SplitIfs
import Mathlib.Tactic.IntervalCases
import Mathlib.Data.ZMod.Basic
namespace Bee2V.C05

theorem testBit_val {w : Nat} (hw : 0 < w) : ∀ (a : List Nat), Wf w a → ∀ k,
    (val w a).testBit k = (a.getD (k / w) 0).testBit (k % w) := by
  intro a
  induction a with
  | nil => intro _ k; simp [val]
  | cons x xs ih =>
    intro h k
    obtain ⟨hx, hxs⟩ := Wf_cons.mp h
    rw [val_cons, Nat.add_comm, Nat.testBit_two_pow_mul_add _ hx]
    split
    · rename_i hk
      rw [Nat.div_eq_of_lt hk, Nat.mod_eq_of_lt hk]; rfl
    · rename_i hk
      have hk : w ≤ k := Nat.le_of_not_lt hk
      rw [ih hxs (k - w)]
      have h1 : k / w = (k - w) / w + 1 := by
        have h3 : k = (k - w) + w := by omega
        conv_lhs => rw [h3]
        exact Nat.add_div_right _ hw
      have h2 : (k - w) % w = k % w := by
        rw [← Nat.mod_eq_sub_mod hk]
      rw [h1, h2]; rfl


theorem testBit_high {x w i : Nat} (h : x < 2 ^ w) (hi : w ≤ i) : x.testBit i = false :=
  Nat.testBit_lt_two_pow (Nat.lt_of_lt_of_le h (Nat.pow_le_pow_right (by decide) hi))

theorem getD_lt {w : Nat} {a : List Nat} (h : Wf w a) (i : Nat) : a.getD i 0 < 2 ^ w := by
  by_cases hi : i < a.length
  · rw [List.getD_eq_getElem?_getD, List.getElem?_eq_getElem hi]; exact h _ (List.getElem_mem hi)
  · rw [List.getD_eq_getElem?_getD, List.getElem?_eq_none (Nat.le_of_not_lt hi)]
    exact Nat.two_pow_pos w

theorem idx_lo {w : Nat} (hw : 0 < w) (n r : Nat) (hr : r < w) :
    (w * n + r) / w = n ∧ (w * n + r) % w = r := by
  constructor
  · rw [Nat.mul_add_div hw, Nat.div_eq_of_lt hr]; rfl
  · rw [Nat.mul_add_mod, Nat.mod_eq_of_lt hr]

theorem idx_hi {w : Nat} (hw : 0 < w) (n r : Nat) (h1 : w ≤ r) (h2 : r < 2 * w) :
    (w * n + r) / w = n + 1 ∧ (w * n + r) % w = r - w := by
  have : w * n + r = w * (n + 1) + (r - w) := by rw [Nat.mul_add]; omega
  rw [this]
  exact idx_lo hw (n + 1) (r - w) (by omega)

theorem tb_div (x s j : Nat) : (x / 2 ^ s).testBit j = x.testBit (s + j) := by
  rw [Nat.testBit_div_two_pow, Nat.add_comm]

theorem testBit_wshl (w x s j : Nat) :
    (wshl w x s).testBit j = (decide (j < w) && (decide (s ≤ j) && x.testBit (j - s))) := by
  unfold wshl
  rw [Nat.testBit_mod_two_pow, Nat.testBit_mul_two_pow]

theorem wmask_eq {w width : Nat} (h : width < w) : wsub w (wbit w width) 1 = 2 ^ width - 1 := by
  unfold wsub wbit wshl
  have h1 : 2 ^ width < 2 ^ w := Nat.pow_lt_pow_right (by decide) h
  have h2 : 1 < 2 ^ w := Nat.one_lt_two_pow (by omega)
  rw [Nat.one_mul, Nat.mod_eq_of_lt h1, Nat.mod_eq_of_lt h2]
  have h3 : 0 < 2 ^ width := Nat.two_pow_pos _
  have : 2 ^ width + (2 ^ w - 1) = (2 ^ width - 1) + 2 ^ w := by omega
  rw [this, Nat.add_mod_right, Nat.mod_eq_of_lt (by omega)]

/-- wwGetBits returns bits pos … pos + width − 1 of the number.
    Precondition of ww.h: `width ≤ B_PER_W`, W_OF_B(pos + width) words reserved (i.e.
    `pos + width ≤ w * n`); under it only `a[n]` with `n < a.length` is read when `width > 0`
    (for `width = 0` the result is 0 whatever is read). -/
theorem wwGetBits_val {w : Nat} (hw : 0 < w) (a : List Nat) (pos width : Nat) (hwd : width ≤ w)
    (hres : pos + width ≤ w * a.length) (h : Wf w a) :
    wwGetBits w a pos width = (val w a / 2 ^ pos) % 2 ^ width := by
  apply Nat.eq_of_testBit_eq
  intro j
  rw [Nat.testBit_mod_two_pow, tb_div, testBit_val hw a h]
  have hp : pos % w < w := Nat.mod_lt _ hw
  have hpos : pos = w * (pos / w) + pos % w := (Nat.div_add_mod pos w).symm
  generalize hn : pos / w = n at hpos
  generalize hpp : pos % w = p at hpos hp
  have han := getD_lt h n
  have han1 := getD_lt h (n + 1)
  unfold wwGetBits
  simp only [hn, hpp]
  -- the word before masking
  have hpre : ∀ (hjw : j < width),
      (if p + width > w then wshr (a.getD n 0) p ||| wshl w (a.getD (n + 1) 0) (w - p)
        else wshr (a.getD n 0) p).testBit j = (a.getD ((pos + j) / w) 0).testBit ((pos + j) % w) := by
    intro hjw
    have hidx : pos + j = w * n + (p + j) := by omega
    rw [hidx]
    by_cases hpj : p + j < w
    · obtain ⟨e1, e2⟩ := idx_lo hw n (p + j) hpj
      rw [e1, e2]
      split
      · have h1 : ¬ (w - p ≤ j) := by omega
        rw [Nat.testBit_or, tb_div, testBit_wshl]; simp [h1]
      · rw [tb_div]
    · obtain ⟨e1, e2⟩ := idx_hi hw n (p + j) (by omega) (by omega)
      rw [e1, e2]
      have hf : (a.getD n 0).testBit (p + j) = false := testBit_high han (by omega)
      have hc : p + width > w := by omega
      have h1 : j < w := by omega
      have h2 : w - p ≤ j := by omega
      have e3 : j - (w - p) = p + j - w := by omega
      rw [if_pos hc, Nat.testBit_or, tb_div, testBit_wshl, hf, e3]; simp [h1, h2]
  by_cases hj : j < width
  · simp only [hj, decide_true, Bool.true_and]
    split
    · rename_i hlt
      rw [wmask_eq hlt, Nat.testBit_and, Nat.testBit_two_pow_sub_one, hpre hj]; simp [hj]
    · exact hpre hj
  · simp only [hj, decide_false, Bool.false_and]
    split
    · rename_i hlt
      rw [wmask_eq hlt, Nat.testBit_and, Nat.testBit_two_pow_sub_one]; simp [hj]
    · -- width = w: the word is below 2^w
      have hww : width = w := by omega
      have hjw : w ≤ j := by omega
      split
      · rw [Nat.testBit_or, tb_div, testBit_wshl, testBit_high han (by omega)]
        have : ¬ j < w := by omega
        simp [this]
      · rw [tb_div, testBit_high han (by omega)]

theorem getD_set (a : List Nat) (i j x : Nat) :
    (a.set i x).getD j 0 = if j = i ∧ i < a.length then x else a.getD j 0 := by
  simp only [List.getD_eq_getElem?_getD, List.getElem?_set]
  by_cases h : i = j
  · subst h
    by_cases h2 : i < a.length
    · simp [h2]
    · simp [h2, List.getElem?_eq_none (Nat.le_of_not_lt h2)]
  · have : ¬ j = i := fun e => h e.symm
    simp [h, this]

theorem Wf_set {w : Nat} {a : List Nat} (h : Wf w a) (i x : Nat) (hx : x < 2 ^ w) :
    Wf w (a.set i x) := by
  intro y hy
  rcases List.mem_or_eq_of_mem_set hy with h1 | h1
  · exact h y h1
  · rw [h1]; exact hx

/-- bit-level description ⇒ arithmetic description of replacing a bit field -/
theorem field_replace (X Y p wd f : Nat)
    (h : ∀ k, Y.testBit k = if p ≤ k ∧ k < p + wd then f.testBit (k - p) else X.testBit k) :
    Y + ((X / 2 ^ p) % 2 ^ wd) * 2 ^ p = X + (f % 2 ^ wd) * 2 ^ p := by
  have dec : ∀ Z : Nat, Z = Z % 2 ^ p + 2 ^ p * ((Z / 2 ^ p) % 2 ^ wd)
      + 2 ^ p * (2 ^ wd * (Z / 2 ^ (p + wd))) := by
    intro Z
    have h1 := Nat.mod_add_div Z (2 ^ p)
    have h2 := Nat.mod_add_div (Z / 2 ^ p) (2 ^ wd)
    have h3 : Z / 2 ^ p / 2 ^ wd = Z / 2 ^ (p + wd) := by
      rw [Nat.div_div_eq_div_mul, Nat.pow_add]
    rw [h3] at h2
    calc Z = Z % 2 ^ p + 2 ^ p * (Z / 2 ^ p) := h1.symm
      _ = Z % 2 ^ p + 2 ^ p * ((Z / 2 ^ p) % 2 ^ wd + 2 ^ wd * (Z / 2 ^ (p + wd))) := by rw [h2]
      _ = _ := by ring
  have e1 : Y % 2 ^ p = X % 2 ^ p := by
    apply Nat.eq_of_testBit_eq; intro k
    rw [Nat.testBit_mod_two_pow, Nat.testBit_mod_two_pow, h k]
    by_cases hk : k < p
    · have : ¬ (p ≤ k ∧ k < p + wd) := by omega
      simp [this]
    · simp [hk]
  have e2 : (Y / 2 ^ p) % 2 ^ wd = f % 2 ^ wd := by
    apply Nat.eq_of_testBit_eq; intro k
    rw [Nat.testBit_mod_two_pow, Nat.testBit_mod_two_pow, tb_div, h (p + k)]
    by_cases hk : k < wd
    · have : (p ≤ p + k ∧ p + k < p + wd) := by omega
      simp [this, hk]
    · simp [hk]
  have e3 : Y / 2 ^ (p + wd) = X / 2 ^ (p + wd) := by
    apply Nat.eq_of_testBit_eq; intro k
    rw [tb_div, tb_div, h (p + wd + k)]
    have : ¬ (p ≤ p + wd + k ∧ p + wd + k < p + wd) := by omega
    simp [this]
  have dY := dec Y
  have dX := dec X
  rw [e1, e2, e3] at dY
  generalize X % 2 ^ p = A at *
  generalize 2 ^ p * (2 ^ wd * (X / 2 ^ (p + wd))) = C at *
  generalize hF : (X / 2 ^ p) % 2 ^ wd = F at *
  generalize hG : f % 2 ^ wd = G at *
  rw [Nat.mul_comm F, Nat.mul_comm G]
  omega


theorem testBit_wnot (w y j : Nat) :
    (wnot w y).testBit j = (decide (j < w) && !y.testBit j) := by
  unfold wnot
  have h1 : y % 2 ^ w < 2 ^ w := Nat.mod_lt _ (Nat.two_pow_pos w)
  have h2 : 2 ^ w - 1 - y % 2 ^ w = 2 ^ w - (y % 2 ^ w + 1) := by omega
  rw [h2, Nat.testBit_two_pow_sub_succ h1, Nat.testBit_mod_two_pow]
  by_cases hj : j < w <;> simp [hj]

theorem wnot_lt (w y : Nat) : wnot w y < 2 ^ w := by
  unfold wnot
  have := Nat.two_pow_pos w
  omega

theorem smask_eq {w width : Nat} (hwd : width ≤ w) :
    (if width < w then wshr (wshl w (2 ^ w - 1) (w - width)) (w - width) else 2 ^ w - 1)
      = 2 ^ width - 1 := by
  split
  · rename_i hlt
    apply Nat.eq_of_testBit_eq; intro j
    rw [tb_div, testBit_wshl, Nat.testBit_two_pow_sub_one, Nat.testBit_two_pow_sub_one]
    by_cases hj : j < width
    · have h1 : w - width + j < w := by omega
      have h2 : w - width ≤ w - width + j := by omega
      have h3 : w - width + j - (w - width) < w := by omega
      have h4 : j < w := by omega
      simp [h1, h2, h4, hj]
    · have h1 : ¬ (w - width + j < w) := by omega
      simp [h1, hj]
  · have : width = w := by omega
    rw [this]

theorem and_mask (v width : Nat) : v &&& (2 ^ width - 1) = v % 2 ^ width :=
  Nat.and_two_pow_sub_one_eq_mod v width

theorem wwSetBits_bits {w : Nat} (hw : 0 < w) (a : List Nat) (pos width v : Nat)
    (hwd : width ≤ w) (h0 : 0 < width) (hres : pos + width ≤ w * a.length) (h : Wf w a) :
    (wwSetBits w a pos width v).length = a.length ∧ Wf w (wwSetBits w a pos width v) ∧
    ∀ k, (val w (wwSetBits w a pos width v)).testBit k =
      if pos ≤ k ∧ k < pos + width then v.testBit (k - pos) else (val w a).testBit k := by
  have hp : pos % w < w := Nat.mod_lt _ hw
  have hpos : pos = w * (pos / w) + pos % w := (Nat.div_add_mod pos w).symm
  generalize hn : pos / w = n at hpos
  generalize hpp : pos % w = p at hpos hp
  have hnl : n < a.length := by
    by_contra hc
    have : w * a.length ≤ w * n := Nat.mul_le_mul_left w (Nat.le_of_not_lt hc)
    omega
  unfold wwSetBits
  simp only [hn, hpp, smask_eq hwd, and_mask]
  generalize hA : ((a.getD n 0 &&& wnot w (wshl w (2 ^ width - 1) p)) ^^^ wshl w (v % 2 ^ width) p) = A
  generalize hA1 : ((a.getD (n + 1) 0 &&& wnot w (wshr (2 ^ width - 1) (w - p))) ^^^
      wshr (v % 2 ^ width) (w - p)) = A1
  have han := getD_lt h n
  have han1 := getD_lt h (n + 1)
  have hAlt : A < 2 ^ w := by
    rw [← hA]
    exact Nat.xor_lt_two_pow (Nat.and_lt_two_pow _ (wnot_lt _ _)) (Nat.mod_lt _ (Nat.two_pow_pos w))
  have hA1lt : A1 < 2 ^ w := by
    rw [← hA1]
    refine Nat.xor_lt_two_pow (Nat.and_lt_two_pow _ (wnot_lt _ _)) ?_
    have h1 : v % 2 ^ width < 2 ^ width := Nat.mod_lt _ (Nat.two_pow_pos _)
    have h2 : 2 ^ width ≤ 2 ^ w := Nat.pow_le_pow_right (by decide) hwd
    exact Nat.lt_of_le_of_lt (Nat.div_le_self _ _) (by omega)
  -- bits of the new words
  have bA : ∀ j, j < w → A.testBit j =
      if p ≤ j ∧ j < p + width then v.testBit (j - p) else (a.getD n 0).testBit j := by
    intro j hj
    rw [← hA, Nat.testBit_xor, Nat.testBit_and, testBit_wnot, testBit_wshl, testBit_wshl,
      Nat.testBit_two_pow_sub_one, Nat.testBit_mod_two_pow]
    by_cases c1 : p ≤ j
    · by_cases c2 : j < p + width
      · have c3 : j - p < width := by omega
        simp [hj, c1, c2, c3]
      · have c3 : ¬ j - p < width := by omega
        simp [hj, c1, c2, c3]
    · simp [hj, c1]
  have bA1 : ∀ j, j < w → A1.testBit j =
      if w + j < p + width then v.testBit (w - p + j) else (a.getD (n + 1) 0).testBit j := by
    intro j hj
    rw [← hA1, Nat.testBit_xor, Nat.testBit_and, testBit_wnot, tb_div, tb_div,
      Nat.testBit_two_pow_sub_one, Nat.testBit_mod_two_pow]
    by_cases c2 : w + j < p + width
    · have c3 : w - p + j < width := by omega
      simp [hj, c2, c3]
    · have c3 : ¬ w - p + j < width := by omega
      simp [hj, c2, c3]
  -- bits of the result, given its words
  have fin : ∀ R : List Nat, Wf w R →
      (∀ i, R.getD i 0 = if i = n then A else
        if i = n + 1 ∧ p + width > w then A1 else a.getD i 0) →
      ∀ k, (val w R).testBit k =
        if pos ≤ k ∧ k < pos + width then v.testBit (k - pos) else (val w a).testBit k := by
    intro R hR hget k
    rw [testBit_val hw R hR, testBit_val hw a h, hget]
    have hj : k % w < w := Nat.mod_lt _ hw
    have hk : k = w * (k / w) + k % w := (Nat.div_add_mod k w).symm
    generalize k / w = i at hk
    generalize k % w = j at hk hj
    by_cases c1 : i = n
    · subst c1
      rw [if_pos rfl, bA j hj]
      have e : k - pos = j - p := by omega
      have e2 : (pos ≤ k ∧ k < pos + width) ↔ (p ≤ j ∧ j < p + width) := by omega
      simp only [e, e2]
    · rw [if_neg c1]
      by_cases c2 : i = n + 1
      · subst c2
        have hk' : k = w * n + w + j := by rw [hk, Nat.mul_add, Nat.mul_one]
        by_cases c3 : p + width > w
        · rw [if_pos ⟨rfl, c3⟩, bA1 j hj]
          have e : k - pos = w - p + j := by omega
          have e2 : (pos ≤ k ∧ k < pos + width) ↔ (w + j < p + width) := by omega
          simp only [e, e2]
        · have c4 : ¬ (n + 1 = n + 1 ∧ p + width > w) := fun hh => c3 hh.2
          have e2 : ¬ (pos ≤ k ∧ k < pos + width) := by omega
          rw [if_neg c4, if_neg e2]
      · have c4 : ¬ (i = n + 1 ∧ p + width > w) := fun hh => c2 hh.1
        rw [if_neg c4]
        have e2 : ¬ (pos ≤ k ∧ k < pos + width) := by
          rcases Nat.lt_or_gt_of_ne c1 with c5 | c5
          · have : w * (i + 1) ≤ w * n := Nat.mul_le_mul_left w c5
            rw [Nat.mul_add] at this
            omega
          · have : w * (n + 2) ≤ w * i := Nat.mul_le_mul_left w (by omega)
            rw [Nat.mul_add] at this
            omega
        rw [if_neg e2]
  have hX : a.getD n 0 &&& wnot w (wshl w (2 ^ width - 1) p) < 2 ^ w :=
    Nat.and_lt_two_pow _ (wnot_lt _ _)
  have hY : a.getD (n + 1) 0 &&& wnot w (wshr (2 ^ width - 1) (w - p)) < 2 ^ w :=
    Nat.and_lt_two_pow _ (wnot_lt _ _)
  by_cases hst : p + width > w
  · -- the field straddles the boundary between a[n] and a[n + 1]
    have hn1l : n + 1 < a.length := by
      by_contra hc
      have : w * a.length ≤ w * (n + 1) := Nat.mul_le_mul_left w (Nat.le_of_not_lt hc)
      rw [Nat.mul_add] at this
      omega
    simp only [hst, if_true, getD_set, List.length_set, hnl, hn1l, and_self, and_true, if_true,
      Nat.succ_ne_self, if_false, hA, hA1, true_and]
    have hWf := Wf_set (Wf_set (Wf_set (Wf_set h n _ hX) n _ hAlt) (n + 1) _ hY) (n + 1) _ hA1lt
    refine ⟨hWf, fin _ hWf ?_⟩
    intro i
    simp only [getD_set, List.length_set, hnl, hn1l, and_true, hst]
    by_cases c1 : i = n
    · subst c1; simp
    · by_cases c2 : i = n + 1
      · subst c2; simp
      · simp [c1, c2]
  · simp only [hst, if_false, getD_set, List.length_set, hnl, and_self, and_true, if_true, hA,
      true_and]
    have hWf := Wf_set (Wf_set h n _ hX) n _ hAlt
    refine ⟨hWf, fin _ hWf ?_⟩
    intro i
    simp only [getD_set, List.length_set, hnl, and_true, hst, and_false, if_false]
    by_cases c1 : i = n
    · subst c1; simp
    · simp [c1]


theorem wwSetBits_val {w : Nat} (hw : 0 < w) (a : List Nat) (pos width v : Nat)
    (hwd : width ≤ w) (h0 : 0 < width) (hres : pos + width ≤ w * a.length) (h : Wf w a) :
    (wwSetBits w a pos width v).length = a.length ∧ Wf w (wwSetBits w a pos width v) ∧
    val w (wwSetBits w a pos width v) + ((val w a / 2 ^ pos) % 2 ^ width) * 2 ^ pos
      = val w a + (v % 2 ^ width) * 2 ^ pos := by
  obtain ⟨h1, h2, h3⟩ := wwSetBits_bits hw a pos width v hwd h0 hres h
  exact ⟨h1, h2, field_replace _ _ _ _ _ h3⟩

/-- replacing one word -/
theorem set_word_bits {w : Nat} (hw : 0 < w) (a : List Nat) (h : Wf w a) (n A : Nat)
    (hnl : n < a.length) (hA : A < 2 ^ w) :
    Wf w (a.set n A) ∧ ∀ k, (val w (a.set n A)).testBit k =
      if k / w = n then A.testBit (k % w) else (val w a).testBit k := by
  have hWf := Wf_set h n A hA
  refine ⟨hWf, fun k => ?_⟩
  rw [testBit_val hw _ hWf, testBit_val hw a h, getD_set]
  by_cases c : k / w = n
  · simp [c, hnl]
  · simp [c]

theorem pos_split {w : Nat} (hw : 0 < w) (pos k : Nat) :
    (k = pos) ↔ (k / w = pos / w ∧ k % w = pos % w) := by
  constructor
  · intro e; rw [e]; exact ⟨rfl, rfl⟩
  · intro ⟨e1, e2⟩
    rw [← Nat.div_add_mod k w, ← Nat.div_add_mod pos w, e1, e2]

theorem wbit_eq {w p : Nat} (hp : p < w) : wbit w p = 2 ^ p := by
  unfold wbit wshl
  rw [Nat.one_mul, Nat.mod_eq_of_lt (Nat.pow_lt_pow_right (by decide) hp)]

theorem pos_word_lt {w : Nat} {a : List Nat} {pos : Nat} (hres : pos < w * a.length) :
    pos / w < a.length := by
  by_contra hc
  have h1 : w * a.length ≤ w * (pos / w) := Nat.mul_le_mul_left w (Nat.le_of_not_lt hc)
  have h2 := Nat.mul_div_le pos w
  omega

theorem and_two_pow' (x p : Nat) : x &&& 2 ^ p = bif x.testBit p then 2 ^ p else 0 := by
  apply Nat.eq_of_testBit_eq; intro j
  rw [Nat.testBit_and, Nat.testBit_two_pow]
  by_cases c : p = j
  · subst c
    cases hx : x.testBit p <;> simp [Nat.testBit_two_pow]
  · cases hx : x.testBit p <;> simp [Nat.testBit_two_pow, c]

theorem wwTestBit_val {w : Nat} (hw : 0 < w) (a : List Nat) (pos : Nat)
    (hres : pos < w * a.length) (h : Wf w a) :
    wwTestBit w a pos = (val w a).testBit pos := by
  unfold wwTestBit
  rw [testBit_val hw a h, wbit_eq (Nat.mod_lt _ hw), and_two_pow']
  cases (a.getD (pos / w) 0).testBit (pos % w)
  · simp
  · have := Nat.two_pow_pos (pos % w)
    simp

theorem wwSetBit_bits {w : Nat} (hw : 0 < w) (a : List Nat) (pos : Nat) (b : Bool)
    (hres : pos < w * a.length) (h : Wf w a) :
    (wwSetBit w a pos b).length = a.length ∧ Wf w (wwSetBit w a pos b) ∧
    ∀ k, (val w (wwSetBit w a pos b)).testBit k = if k = pos then b else (val w a).testBit k := by
  have hnl := pos_word_lt hres
  have hp : pos % w < w := Nat.mod_lt _ hw
  have han := getD_lt h (pos / w)
  unfold wwSetBit
  simp only [wbit_eq hp, List.length_set, true_and]
  have hf : wneg w (if b then 1 else 0) < 2 ^ w := Nat.mod_lt _ (Nat.two_pow_pos w)
  have hfb : (wneg w (if b then 1 else 0)).testBit (pos % w) = b := by
    cases b
    · simp [wneg]
    · have h1 : 1 < 2 ^ w := Nat.one_lt_two_pow (by omega)
      simp only [wneg, if_true, Nat.mod_eq_of_lt h1]
      rw [Nat.mod_eq_of_lt (by omega), Nat.testBit_two_pow_sub_one]
      simp [hp]
  have hA : a.getD (pos / w) 0 ^^^
      ((wneg w (if b then 1 else 0) ^^^ a.getD (pos / w) 0) &&& 2 ^ (pos % w)) < 2 ^ w :=
    Nat.xor_lt_two_pow han (Nat.and_lt_two_pow _ (Nat.pow_lt_pow_right (by decide) hp))
  obtain ⟨hWf, hb⟩ := set_word_bits hw a h (pos / w) _ hnl hA
  refine ⟨hWf, fun k => ?_⟩
  rw [hb k]
  by_cases c : k / w = pos / w
  · rw [if_pos c, Nat.testBit_xor, Nat.testBit_and, Nat.testBit_xor, Nat.testBit_two_pow]
    by_cases c2 : k % w = pos % w
    · have : k = pos := (pos_split hw pos k).mpr ⟨c, c2⟩
      rw [if_pos this, c2, hfb]
      cases b <;> cases (a.getD (pos / w) 0).testBit (pos % w) <;> simp
    · have : ¬ k = pos := fun e => c2 ((pos_split hw pos k).mp e).2
      have c3 : ¬ pos % w = k % w := fun e => c2 e.symm
      rw [if_neg this, testBit_val hw a h, c]
      simp [c3]
  · have : ¬ k = pos := fun e => c ((pos_split hw pos k).mp e).1
    rw [if_neg c, if_neg this]

theorem wwFlipBit_bits {w : Nat} (hw : 0 < w) (a : List Nat) (pos : Nat)
    (hres : pos < w * a.length) (h : Wf w a) :
    (wwFlipBit w a pos).length = a.length ∧ Wf w (wwFlipBit w a pos) ∧
    ∀ k, (val w (wwFlipBit w a pos)).testBit k =
      if k = pos then !(val w a).testBit k else (val w a).testBit k := by
  have hnl := pos_word_lt hres
  have hp : pos % w < w := Nat.mod_lt _ hw
  have han := getD_lt h (pos / w)
  unfold wwFlipBit
  simp only [wbit_eq hp, List.length_set, true_and]
  have hA : a.getD (pos / w) 0 ^^^ 2 ^ (pos % w) < 2 ^ w :=
    Nat.xor_lt_two_pow han (Nat.pow_lt_pow_right (by decide) hp)
  obtain ⟨hWf, hb⟩ := set_word_bits hw a h (pos / w) _ hnl hA
  refine ⟨hWf, fun k => ?_⟩
  rw [hb k]
  by_cases c : k / w = pos / w
  · rw [if_pos c, Nat.testBit_xor, Nat.testBit_two_pow, testBit_val hw a h, c]
    by_cases c2 : k % w = pos % w
    · have : k = pos := (pos_split hw pos k).mpr ⟨c, c2⟩
      rw [if_pos this, c2]
      simp
    · have : ¬ k = pos := fun e => c2 ((pos_split hw pos k).mp e).2
      have c3 : ¬ pos % w = k % w := fun e => c2 e.symm
      rw [if_neg this]
      simp [c3]
  · have : ¬ k = pos := fun e => c ((pos_split hw pos k).mp e).1
    rw [if_neg c, if_neg this]

/-- a single-bit description in the form needed by `field_replace` -/
theorem bit_replace (X Y pos : Nat) (b : Bool)
    (h : ∀ k, Y.testBit k = if k = pos then b else X.testBit k) :
    Y + (X / 2 ^ pos % 2) * 2 ^ pos = X + b.toNat * 2 ^ pos := by
  have := field_replace X Y pos 1 b.toNat (by
    intro k
    rw [h k]
    by_cases c : k = pos
    · subst c
      have : k ≤ k ∧ k < k + 1 := by omega
      rw [if_pos rfl, if_pos this, Nat.sub_self]
      cases b <;> simp
    · have : ¬ (pos ≤ k ∧ k < pos + 1) := by omega
      rw [if_neg c, if_neg this])
  rw [Nat.pow_one] at this
  have e : b.toNat % 2 = b.toNat := by cases b <;> rfl
  rw [e] at this
  exact this



/-! ## shifts -/

/-- an in-place ascending loop `for (; pos + c < n; pos++) a[pos] = g(a, pos)` whose body reads the
    array only at indices ≥ pos computes `g` of the ORIGINAL array at every visited index -/
theorem forUp_spec (n c : Nat) (cond : Nat → Bool) (hc : ∀ p, cond p = decide (p + c < n))
    (g : List Nat → Nat → Nat)
    (hg : ∀ (a b : List Nat) (p : Nat), (∀ i, p ≤ i → a.getD i 0 = b.getD i 0) → g a p = g b p) :
    ∀ (fuel pos : Nat) (a : List Nat), a.length = n → n ≤ pos + c + fuel →
      (forUp cond (fun pos a => a.set pos (g a pos)) fuel pos a).1 = max pos (n - c) ∧
      (forUp cond (fun pos a => a.set pos (g a pos)) fuel pos a).2.length = n ∧
      ∀ i, (forUp cond (fun pos a => a.set pos (g a pos)) fuel pos a).2.getD i 0 =
        if pos ≤ i ∧ i + c < n then g a i else a.getD i 0 := by
  intro fuel
  induction fuel with
  | zero =>
    intro pos a hl hf
    simp only [forUp]
    refine ⟨by omega, hl, fun i => ?_⟩
    have : ¬ (pos ≤ i ∧ i + c < n) := by omega
    rw [if_neg this]
  | succ fuel ih =>
    intro pos a hl hf
    simp only [forUp, hc]
    by_cases hcond : pos + c < n
    · simp only [hcond, decide_true, if_true]
      have hl1 : (a.set pos (g a pos)).length = n := by rw [List.length_set]; exact hl
      obtain ⟨h1, h2, h3⟩ := ih (pos + 1) (a.set pos (g a pos)) hl1 (by omega)
      refine ⟨by rw [h1]; omega, h2, fun i => ?_⟩
      rw [h3 i]
      by_cases c1 : pos + 1 ≤ i ∧ i + c < n
      · have c2 : pos ≤ i ∧ i + c < n := by omega
        rw [if_pos c1, if_pos c2]
        apply hg
        intro j hj
        rw [getD_set]
        have : ¬ (j = pos ∧ pos < a.length) := by omega
        rw [if_neg this]
      · rw [if_neg c1, getD_set]
        by_cases c2 : i = pos
        · have c3 : pos ≤ i ∧ i + c < n := by omega
          have c4 : i = pos ∧ pos < a.length := by omega
          rw [if_pos c4, if_pos c3, c2]
        · have c3 : ¬ (pos ≤ i ∧ i + c < n) := by omega
          have c4 : ¬ (i = pos ∧ pos < a.length) := by omega
          rw [if_neg c4, if_neg c3]
    · simp only [hcond, decide_false, Bool.false_eq_true, if_false]
      refine ⟨by omega, hl, fun i => ?_⟩
      have : ¬ (pos ≤ i ∧ i + c < n) := by omega
      rw [if_neg this]

/-- the word `i` of the shifted number -/
def shLoWord (w : Nat) (a : List Nat) (ws sh i : Nat) : Nat :=
  wshr (a.getD (i + ws) 0) sh ||| wshl w (a.getD (i + ws + 1) 0) (w - sh)

theorem wshl_zero (w s : Nat) : wshl w 0 s = 0 := by simp [wshl]
theorem wshl_full (w x : Nat) : wshl w x w = 0 := by simp [wshl]

theorem getD_beyond (a : List Nat) (i : Nat) (h : a.length ≤ i) : a.getD i 0 = 0 := by
  rw [List.getD_eq_getElem?_getD, List.getElem?_eq_none h]; rfl

theorem zeroUp_spec (n : Nat) (pos : Nat) (a : List Nat) (hl : a.length = n) :
    (zeroUp n pos a).length = n ∧
    ∀ i, (zeroUp n pos a).getD i 0 = if pos ≤ i then 0 else a.getD i 0 := by
  unfold zeroUp
  obtain ⟨_, h2, h3⟩ := forUp_spec n 0 (fun pos => decide (pos < n)) (fun p => by simp)
    (fun _ _ => 0) (fun _ _ _ _ => rfl) n pos a hl (by omega)
  refine ⟨h2, fun i => ?_⟩
  rw [h3 i]
  by_cases c1 : pos ≤ i
  · by_cases c2 : i < n
    · simp [c1, c2]
    · have : ¬ (pos ≤ i ∧ i + 0 < n) := by omega
      rw [if_neg this, if_pos c1, getD_beyond a i (by omega)]
  · have : ¬ (pos ≤ i ∧ i + 0 < n) := by omega
    rw [if_neg this, if_neg c1]

theorem wwShLo_words {w : Nat} (hw : 0 < w) (a : List Nat) (shift : Nat)
    (hs : shift < w * a.length) :
    (wwShLo w a shift).length = a.length ∧
    ∀ i, (wwShLo w a shift).getD i 0 =
      if i < a.length then shLoWord w a (shift / w) (shift % w) i else 0 := by
  have hwsn : shift / w < a.length := pos_word_lt hs
  unfold wwShLo
  simp only [hs, if_true]
  generalize hn : a.length = n at *
  generalize hws : shift / w = ws at *
  generalize hsh : shift % w = sh
  have hshw : sh < w := by rw [← hsh]; exact Nat.mod_lt _ hw
  by_cases h0 : sh = 0
  · -- whole words
    subst h0
    simp only [ne_eq, not_true_eq_false, if_false]
    unfold shLoCopy
    obtain ⟨h1, h2, h3⟩ := forUp_spec n ws (fun pos => decide (pos + ws < n)) (fun p => rfl)
      (fun a p => a.getD (p + ws) 0)
      (fun a b p hab => hab (p + ws) (by omega)) n 0 a hn (by omega)
    obtain ⟨z1, z2⟩ := zeroUp_spec n _ _ h2
    refine ⟨z1, fun i => ?_⟩
    rw [z2 i, h1, h3 i]
    unfold shLoWord
    simp only [Nat.sub_zero, wshl_full, Nat.or_zero, wshr, Nat.pow_zero, Nat.div_one]
    by_cases c1 : i < n
    · by_cases c2 : i + ws < n
      · have c3 : ¬ (max 0 (n - ws) ≤ i) := by omega
        simp [c1, c2, c3]
      · have c3 : (max 0 (n - ws) ≤ i) := by omega
        rw [if_pos c3, if_pos c1, getD_beyond a (i + ws) (by omega)]
    · have c3 : (max 0 (n - ws) ≤ i) := by omega
      rw [if_pos c3, if_neg c1]
  · simp only [ne_eq, h0, not_false_eq_true, if_true]
    unfold shLoLoop
    obtain ⟨h1, h2, h3⟩ := forUp_spec n (ws + 1) (fun pos => decide (pos + ws + 1 < n))
      (fun p => by simp [Nat.add_assoc])
      (fun a p => wshr (a.getD (p + ws) 0) sh ||| wshl w (a.getD (p + ws + 1) 0) (w - sh))
      (fun a b p hab => by
        simp only [hab (p + ws) (by omega), hab (p + ws + 1) (by omega)]) n 0 a hn (by omega)
    generalize hr : forUp (fun pos => decide (pos + ws + 1 < n))
      (fun pos a => a.set pos
        (wshr (a.getD (pos + ws) 0) sh ||| wshl w (a.getD (pos + ws + 1) 0) (w - sh))) n 0 a = r at *
    obtain ⟨p1, a1⟩ := r
    simp only at h1 h2 h3 ⊢
    have hp1 : p1 = n - (ws + 1) := by omega
    have hl2 : (a1.set p1 (wshr (a1.getD (p1 + ws) 0) sh)).length = n := by
      rw [List.length_set]; exact h2
    obtain ⟨z1, z2⟩ := zeroUp_spec n (p1 + 1) _ hl2
    refine ⟨z1, fun i => ?_⟩
    rw [z2 i, getD_set, h3 i, h3 (p1 + ws)]
    unfold shLoWord
    by_cases c1 : i < n
    · rw [if_pos c1]
      by_cases c2 : i + (ws + 1) < n
      · have c3 : ¬ (p1 + 1 ≤ i) := by omega
        have c4 : ¬ (i = p1 ∧ p1 < a1.length) := by omega
        have c5 : 0 ≤ i ∧ i + (ws + 1) < n := by omega
        rw [if_neg c3, if_neg c4, if_pos c5]
      · by_cases c6 : i = p1
        · have c3 : ¬ (p1 + 1 ≤ i) := by omega
          have c4 : (i = p1 ∧ p1 < a1.length) := by omega
          have c5 : ¬ (0 ≤ p1 + ws ∧ p1 + ws + (ws + 1) < n) := by omega
          rw [if_neg c3, if_pos c4, if_neg c5, c6, getD_beyond a (p1 + ws + 1) (by omega),
            wshl_zero, Nat.or_zero]
        · have c3 : (p1 + 1 ≤ i) := by omega
          rw [if_pos c3, getD_beyond a (i + ws) (by omega), getD_beyond a (i + ws + 1) (by omega),
            wshl_zero]
          simp [wshr]
    · have c3 : (p1 + 1 ≤ i) := by omega
      rw [if_pos c3, if_neg c1]


theorem val_lt {w : Nat} : ∀ (a : List Nat), Wf w a → val w a < 2 ^ (w * a.length) := by
  intro a
  induction a with
  | nil => intro _; simp [val]
  | cons x xs ih =>
    intro h
    obtain ⟨hx, hxs⟩ := Wf_cons.mp h
    have := ih hxs
    rw [val_cons, List.length_cons, Nat.mul_add, Nat.mul_one, Nat.pow_add]
    have h2 : 2 ^ w * (val w xs + 1) ≤ 2 ^ w * 2 ^ (w * xs.length) := Nat.mul_le_mul_left _ this
    rw [Nat.mul_add, Nat.mul_one] at h2
    rw [Nat.mul_comm (2 ^ (w * xs.length))]
    omega

theorem val_replicate_zero (w n : Nat) : val w (List.replicate n 0) = 0 := by
  induction n with
  | zero => rfl
  | succ n ih => simp [List.replicate_succ, val, ih]

theorem Wf_replicate_zero (w n : Nat) : Wf w (List.replicate n 0) := by
  intro x hx
  rw [(List.mem_replicate.mp hx).2]
  exact Nat.two_pow_pos w

theorem Wf_of_getD {w : Nat} {R : List Nat} (h : ∀ i, R.getD i 0 < 2 ^ w) : Wf w R := by
  intro x hx
  obtain ⟨i, hi, rfl⟩ := List.mem_iff_getElem.mp hx
  have := h i
  rw [List.getD_eq_getElem?_getD, List.getElem?_eq_getElem hi] at this
  exact this

theorem wshr_lt {w x : Nat} (s : Nat) (h : x < 2 ^ w) : wshr x s < 2 ^ w :=
  Nat.lt_of_le_of_lt (Nat.div_le_self _ _) h

theorem wshl_lt (w x s : Nat) : wshl w x s < 2 ^ w := Nat.mod_lt _ (Nat.two_pow_pos w)

theorem wwShLo_val {w : Nat} (hw : 0 < w) (a : List Nat) (shift : Nat) (h : Wf w a) :
    (wwShLo w a shift).length = a.length ∧ Wf w (wwShLo w a shift) ∧
    val w (wwShLo w a shift) = val w a / 2 ^ shift := by
  by_cases hs : shift < w * a.length
  · obtain ⟨h1, h2⟩ := wwShLo_words hw a shift hs
    have hWf : Wf w (wwShLo w a shift) := by
      apply Wf_of_getD
      intro i
      rw [h2 i]
      split
      · exact Nat.or_lt_two_pow (wshr_lt _ (getD_lt h _)) (wshl_lt _ _ _)
      · exact Nat.two_pow_pos w
    refine ⟨h1, hWf, ?_⟩
    apply Nat.eq_of_testBit_eq
    intro k
    rw [testBit_val hw _ hWf, h2, tb_div, testBit_val hw a h]
    have hj : k % w < w := Nat.mod_lt _ hw
    have hk : k = w * (k / w) + k % w := (Nat.div_add_mod k w).symm
    have hsh : shift % w < w := Nat.mod_lt _ hw
    have hss : shift = w * (shift / w) + shift % w := (Nat.div_add_mod shift w).symm
    generalize k / w = i at hk
    generalize k % w = j at hk hj
    generalize shift / w = ws at hss
    generalize shift % w = sh at hss hsh
    have hidx : shift + k = w * (i + ws) + (sh + j) := by
      rw [hss, hk, Nat.mul_add]; omega
    rw [hidx]
    by_cases c0 : i < a.length
    · rw [if_pos c0]
      unfold shLoWord
      rw [Nat.testBit_or, tb_div, testBit_wshl]
      by_cases c1 : sh + j < w
      · obtain ⟨e1, e2⟩ := idx_lo hw (i + ws) (sh + j) c1
        have c2 : ¬ (w - sh ≤ j) := by omega
        rw [e1, e2]; simp [c2]
      · obtain ⟨e1, e2⟩ := idx_hi hw (i + ws) (sh + j) (by omega) (by omega)
        have c2 : (w - sh ≤ j) := by omega
        have e3 : j - (w - sh) = sh + j - w := by omega
        rw [e1, e2, testBit_high (getD_lt h (i + ws)) (by omega), e3]; simp [c2, hj]
    · rw [if_neg c0, Nat.zero_testBit]
      have : a.length ≤ (w * (i + ws) + (sh + j)) / w := by
        rw [Nat.mul_add_div hw]
        exact Nat.le_trans (by omega : a.length ≤ i + ws) (Nat.le_add_right _ _)
      rw [getD_beyond a _ this, Nat.zero_testBit]
  · have hz : wwShLo w a shift = List.replicate a.length 0 := by
      unfold wwShLo wwSetZero; rw [if_neg hs]
    rw [hz]
    refine ⟨List.length_replicate, Wf_replicate_zero _ _, ?_⟩
    rw [val_replicate_zero]
    have h1 := val_lt a h
    have h2 : 2 ^ (w * a.length) ≤ 2 ^ shift := Nat.pow_le_pow_right (by decide) (by omega)
    exact (Nat.div_eq_of_lt (by omega)).symm


/-! ## NegInv, all widths -/

/-- one Newton step in ℤ/M: if `ret' = ret (w ret + 2)` then `ret' w + 1 = (ret w + 1)^2` -/
theorem negInvStep_cast (M w ret : Nat) :
    (((ret * (((w * ret) % M + 2) % M)) % M : Nat) : ZMod M) * (w : ZMod M) + 1
      = ((ret : ZMod M) * w + 1) ^ 2 := by
  simp only [ZMod.natCast_mod, Nat.cast_mul, Nat.cast_add, Nat.cast_ofNat]
  ring

theorem negInv_start (M w : Nat) (hodd : w % 2 = 1) :
    ∃ t : Nat, ((w : ZMod M) * w + 1) = 2 * (t : ZMod M) := by
  refine ⟨(w * w + 1) / 2, ?_⟩
  have h : w * w + 1 = 2 * ((w * w + 1) / 2) := by
    have : (w * w + 1) % 2 = 0 := by
      rw [Nat.add_mod, Nat.mul_mod, hodd]
    omega
  have := congrArg (Nat.cast : Nat → ZMod M) h
  push_cast at this
  exact this

theorem u32NegInv_gen (x : Nat) (hodd : x % 2 = 1) : (u32NegInv x * x + 1) % 2 ^ 32 = 0 := by
  apply Nat.mod_eq_zero_of_dvd
  rw [← ZMod.natCast_eq_zero_iff]
  obtain ⟨t, ht⟩ := negInv_start (2 ^ 32) x hodd
  have h2 : ((2 : ZMod (2 ^ 32)) ^ 32) = 0 := by
    have := ZMod.natCast_self (2 ^ 32)
    push_cast at this
    exact this
  unfold u32NegInv u32NegInvStep
  push_cast
  have e : (0x100000000 : Nat) = 2 ^ 32 := by norm_num
  simp only [e]
  rw [negInvStep_cast, negInvStep_cast, negInvStep_cast, negInvStep_cast, negInvStep_cast, ht]
  calc ((((((2 * (t : ZMod (2 ^ 32))) ^ 2) ^ 2) ^ 2) ^ 2) ^ 2) = 2 ^ 32 * (t : ZMod (2 ^ 32)) ^ 32 := by ring
    _ = 0 := by rw [h2, zero_mul]

theorem u64NegInv_gen (x : Nat) (hodd : x % 2 = 1) : (u64NegInv x * x + 1) % 2 ^ 64 = 0 := by
  apply Nat.mod_eq_zero_of_dvd
  rw [← ZMod.natCast_eq_zero_iff]
  obtain ⟨t, ht⟩ := negInv_start (2 ^ 64) x hodd
  have h2 : ((2 : ZMod (2 ^ 64)) ^ 64) = 0 := by
    have := ZMod.natCast_self (2 ^ 64)
    push_cast at this
    exact this
  unfold u64NegInv u64NegInvStep
  push_cast
  have e : (0x10000000000000000 : Nat) = 2 ^ 64 := by norm_num
  simp only [e]
  rw [negInvStep_cast, negInvStep_cast, negInvStep_cast, negInvStep_cast, negInvStep_cast,
    negInvStep_cast, ht]
  calc (((((((2 * (t : ZMod (2 ^ 64))) ^ 2) ^ 2) ^ 2) ^ 2) ^ 2) ^ 2)
      = 2 ^ 64 * (t : ZMod (2 ^ 64)) ^ 64 := by ring
    _ = 0 := by rw [h2, zero_mul]

/-- the u16 step: evaluated in `int`, reduced only by the assignment -/
theorem negInvStep16_cast (M w ret : Nat) :
    (((ret * (w * ret + 2)) % M : Nat) : ZMod M) * (w : ZMod M) + 1
      = ((ret : ZMod M) * w + 1) ^ 2 := by
  simp only [ZMod.natCast_mod, Nat.cast_mul, Nat.cast_add, Nat.cast_ofNat]
  ring

theorem u16NegInv_gen (x : Nat) (hodd : x % 2 = 1) : (u16NegInv x * x + 1) % 2 ^ 16 = 0 := by
  apply Nat.mod_eq_zero_of_dvd
  rw [← ZMod.natCast_eq_zero_iff]
  obtain ⟨t, ht⟩ := negInv_start (2 ^ 16) x hodd
  have h2 : ((2 : ZMod (2 ^ 16)) ^ 16) = 0 := by
    have := ZMod.natCast_self (2 ^ 16)
    push_cast at this
    exact this
  unfold u16NegInv u16NegInvStep
  push_cast
  have e : (0x10000 : Nat) = 2 ^ 16 := by norm_num
  simp only [e]
  rw [negInvStep16_cast, negInvStep16_cast, negInvStep16_cast, negInvStep16_cast, ht]
  calc (((((2 * (t : ZMod (2 ^ 16))) ^ 2) ^ 2) ^ 2) ^ 2) = 2 ^ 16 * (t : ZMod (2 ^ 16)) ^ 16 := by ring
    _ = 0 := by rw [h2, zero_mul]


/-! ## CLZ / CTZ -/

theorem u32CLZ_fast_gen (x : Nat) (hx : x < 2 ^ 32) : ClzSpec 32 x (u32CLZ_fast x) := by
  unfold u32CLZ_fast ClzSpec
  simp only [Nat.shiftRight_eq_div_pow]
  norm_num at hx ⊢
  split_ifs <;> simp only [] at * <;> refine ⟨by first | omega | (intro; trivial), fun h0 => ⟨by omega, ?_⟩⟩ <;> norm_num <;> omega


/-- an in-place descending loop `for (; pos + 1 > c; pos--) a[pos] = g(a, pos)` (q = pos + 1) whose
    body reads the array only at indices ≤ pos computes `g` of the ORIGINAL array -/
theorem forDown_spec (n c : Nat) (cond : Nat → Bool) (hc : ∀ q, cond q = decide (c < q))
    (g : List Nat → Nat → Nat)
    (hg : ∀ (a b : List Nat) (p : Nat), (∀ i, i ≤ p → a.getD i 0 = b.getD i 0) → g a p = g b p) :
    ∀ (fuel q : Nat) (a : List Nat), a.length = n → q ≤ n → q ≤ c + fuel →
      (forDown cond (fun pos a => a.set pos (g a pos)) fuel q a).1 = min q c ∧
      (forDown cond (fun pos a => a.set pos (g a pos)) fuel q a).2.length = n ∧
      ∀ i, (forDown cond (fun pos a => a.set pos (g a pos)) fuel q a).2.getD i 0 =
        if c ≤ i ∧ i < q then g a i else a.getD i 0 := by
  intro fuel
  induction fuel with
  | zero =>
    intro q a hl hq hf
    simp only [forDown]
    refine ⟨by omega, hl, fun i => ?_⟩
    have : ¬ (c ≤ i ∧ i < q) := by omega
    rw [if_neg this]
  | succ fuel ih =>
    intro q a hl hq hf
    simp only [forDown, hc]
    by_cases hcond : c < q
    · simp only [hcond, decide_true, if_true]
      have hl1 : (a.set (q - 1) (g a (q - 1))).length = n := by rw [List.length_set]; exact hl
      obtain ⟨h1, h2, h3⟩ := ih (q - 1) (a.set (q - 1) (g a (q - 1))) hl1 (by omega) (by omega)
      refine ⟨by rw [h1]; omega, h2, fun i => ?_⟩
      rw [h3 i]
      by_cases c1 : c ≤ i ∧ i < q - 1
      · have c2 : c ≤ i ∧ i < q := by omega
        rw [if_pos c1, if_pos c2]
        apply hg
        intro j hj
        rw [getD_set]
        have : ¬ (j = q - 1 ∧ q - 1 < a.length) := by omega
        rw [if_neg this]
      · rw [if_neg c1, getD_set]
        by_cases c2 : i = q - 1
        · have c3 : c ≤ i ∧ i < q := by omega
          have c4 : i = q - 1 ∧ q - 1 < a.length := by omega
          rw [if_pos c4, if_pos c3, c2]
        · have c3 : ¬ (c ≤ i ∧ i < q) := by omega
          have c4 : ¬ (i = q - 1 ∧ q - 1 < a.length) := by omega
          rw [if_neg c4, if_neg c3]
    · simp only [hcond, decide_false, Bool.false_eq_true, if_false]
      refine ⟨by omega, hl, fun i => ?_⟩
      have : ¬ (c ≤ i ∧ i < q) := by omega
      rw [if_neg this]

theorem zeroDown_spec (n : Nat) (q : Nat) (a : List Nat) (hl : a.length = n) (hq : q ≤ n) :
    (zeroDown n q a).length = n ∧
    ∀ i, (zeroDown n q a).getD i 0 = if i < q then 0 else a.getD i 0 := by
  unfold zeroDown
  obtain ⟨_, h2, h3⟩ := forDown_spec n 0 (fun q => q != 0) (fun p => by
      by_cases h : p = 0 <;> simp [h, Nat.pos_iff_ne_zero])
    (fun _ _ => 0) (fun _ _ _ _ => rfl) n q a hl hq (by omega)
  refine ⟨h2, fun i => ?_⟩
  rw [h3 i]
  simp

/-- the word `i` of the number shifted towards the high bits -/
def shHiWord (w : Nat) (a : List Nat) (ws sh i : Nat) : Nat :=
  if i < ws then 0
  else wshl w (a.getD (i - ws) 0) sh ||| (if i = ws then 0 else wshr (a.getD (i - ws - 1) 0) (w - sh))

theorem wwShHi_words {w : Nat} (hw : 0 < w) (a : List Nat) (shift : Nat) (h : Wf w a)
    (hs : shift < w * a.length) :
    (wwShHi w a shift).length = a.length ∧
    ∀ i, (wwShHi w a shift).getD i 0 =
      if i < a.length then shHiWord w a (shift / w) (shift % w) i else 0 := by
  have hwsn : shift / w < a.length := pos_word_lt hs
  unfold wwShHi
  simp only [hs, if_true]
  generalize hn : a.length = n at *
  generalize hws : shift / w = ws at *
  generalize hsh : shift % w = sh
  have hshw : sh < w := by rw [← hsh]; exact Nat.mod_lt _ hw
  by_cases h0 : sh = 0
  · subst h0
    simp only [ne_eq, not_true_eq_false, if_false]
    unfold shHiCopy
    obtain ⟨h1, h2, h3⟩ := forDown_spec n ws (fun q => q != 0 && decide (q > ws)) (fun p => by
        by_cases hp : ws < p
        · have : p ≠ 0 := by omega
          simp [hp, this]
        · simp [hp])
      (fun a p => a.getD (p - ws) 0)
      (fun a b p hab => hab (p - ws) (by omega)) n n a hn (by omega) (by omega)
    obtain ⟨z1, z2⟩ := zeroDown_spec n (forDown (fun q => q != 0 && decide (q > ws))
      (fun pos a => a.set pos (a.getD (pos - ws) 0)) n n a).1 _ h2 (by rw [h1]; omega)
    refine ⟨z1, fun i => ?_⟩
    rw [z2 i, h1, h3 i]
    unfold shHiWord
    by_cases c1 : i < n
    · rw [if_pos c1]
      by_cases c2 : i < ws
      · have c3 : i < min n ws := by omega
        rw [if_pos c3, if_pos c2]
      · have c3 : ¬ i < min n ws := by omega
        have c4 : ws ≤ i ∧ i < n := by omega
        have e1 : wshl w (a.getD (i - ws) 0) 0 = a.getD (i - ws) 0 := by
          simp only [wshl, Nat.pow_zero, Nat.mul_one]
          exact Nat.mod_eq_of_lt (getD_lt h _)
        have e2 : wshr (a.getD (i - ws - 1) 0) (w - 0) = 0 := by
          simp only [wshr, Nat.sub_zero]
          exact Nat.div_eq_of_lt (getD_lt h _)
        rw [if_neg c3, if_pos c4, if_neg c2, e1, e2]
        split <;> simp
    · have c3 : ¬ i < min n ws := by omega
      have c4 : ¬ (ws ≤ i ∧ i < n) := by omega
      rw [if_neg c3, if_neg c4, if_neg c1, getD_beyond a i (by omega)]
  · simp only [ne_eq, h0, not_false_eq_true, if_true]
    unfold shHiLoop
    obtain ⟨h1, h2, h3⟩ := forDown_spec n (ws + 1) (fun q => decide (q > ws + 1))
      (fun p => rfl)
      (fun a p => wshl w (a.getD (p - ws) 0) sh ||| wshr (a.getD (p - ws - 1) 0) (w - sh))
      (fun a b p hab => by
        simp only [hab (p - ws) (by omega), hab (p - ws - 1) (by omega)]) n n a hn (by omega)
        (by omega)
    generalize hr : forDown (fun q => decide (q > ws + 1))
      (fun pos a => a.set pos
        (wshl w (a.getD (pos - ws) 0) sh ||| wshr (a.getD (pos - ws - 1) 0) (w - sh))) n n a = r at *
    obtain ⟨q1, a1⟩ := r
    simp only at h1 h2 h3 ⊢
    have hq1 : q1 = ws + 1 := by omega
    have hl2 : (a1.set (q1 - 1) (wshl w (a1.getD (q1 - 1 - ws) 0) sh)).length = n := by
      rw [List.length_set]; exact h2
    obtain ⟨z1, z2⟩ := zeroDown_spec n (q1 - 1) _ hl2 (by omega)
    refine ⟨z1, fun i => ?_⟩
    rw [z2 i, getD_set, h3 i, h3 (q1 - 1 - ws)]
    unfold shHiWord
    subst hq1
    simp only [Nat.add_sub_cancel, Nat.sub_self]
    by_cases c1 : i < n
    · rw [if_pos c1]
      by_cases c2 : i < ws
      · rw [if_pos c2, if_pos c2]
      · rw [if_neg c2, if_neg c2]
        by_cases c3 : i = ws
        · have c4 : i = ws ∧ ws < a1.length := by omega
          have c5 : ¬ (ws + 1 ≤ 0 ∧ 0 < n) := by omega
          rw [if_pos c4, if_neg c5, if_pos c3, c3, Nat.sub_self, Nat.or_zero]
        · have c4 : ¬ (i = ws ∧ ws < a1.length) := by omega
          have c5 : (ws + 1 ≤ i ∧ i < n) := by omega
          rw [if_neg c4, if_pos c5, if_neg c3]
    · have c2 : ¬ i < ws := by omega
      have c4 : ¬ (i = ws ∧ ws < a1.length) := by omega
      have c5 : ¬ (ws + 1 ≤ i ∧ i < n) := by omega
      rw [if_neg c2, if_neg c4, if_neg c5, if_neg c1, getD_beyond a i (by omega)]


theorem wwShHi_val {w : Nat} (hw : 0 < w) (a : List Nat) (shift : Nat) (h : Wf w a) :
    (wwShHi w a shift).length = a.length ∧ Wf w (wwShHi w a shift) ∧
    val w (wwShHi w a shift) = (val w a * 2 ^ shift) % 2 ^ (w * a.length) := by
  by_cases hs : shift < w * a.length
  · obtain ⟨h1, h2⟩ := wwShHi_words hw a shift h hs
    have hWf : Wf w (wwShHi w a shift) := by
      apply Wf_of_getD
      intro i
      rw [h2 i]
      unfold shHiWord
      split
      · split
        · exact Nat.two_pow_pos w
        · refine Nat.or_lt_two_pow (wshl_lt _ _ _) ?_
          split
          · exact Nat.two_pow_pos w
          · exact wshr_lt _ (getD_lt h _)
      · exact Nat.two_pow_pos w
    refine ⟨h1, hWf, ?_⟩
    apply Nat.eq_of_testBit_eq
    intro k
    rw [testBit_val hw _ hWf, h2, Nat.testBit_mod_two_pow, Nat.testBit_mul_two_pow]
    have hj : k % w < w := Nat.mod_lt _ hw
    have hk : k = w * (k / w) + k % w := (Nat.div_add_mod k w).symm
    have hsh : shift % w < w := Nat.mod_lt _ hw
    have hss : shift = w * (shift / w) + shift % w := (Nat.div_add_mod shift w).symm
    generalize k / w = i at hk
    generalize k % w = j at hk hj
    generalize shift / w = ws at hss
    generalize shift % w = sh at hss hsh
    by_cases c0 : i < a.length
    · have hkn : k < w * a.length := by
        have : w * (i + 1) ≤ w * a.length := Nat.mul_le_mul_left w c0
        rw [Nat.mul_add] at this; omega
      rw [if_pos c0]
      simp only [hkn, decide_true, Bool.true_and]
      unfold shHiWord
      by_cases c1 : i < ws
      · have : ¬ shift ≤ k := by
          have : w * (i + 1) ≤ w * ws := Nat.mul_le_mul_left w c1
          rw [Nat.mul_add] at this; omega
        rw [if_pos c1]; simp [this]
      · rw [if_neg c1, Nat.testBit_or, testBit_wshl]
        have hmul : w * i = w * (i - ws) + w * ws := by
          rw [← Nat.mul_add]; congr 1; omega
        by_cases c2 : sh ≤ j
        · have c3 : shift ≤ k := by omega
          have hidx : k - shift = w * (i - ws) + (j - sh) := by omega
          obtain ⟨e1, e2⟩ := idx_lo hw (i - ws) (j - sh) (by omega)
          have e4 : (if i = ws then 0 else wshr (a.getD (i - ws - 1) 0) (w - sh)).testBit j
              = false := by
            split
            · exact Nat.zero_testBit _
            · rw [tb_div]; exact testBit_high (getD_lt h _) (by omega)
          rw [testBit_val hw a h, hidx, e1, e2, e4]
          simp [c2, c3, hj]
        · have e5 : (decide (j < w) && (decide (sh ≤ j) && (a.getD (i - ws) 0).testBit (j - sh)))
              = false := by simp [c2]
          rw [e5, Bool.false_or]
          by_cases c4 : i = ws
          · have c3 : ¬ shift ≤ k := by subst c4; omega
            rw [if_pos c4]; simp [c3]
          · have c3 : shift ≤ k := by
              have : w * (ws + 1) ≤ w * i := Nat.mul_le_mul_left w (by omega)
              rw [Nat.mul_add] at this; omega
            have hmul2 : w * i = w * (i - ws - 1) + w * ws + w := by
              have : i = (i - ws - 1) + ws + 1 := by omega
              conv_lhs => rw [this]
              rw [Nat.mul_add, Nat.mul_add, Nat.mul_one]
            have hidx : k - shift = w * (i - ws - 1) + (w - sh + j) := by omega
            obtain ⟨e1, e2⟩ := idx_lo hw (i - ws - 1) (w - sh + j) (by omega)
            rw [if_neg c4, tb_div, testBit_val hw a h, hidx, e1, e2]
            simp [c3]
    · have hkn : ¬ k < w * a.length := by
        have : w * a.length ≤ w * i := Nat.mul_le_mul_left w (Nat.le_of_not_lt c0)
        omega
      rw [if_neg c0]; simp [hkn]
  · have hz : wwShHi w a shift = List.replicate a.length 0 := by
      unfold wwShHi wwSetZero; rw [if_neg hs]
    rw [hz]
    refine ⟨List.length_replicate, Wf_replicate_zero _ _, ?_⟩
    rw [val_replicate_zero]
    have h2 : 2 ^ shift = 2 ^ (w * a.length) * 2 ^ (shift - w * a.length) := by
      rw [← Nat.pow_add]; congr 1; omega
    rw [h2, ← Nat.mul_assoc, Nat.mul_comm (val w a), Nat.mul_assoc, Nat.mul_mod_right]



/-! ## trimming -/

theorem trimLoLoop_spec : ∀ (i : Nat) (a : List Nat),
    (trimLoLoop i a).length = a.length ∧
    ∀ k, (trimLoLoop i a).getD k 0 = if k < i then 0 else a.getD k 0 := by
  intro i
  induction i with
  | zero => intro a; exact ⟨rfl, fun k => by simp [trimLoLoop]⟩
  | succ i ih =>
    intro a
    simp only [trimLoLoop]
    obtain ⟨h1, h2⟩ := ih (a.set i 0)
    refine ⟨by rw [h1, List.length_set], fun k => ?_⟩
    rw [h2 k, getD_set]
    by_cases c1 : k < i
    · have : k < i + 1 := by omega
      rw [if_pos c1, if_pos this]
    · rw [if_neg c1]
      by_cases c2 : k = i
      · have c3 : k < i + 1 := by omega
        rw [if_pos c3]
        by_cases c4 : i < a.length
        · rw [if_pos ⟨c2, c4⟩]
        · have : ¬ (k = i ∧ i < a.length) := fun hh => c4 hh.2
          rw [if_neg this, getD_beyond a k (by omega)]
      · have c3 : ¬ k < i + 1 := by omega
        have : ¬ (k = i ∧ i < a.length) := fun hh => c2 hh.1
        rw [if_neg c3, if_neg this]

theorem bits_to_val {w : Nat} (hw : 0 < w) (R : List Nat) (X : Nat)
    (hR : ∀ i, R.getD i 0 < 2 ^ w)
    (hb : ∀ k, (R.getD (k / w) 0).testBit (k % w) = X.testBit k) :
    Wf w R ∧ val w R = X := by
  have hWf := Wf_of_getD hR
  refine ⟨hWf, Nat.eq_of_testBit_eq fun k => ?_⟩
  rw [testBit_val hw R hWf, hb]

theorem wwTrimHi_val {w : Nat} (hw : 0 < w) (a : List Nat) (pos : Nat) (h : Wf w a) :
    (wwTrimHi w a pos).length = a.length ∧ Wf w (wwTrimHi w a pos) ∧
    val w (wwTrimHi w a pos) = val w a % 2 ^ pos := by
  unfold wwTrimHi
  simp only
  by_cases hi : pos / w < a.length
  · simp only [hi, if_true]
    have hp : pos % w < w := Nat.mod_lt _ hw
    have hpos : pos = w * (pos / w) + pos % w := (Nat.div_add_mod pos w).symm
    generalize pos / w = n at *
    generalize pos % w = p at *
    -- the new word a[n]
    have hword : ∀ L : List Nat, L = (if w - p = w then a.set n 0
        else a.set n (wshr (wshl w (a.getD n 0) (w - p)) (w - p))) →
        L.length = a.length ∧ ∀ i, L.getD i 0 = if i = n then a.getD n 0 % 2 ^ p else a.getD i 0 := by
      intro L hL
      have e : wshr (wshl w (a.getD n 0) (w - p)) (w - p) = a.getD n 0 % 2 ^ p := by
        apply Nat.eq_of_testBit_eq; intro j
        rw [tb_div, testBit_wshl, Nat.testBit_mod_two_pow]
        by_cases c : j < p
        · have c1 : w - p + j < w := by omega
          have c2 : w - p ≤ w - p + j := by omega
          have c3 : w - p + j - (w - p) = j := by omega
          simp [c, c1, c2, c3]
        · have c1 : ¬ w - p + j < w := by omega
          simp [c, c1]
      by_cases c0 : w - p = w
      · have hp0 : p = 0 := by omega
        rw [if_pos c0] at hL
        subst hL
        refine ⟨List.length_set, fun i => ?_⟩
        rw [getD_set, hp0, Nat.pow_zero, Nat.mod_one]
        by_cases c : i = n
        · simp [c, hi]
        · simp [c]
      · rw [if_neg c0, e] at hL
        subst hL
        refine ⟨List.length_set, fun i => ?_⟩
        rw [getD_set]
        by_cases c : i = n
        · simp [c, hi]
        · simp [c]
    obtain ⟨l1, g1⟩ := hword _ rfl
    obtain ⟨z1, z2⟩ := zeroUp_spec a.length (n + 1) _ l1
    refine ⟨z1, ?_⟩
    apply bits_to_val hw
    · intro i
      rw [z2 i, g1 i]
      split
      · exact Nat.two_pow_pos w
      · split
        · exact Nat.lt_of_le_of_lt (Nat.mod_le _ _) (getD_lt h _)
        · exact getD_lt h _
    · intro k
      rw [z2, g1, Nat.testBit_mod_two_pow, testBit_val hw a h]
      have hj : k % w < w := Nat.mod_lt _ hw
      have hk : k = w * (k / w) + k % w := (Nat.div_add_mod k w).symm
      generalize k / w = i at *
      generalize k % w = j at *
      by_cases c1 : n + 1 ≤ i
      · have : ¬ k < pos := by
          have : w * (n + 1) ≤ w * i := Nat.mul_le_mul_left w c1
          rw [Nat.mul_add] at this; omega
        rw [if_pos c1]; simp [this]
      · rw [if_neg c1]
        by_cases c2 : i = n
        · subst c2
          have e : (k < pos) ↔ (j < p) := by omega
          rw [if_pos rfl, Nat.testBit_mod_two_pow]
          simp only [e]
        · have : k < pos := by
            have : w * (i + 1) ≤ w * n := Nat.mul_le_mul_left w (by omega)
            rw [Nat.mul_add] at this; omega
          rw [if_neg c2]; simp [this]
  · simp only [hi, if_false]
    refine ⟨trivial, h, ?_⟩
    have h1 := val_lt a h
    have h2 : 2 ^ (w * a.length) ≤ 2 ^ pos := by
      apply Nat.pow_le_pow_right (by decide)
      have := Nat.mul_le_mul_left w (Nat.le_of_not_lt hi)
      have := Nat.mul_div_le pos w
      omega
    exact (Nat.mod_eq_of_lt (by omega)).symm


theorem wwTrimLo_val {w : Nat} (hw : 0 < w) (a : List Nat) (pos : Nat) (h : Wf w a) :
    (wwTrimLo w a pos).length = a.length ∧ Wf w (wwTrimLo w a pos) ∧
    val w (wwTrimLo w a pos) = val w a / 2 ^ pos * 2 ^ pos := by
  have spec_bits : ∀ k, (val w a / 2 ^ pos * 2 ^ pos).testBit k
      = (decide (pos ≤ k) && (val w a).testBit k) := by
    intro k
    rw [Nat.testBit_mul_two_pow, tb_div]
    by_cases c : pos ≤ k
    · have : pos + (k - pos) = k := by omega
      simp [c, this]
    · simp [c]
  unfold wwTrimLo
  simp only
  have hp : pos % w < w := Nat.mod_lt _ hw
  have hpos : pos = w * (pos / w) + pos % w := (Nat.div_add_mod pos w).symm
  generalize pos / w = n at *
  generalize pos % w = p at *
  by_cases hi : n < a.length
  · simp only [hi, if_true]
    have hword : ∀ L : List Nat, L = (if p ≠ 0 then a.set n (wshl w (wshr (a.getD n 0) p) p) else a) →
        L.length = a.length ∧
        ∀ i, L.getD i 0 = if i = n then wshl w (wshr (a.getD n 0) p) p else a.getD i 0 := by
      intro L hL
      by_cases c0 : p = 0
      · have : ¬ p ≠ 0 := fun hh => hh c0
        rw [if_neg this] at hL
        subst hL
        refine ⟨rfl, fun i => ?_⟩
        by_cases c : i = n
        · subst c
          rw [if_pos rfl, c0]
          simp only [wshl, wshr, Nat.pow_zero, Nat.div_one, Nat.mul_one]
          exact (Nat.mod_eq_of_lt (getD_lt h _)).symm
        · rw [if_neg c]
      · rw [if_pos c0] at hL
        subst hL
        refine ⟨List.length_set, fun i => ?_⟩
        rw [getD_set]
        by_cases c : i = n
        · simp [c, hi]
        · simp [c]
    obtain ⟨l1, g1⟩ := hword _ rfl
    obtain ⟨t1, t2⟩ := trimLoLoop_spec n (if p ≠ 0 then a.set n (wshl w (wshr (a.getD n 0) p) p) else a)
    refine ⟨by rw [t1, l1], ?_⟩
    apply bits_to_val hw
    · intro i
      rw [t2 i, g1 i]
      split
      · exact Nat.two_pow_pos w
      · split
        · exact wshl_lt _ _ _
        · exact getD_lt h _
    · intro k
      rw [t2, g1, spec_bits, testBit_val hw a h]
      have hj : k % w < w := Nat.mod_lt _ hw
      have hk : k = w * (k / w) + k % w := (Nat.div_add_mod k w).symm
      generalize k / w = i at *
      generalize k % w = j at *
      by_cases c1 : i < n
      · have : ¬ pos ≤ k := by
          have : w * (i + 1) ≤ w * n := Nat.mul_le_mul_left w c1
          rw [Nat.mul_add] at this; omega
        rw [if_pos c1]; simp [this]
      · rw [if_neg c1]
        by_cases c2 : i = n
        · subst c2
          rw [if_pos rfl, testBit_wshl, tb_div]
          by_cases c3 : p ≤ j
          · have e : pos ≤ k := by omega
            have e2 : p + (j - p) = j := by omega
            simp [c3, e, e2, hj]
          · have e : ¬ pos ≤ k := by omega
            simp [c3, e]
        · have : pos ≤ k := by
            have : w * (n + 1) ≤ w * i := Nat.mul_le_mul_left w (by omega)
            rw [Nat.mul_add] at this; omega
          rw [if_neg c2]; simp [this]
  · -- the whole array is cleared
    have hz : (if n < a.length then trimLoLoop n (if p ≠ 0 then a.set n (wshl w (wshr (a.getD n 0) p) p) else a)
        else if n > a.length then trimLoLoop a.length a else trimLoLoop n a)
        = trimLoLoop (min n a.length) a := by
      rw [if_neg hi]
      split
      · rw [Nat.min_eq_right (by omega)]
      · rw [Nat.min_eq_left (by omega)]
    rw [hz]
    obtain ⟨t1, t2⟩ := trimLoLoop_spec (min n a.length) a
    refine ⟨t1, ?_⟩
    have hv : val w a / 2 ^ pos * 2 ^ pos = 0 := by
      have h1 := val_lt a h
      have h2 : 2 ^ (w * a.length) ≤ 2 ^ pos := by
        apply Nat.pow_le_pow_right (by decide)
        have := Nat.mul_le_mul_left w (Nat.le_of_not_lt hi)
        omega
      rw [Nat.div_eq_of_lt (by omega), Nat.zero_mul]
    rw [hv]
    apply bits_to_val hw
    · intro i
      rw [t2 i]
      split
      · exact Nat.two_pow_pos w
      · exact getD_lt h _
    · intro k
      rw [t2, Nat.zero_testBit]
      by_cases c : k / w < min n a.length
      · rw [if_pos c, Nat.zero_testBit]
      · rw [if_neg c, getD_beyond a _ (by omega), Nat.zero_testBit]



/-! ## sizes -/

/-- the scan from the top: `m` = index of the last non-zero word + 1 (0 if there is none) -/
theorem wordSizeLoop_spec : ∀ (l : List Nat),
    wwWordSizeLoop l ≤ l.length ∧
    (∀ i, i < l.length - wwWordSizeLoop l → l.getD i 0 = 0) ∧
    (0 < wwWordSizeLoop l → l.getD (l.length - wwWordSizeLoop l) 0 ≠ 0) := by
  intro l
  induction l with
  | nil => simp [wwWordSizeLoop]
  | cons x xs ih =>
    simp only [wwWordSizeLoop]
    by_cases hx : x = 0
    · subst hx
      obtain ⟨h1, h2, h3⟩ := ih
      simp only [beq_self_eq_true, if_true, List.length_cons]
      refine ⟨by omega, fun i hi => ?_, fun hm => ?_⟩
      · cases i with
        | zero => rfl
        | succ i => simpa using h2 i (by omega)
      · have e : xs.length + 1 - wwWordSizeLoop xs = (xs.length - wwWordSizeLoop xs) + 1 := by omega
        rw [e]
        simpa using h3 hm
    · have hb : (x == 0) = false := by simp [hx]
      simp only [hb, Bool.false_eq_true, if_false, List.length_cons, Nat.sub_self]
      refine ⟨Nat.le_refl _, fun i hi => by omega, fun _ => by simpa using hx⟩

theorem getD_reverse (a : List Nat) (i : Nat) (hi : i < a.length) :
    a.reverse.getD i 0 = a.getD (a.length - 1 - i) 0 := by
  rw [List.getD_eq_getElem?_getD, List.getD_eq_getElem?_getD, List.getElem?_reverse hi]

theorem wwWordSize_spec' (a : List Nat) :
    wwWordSize a ≤ a.length ∧
    (∀ i, wwWordSize a ≤ i → a.getD i 0 = 0) ∧
    (0 < wwWordSize a → a.getD (wwWordSize a - 1) 0 ≠ 0) := by
  unfold wwWordSize
  obtain ⟨h1, h2, h3⟩ := wordSizeLoop_spec a.reverse
  rw [List.length_reverse] at h1 h2 h3
  generalize wwWordSizeLoop a.reverse = m at *
  refine ⟨h1, fun i hi => ?_, fun hm => ?_⟩
  · by_cases c : i < a.length
    · have := h2 (a.length - 1 - i) (by omega)
      rw [getD_reverse a _ (by omega)] at this
      have e : a.length - 1 - (a.length - 1 - i) = i := by omega
      rw [e] at this; exact this
    · exact getD_beyond a i (by omega)
  · have := h3 hm
    rw [getD_reverse a _ (by omega)] at this
    have e : a.length - 1 - (a.length - m) = m - 1 := by omega
    rw [e] at this; exact this

/-- `c` = number of leading zeros of the non-zero word `x` -/
def ClzOK (w : Nat) (clz : Nat → Nat) : Prop :=
  ∀ x, 0 < x → x < 2 ^ w → clz x < w ∧ x / 2 ^ (w - 1 - clz x) = 1

theorem wwBitSize_gen {w : Nat} (hw : 0 < w) (clz : Nat → Nat) (hclz : ClzOK w clz)
    (a : List Nat) (h : Wf w a) :
    wwBitSizeWith clz w a ≤ w * a.length ∧
    val w a < 2 ^ wwBitSizeWith clz w a ∧
    (0 < wwBitSizeWith clz w a → 2 ^ (wwBitSizeWith clz w a - 1) ≤ val w a) ∧
    wwHiZeroBitsWith clz w a + wwBitSizeWith clz w a = w * a.length := by
  obtain ⟨h1, h2, h3⟩ := wwWordSize_spec' a
  unfold wwBitSizeWith wwHiZeroBitsWith
  unfold wwWordSize at h1 h2 h3
  simp only
  generalize wwWordSizeLoop a.reverse = m at *
  by_cases hm : m = 0
  · subst hm
    simp only [if_true, Nat.sub_self, Nat.pow_zero]
    have hv : val w a = 0 := by
      apply Nat.eq_of_testBit_eq; intro k
      rw [testBit_val hw a h, h2 _ (Nat.zero_le _), Nat.zero_testBit, Nat.zero_testBit]
    rw [hv, Nat.mul_comm]
    exact ⟨Nat.zero_le _, Nat.one_pos, fun hh => absurd hh (Nat.lt_irrefl 0), by omega⟩
  · have hmp : 0 < m := Nat.pos_of_ne_zero hm
    have htop := h3 hmp
    have hlt := getD_lt h (m - 1)
    obtain ⟨c1, c2⟩ := hclz _ (Nat.pos_of_ne_zero htop) hlt
    generalize clz (a.getD (m - 1) 0) = c at *
    generalize htopv : a.getD (m - 1) 0 = top at *
    simp only [hm, if_false]
    have hmul : a.length * w = (a.length - m) * w + (m - 1) * w + w := by
      have : a.length = (a.length - m) + (m - 1) + 1 := by omega
      conv_lhs => rw [this]
      rw [Nat.add_mul, Nat.add_mul, Nat.one_mul]
    have hB : a.length * w - ((a.length - m) * w + c) = w * (m - 1) + (w - c) := by
      rw [hmul, Nat.mul_comm w (m - 1)]; omega
    rw [hB]
    have hmw : w * (m - 1) + w ≤ w * a.length := by
      have : w * m ≤ w * a.length := Nat.mul_le_mul_left w h1
      have e : w * m = w * (m - 1) + w := by
        have : m = (m - 1) + 1 := by omega
        conv_lhs => rw [this]
        rw [Nat.mul_add, Nat.mul_one]
      omega
    -- top / 2^(w-1-c) = 1 : bit w-1-c is set and no bit above it
    have htb : top.testBit (w - 1 - c) = true := by
      rw [Nat.testBit_eq_decide_div_mod_eq, c2]; rfl
    have hhi : ∀ j, w - c ≤ j → top.testBit j = false := by
      intro j hj
      have : top < 2 ^ (w - c) := by
        have e : 2 ^ (w - c) = 2 ^ (w - 1 - c) * 2 := by
          rw [← Nat.pow_succ]; congr 1; omega
        have := Nat.lt_of_div_lt_div (a := top) (b := 2 ^ (w - 1 - c) * 2) (c := 2 ^ (w - 1 - c)) (by
          rw [c2, Nat.mul_div_cancel_left _ (Nat.two_pow_pos _)]; decide)
        omega
      exact testBit_high this hj
    refine ⟨by omega, ?_, fun _ => ?_, ?_⟩
    · apply Nat.lt_pow_two_of_testBit
      intro k hk
      rw [testBit_val hw a h]
      have hj : k % w < w := Nat.mod_lt _ hw
      have hkk : k = w * (k / w) + k % w := (Nat.div_add_mod k w).symm
      generalize k / w = i at *
      generalize k % w = j at *
      by_cases ci : m ≤ i
      · rw [h2 i ci, Nat.zero_testBit]
      · have : i = m - 1 := by
          by_contra hne
          have : w * (i + 1) ≤ w * (m - 1) := Nat.mul_le_mul_left w (by omega)
          rw [Nat.mul_add] at this; omega
        subst this
        rw [htopv]
        exact hhi j (by omega)
    · apply Nat.ge_two_pow_of_testBit
      rw [testBit_val hw a h]
      have e : w * (m - 1) + (w - c) - 1 = w * (m - 1) + (w - 1 - c) := by omega
      obtain ⟨e1, e2⟩ := idx_lo hw (m - 1) (w - 1 - c) (by omega)
      rw [e, e1, e2, htopv, htb]
    · rw [Nat.mul_comm w a.length, hmul, Nat.mul_comm w (m - 1)]; omega


theorem loZeroLoop_spec : ∀ (a : List Nat),
    wwLoZeroLoop a ≤ a.length ∧ (∀ k, k < wwLoZeroLoop a → a.getD k 0 = 0) ∧
    (wwLoZeroLoop a < a.length → a.getD (wwLoZeroLoop a) 0 ≠ 0) := by
  intro a
  induction a with
  | nil => simp [wwLoZeroLoop]
  | cons x xs ih =>
    simp only [wwLoZeroLoop]
    by_cases hx : x = 0
    · subst hx
      obtain ⟨h1, h2, h3⟩ := ih
      simp only [beq_self_eq_true, if_true, List.length_cons]
      refine ⟨by omega, fun k hk => ?_, fun hm => ?_⟩
      · cases k with
        | zero => rfl
        | succ k => simpa using h2 k (by omega)
      · simpa using h3 (by omega)
    · have hb : (x == 0) = false := by simp [hx]
      simp only [hb, Bool.false_eq_true, if_false, List.length_cons]
      exact ⟨Nat.zero_le _, fun k hk => by omega, fun _ => by simpa using hx⟩

/-- `ctz x` = number of trailing zeros of the non-zero word `x` -/
def CtzOK (w : Nat) (ctz : Nat → Nat) : Prop :=
  ∀ x, 0 < x → x < 2 ^ w → ctz x < w ∧ x % 2 ^ ctz x = 0 ∧ x / 2 ^ ctz x % 2 = 1

theorem wwLoZeroBits_gen {w : Nat} (hw : 0 < w) (ctz : Nat → Nat) (hctz : CtzOK w ctz)
    (a : List Nat) (h : Wf w a) :
    wwLoZeroBitsWith ctz w a ≤ w * a.length ∧
    (∀ k, k < wwLoZeroBitsWith ctz w a → (val w a).testBit k = false) ∧
    (wwLoZeroBitsWith ctz w a < w * a.length →
      (val w a).testBit (wwLoZeroBitsWith ctz w a) = true) := by
  obtain ⟨h1, h2, h3⟩ := loZeroLoop_spec a
  unfold wwLoZeroBitsWith
  simp only
  generalize wwLoZeroLoop a = i at *
  by_cases hi : i = a.length
  · rw [if_pos hi, Nat.mul_comm]
    refine ⟨Nat.le_refl _, fun k hk => ?_, fun hh => absurd hh (Nat.lt_irrefl _)⟩
    rw [testBit_val hw a h]
    by_cases c : k / w < i
    · rw [h2 _ c, Nat.zero_testBit]
    · rw [getD_beyond a _ (by omega), Nat.zero_testBit]
  · rw [if_neg hi]
    have hil : i < a.length := by omega
    have hne := h3 hil
    obtain ⟨c1, c2, c3⟩ := hctz _ (Nat.pos_of_ne_zero hne) (getD_lt h i)
    generalize ctz (a.getD i 0) = c at *
    have hmw : w * i + w ≤ w * a.length := by
      have : w * (i + 1) ≤ w * a.length := Nat.mul_le_mul_left w hil
      rw [Nat.mul_add] at this; omega
    rw [Nat.mul_comm i w]
    refine ⟨by omega, fun k hk => ?_, fun _ => ?_⟩
    · rw [testBit_val hw a h]
      have hj : k % w < w := Nat.mod_lt _ hw
      have hkk : k = w * (k / w) + k % w := (Nat.div_add_mod k w).symm
      generalize k / w = i' at *
      generalize k % w = j at *
      by_cases ci : i' < i
      · rw [h2 i' ci, Nat.zero_testBit]
      · have : i' = i := by
          by_contra hne'
          have : w * (i + 1) ≤ w * i' := Nat.mul_le_mul_left w (by omega)
          rw [Nat.mul_add] at this; omega
        subst this
        have hjc : j < c := by omega
        have : (a.getD i' 0 % 2 ^ c).testBit j = false := by rw [c2]; exact Nat.zero_testBit _
        rw [Nat.testBit_mod_two_pow] at this
        simpa [hjc] using this
    · rw [testBit_val hw a h]
      obtain ⟨e1, e2⟩ := idx_lo hw i c c1
      rw [e1, e2, Nat.testBit_eq_decide_div_mod_eq, c3]; rfl

theorem ClzOK_of_spec {w : Nat} {clz : Nat → Nat} (h : ∀ x, x < 2 ^ w → ClzSpec w x (clz x)) :
    ClzOK w clz := fun x hx hlt => (h x hlt).2 (by omega)
theorem CtzOK_of_spec {w : Nat} {ctz : Nat → Nat} (h : ∀ x, x < 2 ^ w → CtzSpec w x (ctz x)) :
    CtzOK w ctz := fun x hx hlt => (h x hlt).2 (by omega)


/-! ## FAST(uNNCLZ), FAST(uNNCTZ) for all 32- and 64-bit words: the dichotomy, step by step -/

/-- one step of the dichotomy of FAST(uNNCLZ): `if (t = w >> s) l -= s, w = t;` -/
def clzStep (s : Nat) (p : Nat × Nat) : Nat × Nat :=
  if p.2 >>> s ≠ 0 then (p.1 - s, p.2 >>> s) else p
/-- the return statement of FAST(uNNCLZ) -/
def clzFin (p : Nat × Nat) : Nat :=
  if p.2 >>> 1 ≠ 0 then p.1 - 2 else p.1 - (if p.2 ≠ 0 then 1 else 0)

theorem u64CLZ_fast_steps (x : Nat) : u64CLZ_fast x =
    clzFin (clzStep 2 (clzStep 4 (clzStep 8 (clzStep 16 (clzStep 32 (64, x)))))) := by
  rfl

structure ClzInv (N x s2 l w d : Nat) : Prop where
  hw : w = x / 2 ^ d
  hl : l + d = N
  hlt : w < 2 ^ s2
  hs : s2 ≤ l
  hd : d = 0 ∨ w ≠ 0

theorem clz_stage {N x s l w d : Nat} (h : ClzInv N x (2 * s) l w d) :
    ∃ d', ClzInv N x s (clzStep s (l, w)).1 (clzStep s (l, w)).2 d' := by
  unfold clzStep
  simp only [Nat.shiftRight_eq_div_pow]
  by_cases c : w / 2 ^ s ≠ 0
  · rw [if_pos c]
    refine ⟨d + s, ?_, ?_, ?_, ?_, Or.inr c⟩
    · simp only; rw [h.hw, Nat.div_div_eq_div_mul, Nat.pow_add]
    · have := h.hl; have := h.hs; simp only; omega
    · simp only
      apply Nat.div_lt_of_lt_mul
      have := h.hlt
      rwa [Nat.two_mul, Nat.pow_add] at this
    · have := h.hs; simp only; omega
  · rw [if_neg c]
    refine ⟨d, h.hw, h.hl, ?_, by have := h.hs; simp only; omega, h.hd⟩
    simp only
    have : w / 2 ^ s = 0 := by simpa using c
    exact (Nat.div_eq_zero_iff_lt (Nat.two_pow_pos s)).mp this

theorem clz_fin {N x l w d : Nat} (h : ClzInv N x 2 l w d) : ClzSpec N x (clzFin (l, w)) := by
  obtain ⟨hw, hl, hlt, hs, hd⟩ := h
  unfold clzFin ClzSpec
  simp only [Nat.shiftRight_eq_div_pow, Nat.pow_one]
  have hlt' : w < 4 := hlt
  constructor
  · intro hx
    have hw0 : w = 0 := by rw [hw, hx, Nat.zero_div]
    have hd0 : d = 0 := by rcases hd with h1 | h1; exact h1; exact absurd hw0 h1
    subst hw0
    simp; omega
  · intro hx
    have hwne : w ≠ 0 := by
      rcases hd with h1 | h1
      · subst h1; rw [hw]; simpa using hx
      · exact h1
    by_cases c : w / 2 ≠ 0
    · rw [if_pos c]
      refine ⟨by omega, ?_⟩
      have e : N - 1 - (l - 2) = d + 1 := by omega
      rw [e, Nat.pow_succ, ← Nat.div_div_eq_div_mul, ← hw]; omega
    · rw [if_neg c, if_pos hwne]
      refine ⟨by omega, ?_⟩
      have e : N - 1 - (l - 1) = d := by omega
      rw [e, ← hw]; omega

theorem u64CLZ_fast_gen (x : Nat) (hx : x < 2 ^ 64) : ClzSpec 64 x (u64CLZ_fast x) := by
  rw [u64CLZ_fast_steps]
  have h0 : ClzInv 64 x (2 * 32) 64 x 0 := ⟨by simp, rfl, hx, by decide, Or.inl rfl⟩
  obtain ⟨d1, h1⟩ := clz_stage h0
  obtain ⟨d2, h2⟩ := clz_stage (s := 16) h1
  obtain ⟨d3, h3⟩ := clz_stage (s := 8) h2
  obtain ⟨d4, h4⟩ := clz_stage (s := 4) h3
  obtain ⟨d5, h5⟩ := clz_stage (s := 2) h4
  exact clz_fin h5


/-- one step of the dichotomy of FAST(uNNCTZ): `if (t = w << s) l -= s, w = t;` in NN-bit words -/
def ctzStep (M s : Nat) (p : Nat × Nat) : Nat × Nat :=
  if (p.2 <<< s) % M ≠ 0 then (p.1 - s, (p.2 <<< s) % M) else p
/-- the return statement of FAST(uNNCTZ) -/
def ctzFin (M : Nat) (p : Nat × Nat) : Nat :=
  if (p.2 <<< 1) % M ≠ 0 then p.1 - 2 else p.1 - (if p.2 ≠ 0 then 1 else 0)

/-- the shape of FAST(u64CTZ) / FAST(u32CTZ) over an abstract "shift left in the word" `f s w` -/
def ctzGen64 (f : Nat → Nat → Nat) (w : Nat) : Nat :=
  let l := 64
  let t := f 32 w
  let (l, w) := if t ≠ 0 then (l - 32, t) else (l, w)
  let t := f 16 w
  let (l, w) := if t ≠ 0 then (l - 16, t) else (l, w)
  let t := f 8 w
  let (l, w) := if t ≠ 0 then (l - 8, t) else (l, w)
  let t := f 4 w
  let (l, w) := if t ≠ 0 then (l - 4, t) else (l, w)
  let t := f 2 w
  let (l, w) := if t ≠ 0 then (l - 2, t) else (l, w)
  if f 1 w ≠ 0 then l - 2 else l - (if w ≠ 0 then 1 else 0)
def ctzGen32 (f : Nat → Nat → Nat) (w : Nat) : Nat :=
  let l := 32
  let t := f 16 w
  let (l, w) := if t ≠ 0 then (l - 16, t) else (l, w)
  let t := f 8 w
  let (l, w) := if t ≠ 0 then (l - 8, t) else (l, w)
  let t := f 4 w
  let (l, w) := if t ≠ 0 then (l - 4, t) else (l, w)
  let t := f 2 w
  let (l, w) := if t ≠ 0 then (l - 2, t) else (l, w)
  if f 1 w ≠ 0 then l - 2 else l - (if w ≠ 0 then 1 else 0)
def ctzStepG (f : Nat → Nat → Nat) (s : Nat) (p : Nat × Nat) : Nat × Nat :=
  if f s p.2 ≠ 0 then (p.1 - s, f s p.2) else p
def ctzFinG (f : Nat → Nat → Nat) (p : Nat × Nat) : Nat :=
  if f 1 p.2 ≠ 0 then p.1 - 2 else p.1 - (if p.2 ≠ 0 then 1 else 0)
theorem ctzGen64_steps (f : Nat → Nat → Nat) (x : Nat) : ctzGen64 f x =
    ctzFinG f (ctzStepG f 2 (ctzStepG f 4 (ctzStepG f 8 (ctzStepG f 16 (ctzStepG f 32 (64, x)))))) :=
  rfl
theorem ctzGen32_steps (f : Nat → Nat → Nat) (x : Nat) : ctzGen32 f x =
    ctzFinG f (ctzStepG f 2 (ctzStepG f 4 (ctzStepG f 8 (ctzStepG f 16 (32, x))))) := rfl
theorem u64CTZ_fast_gen' (x : Nat) :
    u64CTZ_fast x = ctzGen64 (fun s w => (w <<< s) % 0x10000000000000000) x := by
  simp only [u64CTZ_fast, ctzGen64]
theorem u32CTZ_fast_gen' (x : Nat) :
    u32CTZ_fast x = ctzGen32 (fun s w => (w <<< s) % 0x100000000) x := by
  simp only [u32CTZ_fast, ctzGen32]
theorem ctzStepG_eq (M s : Nat) (p : Nat × Nat) :
    ctzStepG (fun s w => (w <<< s) % M) s p = ctzStep M s p := rfl
theorem ctzFinG_eq (M : Nat) (p : Nat × Nat) :
    ctzFinG (fun s w => (w <<< s) % M) p = ctzFin M p := rfl
theorem u64CTZ_fast_steps (x : Nat) : u64CTZ_fast x =
    ctzFin 0x10000000000000000 (ctzStep 0x10000000000000000 2 (ctzStep 0x10000000000000000 4
      (ctzStep 0x10000000000000000 8 (ctzStep 0x10000000000000000 16
        (ctzStep 0x10000000000000000 32 (64, x)))))) := by
  rw [u64CTZ_fast_gen', ctzGen64_steps]
  simp only [ctzStepG_eq, ctzFinG_eq]
theorem u32CTZ_fast_steps (x : Nat) : u32CTZ_fast x =
    ctzFin 0x100000000 (ctzStep 0x100000000 2 (ctzStep 0x100000000 4
      (ctzStep 0x100000000 8 (ctzStep 0x100000000 16 (32, x))))) := by
  rw [u32CTZ_fast_gen', ctzGen32_steps]
  simp only [ctzStepG_eq, ctzFinG_eq]

/-- invariant: `w` is `x` shifted left by `d = N - l` places (in N-bit words), and the bits of `w`
    below position `N - s2` are zero -/
structure CtzInv (N x s2 l w d : Nat) : Prop where
  hw : w = (x * 2 ^ d) % 2 ^ N
  hl : l + d = N
  hlo : ∀ k, k + s2 < N → w.testBit k = false
  hs : s2 ≤ l
  hd : d = 0 ∨ w ≠ 0

theorem ctz_stage {N x s l w d : Nat} (h : CtzInv N x (2 * s) l w d) :
    ∃ d', CtzInv N x s (ctzStep (2 ^ N) s (l, w)).1 (ctzStep (2 ^ N) s (l, w)).2 d' := by
  obtain ⟨hw, hl, hlo, hs, hd⟩ := h
  unfold ctzStep
  simp only [Nat.shiftLeft_eq]
  by_cases c : (w * 2 ^ s) % 2 ^ N ≠ 0
  · rw [if_pos c]
    refine ⟨d + s, ?_, by simp only; omega, ?_, by simp only; omega, Or.inr c⟩
    · simp only
      rw [hw, Nat.mod_mul_mod, Nat.pow_add, Nat.mul_assoc]
    · intro k hk
      simp only
      rw [Nat.testBit_mod_two_pow, Nat.testBit_mul_two_pow]
      by_cases c1 : s ≤ k
      · rw [hlo (k - s) (by omega)]; simp
      · simp [c1]
  · rw [if_neg c]
    have hz : (w * 2 ^ s) % 2 ^ N = 0 := by simpa using c
    refine ⟨d, hw, hl, ?_, by simp only; omega, hd⟩
    intro k hk
    simp only
    have : ((w * 2 ^ s) % 2 ^ N).testBit (k + s) = false := by rw [hz]; exact Nat.zero_testBit _
    rw [Nat.testBit_mod_two_pow, Nat.testBit_mul_two_pow] at this
    have c1 : k + s < N := hk
    have c2 : s ≤ k + s := by omega
    simpa [c1, c2] using this

theorem ctz_fin {N x l w d : Nat} (hN : 2 ≤ N) (hx : x < 2 ^ N) (h : CtzInv N x 2 l w d) :
    CtzSpec N x (ctzFin (2 ^ N) (l, w)) := by
  obtain ⟨hw, hl, hlo, hs, hd⟩ := h
  -- bits of w in terms of x
  have hb : ∀ k, w.testBit k = (decide (k < N) && (decide (d ≤ k) && x.testBit (k - d))) := by
    intro k; rw [hw, Nat.testBit_mod_two_pow, Nat.testBit_mul_two_pow]
  have hxlow : ∀ j, j + d + 2 < N → x.testBit j = false := by
    intro j hj
    have := hlo (j + d) (by omega)
    rw [hb] at this
    have c1 : j + d < N := by omega
    have c2 : d ≤ j + d := by omega
    simpa [c1, c2] using this
  unfold ctzFin CtzSpec
  simp only [Nat.shiftLeft_eq, Nat.pow_one]
  constructor
  · intro hx0
    have hw0 : w = 0 := by rw [hw, hx0]; simp
    have hd0 : d = 0 := by rcases hd with h1 | h1; exact h1; exact absurd hw0 h1
    subst hw0
    simp; omega
  · intro hx0
    have hwne : w ≠ 0 := by
      rcases hd with h1 | h1
      · subst h1; rw [hw]; simp only [Nat.pow_zero, Nat.mul_one]
        rw [Nat.mod_eq_of_lt hx]; exact hx0
      · exact h1
    -- from a position c with bit c of x set and all lower bits clear
    have key : ∀ c, x.testBit c = true → (∀ j, j < c → x.testBit j = false) →
        x % 2 ^ c = 0 ∧ x / 2 ^ c % 2 = 1 := by
      intro c h1 h2
      constructor
      · apply Nat.eq_of_testBit_eq; intro j
        rw [Nat.testBit_mod_two_pow, Nat.zero_testBit]
        by_cases cj : j < c
        · simp [h2 j cj]
        · simp [cj]
      · rw [Nat.testBit_eq_decide_div_mod_eq] at h1
        simpa using h1
    by_cases c : (w * 2) % 2 ^ N ≠ 0
    · -- bit N - 2 of w is set
      rw [if_pos c]
      have hbit : w.testBit (N - 2) = true := by
        by_contra hne
        have hne : w.testBit (N - 2) = false := by simpa using hne
        apply c
        apply Nat.eq_of_testBit_eq; intro k
        have e : w * 2 = w * 2 ^ 1 := by rw [Nat.pow_one]
        rw [e, Nat.testBit_mod_two_pow, Nat.testBit_mul_two_pow, Nat.zero_testBit]
        by_cases c1 : k < N
        · by_cases c2 : 1 ≤ k
          · by_cases c3 : k - 1 = N - 2
            · rw [c3, hne]; simp
            · rw [hlo (k - 1) (by omega)]; simp
          · simp [c2]
        · simp [c1]
      rw [hb] at hbit
      have c1 : N - 2 < N := by omega
      simp only [c1, decide_true, Bool.true_and, Bool.and_eq_true, decide_eq_true_eq] at hbit
      obtain ⟨hd2, hxb⟩ := hbit
      have e : N - 2 - d = l - 2 := by omega
      rw [e] at hxb
      refine ⟨by omega, key (l - 2) hxb (fun j hj => hxlow j (by omega))⟩
    · rw [if_neg c, if_pos hwne]
      have hz : (w * 2) % 2 ^ N = 0 := by simpa using c
      -- bits below N - 1 of w are zero, so bit N - 1 is set
      have hlow1 : ∀ k, k + 1 < N → w.testBit k = false := by
        intro k hk
        have : ((w * 2 ^ 1) % 2 ^ N).testBit (k + 1) = false := by
          rw [Nat.pow_one, hz]; exact Nat.zero_testBit _
        rw [Nat.testBit_mod_two_pow, Nat.testBit_mul_two_pow] at this
        have c2 : 1 ≤ k + 1 := by omega
        simpa [hk, c2] using this
      have hwlt : w < 2 ^ N := by rw [hw]; exact Nat.mod_lt _ (Nat.two_pow_pos N)
      have hbit : w.testBit (N - 1) = true := by
        by_contra hne
        have hne : w.testBit (N - 1) = false := by simpa using hne
        apply hwne
        apply Nat.eq_of_testBit_eq; intro k
        rw [Nat.zero_testBit]
        by_cases c1 : k + 1 < N
        · exact hlow1 k c1
        · by_cases c2 : k = N - 1
          · rw [c2]; exact hne
          · exact Nat.testBit_lt_two_pow (Nat.lt_of_lt_of_le hwlt
              (Nat.pow_le_pow_right (by decide) (by omega)))
      rw [hb] at hbit
      have c1 : N - 1 < N := by omega
      simp only [c1, decide_true, Bool.true_and, Bool.and_eq_true, decide_eq_true_eq] at hbit
      obtain ⟨hd2, hxb⟩ := hbit
      have e : N - 1 - d = l - 1 := by omega
      rw [e] at hxb
      refine ⟨by omega, key (l - 1) hxb (fun j hj => ?_)⟩
      have := hlow1 (j + d) (by omega)
      rw [hb] at this
      have c3 : j + d < N := by omega
      have c4 : d ≤ j + d := by omega
      simpa [c3, c4] using this

theorem ctz_init {N x : Nat} (hx : x < 2 ^ N) (s : Nat) (hs : 2 * s = N) :
    CtzInv N x (2 * s) N x 0 :=
  ⟨by simp [Nat.mod_eq_of_lt hx], rfl, fun k hk => by omega, by omega, Or.inl rfl⟩

attribute [irreducible] ctzStep ctzFin

theorem pow64 : (0x10000000000000000 : Nat) = 2 ^ 64 := by norm_num
theorem pow32 : (0x100000000 : Nat) = 2 ^ 32 := by norm_num

theorem u64CTZ_fast_gen (x : Nat) (hx : x < 2 ^ 64) : CtzSpec 64 x (u64CTZ_fast x) := by
  rw [u64CTZ_fast_steps, pow64]
  have h0 : CtzInv 64 x (2 * 32) 64 x 0 := ctz_init hx 32 rfl
  obtain ⟨d1, h1⟩ := ctz_stage h0
  obtain ⟨d2, h2⟩ := ctz_stage (N := 64) (s := 16) h1
  obtain ⟨d3, h3⟩ := ctz_stage (N := 64) (s := 8) h2
  obtain ⟨d4, h4⟩ := ctz_stage (N := 64) (s := 4) h3
  obtain ⟨d5, h5⟩ := ctz_stage (N := 64) (s := 2) h4
  exact ctz_fin (N := 64) (by decide) hx h5


theorem u32CTZ_fast_gen (x : Nat) (hx : x < 2 ^ 32) : CtzSpec 32 x (u32CTZ_fast x) := by
  rw [u32CTZ_fast_steps, pow32]
  have h0 : CtzInv 32 x (2 * 16) 32 x 0 := ctz_init hx 16 rfl
  obtain ⟨d1, h1⟩ := ctz_stage h0
  obtain ⟨d2, h2⟩ := ctz_stage (N := 32) (s := 8) h1
  obtain ⟨d3, h3⟩ := ctz_stage (N := 32) (s := 4) h2
  obtain ⟨d4, h4⟩ := ctz_stage (N := 32) (s := 2) h3
  exact ctz_fin (N := 32) (by decide) hx h4


/-! ## wwIsW, wwIsRepW -/

theorem foldl_and_all (p : Nat → Bool) : ∀ (l : List Nat) (b : Bool),
    l.foldl (fun r y => r && p y) b = (b && l.all p) := by
  intro l
  induction l with
  | nil => intro b; simp
  | cons y ys ih => intro b; simp [List.foldl_cons, ih, Bool.and_assoc]

theorem isW_fastLoop_eq : ∀ (l : List Nat) (b : Bool),
    wwIsW_fastLoop b l = (b && l.all (· == 0)) := by
  intro l
  induction l with
  | nil => intro b; simp [wwIsW_fastLoop]
  | cons y ys ih =>
    intro b
    cases b
    · simp [wwIsW_fastLoop]
    · simp [wwIsW_fastLoop, ih]

theorem isRepW_fastLoop_eq (x : Nat) : ∀ (l : List Nat),
    wwIsRepW_fastLoop x l = l.all (· == x) := by
  intro l
  induction l with
  | nil => simp [wwIsRepW_fastLoop]
  | cons y ys ih =>
    by_cases h : y = x
    · simp [wwIsRepW_fastLoop, h, ih]
    · simp [wwIsRepW_fastLoop, h]

theorem wwIsW_both (a : List Nat) (x : Nat) :
    wwIsW_fast a x = wwIsW_safe a x ∧
    (wwIsW_safe a x = true ↔
      (a = [] ∧ x = 0) ∨ (∃ as, a = x :: as ∧ ∀ y ∈ as, y = 0)) := by
  cases a with
  | nil => simp [wwIsW_safe, wwIsW_fast]
  | cons a0 as =>
    simp only [wwIsW_safe, wwIsW_fast, isW_fastLoop_eq, foldl_and_all, List.all_reverse]
    refine ⟨trivial, ?_⟩
    simp only [Bool.and_eq_true, beq_iff_eq, List.all_eq_true]
    constructor
    · intro ⟨h1, h2⟩
      exact Or.inr ⟨as, by rw [h1], h2⟩
    · intro h
      rcases h with ⟨h1, _⟩ | ⟨as', h1, h2⟩
      · cases h1
      · cases h1
        exact ⟨rfl, h2⟩

theorem wwIsRepW_both (a : List Nat) (x : Nat) :
    wwIsRepW_fast a x = wwIsRepW_safe a x ∧
    (wwIsRepW_safe a x = true ↔ (a = [] ∧ x = 0) ∨ (a ≠ [] ∧ ∀ y ∈ a, y = x)) := by
  cases a with
  | nil => simp [wwIsRepW_safe, wwIsRepW_fast]
  | cons a0 as =>
    simp only [wwIsRepW_safe, wwIsRepW_fast, isRepW_fastLoop_eq, foldl_and_all, List.all_reverse]
    constructor
    · simp [Bool.and_comm]
    · simp



/-! ## SAFE(uNNCLZ), SAFE(uNNCTZ) for all 32- and 64-bit words: the argument of uNNWeight is always
2^NN − 2^b (b ≤ NN), and uNNWeight is evaluated on these NN + 1 values by the kernel -/

namespace Bits

/-- some bit among j, …, j+m-1 of x is set -/
def anyBit (x j : Nat) : Nat → Bool
  | 0 => false
  | m + 1 => anyBit x j m || x.testBit (j + m)

theorem anyBit_add (x j m : Nat) : ∀ n, anyBit x j (m + n) = (anyBit x j m || anyBit x (j + m) n) := by
  intro n
  induction n with
  | zero => simp [anyBit]
  | succ n ih =>
    rw [← Nat.add_assoc, anyBit, ih, anyBit, Bool.or_assoc, Nat.add_assoc]

theorem anyBit_one (x j : Nat) : anyBit x j 1 = x.testBit j := by simp [anyBit]

/-- one smearing step `w |= w >> m` doubles the window -/
theorem smear_step {w x m : Nat} (h : ∀ j, w.testBit j = anyBit x j m) :
    ∀ j, (w ||| (w >>> m)).testBit j = anyBit x j (m + m) := by
  intro j
  rw [Nat.testBit_or, Nat.testBit_shiftRight, h, h, anyBit_add, Nat.add_comm m j]

theorem anyBit_true {x j t : Nat} : ∀ m, j ≤ t → t < j + m → x.testBit t = true →
    anyBit x j m = true := by
  intro m
  induction m with
  | zero => intro h1 h2; omega
  | succ m ih =>
    intro h1 h2 h3
    rw [anyBit]
    by_cases c : t = j + m
    · rw [← c, h3]; simp
    · rw [ih h1 (by omega) h3]; simp

theorem anyBit_false {x j : Nat} (h : ∀ k, j ≤ k → x.testBit k = false) :
    ∀ m, anyBit x j m = false := by
  intro m
  induction m with
  | zero => rfl
  | succ m ih => rw [anyBit, ih, h _ (Nat.le_add_right _ _)]; rfl

/-- the smeared word is 2^b − 1 where b is the bit length of x -/
theorem smear_val {s x b N : Nat} (hs : ∀ j, s.testBit j = anyBit x j N)
    (hx : x < 2 ^ b) (hb : b = 0 ∨ 2 ^ (b - 1) ≤ x) (hN : b ≤ N) : s = 2 ^ b - 1 := by
  apply Nat.eq_of_testBit_eq
  intro j
  rw [hs, Nat.testBit_two_pow_sub_one]
  have hhi : ∀ k, b ≤ k → x.testBit k = false := fun k hk =>
    Nat.testBit_lt_two_pow (Nat.lt_of_lt_of_le hx (Nat.pow_le_pow_right (by decide) hk))
  by_cases c : j < b
  · have hb' : 2 ^ (b - 1) ≤ x := by rcases hb with h0 | h0; omega; exact h0
    have htop : x.testBit (b - 1) = true := by
      rw [Nat.testBit_eq_decide_div_mod_eq]
      have : x / 2 ^ (b - 1) = 1 := by
        apply Nat.div_eq_of_lt_le
        · simpa using hb'
        · have e : 2 ^ b = 2 ^ (b - 1) * 2 := by rw [← Nat.pow_succ]; congr 1; omega
          rw [e] at hx; omega
      rw [this]; rfl
    rw [anyBit_true N (by omega) (by omega) htop]; simp [c]
  · rw [anyBit_false (fun k hk => hhi k (by omega))]; simp [c]

theorem not_smear (b N : Nat) (hb : b ≤ N) : (2 ^ b - 1) ^^^ (2 ^ N - 1) = 2 ^ N - 2 ^ b := by
  apply Nat.eq_of_testBit_eq
  intro j
  have e : 2 ^ N - 2 ^ b = (2 ^ (N - b) - 1) * 2 ^ b := by
    rw [Nat.sub_mul, ← Nat.pow_add, Nat.one_mul]; congr 2; omega
  rw [Nat.testBit_xor, Nat.testBit_two_pow_sub_one, Nat.testBit_two_pow_sub_one, e,
    Nat.testBit_mul_two_pow, Nat.testBit_two_pow_sub_one]
  by_cases c1 : j < b
  · have : j < N := by omega
    have c2 : ¬ b ≤ j := by omega
    simp [c1, this, c2]
  · by_cases c3 : j < N
    · have c2 : b ≤ j := by omega
      have c4 : j - b < N - b := by omega
      simp [c1, c3, c2, c4]
    · have c2 : b ≤ j := by omega
      have c4 : ¬ j - b < N - b := by omega
      simp [c1, c3, c2, c4]

/-- bit length: for x ≠ 0 there is b with 2^(b-1) ≤ x < 2^b -/
theorem bitlen_exists (x : Nat) : ∃ b, x < 2 ^ b ∧ (b = 0 ∨ 2 ^ (b - 1) ≤ x) := by
  by_cases h : x = 0
  · exact ⟨0, by simp [h], Or.inl rfl⟩
  · exact ⟨Nat.log2 x + 1, Nat.lt_log2_self, Or.inr (by simpa using Nat.log2_self_le h)⟩

/-- the finitely many values on which the SAFE editions call uNNWeight -/
theorem weight32_ones : (List.range 33).all (fun b => u32Weight (2 ^ 32 - 2 ^ b) == 32 - b) = true := by
  decide +kernel
theorem weight64_ones : (List.range 65).all (fun b => u64Weight (2 ^ 64 - 2 ^ b) == 64 - b) = true := by
  decide +kernel

theorem u32Weight_ones (b : Nat) (hb : b ≤ 32) : u32Weight (2 ^ 32 - 2 ^ b) = 32 - b := by
  have := List.all_eq_true.mp weight32_ones b (List.mem_range.mpr (by omega))
  simpa using this
theorem u64Weight_ones (b : Nat) (hb : b ≤ 64) : u64Weight (2 ^ 64 - 2 ^ b) = 64 - b := by
  have := List.all_eq_true.mp weight64_ones b (List.mem_range.mpr (by omega))
  simpa using this

theorem clzSpec_of_bitlen {N x b : Nat} (hN : 0 < N) (hx : x < 2 ^ b) (hb : b = 0 ∨ 2 ^ (b - 1) ≤ x)
    (hbN : b ≤ N) : ClzSpec N x (N - b) := by
  constructor
  · intro h0
    rcases hb with h1 | h1
    · omega
    · rw [h0] at h1
      have := Nat.two_pow_pos (b - 1); omega
  · intro h0
    have hb0 : b ≠ 0 := by
      intro e; rw [e] at hx; simp at hx; exact h0 hx
    have hb' : 2 ^ (b - 1) ≤ x := by rcases hb with h1 | h1; exact absurd h1 hb0; exact h1
    refine ⟨by omega, ?_⟩
    have e : N - 1 - (N - b) = b - 1 := by omega
    rw [e]
    apply Nat.div_eq_of_lt_le
    · simpa using hb'
    · have e : 2 ^ b = 2 ^ (b - 1) * 2 := by rw [← Nat.pow_succ]; congr 1; omega
      rw [e] at hx; omega

theorem u32CLZ_safe_gen (x : Nat) (hx : x < 2 ^ 32) : ClzSpec 32 x (u32CLZ_safe x) := by
  obtain ⟨b, h1, h2⟩ := bitlen_exists x
  have hb : b ≤ 32 := by
    rcases h2 with h0 | h0
    · omega
    · have : 2 ^ (b - 1) < 2 ^ 32 := Nat.lt_of_le_of_lt h0 hx
      have := (Nat.pow_lt_pow_iff_right (by decide : 1 < 2)).mp this
      omega
  have s0 : ∀ j, x.testBit j = anyBit x j 1 := fun j => (anyBit_one x j).symm
  have s5 := smear_step (smear_step (smear_step (smear_step (smear_step s0))))
  have hv := smear_val s5 h1 h2 hb
  have : u32CLZ_safe x = 32 - b := by
    unfold u32CLZ_safe
    simp only []
    rw [hv]
    have e : (0xFFFFFFFF : Nat) = 2 ^ 32 - 1 := by norm_num
    rw [e, not_smear b 32 hb, u32Weight_ones b hb]
  rw [this]
  exact clzSpec_of_bitlen (by decide) h1 h2 hb

theorem u64CLZ_safe_gen (x : Nat) (hx : x < 2 ^ 64) : ClzSpec 64 x (u64CLZ_safe x) := by
  obtain ⟨b, h1, h2⟩ := bitlen_exists x
  have hb : b ≤ 64 := by
    rcases h2 with h0 | h0
    · omega
    · have : 2 ^ (b - 1) < 2 ^ 64 := Nat.lt_of_le_of_lt h0 hx
      have := (Nat.pow_lt_pow_iff_right (by decide : 1 < 2)).mp this
      omega
  have s0 : ∀ j, x.testBit j = anyBit x j 1 := fun j => (anyBit_one x j).symm
  have s6 := smear_step (smear_step (smear_step (smear_step (smear_step (smear_step s0)))))
  have hv := smear_val s6 h1 h2 hb
  have : u64CLZ_safe x = 64 - b := by
    unfold u64CLZ_safe
    simp only []
    rw [hv]
    have e : (0xFFFFFFFFFFFFFFFF : Nat) = 2 ^ 64 - 1 := by norm_num
    rw [e, not_smear b 64 hb, u64Weight_ones b hb]
  rw [this]
  exact clzSpec_of_bitlen (by decide) h1 h2 hb


/-- trailing zeros: every x ≠ 0 is 2^c · odd -/
theorem ctz_exists : ∀ x : Nat, x ≠ 0 → ∃ c, x % 2 ^ c = 0 ∧ x / 2 ^ c % 2 = 1 := by
  intro x
  induction x using Nat.strong_induction_on with
  | _ x ih =>
    intro hx
    by_cases hodd : x % 2 = 1
    · exact ⟨0, by simp [Nat.mod_one], by simpa using hodd⟩
    · have hx2 : x / 2 ≠ 0 := by omega
      obtain ⟨c, h1, h2⟩ := ih (x / 2) (by omega) hx2
      refine ⟨c + 1, ?_, ?_⟩
      · rw [Nat.pow_succ, Nat.mul_comm, Nat.mod_mul, h1]; omega
      · rw [Nat.pow_succ, Nat.mul_comm, ← Nat.div_div_eq_div_mul]; exact h2

/-- `x | −x` (in N-bit words) has exactly the bits c, …, N−1 set, c = number of trailing zeros -/
theorem or_neg {N x c : Nat} (hx : x < 2 ^ N) (h1 : x % 2 ^ c = 0) (h2 : x / 2 ^ c % 2 = 1) :
    c < N ∧ x ||| ((2 ^ N - x % 2 ^ N) % 2 ^ N) = 2 ^ N - 2 ^ c := by
  have hx0 : 0 < x := by
    rcases Nat.eq_zero_or_pos x with h | h
    · rw [h] at h2; simp at h2
    · exact h
  have hxq : x = 2 ^ c * (x / 2 ^ c) := by
    have := Nat.mod_add_div x (2 ^ c); omega
  generalize hq : x / 2 ^ c = q at *
  have hq0 : 0 < q := by omega
  have hcN : c < N := by
    by_contra hc
    have : 2 ^ N ≤ 2 ^ c := Nat.pow_le_pow_right (by decide) (by omega)
    have : 2 ^ c * 1 ≤ 2 ^ c * q := Nat.mul_le_mul_left _ hq0
    omega
  refine ⟨hcN, ?_⟩
  have e1 : (2 ^ N - x % 2 ^ N) % 2 ^ N = 2 ^ N - ((x - 1) + 1) := by
    rw [Nat.mod_eq_of_lt hx, Nat.mod_eq_of_lt (by omega)]; congr 1; omega
  have hx1 : x - 1 = 2 ^ c * (q - 1) + (2 ^ c - 1) := by
    have hp := Nat.two_pow_pos c
    have : 2 ^ c * q = 2 ^ c * (q - 1) + 2 ^ c := by
      rw [← Nat.mul_succ]; congr 1; omega
    omega
  have hxx : x = 2 ^ c * q + 0 := by omega
  have e2 : 2 ^ N - 2 ^ c = (2 ^ (N - c) - 1) * 2 ^ c := by
    rw [Nat.sub_mul, ← Nat.pow_add, Nat.one_mul]; congr 2; omega
  apply Nat.eq_of_testBit_eq
  intro j
  rw [e1, Nat.testBit_or, Nat.testBit_two_pow_sub_succ (by omega), hx1,
    Nat.testBit_two_pow_mul_add _ (by have := Nat.two_pow_pos c; omega), e2,
    Nat.testBit_mul_two_pow, Nat.testBit_two_pow_sub_one, Nat.testBit_two_pow_sub_one]
  conv_lhs => rw [hxx, Nat.testBit_two_pow_mul_add _ (Nat.two_pow_pos c)]
  by_cases c1 : j < c
  · have c2 : ¬ c ≤ j := by omega
    simp [c1, c2]
  · have c2 : c ≤ j := by omega
    rw [if_neg c1, if_neg c1]
    by_cases c3 : j = c
    · subst c3
      have hq1 : q.testBit 0 = true := by rw [Nat.testBit_zero]; simpa using h2
      simp [hq1, hcN]
    · -- above c the bits of q − 1 are those of q
      obtain ⟨i, hi⟩ : ∃ i, j - c = i + 1 := ⟨j - c - 1, by omega⟩
      have hqq : (q - 1).testBit (i + 1) = q.testBit (i + 1) := by
        rw [Nat.testBit_succ, Nat.testBit_succ]; congr 1; omega
      rw [hi, hqq]
      by_cases c4 : j < N
      · have c5 : j - c < N - c := by omega
        rw [← hi]
        cases q.testBit (j - c) <;> simp [c4, c2, c5]
      · have c5 : ¬ j - c < N - c := by omega
        have hqf : q.testBit (i + 1) = false := by
          rw [← hi]
          have : x.testBit j = false :=
            Nat.testBit_lt_two_pow (Nat.lt_of_lt_of_le hx (Nat.pow_le_pow_right (by decide) (by omega)))
          rw [hxx, Nat.testBit_two_pow_mul_add _ (Nat.two_pow_pos c), if_neg c1] at this
          exact this
        simp [c4, c2, hqf]
        omega

theorem u32CTZ_safe_gen (x : Nat) (hx : x < 2 ^ 32) : CtzSpec 32 x (u32CTZ_safe x) := by
  by_cases h0 : x = 0
  · subst h0
    refine ⟨fun _ => by decide, fun h => absurd rfl h⟩
  · obtain ⟨c, h1, h2⟩ := ctz_exists x h0
    have e : (0x100000000 : Nat) = 2 ^ 32 := by norm_num
    obtain ⟨hc, hor⟩ := or_neg hx h1 h2
    have : u32CTZ_safe x = c := by
      unfold u32CTZ_safe sizeSub
      rw [e, hor, u32Weight_ones c (by omega)]
      omega
    rw [this]
    exact ⟨fun h => absurd h h0, fun _ => ⟨hc, h1, h2⟩⟩

theorem u64CTZ_safe_gen (x : Nat) (hx : x < 2 ^ 64) : CtzSpec 64 x (u64CTZ_safe x) := by
  by_cases h0 : x = 0
  · subst h0
    refine ⟨fun _ => by decide, fun h => absurd rfl h⟩
  · obtain ⟨c, h1, h2⟩ := ctz_exists x h0
    have e : (0x10000000000000000 : Nat) = 2 ^ 64 := by norm_num
    obtain ⟨hc, hor⟩ := or_neg hx h1 h2
    have : u64CTZ_safe x = c := by
      unfold u64CTZ_safe sizeSub
      rw [e, hor, u64Weight_ones c (by omega)]
      omega
    rw [this]
    exact ⟨fun h => absurd h h0, fun _ => ⟨hc, h1, h2⟩⟩

end Bits


/-! ## wwShLoCarry -/

namespace Bits

theorem getD_append_one (a : List Nat) (c i : Nat) :
    (a ++ [c]).getD i 0 = if i < a.length then a.getD i 0 else if i = a.length then c else 0 := by
  simp only [List.getD_eq_getElem?_getD]
  by_cases h1 : i < a.length
  · rw [if_pos h1, List.getElem?_append_left h1]
  · rw [if_neg h1, List.getElem?_append_right (by omega)]
    by_cases h2 : i = a.length
    · rw [if_pos h2, h2]; simp
    · rw [if_neg h2]
      have : i - a.length ≠ 0 := by omega
      obtain ⟨k, hk⟩ : ∃ k, i - a.length = k + 1 := ⟨i - a.length - 1, by omega⟩
      rw [hk]; simp

theorem val_append_one (w : Nat) (a : List Nat) (c : Nat) :
    val w (a ++ [c]) = val w a + 2 ^ (w * a.length) * c := by
  induction a with
  | nil => simp [val]
  | cons x xs ih =>
    rw [List.cons_append, val_cons, val_cons, ih, List.length_cons]
    have : 2 ^ (w * (xs.length + 1)) = 2 ^ w * 2 ^ (w * xs.length) := by
      rw [← Nat.pow_add]; congr 1; ring
    rw [this]; ring

theorem Wf_append_one {w : Nat} {a : List Nat} {c : Nat} (h : Wf w a) (hc : c < 2 ^ w) :
    Wf w (a ++ [c]) := by
  intro x hx
  rcases List.mem_append.mp hx with h1 | h1
  · exact h x h1
  · rw [List.mem_singleton.mp h1]; exact hc

/-- the words of wwShLoCarry are the words of the shifted (n+1)-word number a ‖ carry, and the
    returned word is the word just below -/
theorem wwShLoCarry_words {w : Nat} (hw : 0 < w) (a : List Nat) (shift carry : Nat)
    (hs : shift < w * (a.length + 1)) :
    (wwShLoCarry w a shift carry).1.length = a.length ∧
    (∀ i, (wwShLoCarry w a shift carry).1.getD i 0 =
      if i < a.length then shLoWord w (a ++ [carry]) (shift / w) (shift % w) i else 0) ∧
    (wwShLoCarry w a shift carry).2 =
      ((if shift / w = 0 then 0 else wshr ((a ++ [carry]).getD (shift / w - 1) 0) (shift % w)) |||
        wshl w ((a ++ [carry]).getD (shift / w) 0) (w - shift % w)) := by
  have hwsn : shift / w < a.length + 1 := by
    have := pos_word_lt (a := a ++ [carry]) (w := w) (pos := shift) (by simpa using hs)
    simpa using this
  unfold wwShLoCarry
  simp only [hs, if_true]
  generalize hn : a.length = n at *
  generalize hws : shift / w = ws at *
  generalize hsh : shift % w = sh
  have hshw : sh < w := by rw [← hsh]; exact Nat.mod_lt _ hw
  have ga : ∀ i, (a ++ [carry]).getD i 0 =
      if i < n then a.getD i 0 else if i = n then carry else 0 := by
    intro i; rw [getD_append_one, hn]
  by_cases h0 : sh = 0
  · subst h0
    simp only [ne_eq, not_true_eq_false, if_false]
    unfold shLoCopy
    obtain ⟨h1, h2, h3⟩ := forUp_spec n ws (fun pos => decide (pos + ws < n)) (fun p => rfl)
      (fun a p => a.getD (p + ws) 0)
      (fun a b p hab => hab (p + ws) (by omega)) n 0 a hn (by omega)
    generalize hr : forUp (fun pos => decide (pos + ws < n))
      (fun pos a => a.set pos (a.getD (pos + ws) 0)) n 0 a = r at *
    obtain ⟨p1, a1⟩ := r
    simp only at h1 h2 h3 ⊢
    have hp1 : p1 = n - ws := by omega
    have sw0 : ∀ i, shLoWord w (a ++ [carry]) ws 0 i = (a ++ [carry]).getD (i + ws) 0 := by
      intro i
      simp only [shLoWord, Nat.sub_zero, wshl_full, Nat.or_zero, wshr, Nat.pow_zero, Nat.div_one]
    have hret : (if ¬ws = 0 then wshr (a.getD (ws - 1) 0) 0 else 0) =
        (if ws = 0 then 0 else wshr ((a ++ [carry]).getD (ws - 1) 0) 0) |||
          wshl w ((a ++ [carry]).getD ws 0) (w - 0) := by
      rw [Nat.sub_zero, wshl_full, Nat.or_zero, ga (ws - 1)]
      by_cases c : ws = 0
      · simp [c]
      · have : ws - 1 < n := by omega
        simp [c, this]
    by_cases c : p1 < n
    · simp only [c, if_true]
      have hl2 : (a1.set p1 (wshr carry 0)).length = n := by rw [List.length_set]; exact h2
      obtain ⟨z1, z2⟩ := zeroUp_spec n (p1 + 1) _ hl2
      refine ⟨z1, fun i => ?_, hret⟩
      rw [z2 i, getD_set, h3 i, sw0, ga]
      simp only [wshr, Nat.pow_zero, Nat.div_one]
      by_cases c1 : i < n
      · rw [if_pos c1]
        by_cases c2 : i + ws < n
        · have c3 : ¬ p1 + 1 ≤ i := by omega
          have c4 : ¬ (i = p1 ∧ p1 < a1.length) := by omega
          have c5 : 0 ≤ i ∧ i + ws < n := by omega
          rw [if_neg c3, if_neg c4, if_pos c5, if_pos c2]
        · rw [if_neg c2]
          by_cases c6 : i = p1
          · have c3 : ¬ p1 + 1 ≤ i := by omega
            have c4 : (i = p1 ∧ p1 < a1.length) := by omega
            have c7 : i + ws = n := by omega
            rw [if_neg c3, if_pos c4, if_pos c7]
          · have c3 : p1 + 1 ≤ i := by omega
            have c7 : ¬ i + ws = n := by omega
            rw [if_pos c3, if_neg c7]
      · have c3 : p1 + 1 ≤ i := by omega
        rw [if_pos c3, if_neg c1]
    · simp only [c, if_false]
      obtain ⟨z1, z2⟩ := zeroUp_spec n p1 a1 h2
      refine ⟨z1, fun i => ?_, hret⟩
      rw [z2 i, h3 i, sw0, ga]
      by_cases c1 : i < n
      · have c3 : ¬ p1 ≤ i := by omega
        have c5 : 0 ≤ i ∧ i + ws < n := by omega
        have c2 : i + ws < n := by omega
        rw [if_neg c3, if_pos c5, if_pos c1, if_pos c2]
      · have c3 : p1 ≤ i := by omega
        rw [if_pos c3, if_neg c1]
  · simp only [ne_eq, h0, not_false_eq_true, if_true]
    unfold shLoLoop
    obtain ⟨h1, h2, h3⟩ := forUp_spec n (ws + 1) (fun pos => decide (pos + ws + 1 < n))
      (fun p => by simp [Nat.add_assoc])
      (fun a p => wshr (a.getD (p + ws) 0) sh ||| wshl w (a.getD (p + ws + 1) 0) (w - sh))
      (fun a b p hab => by
        simp only [hab (p + ws) (by omega), hab (p + ws + 1) (by omega)]) n 0 a hn (by omega)
    generalize hr : forUp (fun pos => decide (pos + ws + 1 < n))
      (fun pos a => a.set pos
        (wshr (a.getD (pos + ws) 0) sh ||| wshl w (a.getD (pos + ws + 1) 0) (w - sh))) n 0 a = r at *
    obtain ⟨p1, a1⟩ := r
    simp only at h1 h2 h3 ⊢
    have hp1 : p1 = n - (ws + 1) := by omega
    -- the returned word
    have hret : (if ws < n then
          (if ¬ws = 0 then wshr (a.getD (ws - 1) 0) sh else 0) ||| wshl w (a.getD ws 0) (w - sh)
        else (if ¬ws = 0 then wshr (a.getD (ws - 1) 0) sh else 0) ||| wshl w carry (w - sh)) =
        (if ws = 0 then 0 else wshr ((a ++ [carry]).getD (ws - 1) 0) sh) |||
          wshl w ((a ++ [carry]).getD ws 0) (w - sh) := by
      rw [ga (ws - 1), ga ws]
      have ha : (if ¬ws = 0 then wshr (a.getD (ws - 1) 0) sh else 0) =
          (if ws = 0 then 0
            else wshr (if ws - 1 < n then a.getD (ws - 1) 0 else if ws - 1 = n then carry else 0) sh) := by
        by_cases c : ws = 0
        · rw [if_neg (not_not.mpr c), if_pos c]
        · have c2 : ws - 1 < n := by omega
          rw [if_pos c, if_neg c, if_pos c2]
      rw [ha]
      by_cases c' : ws < n
      · rw [if_pos c', if_pos c']
      · have c3 : ws = n := by omega
        rw [if_neg c', if_neg c', if_pos c3]
    -- normal form of the words
    have nf : ∀ i, (if i + (ws + 1) < n then
          wshr (a.getD (i + ws) 0) sh ||| wshl w (a.getD (i + ws + 1) 0) (w - sh)
        else if i + ws + 1 = n then wshr (a.getD (i + ws) 0) sh ||| wshl w carry (w - sh)
        else if i + ws = n ∧ i < n then wshr carry sh else 0) =
        if i < n then shLoWord w (a ++ [carry]) ws sh i else 0 := by
      intro i
      unfold shLoWord
      rw [ga (i + ws), ga (i + ws + 1)]
      by_cases c1 : i + (ws + 1) < n
      · have d1 : i < n := by omega
        have d2 : i + ws < n := by omega
        have d3 : i + ws + 1 < n := by omega
        rw [if_pos c1, if_pos d1, if_pos d2, if_pos d3]
      · rw [if_neg c1]
        by_cases c2 : i + ws + 1 = n
        · have d1 : i < n := by omega
          have d2 : i + ws < n := by omega
          have d3 : ¬ i + ws + 1 < n := by omega
          rw [if_pos c2, if_pos d1, if_pos d2, if_neg d3, if_pos c2]
        · rw [if_neg c2]
          by_cases c3 : i + ws = n ∧ i < n
          · have d2 : ¬ i + ws < n := by omega
            have d3 : ¬ i + ws + 1 < n := by omega
            rw [if_pos c3, if_pos c3.2, if_neg d2, if_pos c3.1, if_neg d3, if_neg c2, wshl_zero,
              Nat.or_zero]
          · rw [if_neg c3]
            by_cases d1 : i < n
            · have d2 : ¬ i + ws < n := by omega
              have d3 : ¬ i + ws + 1 < n := by omega
              have d4 : ¬ i + ws = n := by omega
              rw [if_pos d1, if_neg d2, if_neg d4, if_neg d3, if_neg c2, wshl_zero]
              simp [wshr]
            · rw [if_neg d1]
    have hnl : a1.getD (p1 + ws) 0 = a.getD (p1 + ws) 0 := by
      rw [h3]
      have : ¬ (0 ≤ p1 + ws ∧ p1 + ws + (ws + 1) < n) := by omega
      rw [if_neg this]
    rw [hnl]
    by_cases cA : p1 + ws < n
    · simp only [cA, if_true]
      by_cases cB : p1 + 1 < n
      · simp only [cB, if_true]
        obtain ⟨z1, z2⟩ := zeroUp_spec n (p1 + 1 + 1)
          ((a1.set p1 (wshr (a.getD (p1 + ws) 0) sh ||| wshl w carry (w - sh))).set (p1 + 1)
            (wshr carry sh)) (by rw [List.length_set, List.length_set]; exact h2)
        refine ⟨z1, fun i => ?_, hret⟩
        rw [z2 i, getD_set, getD_set, h3 i, ← nf i, List.length_set, h2]
        by_cases e1 : i + (ws + 1) < n
        · have f1 : ¬ p1 + 1 + 1 ≤ i := by omega
          have f2 : ¬ (i = p1 + 1 ∧ p1 + 1 < n) := by omega
          have f3 : ¬ (i = p1 ∧ p1 < n) := by omega
          have f4 : 0 ≤ i ∧ i + (ws + 1) < n := by omega
          rw [if_neg f1, if_neg f2, if_neg f3, if_pos f4, if_pos e1]
        · rw [if_neg e1]
          by_cases e2 : i + ws + 1 = n
          · have f1 : ¬ p1 + 1 + 1 ≤ i := by omega
            have f2 : ¬ (i = p1 + 1 ∧ p1 + 1 < n) := by omega
            have f3 : (i = p1 ∧ p1 < n) := by omega
            rw [if_neg f1, if_neg f2, if_pos f3, if_pos e2, f3.1]
          · rw [if_neg e2]
            by_cases e3 : i + ws = n ∧ i < n
            · have f1 : ¬ p1 + 1 + 1 ≤ i := by omega
              have f2 : (i = p1 + 1 ∧ p1 + 1 < n) := by omega
              rw [if_neg f1, if_pos f2, if_pos e3]
            · have f1 : p1 + 1 + 1 ≤ i := by omega
              rw [if_pos f1, if_neg e3]
      · -- ws = 0
        simp only [cB, if_false]
        obtain ⟨z1, z2⟩ := zeroUp_spec n (p1 + 1)
          (a1.set p1 (wshr (a.getD (p1 + ws) 0) sh ||| wshl w carry (w - sh)))
          (by rw [List.length_set]; exact h2)
        refine ⟨z1, fun i => ?_, hret⟩
        rw [z2 i, getD_set, h3 i, ← nf i, h2]
        by_cases e1 : i + (ws + 1) < n
        · have f1 : ¬ p1 + 1 ≤ i := by omega
          have f3 : ¬ (i = p1 ∧ p1 < n) := by omega
          have f4 : 0 ≤ i ∧ i + (ws + 1) < n := by omega
          rw [if_neg f1, if_neg f3, if_pos f4, if_pos e1]
        · rw [if_neg e1]
          by_cases e2 : i + ws + 1 = n
          · have f1 : ¬ p1 + 1 ≤ i := by omega
            have f3 : (i = p1 ∧ p1 < n) := by omega
            rw [if_neg f1, if_pos f3, if_pos e2, f3.1]
          · have f1 : p1 + 1 ≤ i := by omega
            have e3 : ¬ (i + ws = n ∧ i < n) := by omega
            rw [if_pos f1, if_neg e2, if_neg e3]
    · -- ws = n
      simp only [cA, if_false]
      by_cases cB : p1 < n
      · simp only [cB, if_true]
        obtain ⟨z1, z2⟩ := zeroUp_spec n (p1 + 1) (a1.set p1 (wshr carry sh))
          (by rw [List.length_set]; exact h2)
        refine ⟨z1, fun i => ?_, hret⟩
        rw [z2 i, getD_set, h3 i, ← nf i, h2]
        have e1 : ¬ i + (ws + 1) < n := by omega
        have e2 : ¬ i + ws + 1 = n := by omega
        rw [if_neg e1, if_neg e2]
        by_cases e3 : i + ws = n ∧ i < n
        · have f1 : ¬ p1 + 1 ≤ i := by omega
          have f3 : (i = p1 ∧ p1 < n) := by omega
          rw [if_neg f1, if_pos f3, if_pos e3]
        · have f1 : p1 + 1 ≤ i := by omega
          rw [if_pos f1, if_neg e3]
      · simp only [cB, if_false]
        obtain ⟨z1, z2⟩ := zeroUp_spec n p1 a1 h2
        refine ⟨z1, fun i => ?_, hret⟩
        rw [z2 i, ← nf i]
        have f1 : p1 ≤ i := by omega
        have e1 : ¬ i + (ws + 1) < n := by omega
        have e2 : ¬ i + ws + 1 = n := by omega
        have e3 : ¬ (i + ws = n ∧ i < n) := by omega
        rw [if_pos f1, if_neg e1, if_neg e2, if_neg e3]

theorem shLoWord_bits {w : Nat} (hw : 0 < w) (b : List Nat) (hb : Wf w b) (ws sh i j : Nat)
    (hsh : sh < w) (hj : j < w) :
    (shLoWord w b ws sh i).testBit j = (val w b).testBit (w * (i + ws) + (sh + j)) := by
  rw [testBit_val hw b hb]
  unfold shLoWord
  rw [Nat.testBit_or, tb_div, testBit_wshl]
  by_cases c1 : sh + j < w
  · obtain ⟨e1, e2⟩ := idx_lo hw (i + ws) (sh + j) c1
    have c2 : ¬ (w - sh ≤ j) := by omega
    rw [e1, e2]; simp [c2]
  · obtain ⟨e1, e2⟩ := idx_hi hw (i + ws) (sh + j) (by omega) (by omega)
    have c2 : (w - sh ≤ j) := by omega
    have e3 : j - (w - sh) = sh + j - w := by omega
    rw [e1, e2, testBit_high (getD_lt hb (i + ws)) (by omega), e3]; simp [c2, hj]

theorem wwShLoCarry_val {w : Nat} (hw : 0 < w) (a : List Nat) (shift carry : Nat) (h : Wf w a)
    (hc : carry < 2 ^ w) :
    (wwShLoCarry w a shift carry).1.length = a.length ∧ Wf w (wwShLoCarry w a shift carry).1 ∧
    val w (wwShLoCarry w a shift carry).1 =
      ((val w a + carry * 2 ^ (w * a.length)) / 2 ^ shift) % 2 ^ (w * a.length) ∧
    (wwShLoCarry w a shift carry).2 =
      ((val w a + carry * 2 ^ (w * a.length)) * 2 ^ w / 2 ^ shift) % 2 ^ w := by
  have hWf' := Wf_append_one h hc
  have hV : val w (a ++ [carry]) = val w a + carry * 2 ^ (w * a.length) := by
    rw [val_append_one, Nat.mul_comm]
  rw [← hV]
  generalize hb : a ++ [carry] = b at *
  by_cases hs : shift < w * (a.length + 1)
  · obtain ⟨h1, h2, h3⟩ := wwShLoCarry_words hw a shift carry hs
    rw [hb] at h2 h3
    have hsh : shift % w < w := Nat.mod_lt _ hw
    have hss : shift = w * (shift / w) + shift % w := (Nat.div_add_mod shift w).symm
    generalize shift / w = ws at *
    generalize shift % w = sh at *
    have hwl : ∀ i, shLoWord w b ws sh i < 2 ^ w := fun i =>
      Nat.or_lt_two_pow (wshr_lt _ (getD_lt hWf' _)) (wshl_lt _ _ _)
    have hWfR : Wf w (wwShLoCarry w a shift carry).1 := by
      apply Wf_of_getD
      intro i
      rw [h2 i]
      split
      · exact hwl i
      · exact Nat.two_pow_pos w
    refine ⟨h1, hWfR, ?_, ?_⟩
    · apply Nat.eq_of_testBit_eq
      intro k
      rw [testBit_val hw _ hWfR, h2, Nat.testBit_mod_two_pow, tb_div]
      have hj : k % w < w := Nat.mod_lt _ hw
      have hk : k = w * (k / w) + k % w := (Nat.div_add_mod k w).symm
      generalize k / w = i at hk
      generalize k % w = j at hk hj
      by_cases c0 : i < a.length
      · have hkn : k < w * a.length := by
          have : w * (i + 1) ≤ w * a.length := Nat.mul_le_mul_left w c0
          rw [Nat.mul_add] at this; omega
        have hidx : shift + k = w * (i + ws) + (sh + j) := by
          rw [hss, hk, Nat.mul_add]; omega
        rw [if_pos c0, shLoWord_bits hw b hWf' ws sh i j hsh hj, hidx]
        simp [hkn]
      · have hkn : ¬ k < w * a.length := by
          have : w * a.length ≤ w * i := Nat.mul_le_mul_left w (Nat.le_of_not_lt c0)
          omega
        rw [if_neg c0]; simp [hkn]
    · rw [h3]
      apply Nat.eq_of_testBit_eq
      intro j
      rw [Nat.testBit_mod_two_pow, tb_div, Nat.testBit_mul_two_pow]
      by_cases hj : j < w
      · by_cases c : ws = 0
        · subst c
          rw [if_pos rfl, Nat.zero_or, testBit_wshl, testBit_val hw b hWf']
          by_cases c2 : w - sh ≤ j
          · have c3 : w ≤ shift + j := by omega
            have e : shift + j - w = w * 0 + (j - (w - sh)) := by omega
            obtain ⟨e1, e2⟩ := idx_lo hw 0 (j - (w - sh)) (by omega)
            rw [e, e1, e2]; simp [hj, c2, c3]
          · have c3 : ¬ w ≤ shift + j := by omega
            simp [c2, c3]
        · rw [if_neg c]
          have hsw : (wshr (b.getD (ws - 1) 0) sh ||| wshl w (b.getD ws 0) (w - sh))
              = shLoWord w b (ws - 1) sh 0 := by
            unfold shLoWord
            have e1 : 0 + (ws - 1) = ws - 1 := by omega
            have e2 : ws - 1 + 1 = ws := by omega
            rw [e1, e2]
          have c3 : w ≤ shift + j := by
            have : w * 1 ≤ w * ws := Nat.mul_le_mul_left w (by omega)
            omega
          have e : shift + j - w = w * (0 + (ws - 1)) + (sh + j) := by
            have : w * ws = w * (ws - 1) + w := by
              have : ws = (ws - 1) + 1 := by omega
              conv_lhs => rw [this]
              rw [Nat.mul_add, Nat.mul_one]
            rw [Nat.zero_add]; omega
          rw [hsw, shLoWord_bits hw b hWf' (ws - 1) sh 0 j hsh hj, e]
          simp [hj, c3]
      · have hlt : ((if ws = 0 then 0 else wshr (b.getD (ws - 1) 0) sh) |||
            wshl w (b.getD ws 0) (w - sh)) < 2 ^ w := by
          refine Nat.or_lt_two_pow ?_ (wshl_lt _ _ _)
          split
          · exact Nat.two_pow_pos w
          · exact wshr_lt _ (getD_lt hWf' _)
        rw [testBit_high hlt (by omega)]; simp [hj]
  · -- everything is shifted out
    have hVlt : val w b < 2 ^ (w * (a.length + 1)) := by
      have hbl : b.length = a.length + 1 := by rw [← hb]; simp
      have := val_lt b hWf'
      rw [hbl] at this
      exact this
    have hz : wwShLoCarry w a shift carry =
        (List.replicate a.length 0,
          if shift - w * (a.length + 1) < w then wshr carry (shift - w * (a.length + 1)) else 0) := by
      unfold wwShLoCarry wwSetZero; simp only [hs, if_false]
    rw [hz]
    refine ⟨List.length_replicate, Wf_replicate_zero _ _, ?_, ?_⟩
    · rw [val_replicate_zero]
      have h2 : 2 ^ (w * (a.length + 1)) ≤ 2 ^ shift := Nat.pow_le_pow_right (by decide) (by omega)
      rw [Nat.div_eq_of_lt (by omega), Nat.zero_mod]
    · simp only
      -- V·2^w / 2^shift = carry / 2^s'
      generalize hs' : shift - w * (a.length + 1) = s'
      have hm : w * (a.length + 1) = w * a.length + w := by rw [Nat.mul_add, Nat.mul_one]
      have hshift : shift = w + (w * a.length + s') := by
        rw [hm] at hs hs'; omega
      have e1 : val w b * 2 ^ w / 2 ^ shift = carry / 2 ^ s' := by
        rw [hshift, Nat.pow_add, Nat.mul_comm (val w b), Nat.mul_div_mul_left _ _ (Nat.two_pow_pos w),
          Nat.pow_add, ← Nat.div_div_eq_div_mul, hV, Nat.mul_comm carry,
          Nat.add_mul_div_left _ _ (Nat.two_pow_pos _), Nat.div_eq_of_lt (val_lt a h), Nat.zero_add]
      rw [e1]
      have hlt : carry / 2 ^ s' < 2 ^ w := Nat.lt_of_le_of_lt (Nat.div_le_self _ _) hc
      rw [Nat.mod_eq_of_lt hlt]
      split
      · rfl
      · rename_i hge
        have : 2 ^ w ≤ 2 ^ s' := Nat.pow_le_pow_right (by decide) (by omega)
        exact (Nat.div_eq_of_lt (by omega)).symm

end Bits


/-! ## wwShHiCarry -/

namespace Bits

/-- word `i` of wwShHiCarry's result in terms of a and carry -/
def shHiCWord (w : Nat) (a : List Nat) (carry ws sh i : Nat) : Nat :=
  if ws + 1 ≤ i then wshl w (a.getD (i - ws) 0) sh ||| wshr (a.getD (i - ws - 1) 0) (w - sh)
  else if i = ws then wshl w (a.getD 0 0) sh ||| wshr carry (w - sh)
  else if i + 1 = ws then wshl w carry sh else 0

theorem shHiCWord_eq (w : Nat) (a : List Nat) (carry ws sh i : Nat) :
    shHiCWord w a carry ws sh i = shHiWord w (carry :: a) ws sh (i + 1) := by
  unfold shHiCWord shHiWord
  by_cases c1 : ws + 1 ≤ i
  · have d1 : ¬ i + 1 < ws := by omega
    have d2 : ¬ i + 1 = ws := by omega
    obtain ⟨k, hk⟩ : ∃ k, i + 1 - ws = k + 1 + 1 := ⟨i - ws - 1, by omega⟩
    have ea : i - ws = k + 1 := by omega
    have eb : i - ws - 1 = k := by omega
    have ec : i + 1 - ws - 1 = k + 1 := by omega
    rw [if_pos c1, if_neg d1, if_neg d2, ec, hk, eb, ea, List.getD_cons_succ, List.getD_cons_succ]
  · rw [if_neg c1]
    by_cases c2 : i = ws
    · subst c2
      have d1 : ¬ i + 1 < i := by omega
      have d2 : ¬ i + 1 = i := by omega
      have e1 : i + 1 - i = 0 + 1 := by omega
      have e2 : i + 1 - i - 1 = 0 := by omega
      rw [if_pos rfl, if_neg d1, if_neg d2, e2, e1, List.getD_cons_succ, List.getD_cons_zero]
    · rw [if_neg c2]
      by_cases c3 : i + 1 = ws
      · have d1 : ¬ i + 1 < ws := by omega
        have e1 : i + 1 - ws = 0 := by omega
        rw [if_pos c3, if_neg d1, if_pos c3, e1, List.getD_cons_zero, Nat.or_zero]
      · have d1 : i + 1 < ws := by omega
        rw [if_neg c3, if_pos d1]

theorem wwShHiCarry_words {w : Nat} (hw : 0 < w) (a : List Nat) (shift carry : Nat) (h : Wf w a)
    (hc : carry < 2 ^ w) (hs : shift < w * (a.length + 1)) :
    (wwShHiCarry w a shift carry).1.length = a.length ∧
    (∀ i, (wwShHiCarry w a shift carry).1.getD i 0 =
      if i < a.length then shHiCWord w a carry (shift / w) (shift % w) i else 0) ∧
    (wwShHiCarry w a shift carry).2 = shHiCWord w a carry (shift / w) (shift % w) a.length := by
  have hwsn : shift / w < a.length + 1 := by
    have := pos_word_lt (a := a ++ [carry]) (w := w) (pos := shift) (by simpa using hs)
    simpa using this
  unfold wwShHiCarry
  simp only [hs, if_true]
  generalize hn : a.length = n at *
  generalize hws : shift / w = ws at *
  generalize hsh : shift % w = sh
  have hshw : sh < w := by rw [← hsh]; exact Nat.mod_lt _ hw
  have hbeyond : ∀ i, n ≤ i → a.getD i 0 = 0 := fun i hi => getD_beyond a i (by omega)
  by_cases h0 : sh = 0
  · subst h0
    simp only [ne_eq, not_true_eq_false, if_false]
    have e0 : ∀ x, x < 2 ^ w → wshl w x 0 = x := by
      intro x hx
      simp only [wshl, Nat.pow_zero, Nat.mul_one]; exact Nat.mod_eq_of_lt hx
    have e1 : ∀ x, x < 2 ^ w → wshr x (w - 0) = 0 := by
      intro x hx
      simp only [wshr, Nat.sub_zero]; exact Nat.div_eq_of_lt hx
    unfold shHiCopy
    obtain ⟨h1, h2, h3⟩ := forDown_spec n ws (fun q => q != 0 && decide (q > ws)) (fun p => by
        by_cases hp : ws < p
        · have : p ≠ 0 := by omega
          simp [hp, this]
        · simp [hp])
      (fun a p => a.getD (p - ws) 0)
      (fun a b p hab => hab (p - ws) (by omega)) n n a hn (by omega) (by omega)
    generalize hr : forDown (fun q => q != 0 && decide (q > ws))
      (fun pos a => a.set pos (a.getD (pos - ws) 0)) n n a = r at *
    obtain ⟨q1, a1⟩ := r
    simp only at h1 h2 h3 ⊢
    have hq1 : q1 = ws := by omega
    subst hq1
    -- the returned word
    have hret : (if ¬q1 = 0 then wshl w (a.getD (n - q1) 0) 0 else 0) = shHiCWord w a carry q1 0 n := by
      unfold shHiCWord
      by_cases c1 : q1 + 1 ≤ n
      · rw [if_pos c1, e1 _ (getD_lt h _), Nat.or_zero]
        by_cases c2 : q1 = 0
        · subst c2; rw [if_neg (not_not.mpr rfl), Nat.sub_zero, hbeyond n (Nat.le_refl _)]; simp [wshl]
        · rw [if_pos c2]
      · have c3 : n = q1 := by omega
        rw [if_neg c1, if_pos c3, e1 _ hc, Nat.or_zero, c3, Nat.sub_self]
        by_cases c2 : q1 = 0
        · rw [if_neg (not_not.mpr c2), hbeyond 0 (by omega)]; simp [wshl]
        · rw [if_pos c2]
    -- the words
    have nf : ∀ i, i < n → (if i + 1 = q1 then wshl w carry 0
        else if q1 ≤ i then a.getD (i - q1) 0 else 0) = shHiCWord w a carry q1 0 i := by
      intro i hi
      unfold shHiCWord
      by_cases c1 : q1 + 1 ≤ i
      · have d1 : ¬ i + 1 = q1 := by omega
        have d2 : q1 ≤ i := by omega
        rw [if_neg d1, if_pos d2, if_pos c1, e0 _ (getD_lt h _), e1 _ (getD_lt h _), Nat.or_zero]
      · rw [if_neg c1]
        by_cases c2 : i = q1
        · have d1 : ¬ i + 1 = q1 := by omega
          have d2 : q1 ≤ i := by omega
          rw [if_neg d1, if_pos d2, if_pos c2, e0 _ (getD_lt h _), e1 _ hc, Nat.or_zero, c2,
            Nat.sub_self]
        · rw [if_neg c2]
          by_cases c3 : i + 1 = q1
          · rw [if_pos c3, if_pos c3]
          · have d2 : ¬ q1 ≤ i := by omega
            rw [if_neg c3, if_neg d2, if_neg c3]
    by_cases cB : q1 ≠ 0
    · simp only [cB, not_false_eq_true, if_true]
      obtain ⟨z1, z2⟩ := zeroDown_spec n (q1 - 1) (a1.set (q1 - 1) (wshl w carry 0))
        (by rw [List.length_set]; exact h2) (by omega)
      refine ⟨z1, fun i => ?_, by rw [← hret, if_pos cB]⟩
      rw [z2 i, getD_set, h3 i, h2]
      by_cases ci : i < n
      · rw [if_pos ci, ← nf i ci]
        by_cases c3 : i + 1 = q1
        · have f1 : ¬ i < q1 - 1 := by omega
          have f2 : i = q1 - 1 ∧ q1 - 1 < n := by omega
          rw [if_neg f1, if_pos f2, if_pos c3]
        · rw [if_neg c3]
          by_cases c4 : q1 ≤ i
          · have f1 : ¬ i < q1 - 1 := by omega
            have f2 : ¬ (i = q1 - 1 ∧ q1 - 1 < n) := by omega
            have f3 : q1 ≤ i ∧ i < n := by omega
            rw [if_neg f1, if_neg f2, if_pos f3, if_pos c4]
          · have f1 : i < q1 - 1 := by omega
            rw [if_pos f1, if_neg c4]
      · have f1 : ¬ i < q1 - 1 := by omega
        have f2 : ¬ (i = q1 - 1 ∧ q1 - 1 < n) := by omega
        have f3 : ¬ (q1 ≤ i ∧ i < n) := by omega
        rw [if_neg ci, if_neg f1, if_neg f2, if_neg f3, hbeyond i (by omega)]
    · have cq : q1 = 0 := by omega
      simp only [cB, if_false]
      obtain ⟨z1, z2⟩ := zeroDown_spec n q1 a1 h2 (by omega)
      refine ⟨z1, fun i => ?_, by rw [← hret, if_neg (not_not.mpr cq)]⟩
      rw [z2 i, h3 i]
      by_cases ci : i < n
      · have f1 : ¬ i < q1 := by omega
        have f3 : q1 ≤ i ∧ i < n := by omega
        have d1 : ¬ i + 1 = q1 := by omega
        rw [if_pos ci, ← nf i ci, if_neg f1, if_pos f3, if_neg d1, if_pos f3.1]
      · have f1 : ¬ i < q1 := by omega
        have f3 : ¬ (q1 ≤ i ∧ i < n) := by omega
        rw [if_neg ci, if_neg f1, if_neg f3, hbeyond i (by omega)]
  · simp only [ne_eq, h0, not_false_eq_true, if_true]
    unfold shHiLoop
    obtain ⟨h1, h2, h3⟩ := forDown_spec n (ws + 1) (fun q => decide (q > ws + 1))
      (fun p => rfl)
      (fun a p => wshl w (a.getD (p - ws) 0) sh ||| wshr (a.getD (p - ws - 1) 0) (w - sh))
      (fun a b p hab => by
        simp only [hab (p - ws) (by omega), hab (p - ws - 1) (by omega)]) n n a hn (by omega)
        (by omega)
    generalize hr : forDown (fun q => decide (q > ws + 1))
      (fun pos a => a.set pos
        (wshl w (a.getD (pos - ws) 0) sh ||| wshr (a.getD (pos - ws - 1) 0) (w - sh))) n n a = r at *
    obtain ⟨q1, a1⟩ := r
    simp only at h1 h2 h3 ⊢
    have hret : (if ws < n then
          (if ¬ws = 0 then wshl w (a.getD (n - ws) 0) sh else 0) |||
            wshr (a.getD (n - ws - 1) 0) (w - sh)
        else (if ¬ws = 0 then wshl w (a.getD (n - ws) 0) sh else 0) ||| wshr carry (w - sh)) =
        shHiCWord w a carry ws sh n := by
      unfold shHiCWord
      have hr0 : (if ¬ws = 0 then wshl w (a.getD (n - ws) 0) sh else 0) =
          wshl w (a.getD (n - ws) 0) sh := by
        by_cases c : ws = 0
        · rw [if_neg (not_not.mpr c), c, Nat.sub_zero, hbeyond n (Nat.le_refl _), wshl_zero]
        · rw [if_pos c]
      rw [hr0]
      by_cases c1 : ws + 1 ≤ n
      · have c2 : ws < n := by omega
        rw [if_pos c1, if_pos c2]
      · have c2 : ¬ ws < n := by omega
        have c3 : n = ws := by omega
        rw [if_neg c1, if_neg c2, if_pos c3, c3, Nat.sub_self]
    have hnl : a1.getD 0 0 = a.getD 0 0 := by
      rw [h3]
      have : ¬ (ws + 1 ≤ 0 ∧ 0 < n) := by omega
      rw [if_neg this]
    rw [hret]
    by_cases cA : q1 ≠ 0 ∧ q1 > ws
    · have hq1 : q1 = ws + 1 := by omega
      subst hq1
      simp only [if_pos cA, Nat.add_sub_cancel, Nat.sub_self, hnl]
      by_cases cB : ws ≠ 0
      · simp only [if_pos cB]
        obtain ⟨z1, z2⟩ := zeroDown_spec n (ws - 1)
          ((a1.set ws (wshl w (a.getD 0 0) sh ||| wshr carry (w - sh))).set (ws - 1)
            (wshl w carry sh)) (by rw [List.length_set, List.length_set]; exact h2) (by omega)
        refine ⟨z1, fun i => ?_, trivial⟩
        rw [z2 i, getD_set, getD_set, h3 i, List.length_set, h2]
        unfold shHiCWord
        by_cases ci : i < n
        · rw [if_pos ci]
          by_cases e1 : ws + 1 ≤ i
          · have f1 : ¬ i < ws - 1 := by omega
            have f2 : ¬ (i = ws - 1 ∧ ws - 1 < n) := by omega
            have f3 : ¬ (i = ws ∧ ws < n) := by omega
            have f4 : ws + 1 ≤ i ∧ i < n := by omega
            rw [if_neg f1, if_neg f2, if_neg f3, if_pos f4, if_pos e1]
          · rw [if_neg e1]
            by_cases e2 : i = ws
            · have f1 : ¬ i < ws - 1 := by omega
              have f2 : ¬ (i = ws - 1 ∧ ws - 1 < n) := by omega
              have f3 : (i = ws ∧ ws < n) := by omega
              rw [if_neg f1, if_neg f2, if_pos f3, if_pos e2]
            · rw [if_neg e2]
              by_cases e3 : i + 1 = ws
              · have f1 : ¬ i < ws - 1 := by omega
                have f2 : (i = ws - 1 ∧ ws - 1 < n) := by omega
                rw [if_neg f1, if_pos f2, if_pos e3]
              · have f1 : i < ws - 1 := by omega
                rw [if_pos f1, if_neg e3]
        · have f1 : ¬ i < ws - 1 := by omega
          have f2 : ¬ (i = ws - 1 ∧ ws - 1 < n) := by omega
          have f3 : ¬ (i = ws ∧ ws < n) := by omega
          have f4 : ¬ (ws + 1 ≤ i ∧ i < n) := by omega
          rw [if_neg ci, if_neg f1, if_neg f2, if_neg f3, if_neg f4, hbeyond i (by omega)]
      · have cw : ws = 0 := by omega
        simp only [if_neg cB]
        obtain ⟨z1, z2⟩ := zeroDown_spec n ws
          (a1.set ws (wshl w (a.getD 0 0) sh ||| wshr carry (w - sh)))
          (by rw [List.length_set]; exact h2) (by omega)
        refine ⟨z1, fun i => ?_, trivial⟩
        rw [z2 i, getD_set, h3 i, h2]
        unfold shHiCWord
        by_cases ci : i < n
        · rw [if_pos ci]
          by_cases e1 : ws + 1 ≤ i
          · have f1 : ¬ i < ws := by omega
            have f3 : ¬ (i = ws ∧ ws < n) := by omega
            have f4 : ws + 1 ≤ i ∧ i < n := by omega
            rw [if_neg f1, if_neg f3, if_pos f4, if_pos e1]
          · have e2 : i = ws := by omega
            have f1 : ¬ i < ws := by omega
            have f3 : (i = ws ∧ ws < n) := by omega
            rw [if_neg e1, if_neg f1, if_pos f3, if_pos e2]
        · have f1 : ¬ i < ws := by omega
          have f3 : ¬ (i = ws ∧ ws < n) := by omega
          have f4 : ¬ (ws + 1 ≤ i ∧ i < n) := by omega
          rw [if_neg ci, if_neg f1, if_neg f3, if_neg f4, hbeyond i (by omega)]
    · -- ws = n : nothing but the carry word remains
      have hq1 : q1 = n := by omega
      have hwn : ws = n := by omega
      subst hq1
      simp only [if_neg cA]
      by_cases cB : q1 ≠ 0
      · simp only [if_pos cB]
        obtain ⟨z1, z2⟩ := zeroDown_spec q1 (q1 - 1) (a1.set (q1 - 1) (wshl w carry sh))
          (by rw [List.length_set]; exact h2) (by omega)
        refine ⟨z1, fun i => ?_, trivial⟩
        rw [z2 i, getD_set, h3 i, h2]
        unfold shHiCWord
        by_cases ci : i < q1
        · rw [if_pos ci]
          have e1 : ¬ ws + 1 ≤ i := by omega
          have e2 : ¬ i = ws := by omega
          rw [if_neg e1, if_neg e2]
          by_cases e3 : i + 1 = ws
          · have f1 : ¬ i < q1 - 1 := by omega
            have f2 : (i = q1 - 1 ∧ q1 - 1 < q1) := by omega
            rw [if_neg f1, if_pos f2, if_pos e3]
          · have f1 : i < q1 - 1 := by omega
            rw [if_pos f1, if_neg e3]
        · have f1 : ¬ i < q1 - 1 := by omega
          have f2 : ¬ (i = q1 - 1 ∧ q1 - 1 < q1) := by omega
          have f4 : ¬ (ws + 1 ≤ i ∧ i < q1) := by omega
          rw [if_neg ci, if_neg f1, if_neg f2, if_neg f4, hbeyond i (by omega)]
      · have cq : q1 = 0 := by omega
        simp only [if_neg cB]
        obtain ⟨z1, z2⟩ := zeroDown_spec q1 q1 a1 h2 (by omega)
        refine ⟨z1, fun i => ?_, trivial⟩
        have ci : ¬ i < q1 := by omega
        have f4 : ¬ (ws + 1 ≤ i ∧ i < q1) := by omega
        rw [z2 i, h3 i, if_neg ci, if_neg ci, if_neg f4, hbeyond i (by omega)]

theorem shHiWord_lt {w : Nat} (b : List Nat) (hb : Wf w b) (ws sh i : Nat) :
    shHiWord w b ws sh i < 2 ^ w := by
  unfold shHiWord
  split
  · exact Nat.two_pow_pos w
  · refine Nat.or_lt_two_pow (wshl_lt _ _ _) ?_
    split
    · exact Nat.two_pow_pos w
    · exact wshr_lt _ (getD_lt hb _)

theorem shHiWord_bits {w : Nat} (hw : 0 < w) (b : List Nat) (hb : Wf w b) (ws sh i j : Nat)
    (hsh : sh < w) (hj : j < w) :
    (shHiWord w b ws sh i).testBit j = (val w b * 2 ^ (w * ws + sh)).testBit (w * i + j) := by
  rw [Nat.testBit_mul_two_pow]
  unfold shHiWord
  by_cases c1 : i < ws
  · have : ¬ w * ws + sh ≤ w * i + j := by
      have : w * (i + 1) ≤ w * ws := Nat.mul_le_mul_left w c1
      rw [Nat.mul_add] at this; omega
    rw [if_pos c1]; simp [this]
  · rw [if_neg c1, Nat.testBit_or, testBit_wshl]
    have hmul : w * i = w * (i - ws) + w * ws := by
      rw [← Nat.mul_add]; congr 1; omega
    by_cases c2 : sh ≤ j
    · have c3 : w * ws + sh ≤ w * i + j := by omega
      have hidx : w * i + j - (w * ws + sh) = w * (i - ws) + (j - sh) := by omega
      obtain ⟨e1, e2⟩ := idx_lo hw (i - ws) (j - sh) (by omega)
      have e4 : (if i = ws then 0 else wshr (b.getD (i - ws - 1) 0) (w - sh)).testBit j = false := by
        split
        · exact Nat.zero_testBit _
        · rw [tb_div]; exact testBit_high (getD_lt hb _) (by omega)
      rw [testBit_val hw b hb, hidx, e1, e2, e4]
      simp [c2, c3, hj]
    · have e5 : (decide (j < w) && (decide (sh ≤ j) && (b.getD (i - ws) 0).testBit (j - sh)))
          = false := by simp [c2]
      rw [e5, Bool.false_or]
      by_cases c4 : i = ws
      · have c3 : ¬ w * ws + sh ≤ w * i + j := by subst c4; omega
        rw [if_pos c4]; simp [c3]
      · have c3 : w * ws + sh ≤ w * i + j := by
          have : w * (ws + 1) ≤ w * i := Nat.mul_le_mul_left w (by omega)
          rw [Nat.mul_add] at this; omega
        have hmul2 : w * i = w * (i - ws - 1) + w * ws + w := by
          have : i = (i - ws - 1) + ws + 1 := by omega
          conv_lhs => rw [this]
          rw [Nat.mul_add, Nat.mul_add, Nat.mul_one]
        have hidx : w * i + j - (w * ws + sh) = w * (i - ws - 1) + (w - sh + j) := by omega
        obtain ⟨e1, e2⟩ := idx_lo hw (i - ws - 1) (w - sh + j) (by omega)
        rw [if_neg c4, tb_div, testBit_val hw b hb, hidx, e1, e2]
        simp [c3]

theorem wwShHiCarry_val {w : Nat} (hw : 0 < w) (a : List Nat) (shift carry : Nat) (h : Wf w a)
    (hc : carry < 2 ^ w) :
    (wwShHiCarry w a shift carry).1.length = a.length ∧ Wf w (wwShHiCarry w a shift carry).1 ∧
    val w (wwShHiCarry w a shift carry).1 =
      ((carry + val w a * 2 ^ w) * 2 ^ shift / 2 ^ w) % 2 ^ (w * a.length) ∧
    (wwShHiCarry w a shift carry).2 =
      ((carry + val w a * 2 ^ w) * 2 ^ shift / 2 ^ (w * (a.length + 1))) % 2 ^ w := by
  have hWf' : Wf w (carry :: a) := Wf_cons.mpr ⟨hc, h⟩
  have hV : val w (carry :: a) = carry + val w a * 2 ^ w := by rw [val_cons, Nat.mul_comm]
  rw [← hV]
  by_cases hs : shift < w * (a.length + 1)
  · obtain ⟨h1, h2, h3⟩ := wwShHiCarry_words hw a shift carry h hc hs
    have hsh : shift % w < w := Nat.mod_lt _ hw
    have hss : shift = w * (shift / w) + shift % w := (Nat.div_add_mod shift w).symm
    generalize shift / w = ws at *
    generalize shift % w = sh at *
    generalize hb : carry :: a = b at *
    have hWfR : Wf w (wwShHiCarry w a shift carry).1 := by
      apply Wf_of_getD
      intro i
      rw [h2 i]
      split
      · rw [shHiCWord_eq, hb]; exact shHiWord_lt b hWf' _ _ _
      · exact Nat.two_pow_pos w
    refine ⟨h1, hWfR, ?_, ?_⟩
    · apply Nat.eq_of_testBit_eq
      intro k
      rw [testBit_val hw _ hWfR, h2, Nat.testBit_mod_two_pow, tb_div]
      have hj : k % w < w := Nat.mod_lt _ hw
      have hk : k = w * (k / w) + k % w := (Nat.div_add_mod k w).symm
      generalize k / w = i at hk
      generalize k % w = j at hk hj
      by_cases c0 : i < a.length
      · have hkn : k < w * a.length := by
          have : w * (i + 1) ≤ w * a.length := Nat.mul_le_mul_left w c0
          rw [Nat.mul_add] at this; omega
        have hidx : w + k = w * (i + 1) + j := by rw [hk, Nat.mul_add]; omega
        rw [if_pos c0, shHiCWord_eq, hb, shHiWord_bits hw b hWf' ws sh (i + 1) j hsh hj, hidx, ← hss]
        simp [hkn]
      · have hkn : ¬ k < w * a.length := by
          have : w * a.length ≤ w * i := Nat.mul_le_mul_left w (Nat.le_of_not_lt c0)
          omega
        rw [if_neg c0]; simp [hkn]
    · rw [h3, shHiCWord_eq, hb]
      apply Nat.eq_of_testBit_eq
      intro j
      rw [Nat.testBit_mod_two_pow, tb_div]
      by_cases hj : j < w
      · rw [shHiWord_bits hw b hWf' ws sh (a.length + 1) j hsh hj, ← hss]; simp [hj]
      · rw [testBit_high (shHiWord_lt b hWf' _ _ _) (by omega)]; simp [hj]
  · have hz : wwShHiCarry w a shift carry =
        (List.replicate a.length 0,
          if shift - w * (a.length + 1) < w then wshl w carry (shift - w * (a.length + 1)) else 0) := by
      unfold wwShHiCarry wwSetZero; simp only [hs, if_false]
    rw [hz]
    have hm : w * (a.length + 1) = w * a.length + w := by rw [Nat.mul_add, Nat.mul_one]
    generalize hs' : shift - w * (a.length + 1) = s'
    have hshift : shift = w + (w * a.length + s') := by rw [hm] at hs hs'; omega
    refine ⟨List.length_replicate, Wf_replicate_zero _ _, ?_, ?_⟩
    · rw [val_replicate_zero, hshift, Nat.pow_add, Nat.mul_comm (2 ^ w), ← Nat.mul_assoc,
        Nat.mul_div_cancel _ (Nat.two_pow_pos w), Nat.pow_add, Nat.mul_comm (2 ^ (w * a.length)),
        ← Nat.mul_assoc, Nat.mul_mod_left]
    · simp only
      have e1 : val w (carry :: a) * 2 ^ shift / 2 ^ (w * (a.length + 1))
          = val w (carry :: a) * 2 ^ s' := by
        have : shift = w * (a.length + 1) + s' := by rw [hm]; omega
        rw [this, Nat.pow_add, Nat.mul_comm (2 ^ (w * (a.length + 1))), ← Nat.mul_assoc,
          Nat.mul_div_cancel _ (Nat.two_pow_pos _)]
      rw [e1, hV]
      have e2 : (carry + val w a * 2 ^ w) * 2 ^ s' = carry * 2 ^ s' + 2 ^ w * (val w a * 2 ^ s') := by
        ring
      rw [e2, Nat.add_mul_mod_self_left]
      split
      · rfl
      · rename_i hge
        have : 2 ^ s' = 2 ^ w * 2 ^ (s' - w) := by rw [← Nat.pow_add]; congr 1; omega
        rw [this, ← Nat.mul_assoc, Nat.mul_comm carry, Nat.mul_assoc, Nat.mul_mod_right]

end Bits


/-! ## wwOctetSize -/

namespace Bits

theorem mask_octet_bits (p j : Nat) :
    (0xFF * 2 ^ (8 * p)).testBit j = (decide (8 * p ≤ j) && decide (j - 8 * p < 8)) := by
  have : (0xFF : Nat) = 2 ^ 8 - 1 := by norm_num
  rw [this, Nat.testBit_mul_two_pow, Nat.testBit_two_pow_sub_one]

theorem and_octet_zero_iff {x p : Nat} (hx : x < 2 ^ (8 * (p + 1))) :
    x &&& (0xFF * 2 ^ (8 * p)) = 0 ↔ x < 2 ^ (8 * p) := by
  constructor
  · intro h
    apply Nat.lt_pow_two_of_testBit
    intro i hi
    by_cases c : i < 8 * (p + 1)
    · have := congrArg (fun y => y.testBit i) h
      simp only [Nat.testBit_and, mask_octet_bits, Nat.zero_testBit] at this
      have c1 : 8 * p ≤ i := hi
      have c2 : i - 8 * p < 8 := by omega
      simpa [c1, c2] using this
    · exact Nat.testBit_lt_two_pow (Nat.lt_of_lt_of_le hx (Nat.pow_le_pow_right (by decide) (by omega)))
  · intro h
    apply Nat.eq_of_testBit_eq
    intro j
    rw [Nat.testBit_and, mask_octet_bits, Nat.zero_testBit]
    by_cases c : 8 * p ≤ j
    · rw [Nat.testBit_lt_two_pow (Nat.lt_of_lt_of_le h (Nat.pow_le_pow_right (by decide) c))]
      rfl
    · simp [c]

/-- the octet scan of the top word: q = index of the highest non-zero octet + 1 -/
theorem octetLoop_spec (x : Nat) (hx0 : x ≠ 0) : ∀ p, x < 2 ^ (8 * p) →
    1 ≤ wwOctetSizeLoop x p (0xFF * 2 ^ (8 * (p - 1))) ∧
    wwOctetSizeLoop x p (0xFF * 2 ^ (8 * (p - 1))) ≤ p ∧
    x < 2 ^ (8 * wwOctetSizeLoop x p (0xFF * 2 ^ (8 * (p - 1)))) ∧
    2 ^ (8 * (wwOctetSizeLoop x p (0xFF * 2 ^ (8 * (p - 1))) - 1)) ≤ x := by
  intro p
  induction p with
  | zero => intro hx; simp at hx; omega
  | succ p ih =>
    intro hx
    simp only [wwOctetSizeLoop, Nat.add_sub_cancel]
    by_cases c : x &&& (0xFF * 2 ^ (8 * p)) = 0
    · have hlt := (and_octet_zero_iff hx).mp c
      have hp : p ≠ 0 := by
        intro e; subst e; simp at hlt; exact hx0 hlt
      have hmask : (0xFF * 2 ^ (8 * p)) >>> 8 = 0xFF * 2 ^ (8 * (p - 1)) := by
        have e : 8 * p = 8 * (p - 1) + 8 := by omega
        rw [Nat.shiftRight_eq_div_pow, e, Nat.pow_add, ← Nat.mul_assoc,
          Nat.mul_div_cancel _ (Nat.two_pow_pos 8)]
      have hb : (x &&& 0xFF * 2 ^ (8 * p) == 0) = true := by simp [c]
      rw [hb, if_pos rfl, hmask]
      obtain ⟨h1, h2, h3, h4⟩ := ih hlt
      exact ⟨h1, by omega, h3, h4⟩
    · have hb : (x &&& 0xFF * 2 ^ (8 * p) == 0) = false := by simp [c]
      rw [hb]
      simp only [Bool.false_eq_true, if_false, Nat.add_sub_cancel]
      refine ⟨by omega, Nat.le_refl _, hx, ?_⟩
      by_contra hlt
      exact c ((and_octet_zero_iff hx).mpr (by omega))

/-- the top non-zero word is the number divided by 2^(w(m-1)) -/
theorem val_top {w : Nat} (hw : 0 < w) (a : List Nat) (h : Wf w a) (m : Nat) (hm : 0 < m)
    (hz : ∀ i, m ≤ i → a.getD i 0 = 0) : val w a / 2 ^ (w * (m - 1)) = a.getD (m - 1) 0 := by
  apply Nat.eq_of_testBit_eq
  intro j
  rw [tb_div, testBit_val hw a h]
  by_cases c : j < w
  · obtain ⟨e1, e2⟩ := idx_lo hw (m - 1) j c
    rw [e1, e2]
  · have : m ≤ (w * (m - 1) + j) / w := by
      rw [Nat.mul_add_div hw]
      have : 1 ≤ j / w := (Nat.one_le_div_iff hw).mpr (by omega)
      omega
    rw [hz _ this, Nat.zero_testBit, testBit_high (getD_lt h _) (by omega)]

theorem wwOctetSize_gen {w : Nat} (O : Nat) (hO : 0 < O) (hw8 : w = 8 * O) (a : List Nat)
    (h : Wf w a) :
    val w a < 2 ^ (8 * wwOctetSize w a) ∧
    (0 < wwOctetSize w a → 2 ^ (8 * (wwOctetSize w a - 1)) ≤ val w a) ∧
    wwOctetSize w a ≤ O * a.length := by
  have hw : 0 < w := by omega
  obtain ⟨h1, h2, h3⟩ := wwWordSize_spec' a
  unfold wwOctetSize
  simp only
  generalize wwWordSize a = m at *
  by_cases hm : m = 0
  · subst hm
    have hv : val w a = 0 := by
      apply Nat.eq_of_testBit_eq; intro k
      rw [testBit_val hw a h, h2 _ (Nat.zero_le _), Nat.zero_testBit, Nat.zero_testBit]
    simp [hv]
  · have hmp : 0 < m := Nat.pos_of_ne_zero hm
    have htop := h3 hmp
    have hlt := getD_lt h (m - 1)
    have hwO : w / 8 = O := by rw [hw8]; omega
    rw [if_neg hm, hwO]
    have hmask : wshl w 0xFF (8 * (O - 1)) = 0xFF * 2 ^ (8 * (O - 1)) := by
      unfold wshl
      apply Nat.mod_eq_of_lt
      have e : w = 8 * (O - 1) + 8 := by omega
      rw [e, Nat.pow_add]
      rw [Nat.mul_comm (2 ^ (8 * (O - 1)))]
      exact Nat.mul_lt_mul_of_pos_right (by norm_num : (0xFF : Nat) < 2 ^ 8) (Nat.two_pow_pos _)
    have e1 : O - 1 + 1 = O := by omega
    rw [hmask, e1]
    have hx : a.getD (m - 1) 0 < 2 ^ (8 * O) := by rw [← hw8]; exact hlt
    obtain ⟨q1, q2, q3, q4⟩ := octetLoop_spec _ htop O hx
    generalize wwOctetSizeLoop (a.getD (m - 1) 0) O (0xFF * 2 ^ (8 * (O - 1))) = q at *
    have htopv := val_top hw a h m hmp h2
    have e8 : 8 * ((m - 1) * O + q) = w * (m - 1) + 8 * q := by rw [hw8]; ring
    refine ⟨?_, fun _ => ?_, ?_⟩
    · rw [e8, Nat.pow_add]
      have := (Nat.div_lt_iff_lt_mul (Nat.two_pow_pos (w * (m - 1)))).mp (by rw [htopv]; exact q3)
      rw [Nat.mul_comm]; exact this
    · have e9 : 8 * ((m - 1) * O + q - 1) = w * (m - 1) + 8 * (q - 1) := by
        have : (m - 1) * O + q - 1 = (m - 1) * O + (q - 1) := by omega
        rw [this, hw8]; ring
      rw [e9, Nat.pow_add, Nat.mul_comm]
      exact (Nat.le_div_iff_mul_le (Nat.two_pow_pos (w * (m - 1)))).mp (by rw [htopv]; exact q4)
    · have : (m - 1) * O + O ≤ O * a.length := by
        have : (m - 1 + 1) * O ≤ a.length * O := Nat.mul_le_mul_right O (by omega)
        rw [Nat.add_mul, Nat.one_mul, Nat.mul_comm a.length] at this; exact this
      omega

end Bits


/-! ## uNNParity, all words -/

namespace Bits

/-- XOR of the bits j, …, j+m-1 of x -/
def xorBits (x j : Nat) : Nat → Bool
  | 0 => false
  | m + 1 => xorBits x j m ^^ x.testBit (j + m)

theorem xorBits_add (x j m : Nat) : ∀ n, xorBits x j (m + n) = (xorBits x j m ^^ xorBits x (j + m) n) := by
  intro n
  induction n with
  | zero => simp [xorBits]
  | succ n ih =>
    rw [← Nat.add_assoc, xorBits, ih, xorBits, Bool.xor_assoc, Nat.add_assoc]

theorem xorBits_one (x j : Nat) : xorBits x j 1 = x.testBit j := by simp [xorBits]

theorem xfold_step {w x m : Nat} (h : ∀ j, w.testBit j = xorBits x j m) :
    ∀ j, (w ^^^ (w >>> m)).testBit j = xorBits x j (m + m) := by
  intro j
  rw [Nat.testBit_xor, Nat.testBit_shiftRight, h, h, xorBits_add, Nat.add_comm m j]

theorem popN_parity (x : Nat) : ∀ m j, popN m (x / 2 ^ j) % 2 = (xorBits x j m).toNat := by
  intro m
  induction m with
  | zero => intro j; simp [popN, xorBits]
  | succ m ih =>
    intro j
    have e : xorBits x j (m + 1) = (x.testBit j ^^ xorBits x (j + 1) m) := by
      rw [Nat.add_comm m 1, xorBits_add, xorBits_one]
    have e2 : x / 2 ^ j / 2 = x / 2 ^ (j + 1) := by
      rw [Nat.div_div_eq_div_mul, Nat.pow_succ]
    rw [popN, e, e2, Nat.add_mod, ih (j + 1), Nat.testBit_eq_decide_div_mod_eq]
    have h2 : x / 2 ^ j % 2 < 2 := Nat.mod_lt _ (by decide)
    rcases Nat.lt_or_ge (x / 2 ^ j % 2) 1 with c | c
    · have e3 : x / 2 ^ j % 2 = 0 := by omega
      rw [e3]; cases xorBits x (j + 1) m <;> simp
    · have e3 : x / 2 ^ j % 2 = 1 := by omega
      rw [e3]; cases xorBits x (j + 1) m <;> simp

theorem and_one_testBit (w : Nat) : w &&& 1 = (w.testBit 0).toNat := by
  rw [Nat.and_one_is_mod, Nat.testBit_zero]
  rcases Nat.mod_two_eq_zero_or_one w with h | h <;> simp [h]

theorem u32Parity_gen (x : Nat) : u32Parity x = popN 32 x % 2 := by
  have s0 : ∀ j, x.testBit j = xorBits x j 1 := fun j => (xorBits_one x j).symm
  have s5 := xfold_step (xfold_step (xfold_step (xfold_step (xfold_step s0))))
  have := popN_parity x 32 0
  rw [Nat.pow_zero, Nat.div_one] at this
  rw [this, ← s5 0]
  unfold u32Parity
  simp only []
  exact and_one_testBit _

theorem u64Parity_gen (x : Nat) : u64Parity x = popN 64 x % 2 := by
  have s0 : ∀ j, x.testBit j = xorBits x j 1 := fun j => (xorBits_one x j).symm
  have s6 := xfold_step (xfold_step (xfold_step (xfold_step (xfold_step (xfold_step s0)))))
  have := popN_parity x 64 0
  rw [Nat.pow_zero, Nat.div_one] at this
  rw [this, ← s6 0]
  unfold u64Parity
  simp only []
  exact and_one_testBit _

end Bits


/-! ## uNNShuffle / uNNDeshuffle, all words: every stage is an involutive swap of bit groups -/

namespace Bits

/-- one stage of uNNShuffle / uNNDeshuffle:
    `t = (w ^ (w >> s)) & m, w ^= t ^ (t << s)` in words of `M = 2^N` -/
def swapStage (M m s w : Nat) : Nat :=
  let t := (w ^^^ (w >>> s)) &&& m
  w ^^^ (t ^^^ ((t <<< s) % M))

/-- the mask selects bit groups that do not overlap with their images under `<< s` -/
def MaskOK (N m s : Nat) : Prop :=
  ∀ j, m.testBit j = true → j + s < N ∧ m.testBit (j + s) = false ∧ (s ≤ j → m.testBit (j - s) = false)

theorem maskOK_of_bounded {N m s : Nat} (hm : m < 2 ^ N)
    (h : ∀ j, j < N → m.testBit j = true →
      j + s < N ∧ m.testBit (j + s) = false ∧ (s ≤ j → m.testBit (j - s) = false)) : MaskOK N m s := by
  intro j hj
  by_cases c : j < N
  · exact h j c hj
  · rw [Nat.testBit_lt_two_pow (Nat.lt_of_lt_of_le hm (Nat.pow_le_pow_right (by decide) (by omega)))] at hj
    exact absurd hj (by decide)

/-- a stage swaps bit j (selected by m) with bit j + s and leaves the other bits alone -/
theorem swapStage_bits {N m s : Nat} (ok : MaskOK N m s) (w j : Nat) :
    (swapStage (2 ^ N) m s w).testBit j =
      if m.testBit j = true then w.testBit (j + s)
      else if s ≤ j ∧ m.testBit (j - s) = true then w.testBit (j - s) else w.testBit j := by
  unfold swapStage
  simp only [Nat.testBit_xor, Nat.testBit_and, Nat.testBit_mod_two_pow, Nat.testBit_shiftLeft,
    Nat.testBit_shiftRight]
  by_cases c1 : m.testBit j = true
  · obtain ⟨_, _, h3⟩ := ok j c1
    rw [if_pos c1, c1]
    by_cases c2 : s ≤ j
    · rw [h3 c2, Nat.add_comm s j]
      cases w.testBit j <;> cases w.testBit (j + s) <;> simp
    · rw [Nat.add_comm s j]
      cases w.testBit j <;> cases w.testBit (j + s) <;> simp [c2]
  · have c1' : m.testBit j = false := by simpa using c1
    rw [if_neg c1, c1']
    by_cases c2 : s ≤ j ∧ m.testBit (j - s) = true
    · obtain ⟨h1, _, _⟩ := ok (j - s) c2.2
      have hjN : j < N := by omega
      have e : s + (j - s) = j := by omega
      rw [if_pos c2, c2.2, e]
      cases w.testBit j <;> cases w.testBit (j - s) <;> simp [hjN, c2.1]
    · rw [if_neg c2]
      by_cases c3 : s ≤ j
      · have : m.testBit (j - s) = false := by
          cases hh : m.testBit (j - s)
          · rfl
          · exact absurd ⟨c3, hh⟩ c2
        rw [this]; simp
      · simp [c3]

theorem swapStage_invol {N m s : Nat} (ok : MaskOK N m s) (w : Nat) :
    swapStage (2 ^ N) m s (swapStage (2 ^ N) m s w) = w := by
  apply Nat.eq_of_testBit_eq
  intro j
  rw [swapStage_bits ok]
  by_cases c1 : m.testBit j = true
  · obtain ⟨_, h2, _⟩ := ok j c1
    have c2 : ¬ m.testBit (j + s) = true := by rw [h2]; decide
    have c3 : s ≤ j + s ∧ m.testBit (j + s - s) = true := by
      rw [Nat.add_sub_cancel]; exact ⟨Nat.le_add_left _ _, c1⟩
    rw [if_pos c1, swapStage_bits ok, if_neg c2, if_pos c3, Nat.add_sub_cancel]
  · rw [if_neg c1]
    by_cases c2 : s ≤ j ∧ m.testBit (j - s) = true
    · have e : j - s + s = j := by omega
      rw [if_pos c2, swapStage_bits ok, if_pos c2.2, e]
    · rw [if_neg c2, swapStage_bits ok, if_neg c1, if_neg c2]

theorem ok32_8 : MaskOK 32 0x0000FF00 8 :=
  maskOK_of_bounded (by norm_num) (by decide)
theorem ok32_4 : MaskOK 32 0x00F000F0 4 :=
  maskOK_of_bounded (by norm_num) (by decide)
theorem ok32_2 : MaskOK 32 0x0C0C0C0C 2 :=
  maskOK_of_bounded (by norm_num) (by decide)
theorem ok32_1 : MaskOK 32 0x22222222 1 :=
  maskOK_of_bounded (by norm_num) (by decide)
theorem ok64_16 : MaskOK 64 0x00000000FFFF0000 16 :=
  maskOK_of_bounded (by norm_num) (by decide)
theorem ok64_8 : MaskOK 64 0x0000FF000000FF00 8 :=
  maskOK_of_bounded (by norm_num) (by decide)
theorem ok64_4 : MaskOK 64 0x00F000F000F000F0 4 :=
  maskOK_of_bounded (by norm_num) (by decide)
theorem ok64_2 : MaskOK 64 0x0C0C0C0C0C0C0C0C 2 :=
  maskOK_of_bounded (by norm_num) (by decide)
theorem ok64_1 : MaskOK 64 0x2222222222222222 1 :=
  maskOK_of_bounded (by norm_num) (by decide)

theorem u32Shuffle_stages (x : Nat) : u32Shuffle x =
    swapStage (2 ^ 32) 0x22222222 1 (swapStage (2 ^ 32) 0x0C0C0C0C 2
      (swapStage (2 ^ 32) 0x00F000F0 4 (swapStage (2 ^ 32) 0x0000FF00 8 x))) := rfl
theorem u32Deshuffle_stages (x : Nat) : u32Deshuffle x =
    swapStage (2 ^ 32) 0x0000FF00 8 (swapStage (2 ^ 32) 0x00F000F0 4
      (swapStage (2 ^ 32) 0x0C0C0C0C 2 (swapStage (2 ^ 32) 0x22222222 1 x))) := rfl
theorem u64Shuffle_stages (x : Nat) : u64Shuffle x =
    swapStage (2 ^ 64) 0x2222222222222222 1 (swapStage (2 ^ 64) 0x0C0C0C0C0C0C0C0C 2
      (swapStage (2 ^ 64) 0x00F000F000F000F0 4 (swapStage (2 ^ 64) 0x0000FF000000FF00 8
        (swapStage (2 ^ 64) 0x00000000FFFF0000 16 x)))) := rfl
theorem u64Deshuffle_stages (x : Nat) : u64Deshuffle x =
    swapStage (2 ^ 64) 0x00000000FFFF0000 16 (swapStage (2 ^ 64) 0x0000FF000000FF00 8
      (swapStage (2 ^ 64) 0x00F000F000F000F0 4 (swapStage (2 ^ 64) 0x0C0C0C0C0C0C0C0C 2
        (swapStage (2 ^ 64) 0x2222222222222222 1 x)))) := rfl

theorem u32Deshuffle_Shuffle_gen (x : Nat) : u32Deshuffle (u32Shuffle x) = x := by
  rw [u32Shuffle_stages, u32Deshuffle_stages, swapStage_invol ok32_1, swapStage_invol ok32_2,
    swapStage_invol ok32_4, swapStage_invol ok32_8]
theorem u32Shuffle_Deshuffle_gen (x : Nat) : u32Shuffle (u32Deshuffle x) = x := by
  rw [u32Shuffle_stages, u32Deshuffle_stages, swapStage_invol ok32_8, swapStage_invol ok32_4,
    swapStage_invol ok32_2, swapStage_invol ok32_1]
theorem u64Deshuffle_Shuffle_gen (x : Nat) : u64Deshuffle (u64Shuffle x) = x := by
  rw [u64Shuffle_stages, u64Deshuffle_stages, swapStage_invol ok64_1, swapStage_invol ok64_2,
    swapStage_invol ok64_4, swapStage_invol ok64_8, swapStage_invol ok64_16]
theorem u64Shuffle_Deshuffle_gen (x : Nat) : u64Shuffle (u64Deshuffle x) = x := by
  rw [u64Shuffle_stages, u64Deshuffle_stages, swapStage_invol ok64_16, swapStage_invol ok64_8,
    swapStage_invol ok64_4, swapStage_invol ok64_2, swapStage_invol ok64_1]

theorem shufN_bits : ∀ (k lo hi j : Nat), (shufN k lo hi).testBit j =
    (decide (j < 2 * k) && (if j % 2 = 0 then lo.testBit (j / 2) else hi.testBit (j / 2))) := by
  intro k
  induction k with
  | zero => intro lo hi j; simp [shufN]
  | succ k ih =>
    intro lo hi j
    have e : shufN (k + 1) lo hi = 2 ^ 2 * shufN k (lo / 2) (hi / 2) + (lo % 2 + 2 * (hi % 2)) := by
      simp only [shufN]; omega
    have hb : lo % 2 + 2 * (hi % 2) < 2 ^ 2 := by omega
    rw [e, Nat.testBit_two_pow_mul_add _ hb]
    by_cases c : j < 2
    · rw [if_pos c]
      have hj : j = 0 ∨ j = 1 := by omega
      rcases hj with rfl | rfl
      · rw [Nat.testBit_zero, Nat.testBit_zero]
        have : (lo % 2 + 2 * (hi % 2)) % 2 = lo % 2 := by omega
        simp [this]
      · have h1 : (lo % 2 + 2 * (hi % 2)).testBit 1 = hi.testBit 0 := by
          rw [Nat.testBit_eq_decide_div_mod_eq, Nat.testBit_zero]
          have : (lo % 2 + 2 * (hi % 2)) / 2 ^ 1 % 2 = hi % 2 := by omega
          rw [this]
        have hk : 1 < 2 * (k + 1) := by omega
        rw [h1]; simp [hk]
    · rw [if_neg c, ih]
      have e1 : (j - 2) % 2 = j % 2 := by omega
      have e2 : (j - 2) / 2 + 1 = j / 2 := by omega
      have e3 : (decide (j - 2 < 2 * k)) = decide (j < 2 * (k + 1)) := by
        apply decide_eq_decide.mpr; omega
      rw [e1, e3, ← e2, Nat.testBit_succ, Nat.testBit_succ]

theorem swapStage_lt {N m s w : Nat} (ok : MaskOK N m s) (hw : w < 2 ^ N) :
    swapStage (2 ^ N) m s w < 2 ^ N := by
  apply Nat.lt_pow_two_of_testBit
  intro j hj
  have hwj : ∀ i, N ≤ i → w.testBit i = false := fun i hi =>
    Nat.testBit_lt_two_pow (Nat.lt_of_lt_of_le hw (Nat.pow_le_pow_right (by decide) hi))
  rw [swapStage_bits ok]
  split
  · exact hwj _ (by omega)
  · split
    · rename_i h2
      have := (ok _ h2.2).1
      omega
    · exact hwj _ hj

theorem sb32_8 (w j : Nat) : (swapStage 4294967296 0x0000FF00 8 w).testBit j =
    if (0x0000FF00 : Nat).testBit j = true then w.testBit (j + 8)
    else if 8 ≤ j ∧ (0x0000FF00 : Nat).testBit (j - 8) = true then w.testBit (j - 8) else w.testBit j :=
  swapStage_bits ok32_8 w j
theorem sb32_4 (w j : Nat) : (swapStage 4294967296 0x00F000F0 4 w).testBit j =
    if (0x00F000F0 : Nat).testBit j = true then w.testBit (j + 4)
    else if 4 ≤ j ∧ (0x00F000F0 : Nat).testBit (j - 4) = true then w.testBit (j - 4) else w.testBit j :=
  swapStage_bits ok32_4 w j
theorem sb32_2 (w j : Nat) : (swapStage 4294967296 0x0C0C0C0C 2 w).testBit j =
    if (0x0C0C0C0C : Nat).testBit j = true then w.testBit (j + 2)
    else if 2 ≤ j ∧ (0x0C0C0C0C : Nat).testBit (j - 2) = true then w.testBit (j - 2) else w.testBit j :=
  swapStage_bits ok32_2 w j
theorem sb32_1 (w j : Nat) : (swapStage 4294967296 0x22222222 1 w).testBit j =
    if (0x22222222 : Nat).testBit j = true then w.testBit (j + 1)
    else if 1 ≤ j ∧ (0x22222222 : Nat).testBit (j - 1) = true then w.testBit (j - 1) else w.testBit j :=
  swapStage_bits ok32_1 w j
theorem sb64_16 (w j : Nat) : (swapStage 18446744073709551616 0x00000000FFFF0000 16 w).testBit j =
    if (0x00000000FFFF0000 : Nat).testBit j = true then w.testBit (j + 16)
    else if 16 ≤ j ∧ (0x00000000FFFF0000 : Nat).testBit (j - 16) = true then w.testBit (j - 16) else w.testBit j :=
  swapStage_bits ok64_16 w j
theorem sb64_8 (w j : Nat) : (swapStage 18446744073709551616 0x0000FF000000FF00 8 w).testBit j =
    if (0x0000FF000000FF00 : Nat).testBit j = true then w.testBit (j + 8)
    else if 8 ≤ j ∧ (0x0000FF000000FF00 : Nat).testBit (j - 8) = true then w.testBit (j - 8) else w.testBit j :=
  swapStage_bits ok64_8 w j
theorem sb64_4 (w j : Nat) : (swapStage 18446744073709551616 0x00F000F000F000F0 4 w).testBit j =
    if (0x00F000F000F000F0 : Nat).testBit j = true then w.testBit (j + 4)
    else if 4 ≤ j ∧ (0x00F000F000F000F0 : Nat).testBit (j - 4) = true then w.testBit (j - 4) else w.testBit j :=
  swapStage_bits ok64_4 w j
theorem sb64_2 (w j : Nat) : (swapStage 18446744073709551616 0x0C0C0C0C0C0C0C0C 2 w).testBit j =
    if (0x0C0C0C0C0C0C0C0C : Nat).testBit j = true then w.testBit (j + 2)
    else if 2 ≤ j ∧ (0x0C0C0C0C0C0C0C0C : Nat).testBit (j - 2) = true then w.testBit (j - 2) else w.testBit j :=
  swapStage_bits ok64_2 w j
theorem sb64_1 (w j : Nat) : (swapStage 18446744073709551616 0x2222222222222222 1 w).testBit j =
    if (0x2222222222222222 : Nat).testBit j = true then w.testBit (j + 1)
    else if 1 ≤ j ∧ (0x2222222222222222 : Nat).testBit (j - 1) = true then w.testBit (j - 1) else w.testBit j :=
  swapStage_bits ok64_1 w j

theorem u32Shuffle_gen (x : Nat) (hx : x < 2 ^ 32) :
    u32Shuffle x = shufN 16 (x % 2 ^ 16) (x / 2 ^ 16) := by
  apply Nat.eq_of_testBit_eq
  intro j
  rw [shufN_bits, Nat.testBit_mod_two_pow, tb_div]
  by_cases hj : j < 32
  · rw [u32Shuffle_stages]
    interval_cases j <;>
      simp (decide := true) [sb32_1, sb32_2, sb32_4, sb32_8, -Nat.testBit_zero]
  · have hlt : u32Shuffle x < 2 ^ 32 := by
      rw [u32Shuffle_stages]
      exact swapStage_lt ok32_1 (swapStage_lt ok32_2 (swapStage_lt ok32_4 (swapStage_lt ok32_8 hx)))
    rw [testBit_high hlt (by omega)]
    simp [hj]

theorem u64Shuffle_gen (x : Nat) (hx : x < 2 ^ 64) :
    u64Shuffle x = shufN 32 (x % 2 ^ 32) (x / 2 ^ 32) := by
  apply Nat.eq_of_testBit_eq
  intro j
  rw [shufN_bits, Nat.testBit_mod_two_pow, tb_div]
  by_cases hj : j < 64
  · rw [u64Shuffle_stages]
    interval_cases j <;>
      simp (decide := true) [sb64_1, sb64_2, sb64_4, sb64_8, sb64_16, -Nat.testBit_zero]
  · have hlt : u64Shuffle x < 2 ^ 64 := by
      rw [u64Shuffle_stages]
      exact swapStage_lt ok64_1 (swapStage_lt ok64_2 (swapStage_lt ok64_4 (swapStage_lt ok64_8
        (swapStage_lt ok64_16 hx))))
    rw [testBit_high hlt (by omega)]
    simp [hj]

end Bits


/-! ## uNNRev, uNNBitrev, all words -/

/-- reversal of the low `k` octets: octet i goes to octet k-1-i -/
def octRevN : Nat → Nat → Nat
  | 0, _ => 0
  | k + 1, x => (x % 256) * 256 ^ k + octRevN k (x / 256)

namespace Bits

theorem bitrevN_lt : ∀ k x, bitrevN k x < 2 ^ k := by
  intro k
  induction k with
  | zero => intro x; simp [bitrevN]
  | succ k ih =>
    intro x
    have := ih (x / 2)
    have h2 : x % 2 < 2 := Nat.mod_lt _ (by decide)
    have : x % 2 * 2 ^ k ≤ 1 * 2 ^ k := Nat.mul_le_mul_right _ (by omega)
    rw [bitrevN, Nat.pow_succ]; omega

theorem bitrevN_bits : ∀ k x j, (bitrevN k x).testBit j = (decide (j < k) && x.testBit (k - 1 - j)) := by
  intro k
  induction k with
  | zero => intro x j; simp [bitrevN]
  | succ k ih =>
    intro x j
    rw [bitrevN, Nat.mul_comm, Nat.testBit_two_pow_mul_add _ (bitrevN_lt k _)]
    by_cases c : j < k
    · have e : k + 1 - 1 - j = (k - 1 - j) + 1 := by omega
      have c2 : j < k + 1 := by omega
      rw [if_pos c, ih, e, Nat.testBit_succ]; simp [c, c2]
    · rw [if_neg c]
      by_cases c3 : j = k
      · subst c3
        have e : j + 1 - 1 - j = 0 := by omega
        rw [Nat.sub_self, e, Nat.testBit_zero, Nat.testBit_zero]; simp
      · have c4 : ¬ j < k + 1 := by omega
        obtain ⟨i, hi⟩ : ∃ i, j - k = i + 1 := ⟨j - k - 1, by omega⟩
        have : (x % 2).testBit (i + 1) = false := by
          rw [Nat.testBit_succ]
          have : x % 2 / 2 = 0 := by omega
          rw [this, Nat.zero_testBit]
        rw [hi, this]; simp [c4]

theorem octRevN_lt : ∀ k x, octRevN k x < 2 ^ (8 * k) := by
  intro k
  induction k with
  | zero => intro x; simp [octRevN]
  | succ k ih =>
    intro x
    have := ih (x / 256)
    have e : (256 : Nat) ^ k = 2 ^ (8 * k) := by rw [Nat.pow_mul]
    have h2 : x % 256 < 256 := Nat.mod_lt _ (by decide)
    have : x % 256 * 2 ^ (8 * k) ≤ 255 * 2 ^ (8 * k) := Nat.mul_le_mul_right _ (by omega)
    have e2 : 2 ^ (8 * (k + 1)) = 256 * 2 ^ (8 * k) := by
      rw [Nat.mul_add, Nat.pow_add]; ring
    rw [octRevN, e, e2]; omega

theorem octRevN_bits : ∀ k x j, (octRevN k x).testBit j =
    (decide (j < 8 * k) && x.testBit (8 * (k - 1 - j / 8) + j % 8)) := by
  intro k
  induction k with
  | zero => intro x j; simp [octRevN]
  | succ k ih =>
    intro x j
    have e : (256 : Nat) ^ k = 2 ^ (8 * k) := by rw [Nat.pow_mul]
    rw [octRevN, e, Nat.mul_comm, Nat.testBit_two_pow_mul_add _ (octRevN_lt k _)]
    by_cases c : j < 8 * k
    · have c2 : j < 8 * (k + 1) := by omega
      have e3 : 8 * (k + 1 - 1 - j / 8) + j % 8 = 8 + (8 * (k - 1 - j / 8) + j % 8) := by omega
      have e4 : (256 : Nat) = 2 ^ 8 := by norm_num
      rw [if_pos c, ih, e3, e4, tb_div]; simp [c, c2]
    · rw [if_neg c]
      have e4 : (256 : Nat) = 2 ^ 8 := by norm_num
      rw [e4, Nat.testBit_mod_two_pow]
      by_cases c3 : j < 8 * (k + 1)
      · have e5 : 8 * (k + 1 - 1 - j / 8) + j % 8 = j - 8 * k := by omega
        have c5 : j - 8 * k < 8 := by omega
        rw [e5]; simp [c3, c5]
      · have c5 : ¬ j - 8 * k < 8 := by omega
        simp [c3, c5]

/-- one stage of uNNBitrev: `w = ((w >> s) & m) | ((w & m) << s)` in words of M = 2^N -/
def brStage (M m s w : Nat) : Nat := ((w >>> s) &&& m) ||| (((w &&& m) <<< s) % M)
/-- the last stage: `w = (w >> s) | (w << s)` -/
def brFin (M s w : Nat) : Nat := (w >>> s) ||| ((w <<< s) % M)

theorem brStage_bits (N m s w j : Nat) : (brStage (2 ^ N) m s w).testBit j =
    ((if m.testBit j = true then w.testBit (j + s) else false) ||
      (if j < N ∧ s ≤ j ∧ m.testBit (j - s) = true then w.testBit (j - s) else false)) := by
  unfold brStage
  rw [Nat.testBit_or, Nat.testBit_and, Nat.testBit_shiftRight, Nat.testBit_mod_two_pow,
    Nat.testBit_shiftLeft, Nat.testBit_and, Nat.add_comm s j]
  by_cases c1 : m.testBit j = true
  · by_cases c2 : j < N ∧ s ≤ j ∧ m.testBit (j - s) = true
    · rw [if_pos c1, if_pos c2, c1, c2.2.2]; simp [c2.1, c2.2.1]
    · rw [if_pos c1, if_neg c2, c1]
      by_cases d1 : j < N
      · by_cases d2 : s ≤ j
        · have : m.testBit (j - s) = false := by
            cases hh : m.testBit (j - s)
            · rfl
            · exact absurd ⟨d1, d2, hh⟩ c2
          simp [this]
        · simp [d2]
      · simp [d1]
  · have c1' : m.testBit j = false := by simpa using c1
    by_cases c2 : j < N ∧ s ≤ j ∧ m.testBit (j - s) = true
    · rw [if_neg c1, if_pos c2, c1', c2.2.2]; simp [c2.1, c2.2.1]
    · rw [if_neg c1, if_neg c2, c1']
      by_cases d1 : j < N
      · by_cases d2 : s ≤ j
        · have : m.testBit (j - s) = false := by
            cases hh : m.testBit (j - s)
            · rfl
            · exact absurd ⟨d1, d2, hh⟩ c2
          simp [this]
        · simp [d2]
      · simp [d1]

theorem brFin_bits (N s w j : Nat) : (brFin (2 ^ N) s w).testBit j =
    (w.testBit (j + s) || (if j < N ∧ s ≤ j then w.testBit (j - s) else false)) := by
  unfold brFin
  rw [Nat.testBit_or, Nat.testBit_shiftRight, Nat.testBit_mod_two_pow, Nat.testBit_shiftLeft,
    Nat.add_comm s j]
  by_cases c : j < N ∧ s ≤ j
  · rw [if_pos c]; simp [c.1, c.2]
  · rw [if_neg c]
    by_cases d1 : j < N
    · have : ¬ s ≤ j := fun h => c ⟨d1, h⟩
      simp [this]
    · simp [d1]

theorem brStage_lt {N m s w : Nat} (hm : m < 2 ^ N) : brStage (2 ^ N) m s w < 2 ^ N :=
  Nat.or_lt_two_pow (Nat.and_lt_two_pow _ hm) (Nat.mod_lt _ (Nat.two_pow_pos N))
theorem brFin_lt {N s w : Nat} (hw : w < 2 ^ N) : brFin (2 ^ N) s w < 2 ^ N :=
  Nat.or_lt_two_pow (Nat.lt_of_le_of_lt (by rw [Nat.shiftRight_eq_div_pow]; exact Nat.div_le_self _ _) hw)
    (Nat.mod_lt _ (Nat.two_pow_pos N))

theorem u32Bitrev_stages (x : Nat) : u32Bitrev x =
    brFin 4294967296 16 (brStage 4294967296 0x00FF00FF 8 (brStage 4294967296 0x0F0F0F0F 4
      (brStage 4294967296 0x33333333 2 (brStage 4294967296 0x55555555 1 x)))) := rfl
theorem u64Bitrev_stages (x : Nat) : u64Bitrev x =
    brFin 18446744073709551616 32 (brStage 18446744073709551616 0x0000FFFF0000FFFF 16
      (brStage 18446744073709551616 0x00FF00FF00FF00FF 8
      (brStage 18446744073709551616 0x0F0F0F0F0F0F0F0F 4
      (brStage 18446744073709551616 0x3333333333333333 2
      (brStage 18446744073709551616 0x5555555555555555 1 x))))) := rfl

theorem bs32 (m s w j : Nat) : (brStage 4294967296 m s w).testBit j =
    ((if m.testBit j = true then w.testBit (j + s) else false) ||
      (if j < 32 ∧ s ≤ j ∧ m.testBit (j - s) = true then w.testBit (j - s) else false)) :=
  brStage_bits 32 m s w j
theorem bf32 (s w j : Nat) : (brFin 4294967296 s w).testBit j =
    (w.testBit (j + s) || (if j < 32 ∧ s ≤ j then w.testBit (j - s) else false)) := brFin_bits 32 s w j
theorem bs64 (m s w j : Nat) : (brStage 18446744073709551616 m s w).testBit j =
    ((if m.testBit j = true then w.testBit (j + s) else false) ||
      (if j < 64 ∧ s ≤ j ∧ m.testBit (j - s) = true then w.testBit (j - s) else false)) :=
  brStage_bits 64 m s w j
theorem bf64 (s w j : Nat) : (brFin 18446744073709551616 s w).testBit j =
    (w.testBit (j + s) || (if j < 64 ∧ s ≤ j then w.testBit (j - s) else false)) := brFin_bits 64 s w j

/-- u32Bitrev reverses the 32 bits (for every x: only the low 32 bits of x are read) -/
theorem u32Bitrev_gen (x : Nat) : u32Bitrev x = bitrevN 32 x := by
  apply Nat.eq_of_testBit_eq
  intro j
  rw [bitrevN_bits]
  by_cases hj : j < 32
  · rw [u32Bitrev_stages]
    interval_cases j <;> simp (decide := true) [bs32, bf32, -Nat.testBit_zero]
  · have hlt : u32Bitrev x < 2 ^ 32 := by
      rw [u32Bitrev_stages]
      exact brFin_lt (N := 32) (brStage_lt (N := 32) (by norm_num))
    rw [testBit_high hlt (by omega)]
    simp [hj]

theorem u64Bitrev_gen (x : Nat) : u64Bitrev x = bitrevN 64 x := by
  apply Nat.eq_of_testBit_eq
  intro j
  rw [bitrevN_bits]
  by_cases hj : j < 64
  · rw [u64Bitrev_stages]
    interval_cases j <;> simp (decide := true) [bs64, bf64, -Nat.testBit_zero]
  · have hlt : u64Bitrev x < 2 ^ 64 := by
      rw [u64Bitrev_stages]
      exact brFin_lt (N := 64) (brStage_lt (N := 64) (by norm_num))
    rw [testBit_high hlt (by omega)]
    simp [hj]

theorem mo1 (j : Nat) : Nat.testBit 65280 j = (decide (8 ≤ j) && decide (j - 8 < 8)) :=
  mask_octet_bits 1 j
theorem mo2 (j : Nat) : Nat.testBit 16711680 j = (decide (16 ≤ j) && decide (j - 16 < 8)) :=
  mask_octet_bits 2 j
theorem mo3 (j : Nat) : Nat.testBit 4278190080 j = (decide (24 ≤ j) && decide (j - 24 < 8)) :=
  mask_octet_bits 3 j

theorem u32Rev_gen (x : Nat) (hx : x < 2 ^ 32) : u32Rev x = octRevN 4 x := by
  have hhi : ∀ i, 32 ≤ i → x.testBit i = false := fun i hi =>
    Nat.testBit_lt_two_pow (Nat.lt_of_lt_of_le hx (Nat.pow_le_pow_right (by decide) hi))
  have hlt : u32Rev x < 2 ^ 32 := by
    unfold u32Rev
    refine Nat.or_lt_two_pow (Nat.or_lt_two_pow (Nat.or_lt_two_pow (Nat.mod_lt _ (by norm_num))
      (Nat.mod_lt _ (by norm_num))) (Nat.and_lt_two_pow _ (by norm_num))) ?_
    rw [Nat.shiftRight_eq_div_pow]
    exact Nat.lt_of_le_of_lt (Nat.div_le_self _ _) hx
  apply Nat.eq_of_testBit_eq
  intro j
  rw [octRevN_bits]
  by_cases hj : j < 32
  · unfold u32Rev
    simp only [Nat.testBit_or, Nat.testBit_and, Nat.testBit_shiftRight, Nat.testBit_shiftLeft,
      show (0x100000000 : Nat) = 2 ^ 32 from by norm_num, Nat.testBit_mod_two_pow]
    interval_cases j <;> simp (decide := true) [hhi, mo1, mo2, mo3, -Nat.testBit_zero]
  · rw [testBit_high hlt (by omega)]
    simp [hj]

theorem u64Rev_gen (x : Nat) (hx : x < 2 ^ 64) : u64Rev x = octRevN 8 x := by
  have hhi : ∀ i, 64 ≤ i → x.testBit i = false := fun i hi =>
    Nat.testBit_lt_two_pow (Nat.lt_of_lt_of_le hx (Nat.pow_le_pow_right (by decide) hi))
  have hlt : u64Rev x < 2 ^ 64 := by
    unfold u64Rev
    refine Nat.or_lt_two_pow (Nat.or_lt_two_pow (Nat.or_lt_two_pow (Nat.or_lt_two_pow
      (Nat.or_lt_two_pow (Nat.or_lt_two_pow (Nat.or_lt_two_pow (Nat.mod_lt _ (by norm_num))
      (Nat.mod_lt _ (by norm_num))) (Nat.mod_lt _ (by norm_num))) (Nat.mod_lt _ (by norm_num)))
      (Nat.and_lt_two_pow _ (by norm_num))) (Nat.and_lt_two_pow _ (by norm_num)))
      (Nat.and_lt_two_pow _ (by norm_num))) ?_
    rw [Nat.shiftRight_eq_div_pow]
    exact Nat.lt_of_le_of_lt (Nat.div_le_self _ _) hx
  apply Nat.eq_of_testBit_eq
  intro j
  rw [octRevN_bits]
  by_cases hj : j < 64
  · unfold u64Rev
    simp only [Nat.testBit_or, Nat.testBit_and, Nat.testBit_shiftRight, Nat.testBit_shiftLeft,
      show (0x10000000000000000 : Nat) = 2 ^ 64 from by norm_num, Nat.testBit_mod_two_pow]
    interval_cases j <;> simp (decide := true) [hhi, mo1, mo2, mo3, -Nat.testBit_zero]
  · rw [testBit_high hlt (by omega)]
    simp [hj]

end Bits


/-! ## uNNWeight on the arguments used by the SAFE editions -/

namespace Bits

theorem pop32_ones : (List.range 33).all (fun b => popN 32 (2 ^ 32 - 2 ^ b) == 32 - b) = true := by
  decide +kernel
theorem pop64_ones : (List.range 65).all (fun b => popN 64 (2 ^ 64 - 2 ^ b) == 64 - b) = true := by
  decide +kernel

theorem u32Weight_ones_pop (b : Nat) (hb : b ≤ 32) :
    u32Weight (2 ^ 32 - 2 ^ b) = popN 32 (2 ^ 32 - 2 ^ b) := by
  have := List.all_eq_true.mp pop32_ones b (List.mem_range.mpr (by omega))
  rw [u32Weight_ones b hb, eq_of_beq this]
theorem u64Weight_ones_pop (b : Nat) (hb : b ≤ 64) :
    u64Weight (2 ^ 64 - 2 ^ b) = popN 64 (2 ^ 64 - 2 ^ b) := by
  have := List.all_eq_true.mp pop64_ones b (List.mem_range.mpr (by omega))
  rw [u64Weight_ones b hb, eq_of_beq this]

end Bits


/-! ## uNNWeight, all words: lines 1–3 act lane by lane, the tail adds the octet counts -/

namespace Bits

/-- shifting and masking a two-lane word lane by lane: the bits that the shift carries across the
    lane boundary are removed by a mask that is clear in the top `s` bits of the lane -/
theorem split_shr_and {L s lo hi m m' : Nat} (hlo : lo < 2 ^ L) (hm : m < 2 ^ (L - s)) (hs : s ≤ L) :
    ((lo + 2 ^ L * hi) >>> s) &&& (m + 2 ^ L * m') =
      ((lo >>> s) &&& m) + 2 ^ L * ((hi >>> s) &&& m') := by
  have hmL : m < 2 ^ L := Nat.lt_of_lt_of_le hm (Nat.pow_le_pow_right (by decide) (by omega))
  have hA : (lo >>> s) &&& m < 2 ^ L := Nat.lt_of_le_of_lt Nat.and_le_right hmL
  apply Nat.eq_of_testBit_eq
  intro j
  rw [Nat.add_comm ((lo >>> s) &&& m), Nat.testBit_two_pow_mul_add _ hA, Nat.testBit_and,
    Nat.testBit_shiftRight, Nat.add_comm lo, Nat.testBit_two_pow_mul_add _ hlo,
    Nat.add_comm m, Nat.testBit_two_pow_mul_add _ hmL]
  by_cases c : j < L
  · rw [if_pos c, if_pos c, Nat.testBit_and, Nat.testBit_shiftRight]
    by_cases c2 : s + j < L
    · rw [if_pos c2]
    · have : m.testBit j = false :=
        Nat.testBit_lt_two_pow (Nat.lt_of_lt_of_le hm (Nat.pow_le_pow_right (by decide) (by omega)))
      rw [this]; simp
  · have c2 : ¬ s + j < L := by omega
    have e : s + j - L = s + (j - L) := by omega
    rw [if_neg c, if_neg c, if_neg c2, Nat.testBit_and, Nat.testBit_shiftRight, e]

theorem split_and {L lo hi m m' : Nat} (hlo : lo < 2 ^ L) (hm : m < 2 ^ L) :
    (lo + 2 ^ L * hi) &&& (m + 2 ^ L * m') = (lo &&& m) + 2 ^ L * (hi &&& m') := by
  have := split_shr_and (s := 0) (hi := hi) (m' := m') hlo (by simpa using hm) (Nat.zero_le _)
  simpa using this

/-- a mask below 2^k only sees the argument modulo 2^k -/
theorem and_low {k y m : Nat} (hm : m < 2 ^ k) : y &&& m = (y % 2 ^ k) &&& m := by
  have h1 : (y &&& m) % 2 ^ k = y &&& m :=
    Nat.mod_eq_of_lt (Nat.lt_of_le_of_lt Nat.and_le_right hm)
  rw [← h1, Nat.and_mod_two_pow, Nat.mod_eq_of_lt hm]

/-- lines 1–3 of uNNWeight on one lane -/
def wg1 (m5 y : Nat) : Nat := y - ((y >>> 1) &&& m5)
def wg2 (m3 y : Nat) : Nat := (y &&& m3) + ((y >>> 2) &&& m3)
def wg3 (mf y : Nat) : Nat := (y + (y >>> 4)) &&& mf
def wT16 (y : Nat) : Nat := wg3 0x0F0F (wg2 0x3333 (wg1 0x5555 y))

theorem u16Weight_lanes (y : Nat) (hy : y < 65536) :
    u16Weight y = ((wT16 y + wT16 y / 256) % 65536) % 32 := by
  unfold u16Weight wT16 wg3 wg2 wg1
  simp only [Nat.shiftRight_eq_div_pow]
  have e1f : (0x001F : Nat) = 2 ^ 5 - 1 := by norm_num
  rw [e1f, Nat.and_two_pow_sub_one_eq_mod]
  have ha : y / 2 ^ 1 &&& 0x5555 ≤ y := Nat.le_trans Nat.and_le_left (Nat.div_le_self _ _)
  have e1 : (y + (65536 - (y / 2 ^ 1 &&& 21845))) % 65536 = y - (y / 2 ^ 1 &&& 21845) := by omega
  rw [e1]
  generalize y - (y / 2 ^ 1 &&& 21845) = s1
  have hb1 : s1 &&& 13107 ≤ 13107 := Nat.and_le_right
  have hb2 : s1 / 2 ^ 2 &&& 13107 ≤ 13107 := Nat.and_le_right
  have e2 : ((s1 &&& 13107) + (s1 / 2 ^ 2 &&& 13107)) % 65536 = (s1 &&& 13107) + (s1 / 2 ^ 2 &&& 13107) := by
    omega
  rw [e2]
  generalize (s1 &&& 13107) + (s1 / 2 ^ 2 &&& 13107) = s2
  have hb3 : (s2 + s2 / 2 ^ 4) &&& 3855 ≤ 3855 := Nat.and_le_right
  have e3 : ((s2 + s2 / 2 ^ 4) &&& 3855) % 65536 = (s2 + s2 / 2 ^ 4) &&& 3855 := by omega
  rw [e3]


/-- lines 1–3 of u32Weight act on the two 16-bit lanes independently -/
theorem wlanes32 (lo hi : Nat) (hlo : lo < 65536) (hhi : hi < 65536) :
    (((wg2 858993459 ((lo + 65536 * hi + (4294967296 - ((lo + 65536 * hi) >>> 1 &&& 1431655765))) % 4294967296)) % 4294967296
      + ((wg2 858993459 ((lo + 65536 * hi + (4294967296 - ((lo + 65536 * hi) >>> 1 &&& 1431655765))) % 4294967296)) % 4294967296) >>> 4) % 4294967296) &&& 252645135
      = wg3 3855 (wg2 13107 (wg1 21845 lo)) + 65536 * wg3 3855 (wg2 13107 (wg1 21845 hi)) := by
  have eB : (65536 : Nat) = 2 ^ 16 := by norm_num
  -- line 1
  have h1 : (lo + 65536 * hi) >>> 1 &&& 1431655765 = (lo >>> 1 &&& 21845) + 65536 * (hi >>> 1 &&& 21845) := by
    have := split_shr_and (L := 16) (s := 1) (lo := lo) (hi := hi) (m := 21845) (m' := 21845)
      (by rw [← eB]; exact hlo) (by norm_num) (by norm_num)
    rw [← eB] at this
    have e : (1431655765 : Nat) = 21845 + 65536 * 21845 := by norm_num
    rw [e]; exact this
  have ha : lo >>> 1 &&& 21845 ≤ lo := Nat.le_trans Nat.and_le_left (Nat.shiftRight_le _ _)
  have hb : hi >>> 1 &&& 21845 ≤ hi := Nat.le_trans Nat.and_le_left (Nat.shiftRight_le _ _)
  have e1 : (lo + 65536 * hi + (4294967296 - ((lo + 65536 * hi) >>> 1 &&& 1431655765))) % 4294967296
      = wg1 21845 lo + 65536 * wg1 21845 hi := by
    rw [h1]; unfold wg1; omega
  rw [e1]
  have hp : wg1 21845 lo < 65536 := by unfold wg1; omega
  have hq : wg1 21845 hi < 65536 := by unfold wg1; omega
  generalize wg1 21845 lo = p at *
  generalize wg1 21845 hi = q at *
  -- line 2
  have h2a : (p + 65536 * q) &&& 858993459 = (p &&& 13107) + 65536 * (q &&& 13107) := by
    have := split_and (L := 16) (lo := p) (hi := q) (m := 13107) (m' := 13107)
      (by rw [← eB]; exact hp) (by norm_num)
    rw [← eB] at this
    have e : (858993459 : Nat) = 13107 + 65536 * 13107 := by norm_num
    rw [e]; exact this
  have h2b : (p + 65536 * q) >>> 2 &&& 858993459 = (p >>> 2 &&& 13107) + 65536 * (q >>> 2 &&& 13107) := by
    have := split_shr_and (L := 16) (s := 2) (lo := p) (hi := q) (m := 13107) (m' := 13107)
      (by rw [← eB]; exact hp) (by norm_num) (by norm_num)
    rw [← eB] at this
    have e : (858993459 : Nat) = 13107 + 65536 * 13107 := by norm_num
    rw [e]; exact this
  have b1 : p &&& 13107 ≤ 13107 := Nat.and_le_right
  have b2 : p >>> 2 &&& 13107 ≤ 13107 := Nat.and_le_right
  have b3 : q &&& 13107 ≤ 13107 := Nat.and_le_right
  have b4 : q >>> 2 &&& 13107 ≤ 13107 := Nat.and_le_right
  have n1 : (q &&& 13107) % 16 ≤ 3 := by
    have := @Nat.and_mod_two_pow q 13107 4
    have h3 : q % 2 ^ 4 &&& 13107 % 2 ^ 4 ≤ 13107 % 2 ^ 4 := Nat.and_le_right
    norm_num at this h3; omega
  have n2 : (q >>> 2 &&& 13107) % 16 ≤ 3 := by
    have := @Nat.and_mod_two_pow (q >>> 2) 13107 4
    have h3 : (q >>> 2) % 2 ^ 4 &&& 13107 % 2 ^ 4 ≤ 13107 % 2 ^ 4 := Nat.and_le_right
    norm_num at this h3; omega
  have e2 : (wg2 858993459 (p + 65536 * q)) % 4294967296 = wg2 13107 p + 65536 * wg2 13107 q := by
    unfold wg2; rw [h2a, h2b]; omega
  have hb' : wg2 13107 p ≤ 2 * 13107 := by unfold wg2; omega
  have hc' : wg2 13107 q ≤ 2 * 13107 := by unfold wg2; omega
  have hc16 : wg2 13107 q % 16 ≤ 6 := by unfold wg2; omega
  rw [e2]
  generalize wg2 13107 p = b at *
  generalize wg2 13107 q = c at *
  -- line 3
  have e3 : b + 65536 * c + (b + 65536 * c) >>> 4 = (b + b / 16 + 4096 * (c % 16)) + 65536 * (c + c / 16) := by
    rw [Nat.shiftRight_eq_div_pow]; omega
  have hlo' : b + b / 16 + 4096 * (c % 16) < 65536 := by omega
  have h3 : ((b + b / 16 + 4096 * (c % 16)) + 65536 * (c + c / 16)) &&& 252645135
      = ((b + b / 16 + 4096 * (c % 16)) &&& 3855) + 65536 * ((c + c / 16) &&& 3855) := by
    have := split_and (L := 16) (lo := b + b / 16 + 4096 * (c % 16)) (hi := c + c / 16) (m := 3855)
      (m' := 3855) (by rw [← eB]; exact hlo') (by norm_num)
    rw [← eB] at this
    have e : (252645135 : Nat) = 3855 + 65536 * 3855 := by norm_num
    rw [e]; exact this
  have h4 : (b + b / 16 + 4096 * (c % 16)) &&& 3855 = (b + b / 16) &&& 3855 := by
    have eP : (4096 : Nat) = 2 ^ 12 := by norm_num
    rw [and_low (k := 12) (y := b + b / 16 + 4096 * (c % 16)) (by norm_num),
      and_low (k := 12) (y := b + b / 16) (by norm_num), ← eP]
    congr 1
    omega
  rw [e3, Nat.mod_eq_of_lt (by omega), h3, h4]
  unfold wg3
  rw [Nat.shiftRight_eq_div_pow, Nat.shiftRight_eq_div_pow]

theorem tail32 (tl th : Nat) (b1 : tl ≤ 3855) (b2 : tl % 256 ≤ 15) (b3 : th ≤ 3855) (b4 : th % 256 ≤ 15) :
    ((tl + 65536 * th + (tl + 65536 * th) / 256) % 4294967296 +
      (tl + 65536 * th + (tl + 65536 * th) / 256) % 4294967296 / 65536) % 4294967296 % 64
    = (tl + tl / 256) % 65536 % 32 + (th + th / 256) % 65536 % 32 := by
  obtain ⟨c0, c1, rfl, h0, h1⟩ : ∃ c0 c1, tl = c0 + 256 * c1 ∧ c0 ≤ 15 ∧ c1 ≤ 15 :=
    ⟨tl % 256, tl / 256, by omega, by omega, by omega⟩
  obtain ⟨c2, c3, rfl, h2, h3⟩ : ∃ c2 c3, th = c2 + 256 * c3 ∧ c2 ≤ 15 ∧ c3 ≤ 15 :=
    ⟨th % 256, th / 256, by omega, by omega, by omega⟩
  have e1 : (c0 + 256 * c1 + 65536 * (c2 + 256 * c3)) / 256 = c1 + 256 * c2 + 65536 * c3 := by omega
  rw [e1]
  have e2 : (c0 + 256 * c1 + 65536 * (c2 + 256 * c3) + (c1 + 256 * c2 + 65536 * c3)) % 4294967296
      = (c0 + c1) + 256 * (c1 + c2) + 65536 * (c2 + c3) + 16777216 * c3 := by omega
  rw [e2]
  have e3 : ((c0 + c1) + 256 * (c1 + c2) + 65536 * (c2 + c3) + 16777216 * c3) / 65536
      = (c2 + c3) + 256 * c3 := by omega
  rw [e3]
  have e4 : (c0 + 256 * c1) / 256 = c1 := by omega
  have e5 : (c2 + 256 * c3) / 256 = c3 := by omega
  rw [e4, e5]
  have e6 : (c0 + 256 * c1 + c1) % 65536 % 32 = c0 + c1 := by omega
  have e7 : (c2 + 256 * c3 + c3) % 65536 % 32 = c2 + c3 := by omega
  have e8 : (c0 + c1 + 256 * (c1 + c2) + 65536 * (c2 + c3) + 16777216 * c3 + (c2 + c3 + 256 * c3)) % 4294967296
      = (c0 + c1 + c2 + c3) + 256 * (c1 + c2 + c3) + 65536 * (c2 + c3) + 16777216 * c3 := by omega
  rw [e6, e7, e8]
  clear e1 e2 e3 e4 e5 e6 e7 e8 b1 b2 b3 b4
  omega

theorem wT16_bounds (y : Nat) : wT16 y ≤ 3855 ∧ wT16 y % 256 ≤ 15 := by
  unfold wT16 wg3
  generalize wg2 0x3333 (wg1 0x5555 y) + wg2 0x3333 (wg1 0x5555 y) >>> 4 = Z
  refine ⟨Nat.and_le_right, ?_⟩
  have := @Nat.and_mod_two_pow Z 0x0F0F 8
  have h3 : Z % 2 ^ 8 &&& 0x0F0F % 2 ^ 8 ≤ 0x0F0F % 2 ^ 8 := Nat.and_le_right
  norm_num at this h3; omega

theorem u32Weight_split (x : Nat) (hx : x < 2 ^ 32) :
    u32Weight x = u16Weight (x % 65536) + u16Weight (x / 65536) := by
  have hlo : x % 65536 < 65536 := Nat.mod_lt _ (by norm_num)
  have hhi : x / 65536 < 65536 := by omega
  have hxx : x = x % 65536 + 65536 * (x / 65536) := by omega
  rw [u16Weight_lanes _ hlo, u16Weight_lanes _ hhi]
  generalize x % 65536 = lo at *
  generalize x / 65536 = hi at *
  subst hxx
  have hl := wlanes32 lo hi hlo hhi
  obtain ⟨b1, b2⟩ := wT16_bounds lo
  obtain ⟨b3, b4⟩ := wT16_bounds hi
  unfold u32Weight
  simp only []
  rw [show wg3 0x0F0F (wg2 0x3333 (wg1 0x5555 lo)) = wT16 lo from rfl,
    show wg3 0x0F0F (wg2 0x3333 (wg1 0x5555 hi)) = wT16 hi from rfl] at hl
  unfold wg2 at hl
  rw [hl]
  have e3f : (0x0000003F : Nat) = 2 ^ 6 - 1 := by norm_num
  rw [e3f, Nat.and_two_pow_sub_one_eq_mod]
  simp only [Nat.shiftRight_eq_div_pow, Nat.reducePow]
  exact tail32 (wT16 lo) (wT16 hi) b1 b2 b3 b4

theorem popN_add (a b : Nat) : ∀ x, popN (a + b) x = popN a x + popN b (x / 2 ^ a) := by
  induction a with
  | zero => intro x; simp [popN]
  | succ a ih =>
    intro x
    have e : a + 1 + b = (a + b) + 1 := by omega
    rw [e, popN, popN, ih (x / 2), Nat.div_div_eq_div_mul, Nat.pow_succ, Nat.mul_comm 2]
    omega

theorem popN_mod : ∀ (k x : Nat), popN k x = popN k (x % 2 ^ k) := by
  intro k
  induction k with
  | zero => intro x; rfl
  | succ k ih =>
    intro x
    have e1 : x % 2 ^ (k + 1) % 2 = x % 2 := by
      rw [Nat.pow_succ, Nat.mul_comm, Nat.mod_mul_right_mod]
    have e2 : x % 2 ^ (k + 1) / 2 = x / 2 % 2 ^ k := by
      rw [Nat.pow_succ, Nat.mul_comm, Nat.mod_mul_right_div_self]
    rw [popN, popN, e1, e2, ih (x / 2), ih (x / 2 % 2 ^ k), Nat.mod_mod]

theorem u16Weight_pop (y : Nat) (hy : y < 65536) : u16Weight y = popN 16 y :=
  (chk16_unpack (chk16_all y hy)).2.2.1

theorem u32Weight_gen (x : Nat) (hx : x < 2 ^ 32) : u32Weight x = popN 32 x := by
  have hlo : x % 65536 < 65536 := Nat.mod_lt _ (by norm_num)
  have hhi : x / 65536 < 65536 := by omega
  rw [u32Weight_split x hx, u16Weight_pop _ hlo, u16Weight_pop _ hhi,
    show (32 : Nat) = 16 + 16 from rfl, popN_add, popN_mod 16 x]
  norm_num

end Bits


/-! ## u64Weight, all words: 32-bit lanes -/

namespace Bits


/-- lines 1–3 of u64Weight act on the two 32-bit lanes independently -/
theorem wlanes64 (lo hi : Nat) (hlo : lo < 4294967296) (hhi : hi < 4294967296) :
    ((((wg2 3689348814741910323 ((lo + 4294967296 * hi + (18446744073709551616 - ((lo + 4294967296 * hi) >>> 1 &&& 6148914691236517205))) % 18446744073709551616)) % 18446744073709551616)
      + ((wg2 3689348814741910323 ((lo + 4294967296 * hi + (18446744073709551616 - ((lo + 4294967296 * hi) >>> 1 &&& 6148914691236517205))) % 18446744073709551616)) % 18446744073709551616) >>> 4) % 18446744073709551616) &&& 1085102592571150095
      = wg3 252645135 (wg2 858993459 (wg1 1431655765 lo)) + 4294967296 * wg3 252645135 (wg2 858993459 (wg1 1431655765 hi)) := by
  have eB : (4294967296 : Nat) = 2 ^ 32 := by norm_num
  have h1 : (lo + 4294967296 * hi) >>> 1 &&& 6148914691236517205 = (lo >>> 1 &&& 1431655765) + 4294967296 * (hi >>> 1 &&& 1431655765) := by
    have := split_shr_and (L := 32) (s := 1) (lo := lo) (hi := hi) (m := 1431655765) (m' := 1431655765)
      (by rw [← eB]; exact hlo) (by norm_num) (by norm_num)
    rw [← eB] at this
    have e : (6148914691236517205 : Nat) = 1431655765 + 4294967296 * 1431655765 := by norm_num
    rw [e]; exact this
  have ha : lo >>> 1 &&& 1431655765 ≤ lo := Nat.le_trans Nat.and_le_left (Nat.shiftRight_le _ _)
  have hb : hi >>> 1 &&& 1431655765 ≤ hi := Nat.le_trans Nat.and_le_left (Nat.shiftRight_le _ _)
  have e1 : (lo + 4294967296 * hi + (18446744073709551616 - ((lo + 4294967296 * hi) >>> 1 &&& 6148914691236517205))) % 18446744073709551616
      = wg1 1431655765 lo + 4294967296 * wg1 1431655765 hi := by
    rw [h1]; unfold wg1; omega
  rw [e1]
  have hp : wg1 1431655765 lo < 4294967296 := by unfold wg1; omega
  have hq : wg1 1431655765 hi < 4294967296 := by unfold wg1; omega
  generalize wg1 1431655765 lo = p at *
  generalize wg1 1431655765 hi = q at *
  have h2a : (p + 4294967296 * q) &&& 3689348814741910323 = (p &&& 858993459) + 4294967296 * (q &&& 858993459) := by
    have := split_and (L := 32) (lo := p) (hi := q) (m := 858993459) (m' := 858993459)
      (by rw [← eB]; exact hp) (by norm_num)
    rw [← eB] at this
    have e : (3689348814741910323 : Nat) = 858993459 + 4294967296 * 858993459 := by norm_num
    rw [e]; exact this
  have h2b : (p + 4294967296 * q) >>> 2 &&& 3689348814741910323 = (p >>> 2 &&& 858993459) + 4294967296 * (q >>> 2 &&& 858993459) := by
    have := split_shr_and (L := 32) (s := 2) (lo := p) (hi := q) (m := 858993459) (m' := 858993459)
      (by rw [← eB]; exact hp) (by norm_num) (by norm_num)
    rw [← eB] at this
    have e : (3689348814741910323 : Nat) = 858993459 + 4294967296 * 858993459 := by norm_num
    rw [e]; exact this
  have b1 : p &&& 858993459 ≤ 858993459 := Nat.and_le_right
  have b2 : p >>> 2 &&& 858993459 ≤ 858993459 := Nat.and_le_right
  have b3 : q &&& 858993459 ≤ 858993459 := Nat.and_le_right
  have b4 : q >>> 2 &&& 858993459 ≤ 858993459 := Nat.and_le_right
  have n1 : (q &&& 858993459) % 16 ≤ 3 := by
    have := @Nat.and_mod_two_pow q 858993459 4
    have h3 : q % 2 ^ 4 &&& 858993459 % 2 ^ 4 ≤ 858993459 % 2 ^ 4 := Nat.and_le_right
    norm_num at this h3; omega
  have n2 : (q >>> 2 &&& 858993459) % 16 ≤ 3 := by
    have := @Nat.and_mod_two_pow (q >>> 2) 858993459 4
    have h3 : (q >>> 2) % 2 ^ 4 &&& 858993459 % 2 ^ 4 ≤ 858993459 % 2 ^ 4 := Nat.and_le_right
    norm_num at this h3; omega
  have e2 : (wg2 3689348814741910323 (p + 4294967296 * q)) % 18446744073709551616 = wg2 858993459 p + 4294967296 * wg2 858993459 q := by
    unfold wg2; rw [h2a, h2b]; omega
  have hb' : wg2 858993459 p ≤ 2 * 858993459 := by unfold wg2; omega
  have hc' : wg2 858993459 q ≤ 2 * 858993459 := by unfold wg2; omega
  have hc16 : wg2 858993459 q % 16 ≤ 6 := by unfold wg2; omega
  rw [e2]
  generalize wg2 858993459 p = b at *
  generalize wg2 858993459 q = c at *
  have e3 : b + 4294967296 * c + (b + 4294967296 * c) >>> 4 = (b + b / 16 + 268435456 * (c % 16)) + 4294967296 * (c + c / 16) := by
    rw [Nat.shiftRight_eq_div_pow]; omega
  have hlo' : b + b / 16 + 268435456 * (c % 16) < 4294967296 := by omega
  have h3 : ((b + b / 16 + 268435456 * (c % 16)) + 4294967296 * (c + c / 16)) &&& 1085102592571150095
      = ((b + b / 16 + 268435456 * (c % 16)) &&& 252645135) + 4294967296 * ((c + c / 16) &&& 252645135) := by
    have := split_and (L := 32) (lo := b + b / 16 + 268435456 * (c % 16)) (hi := c + c / 16) (m := 252645135)
      (m' := 252645135) (by rw [← eB]; exact hlo') (by norm_num)
    rw [← eB] at this
    have e : (1085102592571150095 : Nat) = 252645135 + 4294967296 * 252645135 := by norm_num
    rw [e]; exact this
  have h4 : (b + b / 16 + 268435456 * (c % 16)) &&& 252645135 = (b + b / 16) &&& 252645135 := by
    have eP : (268435456 : Nat) = 2 ^ 28 := by norm_num
    rw [and_low (k := 28) (y := b + b / 16 + 268435456 * (c % 16)) (by norm_num),
      and_low (k := 28) (y := b + b / 16) (by norm_num), ← eP]
    congr 1
    omega
  rw [e3, Nat.mod_eq_of_lt (by omega), h3, h4]
  unfold wg3
  rw [Nat.shiftRight_eq_div_pow, Nat.shiftRight_eq_div_pow]


theorem tb4_d1 (c0 c1 c2 c3 : Nat) (h0 : c0 ≤ 15) (h1 : c1 ≤ 15) (h2 : c2 ≤ 15) (h3 : c3 ≤ 15) :
    ((c0) + 256 * (c1) + 65536 * (c2) + 16777216 * (c3)) / 256 = (c1) + 256 * (c2) + 65536 * (c3) := by omega
theorem tb4_a1 (c0 c1 c2 c3 : Nat) (h0 : c0 ≤ 15) (h1 : c1 ≤ 15) (h2 : c2 ≤ 15) (h3 : c3 ≤ 15) :
    ((c0) + 256 * (c1) + 65536 * (c2) + 16777216 * (c3) + ((c1) + 256 * (c2) + 65536 * (c3))) % 4294967296 = (c0 + c1) + 256 * (c1 + c2) + 65536 * (c2 + c3) + 16777216 * (c3) := by omega
theorem tb4_d2 (c0 c1 c2 c3 : Nat) (h0 : c0 ≤ 15) (h1 : c1 ≤ 15) (h2 : c2 ≤ 15) (h3 : c3 ≤ 15) :
    ((c0 + c1) + 256 * (c1 + c2) + 65536 * (c2 + c3) + 16777216 * (c3)) / 65536 = (c2 + c3) + 256 * (c3) := by omega
theorem tb4_a2 (c0 c1 c2 c3 : Nat) (h0 : c0 ≤ 15) (h1 : c1 ≤ 15) (h2 : c2 ≤ 15) (h3 : c3 ≤ 15) :
    ((c0 + c1) + 256 * (c1 + c2) + 65536 * (c2 + c3) + 16777216 * (c3) + ((c2 + c3) + 256 * (c3))) % 4294967296 = (c0 + c1 + c2 + c3) + 256 * (c1 + c2 + c3) + 65536 * (c2 + c3) + 16777216 * (c3) := by omega
theorem tb4_f (c0 c1 c2 c3 : Nat) (h0 : c0 ≤ 15) (h1 : c1 ≤ 15) (h2 : c2 ≤ 15) (h3 : c3 ≤ 15) :
    ((c0 + c1 + c2 + c3) + 256 * (c1 + c2 + c3) + 65536 * (c2 + c3) + 16777216 * (c3)) % 64 = c0 + c1 + c2 + c3 := by omega
theorem tail32_bytes (c0 c1 c2 c3 : Nat) (h0 : c0 ≤ 15) (h1 : c1 ≤ 15) (h2 : c2 ≤ 15) (h3 : c3 ≤ 15) :
    ((((((c0) + 256 * (c1) + 65536 * (c2) + 16777216 * (c3)) + ((c0) + 256 * (c1) + 65536 * (c2) + 16777216 * (c3)) / 256) % 4294967296) + ((((c0) + 256 * (c1) + 65536 * (c2) + 16777216 * (c3)) + ((c0) + 256 * (c1) + 65536 * (c2) + 16777216 * (c3)) / 256) % 4294967296) / 65536) % 4294967296) % 64 = c0 + c1 + c2 + c3 := by
  rw [tb4_d1 c0 c1 c2 c3 h0 h1 h2 h3, tb4_a1 c0 c1 c2 c3 h0 h1 h2 h3, tb4_d2 c0 c1 c2 c3 h0 h1 h2 h3, tb4_a2 c0 c1 c2 c3 h0 h1 h2 h3, tb4_f c0 c1 c2 c3 h0 h1 h2 h3]
theorem tb8_d1 (c0 c1 c2 c3 c4 c5 c6 c7 : Nat) (h0 : c0 ≤ 15) (h1 : c1 ≤ 15) (h2 : c2 ≤ 15) (h3 : c3 ≤ 15) (h4 : c4 ≤ 15) (h5 : c5 ≤ 15) (h6 : c6 ≤ 15) (h7 : c7 ≤ 15) :
    ((c0) + 256 * (c1) + 65536 * (c2) + 16777216 * (c3) + 4294967296 * (c4) + 1099511627776 * (c5) + 281474976710656 * (c6) + 72057594037927936 * (c7)) / 256 = (c1) + 256 * (c2) + 65536 * (c3) + 16777216 * (c4) + 4294967296 * (c5) + 1099511627776 * (c6) + 281474976710656 * (c7) := by omega
theorem tb8_a1 (c0 c1 c2 c3 c4 c5 c6 c7 : Nat) (h0 : c0 ≤ 15) (h1 : c1 ≤ 15) (h2 : c2 ≤ 15) (h3 : c3 ≤ 15) (h4 : c4 ≤ 15) (h5 : c5 ≤ 15) (h6 : c6 ≤ 15) (h7 : c7 ≤ 15) :
    ((c0) + 256 * (c1) + 65536 * (c2) + 16777216 * (c3) + 4294967296 * (c4) + 1099511627776 * (c5) + 281474976710656 * (c6) + 72057594037927936 * (c7) + ((c1) + 256 * (c2) + 65536 * (c3) + 16777216 * (c4) + 4294967296 * (c5) + 1099511627776 * (c6) + 281474976710656 * (c7))) % 18446744073709551616 = (c0 + c1) + 256 * (c1 + c2) + 65536 * (c2 + c3) + 16777216 * (c3 + c4) + 4294967296 * (c4 + c5) + 1099511627776 * (c5 + c6) + 281474976710656 * (c6 + c7) + 72057594037927936 * (c7) := by omega
theorem tb8_d2 (c0 c1 c2 c3 c4 c5 c6 c7 : Nat) (h0 : c0 ≤ 15) (h1 : c1 ≤ 15) (h2 : c2 ≤ 15) (h3 : c3 ≤ 15) (h4 : c4 ≤ 15) (h5 : c5 ≤ 15) (h6 : c6 ≤ 15) (h7 : c7 ≤ 15) :
    ((c0 + c1) + 256 * (c1 + c2) + 65536 * (c2 + c3) + 16777216 * (c3 + c4) + 4294967296 * (c4 + c5) + 1099511627776 * (c5 + c6) + 281474976710656 * (c6 + c7) + 72057594037927936 * (c7)) / 65536 = (c2 + c3) + 256 * (c3 + c4) + 65536 * (c4 + c5) + 16777216 * (c5 + c6) + 4294967296 * (c6 + c7) + 1099511627776 * (c7) := by omega
theorem tb8_a2 (c0 c1 c2 c3 c4 c5 c6 c7 : Nat) (h0 : c0 ≤ 15) (h1 : c1 ≤ 15) (h2 : c2 ≤ 15) (h3 : c3 ≤ 15) (h4 : c4 ≤ 15) (h5 : c5 ≤ 15) (h6 : c6 ≤ 15) (h7 : c7 ≤ 15) :
    ((c0 + c1) + 256 * (c1 + c2) + 65536 * (c2 + c3) + 16777216 * (c3 + c4) + 4294967296 * (c4 + c5) + 1099511627776 * (c5 + c6) + 281474976710656 * (c6 + c7) + 72057594037927936 * (c7) + ((c2 + c3) + 256 * (c3 + c4) + 65536 * (c4 + c5) + 16777216 * (c5 + c6) + 4294967296 * (c6 + c7) + 1099511627776 * (c7))) % 18446744073709551616 = (c0 + c1 + c2 + c3) + 256 * (c1 + c2 + c3 + c4) + 65536 * (c2 + c3 + c4 + c5) + 16777216 * (c3 + c4 + c5 + c6) + 4294967296 * (c4 + c5 + c6 + c7) + 1099511627776 * (c5 + c6 + c7) + 281474976710656 * (c6 + c7) + 72057594037927936 * (c7) := by omega
theorem tb8_d3 (c0 c1 c2 c3 c4 c5 c6 c7 : Nat) (h0 : c0 ≤ 15) (h1 : c1 ≤ 15) (h2 : c2 ≤ 15) (h3 : c3 ≤ 15) (h4 : c4 ≤ 15) (h5 : c5 ≤ 15) (h6 : c6 ≤ 15) (h7 : c7 ≤ 15) :
    ((c0 + c1 + c2 + c3) + 256 * (c1 + c2 + c3 + c4) + 65536 * (c2 + c3 + c4 + c5) + 16777216 * (c3 + c4 + c5 + c6) + 4294967296 * (c4 + c5 + c6 + c7) + 1099511627776 * (c5 + c6 + c7) + 281474976710656 * (c6 + c7) + 72057594037927936 * (c7)) / 4294967296 = (c4 + c5 + c6 + c7) + 256 * (c5 + c6 + c7) + 65536 * (c6 + c7) + 16777216 * (c7) := by omega
theorem tb8_a3 (c0 c1 c2 c3 c4 c5 c6 c7 : Nat) (h0 : c0 ≤ 15) (h1 : c1 ≤ 15) (h2 : c2 ≤ 15) (h3 : c3 ≤ 15) (h4 : c4 ≤ 15) (h5 : c5 ≤ 15) (h6 : c6 ≤ 15) (h7 : c7 ≤ 15) :
    ((c0 + c1 + c2 + c3) + 256 * (c1 + c2 + c3 + c4) + 65536 * (c2 + c3 + c4 + c5) + 16777216 * (c3 + c4 + c5 + c6) + 4294967296 * (c4 + c5 + c6 + c7) + 1099511627776 * (c5 + c6 + c7) + 281474976710656 * (c6 + c7) + 72057594037927936 * (c7) + ((c4 + c5 + c6 + c7) + 256 * (c5 + c6 + c7) + 65536 * (c6 + c7) + 16777216 * (c7))) % 18446744073709551616 = (c0 + c1 + c2 + c3 + c4 + c5 + c6 + c7) + 256 * (c1 + c2 + c3 + c4 + c5 + c6 + c7) + 65536 * (c2 + c3 + c4 + c5 + c6 + c7) + 16777216 * (c3 + c4 + c5 + c6 + c7) + 4294967296 * (c4 + c5 + c6 + c7) + 1099511627776 * (c5 + c6 + c7) + 281474976710656 * (c6 + c7) + 72057594037927936 * (c7) := by omega
theorem tb8_f (c0 c1 c2 c3 c4 c5 c6 c7 : Nat) (h0 : c0 ≤ 15) (h1 : c1 ≤ 15) (h2 : c2 ≤ 15) (h3 : c3 ≤ 15) (h4 : c4 ≤ 15) (h5 : c5 ≤ 15) (h6 : c6 ≤ 15) (h7 : c7 ≤ 15) :
    ((c0 + c1 + c2 + c3 + c4 + c5 + c6 + c7) + 256 * (c1 + c2 + c3 + c4 + c5 + c6 + c7) + 65536 * (c2 + c3 + c4 + c5 + c6 + c7) + 16777216 * (c3 + c4 + c5 + c6 + c7) + 4294967296 * (c4 + c5 + c6 + c7) + 1099511627776 * (c5 + c6 + c7) + 281474976710656 * (c6 + c7) + 72057594037927936 * (c7)) % 128 = c0 + c1 + c2 + c3 + c4 + c5 + c6 + c7 := by omega
theorem tail64_bytes (c0 c1 c2 c3 c4 c5 c6 c7 : Nat) (h0 : c0 ≤ 15) (h1 : c1 ≤ 15) (h2 : c2 ≤ 15) (h3 : c3 ≤ 15) (h4 : c4 ≤ 15) (h5 : c5 ≤ 15) (h6 : c6 ≤ 15) (h7 : c7 ≤ 15) :
    ((((((((c0) + 256 * (c1) + 65536 * (c2) + 16777216 * (c3) + 4294967296 * (c4) + 1099511627776 * (c5) + 281474976710656 * (c6) + 72057594037927936 * (c7)) + ((c0) + 256 * (c1) + 65536 * (c2) + 16777216 * (c3) + 4294967296 * (c4) + 1099511627776 * (c5) + 281474976710656 * (c6) + 72057594037927936 * (c7)) / 256) % 18446744073709551616) + ((((c0) + 256 * (c1) + 65536 * (c2) + 16777216 * (c3) + 4294967296 * (c4) + 1099511627776 * (c5) + 281474976710656 * (c6) + 72057594037927936 * (c7)) + ((c0) + 256 * (c1) + 65536 * (c2) + 16777216 * (c3) + 4294967296 * (c4) + 1099511627776 * (c5) + 281474976710656 * (c6) + 72057594037927936 * (c7)) / 256) % 18446744073709551616) / 65536) % 18446744073709551616) + ((((((c0) + 256 * (c1) + 65536 * (c2) + 16777216 * (c3) + 4294967296 * (c4) + 1099511627776 * (c5) + 281474976710656 * (c6) + 72057594037927936 * (c7)) + ((c0) + 256 * (c1) + 65536 * (c2) + 16777216 * (c3) + 4294967296 * (c4) + 1099511627776 * (c5) + 281474976710656 * (c6) + 72057594037927936 * (c7)) / 256) % 18446744073709551616) + ((((c0) + 256 * (c1) + 65536 * (c2) + 16777216 * (c3) + 4294967296 * (c4) + 1099511627776 * (c5) + 281474976710656 * (c6) + 72057594037927936 * (c7)) + ((c0) + 256 * (c1) + 65536 * (c2) + 16777216 * (c3) + 4294967296 * (c4) + 1099511627776 * (c5) + 281474976710656 * (c6) + 72057594037927936 * (c7)) / 256) % 18446744073709551616) / 65536) % 18446744073709551616) / 4294967296) % 18446744073709551616) % 128 = c0 + c1 + c2 + c3 + c4 + c5 + c6 + c7 := by
  rw [tb8_d1 c0 c1 c2 c3 c4 c5 c6 c7 h0 h1 h2 h3 h4 h5 h6 h7, tb8_a1 c0 c1 c2 c3 c4 c5 c6 c7 h0 h1 h2 h3 h4 h5 h6 h7, tb8_d2 c0 c1 c2 c3 c4 c5 c6 c7 h0 h1 h2 h3 h4 h5 h6 h7, tb8_a2 c0 c1 c2 c3 c4 c5 c6 c7 h0 h1 h2 h3 h4 h5 h6 h7, tb8_d3 c0 c1 c2 c3 c4 c5 c6 c7 h0 h1 h2 h3 h4 h5 h6 h7, tb8_a3 c0 c1 c2 c3 c4 c5 c6 c7 h0 h1 h2 h3 h4 h5 h6 h7, tb8_f c0 c1 c2 c3 c4 c5 c6 c7 h0 h1 h2 h3 h4 h5 h6 h7]


def wT32 (y : Nat) : Nat := wg3 252645135 (wg2 858993459 (wg1 1431655765 y))

theorem and_byte_le (Z m k : Nat) : (Z &&& m) / 2 ^ k % 2 ^ 8 ≤ m / 2 ^ k % 2 ^ 8 := by
  rw [← Nat.shiftRight_eq_div_pow, ← Nat.shiftRight_eq_div_pow, Nat.shiftRight_and_distrib,
    Nat.and_mod_two_pow]
  exact Nat.and_le_right

theorem wT32_bytes (y : Nat) : ∃ c0 c1 c2 c3, c0 ≤ 15 ∧ c1 ≤ 15 ∧ c2 ≤ 15 ∧ c3 ≤ 15 ∧
    wT32 y = (c0) + 256 * (c1) + 65536 * (c2) + 16777216 * (c3) := by
  unfold wT32 wg3
  generalize wg2 858993459 (wg1 1431655765 y) + wg2 858993459 (wg1 1431655765 y) >>> 4 = Z
  have hT : Z &&& 252645135 ≤ 252645135 := Nat.and_le_right
  have k0 := and_byte_le Z 252645135 0
  have k1 := and_byte_le Z 252645135 8
  have k2 := and_byte_le Z 252645135 16
  have k3 := and_byte_le Z 252645135 24
  norm_num at k0 k1 k2 k3
  generalize Z &&& 252645135 = T at *
  exact ⟨T % 256, T / 256 % 256, T / 65536 % 256, T / 16777216 % 256, k0, k1, k2, k3, by omega⟩

theorem u32Weight_lanes (y : Nat) (hy : y < 4294967296) :
    u32Weight y = ((wT32 y + wT32 y / 256) % 4294967296 + (wT32 y + wT32 y / 256) % 4294967296 / 65536) % 4294967296 % 64 := by
  unfold u32Weight wT32 wg3 wg2 wg1
  simp only [Nat.shiftRight_eq_div_pow]
  have e3f : (0x0000003F : Nat) = 2 ^ 6 - 1 := by norm_num
  rw [e3f, Nat.and_two_pow_sub_one_eq_mod]
  have ha : y / 2 ^ 1 &&& 1431655765 ≤ y := Nat.le_trans Nat.and_le_left (Nat.div_le_self _ _)
  have e1 : (y + (4294967296 - (y / 2 ^ 1 &&& 1431655765))) % 4294967296 = y - (y / 2 ^ 1 &&& 1431655765) := by omega
  rw [e1]
  generalize y - (y / 2 ^ 1 &&& 1431655765) = s1
  have hb1 : s1 &&& 858993459 ≤ 858993459 := Nat.and_le_right
  have hb2 : s1 / 2 ^ 2 &&& 858993459 ≤ 858993459 := Nat.and_le_right
  have e2 : ((s1 &&& 858993459) + (s1 / 2 ^ 2 &&& 858993459)) % 4294967296 = (s1 &&& 858993459) + (s1 / 2 ^ 2 &&& 858993459) := by
    omega
  rw [e2]
  have hs2 : (s1 &&& 858993459) + (s1 / 2 ^ 2 &&& 858993459) ≤ 2 * 858993459 := by omega
  generalize (s1 &&& 858993459) + (s1 / 2 ^ 2 &&& 858993459) = s2 at *
  have e3 : (s2 + s2 / 2 ^ 4) % 4294967296 = s2 + s2 / 2 ^ 4 := by omega
  rw [e3]

theorem u32Weight_bytes (y : Nat) (hy : y < 4294967296) : ∃ c0 c1 c2 c3, c0 ≤ 15 ∧ c1 ≤ 15 ∧ c2 ≤ 15 ∧
    c3 ≤ 15 ∧ wT32 y = (c0) + 256 * (c1) + 65536 * (c2) + 16777216 * (c3) ∧
    u32Weight y = c0 + c1 + c2 + c3 := by
  obtain ⟨c0, c1, c2, c3, h0, h1, h2, h3, hT⟩ := wT32_bytes y
  refine ⟨c0, c1, c2, c3, h0, h1, h2, h3, hT, ?_⟩
  rw [u32Weight_lanes y hy, hT]
  exact tail32_bytes c0 c1 c2 c3 h0 h1 h2 h3

/-- lines 1–3 of u64Weight -/
def u64W3 (x : Nat) : Nat :=
  let w := (x + (18446744073709551616 - ((x >>> 1) &&& 6148914691236517205))) % 18446744073709551616
  let w := ((w &&& 3689348814741910323) + ((w >>> 2) &&& 3689348814741910323)) % 18446744073709551616
  ((w + (w >>> 4)) % 18446744073709551616) &&& 1085102592571150095

theorem u64Weight_tail (x : Nat) : u64Weight x =
    ((((u64W3 x + u64W3 x >>> 8) % 18446744073709551616 + ((u64W3 x + u64W3 x >>> 8) % 18446744073709551616) >>> 16) % 18446744073709551616
      + (((u64W3 x + u64W3 x >>> 8) % 18446744073709551616 + ((u64W3 x + u64W3 x >>> 8) % 18446744073709551616) >>> 16) % 18446744073709551616) >>> 32)
      % 18446744073709551616) &&& 0x7F := rfl

theorem u64W3_lanes (lo hi : Nat) (hlo : lo < 4294967296) (hhi : hi < 4294967296) :
    u64W3 (lo + 4294967296 * hi) = wT32 lo + 4294967296 * wT32 hi := by
  have hl := wlanes64 lo hi hlo hhi
  unfold wg2 at hl
  exact hl

theorem u64Weight_split (x : Nat) (hx : x < 2 ^ 64) :
    u64Weight x = u32Weight (x % 4294967296) + u32Weight (x / 4294967296) := by
  have hlo : x % 4294967296 < 4294967296 := Nat.mod_lt _ (by norm_num)
  have hhi : x / 4294967296 < 4294967296 := by omega
  have hxx : x = x % 4294967296 + 4294967296 * (x / 4294967296) := by omega
  obtain ⟨c0, c1, c2, c3, h0, h1, h2, h3, hT0, hW0⟩ := u32Weight_bytes _ hlo
  obtain ⟨c4, c5, c6, c7, h4, h5, h6, h7, hT1, hW1⟩ := u32Weight_bytes _ hhi
  have hl := u64W3_lanes _ _ hlo hhi
  rw [← hxx, hT0, hT1] at hl
  rw [hW0, hW1, u64Weight_tail, hl]
  have e7f : (0x7F : Nat) = 2 ^ 7 - 1 := by norm_num
  rw [e7f, Nat.and_two_pow_sub_one_eq_mod]
  simp only [Nat.shiftRight_eq_div_pow, Nat.reducePow]
  have e0 : (c0) + 256 * (c1) + 65536 * (c2) + 16777216 * (c3) +
      4294967296 * ((c4) + 256 * (c5) + 65536 * (c6) + 16777216 * (c7))
      = (c0) + 256 * (c1) + 65536 * (c2) + 16777216 * (c3) + 4294967296 * (c4) + 1099511627776 * (c5)
        + 281474976710656 * (c6) + 72057594037927936 * (c7) := by omega
  rw [e0]
  exact (tail64_bytes c0 c1 c2 c3 c4 c5 c6 c7 h0 h1 h2 h3 h4 h5 h6 h7).trans (by omega)

theorem u64Weight_gen (x : Nat) (hx : x < 2 ^ 64) : u64Weight x = popN 64 x := by
  have hlo : x % 4294967296 < 2 ^ 32 := Nat.mod_lt _ (by norm_num)
  have hhi : x / 4294967296 < 2 ^ 32 := by omega
  rw [u64Weight_split x hx, u32Weight_gen _ hlo, u32Weight_gen _ hhi,
    show (64 : Nat) = 32 + 32 from rfl, popN_add, popN_mod 32 x]
  norm_num

theorem popN_le : ∀ k x, popN k x ≤ k := by
  intro k
  induction k with
  | zero => intro x; simp [popN]
  | succ k ih =>
    intro x
    have := ih (x / 2)
    have : x % 2 < 2 := Nat.mod_lt _ (by decide)
    rw [popN]; omega

end Bits


/-! ## wwCmpW, wwXor -/

namespace Bits

theorem foldl_or_zero : ∀ (l : List Nat) (d : Nat),
    l.foldl (fun d y => d ||| y) d = 0 ↔ d = 0 ∧ ∀ y ∈ l, y = 0 := by
  intro l
  induction l with
  | nil => intro d; simp
  | cons y ys ih =>
    intro d
    rw [List.foldl_cons, ih]
    constructor
    · intro ⟨h1, h2⟩
      have := Nat.or_eq_zero_iff.mp h1
      exact ⟨this.1, fun z hz => by
        rcases List.mem_cons.mp hz with e | e
        · rw [e]; exact this.2
        · exact h2 z e⟩
    · intro ⟨h1, h2⟩
      exact ⟨by rw [h1, h2 y (List.mem_cons_self)]; rfl, fun z hz => h2 z (List.mem_cons_of_mem _ hz)⟩

theorem val_zero_iff (w : Nat) : ∀ (l : List Nat), val w l = 0 ↔ ∀ y ∈ l, y = 0 := by
  intro l
  induction l with
  | nil => simp [val]
  | cons y ys ih =>
    rw [val_cons]
    have hp := Nat.two_pow_pos w
    constructor
    · intro h
      have h1 : y = 0 := by omega
      have h2 : val w ys = 0 := by
        rcases Nat.eq_zero_or_pos (val w ys) with e | e
        · exact e
        · have : 2 ^ w * 1 ≤ 2 ^ w * val w ys := Nat.mul_le_mul_left _ e
          omega
      intro z hz
      rcases List.mem_cons.mp hz with e | e
      · rw [e]; exact h1
      · exact ih.mp h2 z e
    · intro h
      rw [h y List.mem_cons_self, ih.mpr (fun z hz => h z (List.mem_cons_of_mem _ hz))]; simp

theorem cmpW_fastLoop_zero : ∀ (l : List Nat),
    wwCmpW_fastLoop 0 l = if ∀ y ∈ l, y = 0 then 0 else 1 := by
  have h1 : ∀ l : List Nat, wwCmpW_fastLoop 1 l = 1 := by
    intro l; cases l <;> simp [wwCmpW_fastLoop]
  intro l
  induction l with
  | nil => simp [wwCmpW_fastLoop]
  | cons y ys ih =>
    simp only [wwCmpW_fastLoop, beq_self_eq_true, if_true]
    by_cases hy : y = 0
    · subst hy
      simp only [beq_self_eq_true, if_true, ih]
      simp
    · have hb : (y == 0) = false := by simp [hy]
      simp only [hb, Bool.false_eq_true, if_false, h1]
      have : ¬ ∀ z ∈ (y :: ys), z = 0 := fun h => hy (h y (by simp))
      rw [if_neg this]

/-- the three-way comparison of numbers as an `Int` -/
def cmp3 (u v : Nat) : Int := if u < v then -1 else if u > v then 1 else 0

theorem wwCmpW_both {w : Nat} (a : List Nat) (x : Nat) (h : Wf w a) (hx : x < 2 ^ w) :
    wwCmpW_safe w a x = cmp3 (val w a) x ∧ wwCmpW_fast w a x = cmp3 (val w a) x := by
  cases a with
  | nil =>
    unfold wwCmpW_safe wwCmpW_fast cmp3
    simp only [val]
    by_cases c : x = 0
    · simp [c]
    · have : 0 < x := Nat.pos_of_ne_zero c
      simp [c, this]
  | cons a0 as =>
    obtain ⟨h0, hs⟩ := Wf_cons.mp h
    unfold wwCmpW_safe wwCmpW_fast
    simp only [cmpW_fastLoop_zero]
    have hzr : (∀ y ∈ as.reverse, y = 0) ↔ (∀ y ∈ as, y = 0) := by
      constructor
      · intro hh y hy; exact hh y (List.mem_reverse.mpr hy)
      · intro hh y hy; exact hh y (List.mem_reverse.mp hy)
    by_cases hz : ∀ y ∈ as, y = 0
    · have hv := (val_zero_iff w as).mpr hz
      have hf : as.reverse.foldl (fun d y => d ||| y) 0 = 0 :=
        (foldl_or_zero _ 0).mpr ⟨rfl, hzr.mpr hz⟩
      have hval : val w (a0 :: as) = a0 := by rw [val_cons, hv]; omega
      rw [hf, if_pos (hzr.mpr hz)]
      unfold cmp3
      simp only [hval]
      simp
    · have hv : 0 < val w as := Nat.pos_of_ne_zero (fun e => hz ((val_zero_iff w as).mp e))
      have hf : ¬ as.reverse.foldl (fun d y => d ||| y) 0 = 0 := fun e =>
        hz (hzr.mp ((foldl_or_zero _ 0).mp e).2)
      have hb : (as.reverse.foldl (fun d y => d ||| y) 0 == 0) = false := by
        rw [beq_eq_false_iff_ne]; exact hf
      have hge : 2 ^ w * 1 ≤ 2 ^ w * val w as := Nat.mul_le_mul_left _ hv
      have hval : val w (a0 :: as) = a0 + 2 ^ w * val w as := rfl
      have c1 : ¬ val w (a0 :: as) < x := by omega
      have c2 : val w (a0 :: as) > x := by omega
      have hzr' : ¬ ∀ y ∈ as.reverse, y = 0 := fun hh => hz (hzr.mp hh)
      rw [hb, if_neg hzr']
      unfold cmp3
      simp [c1, c2]

theorem xor_cons_val {w x y X Y : Nat} (hx : x < 2 ^ w) (hy : y < 2 ^ w) :
    (x + 2 ^ w * X) ^^^ (y + 2 ^ w * Y) = (x ^^^ y) + 2 ^ w * (X ^^^ Y) := by
  apply Nat.eq_of_testBit_eq
  intro j
  rw [Nat.testBit_xor, Nat.add_comm x, Nat.add_comm y, Nat.add_comm (x ^^^ y),
    Nat.testBit_two_pow_mul_add _ hx, Nat.testBit_two_pow_mul_add _ hy,
    Nat.testBit_two_pow_mul_add _ (Nat.xor_lt_two_pow hx hy)]
  split <;> simp [Nat.testBit_xor]

theorem wwXor_val {w : Nat} : ∀ (a b : List Nat), a.length = b.length → Wf w a → Wf w b →
    (wwXor a b).length = a.length ∧ Wf w (wwXor a b) ∧ val w (wwXor a b) = val w a ^^^ val w b := by
  intro a
  induction a with
  | nil => intro b hl _ _; cases b <;> simp_all [wwXor, val, Wf_nil]
  | cons x xs ih =>
    intro b hl ha hb
    cases b with
    | nil => simp at hl
    | cons y ys =>
      obtain ⟨hx, hxs⟩ := Wf_cons.mp ha
      obtain ⟨hy, hys⟩ := Wf_cons.mp hb
      obtain ⟨i1, i2, i3⟩ := ih ys (by simpa using hl) hxs hys
      unfold wwXor at i1 i2 i3 ⊢
      simp only [List.zipWith_cons_cons, List.length_cons, val_cons]
      refine ⟨by rw [i1], Wf_cons.mpr ⟨Nat.xor_lt_two_pow hx hy, i2⟩, ?_⟩
      rw [i3, xor_cons_val hx hy]

end Bits


/-! ## wwFrom / wwTo (little-endian host) -/

namespace Bits

theorem ft_val_append (w : Nat) : ∀ (l1 l2 : List Nat),
    val w (l1 ++ l2) = val w l1 + 2 ^ (w * l1.length) * val w l2 := by
  intro l1
  induction l1 with
  | nil => intro l2; simp [val]
  | cons x xs ih =>
    intro l2
    rw [List.cons_append, val_cons, val_cons, ih, List.length_cons]
    have : 2 ^ (w * (xs.length + 1)) = 2 ^ w * 2 ^ (w * xs.length) := by
      rw [← Nat.pow_add]; congr 1; ring
    rw [this]; ring

theorem ft_val_zeros (w k : Nat) : val w (List.replicate k 0) = 0 := by
  induction k with
  | zero => rfl
  | succ k ih => simp [List.replicate_succ, val, ih]

theorem ft_Wf_take {w : Nat} {l : List Nat} (h : Wf w l) (k : Nat) : Wf w (l.take k) :=
  fun x hx => h x (List.mem_of_mem_take hx)
theorem ft_Wf_drop {w : Nat} {l : List Nat} (h : Wf w l) (k : Nat) : Wf w (l.drop k) :=
  fun x hx => h x (List.mem_of_mem_drop hx)

theorem octetsToWords_val (O : Nat) : ∀ (n : Nat) (buf : List Nat), buf.length = n * O →
    (octetsToWords O n buf).length = n ∧ val (8 * O) (octetsToWords O n buf) = val 8 buf := by
  intro n
  induction n with
  | zero =>
    intro buf hl
    have : buf = [] := List.eq_nil_of_length_eq_zero (by simpa using hl)
    subst this; exact ⟨rfl, rfl⟩
  | succ n ih =>
    intro buf hl
    have hlt : (buf.take O).length = O := by
      rw [List.length_take, hl, Nat.succ_mul]; omega
    have hld : (buf.drop O).length = n * O := by
      rw [List.length_drop, hl, Nat.succ_mul]; omega
    obtain ⟨i1, i2⟩ := ih (buf.drop O) hld
    simp only [octetsToWords, List.length_cons, val_cons]
    refine ⟨by rw [i1], ?_⟩
    rw [i2]
    conv_rhs => rw [← List.take_append_drop O buf, ft_val_append, hlt]

theorem ft_toWords_val : ∀ (l : List Nat), Wf 8 l → toWords 8 l.length (val 8 l) = l := by
  intro l
  induction l with
  | nil => intro _; rfl
  | cons x xs ih =>
    intro h
    obtain ⟨hx, hxs⟩ := Wf_cons.mp h
    have h256 : (2 : Nat) ^ 8 = 256 := by norm_num
    rw [h256] at hx
    simp only [List.length_cons, toWords, val_cons, h256]
    have e1 : (x + 256 * val 8 xs) % 256 = x := by omega
    have e2 : (x + 256 * val 8 xs) / 256 = val 8 xs := by omega
    rw [e1, e2, ih hxs]

theorem wordsToOctets_octetsToWords (O : Nat) : ∀ (n : Nat) (buf : List Nat), buf.length = n * O →
    Wf 8 buf → wordsToOctets O (octetsToWords O n buf) = buf := by
  intro n
  induction n with
  | zero =>
    intro buf hl _
    have : buf = [] := List.eq_nil_of_length_eq_zero (by simpa using hl)
    subst this; rfl
  | succ n ih =>
    intro buf hl hw
    have hlt : (buf.take O).length = O := by
      rw [List.length_take, hl, Nat.succ_mul]; omega
    have hld : (buf.drop O).length = n * O := by
      rw [List.length_drop, hl, Nat.succ_mul]; omega
    simp only [octetsToWords, wordsToOctets]
    rw [ih (buf.drop O) hld (ft_Wf_drop hw O)]
    have := ft_toWords_val (buf.take O) (ft_Wf_take hw O)
    rw [hlt] at this
    rw [this, List.take_append_drop]

theorem ft_pad_len (O len : Nat) (hO : 0 < O) : len ≤ (len + O - 1) / O * O := by
  have h := Nat.lt_mul_div_succ (len + O - 1) hO
  rw [Nat.mul_add, Nat.mul_one, Nat.mul_comm] at h
  omega

theorem wwFrom_val {w : Nat} (O : Nat) (hO : 0 < O) (hw8 : w = 8 * O) (o : List Nat) :
    (wwFrom w o).length = (o.length + O - 1) / O ∧ val w (wwFrom w o) = val 8 o := by
  have hwO : w / 8 = O := by omega
  unfold wwFrom
  simp only [hwO]
  have hpad := ft_pad_len O o.length hO
  have hl : (o ++ List.replicate ((o.length + O - 1) / O * O - o.length) 0).length
      = (o.length + O - 1) / O * O := by
    rw [List.length_append, List.length_replicate]; omega
  obtain ⟨h1, h2⟩ := octetsToWords_val O _ _ hl
  refine ⟨h1, ?_⟩
  rw [hw8, h2, ft_val_append, ft_val_zeros]; simp

theorem wwTo_wwFrom {w : Nat} (O : Nat) (hO : 0 < O) (hw8 : w = 8 * O) (o : List Nat) (ho : Wf 8 o) :
    wwTo w o.length (wwFrom w o) = o := by
  have hwO : w / 8 = O := by omega
  unfold wwTo wwFrom
  simp only [hwO]
  have hpad := ft_pad_len O o.length hO
  have hl : (o ++ List.replicate ((o.length + O - 1) / O * O - o.length) 0).length
      = (o.length + O - 1) / O * O := by
    rw [List.length_append, List.length_replicate]; omega
  have hwf : Wf 8 (o ++ List.replicate ((o.length + O - 1) / O * O - o.length) 0) := by
    intro x hx
    rcases List.mem_append.mp hx with h1 | h1
    · exact ho x h1
    · rw [(List.mem_replicate.mp h1).2]; norm_num
  rw [wordsToOctets_octetsToWords O _ _ hl hwf]
  simp

theorem octetsToWords_Wf (O : Nat) : ∀ (n : Nat) (buf : List Nat), Wf 8 buf →
    Wf (8 * O) (octetsToWords O n buf) := by
  intro n
  induction n with
  | zero => intro buf _; exact Wf_nil _
  | succ n ih =>
    intro buf hw
    simp only [octetsToWords]
    refine Wf_cons.mpr ⟨?_, ih _ (ft_Wf_drop hw O)⟩
    have h1 := val_lt (buf.take O) (ft_Wf_take hw O)
    have h2 : (buf.take O).length ≤ O := by rw [List.length_take]; omega
    exact Nat.lt_of_lt_of_le h1 (Nat.pow_le_pow_right (by decide) (Nat.mul_le_mul_left 8 h2))

theorem wwFrom_Wf {w : Nat} (O : Nat) (hw8 : w = 8 * O) (o : List Nat) (ho : Wf 8 o) :
    Wf w (wwFrom w o) := by
  have hwO : w / 8 = O := by omega
  unfold wwFrom
  simp only [hwO]
  rw [hw8]
  apply octetsToWords_Wf
  intro x hx
  rcases List.mem_append.mp hx with h1 | h1
  · exact ho x h1
  · rw [(List.mem_replicate.mp h1).2]; norm_num

end Bits

end Bee2V.C05

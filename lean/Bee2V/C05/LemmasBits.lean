/-
C05 — lemmas for the bit-level functions of ww.c (ModelBits) and the word helpers (ModelWord).

Technique: a multi-word number is compared with its specification bit by bit
(`Nat.eq_of_testBit_eq`); `testBit_val` reads bit k of ⟦a⟧ as bit `k % w` of word `k / w`.
-/
import Bee2V.C05.ModelBits
import Mathlib.Tactic.Ring
import Mathlib.Tactic.Linarith
import Mathlib.Tactic.NormNum
import Mathlib.Tactic.SplitIfs
import Mathlib.Data.ZMod.Basic
namespace Bee2V.C05

theorem testBit_val {w : Nat} (hw : 0 < w) : ∀ (a : List Nat), Wf w a → ∀ k,
    (val w a).testBit k = (a.getD (k / w) 0).testBit (k % w) := by
  intro a
  induction a with
  | nil => intro _ k; simp [val]
  | cons x xs ih =>
    intro h k
    obtain ⟨hx, hxs⟩ := Wf_cons.mp h
    rw [val_cons, Nat.add_comm, Nat.testBit_two_pow_mul_add _ hx]
    split
    · rename_i hk
      rw [Nat.div_eq_of_lt hk, Nat.mod_eq_of_lt hk]; rfl
    · rename_i hk
      have hk : w ≤ k := Nat.le_of_not_lt hk
      rw [ih hxs (k - w)]
      have h1 : k / w = (k - w) / w + 1 := by
        have h3 : k = (k - w) + w := by omega
        conv_lhs => rw [h3]
        exact Nat.add_div_right _ hw
      have h2 : (k - w) % w = k % w := by
        rw [← Nat.mod_eq_sub_mod hk]
      rw [h1, h2]; rfl


theorem testBit_high {x w i : Nat} (h : x < 2 ^ w) (hi : w ≤ i) : x.testBit i = false :=
  Nat.testBit_lt_two_pow (Nat.lt_of_lt_of_le h (Nat.pow_le_pow_right (by decide) hi))

theorem getD_lt {w : Nat} {a : List Nat} (h : Wf w a) (i : Nat) : a.getD i 0 < 2 ^ w := by
  by_cases hi : i < a.length
  · rw [List.getD_eq_getElem?_getD, List.getElem?_eq_getElem hi]; exact h _ (List.getElem_mem hi)
  · rw [List.getD_eq_getElem?_getD, List.getElem?_eq_none (Nat.le_of_not_lt hi)]
    exact Nat.two_pow_pos w

theorem idx_lo {w : Nat} (hw : 0 < w) (n r : Nat) (hr : r < w) :
    (w * n + r) / w = n ∧ (w * n + r) % w = r := by
  constructor
  · rw [Nat.mul_add_div hw, Nat.div_eq_of_lt hr]; rfl
  · rw [Nat.mul_add_mod, Nat.mod_eq_of_lt hr]

theorem idx_hi {w : Nat} (hw : 0 < w) (n r : Nat) (h1 : w ≤ r) (h2 : r < 2 * w) :
    (w * n + r) / w = n + 1 ∧ (w * n + r) % w = r - w := by
  have : w * n + r = w * (n + 1) + (r - w) := by rw [Nat.mul_add]; omega
  rw [this]
  exact idx_lo hw (n + 1) (r - w) (by omega)

theorem tb_div (x s j : Nat) : (x / 2 ^ s).testBit j = x.testBit (s + j) := by
  rw [Nat.testBit_div_two_pow, Nat.add_comm]

theorem testBit_wshl (w x s j : Nat) :
    (wshl w x s).testBit j = (decide (j < w) && (decide (s ≤ j) && x.testBit (j - s))) := by
  unfold wshl
  rw [Nat.testBit_mod_two_pow, Nat.testBit_mul_two_pow]

theorem wmask_eq {w width : Nat} (h : width < w) : wsub w (wbit w width) 1 = 2 ^ width - 1 := by
  unfold wsub wbit wshl
  have h1 : 2 ^ width < 2 ^ w := Nat.pow_lt_pow_right (by decide) h
  have h2 : 1 < 2 ^ w := Nat.one_lt_two_pow (by omega)
  rw [Nat.one_mul, Nat.mod_eq_of_lt h1, Nat.mod_eq_of_lt h2]
  have h3 : 0 < 2 ^ width := Nat.two_pow_pos _
  have : 2 ^ width + (2 ^ w - 1) = (2 ^ width - 1) + 2 ^ w := by omega
  rw [this, Nat.add_mod_right, Nat.mod_eq_of_lt (by omega)]

/-- wwGetBits returns bits pos … pos + width − 1 of the number.
    Precondition of ww.h: `width ≤ B_PER_W`, W_OF_B(pos + width) words reserved (i.e.
    `pos + width ≤ w * n`); under it only `a[n]` with `n < a.length` is read when `width > 0`
    (for `width = 0` the result is 0 whatever is read). -/
theorem wwGetBits_val {w : Nat} (hw : 0 < w) (a : List Nat) (pos width : Nat) (hwd : width ≤ w)
    (hres : pos + width ≤ w * a.length) (h : Wf w a) :
    wwGetBits w a pos width = (val w a / 2 ^ pos) % 2 ^ width := by
  apply Nat.eq_of_testBit_eq
  intro j
  rw [Nat.testBit_mod_two_pow, tb_div, testBit_val hw a h]
  have hp : pos % w < w := Nat.mod_lt _ hw
  have hpos : pos = w * (pos / w) + pos % w := (Nat.div_add_mod pos w).symm
  generalize hn : pos / w = n at hpos
  generalize hpp : pos % w = p at hpos hp
  have han := getD_lt h n
  have han1 := getD_lt h (n + 1)
  unfold wwGetBits
  simp only [hn, hpp]
  -- the word before masking
  have hpre : ∀ (hjw : j < width),
      (if p + width > w then wshr (a.getD n 0) p ||| wshl w (a.getD (n + 1) 0) (w - p)
        else wshr (a.getD n 0) p).testBit j = (a.getD ((pos + j) / w) 0).testBit ((pos + j) % w) := by
    intro hjw
    have hidx : pos + j = w * n + (p + j) := by omega
    rw [hidx]
    by_cases hpj : p + j < w
    · obtain ⟨e1, e2⟩ := idx_lo hw n (p + j) hpj
      rw [e1, e2]
      split
      · have h1 : ¬ (w - p ≤ j) := by omega
        rw [Nat.testBit_or, tb_div, testBit_wshl]; simp [h1]
      · rw [tb_div]
    · obtain ⟨e1, e2⟩ := idx_hi hw n (p + j) (by omega) (by omega)
      rw [e1, e2]
      have hf : (a.getD n 0).testBit (p + j) = false := testBit_high han (by omega)
      have hc : p + width > w := by omega
      have h1 : j < w := by omega
      have h2 : w - p ≤ j := by omega
      have e3 : j - (w - p) = p + j - w := by omega
      rw [if_pos hc, Nat.testBit_or, tb_div, testBit_wshl, hf, e3]; simp [h1, h2]
  by_cases hj : j < width
  · simp only [hj, decide_true, Bool.true_and]
    split
    · rename_i hlt
      rw [wmask_eq hlt, Nat.testBit_and, Nat.testBit_two_pow_sub_one, hpre hj]; simp [hj]
    · exact hpre hj
  · simp only [hj, decide_false, Bool.false_and]
    split
    · rename_i hlt
      rw [wmask_eq hlt, Nat.testBit_and, Nat.testBit_two_pow_sub_one]; simp [hj]
    · -- width = w: the word is below 2^w
      have hww : width = w := by omega
      have hjw : w ≤ j := by omega
      split
      · rw [Nat.testBit_or, tb_div, testBit_wshl, testBit_high han (by omega)]
        have : ¬ j < w := by omega
        simp [this]
      · rw [tb_div, testBit_high han (by omega)]

theorem getD_set (a : List Nat) (i j x : Nat) :
    (a.set i x).getD j 0 = if j = i ∧ i < a.length then x else a.getD j 0 := by
  simp only [List.getD_eq_getElem?_getD, List.getElem?_set]
  by_cases h : i = j
  · subst h
    by_cases h2 : i < a.length
    · simp [h2]
    · simp [h2, List.getElem?_eq_none (Nat.le_of_not_lt h2)]
  · have : ¬ j = i := fun e => h e.symm
    simp [h, this]

theorem Wf_set {w : Nat} {a : List Nat} (h : Wf w a) (i x : Nat) (hx : x < 2 ^ w) :
    Wf w (a.set i x) := by
  intro y hy
  rcases List.mem_or_eq_of_mem_set hy with h1 | h1
  · exact h y h1
  · rw [h1]; exact hx

/-- bit-level description ⇒ arithmetic description of replacing a bit field -/
theorem field_replace (X Y p wd f : Nat)
    (h : ∀ k, Y.testBit k = if p ≤ k ∧ k < p + wd then f.testBit (k - p) else X.testBit k) :
    Y + ((X / 2 ^ p) % 2 ^ wd) * 2 ^ p = X + (f % 2 ^ wd) * 2 ^ p := by
  have dec : ∀ Z : Nat, Z = Z % 2 ^ p + 2 ^ p * ((Z / 2 ^ p) % 2 ^ wd)
      + 2 ^ p * (2 ^ wd * (Z / 2 ^ (p + wd))) := by
    intro Z
    have h1 := Nat.mod_add_div Z (2 ^ p)
    have h2 := Nat.mod_add_div (Z / 2 ^ p) (2 ^ wd)
    have h3 : Z / 2 ^ p / 2 ^ wd = Z / 2 ^ (p + wd) := by
      rw [Nat.div_div_eq_div_mul, Nat.pow_add]
    rw [h3] at h2
    calc Z = Z % 2 ^ p + 2 ^ p * (Z / 2 ^ p) := h1.symm
      _ = Z % 2 ^ p + 2 ^ p * ((Z / 2 ^ p) % 2 ^ wd + 2 ^ wd * (Z / 2 ^ (p + wd))) := by rw [h2]
      _ = _ := by ring
  have e1 : Y % 2 ^ p = X % 2 ^ p := by
    apply Nat.eq_of_testBit_eq; intro k
    rw [Nat.testBit_mod_two_pow, Nat.testBit_mod_two_pow, h k]
    by_cases hk : k < p
    · have : ¬ (p ≤ k ∧ k < p + wd) := by omega
      simp [this]
    · simp [hk]
  have e2 : (Y / 2 ^ p) % 2 ^ wd = f % 2 ^ wd := by
    apply Nat.eq_of_testBit_eq; intro k
    rw [Nat.testBit_mod_two_pow, Nat.testBit_mod_two_pow, tb_div, h (p + k)]
    by_cases hk : k < wd
    · have : (p ≤ p + k ∧ p + k < p + wd) := by omega
      simp [this, hk]
    · simp [hk]
  have e3 : Y / 2 ^ (p + wd) = X / 2 ^ (p + wd) := by
    apply Nat.eq_of_testBit_eq; intro k
    rw [tb_div, tb_div, h (p + wd + k)]
    have : ¬ (p ≤ p + wd + k ∧ p + wd + k < p + wd) := by omega
    simp [this]
  have dY := dec Y
  have dX := dec X
  rw [e1, e2, e3] at dY
  generalize X % 2 ^ p = A at *
  generalize 2 ^ p * (2 ^ wd * (X / 2 ^ (p + wd))) = C at *
  generalize hF : (X / 2 ^ p) % 2 ^ wd = F at *
  generalize hG : f % 2 ^ wd = G at *
  rw [Nat.mul_comm F, Nat.mul_comm G]
  omega


theorem testBit_wnot (w y j : Nat) :
    (wnot w y).testBit j = (decide (j < w) && !y.testBit j) := by
  unfold wnot
  have h1 : y % 2 ^ w < 2 ^ w := Nat.mod_lt _ (Nat.two_pow_pos w)
  have h2 : 2 ^ w - 1 - y % 2 ^ w = 2 ^ w - (y % 2 ^ w + 1) := by omega
  rw [h2, Nat.testBit_two_pow_sub_succ h1, Nat.testBit_mod_two_pow]
  by_cases hj : j < w <;> simp [hj]

theorem wnot_lt (w y : Nat) : wnot w y < 2 ^ w := by
  unfold wnot
  have := Nat.two_pow_pos w
  omega

theorem smask_eq {w width : Nat} (hwd : width ≤ w) :
    (if width < w then wshr (wshl w (2 ^ w - 1) (w - width)) (w - width) else 2 ^ w - 1)
      = 2 ^ width - 1 := by
  split
  · rename_i hlt
    apply Nat.eq_of_testBit_eq; intro j
    rw [tb_div, testBit_wshl, Nat.testBit_two_pow_sub_one, Nat.testBit_two_pow_sub_one]
    by_cases hj : j < width
    · have h1 : w - width + j < w := by omega
      have h2 : w - width ≤ w - width + j := by omega
      have h3 : w - width + j - (w - width) < w := by omega
      have h4 : j < w := by omega
      simp [h1, h2, h4, hj]
    · have h1 : ¬ (w - width + j < w) := by omega
      simp [h1, hj]
  · have : width = w := by omega
    rw [this]

theorem and_mask (v width : Nat) : v &&& (2 ^ width - 1) = v % 2 ^ width :=
  Nat.and_two_pow_sub_one_eq_mod v width

theorem wwSetBits_bits {w : Nat} (hw : 0 < w) (a : List Nat) (pos width v : Nat)
    (hwd : width ≤ w) (h0 : 0 < width) (hres : pos + width ≤ w * a.length) (h : Wf w a) :
    (wwSetBits w a pos width v).length = a.length ∧ Wf w (wwSetBits w a pos width v) ∧
    ∀ k, (val w (wwSetBits w a pos width v)).testBit k =
      if pos ≤ k ∧ k < pos + width then v.testBit (k - pos) else (val w a).testBit k := by
  have hp : pos % w < w := Nat.mod_lt _ hw
  have hpos : pos = w * (pos / w) + pos % w := (Nat.div_add_mod pos w).symm
  generalize hn : pos / w = n at hpos
  generalize hpp : pos % w = p at hpos hp
  have hnl : n < a.length := by
    by_contra hc
    have : w * a.length ≤ w * n := Nat.mul_le_mul_left w (Nat.le_of_not_lt hc)
    omega
  unfold wwSetBits
  simp only [hn, hpp, smask_eq hwd, and_mask]
  generalize hA : ((a.getD n 0 &&& wnot w (wshl w (2 ^ width - 1) p)) ^^^ wshl w (v % 2 ^ width) p) = A
  generalize hA1 : ((a.getD (n + 1) 0 &&& wnot w (wshr (2 ^ width - 1) (w - p))) ^^^
      wshr (v % 2 ^ width) (w - p)) = A1
  have han := getD_lt h n
  have han1 := getD_lt h (n + 1)
  have hAlt : A < 2 ^ w := by
    rw [← hA]
    exact Nat.xor_lt_two_pow (Nat.and_lt_two_pow _ (wnot_lt _ _)) (Nat.mod_lt _ (Nat.two_pow_pos w))
  have hA1lt : A1 < 2 ^ w := by
    rw [← hA1]
    refine Nat.xor_lt_two_pow (Nat.and_lt_two_pow _ (wnot_lt _ _)) ?_
    have h1 : v % 2 ^ width < 2 ^ width := Nat.mod_lt _ (Nat.two_pow_pos _)
    have h2 : 2 ^ width ≤ 2 ^ w := Nat.pow_le_pow_right (by decide) hwd
    exact Nat.lt_of_le_of_lt (Nat.div_le_self _ _) (by omega)
  -- bits of the new words
  have bA : ∀ j, j < w → A.testBit j =
      if p ≤ j ∧ j < p + width then v.testBit (j - p) else (a.getD n 0).testBit j := by
    intro j hj
    rw [← hA, Nat.testBit_xor, Nat.testBit_and, testBit_wnot, testBit_wshl, testBit_wshl,
      Nat.testBit_two_pow_sub_one, Nat.testBit_mod_two_pow]
    by_cases c1 : p ≤ j
    · by_cases c2 : j < p + width
      · have c3 : j - p < width := by omega
        simp [hj, c1, c2, c3]
      · have c3 : ¬ j - p < width := by omega
        simp [hj, c1, c2, c3]
    · simp [hj, c1]
  have bA1 : ∀ j, j < w → A1.testBit j =
      if w + j < p + width then v.testBit (w - p + j) else (a.getD (n + 1) 0).testBit j := by
    intro j hj
    rw [← hA1, Nat.testBit_xor, Nat.testBit_and, testBit_wnot, tb_div, tb_div,
      Nat.testBit_two_pow_sub_one, Nat.testBit_mod_two_pow]
    by_cases c2 : w + j < p + width
    · have c3 : w - p + j < width := by omega
      simp [hj, c2, c3]
    · have c3 : ¬ w - p + j < width := by omega
      simp [hj, c2, c3]
  -- bits of the result, given its words
  have fin : ∀ R : List Nat, Wf w R →
      (∀ i, R.getD i 0 = if i = n then A else
        if i = n + 1 ∧ p + width > w then A1 else a.getD i 0) →
      ∀ k, (val w R).testBit k =
        if pos ≤ k ∧ k < pos + width then v.testBit (k - pos) else (val w a).testBit k := by
    intro R hR hget k
    rw [testBit_val hw R hR, testBit_val hw a h, hget]
    have hj : k % w < w := Nat.mod_lt _ hw
    have hk : k = w * (k / w) + k % w := (Nat.div_add_mod k w).symm
    generalize k / w = i at hk
    generalize k % w = j at hk hj
    by_cases c1 : i = n
    · subst c1
      rw [if_pos rfl, bA j hj]
      have e : k - pos = j - p := by omega
      have e2 : (pos ≤ k ∧ k < pos + width) ↔ (p ≤ j ∧ j < p + width) := by omega
      simp only [e, e2]
    · rw [if_neg c1]
      by_cases c2 : i = n + 1
      · subst c2
        have hk' : k = w * n + w + j := by rw [hk, Nat.mul_add, Nat.mul_one]
        by_cases c3 : p + width > w
        · rw [if_pos ⟨rfl, c3⟩, bA1 j hj]
          have e : k - pos = w - p + j := by omega
          have e2 : (pos ≤ k ∧ k < pos + width) ↔ (w + j < p + width) := by omega
          simp only [e, e2]
        · have c4 : ¬ (n + 1 = n + 1 ∧ p + width > w) := fun hh => c3 hh.2
          have e2 : ¬ (pos ≤ k ∧ k < pos + width) := by omega
          rw [if_neg c4, if_neg e2]
      · have c4 : ¬ (i = n + 1 ∧ p + width > w) := fun hh => c2 hh.1
        rw [if_neg c4]
        have e2 : ¬ (pos ≤ k ∧ k < pos + width) := by
          rcases Nat.lt_or_gt_of_ne c1 with c5 | c5
          · have : w * (i + 1) ≤ w * n := Nat.mul_le_mul_left w c5
            rw [Nat.mul_add] at this
            omega
          · have : w * (n + 2) ≤ w * i := Nat.mul_le_mul_left w (by omega)
            rw [Nat.mul_add] at this
            omega
        rw [if_neg e2]
  have hX : a.getD n 0 &&& wnot w (wshl w (2 ^ width - 1) p) < 2 ^ w :=
    Nat.and_lt_two_pow _ (wnot_lt _ _)
  have hY : a.getD (n + 1) 0 &&& wnot w (wshr (2 ^ width - 1) (w - p)) < 2 ^ w :=
    Nat.and_lt_two_pow _ (wnot_lt _ _)
  by_cases hst : p + width > w
  · -- the field straddles the boundary between a[n] and a[n + 1]
    have hn1l : n + 1 < a.length := by
      by_contra hc
      have : w * a.length ≤ w * (n + 1) := Nat.mul_le_mul_left w (Nat.le_of_not_lt hc)
      rw [Nat.mul_add] at this
      omega
    simp only [hst, if_true, getD_set, List.length_set, hnl, hn1l, and_self, and_true, if_true,
      Nat.succ_ne_self, if_false, hA, hA1, true_and]
    have hWf := Wf_set (Wf_set (Wf_set (Wf_set h n _ hX) n _ hAlt) (n + 1) _ hY) (n + 1) _ hA1lt
    refine ⟨hWf, fin _ hWf ?_⟩
    intro i
    simp only [getD_set, List.length_set, hnl, hn1l, and_true, hst]
    by_cases c1 : i = n
    · subst c1; simp
    · by_cases c2 : i = n + 1
      · subst c2; simp
      · simp [c1, c2]
  · simp only [hst, if_false, getD_set, List.length_set, hnl, and_self, and_true, if_true, hA,
      true_and]
    have hWf := Wf_set (Wf_set h n _ hX) n _ hAlt
    refine ⟨hWf, fin _ hWf ?_⟩
    intro i
    simp only [getD_set, List.length_set, hnl, and_true, hst, and_false, if_false]
    by_cases c1 : i = n
    · subst c1; simp
    · simp [c1]


theorem wwSetBits_val {w : Nat} (hw : 0 < w) (a : List Nat) (pos width v : Nat)
    (hwd : width ≤ w) (h0 : 0 < width) (hres : pos + width ≤ w * a.length) (h : Wf w a) :
    (wwSetBits w a pos width v).length = a.length ∧ Wf w (wwSetBits w a pos width v) ∧
    val w (wwSetBits w a pos width v) + ((val w a / 2 ^ pos) % 2 ^ width) * 2 ^ pos
      = val w a + (v % 2 ^ width) * 2 ^ pos := by
  obtain ⟨h1, h2, h3⟩ := wwSetBits_bits hw a pos width v hwd h0 hres h
  exact ⟨h1, h2, field_replace _ _ _ _ _ h3⟩

/-- replacing one word -/
theorem set_word_bits {w : Nat} (hw : 0 < w) (a : List Nat) (h : Wf w a) (n A : Nat)
    (hnl : n < a.length) (hA : A < 2 ^ w) :
    Wf w (a.set n A) ∧ ∀ k, (val w (a.set n A)).testBit k =
      if k / w = n then A.testBit (k % w) else (val w a).testBit k := by
  have hWf := Wf_set h n A hA
  refine ⟨hWf, fun k => ?_⟩
  rw [testBit_val hw _ hWf, testBit_val hw a h, getD_set]
  by_cases c : k / w = n
  · simp [c, hnl]
  · simp [c]

theorem pos_split {w : Nat} (hw : 0 < w) (pos k : Nat) :
    (k = pos) ↔ (k / w = pos / w ∧ k % w = pos % w) := by
  constructor
  · intro e; rw [e]; exact ⟨rfl, rfl⟩
  · intro ⟨e1, e2⟩
    rw [← Nat.div_add_mod k w, ← Nat.div_add_mod pos w, e1, e2]

theorem wbit_eq {w p : Nat} (hp : p < w) : wbit w p = 2 ^ p := by
  unfold wbit wshl
  rw [Nat.one_mul, Nat.mod_eq_of_lt (Nat.pow_lt_pow_right (by decide) hp)]

theorem pos_word_lt {w : Nat} {a : List Nat} {pos : Nat} (hres : pos < w * a.length) :
    pos / w < a.length := by
  by_contra hc
  have h1 : w * a.length ≤ w * (pos / w) := Nat.mul_le_mul_left w (Nat.le_of_not_lt hc)
  have h2 := Nat.mul_div_le pos w
  omega

theorem and_two_pow' (x p : Nat) : x &&& 2 ^ p = bif x.testBit p then 2 ^ p else 0 := by
  apply Nat.eq_of_testBit_eq; intro j
  rw [Nat.testBit_and, Nat.testBit_two_pow]
  by_cases c : p = j
  · subst c
    cases hx : x.testBit p <;> simp [Nat.testBit_two_pow]
  · cases hx : x.testBit p <;> simp [Nat.testBit_two_pow, c]

theorem wwTestBit_val {w : Nat} (hw : 0 < w) (a : List Nat) (pos : Nat)
    (hres : pos < w * a.length) (h : Wf w a) :
    wwTestBit w a pos = (val w a).testBit pos := by
  unfold wwTestBit
  rw [testBit_val hw a h, wbit_eq (Nat.mod_lt _ hw), and_two_pow']
  cases (a.getD (pos / w) 0).testBit (pos % w)
  · simp
  · have := Nat.two_pow_pos (pos % w)
    simp

theorem wwSetBit_bits {w : Nat} (hw : 0 < w) (a : List Nat) (pos : Nat) (b : Bool)
    (hres : pos < w * a.length) (h : Wf w a) :
    (wwSetBit w a pos b).length = a.length ∧ Wf w (wwSetBit w a pos b) ∧
    ∀ k, (val w (wwSetBit w a pos b)).testBit k = if k = pos then b else (val w a).testBit k := by
  have hnl := pos_word_lt hres
  have hp : pos % w < w := Nat.mod_lt _ hw
  have han := getD_lt h (pos / w)
  unfold wwSetBit
  simp only [wbit_eq hp, List.length_set, true_and]
  have hf : wneg w (if b then 1 else 0) < 2 ^ w := Nat.mod_lt _ (Nat.two_pow_pos w)
  have hfb : (wneg w (if b then 1 else 0)).testBit (pos % w) = b := by
    cases b
    · simp [wneg]
    · have h1 : 1 < 2 ^ w := Nat.one_lt_two_pow (by omega)
      simp only [wneg, if_true, Nat.mod_eq_of_lt h1]
      rw [Nat.mod_eq_of_lt (by omega), Nat.testBit_two_pow_sub_one]
      simp [hp]
  have hA : a.getD (pos / w) 0 ^^^
      ((wneg w (if b then 1 else 0) ^^^ a.getD (pos / w) 0) &&& 2 ^ (pos % w)) < 2 ^ w :=
    Nat.xor_lt_two_pow han (Nat.and_lt_two_pow _ (Nat.pow_lt_pow_right (by decide) hp))
  obtain ⟨hWf, hb⟩ := set_word_bits hw a h (pos / w) _ hnl hA
  refine ⟨hWf, fun k => ?_⟩
  rw [hb k]
  by_cases c : k / w = pos / w
  · rw [if_pos c, Nat.testBit_xor, Nat.testBit_and, Nat.testBit_xor, Nat.testBit_two_pow]
    by_cases c2 : k % w = pos % w
    · have : k = pos := (pos_split hw pos k).mpr ⟨c, c2⟩
      rw [if_pos this, c2, hfb]
      cases b <;> cases (a.getD (pos / w) 0).testBit (pos % w) <;> simp
    · have : ¬ k = pos := fun e => c2 ((pos_split hw pos k).mp e).2
      have c3 : ¬ pos % w = k % w := fun e => c2 e.symm
      rw [if_neg this, testBit_val hw a h, c]
      simp [c3]
  · have : ¬ k = pos := fun e => c ((pos_split hw pos k).mp e).1
    rw [if_neg c, if_neg this]

theorem wwFlipBit_bits {w : Nat} (hw : 0 < w) (a : List Nat) (pos : Nat)
    (hres : pos < w * a.length) (h : Wf w a) :
    (wwFlipBit w a pos).length = a.length ∧ Wf w (wwFlipBit w a pos) ∧
    ∀ k, (val w (wwFlipBit w a pos)).testBit k =
      if k = pos then !(val w a).testBit k else (val w a).testBit k := by
  have hnl := pos_word_lt hres
  have hp : pos % w < w := Nat.mod_lt _ hw
  have han := getD_lt h (pos / w)
  unfold wwFlipBit
  simp only [wbit_eq hp, List.length_set, true_and]
  have hA : a.getD (pos / w) 0 ^^^ 2 ^ (pos % w) < 2 ^ w :=
    Nat.xor_lt_two_pow han (Nat.pow_lt_pow_right (by decide) hp)
  obtain ⟨hWf, hb⟩ := set_word_bits hw a h (pos / w) _ hnl hA
  refine ⟨hWf, fun k => ?_⟩
  rw [hb k]
  by_cases c : k / w = pos / w
  · rw [if_pos c, Nat.testBit_xor, Nat.testBit_two_pow, testBit_val hw a h, c]
    by_cases c2 : k % w = pos % w
    · have : k = pos := (pos_split hw pos k).mpr ⟨c, c2⟩
      rw [if_pos this, c2]
      simp
    · have : ¬ k = pos := fun e => c2 ((pos_split hw pos k).mp e).2
      have c3 : ¬ pos % w = k % w := fun e => c2 e.symm
      rw [if_neg this]
      simp [c3]
  · have : ¬ k = pos := fun e => c ((pos_split hw pos k).mp e).1
    rw [if_neg c, if_neg this]

/-- a single-bit description in the form needed by `field_replace` -/
theorem bit_replace (X Y pos : Nat) (b : Bool)
    (h : ∀ k, Y.testBit k = if k = pos then b else X.testBit k) :
    Y + (X / 2 ^ pos % 2) * 2 ^ pos = X + b.toNat * 2 ^ pos := by
  have := field_replace X Y pos 1 b.toNat (by
    intro k
    rw [h k]
    by_cases c : k = pos
    · subst c
      have : k ≤ k ∧ k < k + 1 := by omega
      rw [if_pos rfl, if_pos this, Nat.sub_self]
      cases b <;> simp
    · have : ¬ (pos ≤ k ∧ k < pos + 1) := by omega
      rw [if_neg c, if_neg this])
  rw [Nat.pow_one] at this
  have e : b.toNat % 2 = b.toNat := by cases b <;> rfl
  rw [e] at this
  exact this



/-! ## shifts -/

/-- an in-place ascending loop `for (; pos + c < n; pos++) a[pos] = g(a, pos)` whose body reads the
    array only at indices ≥ pos computes `g` of the ORIGINAL array at every visited index -/
theorem forUp_spec (n c : Nat) (cond : Nat → Bool) (hc : ∀ p, cond p = decide (p + c < n))
    (g : List Nat → Nat → Nat)
    (hg : ∀ (a b : List Nat) (p : Nat), (∀ i, p ≤ i → a.getD i 0 = b.getD i 0) → g a p = g b p) :
    ∀ (fuel pos : Nat) (a : List Nat), a.length = n → n ≤ pos + c + fuel →
      (forUp cond (fun pos a => a.set pos (g a pos)) fuel pos a).1 = max pos (n - c) ∧
      (forUp cond (fun pos a => a.set pos (g a pos)) fuel pos a).2.length = n ∧
      ∀ i, (forUp cond (fun pos a => a.set pos (g a pos)) fuel pos a).2.getD i 0 =
        if pos ≤ i ∧ i + c < n then g a i else a.getD i 0 := by
  intro fuel
  induction fuel with
  | zero =>
    intro pos a hl hf
    simp only [forUp]
    refine ⟨by omega, hl, fun i => ?_⟩
    have : ¬ (pos ≤ i ∧ i + c < n) := by omega
    rw [if_neg this]
  | succ fuel ih =>
    intro pos a hl hf
    simp only [forUp, hc]
    by_cases hcond : pos + c < n
    · simp only [hcond, decide_true, if_true]
      have hl1 : (a.set pos (g a pos)).length = n := by rw [List.length_set]; exact hl
      obtain ⟨h1, h2, h3⟩ := ih (pos + 1) (a.set pos (g a pos)) hl1 (by omega)
      refine ⟨by rw [h1]; omega, h2, fun i => ?_⟩
      rw [h3 i]
      by_cases c1 : pos + 1 ≤ i ∧ i + c < n
      · have c2 : pos ≤ i ∧ i + c < n := by omega
        rw [if_pos c1, if_pos c2]
        apply hg
        intro j hj
        rw [getD_set]
        have : ¬ (j = pos ∧ pos < a.length) := by omega
        rw [if_neg this]
      · rw [if_neg c1, getD_set]
        by_cases c2 : i = pos
        · have c3 : pos ≤ i ∧ i + c < n := by omega
          have c4 : i = pos ∧ pos < a.length := by omega
          rw [if_pos c4, if_pos c3, c2]
        · have c3 : ¬ (pos ≤ i ∧ i + c < n) := by omega
          have c4 : ¬ (i = pos ∧ pos < a.length) := by omega
          rw [if_neg c4, if_neg c3]
    · simp only [hcond, decide_false, Bool.false_eq_true, if_false]
      refine ⟨by omega, hl, fun i => ?_⟩
      have : ¬ (pos ≤ i ∧ i + c < n) := by omega
      rw [if_neg this]

/-- the word `i` of the shifted number -/
def shLoWord (w : Nat) (a : List Nat) (ws sh i : Nat) : Nat :=
  wshr (a.getD (i + ws) 0) sh ||| wshl w (a.getD (i + ws + 1) 0) (w - sh)

theorem wshl_zero (w s : Nat) : wshl w 0 s = 0 := by simp [wshl]
theorem wshl_full (w x : Nat) : wshl w x w = 0 := by simp [wshl]

theorem getD_beyond (a : List Nat) (i : Nat) (h : a.length ≤ i) : a.getD i 0 = 0 := by
  rw [List.getD_eq_getElem?_getD, List.getElem?_eq_none h]; rfl

theorem zeroUp_spec (n : Nat) (pos : Nat) (a : List Nat) (hl : a.length = n) :
    (zeroUp n pos a).length = n ∧
    ∀ i, (zeroUp n pos a).getD i 0 = if pos ≤ i then 0 else a.getD i 0 := by
  unfold zeroUp
  obtain ⟨_, h2, h3⟩ := forUp_spec n 0 (fun pos => decide (pos < n)) (fun p => by simp)
    (fun _ _ => 0) (fun _ _ _ _ => rfl) n pos a hl (by omega)
  refine ⟨h2, fun i => ?_⟩
  rw [h3 i]
  by_cases c1 : pos ≤ i
  · by_cases c2 : i < n
    · simp [c1, c2]
    · have : ¬ (pos ≤ i ∧ i + 0 < n) := by omega
      rw [if_neg this, if_pos c1, getD_beyond a i (by omega)]
  · have : ¬ (pos ≤ i ∧ i + 0 < n) := by omega
    rw [if_neg this, if_neg c1]

theorem wwShLo_words {w : Nat} (hw : 0 < w) (a : List Nat) (shift : Nat)
    (hs : shift < w * a.length) :
    (wwShLo w a shift).length = a.length ∧
    ∀ i, (wwShLo w a shift).getD i 0 =
      if i < a.length then shLoWord w a (shift / w) (shift % w) i else 0 := by
  have hwsn : shift / w < a.length := pos_word_lt hs
  unfold wwShLo
  simp only [hs, if_true]
  generalize hn : a.length = n at *
  generalize hws : shift / w = ws at *
  generalize hsh : shift % w = sh
  have hshw : sh < w := by rw [← hsh]; exact Nat.mod_lt _ hw
  by_cases h0 : sh = 0
  · -- whole words
    subst h0
    simp only [ne_eq, not_true_eq_false, if_false]
    unfold shLoCopy
    obtain ⟨h1, h2, h3⟩ := forUp_spec n ws (fun pos => decide (pos + ws < n)) (fun p => rfl)
      (fun a p => a.getD (p + ws) 0)
      (fun a b p hab => hab (p + ws) (by omega)) n 0 a hn (by omega)
    obtain ⟨z1, z2⟩ := zeroUp_spec n _ _ h2
    refine ⟨z1, fun i => ?_⟩
    rw [z2 i, h1, h3 i]
    unfold shLoWord
    simp only [Nat.sub_zero, wshl_full, Nat.or_zero, wshr, Nat.pow_zero, Nat.div_one]
    by_cases c1 : i < n
    · by_cases c2 : i + ws < n
      · have c3 : ¬ (max 0 (n - ws) ≤ i) := by omega
        simp [c1, c2, c3]
      · have c3 : (max 0 (n - ws) ≤ i) := by omega
        rw [if_pos c3, if_pos c1, getD_beyond a (i + ws) (by omega)]
    · have c3 : (max 0 (n - ws) ≤ i) := by omega
      rw [if_pos c3, if_neg c1]
  · simp only [ne_eq, h0, not_false_eq_true, if_true]
    unfold shLoLoop
    obtain ⟨h1, h2, h3⟩ := forUp_spec n (ws + 1) (fun pos => decide (pos + ws + 1 < n))
      (fun p => by simp [Nat.add_assoc])
      (fun a p => wshr (a.getD (p + ws) 0) sh ||| wshl w (a.getD (p + ws + 1) 0) (w - sh))
      (fun a b p hab => by
        simp only [hab (p + ws) (by omega), hab (p + ws + 1) (by omega)]) n 0 a hn (by omega)
    generalize hr : forUp (fun pos => decide (pos + ws + 1 < n))
      (fun pos a => a.set pos
        (wshr (a.getD (pos + ws) 0) sh ||| wshl w (a.getD (pos + ws + 1) 0) (w - sh))) n 0 a = r at *
    obtain ⟨p1, a1⟩ := r
    simp only at h1 h2 h3 ⊢
    have hp1 : p1 = n - (ws + 1) := by omega
    have hl2 : (a1.set p1 (wshr (a1.getD (p1 + ws) 0) sh)).length = n := by
      rw [List.length_set]; exact h2
    obtain ⟨z1, z2⟩ := zeroUp_spec n (p1 + 1) _ hl2
    refine ⟨z1, fun i => ?_⟩
    rw [z2 i, getD_set, h3 i, h3 (p1 + ws)]
    unfold shLoWord
    by_cases c1 : i < n
    · rw [if_pos c1]
      by_cases c2 : i + (ws + 1) < n
      · have c3 : ¬ (p1 + 1 ≤ i) := by omega
        have c4 : ¬ (i = p1 ∧ p1 < a1.length) := by omega
        have c5 : 0 ≤ i ∧ i + (ws + 1) < n := by omega
        rw [if_neg c3, if_neg c4, if_pos c5]
      · by_cases c6 : i = p1
        · have c3 : ¬ (p1 + 1 ≤ i) := by omega
          have c4 : (i = p1 ∧ p1 < a1.length) := by omega
          have c5 : ¬ (0 ≤ p1 + ws ∧ p1 + ws + (ws + 1) < n) := by omega
          rw [if_neg c3, if_pos c4, if_neg c5, c6, getD_beyond a (p1 + ws + 1) (by omega),
            wshl_zero, Nat.or_zero]
        · have c3 : (p1 + 1 ≤ i) := by omega
          rw [if_pos c3, getD_beyond a (i + ws) (by omega), getD_beyond a (i + ws + 1) (by omega),
            wshl_zero]
          simp [wshr]
    · have c3 : (p1 + 1 ≤ i) := by omega
      rw [if_pos c3, if_neg c1]


theorem val_lt {w : Nat} : ∀ (a : List Nat), Wf w a → val w a < 2 ^ (w * a.length) := by
  intro a
  induction a with
  | nil => intro _; simp [val]
  | cons x xs ih =>
    intro h
    obtain ⟨hx, hxs⟩ := Wf_cons.mp h
    have := ih hxs
    rw [val_cons, List.length_cons, Nat.mul_add, Nat.mul_one, Nat.pow_add]
    have h2 : 2 ^ w * (val w xs + 1) ≤ 2 ^ w * 2 ^ (w * xs.length) := Nat.mul_le_mul_left _ this
    rw [Nat.mul_add, Nat.mul_one] at h2
    rw [Nat.mul_comm (2 ^ (w * xs.length))]
    omega

theorem val_replicate_zero (w n : Nat) : val w (List.replicate n 0) = 0 := by
  induction n with
  | zero => rfl
  | succ n ih => simp [List.replicate_succ, val, ih]

theorem Wf_replicate_zero (w n : Nat) : Wf w (List.replicate n 0) := by
  intro x hx
  rw [(List.mem_replicate.mp hx).2]
  exact Nat.two_pow_pos w

theorem Wf_of_getD {w : Nat} {R : List Nat} (h : ∀ i, R.getD i 0 < 2 ^ w) : Wf w R := by
  intro x hx
  obtain ⟨i, hi, rfl⟩ := List.mem_iff_getElem.mp hx
  have := h i
  rw [List.getD_eq_getElem?_getD, List.getElem?_eq_getElem hi] at this
  exact this

theorem wshr_lt {w x : Nat} (s : Nat) (h : x < 2 ^ w) : wshr x s < 2 ^ w :=
  Nat.lt_of_le_of_lt (Nat.div_le_self _ _) h

theorem wshl_lt (w x s : Nat) : wshl w x s < 2 ^ w := Nat.mod_lt _ (Nat.two_pow_pos w)

theorem wwShLo_val {w : Nat} (hw : 0 < w) (a : List Nat) (shift : Nat) (h : Wf w a) :
    (wwShLo w a shift).length = a.length ∧ Wf w (wwShLo w a shift) ∧
    val w (wwShLo w a shift) = val w a / 2 ^ shift := by
  by_cases hs : shift < w * a.length
  · obtain ⟨h1, h2⟩ := wwShLo_words hw a shift hs
    have hWf : Wf w (wwShLo w a shift) := by
      apply Wf_of_getD
      intro i
      rw [h2 i]
      split
      · exact Nat.or_lt_two_pow (wshr_lt _ (getD_lt h _)) (wshl_lt _ _ _)
      · exact Nat.two_pow_pos w
    refine ⟨h1, hWf, ?_⟩
    apply Nat.eq_of_testBit_eq
    intro k
    rw [testBit_val hw _ hWf, h2, tb_div, testBit_val hw a h]
    have hj : k % w < w := Nat.mod_lt _ hw
    have hk : k = w * (k / w) + k % w := (Nat.div_add_mod k w).symm
    have hsh : shift % w < w := Nat.mod_lt _ hw
    have hss : shift = w * (shift / w) + shift % w := (Nat.div_add_mod shift w).symm
    generalize k / w = i at hk
    generalize k % w = j at hk hj
    generalize shift / w = ws at hss
    generalize shift % w = sh at hss hsh
    have hidx : shift + k = w * (i + ws) + (sh + j) := by
      rw [hss, hk, Nat.mul_add]; omega
    rw [hidx]
    by_cases c0 : i < a.length
    · rw [if_pos c0]
      unfold shLoWord
      rw [Nat.testBit_or, tb_div, testBit_wshl]
      by_cases c1 : sh + j < w
      · obtain ⟨e1, e2⟩ := idx_lo hw (i + ws) (sh + j) c1
        have c2 : ¬ (w - sh ≤ j) := by omega
        rw [e1, e2]; simp [c2]
      · obtain ⟨e1, e2⟩ := idx_hi hw (i + ws) (sh + j) (by omega) (by omega)
        have c2 : (w - sh ≤ j) := by omega
        have e3 : j - (w - sh) = sh + j - w := by omega
        rw [e1, e2, testBit_high (getD_lt h (i + ws)) (by omega), e3]; simp [c2, hj]
    · rw [if_neg c0, Nat.zero_testBit]
      have : a.length ≤ (w * (i + ws) + (sh + j)) / w := by
        rw [Nat.mul_add_div hw]
        exact Nat.le_trans (by omega : a.length ≤ i + ws) (Nat.le_add_right _ _)
      rw [getD_beyond a _ this, Nat.zero_testBit]
  · have hz : wwShLo w a shift = List.replicate a.length 0 := by
      unfold wwShLo wwSetZero; rw [if_neg hs]
    rw [hz]
    refine ⟨List.length_replicate, Wf_replicate_zero _ _, ?_⟩
    rw [val_replicate_zero]
    have h1 := val_lt a h
    have h2 : 2 ^ (w * a.length) ≤ 2 ^ shift := Nat.pow_le_pow_right (by decide) (by omega)
    exact (Nat.div_eq_of_lt (by omega)).symm


/-! ## NegInv, all widths -/

/-- one Newton step in ℤ/M: if `ret' = ret (w ret + 2)` then `ret' w + 1 = (ret w + 1)^2` -/
theorem negInvStep_cast (M w ret : Nat) :
    (((ret * (((w * ret) % M + 2) % M)) % M : Nat) : ZMod M) * (w : ZMod M) + 1
      = ((ret : ZMod M) * w + 1) ^ 2 := by
  simp only [ZMod.natCast_mod, Nat.cast_mul, Nat.cast_add, Nat.cast_ofNat]
  ring

theorem negInv_start (M w : Nat) (hodd : w % 2 = 1) :
    ∃ t : Nat, ((w : ZMod M) * w + 1) = 2 * (t : ZMod M) := by
  refine ⟨(w * w + 1) / 2, ?_⟩
  have h : w * w + 1 = 2 * ((w * w + 1) / 2) := by
    have : (w * w + 1) % 2 = 0 := by
      rw [Nat.add_mod, Nat.mul_mod, hodd]
    omega
  have := congrArg (Nat.cast : Nat → ZMod M) h
  push_cast at this
  exact this

theorem u32NegInv_gen (x : Nat) (hodd : x % 2 = 1) : (u32NegInv x * x + 1) % 2 ^ 32 = 0 := by
  apply Nat.mod_eq_zero_of_dvd
  rw [← ZMod.natCast_eq_zero_iff]
  obtain ⟨t, ht⟩ := negInv_start (2 ^ 32) x hodd
  have h2 : ((2 : ZMod (2 ^ 32)) ^ 32) = 0 := by
    have := ZMod.natCast_self (2 ^ 32)
    push_cast at this
    exact this
  unfold u32NegInv u32NegInvStep
  push_cast
  have e : (0x100000000 : Nat) = 2 ^ 32 := by norm_num
  simp only [e]
  rw [negInvStep_cast, negInvStep_cast, negInvStep_cast, negInvStep_cast, negInvStep_cast, ht]
  calc ((((((2 * (t : ZMod (2 ^ 32))) ^ 2) ^ 2) ^ 2) ^ 2) ^ 2) = 2 ^ 32 * (t : ZMod (2 ^ 32)) ^ 32 := by ring
    _ = 0 := by rw [h2, zero_mul]

theorem u64NegInv_gen (x : Nat) (hodd : x % 2 = 1) : (u64NegInv x * x + 1) % 2 ^ 64 = 0 := by
  apply Nat.mod_eq_zero_of_dvd
  rw [← ZMod.natCast_eq_zero_iff]
  obtain ⟨t, ht⟩ := negInv_start (2 ^ 64) x hodd
  have h2 : ((2 : ZMod (2 ^ 64)) ^ 64) = 0 := by
    have := ZMod.natCast_self (2 ^ 64)
    push_cast at this
    exact this
  unfold u64NegInv u64NegInvStep
  push_cast
  have e : (0x10000000000000000 : Nat) = 2 ^ 64 := by norm_num
  simp only [e]
  rw [negInvStep_cast, negInvStep_cast, negInvStep_cast, negInvStep_cast, negInvStep_cast,
    negInvStep_cast, ht]
  calc (((((((2 * (t : ZMod (2 ^ 64))) ^ 2) ^ 2) ^ 2) ^ 2) ^ 2) ^ 2)
      = 2 ^ 64 * (t : ZMod (2 ^ 64)) ^ 64 := by ring
    _ = 0 := by rw [h2, zero_mul]

/-- the u16 step: evaluated in `int`, reduced only by the assignment -/
theorem negInvStep16_cast (M w ret : Nat) :
    (((ret * (w * ret + 2)) % M : Nat) : ZMod M) * (w : ZMod M) + 1
      = ((ret : ZMod M) * w + 1) ^ 2 := by
  simp only [ZMod.natCast_mod, Nat.cast_mul, Nat.cast_add, Nat.cast_ofNat]
  ring

theorem u16NegInv_gen (x : Nat) (hodd : x % 2 = 1) : (u16NegInv x * x + 1) % 2 ^ 16 = 0 := by
  apply Nat.mod_eq_zero_of_dvd
  rw [← ZMod.natCast_eq_zero_iff]
  obtain ⟨t, ht⟩ := negInv_start (2 ^ 16) x hodd
  have h2 : ((2 : ZMod (2 ^ 16)) ^ 16) = 0 := by
    have := ZMod.natCast_self (2 ^ 16)
    push_cast at this
    exact this
  unfold u16NegInv u16NegInvStep
  push_cast
  have e : (0x10000 : Nat) = 2 ^ 16 := by norm_num
  simp only [e]
  rw [negInvStep16_cast, negInvStep16_cast, negInvStep16_cast, negInvStep16_cast, ht]
  calc (((((2 * (t : ZMod (2 ^ 16))) ^ 2) ^ 2) ^ 2) ^ 2) = 2 ^ 16 * (t : ZMod (2 ^ 16)) ^ 16 := by ring
    _ = 0 := by rw [h2, zero_mul]


/-! ## CLZ / CTZ -/

/-- `c` is the number of trailing zero bits of the `bits`-bit word `x` -/
def CtzSpec (bits x c : Nat) : Prop :=
  (x = 0 → c = bits) ∧ (x ≠ 0 → c < bits ∧ x % 2 ^ c = 0 ∧ x / 2 ^ c % 2 = 1)
/-- `c` is the number of leading zero bits of the `bits`-bit word `x` -/
def ClzSpec (bits x c : Nat) : Prop :=
  (x = 0 → c = bits) ∧ (x ≠ 0 → c < bits ∧ x / 2 ^ (bits - 1 - c) = 1)

theorem u32CLZ_fast_gen (x : Nat) (hx : x < 2 ^ 32) : ClzSpec 32 x (u32CLZ_fast x) := by
  unfold u32CLZ_fast ClzSpec
  simp only [Nat.shiftRight_eq_div_pow]
  norm_num at hx ⊢
  split_ifs <;> simp only [] at * <;> refine ⟨by first | omega | (intro; trivial), fun h0 => ⟨by omega, ?_⟩⟩ <;> norm_num <;> omega


/-- an in-place descending loop `for (; pos + 1 > c; pos--) a[pos] = g(a, pos)` (q = pos + 1) whose
    body reads the array only at indices ≤ pos computes `g` of the ORIGINAL array -/
theorem forDown_spec (n c : Nat) (cond : Nat → Bool) (hc : ∀ q, cond q = decide (c < q))
    (g : List Nat → Nat → Nat)
    (hg : ∀ (a b : List Nat) (p : Nat), (∀ i, i ≤ p → a.getD i 0 = b.getD i 0) → g a p = g b p) :
    ∀ (fuel q : Nat) (a : List Nat), a.length = n → q ≤ n → q ≤ c + fuel →
      (forDown cond (fun pos a => a.set pos (g a pos)) fuel q a).1 = min q c ∧
      (forDown cond (fun pos a => a.set pos (g a pos)) fuel q a).2.length = n ∧
      ∀ i, (forDown cond (fun pos a => a.set pos (g a pos)) fuel q a).2.getD i 0 =
        if c ≤ i ∧ i < q then g a i else a.getD i 0 := by
  intro fuel
  induction fuel with
  | zero =>
    intro q a hl hq hf
    simp only [forDown]
    refine ⟨by omega, hl, fun i => ?_⟩
    have : ¬ (c ≤ i ∧ i < q) := by omega
    rw [if_neg this]
  | succ fuel ih =>
    intro q a hl hq hf
    simp only [forDown, hc]
    by_cases hcond : c < q
    · simp only [hcond, decide_true, if_true]
      have hl1 : (a.set (q - 1) (g a (q - 1))).length = n := by rw [List.length_set]; exact hl
      obtain ⟨h1, h2, h3⟩ := ih (q - 1) (a.set (q - 1) (g a (q - 1))) hl1 (by omega) (by omega)
      refine ⟨by rw [h1]; omega, h2, fun i => ?_⟩
      rw [h3 i]
      by_cases c1 : c ≤ i ∧ i < q - 1
      · have c2 : c ≤ i ∧ i < q := by omega
        rw [if_pos c1, if_pos c2]
        apply hg
        intro j hj
        rw [getD_set]
        have : ¬ (j = q - 1 ∧ q - 1 < a.length) := by omega
        rw [if_neg this]
      · rw [if_neg c1, getD_set]
        by_cases c2 : i = q - 1
        · have c3 : c ≤ i ∧ i < q := by omega
          have c4 : i = q - 1 ∧ q - 1 < a.length := by omega
          rw [if_pos c4, if_pos c3, c2]
        · have c3 : ¬ (c ≤ i ∧ i < q) := by omega
          have c4 : ¬ (i = q - 1 ∧ q - 1 < a.length) := by omega
          rw [if_neg c4, if_neg c3]
    · simp only [hcond, decide_false, Bool.false_eq_true, if_false]
      refine ⟨by omega, hl, fun i => ?_⟩
      have : ¬ (c ≤ i ∧ i < q) := by omega
      rw [if_neg this]

theorem zeroDown_spec (n : Nat) (q : Nat) (a : List Nat) (hl : a.length = n) (hq : q ≤ n) :
    (zeroDown n q a).length = n ∧
    ∀ i, (zeroDown n q a).getD i 0 = if i < q then 0 else a.getD i 0 := by
  unfold zeroDown
  obtain ⟨_, h2, h3⟩ := forDown_spec n 0 (fun q => q != 0) (fun p => by
      by_cases h : p = 0 <;> simp [h, Nat.pos_iff_ne_zero])
    (fun _ _ => 0) (fun _ _ _ _ => rfl) n q a hl hq (by omega)
  refine ⟨h2, fun i => ?_⟩
  rw [h3 i]
  simp

/-- the word `i` of the number shifted towards the high bits -/
def shHiWord (w : Nat) (a : List Nat) (ws sh i : Nat) : Nat :=
  if i < ws then 0
  else wshl w (a.getD (i - ws) 0) sh ||| (if i = ws then 0 else wshr (a.getD (i - ws - 1) 0) (w - sh))

theorem wwShHi_words {w : Nat} (hw : 0 < w) (a : List Nat) (shift : Nat) (h : Wf w a)
    (hs : shift < w * a.length) :
    (wwShHi w a shift).length = a.length ∧
    ∀ i, (wwShHi w a shift).getD i 0 =
      if i < a.length then shHiWord w a (shift / w) (shift % w) i else 0 := by
  have hwsn : shift / w < a.length := pos_word_lt hs
  unfold wwShHi
  simp only [hs, if_true]
  generalize hn : a.length = n at *
  generalize hws : shift / w = ws at *
  generalize hsh : shift % w = sh
  have hshw : sh < w := by rw [← hsh]; exact Nat.mod_lt _ hw
  by_cases h0 : sh = 0
  · subst h0
    simp only [ne_eq, not_true_eq_false, if_false]
    unfold shHiCopy
    obtain ⟨h1, h2, h3⟩ := forDown_spec n ws (fun q => q != 0 && decide (q > ws)) (fun p => by
        by_cases hp : ws < p
        · have : p ≠ 0 := by omega
          simp [hp, this]
        · simp [hp])
      (fun a p => a.getD (p - ws) 0)
      (fun a b p hab => hab (p - ws) (by omega)) n n a hn (by omega) (by omega)
    obtain ⟨z1, z2⟩ := zeroDown_spec n (forDown (fun q => q != 0 && decide (q > ws))
      (fun pos a => a.set pos (a.getD (pos - ws) 0)) n n a).1 _ h2 (by rw [h1]; omega)
    refine ⟨z1, fun i => ?_⟩
    rw [z2 i, h1, h3 i]
    unfold shHiWord
    by_cases c1 : i < n
    · rw [if_pos c1]
      by_cases c2 : i < ws
      · have c3 : i < min n ws := by omega
        rw [if_pos c3, if_pos c2]
      · have c3 : ¬ i < min n ws := by omega
        have c4 : ws ≤ i ∧ i < n := by omega
        have e1 : wshl w (a.getD (i - ws) 0) 0 = a.getD (i - ws) 0 := by
          simp only [wshl, Nat.pow_zero, Nat.mul_one]
          exact Nat.mod_eq_of_lt (getD_lt h _)
        have e2 : wshr (a.getD (i - ws - 1) 0) (w - 0) = 0 := by
          simp only [wshr, Nat.sub_zero]
          exact Nat.div_eq_of_lt (getD_lt h _)
        rw [if_neg c3, if_pos c4, if_neg c2, e1, e2]
        split <;> simp
    · have c3 : ¬ i < min n ws := by omega
      have c4 : ¬ (ws ≤ i ∧ i < n) := by omega
      rw [if_neg c3, if_neg c4, if_neg c1, getD_beyond a i (by omega)]
  · simp only [ne_eq, h0, not_false_eq_true, if_true]
    unfold shHiLoop
    obtain ⟨h1, h2, h3⟩ := forDown_spec n (ws + 1) (fun q => decide (q > ws + 1))
      (fun p => rfl)
      (fun a p => wshl w (a.getD (p - ws) 0) sh ||| wshr (a.getD (p - ws - 1) 0) (w - sh))
      (fun a b p hab => by
        simp only [hab (p - ws) (by omega), hab (p - ws - 1) (by omega)]) n n a hn (by omega)
        (by omega)
    generalize hr : forDown (fun q => decide (q > ws + 1))
      (fun pos a => a.set pos
        (wshl w (a.getD (pos - ws) 0) sh ||| wshr (a.getD (pos - ws - 1) 0) (w - sh))) n n a = r at *
    obtain ⟨q1, a1⟩ := r
    simp only at h1 h2 h3 ⊢
    have hq1 : q1 = ws + 1 := by omega
    have hl2 : (a1.set (q1 - 1) (wshl w (a1.getD (q1 - 1 - ws) 0) sh)).length = n := by
      rw [List.length_set]; exact h2
    obtain ⟨z1, z2⟩ := zeroDown_spec n (q1 - 1) _ hl2 (by omega)
    refine ⟨z1, fun i => ?_⟩
    rw [z2 i, getD_set, h3 i, h3 (q1 - 1 - ws)]
    unfold shHiWord
    subst hq1
    simp only [Nat.add_sub_cancel, Nat.sub_self]
    by_cases c1 : i < n
    · rw [if_pos c1]
      by_cases c2 : i < ws
      · rw [if_pos c2, if_pos c2]
      · rw [if_neg c2, if_neg c2]
        by_cases c3 : i = ws
        · have c4 : i = ws ∧ ws < a1.length := by omega
          have c5 : ¬ (ws + 1 ≤ 0 ∧ 0 < n) := by omega
          rw [if_pos c4, if_neg c5, if_pos c3, c3, Nat.sub_self, Nat.or_zero]
        · have c4 : ¬ (i = ws ∧ ws < a1.length) := by omega
          have c5 : (ws + 1 ≤ i ∧ i < n) := by omega
          rw [if_neg c4, if_pos c5, if_neg c3]
    · have c2 : ¬ i < ws := by omega
      have c4 : ¬ (i = ws ∧ ws < a1.length) := by omega
      have c5 : ¬ (ws + 1 ≤ i ∧ i < n) := by omega
      rw [if_neg c2, if_neg c4, if_neg c5, if_neg c1, getD_beyond a i (by omega)]


theorem wwShHi_val {w : Nat} (hw : 0 < w) (a : List Nat) (shift : Nat) (h : Wf w a) :
    (wwShHi w a shift).length = a.length ∧ Wf w (wwShHi w a shift) ∧
    val w (wwShHi w a shift) = (val w a * 2 ^ shift) % 2 ^ (w * a.length) := by
  by_cases hs : shift < w * a.length
  · obtain ⟨h1, h2⟩ := wwShHi_words hw a shift h hs
    have hWf : Wf w (wwShHi w a shift) := by
      apply Wf_of_getD
      intro i
      rw [h2 i]
      unfold shHiWord
      split
      · split
        · exact Nat.two_pow_pos w
        · refine Nat.or_lt_two_pow (wshl_lt _ _ _) ?_
          split
          · exact Nat.two_pow_pos w
          · exact wshr_lt _ (getD_lt h _)
      · exact Nat.two_pow_pos w
    refine ⟨h1, hWf, ?_⟩
    apply Nat.eq_of_testBit_eq
    intro k
    rw [testBit_val hw _ hWf, h2, Nat.testBit_mod_two_pow, Nat.testBit_mul_two_pow]
    have hj : k % w < w := Nat.mod_lt _ hw
    have hk : k = w * (k / w) + k % w := (Nat.div_add_mod k w).symm
    have hsh : shift % w < w := Nat.mod_lt _ hw
    have hss : shift = w * (shift / w) + shift % w := (Nat.div_add_mod shift w).symm
    generalize k / w = i at hk
    generalize k % w = j at hk hj
    generalize shift / w = ws at hss
    generalize shift % w = sh at hss hsh
    by_cases c0 : i < a.length
    · have hkn : k < w * a.length := by
        have : w * (i + 1) ≤ w * a.length := Nat.mul_le_mul_left w c0
        rw [Nat.mul_add] at this; omega
      rw [if_pos c0]
      simp only [hkn, decide_true, Bool.true_and]
      unfold shHiWord
      by_cases c1 : i < ws
      · have : ¬ shift ≤ k := by
          have : w * (i + 1) ≤ w * ws := Nat.mul_le_mul_left w c1
          rw [Nat.mul_add] at this; omega
        rw [if_pos c1]; simp [this]
      · rw [if_neg c1, Nat.testBit_or, testBit_wshl]
        have hmul : w * i = w * (i - ws) + w * ws := by
          rw [← Nat.mul_add]; congr 1; omega
        by_cases c2 : sh ≤ j
        · have c3 : shift ≤ k := by omega
          have hidx : k - shift = w * (i - ws) + (j - sh) := by omega
          obtain ⟨e1, e2⟩ := idx_lo hw (i - ws) (j - sh) (by omega)
          have e4 : (if i = ws then 0 else wshr (a.getD (i - ws - 1) 0) (w - sh)).testBit j
              = false := by
            split
            · exact Nat.zero_testBit _
            · rw [tb_div]; exact testBit_high (getD_lt h _) (by omega)
          rw [testBit_val hw a h, hidx, e1, e2, e4]
          simp [c2, c3, hj]
        · have e5 : (decide (j < w) && (decide (sh ≤ j) && (a.getD (i - ws) 0).testBit (j - sh)))
              = false := by simp [c2]
          rw [e5, Bool.false_or]
          by_cases c4 : i = ws
          · have c3 : ¬ shift ≤ k := by subst c4; omega
            rw [if_pos c4]; simp [c3]
          · have c3 : shift ≤ k := by
              have : w * (ws + 1) ≤ w * i := Nat.mul_le_mul_left w (by omega)
              rw [Nat.mul_add] at this; omega
            have hmul2 : w * i = w * (i - ws - 1) + w * ws + w := by
              have : i = (i - ws - 1) + ws + 1 := by omega
              conv_lhs => rw [this]
              rw [Nat.mul_add, Nat.mul_add, Nat.mul_one]
            have hidx : k - shift = w * (i - ws - 1) + (w - sh + j) := by omega
            obtain ⟨e1, e2⟩ := idx_lo hw (i - ws - 1) (w - sh + j) (by omega)
            rw [if_neg c4, tb_div, testBit_val hw a h, hidx, e1, e2]
            simp [c3]
    · have hkn : ¬ k < w * a.length := by
        have : w * a.length ≤ w * i := Nat.mul_le_mul_left w (Nat.le_of_not_lt c0)
        omega
      rw [if_neg c0]; simp [hkn]
  · have hz : wwShHi w a shift = List.replicate a.length 0 := by
      unfold wwShHi wwSetZero; rw [if_neg hs]
    rw [hz]
    refine ⟨List.length_replicate, Wf_replicate_zero _ _, ?_⟩
    rw [val_replicate_zero]
    have h2 : 2 ^ shift = 2 ^ (w * a.length) * 2 ^ (shift - w * a.length) := by
      rw [← Nat.pow_add]; congr 1; omega
    rw [h2, ← Nat.mul_assoc, Nat.mul_comm (val w a), Nat.mul_assoc, Nat.mul_mod_right]



/-! ## trimming -/

theorem trimLoLoop_spec : ∀ (i : Nat) (a : List Nat),
    (trimLoLoop i a).length = a.length ∧
    ∀ k, (trimLoLoop i a).getD k 0 = if k < i then 0 else a.getD k 0 := by
  intro i
  induction i with
  | zero => intro a; exact ⟨rfl, fun k => by simp [trimLoLoop]⟩
  | succ i ih =>
    intro a
    simp only [trimLoLoop]
    obtain ⟨h1, h2⟩ := ih (a.set i 0)
    refine ⟨by rw [h1, List.length_set], fun k => ?_⟩
    rw [h2 k, getD_set]
    by_cases c1 : k < i
    · have : k < i + 1 := by omega
      rw [if_pos c1, if_pos this]
    · rw [if_neg c1]
      by_cases c2 : k = i
      · have c3 : k < i + 1 := by omega
        rw [if_pos c3]
        by_cases c4 : i < a.length
        · rw [if_pos ⟨c2, c4⟩]
        · have : ¬ (k = i ∧ i < a.length) := fun hh => c4 hh.2
          rw [if_neg this, getD_beyond a k (by omega)]
      · have c3 : ¬ k < i + 1 := by omega
        have : ¬ (k = i ∧ i < a.length) := fun hh => c2 hh.1
        rw [if_neg c3, if_neg this]

theorem bits_to_val {w : Nat} (hw : 0 < w) (R : List Nat) (X : Nat)
    (hR : ∀ i, R.getD i 0 < 2 ^ w)
    (hb : ∀ k, (R.getD (k / w) 0).testBit (k % w) = X.testBit k) :
    Wf w R ∧ val w R = X := by
  have hWf := Wf_of_getD hR
  refine ⟨hWf, Nat.eq_of_testBit_eq fun k => ?_⟩
  rw [testBit_val hw R hWf, hb]

theorem wwTrimHi_val {w : Nat} (hw : 0 < w) (a : List Nat) (pos : Nat) (h : Wf w a) :
    (wwTrimHi w a pos).length = a.length ∧ Wf w (wwTrimHi w a pos) ∧
    val w (wwTrimHi w a pos) = val w a % 2 ^ pos := by
  unfold wwTrimHi
  simp only
  by_cases hi : pos / w < a.length
  · simp only [hi, if_true]
    have hp : pos % w < w := Nat.mod_lt _ hw
    have hpos : pos = w * (pos / w) + pos % w := (Nat.div_add_mod pos w).symm
    generalize pos / w = n at *
    generalize pos % w = p at *
    -- the new word a[n]
    have hword : ∀ L : List Nat, L = (if w - p = w then a.set n 0
        else a.set n (wshr (wshl w (a.getD n 0) (w - p)) (w - p))) →
        L.length = a.length ∧ ∀ i, L.getD i 0 = if i = n then a.getD n 0 % 2 ^ p else a.getD i 0 := by
      intro L hL
      have e : wshr (wshl w (a.getD n 0) (w - p)) (w - p) = a.getD n 0 % 2 ^ p := by
        apply Nat.eq_of_testBit_eq; intro j
        rw [tb_div, testBit_wshl, Nat.testBit_mod_two_pow]
        by_cases c : j < p
        · have c1 : w - p + j < w := by omega
          have c2 : w - p ≤ w - p + j := by omega
          have c3 : w - p + j - (w - p) = j := by omega
          simp [c, c1, c2, c3]
        · have c1 : ¬ w - p + j < w := by omega
          simp [c, c1]
      by_cases c0 : w - p = w
      · have hp0 : p = 0 := by omega
        rw [if_pos c0] at hL
        subst hL
        refine ⟨List.length_set, fun i => ?_⟩
        rw [getD_set, hp0, Nat.pow_zero, Nat.mod_one]
        by_cases c : i = n
        · simp [c, hi]
        · simp [c]
      · rw [if_neg c0, e] at hL
        subst hL
        refine ⟨List.length_set, fun i => ?_⟩
        rw [getD_set]
        by_cases c : i = n
        · simp [c, hi]
        · simp [c]
    obtain ⟨l1, g1⟩ := hword _ rfl
    obtain ⟨z1, z2⟩ := zeroUp_spec a.length (n + 1) _ l1
    refine ⟨z1, ?_⟩
    apply bits_to_val hw
    · intro i
      rw [z2 i, g1 i]
      split
      · exact Nat.two_pow_pos w
      · split
        · exact Nat.lt_of_le_of_lt (Nat.mod_le _ _) (getD_lt h _)
        · exact getD_lt h _
    · intro k
      rw [z2, g1, Nat.testBit_mod_two_pow, testBit_val hw a h]
      have hj : k % w < w := Nat.mod_lt _ hw
      have hk : k = w * (k / w) + k % w := (Nat.div_add_mod k w).symm
      generalize k / w = i at *
      generalize k % w = j at *
      by_cases c1 : n + 1 ≤ i
      · have : ¬ k < pos := by
          have : w * (n + 1) ≤ w * i := Nat.mul_le_mul_left w c1
          rw [Nat.mul_add] at this; omega
        rw [if_pos c1]; simp [this]
      · rw [if_neg c1]
        by_cases c2 : i = n
        · subst c2
          have e : (k < pos) ↔ (j < p) := by omega
          rw [if_pos rfl, Nat.testBit_mod_two_pow]
          simp only [e]
        · have : k < pos := by
            have : w * (i + 1) ≤ w * n := Nat.mul_le_mul_left w (by omega)
            rw [Nat.mul_add] at this; omega
          rw [if_neg c2]; simp [this]
  · simp only [hi, if_false]
    refine ⟨trivial, h, ?_⟩
    have h1 := val_lt a h
    have h2 : 2 ^ (w * a.length) ≤ 2 ^ pos := by
      apply Nat.pow_le_pow_right (by decide)
      have := Nat.mul_le_mul_left w (Nat.le_of_not_lt hi)
      have := Nat.mul_div_le pos w
      omega
    exact (Nat.mod_eq_of_lt (by omega)).symm


theorem wwTrimLo_val {w : Nat} (hw : 0 < w) (a : List Nat) (pos : Nat) (h : Wf w a) :
    (wwTrimLo w a pos).length = a.length ∧ Wf w (wwTrimLo w a pos) ∧
    val w (wwTrimLo w a pos) = val w a / 2 ^ pos * 2 ^ pos := by
  have spec_bits : ∀ k, (val w a / 2 ^ pos * 2 ^ pos).testBit k
      = (decide (pos ≤ k) && (val w a).testBit k) := by
    intro k
    rw [Nat.testBit_mul_two_pow, tb_div]
    by_cases c : pos ≤ k
    · have : pos + (k - pos) = k := by omega
      simp [c, this]
    · simp [c]
  unfold wwTrimLo
  simp only
  have hp : pos % w < w := Nat.mod_lt _ hw
  have hpos : pos = w * (pos / w) + pos % w := (Nat.div_add_mod pos w).symm
  generalize pos / w = n at *
  generalize pos % w = p at *
  by_cases hi : n < a.length
  · simp only [hi, if_true]
    have hword : ∀ L : List Nat, L = (if p ≠ 0 then a.set n (wshl w (wshr (a.getD n 0) p) p) else a) →
        L.length = a.length ∧
        ∀ i, L.getD i 0 = if i = n then wshl w (wshr (a.getD n 0) p) p else a.getD i 0 := by
      intro L hL
      by_cases c0 : p = 0
      · have : ¬ p ≠ 0 := fun hh => hh c0
        rw [if_neg this] at hL
        subst hL
        refine ⟨rfl, fun i => ?_⟩
        by_cases c : i = n
        · subst c
          rw [if_pos rfl, c0]
          simp only [wshl, wshr, Nat.pow_zero, Nat.div_one, Nat.mul_one]
          exact (Nat.mod_eq_of_lt (getD_lt h _)).symm
        · rw [if_neg c]
      · rw [if_pos c0] at hL
        subst hL
        refine ⟨List.length_set, fun i => ?_⟩
        rw [getD_set]
        by_cases c : i = n
        · simp [c, hi]
        · simp [c]
    obtain ⟨l1, g1⟩ := hword _ rfl
    obtain ⟨t1, t2⟩ := trimLoLoop_spec n (if p ≠ 0 then a.set n (wshl w (wshr (a.getD n 0) p) p) else a)
    refine ⟨by rw [t1, l1], ?_⟩
    apply bits_to_val hw
    · intro i
      rw [t2 i, g1 i]
      split
      · exact Nat.two_pow_pos w
      · split
        · exact wshl_lt _ _ _
        · exact getD_lt h _
    · intro k
      rw [t2, g1, spec_bits, testBit_val hw a h]
      have hj : k % w < w := Nat.mod_lt _ hw
      have hk : k = w * (k / w) + k % w := (Nat.div_add_mod k w).symm
      generalize k / w = i at *
      generalize k % w = j at *
      by_cases c1 : i < n
      · have : ¬ pos ≤ k := by
          have : w * (i + 1) ≤ w * n := Nat.mul_le_mul_left w c1
          rw [Nat.mul_add] at this; omega
        rw [if_pos c1]; simp [this]
      · rw [if_neg c1]
        by_cases c2 : i = n
        · subst c2
          rw [if_pos rfl, testBit_wshl, tb_div]
          by_cases c3 : p ≤ j
          · have e : pos ≤ k := by omega
            have e2 : p + (j - p) = j := by omega
            simp [c3, e, e2, hj]
          · have e : ¬ pos ≤ k := by omega
            simp [c3, e]
        · have : pos ≤ k := by
            have : w * (n + 1) ≤ w * i := Nat.mul_le_mul_left w (by omega)
            rw [Nat.mul_add] at this; omega
          rw [if_neg c2]; simp [this]
  · -- the whole array is cleared
    have hz : (if n < a.length then trimLoLoop n (if p ≠ 0 then a.set n (wshl w (wshr (a.getD n 0) p) p) else a)
        else if n > a.length then trimLoLoop a.length a else trimLoLoop n a)
        = trimLoLoop (min n a.length) a := by
      rw [if_neg hi]
      split
      · rw [Nat.min_eq_right (by omega)]
      · rw [Nat.min_eq_left (by omega)]
    rw [hz]
    obtain ⟨t1, t2⟩ := trimLoLoop_spec (min n a.length) a
    refine ⟨t1, ?_⟩
    have hv : val w a / 2 ^ pos * 2 ^ pos = 0 := by
      have h1 := val_lt a h
      have h2 : 2 ^ (w * a.length) ≤ 2 ^ pos := by
        apply Nat.pow_le_pow_right (by decide)
        have := Nat.mul_le_mul_left w (Nat.le_of_not_lt hi)
        omega
      rw [Nat.div_eq_of_lt (by omega), Nat.zero_mul]
    rw [hv]
    apply bits_to_val hw
    · intro i
      rw [t2 i]
      split
      · exact Nat.two_pow_pos w
      · exact getD_lt h _
    · intro k
      rw [t2, Nat.zero_testBit]
      by_cases c : k / w < min n a.length
      · rw [if_pos c, Nat.zero_testBit]
      · rw [if_neg c, getD_beyond a _ (by omega), Nat.zero_testBit]



/-! ## sizes -/

/-- the scan from the top: `m` = index of the last non-zero word + 1 (0 if there is none) -/
theorem wordSizeLoop_spec : ∀ (l : List Nat),
    wwWordSizeLoop l ≤ l.length ∧
    (∀ i, i < l.length - wwWordSizeLoop l → l.getD i 0 = 0) ∧
    (0 < wwWordSizeLoop l → l.getD (l.length - wwWordSizeLoop l) 0 ≠ 0) := by
  intro l
  induction l with
  | nil => simp [wwWordSizeLoop]
  | cons x xs ih =>
    simp only [wwWordSizeLoop]
    by_cases hx : x = 0
    · subst hx
      obtain ⟨h1, h2, h3⟩ := ih
      simp only [beq_self_eq_true, if_true, List.length_cons]
      refine ⟨by omega, fun i hi => ?_, fun hm => ?_⟩
      · cases i with
        | zero => rfl
        | succ i => simpa using h2 i (by omega)
      · have e : xs.length + 1 - wwWordSizeLoop xs = (xs.length - wwWordSizeLoop xs) + 1 := by omega
        rw [e]
        simpa using h3 hm
    · have hb : (x == 0) = false := by simp [hx]
      simp only [hb, Bool.false_eq_true, if_false, List.length_cons, Nat.sub_self]
      refine ⟨Nat.le_refl _, fun i hi => by omega, fun _ => by simpa using hx⟩

theorem getD_reverse (a : List Nat) (i : Nat) (hi : i < a.length) :
    a.reverse.getD i 0 = a.getD (a.length - 1 - i) 0 := by
  rw [List.getD_eq_getElem?_getD, List.getD_eq_getElem?_getD, List.getElem?_reverse hi]

theorem wwWordSize_spec' (a : List Nat) :
    wwWordSize a ≤ a.length ∧
    (∀ i, wwWordSize a ≤ i → a.getD i 0 = 0) ∧
    (0 < wwWordSize a → a.getD (wwWordSize a - 1) 0 ≠ 0) := by
  unfold wwWordSize
  obtain ⟨h1, h2, h3⟩ := wordSizeLoop_spec a.reverse
  rw [List.length_reverse] at h1 h2 h3
  generalize wwWordSizeLoop a.reverse = m at *
  refine ⟨h1, fun i hi => ?_, fun hm => ?_⟩
  · by_cases c : i < a.length
    · have := h2 (a.length - 1 - i) (by omega)
      rw [getD_reverse a _ (by omega)] at this
      have e : a.length - 1 - (a.length - 1 - i) = i := by omega
      rw [e] at this; exact this
    · exact getD_beyond a i (by omega)
  · have := h3 hm
    rw [getD_reverse a _ (by omega)] at this
    have e : a.length - 1 - (a.length - m) = m - 1 := by omega
    rw [e] at this; exact this

/-- `c` = number of leading zeros of the non-zero word `x` -/
def ClzOK (w : Nat) (clz : Nat → Nat) : Prop :=
  ∀ x, 0 < x → x < 2 ^ w → clz x < w ∧ x / 2 ^ (w - 1 - clz x) = 1

theorem wwBitSize_gen {w : Nat} (hw : 0 < w) (clz : Nat → Nat) (hclz : ClzOK w clz)
    (a : List Nat) (h : Wf w a) :
    wwBitSizeWith clz w a ≤ w * a.length ∧
    val w a < 2 ^ wwBitSizeWith clz w a ∧
    (0 < wwBitSizeWith clz w a → 2 ^ (wwBitSizeWith clz w a - 1) ≤ val w a) ∧
    wwHiZeroBitsWith clz w a + wwBitSizeWith clz w a = w * a.length := by
  obtain ⟨h1, h2, h3⟩ := wwWordSize_spec' a
  unfold wwBitSizeWith wwHiZeroBitsWith
  unfold wwWordSize at h1 h2 h3
  simp only
  generalize wwWordSizeLoop a.reverse = m at *
  by_cases hm : m = 0
  · subst hm
    simp only [if_true, Nat.sub_self, Nat.pow_zero]
    have hv : val w a = 0 := by
      apply Nat.eq_of_testBit_eq; intro k
      rw [testBit_val hw a h, h2 _ (Nat.zero_le _), Nat.zero_testBit, Nat.zero_testBit]
    rw [hv, Nat.mul_comm]
    exact ⟨Nat.zero_le _, Nat.one_pos, fun hh => absurd hh (Nat.lt_irrefl 0), by omega⟩
  · have hmp : 0 < m := Nat.pos_of_ne_zero hm
    have htop := h3 hmp
    have hlt := getD_lt h (m - 1)
    obtain ⟨c1, c2⟩ := hclz _ (Nat.pos_of_ne_zero htop) hlt
    generalize clz (a.getD (m - 1) 0) = c at *
    generalize htopv : a.getD (m - 1) 0 = top at *
    simp only [hm, if_false]
    have hmul : a.length * w = (a.length - m) * w + (m - 1) * w + w := by
      have : a.length = (a.length - m) + (m - 1) + 1 := by omega
      conv_lhs => rw [this]
      rw [Nat.add_mul, Nat.add_mul, Nat.one_mul]
    have hB : a.length * w - ((a.length - m) * w + c) = w * (m - 1) + (w - c) := by
      rw [hmul, Nat.mul_comm w (m - 1)]; omega
    rw [hB]
    have hmw : w * (m - 1) + w ≤ w * a.length := by
      have : w * m ≤ w * a.length := Nat.mul_le_mul_left w h1
      have e : w * m = w * (m - 1) + w := by
        have : m = (m - 1) + 1 := by omega
        conv_lhs => rw [this]
        rw [Nat.mul_add, Nat.mul_one]
      omega
    -- top / 2^(w-1-c) = 1 : bit w-1-c is set and no bit above it
    have htb : top.testBit (w - 1 - c) = true := by
      rw [Nat.testBit_eq_decide_div_mod_eq, c2]; rfl
    have hhi : ∀ j, w - c ≤ j → top.testBit j = false := by
      intro j hj
      have : top < 2 ^ (w - c) := by
        have e : 2 ^ (w - c) = 2 ^ (w - 1 - c) * 2 := by
          rw [← Nat.pow_succ]; congr 1; omega
        have := Nat.lt_of_div_lt_div (a := top) (b := 2 ^ (w - 1 - c) * 2) (c := 2 ^ (w - 1 - c)) (by
          rw [c2, Nat.mul_div_cancel_left _ (Nat.two_pow_pos _)]; decide)
        omega
      exact testBit_high this hj
    refine ⟨by omega, ?_, fun _ => ?_, ?_⟩
    · apply Nat.lt_pow_two_of_testBit
      intro k hk
      rw [testBit_val hw a h]
      have hj : k % w < w := Nat.mod_lt _ hw
      have hkk : k = w * (k / w) + k % w := (Nat.div_add_mod k w).symm
      generalize k / w = i at *
      generalize k % w = j at *
      by_cases ci : m ≤ i
      · rw [h2 i ci, Nat.zero_testBit]
      · have : i = m - 1 := by
          by_contra hne
          have : w * (i + 1) ≤ w * (m - 1) := Nat.mul_le_mul_left w (by omega)
          rw [Nat.mul_add] at this; omega
        subst this
        rw [htopv]
        exact hhi j (by omega)
    · apply Nat.ge_two_pow_of_testBit
      rw [testBit_val hw a h]
      have e : w * (m - 1) + (w - c) - 1 = w * (m - 1) + (w - 1 - c) := by omega
      obtain ⟨e1, e2⟩ := idx_lo hw (m - 1) (w - 1 - c) (by omega)
      rw [e, e1, e2, htopv, htb]
    · rw [Nat.mul_comm w a.length, hmul, Nat.mul_comm w (m - 1)]; omega


theorem loZeroLoop_spec : ∀ (a : List Nat),
    wwLoZeroLoop a ≤ a.length ∧ (∀ k, k < wwLoZeroLoop a → a.getD k 0 = 0) ∧
    (wwLoZeroLoop a < a.length → a.getD (wwLoZeroLoop a) 0 ≠ 0) := by
  intro a
  induction a with
  | nil => simp [wwLoZeroLoop]
  | cons x xs ih =>
    simp only [wwLoZeroLoop]
    by_cases hx : x = 0
    · subst hx
      obtain ⟨h1, h2, h3⟩ := ih
      simp only [beq_self_eq_true, if_true, List.length_cons]
      refine ⟨by omega, fun k hk => ?_, fun hm => ?_⟩
      · cases k with
        | zero => rfl
        | succ k => simpa using h2 k (by omega)
      · simpa using h3 (by omega)
    · have hb : (x == 0) = false := by simp [hx]
      simp only [hb, Bool.false_eq_true, if_false, List.length_cons]
      exact ⟨Nat.zero_le _, fun k hk => by omega, fun _ => by simpa using hx⟩

/-- `ctz x` = number of trailing zeros of the non-zero word `x` -/
def CtzOK (w : Nat) (ctz : Nat → Nat) : Prop :=
  ∀ x, 0 < x → x < 2 ^ w → ctz x < w ∧ x % 2 ^ ctz x = 0 ∧ x / 2 ^ ctz x % 2 = 1

theorem wwLoZeroBits_gen {w : Nat} (hw : 0 < w) (ctz : Nat → Nat) (hctz : CtzOK w ctz)
    (a : List Nat) (h : Wf w a) :
    wwLoZeroBitsWith ctz w a ≤ w * a.length ∧
    (∀ k, k < wwLoZeroBitsWith ctz w a → (val w a).testBit k = false) ∧
    (wwLoZeroBitsWith ctz w a < w * a.length →
      (val w a).testBit (wwLoZeroBitsWith ctz w a) = true) := by
  obtain ⟨h1, h2, h3⟩ := loZeroLoop_spec a
  unfold wwLoZeroBitsWith
  simp only
  generalize wwLoZeroLoop a = i at *
  by_cases hi : i = a.length
  · rw [if_pos hi, Nat.mul_comm]
    refine ⟨Nat.le_refl _, fun k hk => ?_, fun hh => absurd hh (Nat.lt_irrefl _)⟩
    rw [testBit_val hw a h]
    by_cases c : k / w < i
    · rw [h2 _ c, Nat.zero_testBit]
    · rw [getD_beyond a _ (by omega), Nat.zero_testBit]
  · rw [if_neg hi]
    have hil : i < a.length := by omega
    have hne := h3 hil
    obtain ⟨c1, c2, c3⟩ := hctz _ (Nat.pos_of_ne_zero hne) (getD_lt h i)
    generalize ctz (a.getD i 0) = c at *
    have hmw : w * i + w ≤ w * a.length := by
      have : w * (i + 1) ≤ w * a.length := Nat.mul_le_mul_left w hil
      rw [Nat.mul_add] at this; omega
    rw [Nat.mul_comm i w]
    refine ⟨by omega, fun k hk => ?_, fun _ => ?_⟩
    · rw [testBit_val hw a h]
      have hj : k % w < w := Nat.mod_lt _ hw
      have hkk : k = w * (k / w) + k % w := (Nat.div_add_mod k w).symm
      generalize k / w = i' at *
      generalize k % w = j at *
      by_cases ci : i' < i
      · rw [h2 i' ci, Nat.zero_testBit]
      · have : i' = i := by
          by_contra hne'
          have : w * (i + 1) ≤ w * i' := Nat.mul_le_mul_left w (by omega)
          rw [Nat.mul_add] at this; omega
        subst this
        have hjc : j < c := by omega
        have : (a.getD i' 0 % 2 ^ c).testBit j = false := by rw [c2]; exact Nat.zero_testBit _
        rw [Nat.testBit_mod_two_pow] at this
        simpa [hjc] using this
    · rw [testBit_val hw a h]
      obtain ⟨e1, e2⟩ := idx_lo hw i c c1
      rw [e1, e2, Nat.testBit_eq_decide_div_mod_eq, c3]; rfl

theorem ClzOK_of_spec {w : Nat} {clz : Nat → Nat} (h : ∀ x, x < 2 ^ w → ClzSpec w x (clz x)) :
    ClzOK w clz := fun x hx hlt => (h x hlt).2 (by omega)
theorem CtzOK_of_spec {w : Nat} {ctz : Nat → Nat} (h : ∀ x, x < 2 ^ w → CtzSpec w x (ctz x)) :
    CtzOK w ctz := fun x hx hlt => (h x hlt).2 (by omega)


/-! ## the 16-bit word helpers: complete enumeration -/

/-! ### specifications of the word helpers (structural, width as a parameter) -/
/-- bit-reversal of the low `k` bits: bit i goes to bit k-1-i -/
def bitrevN : Nat → Nat → Nat | 0, _ => 0 | k+1, x => (x % 2) * 2^k + bitrevN k (x/2)
/-- number of ones among the low `k` bits -/
def popN : Nat → Nat → Nat | 0,_ => 0 | k+1, x => x % 2 + popN k (x/2)
/-- interleave: bit i of `lo` goes to bit 2i, bit i of `hi` to bit 2i+1 (k bits each) -/
def shufN : Nat → Nat → Nat → Nat | 0, _, _ => 0 | k+1, lo, hi => (lo % 2) + 2 * (hi % 2) + 4 * shufN k (lo/2) (hi/2)

/-! ### kernel-friendly copies of the 16-bit models (raw `Nat.*` operations: the kernel evaluates
these about ten times faster than the instance-wrapped notation); each is definitionally the model -/
def k16Rev (w : Nat) : Nat := Nat.mod (Nat.lor (Nat.shiftLeft w 8) (Nat.shiftRight w 8)) 0x10000
def k16Bitrev (w : Nat) : Nat :=
  let w := Nat.mod (Nat.lor (Nat.land (Nat.shiftRight w 1) 0x5555) (Nat.shiftLeft (Nat.land w 0x5555) 1)) 0x10000
  let w := Nat.mod (Nat.lor (Nat.land (Nat.shiftRight w 2) 0x3333) (Nat.shiftLeft (Nat.land w 0x3333) 2)) 0x10000
  let w := Nat.mod (Nat.lor (Nat.land (Nat.shiftRight w 4) 0x0F0F) (Nat.shiftLeft (Nat.land w 0x0F0F) 4)) 0x10000
  let w := Nat.mod (Nat.lor (Nat.shiftRight w 8) (Nat.shiftLeft w 8)) 0x10000
  w
def k16Weight (w : Nat) : Nat :=
  let w := Nat.mod (Nat.add w (Nat.sub 0x10000 (Nat.land (Nat.shiftRight w 1) 0x5555))) 0x10000
  let w := Nat.mod (Nat.add (Nat.land w 0x3333) (Nat.land (Nat.shiftRight w 2) 0x3333)) 0x10000
  let w := Nat.mod (Nat.land (Nat.add w (Nat.shiftRight w 4)) 0x0F0F) 0x10000
  let w := Nat.mod (Nat.add w (Nat.shiftRight w 8)) 0x10000
  Nat.land w 0x001F
def k16Parity (w : Nat) : Nat :=
  let w := Nat.xor w (Nat.shiftRight w 1)
  let w := Nat.xor w (Nat.shiftRight w 2)
  let w := Nat.xor w (Nat.shiftRight w 4)
  let w := Nat.xor w (Nat.shiftRight w 8)
  Nat.land w 1
def k16CTZ_safe (w : Nat) : Nat :=
  Nat.mod (Nat.add 16 (Nat.sub 0x10000000000000000 (k16Weight (Nat.mod (Nat.lor w (Nat.mod (Nat.sub 0x10000 (Nat.mod w 0x10000)) 0x10000)) 0x10000)))) 0x10000000000000000
def k16CLZ_safe (w : Nat) : Nat :=
  let w := Nat.lor w (Nat.shiftRight w 1)
  let w := Nat.lor w (Nat.shiftRight w 2)
  let w := Nat.lor w (Nat.shiftRight w 4)
  let w := Nat.lor w (Nat.shiftRight w 8)
  k16Weight (Nat.mod (Nat.xor w 0xFFFF) 0x10000)
def k16Shuffle (w : Nat) : Nat :=
  let t := Nat.land (Nat.xor w (Nat.shiftRight w 4)) 0x00F0
  let w := Nat.mod (Nat.xor w (Nat.xor t (Nat.shiftLeft t 4))) 0x10000
  let t := Nat.land (Nat.xor w (Nat.shiftRight w 2)) 0x0C0C
  let w := Nat.mod (Nat.xor w (Nat.xor t (Nat.shiftLeft t 2))) 0x10000
  let t := Nat.land (Nat.xor w (Nat.shiftRight w 1)) 0x2222
  let w := Nat.mod (Nat.xor w (Nat.xor t (Nat.shiftLeft t 1))) 0x10000
  w
def k16Deshuffle (w : Nat) : Nat :=
  let t := Nat.land (Nat.xor w (Nat.shiftRight w 1)) 0x2222
  let w := Nat.mod (Nat.xor w (Nat.xor t (Nat.shiftLeft t 1))) 0x10000
  let t := Nat.land (Nat.xor w (Nat.shiftRight w 2)) 0x0C0C
  let w := Nat.mod (Nat.xor w (Nat.xor t (Nat.shiftLeft t 2))) 0x10000
  let t := Nat.land (Nat.xor w (Nat.shiftRight w 4)) 0x00F0
  let w := Nat.mod (Nat.xor w (Nat.xor t (Nat.shiftLeft t 4))) 0x10000
  w
def k16Step (w ret : Nat) : Nat := Nat.mod (Nat.mul ret (Nat.add (Nat.mul w ret) 2)) 0x10000
def k16NegInv (w : Nat) : Nat := k16Step w (k16Step w (k16Step w (k16Step w w)))

theorem k16Rev_eq (w : Nat) : u16Rev w = k16Rev w := rfl
theorem k16Bitrev_eq (w : Nat) : u16Bitrev w = k16Bitrev w := rfl
theorem k16Weight_eq (w : Nat) : u16Weight w = k16Weight w := rfl
theorem k16Parity_eq (w : Nat) : u16Parity w = k16Parity w := rfl
theorem k16CTZ_safe_eq (w : Nat) : u16CTZ_safe w = k16CTZ_safe w := rfl
theorem k16CLZ_safe_eq (w : Nat) : u16CLZ_safe w = k16CLZ_safe w := rfl
theorem k16Shuffle_eq (w : Nat) : u16Shuffle w = k16Shuffle w := rfl
theorem k16Deshuffle_eq (w : Nat) : u16Deshuffle w = k16Deshuffle w := rfl
theorem k16NegInv_eq (w : Nat) : u16NegInv w = k16NegInv w := rfl

def pop16K (x0 : Nat) : Nat :=
  let x1 := Nat.div x0 2
  let x2 := Nat.div x1 2
  let x3 := Nat.div x2 2
  let x4 := Nat.div x3 2
  let x5 := Nat.div x4 2
  let x6 := Nat.div x5 2
  let x7 := Nat.div x6 2
  let x8 := Nat.div x7 2
  let x9 := Nat.div x8 2
  let x10 := Nat.div x9 2
  let x11 := Nat.div x10 2
  let x12 := Nat.div x11 2
  let x13 := Nat.div x12 2
  let x14 := Nat.div x13 2
  let x15 := Nat.div x14 2
  Nat.add (Nat.mod x0 2) (Nat.add (Nat.mod x1 2) (Nat.add (Nat.mod x2 2) (Nat.add (Nat.mod x3 2) (Nat.add (Nat.mod x4 2) (Nat.add (Nat.mod x5 2) (Nat.add (Nat.mod x6 2) (Nat.add (Nat.mod x7 2) (Nat.add (Nat.mod x8 2) (Nat.add (Nat.mod x9 2) (Nat.add (Nat.mod x10 2) (Nat.add (Nat.mod x11 2) (Nat.add (Nat.mod x12 2) (Nat.add (Nat.mod x13 2) (Nat.add (Nat.mod x14 2) (Nat.add (Nat.mod x15 2) (0))))))))))))))))
def brev16K (x0 : Nat) : Nat :=
  let x1 := Nat.div x0 2
  let x2 := Nat.div x1 2
  let x3 := Nat.div x2 2
  let x4 := Nat.div x3 2
  let x5 := Nat.div x4 2
  let x6 := Nat.div x5 2
  let x7 := Nat.div x6 2
  let x8 := Nat.div x7 2
  let x9 := Nat.div x8 2
  let x10 := Nat.div x9 2
  let x11 := Nat.div x10 2
  let x12 := Nat.div x11 2
  let x13 := Nat.div x12 2
  let x14 := Nat.div x13 2
  let x15 := Nat.div x14 2
  Nat.add (Nat.mul (Nat.mod x0 2) 32768) (Nat.add (Nat.mul (Nat.mod x1 2) 16384) (Nat.add (Nat.mul (Nat.mod x2 2) 8192) (Nat.add (Nat.mul (Nat.mod x3 2) 4096) (Nat.add (Nat.mul (Nat.mod x4 2) 2048) (Nat.add (Nat.mul (Nat.mod x5 2) 1024) (Nat.add (Nat.mul (Nat.mod x6 2) 512) (Nat.add (Nat.mul (Nat.mod x7 2) 256) (Nat.add (Nat.mul (Nat.mod x8 2) 128) (Nat.add (Nat.mul (Nat.mod x9 2) 64) (Nat.add (Nat.mul (Nat.mod x10 2) 32) (Nat.add (Nat.mul (Nat.mod x11 2) 16) (Nat.add (Nat.mul (Nat.mod x12 2) 8) (Nat.add (Nat.mul (Nat.mod x13 2) 4) (Nat.add (Nat.mul (Nat.mod x14 2) 2) (Nat.add (Nat.mul (Nat.mod x15 2) 1) (0))))))))))))))))
def shuf16K (l0 h0 : Nat) : Nat :=
  let l1 := Nat.div l0 2
  let l2 := Nat.div l1 2
  let l3 := Nat.div l2 2
  let l4 := Nat.div l3 2
  let l5 := Nat.div l4 2
  let l6 := Nat.div l5 2
  let l7 := Nat.div l6 2
  let h1 := Nat.div h0 2
  let h2 := Nat.div h1 2
  let h3 := Nat.div h2 2
  let h4 := Nat.div h3 2
  let h5 := Nat.div h4 2
  let h6 := Nat.div h5 2
  let h7 := Nat.div h6 2
  Nat.add (Nat.add (Nat.mod l0 2) (Nat.mul 2 (Nat.mod h0 2))) (Nat.mul 4 (Nat.add (Nat.add (Nat.mod l1 2) (Nat.mul 2 (Nat.mod h1 2))) (Nat.mul 4 (Nat.add (Nat.add (Nat.mod l2 2) (Nat.mul 2 (Nat.mod h2 2))) (Nat.mul 4 (Nat.add (Nat.add (Nat.mod l3 2) (Nat.mul 2 (Nat.mod h3 2))) (Nat.mul 4 (Nat.add (Nat.add (Nat.mod l4 2) (Nat.mul 2 (Nat.mod h4 2))) (Nat.mul 4 (Nat.add (Nat.add (Nat.mod l5 2) (Nat.mul 2 (Nat.mod h5 2))) (Nat.mul 4 (Nat.add (Nat.add (Nat.mod l6 2) (Nat.mul 2 (Nat.mod h6 2))) (Nat.mul 4 (Nat.add (Nat.add (Nat.mod l7 2) (Nat.mul 2 (Nat.mod h7 2))) (Nat.mul 4 (0))))))))))))))))

theorem pop16K_eq (x : Nat) : popN 16 x = pop16K x := rfl
theorem brev16K_eq (x : Nat) : bitrevN 16 x = brev16K x := by
  simp only [bitrevN, brev16K]; rfl
theorem shuf16K_eq (l h : Nat) : shufN 8 l h = shuf16K l h := rfl

def k16CTZ_fast (w : Nat) : Nat :=
  let l := 16
  let t := Nat.mod (Nat.shiftLeft w 8) 0x10000
  let (l, w) := if t ≠ 0 then (l - 8, t) else (l, w)
  let t := Nat.mod (Nat.shiftLeft w 4) 0x10000
  let (l, w) := if t ≠ 0 then (l - 4, t) else (l, w)
  let t := Nat.mod (Nat.shiftLeft w 2) 0x10000
  let (l, w) := if t ≠ 0 then (l - 2, t) else (l, w)
  if Nat.mod (Nat.shiftLeft w 1) 0x10000 ≠ 0 then l - 2 else l - (if w ≠ 0 then 1 else 0)
def k16CLZ_fast (w : Nat) : Nat :=
  let l := 16
  let t := Nat.shiftRight w 8
  let (l, w) := if t ≠ 0 then (l - 8, t) else (l, w)
  let t := Nat.shiftRight w 4
  let (l, w) := if t ≠ 0 then (l - 4, t) else (l, w)
  let t := Nat.shiftRight w 2
  let (l, w) := if t ≠ 0 then (l - 2, t) else (l, w)
  if Nat.shiftRight w 1 ≠ 0 then l - 2 else l - (if w ≠ 0 then 1 else 0)
theorem raw_mod (a b : Nat) : Nat.mod a b = a % b := rfl
theorem raw_shl (a b : Nat) : Nat.shiftLeft a b = a <<< b := rfl
theorem raw_shr (a b : Nat) : Nat.shiftRight a b = a >>> b := rfl
theorem k16CTZ_fast_eq (w : Nat) : u16CTZ_fast w = k16CTZ_fast w := by
  simp only [u16CTZ_fast, k16CTZ_fast, raw_mod, raw_shl]
theorem k16CLZ_fast_eq (w : Nat) : u16CLZ_fast w = k16CLZ_fast w := by
  simp only [u16CLZ_fast, k16CLZ_fast, raw_shr]

def ctzOk (x c : Nat) : Bool :=
  bif Nat.beq x 0 then Nat.beq c 16
  else (Nat.blt c 16 && Nat.beq (Nat.mod x (Nat.pow 2 c)) 0 &&
    Nat.beq (Nat.mod (Nat.div x (Nat.pow 2 c)) 2) 1)
def clzOk (x c : Nat) : Bool :=
  bif Nat.beq x 0 then Nat.beq c 16
  else (Nat.blt c 16 && Nat.beq (Nat.div x (Nat.pow 2 (Nat.sub 15 c))) 1)

theorem ctzOk_spec {x c : Nat} (h : ctzOk x c = true) : CtzSpec 16 x c := by
  unfold ctzOk at h
  by_cases hx : x = 0
  · subst hx
    simp at h
    exact ⟨fun _ => h, fun h0 => absurd rfl h0⟩
  · have hb : Nat.beq x 0 = false := by
      cases hb : Nat.beq x 0
      · rfl
      · exact absurd (Nat.eq_of_beq_eq_true hb) hx
    rw [hb] at h
    simp only [cond_false, Bool.and_eq_true, Nat.beq_eq_true_eq, Nat.blt_eq] at h
    exact ⟨fun h0 => absurd h0 hx, fun _ => ⟨h.1.1, Nat.eq_of_beq_eq_true h.1.2, Nat.eq_of_beq_eq_true h.2⟩⟩

theorem clzOk_spec {x c : Nat} (h : clzOk x c = true) : ClzSpec 16 x c := by
  unfold clzOk at h
  by_cases hx : x = 0
  · subst hx
    simp at h
    exact ⟨fun _ => h, fun h0 => absurd rfl h0⟩
  · have hb : Nat.beq x 0 = false := by
      cases hb : Nat.beq x 0
      · rfl
      · exact absurd (Nat.eq_of_beq_eq_true hb) hx
    rw [hb] at h
    simp only [cond_false, Bool.and_eq_true, Nat.beq_eq_true_eq, Nat.blt_eq] at h
    exact ⟨fun h0 => absurd h0 hx, fun _ => ⟨h.1, Nat.eq_of_beq_eq_true h.2⟩⟩

/-- everything that is claimed about the 16-bit helpers at the point `x`, as one Boolean -/
def chk16 (x : Nat) : Bool :=
  Nat.beq (k16Rev x) (Nat.add (Nat.mul (Nat.mod x 256) 256) (Nat.div x 256)) &&
  Nat.beq (k16Bitrev x) (brev16K x) &&
  Nat.beq (k16Weight x) (pop16K x) &&
  Nat.beq (k16Parity x) (Nat.mod (pop16K x) 2) &&
  ctzOk x (k16CTZ_safe x) && ctzOk x (k16CTZ_fast x) &&
  clzOk x (k16CLZ_safe x) && clzOk x (k16CLZ_fast x) &&
  Nat.beq (k16Shuffle x) (shuf16K (Nat.mod x 256) (Nat.div x 256)) &&
  Nat.beq (k16Deshuffle (k16Shuffle x)) x && Nat.beq (k16Shuffle (k16Deshuffle x)) x &&
  (Nat.beq (Nat.mod x 2) 0 || Nat.beq (Nat.mod (Nat.add (Nat.mul (k16NegInv x) x) 1) 65536) 0)

/-- `p` holds at lo, lo+1, …, lo+k-1 (the index is computed from literals, so that the kernel
    evaluates `p` at a literal) -/
def allRange (p : Nat → Bool) : Nat → Nat → Bool
  | _, 0 => true
  | lo, k+1 => p (lo + k) && allRange p lo k

theorem allRange_spec {p : Nat → Bool} {lo k : Nat} (h : allRange p lo k = true) :
    ∀ x, lo ≤ x → x < lo + k → p x = true := by
  induction k with
  | zero => intro x h1 h2; omega
  | succ k ih =>
    intro x h1 h2
    simp only [allRange, Bool.and_eq_true] at h
    by_cases hx : x = lo + k
    · rw [hx]; exact h.1
    · exact ih h.2 x h1 (by omega)

/-! complete enumeration of the 65536 values of a 16-bit word, in 16 chunks checked by the kernel -/
set_option maxRecDepth 100000 in
theorem chk16_c0 : allRange chk16 0 4096 = true := by decide +kernel
set_option maxRecDepth 100000 in
theorem chk16_c1 : allRange chk16 4096 4096 = true := by decide +kernel
set_option maxRecDepth 100000 in
theorem chk16_c2 : allRange chk16 8192 4096 = true := by decide +kernel
set_option maxRecDepth 100000 in
theorem chk16_c3 : allRange chk16 12288 4096 = true := by decide +kernel
set_option maxRecDepth 100000 in
theorem chk16_c4 : allRange chk16 16384 4096 = true := by decide +kernel
set_option maxRecDepth 100000 in
theorem chk16_c5 : allRange chk16 20480 4096 = true := by decide +kernel
set_option maxRecDepth 100000 in
theorem chk16_c6 : allRange chk16 24576 4096 = true := by decide +kernel
set_option maxRecDepth 100000 in
theorem chk16_c7 : allRange chk16 28672 4096 = true := by decide +kernel
set_option maxRecDepth 100000 in
theorem chk16_c8 : allRange chk16 32768 4096 = true := by decide +kernel
set_option maxRecDepth 100000 in
theorem chk16_c9 : allRange chk16 36864 4096 = true := by decide +kernel
set_option maxRecDepth 100000 in
theorem chk16_c10 : allRange chk16 40960 4096 = true := by decide +kernel
set_option maxRecDepth 100000 in
theorem chk16_c11 : allRange chk16 45056 4096 = true := by decide +kernel
set_option maxRecDepth 100000 in
theorem chk16_c12 : allRange chk16 49152 4096 = true := by decide +kernel
set_option maxRecDepth 100000 in
theorem chk16_c13 : allRange chk16 53248 4096 = true := by decide +kernel
set_option maxRecDepth 100000 in
theorem chk16_c14 : allRange chk16 57344 4096 = true := by decide +kernel
set_option maxRecDepth 100000 in
theorem chk16_c15 : allRange chk16 61440 4096 = true := by decide +kernel

theorem chk16_all (x : Nat) (hx : x < 65536) : chk16 x = true := by
  by_cases h0 : x < 4096
  · exact allRange_spec chk16_c0 x (by omega) (by omega)
  by_cases h1 : x < 8192
  · exact allRange_spec chk16_c1 x (by omega) (by omega)
  by_cases h2 : x < 12288
  · exact allRange_spec chk16_c2 x (by omega) (by omega)
  by_cases h3 : x < 16384
  · exact allRange_spec chk16_c3 x (by omega) (by omega)
  by_cases h4 : x < 20480
  · exact allRange_spec chk16_c4 x (by omega) (by omega)
  by_cases h5 : x < 24576
  · exact allRange_spec chk16_c5 x (by omega) (by omega)
  by_cases h6 : x < 28672
  · exact allRange_spec chk16_c6 x (by omega) (by omega)
  by_cases h7 : x < 32768
  · exact allRange_spec chk16_c7 x (by omega) (by omega)
  by_cases h8 : x < 36864
  · exact allRange_spec chk16_c8 x (by omega) (by omega)
  by_cases h9 : x < 40960
  · exact allRange_spec chk16_c9 x (by omega) (by omega)
  by_cases h10 : x < 45056
  · exact allRange_spec chk16_c10 x (by omega) (by omega)
  by_cases h11 : x < 49152
  · exact allRange_spec chk16_c11 x (by omega) (by omega)
  by_cases h12 : x < 53248
  · exact allRange_spec chk16_c12 x (by omega) (by omega)
  by_cases h13 : x < 57344
  · exact allRange_spec chk16_c13 x (by omega) (by omega)
  by_cases h14 : x < 61440
  · exact allRange_spec chk16_c14 x (by omega) (by omega)
  by_cases h15 : x < 65536
  · exact allRange_spec chk16_c15 x (by omega) (by omega)
  omega

/-- the conjuncts of `chk16`, in terms of the models and the structural specifications -/
theorem chk16_unpack {x : Nat} (h : chk16 x = true) :
    u16Rev x = (x % 256) * 256 + x / 256 ∧ u16Bitrev x = bitrevN 16 x ∧
    u16Weight x = popN 16 x ∧ u16Parity x = popN 16 x % 2 ∧
    CtzSpec 16 x (u16CTZ_safe x) ∧ CtzSpec 16 x (u16CTZ_fast x) ∧
    ClzSpec 16 x (u16CLZ_safe x) ∧ ClzSpec 16 x (u16CLZ_fast x) ∧
    u16Shuffle x = shufN 8 (x % 256) (x / 256) ∧
    u16Deshuffle (u16Shuffle x) = x ∧ u16Shuffle (u16Deshuffle x) = x ∧
    (x % 2 = 1 → (u16NegInv x * x + 1) % 65536 = 0) := by
  simp only [chk16, Bool.and_eq_true, Bool.or_eq_true, Nat.beq_eq_true_eq] at h
  obtain ⟨⟨⟨⟨⟨⟨⟨⟨⟨⟨⟨h1, h2⟩, h3⟩, h4⟩, h5⟩, h6⟩, h7⟩, h8⟩, h9⟩, h10⟩, h11⟩, h12⟩ := h
  rw [k16Rev_eq, k16Bitrev_eq, k16Weight_eq, k16Parity_eq, k16CTZ_safe_eq, k16CTZ_fast_eq,
    k16CLZ_safe_eq, k16CLZ_fast_eq, k16Shuffle_eq, k16Deshuffle_eq, k16NegInv_eq,
    pop16K_eq, brev16K_eq, shuf16K_eq]
  have e := @Nat.eq_of_beq_eq_true
  refine ⟨e h1, e h2, e h3, e h4, ctzOk_spec h5, ctzOk_spec h6, clzOk_spec h7, clzOk_spec h8,
    e h9, e h10, e h11, ?_⟩
  intro hodd
  rcases h12 with h12 | h12
  · have : x % 2 = 0 := e h12
    omega
  · exact e h12



/-! ## FAST(uNNCLZ), FAST(uNNCTZ) for all 32- and 64-bit words: the dichotomy, step by step -/

/-- one step of the dichotomy of FAST(uNNCLZ): `if (t = w >> s) l -= s, w = t;` -/
def clzStep (s : Nat) (p : Nat × Nat) : Nat × Nat :=
  if p.2 >>> s ≠ 0 then (p.1 - s, p.2 >>> s) else p
/-- the return statement of FAST(uNNCLZ) -/
def clzFin (p : Nat × Nat) : Nat :=
  if p.2 >>> 1 ≠ 0 then p.1 - 2 else p.1 - (if p.2 ≠ 0 then 1 else 0)

theorem u64CLZ_fast_steps (x : Nat) : u64CLZ_fast x =
    clzFin (clzStep 2 (clzStep 4 (clzStep 8 (clzStep 16 (clzStep 32 (64, x)))))) := by
  rfl

structure ClzInv (N x s2 l w d : Nat) : Prop where
  hw : w = x / 2 ^ d
  hl : l + d = N
  hlt : w < 2 ^ s2
  hs : s2 ≤ l
  hd : d = 0 ∨ w ≠ 0

theorem clz_stage {N x s l w d : Nat} (h : ClzInv N x (2 * s) l w d) :
    ∃ d', ClzInv N x s (clzStep s (l, w)).1 (clzStep s (l, w)).2 d' := by
  unfold clzStep
  simp only [Nat.shiftRight_eq_div_pow]
  by_cases c : w / 2 ^ s ≠ 0
  · rw [if_pos c]
    refine ⟨d + s, ?_, ?_, ?_, ?_, Or.inr c⟩
    · simp only; rw [h.hw, Nat.div_div_eq_div_mul, Nat.pow_add]
    · have := h.hl; have := h.hs; simp only; omega
    · simp only
      apply Nat.div_lt_of_lt_mul
      have := h.hlt
      rwa [Nat.two_mul, Nat.pow_add] at this
    · have := h.hs; simp only; omega
  · rw [if_neg c]
    refine ⟨d, h.hw, h.hl, ?_, by have := h.hs; simp only; omega, h.hd⟩
    simp only
    have : w / 2 ^ s = 0 := by simpa using c
    exact (Nat.div_eq_zero_iff_lt (Nat.two_pow_pos s)).mp this

theorem clz_fin {N x l w d : Nat} (h : ClzInv N x 2 l w d) : ClzSpec N x (clzFin (l, w)) := by
  obtain ⟨hw, hl, hlt, hs, hd⟩ := h
  unfold clzFin ClzSpec
  simp only [Nat.shiftRight_eq_div_pow, Nat.pow_one]
  have hlt' : w < 4 := hlt
  constructor
  · intro hx
    have hw0 : w = 0 := by rw [hw, hx, Nat.zero_div]
    have hd0 : d = 0 := by rcases hd with h1 | h1; exact h1; exact absurd hw0 h1
    subst hw0
    simp; omega
  · intro hx
    have hwne : w ≠ 0 := by
      rcases hd with h1 | h1
      · subst h1; rw [hw]; simpa using hx
      · exact h1
    by_cases c : w / 2 ≠ 0
    · rw [if_pos c]
      refine ⟨by omega, ?_⟩
      have e : N - 1 - (l - 2) = d + 1 := by omega
      rw [e, Nat.pow_succ, ← Nat.div_div_eq_div_mul, ← hw]; omega
    · rw [if_neg c, if_pos hwne]
      refine ⟨by omega, ?_⟩
      have e : N - 1 - (l - 1) = d := by omega
      rw [e, ← hw]; omega

theorem u64CLZ_fast_gen (x : Nat) (hx : x < 2 ^ 64) : ClzSpec 64 x (u64CLZ_fast x) := by
  rw [u64CLZ_fast_steps]
  have h0 : ClzInv 64 x (2 * 32) 64 x 0 := ⟨by simp, rfl, hx, by decide, Or.inl rfl⟩
  obtain ⟨d1, h1⟩ := clz_stage h0
  obtain ⟨d2, h2⟩ := clz_stage (s := 16) h1
  obtain ⟨d3, h3⟩ := clz_stage (s := 8) h2
  obtain ⟨d4, h4⟩ := clz_stage (s := 4) h3
  obtain ⟨d5, h5⟩ := clz_stage (s := 2) h4
  exact clz_fin h5


/-- one step of the dichotomy of FAST(uNNCTZ): `if (t = w << s) l -= s, w = t;` in NN-bit words -/
def ctzStep (M s : Nat) (p : Nat × Nat) : Nat × Nat :=
  if (p.2 <<< s) % M ≠ 0 then (p.1 - s, (p.2 <<< s) % M) else p
/-- the return statement of FAST(uNNCTZ) -/
def ctzFin (M : Nat) (p : Nat × Nat) : Nat :=
  if (p.2 <<< 1) % M ≠ 0 then p.1 - 2 else p.1 - (if p.2 ≠ 0 then 1 else 0)

/-- the shape of FAST(u64CTZ) / FAST(u32CTZ) over an abstract "shift left in the word" `f s w` -/
def ctzGen64 (f : Nat → Nat → Nat) (w : Nat) : Nat :=
  let l := 64
  let t := f 32 w
  let (l, w) := if t ≠ 0 then (l - 32, t) else (l, w)
  let t := f 16 w
  let (l, w) := if t ≠ 0 then (l - 16, t) else (l, w)
  let t := f 8 w
  let (l, w) := if t ≠ 0 then (l - 8, t) else (l, w)
  let t := f 4 w
  let (l, w) := if t ≠ 0 then (l - 4, t) else (l, w)
  let t := f 2 w
  let (l, w) := if t ≠ 0 then (l - 2, t) else (l, w)
  if f 1 w ≠ 0 then l - 2 else l - (if w ≠ 0 then 1 else 0)
def ctzGen32 (f : Nat → Nat → Nat) (w : Nat) : Nat :=
  let l := 32
  let t := f 16 w
  let (l, w) := if t ≠ 0 then (l - 16, t) else (l, w)
  let t := f 8 w
  let (l, w) := if t ≠ 0 then (l - 8, t) else (l, w)
  let t := f 4 w
  let (l, w) := if t ≠ 0 then (l - 4, t) else (l, w)
  let t := f 2 w
  let (l, w) := if t ≠ 0 then (l - 2, t) else (l, w)
  if f 1 w ≠ 0 then l - 2 else l - (if w ≠ 0 then 1 else 0)
def ctzStepG (f : Nat → Nat → Nat) (s : Nat) (p : Nat × Nat) : Nat × Nat :=
  if f s p.2 ≠ 0 then (p.1 - s, f s p.2) else p
def ctzFinG (f : Nat → Nat → Nat) (p : Nat × Nat) : Nat :=
  if f 1 p.2 ≠ 0 then p.1 - 2 else p.1 - (if p.2 ≠ 0 then 1 else 0)
theorem ctzGen64_steps (f : Nat → Nat → Nat) (x : Nat) : ctzGen64 f x =
    ctzFinG f (ctzStepG f 2 (ctzStepG f 4 (ctzStepG f 8 (ctzStepG f 16 (ctzStepG f 32 (64, x)))))) :=
  rfl
theorem ctzGen32_steps (f : Nat → Nat → Nat) (x : Nat) : ctzGen32 f x =
    ctzFinG f (ctzStepG f 2 (ctzStepG f 4 (ctzStepG f 8 (ctzStepG f 16 (32, x))))) := rfl
theorem u64CTZ_fast_gen' (x : Nat) :
    u64CTZ_fast x = ctzGen64 (fun s w => (w <<< s) % 0x10000000000000000) x := by
  simp only [u64CTZ_fast, ctzGen64]
theorem u32CTZ_fast_gen' (x : Nat) :
    u32CTZ_fast x = ctzGen32 (fun s w => (w <<< s) % 0x100000000) x := by
  simp only [u32CTZ_fast, ctzGen32]
theorem ctzStepG_eq (M s : Nat) (p : Nat × Nat) :
    ctzStepG (fun s w => (w <<< s) % M) s p = ctzStep M s p := rfl
theorem ctzFinG_eq (M : Nat) (p : Nat × Nat) :
    ctzFinG (fun s w => (w <<< s) % M) p = ctzFin M p := rfl
theorem u64CTZ_fast_steps (x : Nat) : u64CTZ_fast x =
    ctzFin 0x10000000000000000 (ctzStep 0x10000000000000000 2 (ctzStep 0x10000000000000000 4
      (ctzStep 0x10000000000000000 8 (ctzStep 0x10000000000000000 16
        (ctzStep 0x10000000000000000 32 (64, x)))))) := by
  rw [u64CTZ_fast_gen', ctzGen64_steps]
  simp only [ctzStepG_eq, ctzFinG_eq]
theorem u32CTZ_fast_steps (x : Nat) : u32CTZ_fast x =
    ctzFin 0x100000000 (ctzStep 0x100000000 2 (ctzStep 0x100000000 4
      (ctzStep 0x100000000 8 (ctzStep 0x100000000 16 (32, x))))) := by
  rw [u32CTZ_fast_gen', ctzGen32_steps]
  simp only [ctzStepG_eq, ctzFinG_eq]

/-- invariant: `w` is `x` shifted left by `d = N - l` places (in N-bit words), and the bits of `w`
    below position `N - s2` are zero -/
structure CtzInv (N x s2 l w d : Nat) : Prop where
  hw : w = (x * 2 ^ d) % 2 ^ N
  hl : l + d = N
  hlo : ∀ k, k + s2 < N → w.testBit k = false
  hs : s2 ≤ l
  hd : d = 0 ∨ w ≠ 0

theorem ctz_stage {N x s l w d : Nat} (h : CtzInv N x (2 * s) l w d) :
    ∃ d', CtzInv N x s (ctzStep (2 ^ N) s (l, w)).1 (ctzStep (2 ^ N) s (l, w)).2 d' := by
  obtain ⟨hw, hl, hlo, hs, hd⟩ := h
  unfold ctzStep
  simp only [Nat.shiftLeft_eq]
  by_cases c : (w * 2 ^ s) % 2 ^ N ≠ 0
  · rw [if_pos c]
    refine ⟨d + s, ?_, by simp only; omega, ?_, by simp only; omega, Or.inr c⟩
    · simp only
      rw [hw, Nat.mod_mul_mod, Nat.pow_add, Nat.mul_assoc]
    · intro k hk
      simp only
      rw [Nat.testBit_mod_two_pow, Nat.testBit_mul_two_pow]
      by_cases c1 : s ≤ k
      · rw [hlo (k - s) (by omega)]; simp
      · simp [c1]
  · rw [if_neg c]
    have hz : (w * 2 ^ s) % 2 ^ N = 0 := by simpa using c
    refine ⟨d, hw, hl, ?_, by simp only; omega, hd⟩
    intro k hk
    simp only
    have : ((w * 2 ^ s) % 2 ^ N).testBit (k + s) = false := by rw [hz]; exact Nat.zero_testBit _
    rw [Nat.testBit_mod_two_pow, Nat.testBit_mul_two_pow] at this
    have c1 : k + s < N := hk
    have c2 : s ≤ k + s := by omega
    simpa [c1, c2] using this

theorem ctz_fin {N x l w d : Nat} (hN : 2 ≤ N) (hx : x < 2 ^ N) (h : CtzInv N x 2 l w d) :
    CtzSpec N x (ctzFin (2 ^ N) (l, w)) := by
  obtain ⟨hw, hl, hlo, hs, hd⟩ := h
  -- bits of w in terms of x
  have hb : ∀ k, w.testBit k = (decide (k < N) && (decide (d ≤ k) && x.testBit (k - d))) := by
    intro k; rw [hw, Nat.testBit_mod_two_pow, Nat.testBit_mul_two_pow]
  have hxlow : ∀ j, j + d + 2 < N → x.testBit j = false := by
    intro j hj
    have := hlo (j + d) (by omega)
    rw [hb] at this
    have c1 : j + d < N := by omega
    have c2 : d ≤ j + d := by omega
    simpa [c1, c2] using this
  unfold ctzFin CtzSpec
  simp only [Nat.shiftLeft_eq, Nat.pow_one]
  constructor
  · intro hx0
    have hw0 : w = 0 := by rw [hw, hx0]; simp
    have hd0 : d = 0 := by rcases hd with h1 | h1; exact h1; exact absurd hw0 h1
    subst hw0
    simp; omega
  · intro hx0
    have hwne : w ≠ 0 := by
      rcases hd with h1 | h1
      · subst h1; rw [hw]; simp only [Nat.pow_zero, Nat.mul_one]
        rw [Nat.mod_eq_of_lt hx]; exact hx0
      · exact h1
    -- from a position c with bit c of x set and all lower bits clear
    have key : ∀ c, x.testBit c = true → (∀ j, j < c → x.testBit j = false) →
        x % 2 ^ c = 0 ∧ x / 2 ^ c % 2 = 1 := by
      intro c h1 h2
      constructor
      · apply Nat.eq_of_testBit_eq; intro j
        rw [Nat.testBit_mod_two_pow, Nat.zero_testBit]
        by_cases cj : j < c
        · simp [h2 j cj]
        · simp [cj]
      · rw [Nat.testBit_eq_decide_div_mod_eq] at h1
        simpa using h1
    by_cases c : (w * 2) % 2 ^ N ≠ 0
    · -- bit N - 2 of w is set
      rw [if_pos c]
      have hbit : w.testBit (N - 2) = true := by
        by_contra hne
        have hne : w.testBit (N - 2) = false := by simpa using hne
        apply c
        apply Nat.eq_of_testBit_eq; intro k
        have e : w * 2 = w * 2 ^ 1 := by rw [Nat.pow_one]
        rw [e, Nat.testBit_mod_two_pow, Nat.testBit_mul_two_pow, Nat.zero_testBit]
        by_cases c1 : k < N
        · by_cases c2 : 1 ≤ k
          · by_cases c3 : k - 1 = N - 2
            · rw [c3, hne]; simp
            · rw [hlo (k - 1) (by omega)]; simp
          · simp [c2]
        · simp [c1]
      rw [hb] at hbit
      have c1 : N - 2 < N := by omega
      simp only [c1, decide_true, Bool.true_and, Bool.and_eq_true, decide_eq_true_eq] at hbit
      obtain ⟨hd2, hxb⟩ := hbit
      have e : N - 2 - d = l - 2 := by omega
      rw [e] at hxb
      refine ⟨by omega, key (l - 2) hxb (fun j hj => hxlow j (by omega))⟩
    · rw [if_neg c, if_pos hwne]
      have hz : (w * 2) % 2 ^ N = 0 := by simpa using c
      -- bits below N - 1 of w are zero, so bit N - 1 is set
      have hlow1 : ∀ k, k + 1 < N → w.testBit k = false := by
        intro k hk
        have : ((w * 2 ^ 1) % 2 ^ N).testBit (k + 1) = false := by
          rw [Nat.pow_one, hz]; exact Nat.zero_testBit _
        rw [Nat.testBit_mod_two_pow, Nat.testBit_mul_two_pow] at this
        have c2 : 1 ≤ k + 1 := by omega
        simpa [hk, c2] using this
      have hwlt : w < 2 ^ N := by rw [hw]; exact Nat.mod_lt _ (Nat.two_pow_pos N)
      have hbit : w.testBit (N - 1) = true := by
        by_contra hne
        have hne : w.testBit (N - 1) = false := by simpa using hne
        apply hwne
        apply Nat.eq_of_testBit_eq; intro k
        rw [Nat.zero_testBit]
        by_cases c1 : k + 1 < N
        · exact hlow1 k c1
        · by_cases c2 : k = N - 1
          · rw [c2]; exact hne
          · exact Nat.testBit_lt_two_pow (Nat.lt_of_lt_of_le hwlt
              (Nat.pow_le_pow_right (by decide) (by omega)))
      rw [hb] at hbit
      have c1 : N - 1 < N := by omega
      simp only [c1, decide_true, Bool.true_and, Bool.and_eq_true, decide_eq_true_eq] at hbit
      obtain ⟨hd2, hxb⟩ := hbit
      have e : N - 1 - d = l - 1 := by omega
      rw [e] at hxb
      refine ⟨by omega, key (l - 1) hxb (fun j hj => ?_)⟩
      have := hlow1 (j + d) (by omega)
      rw [hb] at this
      have c3 : j + d < N := by omega
      have c4 : d ≤ j + d := by omega
      simpa [c3, c4] using this

theorem ctz_init {N x : Nat} (hx : x < 2 ^ N) (s : Nat) (hs : 2 * s = N) :
    CtzInv N x (2 * s) N x 0 :=
  ⟨by simp [Nat.mod_eq_of_lt hx], rfl, fun k hk => by omega, by omega, Or.inl rfl⟩

attribute [irreducible] ctzStep ctzFin

theorem pow64 : (0x10000000000000000 : Nat) = 2 ^ 64 := by norm_num
theorem pow32 : (0x100000000 : Nat) = 2 ^ 32 := by norm_num

theorem u64CTZ_fast_gen (x : Nat) (hx : x < 2 ^ 64) : CtzSpec 64 x (u64CTZ_fast x) := by
  rw [u64CTZ_fast_steps, pow64]
  have h0 : CtzInv 64 x (2 * 32) 64 x 0 := ctz_init hx 32 rfl
  obtain ⟨d1, h1⟩ := ctz_stage h0
  obtain ⟨d2, h2⟩ := ctz_stage (N := 64) (s := 16) h1
  obtain ⟨d3, h3⟩ := ctz_stage (N := 64) (s := 8) h2
  obtain ⟨d4, h4⟩ := ctz_stage (N := 64) (s := 4) h3
  obtain ⟨d5, h5⟩ := ctz_stage (N := 64) (s := 2) h4
  exact ctz_fin (N := 64) (by decide) hx h5


theorem u32CTZ_fast_gen (x : Nat) (hx : x < 2 ^ 32) : CtzSpec 32 x (u32CTZ_fast x) := by
  rw [u32CTZ_fast_steps, pow32]
  have h0 : CtzInv 32 x (2 * 16) 32 x 0 := ctz_init hx 16 rfl
  obtain ⟨d1, h1⟩ := ctz_stage h0
  obtain ⟨d2, h2⟩ := ctz_stage (N := 32) (s := 8) h1
  obtain ⟨d3, h3⟩ := ctz_stage (N := 32) (s := 4) h2
  obtain ⟨d4, h4⟩ := ctz_stage (N := 32) (s := 2) h3
  exact ctz_fin (N := 32) (by decide) hx h4


/-! ## wwIsW, wwIsRepW -/

theorem foldl_and_all (p : Nat → Bool) : ∀ (l : List Nat) (b : Bool),
    l.foldl (fun r y => r && p y) b = (b && l.all p) := by
  intro l
  induction l with
  | nil => intro b; simp
  | cons y ys ih => intro b; simp [List.foldl_cons, ih, Bool.and_assoc]

theorem isW_fastLoop_eq : ∀ (l : List Nat) (b : Bool),
    wwIsW_fastLoop b l = (b && l.all (· == 0)) := by
  intro l
  induction l with
  | nil => intro b; simp [wwIsW_fastLoop]
  | cons y ys ih =>
    intro b
    cases b
    · simp [wwIsW_fastLoop]
    · simp [wwIsW_fastLoop, ih]

theorem isRepW_fastLoop_eq (x : Nat) : ∀ (l : List Nat),
    wwIsRepW_fastLoop x l = l.all (· == x) := by
  intro l
  induction l with
  | nil => simp [wwIsRepW_fastLoop]
  | cons y ys ih =>
    by_cases h : y = x
    · simp [wwIsRepW_fastLoop, h, ih]
    · simp [wwIsRepW_fastLoop, h]

theorem wwIsW_both (a : List Nat) (x : Nat) :
    wwIsW_fast a x = wwIsW_safe a x ∧
    (wwIsW_safe a x = true ↔
      (a = [] ∧ x = 0) ∨ (∃ as, a = x :: as ∧ ∀ y ∈ as, y = 0)) := by
  cases a with
  | nil => simp [wwIsW_safe, wwIsW_fast]
  | cons a0 as =>
    simp only [wwIsW_safe, wwIsW_fast, isW_fastLoop_eq, foldl_and_all, List.all_reverse]
    refine ⟨trivial, ?_⟩
    simp only [Bool.and_eq_true, beq_iff_eq, List.all_eq_true]
    constructor
    · intro ⟨h1, h2⟩
      exact Or.inr ⟨as, by rw [h1], h2⟩
    · intro h
      rcases h with ⟨h1, _⟩ | ⟨as', h1, h2⟩
      · cases h1
      · cases h1
        exact ⟨rfl, h2⟩

theorem wwIsRepW_both (a : List Nat) (x : Nat) :
    wwIsRepW_fast a x = wwIsRepW_safe a x ∧
    (wwIsRepW_safe a x = true ↔ (a = [] ∧ x = 0) ∨ (a ≠ [] ∧ ∀ y ∈ a, y = x)) := by
  cases a with
  | nil => simp [wwIsRepW_safe, wwIsRepW_fast]
  | cons a0 as =>
    simp only [wwIsRepW_safe, wwIsRepW_fast, isRepW_fastLoop_eq, foldl_and_all, List.all_reverse]
    constructor
    · simp [Bool.and_comm]
    · simp


end Bee2V.C05
